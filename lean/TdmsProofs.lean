import TdmsProofs.Properties.C12
import TdmsProofs.Properties.C16
import TdmsProofs.Properties.C17
import TdmsProofs.Properties.C18
import TdmsProofs.Properties.C18ExpSound
import TdmsProofs.Properties.C20
import TdmsProofs.Properties.C13
import TdmsProofs.Properties.C14
