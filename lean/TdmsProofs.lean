import TdmsProofs.Properties.C12
import TdmsProofs.Properties.C17
