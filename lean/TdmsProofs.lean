import TdmsProofs.Properties.C12
import TdmsProofs.Properties.C16
import TdmsProofs.Properties.C17
