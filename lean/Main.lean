import Tdms
import Tdms.Driver

open Tdms.Driver

def handle (line : String) : String :=
  match (line.trimAscii.toString.splitOn " ").filter (· ≠ "") with
  | [] => jObj [("ok", "false"), ("err", jStr "empty")]
  | cmd :: args =>
    match dispatchBase cmd args with
    | some r => r
    | none => jObj [("ok", "false"), ("err", jStr "unknown-command")]

partial def loop (hin : IO.FS.Stream) (hout : IO.FS.Stream) : IO Unit := do
  let line ← hin.getLine
  if line.isEmpty then return ()
  hout.putStrLn (handle line)
  hout.flush
  loop hin hout

def main : IO Unit := do
  loop (← IO.getStdin) (← IO.getStdout)
