import TdmsProofs.C18Lemmas

/-! Grid checks for thermocouple type E (one kernel evaluation per chunk; see `C18Lemmas` §8). -/

namespace Tdms.Proofs.C18.Grid
open Tdms.Generated Tdms.Model.Thermocouple Tdms.Proofs.C18

theorem monoE_0 : enclosuresIncreasing ((monoSpecE.chunk 0).map (forwardEnclosure monoSpecE.table)) = true := by
  decide +kernel
theorem monoE_1 : enclosuresIncreasing ((monoSpecE.chunk 1).map (forwardEnclosure monoSpecE.table)) = true := by
  decide +kernel
theorem monoE_2 : enclosuresIncreasing ((monoSpecE.chunk 2).map (forwardEnclosure monoSpecE.table)) = true := by
  decide +kernel
theorem monoE_3 : enclosuresIncreasing ((monoSpecE.chunk 3).map (forwardEnclosure monoSpecE.table)) = true := by
  decide +kernel

theorem monoE : IncreasingOnGrid monoSpecE :=
  forall_lt_four (P := fun i => enclosuresIncreasing ((monoSpecE.chunk i).map (forwardEnclosure monoSpecE.table)) = true)
    monoE_0 monoE_1 monoE_2 monoE_3

theorem invE_0 : inverseErrorsWithin invSpecE.table invTolE (invSpecE.chunk 0) = true := by
  decide +kernel
theorem invE_1 : inverseErrorsWithin invSpecE.table invTolE (invSpecE.chunk 1) = true := by
  decide +kernel
theorem invE_2 : inverseErrorsWithin invSpecE.table invTolE (invSpecE.chunk 2) = true := by
  decide +kernel
theorem invE_3 : inverseErrorsWithin invSpecE.table invTolE (invSpecE.chunk 3) = true := by
  decide +kernel

theorem invE : InverseErrorOnGrid invSpecE invTolE :=
  forall_lt_four (P := fun i => inverseErrorsWithin invSpecE.table invTolE (invSpecE.chunk i) = true)
    invE_0 invE_1 invE_2 invE_3

end Tdms.Proofs.C18.Grid
