import TdmsProofs.C18Lemmas

/-! Grid checks for thermocouple type J (one kernel evaluation per chunk; see `C18Lemmas` §8). -/

namespace Tdms.Proofs.C18.Grid
open Tdms.Generated Tdms.Model.Thermocouple Tdms.Proofs.C18

theorem monoJ_0 : enclosuresIncreasing ((monoSpecJ.chunk 0).map (forwardEnclosure monoSpecJ.table)) = true := by
  decide +kernel
theorem monoJ_1 : enclosuresIncreasing ((monoSpecJ.chunk 1).map (forwardEnclosure monoSpecJ.table)) = true := by
  decide +kernel
theorem monoJ_2 : enclosuresIncreasing ((monoSpecJ.chunk 2).map (forwardEnclosure monoSpecJ.table)) = true := by
  decide +kernel
theorem monoJ_3 : enclosuresIncreasing ((monoSpecJ.chunk 3).map (forwardEnclosure monoSpecJ.table)) = true := by
  decide +kernel

theorem monoJ : IncreasingOnGrid monoSpecJ :=
  forall_lt_four (P := fun i => enclosuresIncreasing ((monoSpecJ.chunk i).map (forwardEnclosure monoSpecJ.table)) = true)
    monoJ_0 monoJ_1 monoJ_2 monoJ_3

theorem invJ_0 : inverseErrorsWithin invSpecJ.table invTolJ (invSpecJ.chunk 0) = true := by
  decide +kernel
theorem invJ_1 : inverseErrorsWithin invSpecJ.table invTolJ (invSpecJ.chunk 1) = true := by
  decide +kernel
theorem invJ_2 : inverseErrorsWithin invSpecJ.table invTolJ (invSpecJ.chunk 2) = true := by
  decide +kernel
theorem invJ_3 : inverseErrorsWithin invSpecJ.table invTolJ (invSpecJ.chunk 3) = true := by
  decide +kernel

theorem invJ : InverseErrorOnGrid invSpecJ invTolJ :=
  forall_lt_four (P := fun i => inverseErrorsWithin invSpecJ.table invTolJ (invSpecJ.chunk i) = true)
    invJ_0 invJ_1 invJ_2 invJ_3

end Tdms.Proofs.C18.Grid
