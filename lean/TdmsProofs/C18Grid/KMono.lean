import TdmsProofs.C18Lemmas

/-! Grid checks for thermocouple type K, monotonicity (one kernel evaluation per chunk; see `C18Lemmas` §8). -/

namespace Tdms.Proofs.C18.Grid
open Tdms.Generated Tdms.Model.Thermocouple Tdms.Proofs.C18

theorem monoK_0 : enclosuresIncreasing ((monoSpecK.chunk 0).map (forwardEnclosure monoSpecK.table)) = true := by
  decide +kernel
theorem monoK_1 : enclosuresIncreasing ((monoSpecK.chunk 1).map (forwardEnclosure monoSpecK.table)) = true := by
  decide +kernel
theorem monoK_2 : enclosuresIncreasing ((monoSpecK.chunk 2).map (forwardEnclosure monoSpecK.table)) = true := by
  decide +kernel
theorem monoK_3 : enclosuresIncreasing ((monoSpecK.chunk 3).map (forwardEnclosure monoSpecK.table)) = true := by
  decide +kernel

theorem monoK : IncreasingOnGrid monoSpecK :=
  forall_lt_four (P := fun i => enclosuresIncreasing ((monoSpecK.chunk i).map (forwardEnclosure monoSpecK.table)) = true)
    monoK_0 monoK_1 monoK_2 monoK_3

end Tdms.Proofs.C18.Grid
