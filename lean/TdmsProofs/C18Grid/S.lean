import TdmsProofs.C18Lemmas

/-! Grid checks for thermocouple type S (one kernel evaluation per chunk; see `C18Lemmas` §8). -/

namespace Tdms.Proofs.C18.Grid
open Tdms.Generated Tdms.Model.Thermocouple Tdms.Proofs.C18

theorem monoS_0 : enclosuresIncreasing ((monoSpecS.chunk 0).map (forwardEnclosure monoSpecS.table)) = true := by
  decide +kernel
theorem monoS_1 : enclosuresIncreasing ((monoSpecS.chunk 1).map (forwardEnclosure monoSpecS.table)) = true := by
  decide +kernel
theorem monoS_2 : enclosuresIncreasing ((monoSpecS.chunk 2).map (forwardEnclosure monoSpecS.table)) = true := by
  decide +kernel
theorem monoS_3 : enclosuresIncreasing ((monoSpecS.chunk 3).map (forwardEnclosure monoSpecS.table)) = true := by
  decide +kernel

theorem monoS : IncreasingOnGrid monoSpecS :=
  forall_lt_four (P := fun i => enclosuresIncreasing ((monoSpecS.chunk i).map (forwardEnclosure monoSpecS.table)) = true)
    monoS_0 monoS_1 monoS_2 monoS_3

theorem invS_0 : inverseErrorsWithin invSpecS.table invTolS (invSpecS.chunk 0) = true := by
  decide +kernel
theorem invS_1 : inverseErrorsWithin invSpecS.table invTolS (invSpecS.chunk 1) = true := by
  decide +kernel
theorem invS_2 : inverseErrorsWithin invSpecS.table invTolS (invSpecS.chunk 2) = true := by
  decide +kernel
theorem invS_3 : inverseErrorsWithin invSpecS.table invTolS (invSpecS.chunk 3) = true := by
  decide +kernel

theorem invS : InverseErrorOnGrid invSpecS invTolS :=
  forall_lt_four (P := fun i => inverseErrorsWithin invSpecS.table invTolS (invSpecS.chunk i) = true)
    invS_0 invS_1 invS_2 invS_3

end Tdms.Proofs.C18.Grid
