import TdmsProofs.C18Lemmas

/-! Grid checks for thermocouple type R (one kernel evaluation per chunk; see `C18Lemmas` §8). -/

namespace Tdms.Proofs.C18.Grid
open Tdms.Generated Tdms.Model.Thermocouple Tdms.Proofs.C18

theorem monoR_0 : enclosuresIncreasing ((monoSpecR.chunk 0).map (forwardEnclosure monoSpecR.table)) = true := by
  decide +kernel
theorem monoR_1 : enclosuresIncreasing ((monoSpecR.chunk 1).map (forwardEnclosure monoSpecR.table)) = true := by
  decide +kernel
theorem monoR_2 : enclosuresIncreasing ((monoSpecR.chunk 2).map (forwardEnclosure monoSpecR.table)) = true := by
  decide +kernel
theorem monoR_3 : enclosuresIncreasing ((monoSpecR.chunk 3).map (forwardEnclosure monoSpecR.table)) = true := by
  decide +kernel

theorem monoR : IncreasingOnGrid monoSpecR :=
  forall_lt_four (P := fun i => enclosuresIncreasing ((monoSpecR.chunk i).map (forwardEnclosure monoSpecR.table)) = true)
    monoR_0 monoR_1 monoR_2 monoR_3

theorem invR_0 : inverseErrorsWithin invSpecR.table invTolR (invSpecR.chunk 0) = true := by
  decide +kernel
theorem invR_1 : inverseErrorsWithin invSpecR.table invTolR (invSpecR.chunk 1) = true := by
  decide +kernel
theorem invR_2 : inverseErrorsWithin invSpecR.table invTolR (invSpecR.chunk 2) = true := by
  decide +kernel
theorem invR_3 : inverseErrorsWithin invSpecR.table invTolR (invSpecR.chunk 3) = true := by
  decide +kernel

theorem invR : InverseErrorOnGrid invSpecR invTolR :=
  forall_lt_four (P := fun i => inverseErrorsWithin invSpecR.table invTolR (invSpecR.chunk i) = true)
    invR_0 invR_1 invR_2 invR_3

end Tdms.Proofs.C18.Grid
