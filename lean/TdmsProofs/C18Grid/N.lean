import TdmsProofs.C18Lemmas

/-! Grid checks for thermocouple type N (one kernel evaluation per chunk; see `C18Lemmas` §8). -/

namespace Tdms.Proofs.C18.Grid
open Tdms.Generated Tdms.Model.Thermocouple Tdms.Proofs.C18

theorem monoN_0 : enclosuresIncreasing ((monoSpecN.chunk 0).map (forwardEnclosure monoSpecN.table)) = true := by
  decide +kernel
theorem monoN_1 : enclosuresIncreasing ((monoSpecN.chunk 1).map (forwardEnclosure monoSpecN.table)) = true := by
  decide +kernel
theorem monoN_2 : enclosuresIncreasing ((monoSpecN.chunk 2).map (forwardEnclosure monoSpecN.table)) = true := by
  decide +kernel
theorem monoN_3 : enclosuresIncreasing ((monoSpecN.chunk 3).map (forwardEnclosure monoSpecN.table)) = true := by
  decide +kernel

theorem monoN : IncreasingOnGrid monoSpecN :=
  forall_lt_four (P := fun i => enclosuresIncreasing ((monoSpecN.chunk i).map (forwardEnclosure monoSpecN.table)) = true)
    monoN_0 monoN_1 monoN_2 monoN_3

theorem invN_0 : inverseErrorsWithin invSpecN.table invTolN (invSpecN.chunk 0) = true := by
  decide +kernel
theorem invN_1 : inverseErrorsWithin invSpecN.table invTolN (invSpecN.chunk 1) = true := by
  decide +kernel
theorem invN_2 : inverseErrorsWithin invSpecN.table invTolN (invSpecN.chunk 2) = true := by
  decide +kernel
theorem invN_3 : inverseErrorsWithin invSpecN.table invTolN (invSpecN.chunk 3) = true := by
  decide +kernel

theorem invN : InverseErrorOnGrid invSpecN invTolN :=
  forall_lt_four (P := fun i => inverseErrorsWithin invSpecN.table invTolN (invSpecN.chunk i) = true)
    invN_0 invN_1 invN_2 invN_3

end Tdms.Proofs.C18.Grid
