import TdmsProofs.C18Lemmas

/-! Grid checks for thermocouple type K, inverse error (one kernel evaluation per chunk; see `C18Lemmas` §8). -/

namespace Tdms.Proofs.C18.Grid
open Tdms.Generated Tdms.Model.Thermocouple Tdms.Proofs.C18

theorem invK_0 : inverseErrorsWithin invSpecK.table invTolK (invSpecK.chunk 0) = true := by
  decide +kernel
theorem invK_1 : inverseErrorsWithin invSpecK.table invTolK (invSpecK.chunk 1) = true := by
  decide +kernel
theorem invK_2 : inverseErrorsWithin invSpecK.table invTolK (invSpecK.chunk 2) = true := by
  decide +kernel
theorem invK_3 : inverseErrorsWithin invSpecK.table invTolK (invSpecK.chunk 3) = true := by
  decide +kernel

theorem invK : InverseErrorOnGrid invSpecK invTolK :=
  forall_lt_four (P := fun i => inverseErrorsWithin invSpecK.table invTolK (invSpecK.chunk i) = true)
    invK_0 invK_1 invK_2 invK_3

end Tdms.Proofs.C18.Grid
