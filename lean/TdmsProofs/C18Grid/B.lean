import TdmsProofs.C18Lemmas

/-! Grid checks for thermocouple type B (one kernel evaluation per chunk; see `C18Lemmas` §8). -/

namespace Tdms.Proofs.C18.Grid
open Tdms.Generated Tdms.Model.Thermocouple Tdms.Proofs.C18

theorem monoB_0 : enclosuresIncreasing ((monoSpecB.chunk 0).map (forwardEnclosure monoSpecB.table)) = true := by
  decide +kernel
theorem monoB_1 : enclosuresIncreasing ((monoSpecB.chunk 1).map (forwardEnclosure monoSpecB.table)) = true := by
  decide +kernel
theorem monoB_2 : enclosuresIncreasing ((monoSpecB.chunk 2).map (forwardEnclosure monoSpecB.table)) = true := by
  decide +kernel
theorem monoB_3 : enclosuresIncreasing ((monoSpecB.chunk 3).map (forwardEnclosure monoSpecB.table)) = true := by
  decide +kernel

theorem monoB : IncreasingOnGrid monoSpecB :=
  forall_lt_four (P := fun i => enclosuresIncreasing ((monoSpecB.chunk i).map (forwardEnclosure monoSpecB.table)) = true)
    monoB_0 monoB_1 monoB_2 monoB_3

theorem decrB_0 : enclosuresDecreasing ((decrSpecB.chunk 0).map (forwardEnclosure decrSpecB.table)) = true := by
  decide +kernel

theorem decrB : DecreasingOnGrid decrSpecB :=
  forall_lt_one (P := fun i => enclosuresDecreasing ((decrSpecB.chunk i).map (forwardEnclosure decrSpecB.table)) = true) decrB_0

theorem invB_0 : inverseErrorsWithin invSpecB.table invTolB (invSpecB.chunk 0) = true := by
  decide +kernel
theorem invB_1 : inverseErrorsWithin invSpecB.table invTolB (invSpecB.chunk 1) = true := by
  decide +kernel
theorem invB_2 : inverseErrorsWithin invSpecB.table invTolB (invSpecB.chunk 2) = true := by
  decide +kernel
theorem invB_3 : inverseErrorsWithin invSpecB.table invTolB (invSpecB.chunk 3) = true := by
  decide +kernel

theorem invB : InverseErrorOnGrid invSpecB invTolB :=
  forall_lt_four (P := fun i => inverseErrorsWithin invSpecB.table invTolB (invSpecB.chunk i) = true)
    invB_0 invB_1 invB_2 invB_3

end Tdms.Proofs.C18.Grid
