import TdmsProofs.C18Lemmas

/-! Grid checks for thermocouple type T (one kernel evaluation per chunk; see `C18Lemmas` §8). -/

namespace Tdms.Proofs.C18.Grid
open Tdms.Generated Tdms.Model.Thermocouple Tdms.Proofs.C18

theorem monoT_0 : enclosuresIncreasing ((monoSpecT.chunk 0).map (forwardEnclosure monoSpecT.table)) = true := by
  decide +kernel
theorem monoT_1 : enclosuresIncreasing ((monoSpecT.chunk 1).map (forwardEnclosure monoSpecT.table)) = true := by
  decide +kernel
theorem monoT_2 : enclosuresIncreasing ((monoSpecT.chunk 2).map (forwardEnclosure monoSpecT.table)) = true := by
  decide +kernel
theorem monoT_3 : enclosuresIncreasing ((monoSpecT.chunk 3).map (forwardEnclosure monoSpecT.table)) = true := by
  decide +kernel

theorem monoT : IncreasingOnGrid monoSpecT :=
  forall_lt_four (P := fun i => enclosuresIncreasing ((monoSpecT.chunk i).map (forwardEnclosure monoSpecT.table)) = true)
    monoT_0 monoT_1 monoT_2 monoT_3

theorem invT_0 : inverseErrorsWithin invSpecT.table invTolT (invSpecT.chunk 0) = true := by
  decide +kernel
theorem invT_1 : inverseErrorsWithin invSpecT.table invTolT (invSpecT.chunk 1) = true := by
  decide +kernel
theorem invT_2 : inverseErrorsWithin invSpecT.table invTolT (invSpecT.chunk 2) = true := by
  decide +kernel
theorem invT_3 : inverseErrorsWithin invSpecT.table invTolT (invSpecT.chunk 3) = true := by
  decide +kernel

theorem invT : InverseErrorOnGrid invSpecT invTolT :=
  forall_lt_four (P := fun i => inverseErrorsWithin invSpecT.table invTolT (invSpecT.chunk i) = true)
    invT_0 invT_1 invT_2 invT_3

end Tdms.Proofs.C18.Grid
