import TdmsProofs.Model.Sensors

/-!
Evaluator used by the C17 correspondence check: runs the transcribed formulas of
`TdmsProofs/Model/Sensors.lean` over ℚ on inputs given as `num/den` tokens, one request per line.
Run with `lake env lean --run TdmsProofs/Eval/SensorsEval.lean` (it imports Mathlib, so it is not part of
the compiled model executable).
-/

open Tdms.Model.Sensors

def parseRat (s : String) : Option ℚ :=
  match s.splitOn "/" with
  | [n] => n.toInt?.map fun i => (i : ℚ)
  | [n, d] => do
    let a ← n.toInt?
    let b ← d.toNat?
    if b = 0 then none else some ((a : ℚ) / (b : ℚ))
  | _ => none

def showRat (q : ℚ) : String := s!"{q.num}/{q.den}"

def parseList (s : String) : Option (List ℚ) :=
  if s = "-" then some [] else (s.splitOn ",").mapM parseRat

def handle (line : String) : String :=
  match (line.trimAscii.toString.splitOn " ").filter (· ≠ "") with
  | ["strain", code, nu, rg, lead, vinit, g, gain, vex, v] =>
    match code.toNat?, parseRat nu, parseRat rg, parseRat lead, parseRat vinit, parseRat g, parseRat gain, parseRat vex, parseRat v with
    | some code, some nu, some rg, some lead, some vinit, some g, some gain, some vex, some v =>
      match strainScale code ⟨nu, rg, lead, vinit, g, gain, vex⟩ v with
      | some r => showRat r
      | none => "none"
    | _, _, _, _, _, _, _, _, _ => "parse"
  | ["horner", cs, x] =>
    match parseList cs, parseRat x with
    | some cs, some x => showRat (polynomialScale cs x)
    | _, _ => "parse"
  | ["table", pre, sc, x] =>
    match parseList pre, parseList sc, parseRat x with
    | some pre, some sc, some x =>
      match tableScale pre sc x with
      | some r => showRat r
      | none => "none"
    | _, _, _ => "parse"
  | ["rtdres", i, lead, cfg, v] =>
    match parseRat i, parseRat lead, cfg.toNat?, parseRat v with
    | some i, some lead, some cfg, some v => showRat (rtdResistance i lead cfg v)
    | _, _, _, _ => "parse"
  | ["thres", cur, ex, r1, lead, cfg, v] =>
    match parseRat ex, parseRat r1, parseRat lead, cfg.toNat?, parseRat v with
    | some ex, some r1, some lead, some cfg, some v => showRat (thermistorResistance (cur = "1") ex r1 lead cfg v)
    | _, _, _, _, _ => "parse"
  | ["quartic", a, b, c, r0, rt] =>
    match parseRat a, parseRat b, parseRat c, parseRat r0, parseRat rt with
    | some a, some b, some c, some r0, some rt => ",".intercalate ((rtdQuarticCoeffs a b c r0 rt).map showRat)
    | _, _, _, _, _ => "parse"
  | _ => "unknown"

partial def loop (hin hout : IO.FS.Stream) : IO Unit := do
  let line ← hin.getLine
  if line.isEmpty then return ()
  hout.putStrLn (handle line)
  hout.flush
  loop hin hout

def main : IO Unit := do loop (← IO.getStdin) (← IO.getStdout)
