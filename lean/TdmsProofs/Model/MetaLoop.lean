/-
  C02 — one iteration of the model's `readMetadataLoop` is one `fileStep` of the pure machine
  (between `segObjects` and `updateObjectMetadata` the model runs `calculateChunks`, whose result is
  the `chunkInfo` of the step).  Core Lean only.
-/
import TdmsProofs.Model.MetaMachine

namespace Tdms.Proofs.C02

open Tdms Tdms.Model Tdms.Generated

/-- the part of the reader's state the object lists depend on -/
def mstateOf (st : ReaderState) : MState :=
  ⟨st.segments.getLast?.map (·.objects), st.prevObjs, st.objects⟩

theorem readMetadataLoop_iteration (file : Bytes) (isIndex : Bool) (dfs : Option Nat)
    (fuel filePos segPos : Nat) (st : ReaderState) (li : LeadIn)
    (hlead : readLeadIn (file.drop filePos) segPos isIndex dfs = .ok (some li))
    (hk : Keyed st.prevObjs) (items : List Item) (rest : Bytes)
    (hparse : hasFlag li.toc kTocMetaData = true →
      (do let n ← uN (if hasFlag li.toc kTocBigEndian then Endian.big else Endian.little) 4
          parseObjs (if hasFlag li.toc kTocBigEndian then Endian.big else Endian.little) n : P (List Item))
        (file.drop (filePos + 28)) = .ok (items, rest)) :
    readMetadataLoop file isIndex dfs (fuel + 1) filePos segPos st =
      match segObjects (mstateOf st).prevSeg st.prevObjs
          ⟨hasFlag li.toc kTocMetaData, hasFlag li.toc kTocNewObjList, items.map fun it => (it.path, it.hdr)⟩ with
      | .error err => .error err
      | .ok objs =>
        match calculateChunks ⟨segPos, li.toc, li.nextSegmentPos, li.dataPosition, li.incomplete, objs, 0, none⟩ with
        | .error err => .error err
        | .ok seg =>
          match fileStep (mstateOf st)
              ⟨⟨hasFlag li.toc kTocMetaData, hasFlag li.toc kTocNewObjList, items.map fun it => (it.path, it.hdr)⟩,
               seg, if hasFlag li.toc kTocMetaData then foldProps [] items else []⟩ with
          | .error err => .error err
          | .ok (_, mst') =>
            readMetadataLoop file isIndex dfs fuel
              (if isIndex then filePos + (seg.dataPosition - seg.position) else seg.nextSegmentPos)
              seg.nextSegmentPos
              { version := some (st.version.getD li.version), versions := st.versions ++ [li.version],
                prevObjs := mst'.prevObjs, objects := mst'.metas, segments := st.segments ++ [seg] } := by
  rw [readMetadataLoop]
  simp only [hlead, bind, Except.bind]
  rw [readSegmentObjects_eq _ _ _ hk _ rest items hparse]
  simp only [bind, Except.bind, mstateOf]
  cases hs : segObjects (Option.map (fun x => x.objects) st.segments.getLast?) st.prevObjs
      ⟨hasFlag li.toc kTocMetaData, hasFlag li.toc kTocNewObjList, items.map fun it => (it.path, it.hdr)⟩ with
  | error err => rfl
  | ok objs =>
    simp only []
    cases hc : calculateChunks ⟨segPos, li.toc, li.nextSegmentPos, li.dataPosition, li.incomplete, objs, 0, none⟩ with
    | error err => rfl
    | ok seg =>
      have hobjs : seg.objects = objs := calculateChunks_objects hc
      simp only [pure, Except.pure, fileStep, hs, hobjs]
      cases updateObjectMetadata seg objs st.prevObjs st.objects with
      | error err => rfl
      | ok pm => rfl

theorem fileStep_ok_state {st : MState} {i : SegInput} {objs : List SegObj} {mst' : MState}
    (h : fileStep st i = .ok (objs, mst')) :
    segObjects st.prevSeg st.prevObjs i.desc = .ok objs ∧ mst'.prevSeg = some objs := by
  unfold fileStep at h
  cases hs : segObjects st.prevSeg st.prevObjs i.desc with
  | error err => rw [hs] at h; cases h
  | ok o1 =>
    rw [hs] at h
    simp only [] at h
    cases hu : updateObjectMetadata i.chunkInfo o1 st.prevObjs st.metas with
    | error err => rw [hu] at h; cases h
    | ok pm =>
      obtain ⟨p1, m1⟩ := pm
      rw [hu] at h
      cases h
      exact ⟨rfl, rfl⟩

/-- … and the reader state the loop continues with projects onto the machine state the step returned -/
theorem mstateOf_next (st : ReaderState) (seg : Segment) (v : Option Int) (vs : List Int) (mst' : MState)
    (h : mst'.prevSeg = some seg.objects) :
    mstateOf { version := v, versions := vs, prevObjs := mst'.prevObjs, objects := mst'.metas,
               segments := st.segments ++ [seg] } = mst' := by
  obtain ⟨a, b, c⟩ := mst'
  simp only at h
  simp [mstateOf, h]

/-- the initial reader state projects onto the initial machine state -/
theorem mstateOf_init : mstateOf {} = {} := rfl

end Tdms.Proofs.C02
