/-
  Tdms.Model.Sensors — transcription of the formulas of `nptdms/scaling.py`
  (classes RtdScaling, ThermistorScaling, StrainScaling, PolynomialScaling,
  TableScaling and the helper `_adjust_for_lead_resistance`).

  Every definition follows the code's order of operations.  The in-place numpy
  steps (`*=`, `/=`, `+=`, `-=`, `np.reciprocal(out=…)`) are modelled as the pure
  expression they compute.  Float literals `1.0, 2.0, 4.0, 0.5, 100.0` become the
  field elements `1, 2, 4, 1/2, 100`.  Division by zero follows Lean's `x / 0 = 0`
  convention; all inverse theorems carry the hypotheses that exclude it.
-/
import Mathlib.Analysis.Real.Sqrt
import Mathlib.Analysis.SpecialFunctions.Log.Basic
import Mathlib.Algebra.BigOperators.Group.Finset.Basic

namespace Tdms.Model.Sensors

/-! ## `_adjust_for_lead_resistance` (scaling.py 659-667) -/

section Field
variable {K : Type*} [Field K]

/-- ```
def _adjust_for_lead_resistance(measured_resistance, excitation_type, resistance_configuration, lead_wire_resistance):
    if resistance_configuration == 3:
        return measured_resistance - lead_wire_resistance
    if excitation_type == CURRENT_EXCITATION and resistance_configuration == 2:
        return measured_resistance - 2.0 * lead_wire_resistance
    return measured_resistance
``` -/
def adjustLead (excitationIsCurrent : Bool) (config : Nat) (r lead : K) : K :=
  if config = 3 then r - lead
  else if excitationIsCurrent = true ∧ config = 2 then r - 2 * lead
  else r

/-! ## RtdScaling (scaling.py 134-166) -/

/-- ```
r_t = data.astype(np.dtype('float64'), copy=False) / self.current_excitation
r_t = _adjust_for_lead_resistance(
    r_t, CURRENT_EXCITATION, self.resistance_configuration, self.lead_wire_resistance)
``` -/
def rtdResistance (I lead : K) (cfg : Nat) (v : K) : K :=
  adjustLead true cfg (v / I) lead

/-- ```
poly_coefficients = [r_0 - r_t, r_0 * a, r_0 * b, -100.0 * r_0 * c, r_0 * c]
roots = poly.polyroots(poly_coefficients)
```
Lowest degree first, exactly the list handed to `polyroots`. -/
def rtdQuarticCoeffs (a b c r0 r_t : K) : List K :=
  [r0 - r_t, r0 * a, r0 * b, -100 * r0 * c, r0 * c]

/-! ## ThermistorScaling resistance step (scaling.py 395-405) -/

/-- `r_t = data / self.excitation_value`  (CURRENT_EXCITATION) -/
def thermistorResistanceCurrent (I v : K) : K := v / I

/-- `r_t = self.r1_reference_resistance * np.reciprocal(self.excitation_value * np.reciprocal(data) - 1.0)`
(VOLTAGE_EXCITATION) -/
def thermistorResistanceVoltage (R1 Vex v : K) : K := R1 * (Vex * v⁻¹ - 1)⁻¹

/-- The resistance handed to the Steinhart–Hart step: excitation branch, then
```
r_t = _adjust_for_lead_resistance(
    r_t, self.excitation_type, self.resistance_configuration, self.lead_wire_resistance)
``` -/
def thermistorResistance (excitationIsCurrent : Bool) (exValue R1 lead : K) (cfg : Nat) (v : K) : K :=
  adjustLead excitationIsCurrent cfg
    (if excitationIsCurrent = true then thermistorResistanceCurrent exValue v
     else thermistorResistanceVoltage R1 exValue v) lead

/-! ## PolynomialScaling (scaling.py 88-94) and `numpy.polynomial.polynomial.polyval` -/

/-- numpy/polynomial/polynomial.py, `polyval`:
```
c0 = c[-1] + x * 0
for i in range(2, len(c) + 1):
    c0 = c[-i] + c0 * x
return c0
```
i.e. `c0 + x*(c1 + x*(c2 + …))`.  The empty list gives `0`, which is what
`PolynomialScaling.scale` returns for `len(self.coefficients) == 0`
(`np.zeros(len(data))`). -/
def horner : List K → K → K
  | [], _ => 0
  | c :: cs, x => c + horner cs x * x

/-- Specification of polynomial evaluation: `Σ_i c_i x^i`. -/
def polyEval (cs : List K) (x : K) : K :=
  ∑ i ∈ Finset.range cs.length, cs.getD i 0 * x ^ i

/-- `PolynomialScaling.scale`: `np.polynomial.polynomial.polyval(data, self.coefficients)` -/
def polynomialScale (coefficients : List K) (x : K) : K := horner coefficients x

/-! ## StrainScaling (scaling.py 201-283) -/

/-- The constructor arguments of `StrainScaling` that enter `scale`. -/
structure StrainParams (K : Type*) where
  /-- `poisson_ratio` -/
  nu : K
  /-- `gage_resistance` -/
  gageResistance : K
  /-- `lead_wire_resistance` -/
  lead : K
  /-- `initial_bridge_voltage` -/
  vInit : K
  /-- `gage_factor` -/
  gageFactor : K
  /-- `gain_adjustment` -/
  gain : K
  /-- `voltage_excitation` -/
  vex : K

variable [DecidableEq K]

/-- ```
voltage_out = data.astype(np.double)
if self.initial_bridge_voltage != 0.0:
    voltage_out -= self.initial_bridge_voltage
``` -/
def subInitial (vInit v : K) : K := if vInit ≠ 0 then v - vInit else v

/-- `lead_adjustment = 1.0 / (1.0 + self.lead_wire_resistance / self.gage_resistance)` -/
def leadAdjustment (p : StrainParams K) : K := 1 / (1 + p.lead / p.gageResistance)

/-- FULL_BRIDGE_1 = 10183:
```
strain = voltage_out
strain *= (-self.gain_adjustment / (self.voltage_excitation * self.gage_factor))
``` -/
def strainFullBridge1 (p : StrainParams K) (v : K) : K :=
  subInitial p.vInit v * (-p.gain / (p.vex * p.gageFactor))

/-- FULL_BRIDGE_2 = 10184:
```
strain = voltage_out
strain *= (-self.gain_adjustment * 2.0 / (
    self.voltage_excitation * self.gage_factor * (1.0 + self.poisson_ratio)))
``` -/
def strainFullBridge2 (p : StrainParams K) (v : K) : K :=
  subInitial p.vInit v * (-p.gain * 2 / (p.vex * p.gageFactor * (1 + p.nu)))

/-- FULL_BRIDGE_3 = 10185:
```
common_factor = -0.5 / self.gain_adjustment
temp = voltage_out.copy()
temp *= common_factor * (1.0 - self.poisson_ratio) * self.gage_factor
temp += common_factor * self.voltage_excitation * self.gage_factor * (1.0 + self.poisson_ratio)
strain = voltage_out
strain /= temp
``` -/
def strainFullBridge3 (p : StrainParams K) (v : K) : K :=
  let voltageOut := subInitial p.vInit v
  let commonFactor := -(1 / 2) / p.gain
  let temp := voltageOut * (commonFactor * (1 - p.nu) * p.gageFactor)
                + commonFactor * p.vex * p.gageFactor * (1 + p.nu)
  voltageOut / temp

/-- HALF_BRIDGE_1 = 10188:
```
lead_adjustment = 1.0 / (1.0 + self.lead_wire_resistance / self.gage_resistance)
common_factor = -self.gage_factor * self.voltage_excitation * lead_adjustment / (
        4.0 * self.gain_adjustment)
temp = voltage_out.copy()
temp *= common_factor * 2.0 * (1.0 - self.poisson_ratio) / self.voltage_excitation
temp += common_factor * (1.0 + self.poisson_ratio)
strain = voltage_out
strain /= temp
``` -/
def strainHalfBridge1 (p : StrainParams K) (v : K) : K :=
  let voltageOut := subInitial p.vInit v
  let commonFactor := -p.gageFactor * p.vex * leadAdjustment p / (4 * p.gain)
  let temp := voltageOut * (commonFactor * 2 * (1 - p.nu) / p.vex)
                + commonFactor * (1 + p.nu)
  voltageOut / temp

/-- HALF_BRIDGE_2 = 10189:
```
lead_adjustment = 1.0 / (1.0 + self.lead_wire_resistance / self.gage_resistance)
strain = voltage_out
strain *= -2.0 * self.gain_adjustment / (
        self.gage_factor * self.voltage_excitation * lead_adjustment)
``` -/
def strainHalfBridge2 (p : StrainParams K) (v : K) : K :=
  subInitial p.vInit v * (-2 * p.gain / (p.gageFactor * p.vex * leadAdjustment p))

/-- QUARTER_BRIDGE_1 = 10271, QUARTER_BRIDGE_2 = 10272:
```
lead_adjustment = 1.0 / (1.0 + self.lead_wire_resistance / self.gage_resistance)
strain = voltage_out
strain *= 2.0 / self.voltage_excitation
strain += 1.0
np.reciprocal(strain, out=strain)
strain -= 1.0
strain *= 2.0 * self.gain_adjustment / (self.gage_factor * lead_adjustment)
``` -/
def strainQuarterBridge (p : StrainParams K) (v : K) : K :=
  ((subInitial p.vInit v * (2 / p.vex) + 1)⁻¹ - 1)
    * (2 * p.gain / (p.gageFactor * leadAdjustment p))

/-- The dispatch of `StrainScaling.scale` on `self.configuration`; `none` models
`raise Exception("Strain gauge configuration %d is not supported")`. -/
def strainScale (configuration : Nat) (p : StrainParams K) (v : K) : Option K :=
  if configuration = 10183 then some (strainFullBridge1 p v)
  else if configuration = 10184 then some (strainFullBridge2 p v)
  else if configuration = 10185 then some (strainFullBridge3 p v)
  else if configuration = 10188 then some (strainHalfBridge1 p v)
  else if configuration = 10189 then some (strainHalfBridge2 p v)
  else if configuration = 10271 ∨ configuration = 10272 then some (strainQuarterBridge p v)
  else none

end Field

/-! ## TableScaling (scaling.py 298-345) and `np.interp` -/

section Order
variable {K : Type*} [LinearOrder K]

/-- `np.all(np.diff(values) > 0)`: every element is smaller than its successor. -/
def StrictlySorted : List K → Prop
  | [] => True
  | [_] => True
  | a :: b :: t => a < b ∧ StrictlySorted (b :: t)

instance StrictlySorted.decidable : (l : List K) → Decidable (StrictlySorted l)
  | [] => isTrue trivial
  | [_] => isTrue trivial
  | a :: b :: t =>
    match StrictlySorted.decidable (b :: t) with
    | isTrue h => if hab : a < b then isTrue ⟨hab, h⟩ else isFalse fun hh => hab hh.1
    | isFalse h => isFalse fun hh => h hh.2

end Order

section Ordered
variable {K : Type*} [Field K] [LinearOrder K]

/-- The inner loop of `np.interp` once `x` is known to be `≥ x0`, the abscissa of the
current node `(x0, y0)`; `xs`/`ys` are the remaining nodes.  numpy (`arr_interp`)
computes, for `xp[j] <= x < xp[j+1]`,
```
slope = (fp[j+1] - fp[j]) / (xp[j+1] - xp[j]);  result = slope*(x - xp[j]) + fp[j];
```
and returns `fp[-1]` when `x >= xp[-1]`.  (numpy locates `j` by binary search; over a
strictly increasing `xp` that is the same `j` as this left-to-right scan.) -/
def interpGo : K → K → List K → List K → K → K
  | x0, y0, x1 :: xs, y1 :: ys, x =>
      if x < x1 then (y1 - y0) / (x1 - x0) * (x - x0) + y0 else interpGo x1 y1 xs ys x
  | _, y0, _, _, _ => y0

/-- `np.interp(x, xs, ys)` for strictly increasing `xs` (default `left = fp[0]`,
`right = fp[-1]`): clamped outside the table, linear between neighbours.
`np.interp` raises on empty tables; the model returns `0` there. -/
def interpClamped : List K → List K → K → K
  | x0 :: xs, y0 :: ys, x => if x < x0 then y0 else interpGo x0 y0 xs ys x
  | _, _, _ => 0

/-- The straight line through nodes `j` and `j+1` of the table, evaluated at `x`. -/
def segment (xs ys : List K) (j : Nat) (x : K) : K :=
  ys.getD j 0 + (ys.getD (j + 1) 0 - ys.getD j 0) / (xs.getD (j + 1) 0 - xs.getD j 0)
    * (x - xs.getD j 0)

/-- Specification of clamped piecewise-linear interpolation, stated with indices and
no recursion over the table: `ys.head` left of the table, `ys.last` at or right of
the last node, and otherwise the chord of the segment `j` with
`xs[j] ≤ x < xs[j+1]` (for strictly sorted `xs` there is exactly one such `j`,
`C17.segment_index_unique`). -/
def piecewiseLinear (xs ys : List K) (x : K) : K :=
  if x < xs.headD 0 then ys.headD 0
  else if xs.getLastD 0 ≤ x then ys.getLastD 0
  else
    match (List.range (xs.length - 1)).find?
        (fun j => decide (xs.getD j 0 ≤ x ∧ x < xs.getD (j + 1) 0)) with
    | some j => segment xs ys j x
    | none => 0

/-- `TableScaling.__init__`:
```
if not np.all(np.diff(scaled_values) > 0):
    scaled_values = np.flip(scaled_values)
    pre_scaled_values = np.flip(pre_scaled_values)
if not np.all(np.diff(scaled_values) > 0):
    raise ValueError(...)
self.input_values = scaled_values
self.output_values = pre_scaled_values
```
Result `(input_values, output_values)`; `none` models the `ValueError`. -/
def tableInit (preScaled scaled : List K) : Option (List K × List K) :=
  if StrictlySorted scaled then some (scaled, preScaled)
  else if StrictlySorted scaled.reverse then some (scaled.reverse, preScaled.reverse)
  else none

/-- `TableScaling.scale`: `np.interp(data, self.input_values, self.output_values)` -/
def tableScale (preScaled scaled : List K) (x : K) : Option K :=
  (tableInit preScaled scaled).map fun t => interpClamped t.1 t.2 x

end Ordered

/-! ## Real-valued parts: RTD quadratic branch, Steinhart–Hart -/

/-- The `r_t >= r_0` branch of `RtdScaling.scale`:
```
temperature = (-a + np.sqrt(a ** 2 - 4.0 * b * (1.0 - r_t / r_0), where=positive_temperature)) / (2.0 * b)
```
with `r_t` computed by `rtdResistance`. -/
noncomputable def rtdPositive (a b r0 I lead : ℝ) (cfg : Nat) (v : ℝ) : ℝ :=
  let r_t := rtdResistance I lead cfg v
  (-a + Real.sqrt (a ^ 2 - 4 * b * (1 - r_t / r0))) / (2 * b)

/-- `RtdScaling.scale` with the root finder abstracted: `solveQuartic` stands for
`_get_negative_real_root(poly.polyroots(coeffs))`, which is *not* modelled.
`positive_temperature = r_t >= r_0` selects the branch. -/
noncomputable def rtdScale (solveQuartic : List ℝ → ℝ) (a b c r0 I lead : ℝ) (cfg : Nat) (v : ℝ) : ℝ :=
  let r_t := rtdResistance I lead cfg v
  if r0 ≤ r_t then rtdPositive a b r0 I lead cfg v
  else solveQuartic (rtdQuarticCoeffs a b c r0 r_t)

/-- ```
coefficients = [self.a, self.b, 0.0, self.c]
return np.reciprocal(
    np.polynomial.polynomial.polyval(np.log(r_t), coefficients)) - self.temperature_offset
``` -/
noncomputable def thermistorScale (a b c offset r : ℝ) : ℝ :=
  (horner [a, b, 0, c] (Real.log r))⁻¹ - offset

/-- `ThermistorScaling.scale` end to end. -/
noncomputable def thermistorFull (excitationIsCurrent : Bool) (exValue R1 lead : ℝ) (cfg : Nat)
    (a b c offset v : ℝ) : ℝ :=
  thermistorScale a b c offset (thermistorResistance excitationIsCurrent exValue R1 lead cfg v)

end Tdms.Model.Sensors
