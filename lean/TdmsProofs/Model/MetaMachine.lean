/-
  C02 — the object-list state machine of `read_segment_objects`, separated from byte parsing.

  `Tdms/Model/Reader.lean` interleaves parsing (`readString`, `uN`, `newIndexedObject`,
  `readProperties`) with the object-list state machine.  Here the state machine is restated as pure
  functions (`applyHeader`, `runHeaders`, `segObjects`) and proved EQUAL to the model:

  * `readOneObject_factor`   : `readOneObject   = readOneObjectF`   (parse header; `applyHeader`; parse properties)
  * `readObjects_factor`     : `readObjects     = readObjectsF`
  * `readObjects_of_parse`   : when the pure parse of the object list succeeds, `readObjects` is `runHeaders` on the parsed headers
  * `readSegmentObjects_eq`  : `readSegmentObjects` is `segObjects` followed by `calculateChunks`

  Core Lean only.
-/
import TdmsProofs.Lemmas.C02Basic

namespace Tdms.Proofs.C02

open Tdms Tdms.Model Tdms.Generated

/-- a parsed raw-data-index header -/
inductive Hdr
  | noData
  | matchesPrev
  | indexed (o : SegObj)
deriving Repr, DecidableEq, Inhabited

/-- the entry of `existing_objects` the reader consults: position and the object *as it was in the
    list copied from the previous segment* (not `ordered[i]`) -/
def lookupExisting (existing : Option (List SegObj)) (path : Bytes) : Option (Nat × SegObj) :=
  match existing with
  | some ex => (existingIndex ex path).bind fun i => ex[i]?.map fun o => (i, o)
  | none => none

/-- the branch structure of `readOneObject` once the header has been parsed -/
def applyHeader (existing : Option (List SegObj)) (prevObjs : PrevObjs) (ordered : List SegObj)
    (path : Bytes) (h : Hdr) : Except Err (List SegObj) :=
  match lookupExisting existing path with
  | some (i, ex) =>
    -- `_update_existing_object`
    match h with
    | .noData => .ok (if ex.hasData then ordered.set i { ex with hasData := false } else ordered)
    | .matchesPrev => .ok (if !ex.hasData then ordered.set i { ex with hasData := true } else ordered)
    | .indexed o => .ok (ordered.set i o)
  | none =>
    match prevObjs.get path with
    | some prev =>
      -- `_reuse_previous_object`
      match h with
      | .noData => .ok (ordered ++ [{ prev with hasData := false }])
      | .matchesPrev => .ok (ordered ++ [{ prev with hasData := true }])
      | .indexed o => .ok (ordered ++ [o])
    | none =>
      match h with
      | .matchesPrev => .error .reuseUnseen
      | .noData => .ok (ordered ++ [{ path := path }])
      | .indexed o => .ok (ordered ++ [o])

/-- the parser's part of the header: classify, and read a full index if there is one -/
def readHdr (e : Endian) (path : Bytes) (header : Nat) : P Hdr :=
  if header = rawDataIndexNoData then pure .noData
  else if header = rawDataIndexMatchesPrevious then pure .matchesPrev
  else do
    let o ← newIndexedObject e path header
    pure (.indexed o)

/-- a pure step embedded in the parser monad -/
def liftE {α : Type} (x : Except Err α) : P α := fun bs =>
  match x with
  | .ok a => .ok (a, bs)
  | .error err => .error err

/-- `readOneObject`, factored -/
def readOneObjectF (e : Endian) (existing : Option (List SegObj)) (prevObjs : PrevObjs)
    (ordered : List SegObj) : P (List SegObj × Bytes × List PropVal) := do
  let path ← readString e
  let header ← uN e 4
  let h ← readHdr e path header
  let ordered' ← liftE (applyHeader existing prevObjs ordered path h)
  let nProps ← uN e 4
  let props ← readProperties e nProps
  pure (ordered', path, props)

/-- every entry of `prevObjs` is stored under its own path (true of every state the reader reaches:
    `updateObjectMetadata` only ever does `prev.set o.path o`) -/
def Keyed (m : PrevObjs) : Prop := ∀ p o, m.get p = some o → o.path = p

theorem keyed_nil : Keyed [] := by
  intro p o h; simp [PrevObjs.get] at h

theorem keyed_set {m : PrevObjs} (h : Keyed m) (o : SegObj) : Keyed (m.set o.path o) := by
  intro p x hx
  rw [PrevObjs.get_set] at hx
  by_cases hp : p = o.path
  · simp [hp] at hx; subst hx; exact hp.symm
  · simp [hp] at hx; exact h p x hx

theorem lookupExisting_path {existing : Option (List SegObj)} {path : Bytes} {i : Nat} {ex : SegObj}
    (h : lookupExisting existing path = some (i, ex)) : ex.path = path := by
  unfold lookupExisting at h
  cases existing with
  | none => simp at h
  | some l =>
    simp only at h
    cases hi : existingIndex l path with
    | none => simp [hi] at h
    | some j =>
      obtain ⟨o, ho, hp⟩ := existingIndex_some_getElem hi
      simp [hi, ho] at h
      obtain ⟨_, rfl⟩ := h
      exact hp

private theorem noData_ne_matches : rawDataIndexNoData ≠ rawDataIndexMatchesPrevious := by decide

/-- the middle of `readOneObject`: the model's three-way branch is "parse the header, then
    `applyHeader`" -/
theorem middle_factor (e : Endian) (existing : Option (List SegObj)) (prevObjs : PrevObjs)
    (hk : Keyed prevObjs) (ordered : List SegObj) (path : Bytes) (header : Nat) :
    (match lookupExisting existing path with
      | some (i, ex) => updateExistingObject e ordered i ex header
      | none =>
        match prevObjs.get path with
        | some prev => reusePreviousObject e ordered prev header
        | none =>
          if header = rawDataIndexMatchesPrevious then throw .reuseUnseen
          else if header = rawDataIndexNoData then pure (ordered ++ [{ path := path }])
          else do
            let o ← newIndexedObject e path header
            pure (ordered ++ [o]) : P (List SegObj)) =
    (do let h ← readHdr e path header
        liftE (applyHeader existing prevObjs ordered path h)) := by
  unfold applyHeader readHdr
  cases hl : lookupExisting existing path with
  | some ie =>
    obtain ⟨i, ex⟩ := ie
    have hp := lookupExisting_path hl
    simp only [updateExistingObject]
    by_cases h1 : header = rawDataIndexNoData
    · simp only [h1, if_true, pure_bind]; rfl
    · by_cases h2 : header = rawDataIndexMatchesPrevious
      · simp only [h2, if_true, if_false, pure_bind, noData_ne_matches.symm]; rfl
      · simp only [h1, h2, if_false, bind_assoc, pure_bind, hp]; rfl
  | none =>
    simp only
    cases hq : prevObjs.get path with
    | some prev =>
      have hp := hk path prev hq
      simp only [reusePreviousObject]
      by_cases h1 : header = rawDataIndexNoData
      · simp only [h1, if_true, pure_bind]; rfl
      · by_cases h2 : header = rawDataIndexMatchesPrevious
        · simp only [h2, if_true, if_false, pure_bind, noData_ne_matches.symm]; rfl
        · simp only [h1, h2, if_false, bind_assoc, pure_bind, hp]; rfl
    | none =>
      simp only
      by_cases h1 : header = rawDataIndexNoData
      · have h2 : header ≠ rawDataIndexMatchesPrevious := h1 ▸ noData_ne_matches
        simp only [h1, if_true, pure_bind, noData_ne_matches, if_false]; rfl
      · by_cases h2 : header = rawDataIndexMatchesPrevious
        · simp only [h2, if_true, if_false, pure_bind, noData_ne_matches.symm]; rfl
        · simp only [h1, h2, if_false, bind_assoc, pure_bind]; rfl

/-- the join point the `do` elaborator pushes into every branch can be pulled out again -/
private theorem pull_jp {β : Type} (e : Endian) (prevObjs : PrevObjs) (ordered : List SegObj)
    (path : Bytes) (header : Nat) (exIdx : Option (Nat × SegObj)) (jp : List SegObj → P β) :
    (match exIdx with
      | some (i, ex) => do
        let ordered' ← updateExistingObject e ordered i ex header
        jp ordered'
      | none =>
        match prevObjs.get path with
        | some prev => do
          let ordered' ← reusePreviousObject e ordered prev header
          jp ordered'
        | none =>
          if header = rawDataIndexMatchesPrevious then do
            let ordered' ← (throw Err.reuseUnseen : P (List SegObj))
            jp ordered'
          else
            if header = rawDataIndexNoData then do
              let ordered' ← (pure (ordered ++ [({ path := path } : SegObj)]) : P (List SegObj))
              jp ordered'
            else do
              let o ← newIndexedObject e path header
              let ordered' ← pure (ordered ++ [o])
              jp ordered') =
    (do
      let ordered' ← (match exIdx with
        | some (i, ex) => updateExistingObject e ordered i ex header
        | none =>
          match prevObjs.get path with
          | some prev => reusePreviousObject e ordered prev header
          | none =>
            if header = rawDataIndexMatchesPrevious then throw Err.reuseUnseen
            else if header = rawDataIndexNoData then pure (ordered ++ [({ path := path } : SegObj)])
            else do
              let o ← newIndexedObject e path header
              pure (ordered ++ [o]) : P (List SegObj))
      jp ordered') := by
  cases exIdx with
  | some ie => rfl
  | none =>
    simp only
    cases prevObjs.get path with
    | some prev => rfl
    | none =>
      simp only
      by_cases h1 : header = rawDataIndexMatchesPrevious
      · simp only [h1, if_true]
      · by_cases h2 : header = rawDataIndexNoData
        · have h3 : rawDataIndexNoData ≠ rawDataIndexMatchesPrevious := by decide
          simp only [h2, h3, if_true, if_false]
        · simp only [h1, h2, if_false, bind_assoc]

/-- **Item 1.** `readOneObject` is: read the path, read the 4-byte header, obtain `h`, apply the pure
    state-machine step `applyHeader`, read the properties. -/
theorem readOneObject_factor (e : Endian) (existing : Option (List SegObj)) (prevObjs : PrevObjs)
    (hk : Keyed prevObjs) (ordered : List SegObj) :
    readOneObject e existing prevObjs ordered = readOneObjectF e existing prevObjs ordered := by
  unfold readOneObject readOneObjectF
  congr 1; funext path
  congr 1; funext header
  have := middle_factor e existing prevObjs hk ordered path header
  rw [← bind_assoc, ← this]
  cases existing with
  | none => exact pull_jp e prevObjs ordered path header none _
  | some ex => exact pull_jp e prevObjs ordered path header _ _

/-! ## the object loop -/

/-- `properties[object_path] = object_properties` (only when there is at least one property) -/
def addProps (props : List (Bytes × List PropVal)) (path : Bytes) (ps : List PropVal) :
    List (Bytes × List PropVal) :=
  if ps.isEmpty then props
  else if props.any (·.1 = path) then props.map (fun x => if x.1 = path then (path, ps) else x)
  else props ++ [(path, ps)]

def readObjectsF (e : Endian) (existing : Option (List SegObj)) (prevObjs : PrevObjs) :
    Nat → List SegObj → List (Bytes × List PropVal) → P (List SegObj × List (Bytes × List PropVal))
  | 0, ordered, props => pure (ordered, props)
  | k + 1, ordered, props => do
    let (ordered', path, ps) ← readOneObjectF e existing prevObjs ordered
    readObjectsF e existing prevObjs k ordered' (addProps props path ps)

theorem readObjects_factor (e : Endian) (existing : Option (List SegObj)) (prevObjs : PrevObjs)
    (hk : Keyed prevObjs) (k : Nat) (ordered : List SegObj) (props : List (Bytes × List PropVal)) :
    readObjects e existing prevObjs k ordered props = readObjectsF e existing prevObjs k ordered props := by
  induction k generalizing ordered props with
  | zero => rfl
  | succ k ih =>
    unfold readObjects readObjectsF
    rw [readOneObject_factor e existing prevObjs hk]
    congr 1; funext r
    obtain ⟨o, p, ps⟩ := r
    exact ih _ _

/-- the pure state machine over already-parsed headers -/
def runHeaders (existing : Option (List SegObj)) (prevObjs : PrevObjs) :
    List SegObj → List (Bytes × Hdr) → Except Err (List SegObj)
  | ordered, [] => .ok ordered
  | ordered, (p, h) :: rest =>
    match applyHeader existing prevObjs ordered p h with
    | .error err => .error err
    | .ok ordered' => runHeaders existing prevObjs ordered' rest

/-- one parsed object of a metadata block -/
structure Item where
  path : Bytes
  hdr : Hdr
  props : List PropVal
deriving Repr, DecidableEq, Inhabited

/-- the parser alone: no object-list state -/
def parseOne (e : Endian) : P Item := do
  let path ← readString e
  let header ← uN e 4
  let h ← readHdr e path header
  let nProps ← uN e 4
  let props ← readProperties e nProps
  pure ⟨path, h, props⟩

def parseObjs (e : Endian) : Nat → P (List Item)
  | 0 => pure []
  | k + 1 => do
    let it ← parseOne e
    let rest ← parseObjs e k
    pure (it :: rest)

def foldProps (props : List (Bytes × List PropVal)) (items : List Item) : List (Bytes × List PropVal) :=
  items.foldl (fun acc it => addProps acc it.path it.props) props

/-! monad bookkeeping for `P = StateT Bytes (Except Err)` -/

theorem P_bind_ok {α β : Type} {x : P α} {f : α → P β} {bs : Bytes} {a : α} {s : Bytes}
    (h : x bs = .ok (a, s)) : (x >>= f) bs = f a s := by
  show (x bs >>= fun p => f p.1 p.2) = _
  rw [h]; rfl

theorem P_bind_err {α β : Type} {x : P α} {f : α → P β} {bs : Bytes} {err : Err}
    (h : x bs = .error err) : (x >>= f) bs = .error err := by
  show (x bs >>= fun p => f p.1 p.2) = _
  rw [h]; rfl

theorem P_bind_eq_ok {α β : Type} {x : P α} {f : α → P β} {bs : Bytes} {r : β × Bytes}
    (h : (x >>= f) bs = .ok r) : ∃ a s, x bs = .ok (a, s) ∧ f a s = .ok r := by
  cases hx : x bs with
  | error err => rw [P_bind_err hx] at h; cases h
  | ok p =>
    obtain ⟨a, s⟩ := p
    rw [P_bind_ok hx] at h
    exact ⟨a, s, rfl, h⟩

theorem P_pure {α : Type} (a : α) (bs : Bytes) : (pure a : P α) bs = .ok (a, bs) := rfl

theorem liftE_ok {α : Type} (a : α) (bs : Bytes) : liftE (.ok a) bs = .ok (a, bs) := rfl
theorem liftE_err {α : Type} (err : Err) (bs : Bytes) : (liftE (.error err) : P α) bs = .error err := rfl

theorem parseOne_ok {e : Endian} {bs rest : Bytes} {it : Item} (h : parseOne e bs = .ok (it, rest)) :
    ∀ existing prevObjs ordered,
      readOneObjectF e existing prevObjs ordered bs =
        match applyHeader existing prevObjs ordered it.path it.hdr with
        | .ok o' => .ok ((o', it.path, it.props), rest)
        | .error err => .error err := by
  intro existing prevObjs ordered
  unfold parseOne at h
  obtain ⟨path, s1, h1, h⟩ := P_bind_eq_ok h
  obtain ⟨header, s2, h2, h⟩ := P_bind_eq_ok h
  obtain ⟨hd, s3, h3, h⟩ := P_bind_eq_ok h
  obtain ⟨n, s4, h4, h⟩ := P_bind_eq_ok h
  obtain ⟨props, s5, h5, h⟩ := P_bind_eq_ok h
  rw [P_pure] at h
  cases h
  unfold readOneObjectF
  rw [P_bind_ok h1, P_bind_ok h2, P_bind_ok h3]
  cases ha : applyHeader existing prevObjs ordered path hd with
  | error err => exact P_bind_err (by rw [liftE_err])
  | ok o' =>
    rw [P_bind_ok (liftE_ok o' s3), P_bind_ok h4, P_bind_ok h5]
    rfl

/-- **Parser / state machine separation.**  When the metadata block parses, the model's object loop
    is the pure machine `runHeaders` run on the parsed headers (and the parser's leftover input). -/
theorem readObjects_of_parse (e : Endian) (existing : Option (List SegObj)) (prevObjs : PrevObjs)
    (hk : Keyed prevObjs) :
    ∀ (k : Nat) (bs rest : Bytes) (items : List Item) (ordered : List SegObj)
      (props : List (Bytes × List PropVal)),
      parseObjs e k bs = .ok (items, rest) →
      readObjects e existing prevObjs k ordered props bs =
        match runHeaders existing prevObjs ordered (items.map fun it => (it.path, it.hdr)) with
        | .ok o' => .ok ((o', foldProps props items), rest)
        | .error err => .error err := by
  intro k
  induction k with
  | zero =>
    intro bs rest items ordered props h
    simp only [parseObjs, P_pure] at h
    cases h
    rfl
  | succ k ih =>
    intro bs rest items ordered props h
    rw [readObjects_factor e existing prevObjs hk]
    unfold parseObjs at h
    obtain ⟨it, s1, h1, h⟩ := P_bind_eq_ok h
    obtain ⟨its, s2, h2, h⟩ := P_bind_eq_ok h
    rw [P_pure] at h
    cases h
    unfold readObjectsF
    have h1' := parseOne_ok h1 existing prevObjs ordered
    simp only [List.map_cons, runHeaders]
    cases ha : applyHeader existing prevObjs ordered it.path it.hdr with
    | error err =>
      rw [ha] at h1'
      exact P_bind_err h1'
    | ok o' =>
      rw [ha] at h1'
      rw [P_bind_ok h1']
      simp only []
      rw [← readObjects_factor e existing prevObjs hk, ih s1 rest its o' _ h2]
      rfl

/-! ## one segment (`read_segment_objects`) -/

/-- what the state machine needs to know about a segment -/
structure SegDesc where
  hasMeta : Bool
  newList : Bool
  hdrs : List (Bytes × Hdr)
deriving Repr, DecidableEq, Inhabited

/-- `readSegmentObjects` without parsing and without chunk arithmetic -/
def segObjects (prevSeg : Option (List SegObj)) (prevObjs : PrevObjs) (d : SegDesc) :
    Except Err (List SegObj) :=
  if !d.hasMeta then
    match prevSeg with
    | none => .error .noPrevSegment
    | some p => .ok p
  else
    match prevSeg with
    | some p =>
      if d.newList then runHeaders none prevObjs [] d.hdrs
      else runHeaders (some p) prevObjs p d.hdrs
    | none => runHeaders none prevObjs [] d.hdrs

/-- **Equivalence with the model, one segment.**  `readSegmentObjects` is `segObjects` followed by
    `calculateChunks`, provided the metadata block (when there is one) parses. -/
theorem readSegmentObjects_eq (seg : Segment) (prevSeg : Option Segment) (prevObjs : PrevObjs)
    (hk : Keyed prevObjs) (bytes rest : Bytes) (items : List Item)
    (hparse : hasFlag seg.toc kTocMetaData = true →
      (do let n ← uN seg.endian 4; parseObjs seg.endian n : P (List Item)) bytes = .ok (items, rest)) :
    readSegmentObjects seg prevSeg prevObjs bytes =
      (do
        let objs ← segObjects (prevSeg.map (·.objects)) prevObjs
          ⟨hasFlag seg.toc kTocMetaData, hasFlag seg.toc kTocNewObjList, items.map fun it => (it.path, it.hdr)⟩
        let s ← calculateChunks { seg with objects := objs }
        pure (s, if hasFlag seg.toc kTocMetaData then foldProps [] items else [])) := by
  unfold readSegmentObjects segObjects
  by_cases hm : hasFlag seg.toc kTocMetaData = true
  · obtain ⟨n, s1, h1, h2⟩ := P_bind_eq_ok (hparse hm)
    simp only [hm, Bool.not_true, Bool.false_eq_true, if_false, if_true]
    cases prevSeg with
    | none =>
      simp only [Option.map_none]
      have := readObjects_of_parse seg.endian none prevObjs hk n s1 rest items [] [] h2
      simp only [StateT.run, P_bind_ok h1, this]
      cases runHeaders none prevObjs [] (items.map fun it => (it.path, it.hdr)) <;> rfl
    | some p =>
      simp only [Option.map_some]
      by_cases hn : hasFlag seg.toc kTocNewObjList = true
      · have := readObjects_of_parse seg.endian none prevObjs hk n s1 rest items [] [] h2
        simp only [hn, if_true, StateT.run, P_bind_ok h1, this]
        cases runHeaders none prevObjs [] (items.map fun it => (it.path, it.hdr)) <;> rfl
      · have hn' : hasFlag seg.toc kTocNewObjList = false := by simpa using hn
        have := readObjects_of_parse seg.endian (some p.objects) prevObjs hk n s1 rest items p.objects [] h2
        simp only [hn', Bool.false_eq_true, if_false, StateT.run, P_bind_ok h1, this]
        cases runHeaders (some p.objects) prevObjs p.objects (items.map fun it => (it.path, it.hdr)) <;> rfl
  · have hm' : hasFlag seg.toc kTocMetaData = false := by simpa using hm
    simp only [hm', Bool.not_false, if_true, Bool.false_eq_true, if_false]
    cases prevSeg with
    | none => rfl
    | some p => rfl

set_option linter.unusedSimpArgs false in
/-- `calculateChunks` never touches the object list -/
theorem calculateChunks_objects {s s' : Segment} (h : calculateChunks s = .ok s') :
    s'.objects = s.objects := by
  unfold calculateChunks at h
  cases h1 : chunkSize s.objects with
  | error e => simp [h1, bind, Except.bind] at h
  | ok sz =>
    simp only [h1, bind, Except.bind] at h
    split at h
    · simp [throw, throwThe, MonadExceptOf.throw] at h
    · repeat' split at h
      all_goals first
        | (simp [throw, throwThe, MonadExceptOf.throw] at h; done)
        | (simp only [pure, Except.pure, Except.ok.injEq] at h; subst h; rfl)
        | (cases h)

/-! ## the whole file (`read_metadata` without lead-ins and chunk arithmetic) -/

/-- what one iteration of `readMetadataLoop` consumes besides the state: the segment's parsed
    headers, the `Segment` record as `calculateChunks` returned it (it only feeds value counts) and
    the parsed properties -/
structure SegInput where
  desc : SegDesc
  chunkInfo : Segment
  props : List (Bytes × List PropVal)
deriving Inhabited

/-- the part of `ReaderState` the object lists depend on -/
structure MState where
  prevSeg : Option (List SegObj) := none      -- `segments.getLast?.map (·.objects)`
  prevObjs : PrevObjs := []
  metas : ObjMetas := []
deriving Inhabited

/-- the body of `readMetadataLoop` after the lead-in: `readSegmentObjects` (as `segObjects`), then the
    model's own `updateObjectMetadata` and `updateObjectProperties` -/
def fileStep (st : MState) (i : SegInput) : Except Err (List SegObj × MState) :=
  match segObjects st.prevSeg st.prevObjs i.desc with
  | .error err => .error err
  | .ok objs =>
    match updateObjectMetadata i.chunkInfo objs st.prevObjs st.metas with
    | .error err => .error err
    | .ok (prev', ms') => .ok (objs, ⟨some objs, prev', updateObjectProperties ms' i.props⟩)

/-- the object list of every segment -/
def fileMachine : MState → List SegInput → Except Err (List (List SegObj))
  | _, [] => .ok []
  | st, i :: is =>
    match fileStep st i with
    | .error err => .error err
    | .ok (objs, st') =>
      match fileMachine st' is with
      | .error err => .error err
      | .ok rest => .ok (objs :: rest)

/-! ## from the spec's vocabulary to the model's -/

def convScaler (dg : Bool) (s : ScalerEnc) : DaqScaler :=
  ⟨s.scaleId, ((daqmxTypes.find? (·.1 = s.daqType)).map (·.2)).getD 0, s.buffer, s.offset, s.bitmap, dg⟩

/-- the segment object the reader holds for an active object of the spec (concretisation) -/
def concObj (a : ActiveObj) : SegObj :=
  match a.idx with
  | none => { path := a.path, hasData := a.hasData }
  | some (.std ty n total) =>
    { path := a.path, hasData := a.hasData, numberValues := n, dataSize := total, dataType := some ty }
  | some (.daq dg ty n sc w) =>
    { path := a.path, hasData := a.hasData, numberValues := n, dataType := some ty,
      daq := some ⟨n, w, sc.map (convScaler dg)⟩ }

def absScaler (s : DaqScaler) : ScalerEnc :=
  ⟨((daqmxTypes.find? (·.2 = s.ty)).map (·.1)).getD 0, s.buffer, s.offset, s.bitmap, s.scaleId⟩

/-- the raw-data description a segment object carries; `dataType = none ↔ no description` -/
def absIdx (o : SegObj) : Option IdxDesc :=
  match o.dataType with
  | none => none
  | some ty =>
    match o.daq with
    | none => some (.std ty o.numberValues o.dataSize)
    | some m => some (.daq (m.scalers.any (·.digital)) ty o.numberValues (m.scalers.map absScaler) m.widths)

/-- **Item 2.** abstraction of a segment object -/
def absObj (o : SegObj) : ActiveObj := ⟨o.path, o.hasData, absIdx o⟩

/-- a listed index, as the description it declares -/
def descOfIdx : IdxEnc → Option IdxDesc
  | .noData => none
  | .matchesPrev => none
  | .full ty n total => some (.std ty n total)
  | .daqmx dg ty n sc w => some (.daq dg ty n sc w)

/-- the header the parser hands to the state machine for a listed index, `dataSize` taken as written -/
def hdrRaw (path : Bytes) : IdxEnc → Hdr
  | .noData => .noData
  | .matchesPrev => .matchesPrev
  | .full ty n total => .indexed (concObj ⟨path, true, some (.std ty n total)⟩)
  | .daqmx dg ty n sc w => .indexed (concObj ⟨path, true, some (.daq dg ty n sc w)⟩)

/-- `total` is only written for strings; for every other type `read_raw_data_index` computes
    `data_size = number_values * size` -/
def canonIdx : IdxEnc → IdxEnc
  | .full ty n total => .full ty n (if ty = tyString then total else n * (typeSize ty).getD 0)
  | i => i

def canonObj (o : ObjEnc) : ObjEnc := { o with idx := canonIdx o.idx }

/-- the header `newIndexedObject` produces for a listed index: `numberValues = n`,
    `dataType = some ty`, `dataSize = total` for strings and `n * size` otherwise; DAQmx:
    `numberValues = n`, `daq = ⟨n, widths, scalers⟩` -/
def hdrOf (path : Bytes) (i : IdxEnc) : Hdr := hdrRaw path (canonIdx i)

def hdrsRaw (objs : List ObjEnc) : List (Bytes × Hdr) := objs.map fun o => (o.path, hdrRaw o.path o.idx)
def hdrsOf (objs : List ObjEnc) : List (Bytes × Hdr) := objs.map fun o => (o.path, hdrOf o.path o.idx)

theorem hdrsOf_eq (objs : List ObjEnc) : hdrsOf objs = hdrsRaw (objs.map canonObj) := by
  simp [hdrsOf, hdrsRaw, hdrOf, canonObj, Function.comp_def]

def descOfSeg (s : SegEnc) : SegDesc := ⟨s.hasMeta, s.newList, hdrsOf s.objs⟩
def descOfSegRaw (s : SegEnc) : SegDesc := ⟨s.hasMeta, s.newList, hdrsRaw s.objs⟩

end Tdms.Proofs.C02
