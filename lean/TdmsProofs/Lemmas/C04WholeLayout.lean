import TdmsProofs.Lemmas.C04WholeChunk
import TdmsProofs.Lemmas.C04WindowMain

/-!
# C04Whole: the layout of a channel in the segment records of an encoded file

For the `Segment` records `segRecs pos ss as` the metadata reader builds from the encoding of a file of
the class: the layout C04 reads off them (`layoutOf`), the chunk contents (`fileVals`), `ValsOk`, and the
full array of C04 = the concatenation of the values the encoding lists under the channel's path
(`chanValsAll`) = what `denote` assigns.  Core Lean only.
-/

namespace Tdms.Proofs.C04Whole

open Tdms Tdms.Generated Tdms.Model Tdms.Proofs.C02 Tdms.Proofs.C01Multi Tdms.Proofs.C04

/-! ## values per chunk of the data object with path `p` -/

/-- values per chunk declared by the first object of `d` with path `p` (0 if there is none) -/
def csD (d : List ActiveObj) (p : Bytes) : Nat :=
  match d.find? (·.path = p) with
  | some x => (x.idx.map (·.n)).getD 0
  | none => 0

theorem chanVals_length (p : Bytes) : ∀ (d : List ActiveObj) (ch : List (List Bytes)),
    wfStdChunk d ch = true → (chanVals d ch p).length = csD d p := by
  intro d
  induction d with
  | nil => intro ch _; cases ch <;> rfl
  | cons a as ih =>
    intro ch hwf
    cases ch with
    | nil => simp [wfStdChunk] at hwf
    | cons v vs =>
      rw [wfStdChunk, Bool.and_eq_true] at hwf
      obtain ⟨h1, hrest⟩ := hwf
      unfold chanVals csD
      rw [List.find?_cons]
      by_cases hpa : a.path = p
      · simp only [hpa, if_true, decide_true]
        cases hi : a.idx with
        | none => rw [hi] at h1; cases h1
        | some dsc =>
          cases dsc with
          | daq dg ty n sc w => rw [hi] at h1; cases h1
          | std ty n total =>
            rw [hi] at h1
            simp only [Bool.and_eq_true, decide_eq_true_eq] at h1
            simp [IdxDesc.n, h1.1]
      · simp only [hpa, if_false, decide_false]
        exact ih vs hrest

theorem chanVals_of_not_mem (p : Bytes) : ∀ (d : List ActiveObj) (ch : List (List Bytes)),
    p ∉ d.map (·.path) → chanVals d ch p = [] := by
  intro d
  induction d with
  | nil => intro ch _; cases ch <;> rfl
  | cons a as ih =>
    intro ch h
    cases ch with
    | nil => rfl
    | cons v vs =>
      simp only [List.map_cons, List.mem_cons, not_or] at h
      unfold chanVals
      rw [if_neg (fun e => h.1 e.symm)]
      exact ih vs h.2

/-- the pairs of a chunk filed under `p`, concatenated, are the channel's values in that chunk -/
theorem pairs_filter_eq_chanVals (p : Bytes) : ∀ (d : List ActiveObj) (ch : List (List Bytes)),
    (d.map (·.path)).Nodup →
    ((pairsOf d ch).filter fun pv => decide (pv.1 = p)).flatMap (·.2) = chanVals d ch p := by
  intro d
  induction d with
  | nil => intro ch _; cases ch <;> rfl
  | cons a as ih =>
    intro ch hnd
    cases ch with
    | nil => rfl
    | cons v vs =>
      rw [List.map_cons, List.nodup_cons] at hnd
      have hpo : pairsOf (a :: as) (v :: vs) = (a.path, v) :: pairsOf as vs := rfl
      rw [hpo, List.filter_cons]
      unfold chanVals
      by_cases hpa : a.path = p
      · simp only [hpa, decide_true, if_true, List.flatMap_cons]
        have hnot : p ∉ as.map (·.path) := hpa ▸ hnd.1
        rw [ih vs hnd.2, chanVals_of_not_mem p as vs hnot, List.append_nil]
      · simp only [hpa, decide_false, Bool.false_eq_true, if_false]
        exact ih vs hnd.2

/-! ## `getSegmentObject` on a list with distinct paths -/

theorem getSegmentObject_of_mem (seg : Segment) (hnd : (seg.objects.map (·.path)).Nodup) (o : SegObj)
    (ho : o ∈ seg.objects) : getSegmentObject seg o.path = some o := by
  obtain ⟨i, hi, rfl⟩ := List.getElem_of_mem ho
  rw [getSegmentObject_spec]
  refine ⟨i, List.getElem?_eq_getElem hi, rfl, ?_⟩
  intro j hj hjp
  have h1 : (seg.objects.map (·.path))[i]? = some seg.objects[i].path := by simp [hi]
  have h2 : (seg.objects.map (·.path))[j]? = some seg.objects[i].path := by simpa using hjp
  have := (List.getElem?_inj (by simpa using hi) hnd).1 (h1.trans h2.symm)
  omega

theorem getSegmentObject_none (seg : Segment) (p : Bytes) (h : p ∉ seg.objects.map (·.path)) :
    getSegmentObject seg p = none := by
  unfold getSegmentObject
  rw [(existingIndex_none seg.objects p).2]
  · rfl
  · intro o ho hp
    exact h (List.mem_map.2 ⟨o, ho, hp⟩)

theorem find_of_nodup_act {a : List ActiveObj} (h : (a.map (·.path)).Nodup) {x : ActiveObj} (hm : x ∈ a) :
    a.find? (·.path = x.path) = some x := by
  induction a with
  | nil => cases hm
  | cons y ys ih =>
    rw [List.map_cons, List.nodup_cons] at h
    rw [List.find?_cons]
    rcases List.mem_cons.1 hm with rfl | hm'
    · simp
    · have hne : y.path ≠ x.path := fun e => h.1 (e ▸ List.mem_map.2 ⟨x, hm', rfl⟩)
      simp only [hne, decide_false]
      exact ih h.2 hm'

/-- the layout C04 reads off the record of an encoded segment -/
theorem layoutOf_segRec (pos : Nat) (s : SegEnc) (a : List ActiveObj) (hnd : (a.map (·.path)).Nodup) (p : Bytes) :
    layoutOf p (segRec pos s a) = ⟨csD (dataObjs a) p, s.chunks.length, none⟩ := by
  have hobjs : (segRec pos s a).objects = a.map concObj := rfl
  have hnd' : ((segRec pos s a).objects.map (·.path)).Nodup := by rw [hobjs, map_concObj_paths]; exact hnd
  unfold layoutOf
  simp only [SegL.mk.injEq]
  refine ⟨?_, rfl, rfl⟩
  by_cases hp : p ∈ a.map (·.path)
  · obtain ⟨x, hx, rfl⟩ := List.mem_map.1 hp
    have hget : getSegmentObject (segRec pos s a) x.path = some (concObj x) := by
      have := getSegmentObject_of_mem (segRec pos s a) hnd' (concObj x) (by rw [hobjs]; exact List.mem_map_of_mem hx)
      simpa using this
    rw [hget]
    simp only [concObj_hasData]
    cases hd : x.hasData with
    | true =>
      have hxd : x ∈ dataObjs a := List.mem_filter.2 ⟨hx, hd⟩
      have := find_of_nodup_act (dataObjs_nodup hnd) hxd
      unfold csD
      rw [this]
      simp only [if_true]
      unfold concObj
      cases x.idx with
      | none => rfl
      | some dsc => cases dsc <;> rfl
    | false =>
      simp only [Bool.false_eq_true, if_false]
      unfold csD
      have : (dataObjs a).find? (·.path = x.path) = none := by
        rw [List.find?_eq_none]
        intro y hy hyp
        have hyp : y.path = x.path := by simpa using hyp
        have hya := (List.mem_filter.1 hy)
        have : a.find? (·.path = x.path) = some y := hyp ▸ find_of_nodup_act hnd hya.1
        rw [find_of_nodup_act hnd hx] at this
        cases this
        rw [hd] at hya
        exact absurd hya.2 (by simp)
      rw [this]
  · have hnone : getSegmentObject (segRec pos s a) p = none :=
      getSegmentObject_none _ p (by rw [hobjs, map_concObj_paths]; exact hp)
    rw [hnone]
    unfold csD
    have : (dataObjs a).find? (·.path = p) = none := by
      rw [List.find?_eq_none]
      intro y hy hyp
      have hyp : y.path = p := by simpa using hyp
      exact hp (List.mem_map.2 ⟨y, (List.mem_filter.1 hy).1, hyp⟩)
    rw [this]

theorem mem_paths_of_csD_ne_zero (d : List ActiveObj) (p : Bytes) (h : csD d p ≠ 0) : p ∈ d.map (·.path) := by
  unfold csD at h
  cases hf : d.find? (·.path = p) with
  | none => rw [hf] at h; exact absurd rfl h
  | some x =>
    have h1 := List.mem_of_find?_eq_some hf
    have h2 : x.path = p := by simpa using List.find?_some hf
    exact List.mem_map.2 ⟨x, h1, h2⟩

/-! ## the whole file -/

/-- the values the encoding lists under path `p`, in file order -/
def chanValsAll : List SegEnc → List (List ActiveObj) → Bytes → List Bytes
  | s :: ss, a :: as, p => (s.chunks.map fun ch => chanVals (dataObjs a) ch p).flatten ++ chanValsAll ss as p
  | _, _, _ => []

theorem segPairs_filter (s : SegEnc) (a : List ActiveObj) (hnd : (a.map (·.path)).Nodup) (p : Bytes) :
    ((segPairs s a).filter fun pv => decide (pv.1 = p)).flatMap (·.2) =
      (s.chunks.map fun ch => chanVals (dataObjs a) ch p).flatten := by
  unfold segPairs
  induction s.chunks with
  | nil => rfl
  | cons ch chs ih =>
    rw [List.flatMap_cons, List.filter_append, List.flatMap_append, ih,
      pairs_filter_eq_chanVals p _ ch (dataObjs_nodup hnd)]
    rfl

theorem allPairs_filter (p : Bytes) : ∀ (ss : List SegEnc) (as : List (List ActiveObj)), ActsNodup as →
    ((allPairs ss as).filter fun pv => decide (pv.1 = p)).flatMap (·.2) = chanValsAll ss as p := by
  intro ss
  induction ss with
  | nil => intro as _; cases as <;> rfl
  | cons s ss ih =>
    intro as hnd
    cases as with
    | nil => rfl
    | cons a as =>
      rw [allPairs, List.filter_append, List.flatMap_append, segPairs_filter s a (hnd a List.mem_cons_self),
        ih as (fun a' ha' => hnd a' (List.mem_cons_of_mem _ ha'))]
      rfl

/-- `denote` assigns to every object the values the encoding lists under its path -/
theorem values_eq_chanValsAll (ss : List SegEnc) (as : List (List ActiveObj)) (hok : SegsOK ss as)
    (hnd : ActsNodup as) (oc : ObjContent) (hoc : oc ∈ denoteSegs [] ss as) :
    oc.values = chanValsAll ss as oc.path := by
  have hnodup := denoteSegs_nodup ss as [] hok (by simp)
  have hvals := valsOf_denoteSegs ss as [] hok
  have hvoc : valsOf (denoteSegs [] ss as) oc.path = oc.values := by
    unfold valsOf
    rw [find_of_nodup hnodup hoc]
    rfl
  rw [← hvoc, hvals, bump_foldl_closed, allPairs_filter oc.path ss as hnd]
  rfl

/-- chunk contents of the file for channel `p` (C04's `Vals`) -/
def fileVals (ss : List SegEnc) (as : List (List ActiveObj)) (p : Bytes) : Vals := fun i j =>
  chanVals (dataObjs (as.getD i [])) ((ss.getD i default).chunks.getD j []) p

theorem map_range_getD {α β : Type} (f : α → β) (dflt : α) (l : List α) :
    (List.range l.length).map (fun j => f (l.getD j dflt)) = l.map f := by
  apply List.ext_getElem
  · simp
  · intro i h1 h2
    simp only [List.length_map, List.length_range] at h1
    simp [List.getD_eq_getElem?_getD, h1]

/-- the layouts of the records of an encoded file -/
def layouts (ss : List SegEnc) (as : List (List ActiveObj)) (p : Bytes) : List SegL :=
  (ss.zip as).map fun sa => ⟨csD (dataObjs sa.2) p, sa.1.chunks.length, none⟩

theorem layouts_segRecs (p : Bytes) : ∀ (ss : List SegEnc) (as : List (List ActiveObj)) (pos : Nat), ActsNodup as →
    (segRecs pos ss as).map (layoutOf p) = layouts ss as p := by
  intro ss
  induction ss with
  | nil => intro as pos _; cases as <;> rfl
  | cons s ss ih =>
    intro as pos hnd
    cases as with
    | nil => rfl
    | cons a as =>
      simp only [segRecs, List.map_cons, layouts, List.zip_cons_cons]
      rw [layoutOf_segRec pos s a (hnd a List.mem_cons_self) p]
      congr 1
      exact ih as _ (fun a' ha' => hnd a' (List.mem_cons_of_mem _ ha'))

theorem layouts_wellFormed (ss : List SegEnc) (as : List (List ActiveObj)) (p : Bytes) :
    WellFormed (layouts ss as p) := by
  intro l hl
  obtain ⟨sa, _, rfl⟩ := List.mem_map.1 hl
  trivial

theorem segsOK_getElem : ∀ (ss : List SegEnc) (as : List (List ActiveObj)), SegsOK ss as →
    ∀ (i : Nat) s a, ss[i]? = some s → as[i]? = some a → SegOK s a := by
  intro ss
  induction ss with
  | nil => intro as _ i s a h; simp at h
  | cons s0 ss ih =>
    intro as hok i s a hs ha
    cases as with
    | nil => cases hok
    | cons a0 as =>
      cases i with
      | zero =>
        simp only [List.getElem?_cons_zero, Option.some.injEq] at hs ha
        subst hs; subst ha; exact hok.1
      | succ i =>
        simp only [List.getElem?_cons_succ] at hs ha
        exact ih as hok.2 i s a hs ha

theorem segsOK_length : ∀ (ss : List SegEnc) (as : List (List ActiveObj)), SegsOK ss as → ss.length = as.length := by
  intro ss
  induction ss with
  | nil => intro as h; cases as with
    | nil => rfl
    | cons _ _ => cases h
  | cons s ss ih =>
    intro as h
    cases as with
    | nil => cases h
    | cons a as => simp [ih as h.2]

theorem layouts_getElem? (ss : List SegEnc) (as : List (List ActiveObj)) (p : Bytes) (i : Nat) (l : SegL)
    (h : (layouts ss as p)[i]? = some l) :
    ∃ s a, ss[i]? = some s ∧ as[i]? = some a ∧ l = ⟨csD (dataObjs a) p, s.chunks.length, none⟩ := by
  unfold layouts at h
  rw [List.getElem?_map] at h
  cases hz : (ss.zip as)[i]? with
  | none => rw [hz] at h; cases h
  | some sa =>
    rw [hz] at h
    simp only [Option.map_some, Option.some.injEq] at h
    rw [List.getElem?_zip_eq_some] at hz
    exact ⟨sa.1, sa.2, hz.1, hz.2, h.symm⟩

theorem fileVals_ok (ss : List SegEnc) (as : List (List ActiveObj)) (hok : SegsOK ss as) (p : Bytes) :
    ValsOk (layouts ss as p) (fileVals ss as p) := by
  intro i l hl j hj
  obtain ⟨s, a, hs, ha, rfl⟩ := layouts_getElem? ss as p i l hl
  have hsok := segsOK_getElem ss as hok i s a hs ha
  simp only at hj
  unfold fileVals SegL.chunkLen
  simp only [List.getD_eq_getElem?_getD, hs, ha, Option.getD_some, List.getElem?_eq_getElem hj]
  exact chanVals_length p _ _ (hsok.chunks _ (List.getElem_mem hj))

/-- C04's full array of the channel = the values the encoding lists under its path -/
theorem fullFrom_layouts (p : Bytes) : ∀ (ss : List SegEnc) (as : List (List ActiveObj)) (i : Nat) (vals : Vals),
    SegsOK ss as →
    (∀ t j, vals (i + t) j = chanVals (dataObjs (as.getD t [])) ((ss.getD t default).chunks.getD j []) p) →
    fullFrom vals i (layouts ss as p) = chanValsAll ss as p := by
  intro ss
  induction ss with
  | nil => intro as i vals _ _; cases as <;> rfl
  | cons s ss ih =>
    intro as i vals hok hv
    cases as with
    | nil => cases hok
    | cons a as =>
      have hl : layouts (s :: ss) (a :: as) p = ⟨csD (dataObjs a) p, s.chunks.length, none⟩ :: layouts ss as p := rfl
      rw [hl, fullFrom, chanValsAll]
      congr 1
      · -- this segment
        have hv0 : ∀ j, vals i j = chanVals (dataObjs a) (s.chunks.getD j []) p := by
          intro j; simpa using hv 0 j
        have hmap : (List.range s.chunks.length).map (vals i) = s.chunks.map fun ch => chanVals (dataObjs a) ch p := by
          rw [← map_range_getD (fun ch => chanVals (dataObjs a) ch p) [] s.chunks]
          apply List.map_congr_left
          intro j _; exact hv0 j
        unfold segVals
        simp only []
        by_cases hcs : csD (dataObjs a) p = 0
        · rw [if_pos hcs]
          symm
          rw [List.flatten_eq_nil_iff]
          intro l hl
          obtain ⟨ch, hch, rfl⟩ := List.mem_map.1 hl
          apply List.eq_nil_of_length_eq_zero
          rw [chanVals_length p _ _ (hok.1.chunks ch hch), hcs]
        · rw [if_neg hcs, hmap]
      · apply ih as (i + 1) vals hok.2
        intro t j
        have := hv (t + 1) j
        rw [show i + 1 + t = i + (t + 1) by omega]
        simpa using this

theorem full_layouts (ss : List SegEnc) (as : List (List ActiveObj)) (hok : SegsOK ss as) (p : Bytes) :
    full (layouts ss as p) (fileVals ss as p) = chanValsAll ss as p := by
  unfold full
  apply fullFrom_layouts p ss as 0 _ hok
  intro t j
  simp [fileVals]

/-! ## the record of segment `i` and its bytes -/

theorem segRecs_at (file : Bytes) : ∀ (ss : List SegEnc) (as : List (List ActiveObj)) (pos : Nat),
    file.drop pos = zipEncode encodeSeg ss as → ∀ (i : Nat) seg, (segRecs pos ss as)[i]? = some seg →
    ∃ pos' s a rest, ss[i]? = some s ∧ as[i]? = some a ∧ seg = segRec pos' s a ∧
      file.drop pos' = encodeSeg s a ++ rest := by
  intro ss
  induction ss with
  | nil => intro as pos _ i seg h; cases as <;> simp [segRecs] at h
  | cons s ss ih =>
    intro as pos hfile i seg h
    cases as with
    | nil => simp [segRecs] at h
    | cons a as =>
      have hfile' : file.drop pos = encodeSeg s a ++ zipEncode encodeSeg ss as := hfile
      cases i with
      | zero =>
        simp only [segRecs, List.getElem?_cons_zero, Option.some.injEq] at h
        exact ⟨pos, s, a, _, rfl, rfl, h.symm, hfile'⟩
      | succ i =>
        simp only [segRecs, List.getElem?_cons_succ] at h
        obtain ⟨pos', s', a', rest, h1, h2, h3, h4⟩ :=
          ih as _ (Tdms.Proofs.Bytes.drop_add_of_drop_eq hfile') i seg h
        exact ⟨pos', s', a', rest, by simpa using h1, by simpa using h2, h3, h4⟩

end Tdms.Proofs.C04Whole
