/-
  Helper lemmas for C13 (scaled data is the dataflow evaluation of the NI_Scale definitions).

  * Horner's rule is the sum over powers (commutative ring).
  * The left-to-right list of node values, and the key invariant: with `idx + 2 ≤ fuel` the model's
    recursive `computeScaled … fuel idx` is entry `idx` of that list (strong induction on `idx`).
  * `foldl max` is the maximum.
  * `scaleTypeIndex` on keys `NI_Scale[<i>]_Scale_Type…` (uses the verified `String` API of core/Std:
    `startsWith`, `drop`, `takeWhile`, `Nat.repr`, `String.toNat?`).
-/
import Mathlib.Tactic.Ring
import Std.Data.String.ToNat
import TdmsProofs.Spec.ScaleGraph

namespace Tdms.Proofs.C13

open Tdms.Model.Scaling

/-! ### Horner -/

section Horner
variable {R : Type} [CommRing R]

theorem polySum_aux (cs : List R) (x : R) (k : Nat) :
    ((cs.zipIdx k).map fun p => p.1 * x ^ p.2).sum = x ^ k * horner cs x := by
  induction cs generalizing k with
  | nil => simp [horner]
  | cons c cs ih =>
    simp only [List.zipIdx_cons, List.map_cons, List.sum_cons, ih, horner]
    ring

theorem horner_eq_polySum (cs : List R) (x : R) : horner cs x = Spec.polySum cs x := by
  simp [Spec.polySum, polySum_aux]
end Horner

section Graph
variable {R : Type} [CommRing R]
variable (interp : List R → List R → R → R) (env : Nat → R → R) (raw : RawElem R)

/-- one step of the left-to-right evaluation -/
def step (vals : List (Except ScaleErr R)) (s : Scaling R) : List (Except ScaleErr R) :=
  vals ++ [Spec.evalNode interp env raw vals s]

theorem nodeValues_eq (g : List (Scaling R)) :
    Spec.nodeValues interp env g raw = g.foldl (step interp env raw) [] := rfl

theorem foldl_step_length (g : List (Scaling R)) (acc : List (Except ScaleErr R)) :
    (g.foldl (step interp env raw) acc).length = acc.length + g.length := by
  induction g generalizing acc with
  | nil => simp
  | cons s g ih => simp [ih, step]; omega

theorem foldl_step_prefix (g : List (Scaling R)) (acc : List (Except ScaleErr R)) :
    ∃ t, g.foldl (step interp env raw) acc = acc ++ t := by
  induction g generalizing acc with
  | nil => exact ⟨[], by simp⟩
  | cons s g ih =>
    obtain ⟨t, ht⟩ := ih (step interp env raw acc s)
    exact ⟨Spec.evalNode interp env raw acc s :: t, by rw [List.foldl_cons, ht]; simp [step]⟩

theorem length_nodeValues (g : List (Scaling R)) :
    (Spec.nodeValues interp env g raw).length = g.length := by
  simp [nodeValues_eq, foldl_step_length]

theorem nodeValues_append (g₁ g₂ : List (Scaling R)) :
    ∃ t, Spec.nodeValues interp env (g₁ ++ g₂) raw = Spec.nodeValues interp env g₁ raw ++ t := by
  simp only [nodeValues_eq, List.foldl_append]
  exact foldl_step_prefix interp env raw g₂ _

theorem nodeValues_take (g : List (Scaling R)) (i : Nat) :
    Spec.nodeValues interp env (g.take i) raw = (Spec.nodeValues interp env g raw).take i := by
  obtain ⟨t, ht⟩ := nodeValues_append interp env raw (g.take i) (g.drop i)
  rw [List.take_append_drop] at ht
  by_cases h : i ≤ g.length
  · conv_rhs => rw [ht]
    rw [List.take_left' (by simp [length_nodeValues]; omega)]
  · rw [List.take_of_length_le (by omega), List.take_of_length_le (by simp [length_nodeValues]; omega)]

theorem nodeValues_snoc (g : List (Scaling R)) (s : Scaling R) :
    Spec.nodeValues interp env (g ++ [s]) raw =
      Spec.nodeValues interp env g raw ++ [Spec.evalNode interp env raw (Spec.nodeValues interp env g raw) s] := by
  simp [nodeValues_eq, List.foldl_append, step]

/-- node `i` is evaluated on the values of the nodes before it -/
theorem nodeValues_getElem? (g : List (Scaling R)) (i : Nat) (h : i < g.length) :
    (Spec.nodeValues interp env g raw)[i]? =
      some (Spec.evalNode interp env raw ((Spec.nodeValues interp env g raw).take i) g[i]) := by
  have h1 : (Spec.nodeValues interp env g raw)[i]? = ((Spec.nodeValues interp env g raw).take (i+1))[i]? := by
    rw [List.getElem?_take]; simp
  rw [h1, ← nodeValues_take, List.take_succ_eq_append_getElem h, nodeValues_snoc, nodeValues_take]
  rw [List.getElem?_append_right (by simp [length_nodeValues])]
  simp [length_nodeValues, Nat.min_eq_left (Nat.le_of_lt h)]


theorem computeScaled_raw (g : List (Scaling R)) (fuel : Nat) :
    computeScaled interp env g raw (fuel + 1) rawSource = Spec.rawInput raw := by
  simp [computeScaled, Spec.rawInput]
  cases raw.data <;> rfl

/-- the input of node `i` computed by the model (with enough fuel) is the input read from the list
of earlier node values -/
theorem computeScaled_eq_nodeValue {g : List (Scaling R)} (hwf : wf g) :
    ∀ idx, idx < g.length → ∀ fuel, idx + 2 ≤ fuel →
      computeScaled interp env g raw fuel idx =
        (Spec.nodeValues interp env g raw)[idx]?.getD (.error .indexError) := by
  intro idx
  induction idx using Nat.strong_induction_on with
  | _ idx ih =>
    intro hidx fuel hfuel
    obtain ⟨f, rfl⟩ : ∃ f, fuel = f + 1 := ⟨fuel - 1, by omega⟩
    have hne : idx ≠ rawSource := by have := hwf.2.1; omega
    -- what the model computes for an input source of this node
    have hin : ∀ s ∈ sources g[idx], computeScaled interp env g raw f s =
        Spec.input raw ((Spec.nodeValues interp env g raw).take idx) s := by
      intro s hs
      obtain ⟨f', rfl⟩ : ∃ f', f = f' + 1 := ⟨f - 1, by omega⟩
      rcases wf_source hwf hidx hs with h | h
      · subst h; simp [computeScaled_raw, Spec.input]
      · have hs' : s ≠ rawSource := by have := hwf.2.1; omega
        rw [ih s h (by omega) (f' + 1) (by omega)]
        simp [Spec.input, hs', h]
    rw [nodeValues_getElem? interp env raw g idx hidx]
    rw [computeScaled]
    simp only [hne, if_false, List.getElem?_eq_getElem hidx, Option.getD_some]
    generalize hnode : g[idx] = node at hin
    cases node with
    | daqmx id =>
      simp only [Spec.evalNode, Spec.scalerInput]
      cases raw.scalers.find? (·.1 = id) with
      | none => rfl
      | some p => rfl
    | _ => simp [sources] at hin; simp [Spec.evalNode, hin, horner_eq_polySum]

theorem evalGraph_eq (g : List (Scaling R)) :
    Spec.evalGraph interp env g raw =
      (Spec.nodeValues interp env g raw)[g.length - 1]?.getD (.error .indexError) := by
  simp [Spec.evalGraph, List.getLast?_eq_getElem?, length_nodeValues]

end Graph

/-! ### `foldl max` -/

theorem foldl_max_spec (is : List Nat) (i : Nat) :
    is.foldl max i ∈ i :: is ∧ ∀ j ∈ i :: is, j ≤ is.foldl max i := by
  induction is generalizing i with
  | nil => simp
  | cons k is ih =>
    obtain ⟨h1, h2⟩ := ih (max i k)
    simp only [List.foldl_cons]
    refine ⟨?_, ?_⟩
    · simp only [List.mem_cons] at h1 ⊢
      rcases h1 with h | h
      · rw [h]; rcases Nat.le_total i k with h' | h'
        · simp [Nat.max_eq_right h']
        · simp [Nat.max_eq_left h']
      · exact .inr (.inr h)
    · intro j hj
      simp only [List.mem_cons] at hj
      have hm := h2 (max i k) (by simp)
      rcases hj with rfl | rfl | hj
      · exact Nat.le_trans (Nat.le_max_left _ _) hm
      · exact Nat.le_trans (Nat.le_max_right _ _) hm
      · exact h2 j (by simp [hj])


/-! ### strings: `scaleTypeIndex` on `NI_Scale[<i>]_Scale_Type…` -/

theorem list_takeWhile_of_split {α : Type} (p : α → Bool) (a b : List α)
    (ha : a.all p = true) (hb : b.head?.any p = false) : (a ++ b).takeWhile p = a := by
  rw [List.takeWhile_append_of_pos (by simpa using ha)]
  cases b with
  | nil => simp
  | cons x b => simp at hb; simp [hb]

theorem toList_takeWhile (s : String) (p : Char → Bool) :
    (s.takeWhile p).copy.toList = s.toList.takeWhile p := by
  have h1 : (s.takeWhile p).copy.toList ++ (s.dropWhile p).copy.toList = s.toList := by
    rw [← String.toList_append, String.takeWhile_append_dropWhile]
  have h2 : (s.takeWhile p).copy.toList.all p = true := by
    rw [← String.Slice.all_bool_eq]; exact String.all_takeWhile
  have h3 : (s.dropWhile p).copy.toList.head?.any p = false := by
    rw [← String.Slice.startsWith_bool_eq_head?]; exact String.startsWith_dropWhile
  rw [← h1, list_takeWhile_of_split p _ _ h2 h3]

theorem isDigit_toDigits (i : Nat) : (Nat.toDigits 10 i).all Char.isDigit = true := by
  simp only [List.all_eq_true]
  exact fun c hc => Nat.isDigit_of_mem_toDigits (by omega) (by omega) hc

theorem scaleTypeIndex_key (i : Nat) (sfx : String) :
    scaleTypeIndex (pfx i ++ "_Scale_Type" ++ sfx) = some i := by
  have hkey : (pfx i ++ "_Scale_Type" ++ sfx).toList =
      "NI_Scale[".toList ++ (Nat.toDigits 10 i ++ ("]_Scale_Type".toList ++ sfx.toList)) := by
    simp [pfx]
  have hrest : ((pfx i ++ "_Scale_Type" ++ sfx).drop 9).copy.toList =
      Nat.toDigits 10 i ++ ("]_Scale_Type".toList ++ sfx.toList) := by
    rw [String.toList_copy_drop, hkey]
    exact List.drop_left' (by decide)
  have hdig : ((((pfx i ++ "_Scale_Type" ++ sfx).drop 9).copy.takeWhile Char.isDigit).copy).toList
      = Nat.toDigits 10 i := by
    rw [toList_takeWhile, hrest]
    apply list_takeWhile_of_split _ _ _ (isDigit_toDigits i)
    simp
  have hdig' : (((pfx i ++ "_Scale_Type" ++ sfx).drop 9).copy.takeWhile Char.isDigit).copy
      = Nat.repr i := by
    rw [← String.toList_inj, hdig, Nat.toList_repr]
  unfold scaleTypeIndex
  simp only [String.Slice.toString_eq]
  rw [if_pos (by rw [String.startsWith_string_iff, hkey]; exact List.prefix_append _ _)]
  simp only [hdig']
  rw [if_neg (by simp)]
  rw [if_pos]
  · exact Nat.toNat?_repr i
  · rw [String.startsWith_string_iff, String.toList_copy_drop, hrest,
      ← String.length_toList, Nat.toList_repr, List.drop_left]
    exact List.prefix_append _ _


theorem scaleTypeIndex_key' (i : Nat) : scaleTypeIndex (pfx i ++ "_Scale_Type") = some i := by
  simpa using scaleTypeIndex_key i ""

theorem scaleTypeIndex_of_not_prefix (key : String) (h : ¬ "NI_Scale[".toList <+: key.toList) :
    scaleTypeIndex key = none := by
  unfold scaleTypeIndex
  rw [if_neg (by rw [String.startsWith_string_iff]; exact h)]

end Tdms.Proofs.C13
