import TdmsProofs.Lemmas.C05Step

/-! # C05: the one-chunk cache of `_read_at_index` and history independence of index reads -/

namespace Tdms.Proofs.C05

open Tdms Tdms.Model Tdms.Generated

theorem throw_bind_F {α β : Type} (e : Err) (k : α → F β) : ((throw e : F α) >>= k) = throw e := by
  funext s; rfl

theorem bind_run_ok {α β : Type} {m : F α} {k : α → F β} {s s' : FState} {a : α}
    (h : m s = .ok (a, s')) : (m >>= k) s = k a s' := by
  show (m s >>= fun p => k p.1 p.2) = _
  rw [h]; rfl

theorem bind_run_error {α β : Type} {m : F α} {k : α → F β} {s : FState} {e : Err}
    (h : m s = .error e) : (m >>= k) s = .error e := by
  show (m s >>= fun p => k p.1 p.2) = _
  rw [h]; rfl

/-- the bounds check of `_read_at_index`: `none` is `IndexError` -/
def normIndex (f : OpenFile) (p : Bytes) (i : Int) : Option Nat :=
  let len : Int := (((f.objects.get p).map (·.numValues)).getD 0 : Nat)
  let i' := if i < 0 then len + i else i
  if i' < 0 ∨ i' ≥ len then none else some i'.toNat

/-- the uncached path of `_read_at_index` -/
def missPath (f : OpenFile) (p : Bytes) (j : Nat) : F (Bytes × Option ChunkCache) := do
  let (chunk, off) ← readChannelChunkForIndex f p j
  let vals := chunk.data.getD []
  match vals[j - off]? with
  | some v => pure (v, some ⟨off, off + vals.length, vals⟩)
  | none => throw .indexError

theorem channelReadAtIndex_eq (f : OpenFile) (p : Bytes) (cache : Option ChunkCache) (i : Int) :
    channelReadAtIndex f p cache i =
      match normIndex f p i with
      | none => throw .indexError
      | some j =>
        match cache with
        | some c => if c.lo ≤ j ∧ j < c.hi then pure (c.vals.getD (j - c.lo) [], cache) else missPath f p j
        | none => missPath f p j := by
  unfold channelReadAtIndex normIndex missPath
  dsimp only
  generalize (if i < 0 then _ else i) = i'
  by_cases h : i' < 0 ∨ i' ≥ ((((f.objects.get p).map (·.numValues)).getD 0 : Nat) : Int)
  · simp only [h, if_true, throw_bind_F]
  · simp only [h, if_false]
    rfl

/-- `read_channel_chunk_for_index(j)` returns `(chunk, off)` (from any file position) -/
def ChunkAt (f : OpenFile) (p : Bytes) (j : Nat) (chunk : ChanChunk) (off : Nat) : Prop :=
  ∀ io, ∃ io', readChannelChunkForIndex f p j io = .ok ((chunk, off), io')

theorem chunkAt_of_run {f : OpenFile} {p : Bytes} {j : Nat} {chunk : ChanChunk} {off : Nat} {io io' : FState}
    (h : readChannelChunkForIndex f p j io = .ok ((chunk, off), io')) : ChunkAt f p j chunk off := by
  intro io₂
  have := (posIndep_readChannelChunkForIndex f p j).run io io₂ trivial
  rw [h] at this
  revert this
  cases readChannelChunkForIndex f p j io₂ with
  | error e => intro h; exact h.elim
  | ok x =>
    obtain ⟨a, s⟩ := x
    intro h
    obtain ⟨h1, _⟩ := h
    dsimp only at h1
    subst h1
    exact ⟨s, rfl⟩

/-- a cache entry of channel `p` agrees with what an uncached read returns for every index inside
    its bounds -/
def CacheEntrySound (f : OpenFile) (p : Bytes) (c : ChunkCache) : Prop :=
  c.hi = c.lo + c.vals.length ∧
  ∀ j, c.lo ≤ j → j < c.hi → ∃ chunk, chunk.data.getD [] = c.vals ∧ ChunkAt f p j chunk c.lo

/-- the cache-soundness invariant of an open file -/
def CacheSound (f : OpenFile) (caches : List (Bytes × ChunkCache)) : Prop :=
  ∀ p c, cacheLookup caches p = some c → CacheEntrySound f p c

/-- `len(channel)` as `_read_at_index` sees it -/
def chanLen (f : OpenFile) (p : Bytes) : Nat := ((f.objects.get p).map (·.numValues)).getD 0

theorem normIndex_lt {f : OpenFile} {p : Bytes} {i : Int} {j : Nat} (h : normIndex f p i = some j) :
    j < chanLen f p := by
  unfold normIndex at h
  dsimp only at h
  generalize (if i < 0 then _ else i) = i' at h
  unfold chanLen
  by_cases hc : i' < 0 ∨ i' ≥ ((((f.objects.get p).map (·.numValues)).getD 0 : Nat) : Int)
  · rw [if_pos hc] at h; cases h
  · rw [if_neg hc] at h
    injection h with h
    omega

/-- chunk locality: every index inside the chunk returned for a valid index `j₀` is served by that
    same chunk -/
def ChunkLocal (f : OpenFile) : Prop :=
  ∀ p j₀ chunk off, j₀ < chanLen f p → ChunkAt f p j₀ chunk off →
    ∀ j, off ≤ j → j < off + (chunk.data.getD []).length → ChunkAt f p j chunk off

theorem missPath_of_chunkAt {f : OpenFile} {p : Bytes} {j : Nat} {chunk : ChanChunk} {off : Nat}
    (h : ChunkAt f p j chunk off) (io : FState) :
    ∃ io', missPath f p j io =
      match (chunk.data.getD [])[j - off]? with
      | some v => .ok ((v, some ⟨off, off + (chunk.data.getD []).length, chunk.data.getD []⟩), io')
      | none => .error .indexError := by
  obtain ⟨io', hio⟩ := h io
  refine ⟨io', ?_⟩
  unfold missPath
  rw [bind_run_ok hio]
  dsimp only
  generalize (chunk.data.getD [])[j - off]? = o
  cases o <;> rfl

theorem missPath_inv {f : OpenFile} {p : Bytes} {j : Nat} {io io' : FState} {v : Bytes} {cache : Option ChunkCache}
    (h : missPath f p j io = .ok ((v, cache), io')) :
    ∃ chunk off, ChunkAt f p j chunk off ∧ (chunk.data.getD [])[j - off]? = some v ∧
      cache = some ⟨off, off + (chunk.data.getD []).length, chunk.data.getD []⟩ := by
  cases hr : readChannelChunkForIndex f p j io with
  | error e =>
    unfold missPath at h
    rw [bind_run_error hr] at h
    cases h
  | ok x =>
    obtain ⟨⟨chunk, off⟩, s⟩ := x
    have hc := chunkAt_of_run hr
    obtain ⟨io'', h2⟩ := missPath_of_chunkAt hc io
    rw [h] at h2
    refine ⟨chunk, off, hc, ?_⟩
    revert h2
    split
    · intro h2
      injection h2 with h2
      simp only [Prod.mk.injEq] at h2
      obtain ⟨⟨rfl, rfl⟩, _⟩ := h2
      exact ⟨by assumption, rfl⟩
    · intro h2; cases h2

/-- a sound cache entry serves exactly what the uncached path would return -/
theorem missPath_of_sound {f : OpenFile} {p : Bytes} {c : ChunkCache} (hc : CacheEntrySound f p c)
    {j : Nat} (hlo : c.lo ≤ j) (hhi : j < c.hi) (io : FState) :
    ∃ io', missPath f p j io = .ok ((c.vals.getD (j - c.lo) [], some c), io') := by
  obtain ⟨hlen, hall⟩ := hc
  obtain ⟨chunk, hvals, hat⟩ := hall j hlo hhi
  obtain ⟨io', h⟩ := missPath_of_chunkAt hat io
  refine ⟨io', ?_⟩
  rw [h, hvals]
  have hj : j - c.lo < c.vals.length := by omega
  have : c.vals[j - c.lo]? = some (c.vals[j - c.lo]) := List.getElem?_eq_getElem hj
  rw [this]
  dsimp only
  have hget : c.vals.getD (j - c.lo) [] = c.vals[j - c.lo] := by
    simp [List.getD, this]
  rw [hget, ← hlen]

theorem cacheLookup_cons_filter (caches : List (Bytes × ChunkCache)) (p q : Bytes) (c : ChunkCache) :
    cacheLookup ((p, c) :: caches.filter (·.1 ≠ p)) q = if q = p then some c else cacheLookup caches q := by
  unfold cacheLookup
  by_cases h : q = p
  · subst h; simp
  · have hpq : ¬ p = q := fun h' => h h'.symm
    simp only [List.find?_cons, hpq, decide_false, h, if_false]
    congr 1
    rw [List.find?_filter]
    congr 1
    funext a
    by_cases ha : a.1 = q
    · simp [ha, h]
    · simp [ha]

theorem ExRel.imp {α : Type} {R S : α → α → Prop} (h : ∀ a b, R a b → S a b) {x y : Except Err α}
    (hx : ExRel R x y) : ExRel S x y := by
  cases x <;> cases y <;> first | exact hx | exact h _ _ hx

theorem runF_ok {α : Type} {m : F α} {st : OpenState} {a : α} {io' : FState} (h : m st.io = .ok (a, io')) :
    runF st m = .ok (a, { st with io := io' }) := by
  unfold runF
  show (match m st.io with | .ok (a, io) => _ | .error e => _) = _
  rw [h]

theorem runF_error {α : Type} {m : F α} {st : OpenState} {e : Err} (h : m st.io = .error e) :
    runF st m = .error e := by
  unfold runF
  show (match m st.io with | .ok (a, io) => _ | .error e => _) = _
  rw [h]

theorem runF_inv {α : Type} {m : F α} {st st' : OpenState} {a : α} (h : runF st m = .ok (a, st')) :
    m st.io = .ok (a, st'.io) ∧ st'.caches = st.caches ∧ st'.iters = st.iters := by
  cases hm : m st.io with
  | error e => rw [runF_error hm] at h; cases h
  | ok x =>
    obtain ⟨a', io'⟩ := x
    rw [runF_ok hm] at h
    injection h with h
    simp only [Prod.mk.injEq] at h
    obtain ⟨rfl, rfl⟩ := h
    exact ⟨rfl, rfl, rfl⟩

/-- values only: any two states -/
theorem runF_val {α : Type} {m : F α} (h : PosIndep m) (s₁ s₂ : OpenState) :
    ExRel (fun x y => x.1 = y.1) (runF s₁ m) (runF s₂ m) := by
  have := h.run s₁.io s₂.io trivial
  cases h1 : m s₁.io with
  | error e =>
    cases h2 : m s₂.io with
    | error e' => rw [h1, h2] at this; rw [runF_error h1, runF_error h2]; exact this
    | ok y => rw [h1, h2] at this; exact this.elim
  | ok x =>
    cases h2 : m s₂.io with
    | error e' => rw [h1, h2] at this; exact this.elim
    | ok y =>
      obtain ⟨a, io₁⟩ := x; obtain ⟨b, io₂⟩ := y
      rw [h1, h2] at this; rw [runF_ok h1, runF_ok h2]; exact this.1

theorem indexPost_out (p : Bytes) (s₁ s₂ : OpenState)
    {r₁ r₂ : Except Err ((Bytes × Option ChunkCache) × OpenState)}
    (h : ExRel (fun x y => x.1.1 = y.1.1) r₁ r₂) : (indexPost p s₁ r₁).2 = (indexPost p s₂ r₂).2 := by
  match r₁, r₂, h with
  | .ok ((v, cache), st'), .ok ((v', cache'), st''), h =>
    have : v = v' := h
    subst this; rfl
  | .error e, .error e', h =>
    have : e = e' := h
    subst this; rfl

theorem posIndep_missPath (f : OpenFile) (p : Bytes) (j : Nat) : PosIndep (missPath f p j) := by
  unfold missPath
  rel_auto

/-- with a sound cache, an index read returns what it returns on a freshly opened file -/
theorem step_index_out_of_sound (f : OpenFile) (st : OpenState) (hs : CacheSound f st.caches)
    (p : Bytes) (i : Int) : (step f st (.index p i)).2 = (step f {} (.index p i)).2 := by
  rw [step_index, step_index, channelReadAtIndex_eq, channelReadAtIndex_eq]
  have hnil : cacheLookup ({} : OpenState).caches p = none := rfl
  rw [hnil]
  cases hn : normIndex f p i with
  | none => rfl
  | some j =>
    dsimp only
    have hmiss : (indexPost p st (runF st (missPath f p j))).2 = (indexPost p {} (runF {} (missPath f p j))).2 :=
      indexPost_out p _ _ ((runF_val (posIndep_missPath f p j) st {}).imp fun a b h => by rw [h])
    cases hl : cacheLookup st.caches p with
    | none => exact hmiss
    | some c =>
      dsimp only
      by_cases hhit : c.lo ≤ j ∧ j < c.hi
      · rw [if_pos hhit]
        obtain ⟨io', hio⟩ := missPath_of_sound (hs p c hl) hhit.1 hhit.2 ({} : OpenState).io
        rw [runF_ok hio]
        rfl
      · rw [if_neg hhit]
        exact hmiss

theorem slicePost_caches (st : OpenState) (r : Except Err (List Bytes × OpenState))
    (h : ∀ a st', r = .ok (a, st') → st'.caches = st.caches) : (slicePost st r).1.caches = st.caches := by
  match r, h with
  | .ok (a, st'), h => exact h a st' rfl
  | .error e, _ => rfl

theorem readPost_caches (st : OpenState) (r : Except Err (Option ReadOut × OpenState))
    (h : ∀ a st', r = .ok (a, st') → st'.caches = st.caches) : (readPost st r).1.caches = st.caches := by
  match r, h with
  | .ok (a, st'), h => exact h a st' rfl
  | .error e, _ => rfl

theorem chanNextPost_caches (id : Nat) (st : OpenState)
    (r : Except Err ((Option (ChanChunk × Nat) × ChanIter) × OpenState))
    (h : ∀ a st', r = .ok (a, st') → st'.caches = st.caches) : (chanNextPost id st r).1.caches = st.caches := by
  match r, h with
  | .ok ((some (c, off), it'), st'), h => exact h _ st' rfl
  | .ok ((none, it'), st'), h => exact h _ st' rfl
  | .error e, _ => rfl

theorem fileNextPost_caches (id : Nat) (st : OpenState)
    (r : Except Err ((Option (RawChunk × List (Bytes × Nat)) × FileIter) × OpenState))
    (h : ∀ a st', r = .ok (a, st') → st'.caches = st.caches) : (fileNextPost id st r).1.caches = st.caches := by
  match r, h with
  | .ok ((some (c, off), it'), st'), h => exact h _ st' rfl
  | .ok ((none, it'), st'), h => exact h _ st' rfl
  | .error e, _ => rfl

/-- only `.index` touches the caches -/
theorem step_caches_of_not_index (f : OpenFile) (st : OpenState) (op : Op) (h : ∀ p i, op ≠ .index p i) :
    (step f st op).1.caches = st.caches := by
  cases op with
  | index p i => exact (h p i rfl).elim
  | slice p a b c => rw [step_slice]; exact slicePost_caches _ _ fun a st' h => (runF_inv h).2.1
  | read p off len => rw [step_read]; exact readPost_caches _ _ fun a st' h => (runF_inv h).2.1
  | newChanIter p => rfl
  | newFileIter => rfl
  | next id =>
    rw [step_next]
    split
    · rfl
    · rfl
    · exact chanNextPost_caches _ _ _ fun a st' h => (runF_inv h).2.1
    · exact fileNextPost_caches _ _ _ fun a st' h => (runF_inv h).2.1

theorem cacheSound_cons_filter {f : OpenFile} {caches : List (Bytes × ChunkCache)} (hs : CacheSound f caches)
    {p : Bytes} {c : ChunkCache} (hc : CacheEntrySound f p c) :
    CacheSound f ((p, c) :: caches.filter (·.1 ≠ p)) := by
  intro q c' hq
  rw [cacheLookup_cons_filter] at hq
  by_cases h : q = p
  · rw [if_pos h] at hq
    injection hq with hq
    subst hq; subst h
    exact hc
  · rw [if_neg h] at hq
    exact hs q c' hq

theorem entrySound_of_chunkAt {f : OpenFile} (hloc : ChunkLocal f) {p : Bytes} {j : Nat} {chunk : ChanChunk}
    {off : Nat} (hj : j < chanLen f p) (h : ChunkAt f p j chunk off) :
    CacheEntrySound f p ⟨off, off + (chunk.data.getD []).length, chunk.data.getD []⟩ :=
  ⟨rfl, fun j' hlo hhi => ⟨chunk, rfl, hloc p j chunk off hj h j' hlo hhi⟩⟩

/-- the cache-soundness invariant is preserved by every operation (given chunk locality) -/
theorem step_preserves_cacheSound (f : OpenFile) (hloc : ChunkLocal f) (st : OpenState)
    (hs : CacheSound f st.caches) (op : Op) : CacheSound f (step f st op).1.caches := by
  by_cases hop : ∀ p i, op ≠ .index p i
  · rw [step_caches_of_not_index f st op hop]; exact hs
  · have : ∃ p i, op = .index p i := by
      cases op with
      | index p i => exact ⟨p, i, rfl⟩
      | _ => exact (hop (by intro p i h; cases h)).elim
    obtain ⟨p, i, rfl⟩ := this
    rw [step_index]
    cases hr : runF st (channelReadAtIndex f p (cacheLookup st.caches p) i) with
    | error e => exact hs
    | ok x =>
      obtain ⟨⟨v, cache⟩, st'⟩ := x
      obtain ⟨hrun, hcaches, _⟩ := runF_inv hr
      cases cache with
      | none => show CacheSound f st'.caches; rw [hcaches]; exact hs
      | some c =>
        show CacheSound f ((p, c) :: st'.caches.filter (·.1 ≠ p))
        rw [hcaches]
        refine cacheSound_cons_filter hs ?_
        rw [channelReadAtIndex_eq] at hrun
        cases hn : normIndex f p i with
        | none => rw [hn] at hrun; cases hrun
        | some j =>
          rw [hn] at hrun
          dsimp only at hrun
          have hmiss : missPath f p j st.io = .ok ((v, some c), st'.io) → CacheEntrySound f p c := by
            intro hm
            obtain ⟨chunk, off, hat, _, hc⟩ := missPath_inv hm
            injection hc with hc
            rw [hc]
            exact entrySound_of_chunkAt hloc (normIndex_lt hn) hat
          cases hl : cacheLookup st.caches p with
          | none => rw [hl] at hrun; exact hmiss hrun
          | some c₀ =>
            rw [hl] at hrun
            dsimp only at hrun
            by_cases hhit : c₀.lo ≤ j ∧ j < c₀.hi
            · rw [if_pos hhit] at hrun
              injection hrun with hrun
              simp only [Prod.mk.injEq, Option.some.injEq] at hrun
              obtain ⟨⟨_, rfl⟩, _⟩ := hrun
              exact hs p c₀ hl
            · rw [if_neg hhit] at hrun
              exact hmiss hrun

theorem run_preserves_cacheSound (f : OpenFile) (hloc : ChunkLocal f) (ops : List Op) (st : OpenState)
    (hs : CacheSound f st.caches) : CacheSound f (run f st ops).caches := by
  induction ops generalizing st with
  | nil => exact hs
  | cons op ops ih => exact ih _ (step_preserves_cacheSound f hloc st hs op)

theorem cacheSound_nil (f : OpenFile) : CacheSound f [] := by
  intro p c h; cases h

end Tdms.Proofs.C05
