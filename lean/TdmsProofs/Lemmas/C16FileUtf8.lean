/-
  C16 at file level, part 3: names as CODE-POINT strings.  The writer model takes names as UTF-8 byte strings and
  builds the path on bytes; Python builds the path on `str` and encodes it.  Both give the same bytes, for every
  string (`path_str_utf8`), because the quote and the slash are ASCII and no byte of a multi-byte UTF-8 sequence
  is below 0x80; UTF-8 encoding is injective.  Core Lean only.
-/
import Tdms.Model.Path
import Tdms.Spec.Bytes

namespace Tdms.Proofs.C16File

open Tdms Tdms.Model.Path

/-- `s.encode('utf-8')` -/
def utf8 (s : String) : Bytes := s.toUTF8.data.toList

/-- `str.encode('utf-8')` is injective: different strings have different bytes -/
theorem utf8_injective {s t : String} (h : utf8 s = utf8 t) : s = t := by
  unfold utf8 at h
  rw [String.toUTF8_eq_toByteArray, String.toUTF8_eq_toByteArray] at h
  apply String.toByteArray_inj.1
  cases hs : s.toByteArray with
  | mk ds =>
    cases ht : t.toByteArray with
    | mk dt =>
      rw [hs, ht] at h
      simp only at h
      have : ds = dt := by
        apply Array.ext'
        exact h
      rw [this]

/-- the bytes of a string are the concatenation of the encodings of its code points -/
theorem utf8_eq (s : String) : utf8 s = s.toList.flatMap String.utf8EncodeChar := by
  unfold utf8
  rw [String.toUTF8_eq_toByteArray, ← String.utf8Encode_toList]
  simp [List.utf8Encode]

theorem utf8_ofList (l : List Char) : utf8 (String.ofList l) = l.flatMap String.utf8EncodeChar := by
  rw [utf8_eq, String.toList_ofList]

theorem enc_quote : String.utf8EncodeChar qChar = [qByte] := by decide
theorem enc_slash : String.utf8EncodeChar sChar = [sByte] := by decide

theorem ofNat_ne_of_ge (n : Nat) (h1 : 128 ≤ n) (h2 : n < 256) : UInt8.ofNat n ≠ qByte := by
  intro e
  have := congrArg UInt8.toNat e
  rw [UInt8.toNat_ofNat'] at this
  have hq : qByte.toNat = 39 := by decide
  rw [hq] at this
  omega

/-- no byte of the encoding of a code point other than the quote is the quote byte -/
theorem enc_no_quote (c : Char) (h : c ≠ qChar) : qByte ∉ String.utf8EncodeChar c := by
  have hv : c.val.toNat ≠ 39 := by
    intro e
    apply h
    apply Char.ext
    apply UInt32.toNat_inj.1
    rw [e]; decide
  unfold String.utf8EncodeChar
  simp only
  split
  · rename_i h1
    simp only [List.mem_singleton]
    intro e
    have := congrArg UInt8.toNat e
    rw [UInt8.toNat_ofNat'] at this
    have hq : qByte.toNat = 39 := by decide
    rw [hq] at this
    omega
  · split
    · simp only [List.mem_cons, List.not_mem_nil, or_false, not_or]
      exact ⟨fun e => ofNat_ne_of_ge _ (by omega) (by omega) e.symm,
        fun e => ofNat_ne_of_ge _ (by omega) (by omega) e.symm⟩
    · split
      · simp only [List.mem_cons, List.not_mem_nil, or_false, not_or]
        exact ⟨fun e => ofNat_ne_of_ge _ (by omega) (by omega) e.symm,
          fun e => ofNat_ne_of_ge _ (by omega) (by omega) e.symm,
          fun e => ofNat_ne_of_ge _ (by omega) (by omega) e.symm⟩
      · simp only [List.mem_cons, List.not_mem_nil, or_false, not_or]
        exact ⟨fun e => ofNat_ne_of_ge _ (by omega) (by omega) e.symm,
          fun e => ofNat_ne_of_ge _ (by omega) (by omega) e.symm,
          fun e => ofNat_ne_of_ge _ (by omega) (by omega) e.symm,
          fun e => ofNat_ne_of_ge _ (by omega) (by omega) e.symm⟩

/-- escaping a byte string that contains no quote byte does nothing -/
theorem escape_no_quote (bs : Bytes) (h : qByte ∉ bs) : escape qByte bs = bs := by
  induction bs with
  | nil => rfl
  | cons b bs ih =>
    simp only [List.mem_cons, not_or] at h
    simp only [escape]
    rw [if_neg (fun e => h.1 e.symm), ih h.2]

theorem escape_append_no_quote (a rest : Bytes) (h : qByte ∉ a) :
    escape qByte (a ++ rest) = a ++ escape qByte rest := by
  induction a with
  | nil => rfl
  | cons b bs ih =>
    simp only [List.mem_cons, not_or] at h
    simp only [List.cons_append, escape]
    rw [if_neg (fun e => h.1 e.symm), ih h.2]

/-- `c.replace("'", "''")` commutes with UTF-8 encoding -/
theorem escape_utf8 (cs : List Char) :
    escape qByte (cs.flatMap String.utf8EncodeChar) = (escape qChar cs).flatMap String.utf8EncodeChar := by
  induction cs with
  | nil => rfl
  | cons c cs ih =>
    simp only [List.flatMap_cons, escape]
    by_cases hc : c = qChar
    · subst hc
      rw [if_pos rfl, enc_quote]
      simp only [List.flatMap_cons, enc_quote, List.cons_append, List.nil_append, escape, if_true]
      rw [ih]
    · rw [if_neg hc, List.flatMap_cons, escape_append_no_quote _ _ (enc_no_quote c hc), ih]

theorem quoted_utf8 (cs : List Char) :
    quoted qByte (cs.flatMap String.utf8EncodeChar) = (quoted qChar cs).flatMap String.utf8EncodeChar := by
  unfold quoted
  rw [List.flatMap_cons, enc_quote, List.flatMap_append, escape_utf8]
  simp [enc_quote]

theorem join_utf8 (xs : List (List Char)) :
    join sByte (xs.map fun x => x.flatMap String.utf8EncodeChar) = (join sChar xs).flatMap String.utf8EncodeChar := by
  induction xs with
  | nil => rfl
  | cons x xs ih =>
    cases xs with
    | nil => rfl
    | cons y r =>
      simp only [List.map_cons, join] at ih ⊢
      rw [List.flatMap_append, List.flatMap_cons, enc_slash, ← ih]
      simp

/-- `_components_to_path` commutes with UTF-8 encoding, on lists of code points -/
theorem componentsToPath_utf8 (comps : List (List Char)) :
    componentsToPath qByte sByte (comps.map fun c => c.flatMap String.utf8EncodeChar) =
      (componentsToPath qChar sChar comps).flatMap String.utf8EncodeChar := by
  unfold componentsToPath
  rw [List.flatMap_cons, enc_slash, ← join_utf8, List.map_map, List.map_map]
  simp only [List.cons_append, List.nil_append]
  congr 2
  apply List.map_congr_left
  intro c _
  exact quoted_utf8 c

/-- **the UTF-8 bytes of the Python path string are the path the writer model builds from the UTF-8 names**,
    for all names (any code points, including the quote, the slash, the empty string, non-BMP code points) -/
theorem path_str_utf8 (comps : List String) :
    utf8 (componentsToPathStr comps) = componentsToPathBytes (comps.map utf8) := by
  unfold componentsToPathStr componentsToPathBytes
  rw [utf8_ofList, ← componentsToPath_utf8, List.map_map]
  congr 1
  apply List.map_congr_left
  intro s _
  exact (utf8_eq s).symm

end Tdms.Proofs.C16File
