/-
  C01 for multi-segment files whose segments are contiguous OR interleaved: the class (`SegStdI`,
  `MultiStdI`), what `wellFormed` says segment by segment (`SegOKI0`; `SegOKI` for canonical `total`), the
  byte size of an interleaved chunk, and the reduction of every layout-independent fact to the contiguous
  class of `C01Multi` through `deint` (the same segment with the interleaved flag cleared: same active
  lists, same meaning).  Core Lean only.
-/
import TdmsProofs.Lemmas.C01MultiCanon

namespace Tdms.Proofs.C01Layouts

open Tdms Tdms.Generated Tdms.Model Tdms.Proofs.C02 Tdms.Proofs.C01Multi
open Tdms.Proofs.Bytes (colsOK aTy rowWidth contOK)

/-! ## the class -/

/-- one segment of the class: either layout, length known, no DAQmx index listed -/
structure SegStdI (s : SegEnc) : Prop where
  lengthKnown : s.lengthUnknown = false
  std : ∀ o ∈ s.objs, stdListed o

/-- ... with canonical `total` of fixed-width indexes -/
structure SegStdCI (s : SegEnc) : Prop where
  lengthKnown : s.lengthUnknown = false
  std : ∀ o ∈ s.objs, stdListed o
  canon : ∀ o ∈ s.objs, canonIdx o.idx = o.idx

/-- an active object with a standard index of fixed-width type -/
def FixedObj (x : ActiveObj) : Prop :=
  ∃ ty n total, x.idx = some (.std ty n total) ∧ (typeSize ty).isSome = true

/-- what `wfSeg` demands of the data objects of an interleaved segment: fixed-width types, and the same
    number of values per chunk -/
structure InterOK (d : List ActiveObj) : Prop where
  fixed : ∀ x ∈ d, FixedObj x
  sameN : ∃ n, ∀ x ∈ d, ∀ dsc, x.idx = some dsc → dsc.n = n

/-- what `wellFormed` and the class say about one segment and its active list (canonical totals) -/
structure SegOKI (s : SegEnc) (a : List ActiveObj) : Prop where
  std : SegStdCI s
  fits : SegFitsM s
  version : s.version = 4712 ∨ s.version = 4713
  noMeta : s.hasMeta = false → s.objs = []
  objs : ∀ o ∈ s.objs, wfObj o = true
  nodup : noDupPaths s.objs = true
  good : ∀ x ∈ a, ∀ d, x.idx = some d → GoodDesc d
  nonZero : ∀ c ∈ s.chunks, (encChunk s a c).length ≠ 0
  chunks : ∀ c ∈ s.chunks, wfStdChunk (dataObjs a) c = true
  inter : s.interleaved = true → InterOK (dataObjs a)

def SegsOKI : List SegEnc → List (List ActiveObj) → Prop
  | [], [] => True
  | s :: ss, a :: as => SegOKI s a ∧ SegsOKI ss as
  | _, _ => False

/-- the same without the requirement on the (never written) `total` of fixed-width indexes -/
structure SegOKI0 (s : SegEnc) (a : List ActiveObj) : Prop where
  std : SegStdI s
  fits : SegFitsM s
  version : s.version = 4712 ∨ s.version = 4713
  noMeta : s.hasMeta = false → s.objs = []
  objs : ∀ o ∈ s.objs, wfObj o = true
  nodup : noDupPaths s.objs = true
  good : ∀ x ∈ a, ∀ d, x.idx = some d → GoodDesc0 d
  nonZero : ∀ c ∈ s.chunks, (encChunk s a c).length ≠ 0
  chunks : ∀ c ∈ s.chunks, wfStdChunk (dataObjs a) c = true
  inter : s.interleaved = true → InterOK (dataObjs a)

def SegsOKI0 : List SegEnc → List (List ActiveObj) → Prop
  | [], [] => True
  | s :: ss, a :: as => SegOKI0 s a ∧ SegsOKI0 ss as
  | _, _ => False

/-- **the class of multi-segment files with contiguous and interleaved segments** -/
structure MultiStdI (e : FileEnc) : Prop where
  segs : ∀ s ∈ e, SegStdI s
  wf : wellFormed e = true

/-! ## from `wellFormed` to per-segment facts -/

def sameNB (d : List ActiveObj) : Bool :=
  match d with
  | [] => true
  | a :: as => as.all fun b => (b.idx.map (·.n)) = (a.idx.map (·.n))

theorem interOK_of_wf {d : List ActiveObj}
    (h1 : (d.all fun a => match a.idx with
                        | some (.std ty _ _) => (typeSize ty).isSome
                        | _ => false) = true)
    (h2 : sameNB d = true) : InterOK d := by
  have hfix : ∀ x ∈ d, FixedObj x := by
    intro x hx
    have := List.all_eq_true.mp h1 x hx
    cases hi : x.idx with
    | none => rw [hi] at this; cases this
    | some dsc =>
      cases dsc with
      | daq dg ty n sc w => rw [hi] at this; cases this
      | std ty n total => rw [hi] at this; exact ⟨ty, n, total, hi, this⟩
  refine ⟨hfix, ?_⟩
  cases d with
  | nil => exact ⟨0, fun x hx => by cases hx⟩
  | cons a as =>
    obtain ⟨ty, n, total, hia, _⟩ := hfix a List.mem_cons_self
    refine ⟨n, ?_⟩
    intro x hx dsc hd
    rcases List.mem_cons.1 hx with rfl | hx'
    · rw [hia] at hd; cases hd; rfl
    · have := List.all_eq_true.mp (show (as.all fun b => decide ((b.idx.map (·.n)) = (a.idx.map (·.n)))) = true from h2) x hx'
      simp only [decide_eq_true_eq] at this
      rw [hd, hia] at this
      simpa [IdxDesc.n] using this

theorem segOKI0_of_wfSeg {s : SegEnc} {a : List ActiveObj} {isLast : Bool} (hstd : SegStdI s)
    (hfit : SegFitsM s) (hgood : ∀ x ∈ a, ∀ d, x.idx = some d → GoodDesc0 d)
    (hwf : wfSeg s a isLast = true) : SegOKI0 s a := by
  have hnd := not_daq_of_good0 hgood
  simp only [wfSeg, Bool.and_eq_true, Bool.or_eq_true, decide_eq_true_eq, List.all_eq_true, hnd,
    Bool.false_eq_true, if_false, chunkBytesNonZero, Bool.not_eq_true'] at hwf
  obtain ⟨⟨⟨⟨⟨⟨⟨hv, hnm⟩, hobjs⟩, hndp⟩, _⟩, _⟩, hnz⟩, hch, hint⟩ := hwf
  refine ⟨hstd, hfit, hv, ?_, hobjs, hndp, hgood, ?_, hch, ?_⟩
  · intro hm
    have := hnm (by simp [hm])
    exact List.isEmpty_iff.mp this.1
  · intro c hc h0
    have := hnz c hc
    rw [List.isEmpty_eq_false_iff] at this
    exact this (List.eq_nil_of_length_eq_zero h0)
  · intro hi
    have := hint hi
    exact interOK_of_wf (List.all_eq_true.mpr this.1) this.2

theorem segsOKI0_of_wfSegs : ∀ (ss : List SegEnc) (as : List (List ActiveObj)),
    (∀ s ∈ ss, SegStdI s) → (∀ s ∈ ss, SegFitsM s) →
    (∀ a ∈ as, ∀ x ∈ a, ∀ d, x.idx = some d → GoodDesc0 d) → wfSegs ss as = true → SegsOKI0 ss as := by
  intro ss
  induction ss with
  | nil => intro as _ _ _ h; cases as <;> simp [wfSegs, SegsOKI0] at h ⊢
  | cons s ss ih =>
    intro as hstd hfit hgood h
    cases as with
    | nil => simp [wfSegs] at h
    | cons a as =>
      simp only [wfSegs, Bool.and_eq_true] at h
      exact ⟨segOKI0_of_wfSeg (hstd s List.mem_cons_self) (hfit s List.mem_cons_self)
          (hgood a List.mem_cons_self) h.1,
        ih as (fun s' hs' => hstd s' (List.mem_cons_of_mem _ hs'))
          (fun s' hs' => hfit s' (List.mem_cons_of_mem _ hs'))
          (fun a' ha' => hgood a' (List.mem_cons_of_mem _ ha')) h.2⟩

theorem MultiStdI.acts {e : FileEnc} (h : MultiStdI e) : ∃ acts, activeLists none [] e = .ok acts ∧
    wfSegs e acts = true := by
  have := h.wf
  unfold wellFormed at this
  cases ha : activeLists none [] e with
  | error r => rw [ha] at this; cases this
  | ok acts => rw [ha] at this; exact ⟨acts, rfl, this⟩

theorem segsOKI0_of_multi {e : FileEnc} (h : MultiStdI e) (fit : FileFits e) {acts : List (List ActiveObj)}
    (ha : activeLists none [] e = .ok acts) : SegsOKI0 e acts := by
  obtain ⟨acts', ha', hwf⟩ := h.acts
  rw [ha] at ha'
  cases ha'
  have hobjs := wfSegs_objs e acts hwf
  refine segsOKI0_of_wfSegs e acts h.segs fit ?_ hwf
  exact activeLists_W GoodDesc0 e none [] acts ha (fun p d hd => by simp [LastIdx.get] at hd)
    (fun a ha => by cases ha)
    (fun s hs o ho => goodDesc0_of_listed (hobjs s hs o ho) ((h.segs s hs).std o ho) ((fit s hs).objs o ho))

/-! ## canonical form -/

theorem interOK_canon {d : List ActiveObj} (h : InterOK d) : InterOK (d.map canonAct) := by
  refine ⟨?_, ?_⟩
  · intro x hx
    obtain ⟨x0, hx0, rfl⟩ := List.mem_map.mp hx
    obtain ⟨ty, n, total, hi, hs⟩ := h.fixed x0 hx0
    exact ⟨ty, n, (if ty = tyString then total else n * (typeSize ty).getD 0), by simp [canonAct, hi, canonDesc], hs⟩
  · obtain ⟨n, hn⟩ := h.sameN
    refine ⟨n, ?_⟩
    intro x hx dsc hd
    obtain ⟨x0, hx0, rfl⟩ := List.mem_map.mp hx
    simp only [canonAct] at hd
    cases hi : x0.idx with
    | none => rw [hi] at hd; cases hd
    | some d0 =>
      rw [hi] at hd
      cases hd
      rw [canonDesc_n]
      exact hn x0 hx0 d0 hi

theorem segOKI_canon {s : SegEnc} {a : List ActiveObj} (h : SegOKI0 s a) :
    SegOKI (canonSeg s) (a.map canonAct) := by
  have hobjs : (canonSeg s).objs = s.objs.map canonObj := rfl
  have hmemo : ∀ o' ∈ (canonSeg s).objs, ∃ o ∈ s.objs, o' = canonObj o := by
    intro o' ho'
    rw [hobjs, List.mem_map] at ho'
    obtain ⟨o, ho, rfl⟩ := ho'
    exact ⟨o, ho, rfl⟩
  refine ⟨⟨h.std.lengthKnown, ?_, ?_⟩, ⟨?_, ?_⟩, h.version, ?_, ?_, ?_, ?_, ?_, ?_, ?_⟩
  · intro o' ho' dg ty n sc w hi
    obtain ⟨o, ho, rfl⟩ := hmemo o' ho'
    apply h.std.std o ho dg ty n sc w
    simp only [canonObj] at hi
    cases hoi : o.idx with
    | full ty' n' total' => rw [hoi] at hi; simp [canonIdx] at hi
    | noData => rw [hoi] at hi; simp [canonIdx] at hi
    | matchesPrev => rw [hoi] at hi; simp [canonIdx] at hi
    | daqmx dg' ty' n' sc' w' => rw [hoi] at hi; simpa [canonIdx] using hi
  · intro o' ho'
    obtain ⟨o, ho, rfl⟩ := hmemo o' ho'
    exact canonIdx_idem o.idx
  · rw [hobjs, List.length_map]; exact h.fits.nObjs
  · intro o' ho'
    obtain ⟨o, ho, rfl⟩ := hmemo o' ho'
    have hf := h.fits.objs o ho
    refine ⟨?_, hf.nProps, hf.props⟩
    intro n total hi
    simp only [canonObj] at hi
    cases hoi : o.idx with
    | full ty' n' total' =>
      rw [hoi] at hi
      simp only [canonIdx, IdxEnc.full.injEq] at hi
      obtain ⟨rfl, rfl, ht⟩ := hi
      simp only [if_true] at ht
      subst ht
      exact hf.strTotal _ _ hoi
    | noData => rw [hoi] at hi; simp [canonIdx] at hi
    | matchesPrev => rw [hoi] at hi; simp [canonIdx] at hi
    | daqmx dg' ty' n' sc' w' => rw [hoi] at hi; simp [canonIdx] at hi
  · intro hm
    rw [hobjs, h.noMeta hm]
    rfl
  · intro o' ho'
    obtain ⟨o, ho, rfl⟩ := hmemo o' ho'
    rw [wfObj_canon]
    exact h.objs o ho
  · rw [hobjs, noDupPaths_canon]; exact h.nodup
  · intro x hx d hd
    rw [List.mem_map] at hx
    obtain ⟨x0, hx0, rfl⟩ := hx
    simp only [canonAct] at hd
    cases hi : x0.idx with
    | none => rw [hi] at hd; cases hd
    | some d0 =>
      rw [hi] at hd
      cases hd
      exact goodDesc_canon (h.good x0 hx0 d0 hi)
  · intro c hc
    rw [encChunk_canon]
    exact h.nonZero c hc
  · intro c hc
    rw [dataObjs_canon, wfStdChunk_canon]
    exact h.chunks c hc
  · intro hi
    rw [dataObjs_canon]
    exact interOK_canon (h.inter hi)

theorem segsOKI_canon : ∀ (ss : List SegEnc) (as : List (List ActiveObj)), SegsOKI0 ss as →
    SegsOKI (ss.map canonSeg) (as.map (·.map canonAct)) := by
  intro ss
  induction ss with
  | nil => intro as h; cases as <;> simp [SegsOKI0, SegsOKI] at h ⊢
  | cons s ss ih =>
    intro as h
    cases as with
    | nil => cases h
    | cons a as => exact ⟨segOKI_canon h.1, ih as h.2⟩

/-! ## one interleaved chunk: reader objects, encoder objects and values agree; its size -/

theorem colsOK_of (n : Nat) : ∀ (d : List ActiveObj) (ch : List (List Bytes)),
    (∀ x ∈ d, FixedObj x) → (∀ x ∈ d, ∀ dsc, x.idx = some dsc → dsc.n = n) → wfStdChunk d ch = true →
    colsOK n (d.map concObj) d ch := by
  intro d
  induction d with
  | nil => intro ch _ _ h; cases ch <;> simp [wfStdChunk, colsOK] at h ⊢
  | cons a as ih =>
    intro ch hfix hn hwf
    cases ch with
    | nil => simp [wfStdChunk] at hwf
    | cons v vs =>
      rw [wfStdChunk, Bool.and_eq_true] at hwf
      obtain ⟨h1, hrest⟩ := hwf
      have ihc := ih vs (fun x hx => hfix x (List.mem_cons_of_mem _ hx))
        (fun x hx => hn x (List.mem_cons_of_mem _ hx)) hrest
      obtain ⟨ty, n', total, hi, hsome⟩ := hfix a List.mem_cons_self
      have hn' : n' = n := hn a List.mem_cons_self _ hi
      subst hn'
      rw [hi] at h1
      have hty : ty ≠ tyString := by
        intro e; rw [e] at hsome; revert hsome; decide
      simp only [Bool.and_eq_true, decide_eq_true_eq, hty, if_false, List.all_eq_true] at h1
      obtain ⟨hlen, hshape⟩ := h1
      obtain ⟨sz, hsz⟩ := Option.isSome_iff_exists.mp hsome
      have haty : aTy a = ty := by simp [aTy, hi, IdxDesc.ty]
      refine ⟨⟨sz, ?_, by rw [haty]; exact hsz, hlen, ?_⟩, ihc⟩
      · unfold concObj; rw [hi, haty]
      · intro x hx
        have := hshape x hx
        rw [hsz] at this
        exact Option.some.inj this

/-- for canonical totals the bytes of one chunk computed from the indexes are `n` rows -/
theorem dataSize_sum_rows (n : Nat) : ∀ (d : List ActiveObj),
    (∀ x ∈ d, ∀ i, x.idx = some i → GoodDesc i) → (∀ x ∈ d, FixedObj x) →
    (∀ x ∈ d, ∀ dsc, x.idx = some dsc → dsc.n = n) →
    (d.map fun x => (concObj x).dataSize).sum = rowWidth d * n := by
  intro d
  induction d with
  | nil => intro _ _ _; simp [rowWidth]
  | cons a as ih =>
    intro hg hfix hn
    have ih' := ih (fun x hx => hg x (List.mem_cons_of_mem _ hx))
      (fun x hx => hfix x (List.mem_cons_of_mem _ hx)) (fun x hx => hn x (List.mem_cons_of_mem _ hx))
    obtain ⟨ty, n', total, hi, hsome⟩ := hfix a List.mem_cons_self
    have hn' : n' = n := hn a List.mem_cons_self _ hi
    subst hn'
    have hty : ty ≠ tyString := by
      intro e; rw [e] at hsome; revert hsome; decide
    have hgd := hg a List.mem_cons_self _ hi
    simp only [GoodDesc] at hgd
    have htot := hgd.2.2.2 hty
    have haty : aTy a = ty := by simp [aTy, hi, IdxDesc.ty]
    have hconc : (concObj a).dataSize = total := by unfold concObj; rw [hi]
    simp only [List.map_cons, List.sum_cons, ih', hconc, htot, rowWidth, haty]
    rw [Nat.add_mul, Nat.mul_comm n']

theorem encChunk_inter (s : SegEnc) (a : List ActiveObj) (hi : s.interleaved = true)
    (hnd : (dataObjs a).any isDaqmxObj = false) (c : List (List Bytes)) :
    encChunk s a c = encChunkInterleaved s.endian (dataObjs a) c := by
  simp only [encChunk, hnd, hi, Bool.false_eq_true, if_false, if_true]

theorem encRaw_inter (s : SegEnc) (a : List ActiveObj) (hi : s.interleaved = true)
    (hnd : (dataObjs a).any isDaqmxObj = false) :
    encRaw s a = s.chunks.flatMap (encChunkInterleaved s.endian (dataObjs a)) := by
  unfold encRaw
  congr 1
  funext c
  exact encChunk_inter s a hi hnd c

theorem wfStdChunk_nil_left {ch : List (List Bytes)} (h : wfStdChunk [] ch = true) : ch = [] := by
  cases ch with
  | nil => rfl
  | cons v vs => simp [wfStdChunk] at h

/-- the byte size of one interleaved chunk is what the reader computes from the indexes -/
theorem encChunkInterleaved_bytes (e : Endian) (d : List ActiveObj) (ch : List (List Bytes))
    (hg : ∀ x ∈ d, ∀ i, x.idx = some i → GoodDesc i) (hint : InterOK d) (hwf : wfStdChunk d ch = true) :
    (encChunkInterleaved e d ch).length = (d.map fun x => (concObj x).dataSize).sum := by
  obtain ⟨n, hn⟩ := hint.sameN
  rw [dataSize_sum_rows n d hg hint.fixed hn]
  cases d with
  | nil =>
    rw [wfStdChunk_nil_left hwf]
    simp [encChunkInterleaved, rowWidth]
  | cons x xs =>
    exact Tdms.Proofs.Bytes.encChunkInterleaved_length e (o := concObj x) (os := xs.map concObj)
      (colsOK_of n (x :: xs) ch hint.fixed hn hwf)

/-- **the byte size of one chunk, either layout** -/
theorem encChunk_bytes {s : SegEnc} {a : List ActiveObj} (h : SegOKI s a) (c : List (List Bytes))
    (hc : c ∈ s.chunks) : (encChunk s a c).length = chunkBytesA a := by
  have hnd := not_daq_of_good h.good
  cases hi : s.interleaved with
  | false =>
    rw [encChunk_contig s a hi hnd]
    exact (chunk_facts s.endian (dataObjs a) c (good_dataObjs h.good) (h.chunks c hc)).2
  | true =>
    rw [encChunk_inter s a hi hnd]
    exact encChunkInterleaved_bytes s.endian (dataObjs a) c (good_dataObjs h.good) (h.inter hi) (h.chunks c hc)

theorem encRaw_lengthI {s : SegEnc} {a : List ActiveObj} (h : SegOKI s a) :
    (encRaw s a).length = s.chunks.length * chunkBytesA a := by
  unfold encRaw
  apply C01Compose.flatMap_length_const
  intro c hc
  exact encChunk_bytes h c hc

theorem chunkBytes_zero_no_chunksI {s : SegEnc} {a : List ActiveObj} (h : SegOKI s a)
    (h0 : chunkBytesA a = 0) : s.chunks.length = 0 := by
  cases hc : s.chunks with
  | nil => rfl
  | cons c cs =>
    exfalso
    have hmem : c ∈ s.chunks := by rw [hc]; exact List.mem_cons_self
    apply h.nonZero c hmem
    rw [encChunk_bytes h c hmem]
    exact h0

/-! ## `deint`: the layout-independent facts reduce to the contiguous class -/

/-- the same segment with the interleaved flag cleared -/
def deint (s : SegEnc) : SegEnc := { s with interleaved := false }

theorem activeOfSeg_deint (prev : Option (List ActiveObj)) (last : LastIdx) (s : SegEnc) :
    activeOfSeg prev last (deint s) = activeOfSeg prev last s := rfl

theorem activeLists_deint : ∀ (ss : List SegEnc) (prev : Option (List ActiveObj)) (last : LastIdx),
    activeLists prev last (ss.map deint) = activeLists prev last ss := by
  intro ss
  induction ss with
  | nil => intro _ _; rfl
  | cons s ss ih =>
    intro prev last
    simp only [List.map_cons, activeLists, activeOfSeg_deint]
    cases activeOfSeg prev last s with
    | error r => rfl
    | ok al => simp only [ih]

theorem addChunk_deint (s : SegEnc) (a : List ActiveObj) : addChunk (deint s) a = addChunk s a := rfl

theorem denoteSeg_deint (c : Content) (s : SegEnc) (a : List ActiveObj) :
    denoteSeg c (deint s) a = denoteSeg c s a := rfl

theorem denoteSegs_deint : ∀ (ss : List SegEnc) (as : List (List ActiveObj)) (c : Content),
    denoteSegs c (ss.map deint) as = denoteSegs c ss as := by
  intro ss
  induction ss with
  | nil => intro as c; cases as <;> rfl
  | cons s ss ih =>
    intro as c
    cases as with
    | nil => rfl
    | cons a as => simp only [List.map_cons, denoteSegs, denoteSeg_deint, ih]

theorem allPairs_deint : ∀ (ss : List SegEnc) (as : List (List ActiveObj)),
    allPairs (ss.map deint) as = allPairs ss as := by
  intro ss
  induction ss with
  | nil => intro as; cases as <;> rfl
  | cons s ss ih =>
    intro as
    cases as with
    | nil => rfl
    | cons a as =>
      simp only [List.map_cons, allPairs, ih]
      rfl

theorem segOK_deint {s : SegEnc} {a : List ActiveObj} (h : SegOKI s a) : SegOK (deint s) a := by
  refine ⟨⟨rfl, h.std.lengthKnown, h.std.std, h.std.canon⟩, ⟨h.fits.nObjs, h.fits.objs⟩, h.version, h.noMeta, h.objs, h.nodup,
    h.good, ?_, h.chunks⟩
  intro c hc
  have hc' : c ∈ s.chunks := hc
  rw [encChunk_contig (deint s) a rfl (not_daq_of_good h.good),
    (chunk_facts (deint s).endian (dataObjs a) c (good_dataObjs h.good) (h.chunks c hc')).2]
  have := h.nonZero c hc'
  rw [encChunk_bytes h c hc'] at this
  exact this

theorem segsOK_deint : ∀ (ss : List SegEnc) (as : List (List ActiveObj)), SegsOKI ss as →
    SegsOK (ss.map deint) as := by
  intro ss
  induction ss with
  | nil => intro as h; cases as <;> simp [SegsOKI, SegsOK] at h ⊢
  | cons s ss ih =>
    intro as h
    cases as with
    | nil => cases h
    | cons a as => exact ⟨segOK_deint h.1, ih as h.2⟩

end Tdms.Proofs.C01Layouts
