/-
  Lead-in: ToC flags and `readLeadIn ∘ encLeadIn`.  Core Lean only.
-/
import TdmsProofs.Lemmas.BytesLemmas

namespace Tdms.Proofs.Bytes

open Tdms Tdms.Generated Tdms.Model

/-! ## ToC flags -/

/-- general lemma: a flag `2^k` reads bit `k` of a mask written as `lo + 2^k·(b + 2·hi)`, `lo < 2^k` -/
theorem hasFlag_bit (k lo hi : Nat) (b : Bool) (hlo : lo < 2 ^ k) :
    hasFlag (lo + 2 ^ k * (b.toNat + 2 * hi)) (2 ^ k) = b := by
  unfold hasFlag
  have hpos : 0 < 2 ^ k := Nat.pos_of_ne_zero (by simp)
  rw [Nat.add_mul_div_left _ _ hpos, Nat.div_eq_of_lt hlo]
  cases b <;> simp [Nat.add_mod]

/-- kernel-checked fact: the six generated ToC flags are distinct powers of two -/
theorem toc_flags_powers :
    kTocMetaData = 2 ^ 1 ∧ kTocNewObjList = 2 ^ 2 ∧ kTocRawData = 2 ^ 3 ∧
    kTocInterleavedData = 2 ^ 5 ∧ kTocBigEndian = 2 ^ 6 ∧ kTocDAQmxRawData = 2 ^ 7 := by decide

/-- the mask as a binary numeral -/
theorem tocMask_bits (s : SegEnc) :
    tocMask s = 2 ^ 1 * s.hasMeta.toNat + 2 ^ 2 * s.newList.toNat + 2 ^ 3 * s.rawFlag.toNat +
      2 ^ 5 * s.interleaved.toNat + 2 ^ 6 * s.big.toNat + 2 ^ 7 * s.daqmxFlag.toNat := by
  obtain ⟨h1, h2, h3, h4, h5, h6⟩ := toc_flags_powers
  unfold tocMask
  rw [h1, h2, h3, h4, h5, h6]
  cases s.hasMeta <;> cases s.newList <;> cases s.rawFlag <;> cases s.interleaved <;>
    cases s.big <;> cases s.daqmxFlag <;> rfl

theorem tocMask_lt (s : SegEnc) : tocMask s < 256 := by
  rw [tocMask_bits]
  cases s.hasMeta <;> cases s.newList <;> cases s.rawFlag <;> cases s.interleaved <;>
    cases s.big <;> cases s.daqmxFlag <;> decide

theorem hasFlag_tocMask_meta (s : SegEnc) : hasFlag (tocMask s) kTocMetaData = s.hasMeta := by
  rw [toc_flags_powers.1, tocMask_bits]
  have := hasFlag_bit 1 0 (s.newList.toNat + 2 * s.rawFlag.toNat + 8 * s.interleaved.toNat +
    16 * s.big.toNat + 32 * s.daqmxFlag.toNat) s.hasMeta (by decide)
  refine Eq.trans ?_ this; congr 1; omega

theorem hasFlag_tocMask_newList (s : SegEnc) : hasFlag (tocMask s) kTocNewObjList = s.newList := by
  rw [toc_flags_powers.2.1, tocMask_bits]
  have := hasFlag_bit 2 (2 * s.hasMeta.toNat) (s.rawFlag.toNat + 4 * s.interleaved.toNat +
    8 * s.big.toNat + 16 * s.daqmxFlag.toNat) s.newList (by cases s.hasMeta <;> decide)
  refine Eq.trans ?_ this; congr 1; omega

theorem hasFlag_tocMask_raw (s : SegEnc) : hasFlag (tocMask s) kTocRawData = s.rawFlag := by
  rw [toc_flags_powers.2.2.1, tocMask_bits]
  have := hasFlag_bit 3 (2 * s.hasMeta.toNat + 4 * s.newList.toNat) (2 * s.interleaved.toNat +
    4 * s.big.toNat + 8 * s.daqmxFlag.toNat) s.rawFlag
    (by cases s.hasMeta <;> cases s.newList <;> decide)
  refine Eq.trans ?_ this; congr 1; omega

theorem hasFlag_tocMask_interleaved (s : SegEnc) :
    hasFlag (tocMask s) kTocInterleavedData = s.interleaved := by
  rw [toc_flags_powers.2.2.2.1, tocMask_bits]
  have := hasFlag_bit 5 (2 * s.hasMeta.toNat + 4 * s.newList.toNat + 8 * s.rawFlag.toNat)
    (s.big.toNat + 2 * s.daqmxFlag.toNat) s.interleaved
    (by cases s.hasMeta <;> cases s.newList <;> cases s.rawFlag <;> decide)
  refine Eq.trans ?_ this; congr 1; omega

theorem hasFlag_tocMask_big (s : SegEnc) : hasFlag (tocMask s) kTocBigEndian = s.big := by
  rw [toc_flags_powers.2.2.2.2.1, tocMask_bits]
  have := hasFlag_bit 6 (2 * s.hasMeta.toNat + 4 * s.newList.toNat + 8 * s.rawFlag.toNat +
    32 * s.interleaved.toNat) s.daqmxFlag.toNat s.big
    (by cases s.hasMeta <;> cases s.newList <;> cases s.rawFlag <;> cases s.interleaved <;> decide)
  refine Eq.trans ?_ this; congr 1; omega

theorem hasFlag_tocMask_daqmx (s : SegEnc) : hasFlag (tocMask s) kTocDAQmxRawData = s.daqmxFlag := by
  rw [toc_flags_powers.2.2.2.2.2, tocMask_bits]
  have := hasFlag_bit 7 (2 * s.hasMeta.toNat + 4 * s.newList.toNat + 8 * s.rawFlag.toNat +
    32 * s.interleaved.toNat + 64 * s.big.toNat) 0 s.daqmxFlag
    (by cases s.hasMeta <;> cases s.newList <;> cases s.rawFlag <;> cases s.interleaved <;>
        cases s.big <;> decide)
  refine Eq.trans ?_ this; congr 1

/-! ## slicing a 28-byte lead-in -/

theorem leadIn_slices (t a b c d rest : Bytes) (ht : t.length = 4) (ha : a.length = 4)
    (hb : b.length = 4) (hc : c.length = 8) (hd : d.length = 8) :
    let bytes := t ++ a ++ b ++ c ++ d ++ rest
    bytes.take 4 = t ∧ (bytes.drop 4).take 4 = a ∧ (bytes.drop 8).take 4 = b ∧
    (bytes.drop 12).take 8 = c ∧ (bytes.drop 20).take 8 = d ∧ ¬ bytes.length < 28 := by
  intro bytes
  refine ⟨?_, ?_, ?_, ?_, ?_, ?_⟩
  · show (t ++ a ++ b ++ c ++ d ++ rest).take 4 = t
    simp only [List.append_assoc]; exact List.take_left' ht
  · show ((t ++ a ++ b ++ c ++ d ++ rest).drop 4).take 4 = a
    simp only [List.append_assoc]; rw [List.drop_left' ht]; exact List.take_left' ha
  · show ((t ++ a ++ b ++ c ++ d ++ rest).drop 8).take 4 = b
    have : (t ++ a).length = 8 := by simp [ht, ha]
    simp only [List.append_assoc]; rw [← List.append_assoc t a, List.drop_left' this]
    exact List.take_left' hb
  · show ((t ++ a ++ b ++ c ++ d ++ rest).drop 12).take 8 = c
    have : (t ++ a ++ b).length = 12 := by simp [ht, ha, hb]
    rw [List.append_assoc (t ++ a ++ b), List.append_assoc (t ++ a ++ b), List.drop_left' this,
      List.append_assoc]
    exact List.take_left' hc
  · show ((t ++ a ++ b ++ c ++ d ++ rest).drop 20).take 8 = d
    have : (t ++ a ++ b ++ c).length = 20 := by simp [ht, ha, hb, hc]
    rw [List.append_assoc (t ++ a ++ b ++ c), List.drop_left' this]
    exact List.take_left' hd
  · show ¬ (t ++ a ++ b ++ c ++ d ++ rest).length < 28
    simp [ht, ha, hb, hc, hd]; omega

theorem toSigned4_of_lt {n : Nat} (h : n < 2 ^ 31) : toSigned 4 n = (n : Int) := by
  unfold toSigned
  simp only [show 8 * 4 - 1 = 31 from rfl, h, if_true]

theorem segEndian_of_tocMask (s : SegEnc) :
    (if hasFlag (tocMask s) kTocBigEndian then Endian.big else Endian.little) = s.endian := by
  rw [hasFlag_tocMask_big]; rfl

/-- `readLeadIn` on an encoded lead-in: generic in the "next segment offset" field -/
theorem readLeadIn_fields (s : SegEnc) (nextOff metaLen pos : Nat) (size : Option Nat) (rest : Bytes)
    (hver : s.version < 2 ^ 31) (hn : nextOff < 2 ^ 64) (hm : metaLen < 2 ^ 64) :
    readLeadIn (tagData ++ encLE 4 (tocMask s) ++ enc s.endian 4 s.version ++
        enc s.endian 8 nextOff ++ enc s.endian 8 metaLen ++ rest) pos false size =
      (let toc := tocMask s
       let dataPos := pos + 28 + metaLen
       if nextOff = 2 ^ 64 - 1 then
        match size with
        | none => .error .other
        | some size =>
          if size < dataPos then .ok none else .ok (some ⟨toc, s.version, dataPos, size, true⟩)
       else
        let nextPos := pos + nextOff + 28
        match size with
        | some size =>
          if nextPos > size then
            if size < dataPos then .ok none else .ok (some ⟨toc, s.version, dataPos, size, true⟩)
          else .ok (some ⟨toc, s.version, dataPos, nextPos, false⟩)
        | none => .ok (some ⟨toc, s.version, dataPos, nextPos, false⟩)) := by
  obtain ⟨h1, h2, h3, h4, h5, h6⟩ := leadIn_slices tagData (encLE 4 (tocMask s))
    (enc s.endian 4 s.version) (enc s.endian 8 nextOff) (enc s.endian 8 metaLen) rest rfl
    (by simp) (by simp) (by simp) (by simp)
  have htoc : decLE (encLE 4 (tocMask s)) = tocMask s :=
    decLE_encLE_of_lt (Nat.lt_trans (tocMask_lt s) (by decide))
  have hv : dec s.endian (enc s.endian 4 s.version) = s.version :=
    dec_enc_of_lt _ (Nat.lt_trans hver (by decide))
  have hn' : dec s.endian (enc s.endian 8 nextOff) = nextOff := dec_enc_of_lt _ (w := 8) hn
  have hm' : dec s.endian (enc s.endian 8 metaLen) = metaLen := dec_enc_of_lt _ (w := 8) hm
  unfold readLeadIn
  simp only [h1, h2, h3, h4, h5, h6, htoc, segEndian_of_tocMask, hv, hn', hm',
    toSigned4_of_lt hver, if_false]
  rfl

/-- what a lead-in says apart from its ToC mask -/
def leadInFields (li : LeadIn) : Int × Nat × Nat × Bool :=
  (li.version, li.dataPosition, li.nextSegmentPos, li.incomplete)

end Tdms.Proofs.Bytes
