/-
  C13 / C14 at file level: glue lemmas.
    * `scaledIn` / `kindIn` factor through the data type, the raw values and three property dictionaries;
    * lookups in `content r`, `contentOfDenote c`, `metaView f`;
    * scaling commutes with windows;
    * an element that evaluates has a dtype (`actual_of_computed`).
-/
import TdmsProofs.Lemmas.C13FileDefs

namespace Tdms.Proofs.C13File

open Tdms Tdms.Generated Tdms.Model Tdms.Model.Scaling Tdms.Proofs.C13 Tdms.Proofs.C14
open Tdms.Proofs.C01Compose (content contentOfDenote ObjView valuesIn)
open Tdms.Proofs.Bytes (canonProp)

/-! ## the pure core -/

/-- the data type of object `p` (`none`: no such object, or no data type) -/
def dataTypeIn (vs : List ObjView) (p : Bytes) : Option Nat := (vs.find? (·.path = p)).bind (·.dataType)

section
variable {R : Type} [Add R] [Sub R] [Mul R] [OfNat R 0] (D : Dec R)
variable (interp : List R → List R → R → R) (env : Nat → R → R)
variable [NatCast R] [LT R] [DecidableRel (α := R) (· < ·)]

/-- scaled data as a function of: the data type, whether the path is a channel path, the three property
    dictionaries, the raw values — and nothing else -/
def scaledPure (ty : Option Nat) (isChannel : Bool) (chan group file : Props R) (vals : List Bytes) :
    Option (List (Except ScaleErr R)) :=
  match ty with
  | none => none
  | some ty =>
    if numericTy ty && isChannel then
      match getScaling chan group file with
      | .ok sc => some (scaleValues D interp env sc ty vals)
      | .error _ => none
    else none

/-- the group path of `p` when `p` is a channel path (else the root; irrelevant then) -/
def groupOf (p : Bytes) : Bytes := ((channelParts p).map fun gc => groupPathOf gc.1).getD rootPath

theorem scaledIn_eq_pure (vs : List ObjView) (p : Bytes) (vals : List Bytes) :
    scaledIn D interp env vs p vals =
      scaledPure D interp env (dataTypeIn vs p) (channelParts p).isSome (propsIn D vs p)
        (propsIn D vs (groupOf p)) (propsIn D vs rootPath) vals := by
  unfold scaledIn scaledPure dataTypeIn scalingIn groupOf
  cases vs.find? (·.path = p) with
  | none => rfl
  | some v =>
    simp only [Option.bind_some]
    cases v.dataType with
    | none => rfl
    | some ty =>
      simp only
      cases numericTy ty with
      | false => simp
      | true =>
        cases channelParts p with
        | none => simp
        | some gc =>
          simp only [Option.map_some, Option.isSome_some, Bool.and_self, if_true, Option.getD_some]
          cases getScaling (propsIn D vs p) (propsIn D vs (groupPathOf gc.1)) (propsIn D vs rootPath) <;> rfl

end

/-! ## lookups -/

theorem find_map_view {α : Type} (l : List α) (view : α → ObjView) (path : α → Bytes)
    (h : ∀ a, (view a).path = path a) (p : Bytes) :
    (l.map view).find? (·.path = p) = (l.find? (path · = p)).map view := by
  induction l with
  | nil => rfl
  | cons a l ih =>
    simp only [List.map_cons, List.find?_cons, h]
    by_cases hp : path a = p
    · simp [hp]
    · simp [hp, ih]

theorem find_content (r : EagerResult) (p : Bytes) :
    (content r).find? (·.path = p) =
      (r.state.objects.find? (·.path = p)).map fun m => ⟨m.path, m.dataType, m.props, valuesIn r.channels m.path⟩ := by
  unfold content
  exact find_map_view _ _ (fun m : ObjMeta => m.path) (fun _ => rfl) p

theorem find_metaView (f : OpenFile) (p : Bytes) :
    (metaView f).find? (·.path = p) =
      (f.objects.find? (·.path = p)).map fun m => ⟨m.path, m.dataType, m.props, []⟩ := by
  unfold metaView
  exact find_map_view _ _ (fun m : ObjMeta => m.path) (fun _ => rfl) p

theorem find_contentOfDenote (c : Content) (p : Bytes) :
    (contentOfDenote c).find? (·.path = p) =
      (c.find? (·.path = p)).map fun oc => ⟨oc.path, oc.ty, oc.props.map canonProp, oc.values⟩ := by
  unfold contentOfDenote
  exact find_map_view _ _ (fun oc : ObjContent => oc.path) (fun _ => rfl) p

theorem find_of_mem_nodup {c : Content} (hnd : (c.map (·.path)).Nodup) {oc : ObjContent} (hoc : oc ∈ c) :
    c.find? (·.path = oc.path) = some oc := by
  induction c with
  | nil => cases hoc
  | cons a c ih =>
    simp only [List.map_cons, List.nodup_cons, List.mem_map, not_exists, not_and] at hnd
    simp only [List.find?_cons]
    rcases List.mem_cons.1 hoc with rfl | h
    · simp
    · have : a.path ≠ oc.path := fun e => hnd.1 oc h e.symm
      simp [this, ih hnd.2 h]

section
variable {R : Type} (D : Dec R)

theorem propsIn_contentOfDenote (c : Content) (p : Bytes) :
    propsIn D (contentOfDenote c) p = specProps D c p := by
  unfold propsIn specProps
  rw [find_contentOfDenote]
  cases c.find? (·.path = p) <;> rfl

/-- `TdmsFile.open` and `TdmsFile.read` see the same objects with the same data types and properties -/
theorem meta_same (f : OpenFile) (r : EagerResult) (h : f.objects = r.state.objects) (p : Bytes) :
    dataTypeIn (metaView f) p = dataTypeIn (content r) p ∧ propsIn D (metaView f) p = propsIn D (content r) p := by
  unfold dataTypeIn propsIn
  rw [find_metaView, find_content, h]
  cases r.state.objects.find? (·.path = p) <;> exact ⟨rfl, rfl⟩

end

theorem readFile_state {bytes : Bytes} {r : EagerResult} (h : readFile bytes = .ok r) :
    readMetadata bytes = .ok r.state := by
  unfold readFile at h
  cases hm : readMetadata bytes with
  | error e => rw [hm] at h; cases h
  | ok st =>
    rw [hm] at h
    simp only [bind, Except.bind] at h
    split at h
    · cases h
    · split at h
      · cases h
      · cases h; rfl

theorem openFile_objects {bytes : Bytes} {f : OpenFile} {st : ReaderState} (h : openFile bytes = .ok f)
    (hm : readMetadata bytes = .ok st) : f.objects = st.objects := by
  unfold openFile at h
  rw [hm] at h
  cases h
  rfl

/-! ## windows -/

theorem takeOptG_map {α β : Type} (f : α → β) (length : Option Int) (xs : List α) :
    takeOptG length (xs.map f) = (takeOptG length xs).map f := by
  cases length <;> simp [takeOptG, List.map_take]

theorem takeOpt_eq_G (length : Option Int) (xs : List Bytes) : C04.takeOpt length xs = takeOptG length xs := by
  cases length <;> rfl

section
variable {R : Type} [Add R] [Sub R] [Mul R] [OfNat R 0] (D : Dec R)
variable (interp : List R → List R → R → R) (env : Nat → R → R)

/-- scaling the window of the raw values is the window of the scaled values -/
theorem scaleValues_window (sc : Option (List (Scaling R))) (ty : Nat) (vals : List Bytes) (n : Nat)
    (length : Option Int) :
    scaleValues D interp env sc ty (takeOptG length (vals.drop n)) =
      takeOptG length ((scaleValues D interp env sc ty vals).drop n) := by
  cases sc with
  | none => simp only [scaleValues, ← List.map_drop, takeOptG_map]
  | some g => simp only [scaleValues, scaleArray, ← List.map_drop, takeOptG_map]

theorem scaleValues_length (sc : Option (List (Scaling R))) (ty : Nat) (vals : List Bytes) :
    (scaleValues D interp env sc ty vals).length = vals.length := by
  cases sc <;> simp [scaleValues, scaleArray]

variable [NatCast R] [LT R] [DecidableRel (α := R) (· < ·)]

theorem scaledPure_window (ty : Option Nat) (b : Bool) (chan group file : Props R) (vals : List Bytes) (n : Nat)
    (length : Option Int) :
    scaledPure D interp env ty b chan group file (takeOptG length (vals.drop n)) =
      (scaledPure D interp env ty b chan group file vals).map fun xs => takeOptG length (xs.drop n) := by
  unfold scaledPure
  cases ty with
  | none => rfl
  | some ty =>
    simp only
    split
    · cases getScaling chan group file with
      | error e => rfl
      | ok sc => simp only [Option.map_some, scaleValues_window]
    · rfl

theorem scaledPure_length (ty : Option Nat) (b : Bool) (chan group file : Props R) (vals : List Bytes)
    (xs : List (Except ScaleErr R)) (h : scaledPure D interp env ty b chan group file vals = some xs) :
    xs.length = vals.length := by
  unfold scaledPure at h
  cases ty with
  | none => cases h
  | some ty =>
    simp only at h
    split at h
    · cases hg : getScaling chan group file with
      | error e => rw [hg] at h; cases h
      | ok sc =>
        rw [hg] at h
        cases h
        exact scaleValues_length D interp env sc ty vals
    · cases h

end

/-! ## an element that evaluates has a dtype -/

section
variable {R : Type} [Add R] [Sub R] [Mul R] [OfNat R 0]
variable (interp : List R → List R → R → R) (env : Nat → R → R)

theorem bind_ok {ε α β : Type} {x : Except ε α} {f : α → Except ε β} {v : β} (h : x >>= f = .ok v) :
    ∃ a, x = .ok a ∧ f a = .ok v := by
  cases x with
  | error e => cases h
  | ok a => exact ⟨a, rfl, h⟩

/-- if the recursion of `_compute_scaled_data` returns a value for node `idx`, the same recursion on dtypes
    (`actualKind`) returns a dtype — provided every scaler the raw element carries has a declared type -/
theorem actual_of_computed (g : List (Scaling R)) (raw : RawElem R) (rk : String) (sk : List (Nat × String))
    (hsk : ∀ id, (raw.scalers.find? (·.1 = id)).isSome = true → (sk.find? (·.1 = id)).isSome = true) :
    ∀ (fuel idx : Nat) (v : R), computeScaled interp env g raw fuel idx = .ok v →
      (actualKind g rk sk fuel idx).isSome = true := by
  intro fuel
  induction fuel with
  | zero => intro idx v h; simp [computeScaled] at h
  | succ f ih =>
    intro idx v h
    rw [computeScaled] at h
    rw [actualKind]
    by_cases hraw : idx = rawSource
    · simp [hraw]
    · simp only [hraw, if_false] at h ⊢
      cases hn : g[idx]? with
      | none => rw [hn] at h; cases h
      | some node =>
        rw [hn] at h
        cases node with
        | daqmx id =>
          simp only at h ⊢
          cases hf : raw.scalers.find? (·.1 = id) with
          | none => rw [hf] at h; cases h
          | some p =>
            have := hsk id (by rw [hf]; rfl)
            simpa using this
        | linear b m src =>
          obtain ⟨x, hx, _⟩ := bind_ok h
          simpa using ih src x hx
        | polynomial cs src =>
          obtain ⟨x, hx, _⟩ := bind_ok h
          simpa using ih src x hx
        | table xs ys src =>
          obtain ⟨x, hx, _⟩ := bind_ok h
          simpa using ih src x hx
        | sensor k src =>
          obtain ⟨x, hx, _⟩ := bind_ok h
          simpa using ih src x hx
        | noop src => exact ih src v h
        | add l r =>
          obtain ⟨a, ha, h'⟩ := bind_ok h
          obtain ⟨b, hb, _⟩ := bind_ok h'
          obtain ⟨ka, hka⟩ := Option.isSome_iff_exists.1 (ih l a ha)
          obtain ⟨kb, hkb⟩ := Option.isSome_iff_exists.1 (ih r b hb)
          simp [hka, hkb]
        | subtract l r =>
          obtain ⟨a, ha, h'⟩ := bind_ok h
          obtain ⟨b, hb, _⟩ := bind_ok h'
          obtain ⟨ka, hka⟩ := Option.isSome_iff_exists.1 (ih l a ha)
          obtain ⟨kb, hkb⟩ := Option.isSome_iff_exists.1 (ih r b hb)
          simp [hka, hkb]

end

end Tdms.Proofs.C13File
