/-
  C10 whole: the copy's view `viewOfLayout r groups` holds exactly the re-typed copies of the source's objects plus the
  implied empty root / group objects (`sameContentUpTo`).  Core Lean only.
-/
import TdmsProofs.Lemmas.C10WholeView
import TdmsProofs.Lemmas.C10WholeInv

namespace Tdms.Proofs.C10Whole

open Tdms Tdms.Generated Tdms.Model Tdms.Model.Writer Tdms.Proofs.C08 Tdms.Proofs.C10
open Tdms.Proofs.C01Compose (content contentOfDenote ObjView valuesIn)
open Tdms.Model.Path (componentsToPathBytes pathComponentsBytes)

/-- the reader's view of one source object -/
def viewOf (r : EagerResult) (m : ObjMeta) : ObjView := ⟨m.path, m.dataType, m.props, valuesIn r.channels m.path⟩

theorem content_eq_map (r : EagerResult) : content r = r.state.objects.map (viewOf r) := rfl

/-- what is known of a covered source -/
structure Src (r : EagerResult) (groups : List GroupLayout) : Prop where
  layout : fileLayout r.state.objects = some groups
  nodup : (r.state.objects.map (·.path)).Nodup
  novals : ∀ m ∈ r.state.objects, (m.dataType = none ∨ countComponents m.path ≠ 2) → valuesIn r.channels m.path = []
  canon : SourceCanonical r

/-! ## paths -/

theorem classifyPath_root : classifyPath (componentsToPathBytes []) = .root := by
  unfold classifyPath; rw [pathComponents_path]

theorem classifyPath_group (g : Bytes) : classifyPath (componentsToPathBytes [g]) = .group g := by
  unfold classifyPath; rw [pathComponents_path]

theorem classifyPath_channel (g c : Bytes) : classifyPath (componentsToPathBytes [g, c]) = .channel g c := by
  unfold classifyPath; rw [pathComponents_path]

theorem canon_path {r : EagerResult} (hc : SourceCanonical r) {m : ObjMeta} (hm : m ∈ r.state.objects) :
    (classifyPath m.path = .root → m.path = componentsToPathBytes []) ∧
    (∀ g, classifyPath m.path = .group g → m.path = componentsToPathBytes [g]) ∧
    (∀ g c, classifyPath m.path = .channel g c → m.path = componentsToPathBytes [g, c]) := by
  have h := hc m hm
  unfold classifyPath
  cases hpc : pathComponentsBytes m.path with
  | error e => rw [hpc] at h; exact h.elim
  | ok comps =>
    rw [hpc] at h
    simp only at h
    match comps, h with
    | [], h => exact ⟨fun _ => h.symm, fun g e => (by cases e), fun g c e => (by cases e)⟩
    | [a], h => exact ⟨fun e => (by cases e), fun g e => (by cases e; exact h.symm), fun g c e => (by cases e)⟩
    | [a, b], h => exact ⟨fun e => (by cases e), fun g e => (by cases e), fun g c e => (by cases e; exact h.symm)⟩
    | _ :: _ :: _ :: _, h => exact ⟨fun e => (by cases e), fun g e => (by cases e), fun g c e => (by cases e)⟩

theorem countComponents_root : countComponents (componentsToPathBytes []) = 0 := by decide

theorem countComponents_group (g : Bytes) : countComponents (componentsToPathBytes [g]) = 1 := by
  unfold countComponents componentsToPathBytes Path.componentsToPath
  simp only [List.map_cons, List.map_nil, Path.join, Path.quoted, Path.sByte]
  show countComponents.go (0x2f :: 0x27 :: (Path.escape Path.qByte g ++ Path.qByte :: [])) false = 1
  rw [C07Whole.go_false_open, C07Whole.go_true_escape g [] (by intro rs h; cases h)]
  rfl

theorem get_of_mem {ms : ObjMetas} (hnd : (ms.map (·.path)).Nodup) {m : ObjMeta} (hm : m ∈ ms) :
    ms.get m.path = some m := by
  unfold ObjMetas.get
  cases hf : ms.find? (·.path = m.path) with
  | none =>
    rw [List.find?_eq_none] at hf
    exact (hf m hm (by simp)).elim
  | some m' =>
    have h1 := List.mem_of_find?_eq_some hf
    have h2 := List.find?_some hf
    simp only [decide_eq_true_eq] at h2
    rw [eq_of_nodup_paths hnd h1 hm h2]

/-! ## the three kinds of object of the copy -/

theorem isChannelPath_of_root {p : Bytes} (h : classifyPath p = .root) : isChannelPath p = false := by
  unfold isChannelPath; rw [h]

theorem isChannelPath_of_group {p g : Bytes} (h : classifyPath p = .group g) : isChannelPath p = false := by
  unfold isChannelPath; rw [h]

theorem isChannelPath_of_channel {p g c : Bytes} (h : classifyPath p = .channel g c) : isChannelPath p = true := by
  unfold isChannelPath; rw [h]

theorem rootView_of_mem {r : EagerResult} {groups : List GroupLayout} (S : Src r groups) {m : ObjMeta}
    (hm : m ∈ r.state.objects) (hc : classifyPath m.path = .root) : rootView r = copyOf (viewOf r m) := by
  have hp := (canon_path S.canon hm).1 hc
  have hv : valuesIn r.channels m.path = [] := S.novals m hm (.inr (by rw [hp, countComponents_root]; decide))
  have hg : rootProps r = m.props := by
    unfold rootProps
    rw [← hp, get_of_mem S.nodup hm]; rfl
  rw [hp] at hc hv
  unfold rootView copyOf viewOf
  simp only [hg, hp, hv, isChannelPath_of_root hc]
  rfl

theorem rootView_of_none {r : EagerResult}
    (hn : ∀ m ∈ r.state.objects, classifyPath m.path ≠ .root) :
    rootView r = ⟨componentsToPathBytes [], none, [], []⟩ := by
  have hg : rootProps r = [] := by
    unfold rootProps ObjMetas.get
    cases hf : r.state.objects.find? (·.path = componentsToPathBytes []) with
    | none => rfl
    | some m' =>
      have h1 := List.mem_of_find?_eq_some hf
      have h2 := List.find?_some hf
      simp only [decide_eq_true_eq] at h2
      exact (hn m' h1 (by rw [h2]; exact classifyPath_root)).elim
  unfold rootView
  rw [hg]; rfl

theorem mem_declaredOf {objects : ObjMetas} {x : Bytes × List PropVal} :
    x ∈ declaredOf objects ↔ ∃ m ∈ objects, classifyPath m.path = .group x.1 ∧ x.2 = m.props := by
  unfold declaredOf
  rw [List.mem_filterMap]
  constructor
  · rintro ⟨m, hm, h⟩
    split at h
    · rename_i g hc
      cases h
      exact ⟨m, hm, hc, rfl⟩
    · cases h
  · rintro ⟨m, hm, hc, hp⟩
    refine ⟨m, hm, ?_⟩
    rw [hc]
    obtain ⟨x1, x2⟩ := x
    simp only at hp
    rw [hp]

theorem group_props {r : EagerResult} {groups : List GroupLayout} (S : Src r groups) {gl : GroupLayout}
    (hgl : gl ∈ groups) :
    (∀ m ∈ r.state.objects, classifyPath m.path = .group gl.name → gl.props = m.props) ∧
    ((∀ m ∈ r.state.objects, classifyPath m.path ≠ .group gl.name) → gl.props = []) := by
  rw [(fileLayout_some S.layout).2] at hgl
  obtain ⟨g, _, rfl⟩ := List.mem_map.1 hgl
  simp only
  constructor
  · intro m hm hc
    have hmem : (g, m.props) ∈ (declaredOf r.state.objects).filter (·.1 = g) := by
      rw [List.mem_filter]
      exact ⟨mem_declaredOf.2 ⟨m, hm, hc, rfl⟩, by simp⟩
    cases hl : ((declaredOf r.state.objects).filter (·.1 = g)).getLast? with
    | none =>
      rw [List.getLast?_eq_none_iff] at hl
      rw [hl] at hmem; cases hmem
    | some x =>
      have hx := List.mem_of_getLast? hl
      rw [List.mem_filter] at hx
      obtain ⟨hx1, hx2⟩ := hx
      simp only [decide_eq_true_eq] at hx2
      obtain ⟨m', hm', hc', hp'⟩ := mem_declaredOf.1 hx1
      rw [hx2] at hc'
      have e1 := (canon_path S.canon hm').2.1 g hc'
      have e2 := (canon_path S.canon hm).2.1 g hc
      have : m' = m := eq_of_nodup_paths S.nodup hm' hm (by rw [e1, e2])
      subst this
      simp only [Option.map_some, Option.getD_some]
      exact hp'
  · intro hn
    have : (declaredOf r.state.objects).filter (·.1 = g) = [] := by
      rw [List.filter_eq_nil_iff]
      intro x hx
      simp only [decide_eq_true_eq]
      intro e
      obtain ⟨m, hm, hc, _⟩ := mem_declaredOf.1 hx
      rw [e] at hc
      exact hn m hm hc
    rw [this]; rfl

theorem groupView_of_mem {r : EagerResult} {groups : List GroupLayout} (S : Src r groups) {gl : GroupLayout}
    (hgl : gl ∈ groups) {m : ObjMeta} (hm : m ∈ r.state.objects) (hc : classifyPath m.path = .group gl.name) :
    groupView gl = copyOf (viewOf r m) := by
  have hp := (canon_path S.canon hm).2.1 _ hc
  have hv : valuesIn r.channels m.path = [] :=
    S.novals m hm (.inr (by rw [hp, countComponents_group]; decide))
  have hg := (group_props S hgl).1 m hm hc
  rw [hp] at hc hv
  unfold groupView copyOf viewOf
  simp only [hg, hp, hv, isChannelPath_of_group hc]
  rfl

theorem groupView_of_none {r : EagerResult} {groups : List GroupLayout} (S : Src r groups) {gl : GroupLayout}
    (hgl : gl ∈ groups) (hn : ∀ m ∈ r.state.objects, classifyPath m.path ≠ .group gl.name) :
    groupView gl = ⟨componentsToPathBytes [gl.name], none, [], []⟩ := by
  unfold groupView
  rw [(group_props S hgl).2 hn]; rfl

/-- re-typing as a function of the source view = what `defragment` hands to the writer -/
theorem retype_viewOf (r : EagerResult) (m : ObjMeta) : retype (viewOf r m) = copiedType r m := by
  unfold retype copiedType chanData viewOf
  cases hd : m.dataType with
  | none => rfl
  | some ty =>
    simp only
    by_cases hcond : (ty = tyString ∨ ty = tyTimeStamp) ∧ (chanVals r m).isEmpty = true
    · have hcond' : (ty = tyString ∨ ty = tyTimeStamp) ∧ (valuesIn r.channels m.path).isEmpty = true := hcond
      rw [if_pos hcond, if_pos hcond']
      rfl
    · have hcond' : ¬ ((ty = tyString ∨ ty = tyTimeStamp) ∧ (valuesIn r.channels m.path).isEmpty = true) := hcond
      rw [if_neg hcond, if_neg hcond']

theorem chanData_vals_eq {r : EagerResult} {m : ObjMeta}
    (hnone : m.dataType = none → valuesIn r.channels m.path = []) :
    (chanData r m).vals = valuesIn r.channels m.path := by
  unfold chanData
  cases hd : m.dataType with
  | none => simp only; exact (hnone hd).symm
  | some ty =>
    simp only
    split
    · rename_i hcond
      have : chanVals r m = [] := by simpa using hcond.2
      exact this.symm
    · rfl

theorem chanView_eq {r : EagerResult} {groups : List GroupLayout} (S : Src r groups) {gl : GroupLayout}
    (hgl : gl ∈ groups) {cm : Bytes × ObjMeta} (hcm : cm ∈ gl.channels) :
    cm.2 ∈ r.state.objects ∧ classifyPath cm.2.path = .channel gl.name cm.1 ∧
    chanView r gl.name cm = copyOf (viewOf r cm.2) := by
  obtain ⟨hm, hc⟩ := (source_channel_written S.layout gl.name cm.1).2 gl hgl cm hcm
  refine ⟨hm, hc, ?_⟩
  have hp := (canon_path S.canon hm).2.2 _ _ hc
  have hvals := chanData_vals_eq (r := r) (m := cm.2) (fun hd => S.novals cm.2 hm (.inl hd))
  unfold chanView copyOf
  rw [isChannelPath_of_channel (show classifyPath (viewOf r cm.2).path = _ from hc), retype_viewOf, hvals, if_pos rfl]
  simp only [viewOf, hp]

/-! ## which groups the layout has; which objects are implied -/

theorem mem_layoutNames (objects : ObjMetas) (g : Bytes) :
    g ∈ layoutNames objects ↔
      (∃ m ∈ objects, classifyPath m.path = .group g) ∨
      ((∃ m ∈ objects, ∃ c, classifyPath m.path = .channel g c) ∧ ∀ m ∈ objects, classifyPath m.path ≠ .group g) := by
  have hdecl : g ∈ (declaredOf objects).map (·.1) ↔ ∃ m ∈ objects, classifyPath m.path = .group g := by
    rw [List.mem_map]
    constructor
    · rintro ⟨x, hx, rfl⟩
      obtain ⟨m, hm, hc, _⟩ := mem_declaredOf.1 hx
      exact ⟨m, hm, hc⟩
    · rintro ⟨m, hm, hc⟩
      exact ⟨(g, m.props), mem_declaredOf.2 ⟨m, hm, hc, rfl⟩, rfl⟩
  have hchan : g ∈ (chansOf objects).map (·.1) ↔ ∃ m ∈ objects, ∃ c, classifyPath m.path = .channel g c := by
    rw [List.mem_map]
    constructor
    · rintro ⟨⟨g', c, m⟩, hx, rfl⟩
      exact ⟨m, (mem_chansOf.1 hx).1, c, (mem_chansOf.1 hx).2⟩
    · rintro ⟨m, hm, c, hc⟩
      exact ⟨(g, c, m), mem_chansOf.2 ⟨hm, hc⟩, rfl⟩
  have hany : ((declaredOf objects).any (·.1 = g)) = true ↔ ∃ m ∈ objects, classifyPath m.path = .group g := by
    rw [← hdecl, List.any_eq_true, List.mem_map]
    constructor
    · rintro ⟨x, hx, hxg⟩; exact ⟨x, hx, by simpa using hxg⟩
    · rintro ⟨x, hx, hxg⟩; exact ⟨x, hx, by simpa using hxg⟩
  unfold layoutNames
  rw [List.mem_append, List.mem_eraseDups, List.mem_filter, List.mem_eraseDups, hdecl, hchan]
  constructor
  · rintro (h | ⟨h1, h2⟩)
    · exact .inl h
    · right
      refine ⟨h1, ?_⟩
      intro m hm hc
      have : ((declaredOf objects).any (·.1 = g)) = true := hany.2 ⟨m, hm, hc⟩
      rw [this] at h2; cases h2
  · rintro (h | ⟨h1, h2⟩)
    · exact .inl h
    · right
      refine ⟨h1, ?_⟩
      cases hb : (declaredOf objects).any (·.1 = g) with
      | false => rfl
      | true =>
        obtain ⟨m, hm, hc⟩ := hany.1 hb
        exact (h2 m hm hc).elim

theorem mem_impliedPaths (r : EagerResult) (p : Bytes) :
    p ∈ impliedPaths (content r) ↔
      (p = componentsToPathBytes [] ∧ ∀ m ∈ r.state.objects, classifyPath m.path ≠ .root) ∨
      ∃ g, p = componentsToPathBytes [g] ∧ (∃ m ∈ r.state.objects, ∃ c, classifyPath m.path = .channel g c) ∧
        ∀ m ∈ r.state.objects, classifyPath m.path ≠ .group g := by
  have hany : ∀ k : PathKind, ((content r).any fun o => classifyPath o.path = k) = true ↔
      ∃ m ∈ r.state.objects, classifyPath m.path = k := by
    intro k
    rw [List.any_eq_true, content_eq_map]
    constructor
    · rintro ⟨o, ho, hk⟩
      obtain ⟨m, hm, rfl⟩ := List.mem_map.1 ho
      exact ⟨m, hm, of_decide_eq_true hk⟩
    · rintro ⟨m, hm, hk⟩
      exact ⟨viewOf r m, List.mem_map_of_mem hm, decide_eq_true hk⟩
  have hfm : ∀ g, g ∈ ((content r).filterMap fun o => groupOfChannel o.path) ↔
      ∃ m ∈ r.state.objects, ∃ c, classifyPath m.path = .channel g c := by
    intro g
    rw [List.mem_filterMap, content_eq_map]
    constructor
    · rintro ⟨o, ho, h⟩
      obtain ⟨m, hm, rfl⟩ := List.mem_map.1 ho
      unfold groupOfChannel at h
      split at h
      · rename_i g' c hc
        cases h
        exact ⟨m, hm, c, hc⟩
      · cases h
    · rintro ⟨m, hm, c, hc⟩
      refine ⟨viewOf r m, List.mem_map_of_mem hm, ?_⟩
      have : classifyPath (viewOf r m).path = .channel g c := hc
      unfold groupOfChannel
      rw [this]
  unfold impliedPaths
  rw [List.mem_append, List.mem_map]
  constructor
  · rintro (h | ⟨g, hg, rfl⟩)
    · left
      split at h
      · cases h
      · rename_i hn
        simp only [List.mem_singleton] at h
        refine ⟨h, fun m hm hc => hn ((hany _).2 ⟨m, hm, hc⟩)⟩
    · right
      rw [List.mem_filter, List.mem_eraseDups, hfm] at hg
      refine ⟨g, rfl, hg.1, fun m hm hc => ?_⟩
      have := (hany (.group g)).2 ⟨m, hm, hc⟩
      rw [this] at hg
      exact absurd hg.2 (by decide)
  · rintro (⟨rfl, hn⟩ | ⟨g, rfl, hc, hn⟩)
    · left
      rw [if_neg]
      · simp
      · intro h
        obtain ⟨m, hm, hc⟩ := (hany _).1 h
        exact hn m hm hc
    · right
      refine ⟨g, ?_, rfl⟩
      rw [List.mem_filter, List.mem_eraseDups, hfm]
      refine ⟨hc, ?_⟩
      cases hb : (content r).any (fun o => classifyPath o.path = .group g) with
      | false => rfl
      | true =>
        obtain ⟨m, hm, hc'⟩ := (hany _).1 hb
        exact (hn m hm hc').elim

/-! ## same content -/

theorem view_paths (r : EagerResult) (groups : List GroupLayout) :
    (viewOfLayout r groups).map (·.path) = copyPaths groups := by
  unfold viewOfLayout copyPaths
  rw [List.map_cons, List.map_flatMap]
  congr 1
  induction groups with
  | nil => rfl
  | cons g gs ih =>
    rw [List.flatMap_cons, List.flatMap_cons, ih, List.map_cons, List.map_map]
    rfl

/-- **the copy holds the re-typed source objects plus the implied empty objects, each path once** -/
theorem sameContent_view {r : EagerResult} {groups : List GroupLayout} (S : Src r groups) :
    sameContentUpTo (content r) (viewOfLayout r groups) := by
  refine ⟨by rw [view_paths]; exact copyPaths_nodup S.layout, ?_⟩
  intro o'
  have hnames := fileLayout_names S.layout
  have hgroup_of_name : ∀ g, g ∈ layoutNames r.state.objects → ∃ gl ∈ groups, gl.name = g := by
    intro g hg
    rw [← hnames] at hg
    obtain ⟨gl, hgl, rfl⟩ := List.mem_map.1 hg
    exact ⟨gl, hgl, rfl⟩
  constructor
  · intro ho
    unfold viewOfLayout at ho
    rcases List.mem_cons.1 ho with rfl | ho
    · -- the root
      by_cases hroot : ∃ m ∈ r.state.objects, classifyPath m.path = .root
      · obtain ⟨m, hm, hc⟩ := hroot
        left
        rw [content_eq_map, List.map_map]
        exact List.mem_map.2 ⟨m, hm, (rootView_of_mem S hm hc).symm⟩
      · right
        have hn : ∀ m ∈ r.state.objects, classifyPath m.path ≠ .root := fun m hm hc => hroot ⟨m, hm, hc⟩
        unfold impliedViews
        refine List.mem_map.2 ⟨componentsToPathBytes [], (mem_impliedPaths r _).2 (.inl ⟨rfl, hn⟩), ?_⟩
        exact (rootView_of_none hn).symm
    · obtain ⟨gl, hgl, ho⟩ := List.mem_flatMap.1 ho
      rcases List.mem_cons.1 ho with rfl | ho
      · -- a group
        by_cases hdecl : ∃ m ∈ r.state.objects, classifyPath m.path = .group gl.name
        · obtain ⟨m, hm, hc⟩ := hdecl
          left
          rw [content_eq_map, List.map_map]
          exact List.mem_map.2 ⟨m, hm, (groupView_of_mem S hgl hm hc).symm⟩
        · right
          have hn : ∀ m ∈ r.state.objects, classifyPath m.path ≠ .group gl.name :=
            fun m hm hc => hdecl ⟨m, hm, hc⟩
          have hin : gl.name ∈ layoutNames r.state.objects := by
            rw [← hnames]; exact List.mem_map_of_mem hgl
          rcases (mem_layoutNames _ _).1 hin with h | ⟨h, _⟩
          · exact (hdecl h).elim
          · unfold impliedViews
            refine List.mem_map.2 ⟨componentsToPathBytes [gl.name],
              (mem_impliedPaths r _).2 (.inr ⟨gl.name, rfl, h, hn⟩), ?_⟩
            exact (groupView_of_none S hgl hn).symm
      · -- a channel
        obtain ⟨cm, hcm, rfl⟩ := List.mem_map.1 ho
        obtain ⟨hm, _, he⟩ := chanView_eq S hgl hcm
        left
        rw [content_eq_map, List.map_map]
        exact List.mem_map.2 ⟨cm.2, hm, he.symm⟩
  · rintro (ho | ho)
    · rw [content_eq_map, List.map_map] at ho
      obtain ⟨m, hm, rfl⟩ := List.mem_map.1 ho
      simp only [Function.comp]
      unfold viewOfLayout
      cases hc : classifyPath m.path with
      | root =>
        rw [← rootView_of_mem S hm hc]
        exact List.mem_cons_self
      | group g =>
        obtain ⟨gl, hgl, rfl⟩ := hgroup_of_name g ((mem_layoutNames _ _).2 (.inl ⟨m, hm, hc⟩))
        rw [← groupView_of_mem S hgl hm hc]
        exact List.mem_cons_of_mem _ (List.mem_flatMap.2 ⟨gl, hgl, List.mem_cons_self⟩)
      | channel g c =>
        have hlc := ((source_channel_written S.layout g c).1).2 ⟨m, hm, hc⟩
        unfold layoutChannels at hlc
        obtain ⟨gl, hgl, hx⟩ := List.mem_flatMap.1 hlc
        obtain ⟨cm, hcm, hx⟩ := List.mem_map.1 hx
        simp only [Prod.mk.injEq] at hx
        obtain ⟨rfl, rfl⟩ := hx
        obtain ⟨hm', hc', he⟩ := chanView_eq S hgl hcm
        have : cm.2 = m := eq_of_nodup_paths S.nodup hm' hm (by
          rw [(canon_path S.canon hm').2.2 _ _ hc', (canon_path S.canon hm).2.2 _ _ hc])
        rw [this] at he
        rw [← he]
        exact List.mem_cons_of_mem _ (List.mem_flatMap.2 ⟨gl, hgl,
          List.mem_cons_of_mem _ (List.mem_map_of_mem hcm)⟩)
      | invalid => exact ((fileLayout_some S.layout).1 m hm hc).elim
    · unfold impliedViews at ho
      obtain ⟨p, hp, rfl⟩ := List.mem_map.1 ho
      unfold viewOfLayout
      rcases (mem_impliedPaths r p).1 hp with ⟨rfl, hn⟩ | ⟨g, rfl, hch, hn⟩
      · rw [← rootView_of_none hn]
        exact List.mem_cons_self
      · obtain ⟨gl, hgl, rfl⟩ := hgroup_of_name g ((mem_layoutNames _ _).2 (.inr ⟨hch, hn⟩))
        rw [← groupView_of_none S hgl hn]
        exact List.mem_cons_of_mem _ (List.mem_flatMap.2 ⟨gl, hgl, List.mem_cons_self⟩)

end Tdms.Proofs.C10Whole
