/-
  C03 — one segment with contiguous data whose chunks are exact: the eager reader
  (`segmentReadRawData`) and the lazy single-channel reader (`segReadChannel`, any chunk offset and
  chunk count inside the segment) return the same values.  Core Lean only.
-/
import TdmsProofs.Lemmas.C03Chunk
import TdmsProofs.Lemmas.C06Lemmas

namespace Tdms.Proofs.C03

open Tdms Tdms.Generated Tdms.Model Tdms.Proofs.Bytes

/-! ## evaluating `F` programs -/

theorem fSeek_run (p : Nat) (st : FState) : fSeek p st = .ok ((), ⟨p, st.trace⟩) := rfl
theorem fTell_run (st : FState) : fTell st = .ok (st.pos, st) := rfl
theorem liftE_ok {α : Type} (a : α) (st : FState) : liftE (.ok a : Except Err α) st = .ok (a, st) := rfl

/-- the data objects of a segment -/
def dataObjs (s : Segment) : List SegObj := s.objects.filter (·.hasData)

/-! ## where an exact chunk ends -/

theorem channelNumberValues_not_last (s : Segment) (o : SegObj) (ci : Nat)
    (h : ci + 1 ≠ s.numChunks ∨ s.override = none) : channelNumberValues s o ci = o.numberValues := by
  unfold channelNumberValues
  cases hov : s.override with
  | none => rfl
  | some ov =>
    rcases h with h | h
    · simp [h]
    · rw [hov] at h; cases h

theorem exactChunk_end_full {file : Bytes} {s : Segment} {ci : Nat}
    (hfull : ci + 1 ≠ s.numChunks ∨ s.override = none) :
    ∀ {d : List SegObj} {cur : Nat} {vs : List (List Bytes)} {e : Nat},
      exactChunk file s ci d cur = some (vs, e) → e = cur + (d.map (·.dataSize)).sum := by
  intro d
  induction d with
  | nil => intro cur vs e h; simp [exactChunk] at h; simp [h.2]
  | cons o os ih =>
    intro cur vs e h
    obtain ⟨k, v, vs', hk, _, _, hr, _⟩ := exactChunk_cons h
    unfold skipSize at hk
    rw [if_pos (channelNumberValues_not_last s o ci hfull)] at hk
    cases hk
    rw [ih hr]
    simp only [List.map_cons, List.sum_cons]
    omega

/-! ## contiguous segments with exact chunks -/

/-- values per data object of chunk `ci` of the segment, when its chunks are `csz` bytes apart -/
def segVs (file : Bytes) (s : Segment) (csz ci : Nat) : List (List Bytes) :=
  ((exactChunk file s ci (dataObjs s) (s.dataPosition + ci * csz)).map (·.1)).getD []

/-- the segment is read by the contiguous reader, and every one of its chunks is exact -/
structure ContigOk (file : Bytes) (s : Segment) (csz : Nat) : Prop where
  kind : dataReaderKind s = .ok .contiguous
  size : chunkSize s.objects = .ok csz
  exact : ∀ ci, ci < s.numChunks → (exactChunk file s ci (dataObjs s) (s.dataPosition + ci * csz)).isSome = true

theorem haveDaqmx_of_kind {s : Segment} {k : ReaderKind} (h : dataReaderKind s = .ok k) (hk : k ≠ .daqmx) :
    haveDaqmxObjects s.objects = .ok false := by
  unfold dataReaderKind at h
  cases hd : haveDaqmxObjects s.objects with
  | error e => rw [hd] at h; cases h
  | ok b =>
    cases b with
    | false => rfl
    | true =>
      rw [hd] at h
      simp only [bind, Except.bind, pure, Except.pure, if_true] at h
      cases h
      exact absurd rfl hk

theorem ContigOk.csz_eq {file : Bytes} {s : Segment} {csz : Nat} (h : ContigOk file s csz) :
    csz = ((dataObjs s).map (·.dataSize)).sum := by
  have h1 := Tdms.Proofs.C06.chunkSize_std s.objects (haveDaqmx_of_kind h.kind (by decide))
  rw [h.size] at h1
  cases h1
  rfl

theorem ContigOk.chunk {file : Bytes} {s : Segment} {csz : Nat} (h : ContigOk file s csz) {ci : Nat}
    (hci : ci < s.numChunks) :
    ∃ e, exactChunk file s ci (dataObjs s) (s.dataPosition + ci * csz) = some (segVs file s csz ci, e) ∧
      (ci + 1 < s.numChunks → e = s.dataPosition + (ci + 1) * csz) := by
  have := h.exact ci hci
  cases hx : exactChunk file s ci (dataObjs s) (s.dataPosition + ci * csz) with
  | none => rw [hx] at this; cases this
  | some r =>
    obtain ⟨vs, e⟩ := r
    refine ⟨e, ?_, ?_⟩
    · simp [segVs, hx]
    · intro hlt
      rw [exactChunk_end_full (Or.inl (by omega)) hx, ← h.csz_eq, Nat.succ_mul]
      omega

/-- the eager chunk `ci` of the segment -/
def eagerChunk (file : Bytes) (s : Segment) (csz ci : Nat) : RawChunk := setCols [] (dataObjs s) (segVs file s csz ci)

/-- the channel's part of chunk `ci`, as the lazy reader returns it -/
def lazyChunk (file : Bytes) (s : Segment) (csz : Nat) (p : Bytes) (ci : Nat) : ChanChunk :=
  chanOf p (dataObjs s) (segVs file s csz ci)

/-! ## the eager reader -/

theorem readChunksSeq_exact (file : Bytes) (s : Segment) (csz : Nat) (h : ContigOk file s csz) :
    ∀ (n i : Nat) (tr : List (Nat × Nat)), i + n ≤ s.numChunks →
      ∃ st', readChunksSeq file s .contiguous (dataObjs s) i n ⟨s.dataPosition + i * csz, tr⟩ =
        .ok ((List.range' i n).map (eagerChunk file s csz), st') := by
  intro n
  induction n with
  | zero => intro i tr _; exact ⟨_, rfl⟩
  | succ n ih =>
    intro i tr hi
    obtain ⟨e, hex, hend⟩ := h.chunk (show i < s.numChunks by omega)
    obtain ⟨tr1, h1⟩ := readContiguousChunk_exact file s i (dataObjs s) _ _ e [] tr hex
    by_cases hn : n = 0
    · subst hn
      refine ⟨⟨e, tr1⟩, ?_⟩
      unfold readChunksSeq
      simp only []
      rw [F_bind_ok h1]
      simp only [readChunksSeq]
      rfl
    · have he := hend (by omega)
      subst he
      obtain ⟨st2, h2⟩ := ih (i + 1) tr1 (by omega)
      refine ⟨st2, ?_⟩
      unfold readChunksSeq
      simp only []
      rw [F_bind_ok h1, F_bind_ok h2]
      rfl

/-- the chunks the eager reader yields for the segment: the extra empty chunk of a segment without
    raw data, then chunks `0 … numChunks - 1` -/
def eagerSegChunks (file : Bytes) (s : Segment) (csz : Nat) : List RawChunk :=
  (if !hasFlag s.toc kTocRawData then [[]] else []) ++ (List.range s.numChunks).map (eagerChunk file s csz)

theorem segmentReadRawData_exact (file : Bytes) (s : Segment) (csz : Nat) (h : ContigOk file s csz) (st : FState) :
    ∃ st', segmentReadRawData file s st = .ok (eagerSegChunks file s csz, st') := by
  obtain ⟨st', h1⟩ := readChunksSeq_exact file s csz h s.numChunks 0 st.trace (by omega)
  refine ⟨st', ?_⟩
  unfold segmentReadRawData
  rw [F_bind_ok (fSeek_run _ _), h.kind, F_bind_ok (liftE_ok _ _)]
  simp only [Nat.zero_mul, Nat.add_zero] at h1
  show ((readChunksSeq file s .contiguous (dataObjs s) 0 s.numChunks) >>= _) _ = _
  rw [F_bind_ok h1]
  simp only [eagerSegChunks, List.range_eq_range']
  rfl

/-! ## the lazy reader -/

theorem readChannelChunkAt_exact (file : Bytes) (s : Segment) (csz : Nat) (h : ContigOk file s csz) (p : Bytes)
    (ci : Nat) (hci : ci < s.numChunks) (tr : List (Nat × Nat)) :
    ∃ st', readChannelChunkAt file s .contiguous (dataObjs s) p ci ⟨s.dataPosition + ci * csz, tr⟩ =
      .ok (lazyChunk file s csz p ci, st') := by
  obtain ⟨e, hex, _⟩ := h.chunk hci
  obtain ⟨st', h1⟩ := readChannelChunkContiguous_exact file s ci p (dataObjs s) _ _ e
    ⟨s.dataPosition + ci * csz, tr⟩ hex
  refine ⟨st', ?_⟩
  unfold readChannelChunkAt
  simp only []
  rw [F_bind_ok (fTell_run _)]
  exact h1

theorem readChannelChunksFrom_exact (file : Bytes) (s : Segment) (csz : Nat) (h : ContigOk file s csz) (p : Bytes)
    (co : Nat) (stop : Int) :
    ∀ (fuel i : Nat) (tr : List (Nat × Nat)), co + i + fuel ≤ s.numChunks → (fuel ≠ 0 → ((co + i + fuel : Nat) : Int) ≤ stop) →
      ∃ st', readChannelChunksFrom file s .contiguous (dataObjs s) p csz (s.dataPosition + csz * co) co stop fuel i
          ⟨s.dataPosition + csz * co + i * csz, tr⟩ =
        .ok ((List.range' (co + i) fuel).map (lazyChunk file s csz p), st') := by
  intro fuel
  induction fuel with
  | zero => intro i tr _ _; exact ⟨_, rfl⟩
  | succ fuel ih =>
    intro i tr hk hstop
    have hpos : s.dataPosition + csz * co + i * csz = s.dataPosition + (co + i) * csz := by
      rw [Nat.add_mul, Nat.mul_comm csz co]; omega
    obtain ⟨st1, h1⟩ := readChannelChunkAt_exact file s csz h p (co + i) (by omega) tr
    rw [← hpos] at h1
    obtain ⟨st2, h2⟩ := ih (i + 1) st1.trace (by omega) (by intro _; rw [show co + (i + 1) + fuel = co + i + (fuel + 1) by omega]; exact hstop (by omega))
    refine ⟨st2, ?_⟩
    unfold readChannelChunksFrom
    have hstop' := hstop (by omega)
    rw [if_pos (by omega)]
    rw [F_bind_ok h1, F_bind_ok (fSeek_run _ _), F_bind_ok h2]
    rfl

/-- the chunks the lazy reader yields for the channel when asked for `nc` chunks from chunk `co` -/
def lazySegChunks (file : Bytes) (s : Segment) (csz : Nat) (p : Bytes) (co : Nat) (nc : Int) : List ChanChunk :=
  (if !hasFlag s.toc kTocRawData then [({} : ChanChunk)] else []) ++ (List.range' co nc.toNat).map (lazyChunk file s csz p)

theorem segReadChannel_exact (file : Bytes) (s : Segment) (csz : Nat) (h : ContigOk file s csz) (p : Bytes)
    (co : Nat) (nc : Int) (hk : co + nc.toNat ≤ s.numChunks) (st : FState) :
    ∃ st', segReadChannel file s p co (some nc) st = .ok (lazySegChunks file s csz p co nc, st') := by
  obtain ⟨st', h1⟩ := readChannelChunksFrom_exact file s csz h p co (nc + co) nc.toNat 0 st.trace
    (by omega) (by intro _; omega)
  refine ⟨st', ?_⟩
  simp only [Nat.zero_mul, Nat.add_zero] at h1
  unfold segReadChannel
  rw [F_bind_ok (fSeek_run _ _), h.size, F_bind_ok (liftE_ok _ _)]
  have hfuel : (nc + (co : Int) - (co : Int)).toNat = nc.toNat := by omega
  by_cases hco : co > 0
  · rw [if_pos hco, F_bind_ok (fTell_run _), F_bind_ok (fSeek_run _ _)]
    simp only []
    rw [h.kind, F_bind_ok (liftE_ok _ _), F_bind_ok (fTell_run _)]
    simp only []
    rw [hfuel]
    show ((readChannelChunksFrom file s .contiguous (dataObjs s) p csz (s.dataPosition + csz * co) co (nc + co)
      nc.toNat 0) >>= _) _ = _
    rw [F_bind_ok h1]
    rfl
  · have : co = 0 := by omega
    subst this
    simp only [Nat.mul_zero, Nat.add_zero] at h1
    rw [if_neg hco]
    simp only []
    rw [h.kind, F_bind_ok (liftE_ok _ _), F_bind_ok (fTell_run _)]
    simp only []
    rw [hfuel]
    show ((readChannelChunksFrom file s .contiguous (dataObjs s) p csz s.dataPosition 0 (nc + (0 : Nat))
      nc.toNat 0) >>= _) _ = _
    rw [F_bind_ok h1]
    rfl

/-- `read_raw_data_for_channel` of the whole segment (`num_chunks=None`) -/
theorem segReadChannel_exact_all (file : Bytes) (s : Segment) (csz : Nat) (h : ContigOk file s csz) (p : Bytes)
    (st : FState) :
    ∃ st', segReadChannel file s p 0 none st = .ok (lazySegChunks file s csz p 0 s.numChunks, st') := by
  obtain ⟨st', h1⟩ := readChannelChunksFrom_exact file s csz h p 0 (s.numChunks : Int) s.numChunks 0 st.trace
    (by omega) (by intro _; omega)
  refine ⟨st', ?_⟩
  simp only [Nat.zero_mul, Nat.add_zero, Nat.mul_zero] at h1
  unfold segReadChannel
  rw [F_bind_ok (fSeek_run _ _), h.size, F_bind_ok (liftE_ok _ _)]
  rw [if_neg (by omega)]
  simp only []
  rw [h.kind, F_bind_ok (liftE_ok _ _), F_bind_ok (fTell_run _)]
  simp only []
  have hfuel : ((s.numChunks : Int) - ((0 : Nat) : Int)).toNat = s.numChunks := by omega
  rw [hfuel]
  show ((readChannelChunksFrom file s .contiguous (dataObjs s) p csz s.dataPosition 0 (s.numChunks : Int)
    s.numChunks 0) >>= _) _ = _
  rw [F_bind_ok h1]
  simp [lazySegChunks, F_pure]

/-! ## the channel's entry of an eager chunk -/

/-- the values one chunk holds for channel `p`: every entry with that path, in order -/
def chunkVals (c : RawChunk) (p : Bytes) : List Bytes :=
  (c.filter (·.1 = p)).flatMap fun x => x.2.data.getD []

theorem chunkVals_nil (p : Bytes) : chunkVals [] p = [] := rfl

theorem chunkVals_pairs (p : Bytes) : ∀ (d : List SegObj) (vs : List (List Bytes)), (d.map (·.path)).Nodup →
    chunkVals ((d.zip vs).map fun ov => (ov.1.path, ({ data := some ov.2 } : ChanChunk))) p
      = (chanOf p d vs).data.getD [] := by
  intro d
  induction d with
  | nil => intro vs _; simp [chunkVals, chanOf]
  | cons o os ih =>
    intro vs hnd
    cases vs with
    | nil => simp [chunkVals, chanOf]
    | cons v vs =>
      simp only [List.map_cons, List.nodup_cons] at hnd
      simp only [List.zip_cons_cons, List.map_cons, chanOf]
      by_cases hp : o.path = p
      · rw [if_pos hp]
        have hrest : chunkVals ((os.zip vs).map fun ov => (ov.1.path, ({ data := some ov.2 } : ChanChunk))) p = [] := by
          rw [ih vs hnd.2, chanOf_of_not_mem p os vs (by rw [← hp]; exact hnd.1)]
          rfl
        unfold chunkVals at hrest ⊢
        rw [List.filter_cons_of_pos (by simpa using hp), List.flatMap_cons, hrest]
        simp
      · rw [if_neg hp, ← ih vs hnd.2]
        unfold chunkVals
        rw [List.filter_cons_of_neg (by simpa using hp)]

theorem chunkVals_eagerChunk (file : Bytes) (s : Segment) (csz : Nat) (p : Bytes) (ci : Nat)
    (hnd : ((dataObjs s).map (·.path)).Nodup) :
    chunkVals (eagerChunk file s csz ci) p = (lazyChunk file s csz p ci).data.getD [] := by
  unfold eagerChunk lazyChunk
  rw [setCols_distinct _ [] _ hnd (by intro _ _ x hx; cases hx), List.nil_append]
  exact chunkVals_pairs p _ _ hnd

theorem get_eagerChunk (file : Bytes) (s : Segment) (csz : Nat) (p : Bytes) (ci : Nat)
    (hnd : ((dataObjs s).map (·.path)).Nodup) :
    RawChunk.get (eagerChunk file s csz ci) p = lazyChunk file s csz p ci :=
  get_setCols p _ _ hnd

/-- **contiguous segment, both readers**: the lazy read of one channel over the whole segment returns
    the channel's entry of every chunk the eager reader returns, in order -/
theorem contiguous_segment_agrees (file : Bytes) (s : Segment) (csz : Nat) (h : ContigOk file s csz) (p : Bytes)
    (hnd : ((dataObjs s).map (·.path)).Nodup) (st st' : FState) :
    ∃ chunks st1 st2, segmentReadRawData file s st = .ok (chunks, st1) ∧
      segReadChannel file s p 0 none st' = .ok (chunks.map (fun c => RawChunk.get c p), st2) := by
  obtain ⟨st1, h1⟩ := segmentReadRawData_exact file s csz h st
  obtain ⟨st2, h2⟩ := segReadChannel_exact_all file s csz h p st'
  refine ⟨_, st1, st2, h1, ?_⟩
  rw [h2]
  congr 2
  unfold lazySegChunks eagerSegChunks
  rw [List.map_append, List.map_map, List.range_eq_range']
  congr 1
  · split <;> rfl
  · apply List.map_congr_left
    intro j _
    exact (get_eagerChunk file s csz p j hnd).symm

end Tdms.Proofs.C03
