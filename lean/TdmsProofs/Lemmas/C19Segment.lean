import TdmsProofs.Lemmas.C19Channel

/-! # C19: one channel, one segment (`segReadChannel`) -/

namespace Tdms.Proofs.C19

open Tdms Tdms.Model Tdms.Generated Tdms.Proofs.C05

/-- the part of `segReadChannel` after the seek to the first requested chunk (the join point of the
    `if chunkOffset > 0` statement) -/
def segReadBody (file : Bytes) (s : Segment) (p : Bytes) (co : Nat) (stop : Int) (pre : List ChanChunk)
    (chunkSz : Nat) : F (List ChanChunk) := do
  let d := s.objects.filter (·.hasData)
  let kind ← liftE (dataReaderKind s)
  let initial ← fTell
  match kind with
  | .interleaved =>
    let n := stop - co
    if n < 0 then throw .other
    let cs ← readInterleavedChunks file s d n.toNat
    let out := cs.map fun c => RawChunk.get c p
    if !out.isEmpty then fSeek (initial + chunkSz)
    pure (pre ++ out)
  | k =>
    let cs ← readChannelChunksFrom file s k d p chunkSz initial co stop (stop - co).toNat 0
    pure (pre ++ cs)

theorem segReadChannel_eq (file : Bytes) (s : Segment) (p : Bytes) (co : Nat) (numChunks : Option Int) :
    segReadChannel file s p co numChunks =
      (do fSeek s.dataPosition
          let chunkSz ← liftE (chunkSize s.objects)
          (if co > 0 then do
              let cur ← fTell
              fSeek (cur + chunkSz * co)
            else pure ())
          segReadBody file s p co (match numChunks with | none => s.numChunks | some n => n + co)
            (if !hasFlag s.toc kTocRawData then [{}] else []) chunkSz) := by
  unfold segReadChannel
  dsimp only
  congr 1
  funext _
  congr 1
  funext chunkSz
  split
  · simp only [bind_assoc]; rfl
  · simp only [pure_bind]; rfl

/-- the objects of a segment that carry data -/
def dataObjs (s : Segment) : List SegObj := s.objects.filter (·.hasData)

/-- `number_values` of the first data object (all are equal in an interleaved segment) -/
def nv0 (d : List SegObj) : Nat := (d.head?.map (·.numberValues)).getD 0

/-- channel `p` is fixed-width wherever it is read by the contiguous reader -/
def SizedIn (s : Segment) (p : Bytes) : Prop :=
  dataReaderKind s = .ok .contiguous → ∀ o ∈ dataObjs s, o.path = p → ∃ sz, o.dataType.bind typeSize = some sz

/-- where the data reads of `segReadChannel file s p co (some nc)` may fall -/
def SegDataAllowed (s : Segment) (p : Bytes) (co : Nat) (nc : Int) (x : Nat × Nat) : Prop :=
  ∃ cs kind, chunkSize s.objects = .ok cs ∧ dataReaderKind s = .ok kind ∧
    match kind with
    | .interleaved =>
      ((dataObjs s).any fun o => o.numberValues ≠ nv0 (dataObjs s)) = false ∧
      s.dataPosition + cs * co ≤ x.1 ∧
        x.1 + x.2 ≤ s.dataPosition + cs * co + interleavedWidth (dataObjs s) * (nv0 (dataObjs s) * nc.toNat)
    | k => ∃ i, i < nc.toNat ∧ ChunkAllowed s k (dataObjs s) p (co + i) (s.dataPosition + cs * co + i * cs) x

/-- how many bytes `segReadChannel file s p co (some nc)` may read -/
def segBudget (s : Segment) (p : Bytes) (co : Nat) (nc : Int) : Nat :=
  match dataReaderKind s with
  | .ok .interleaved =>
    if ((dataObjs s).any fun o => o.numberValues ≠ nv0 (dataObjs s)) = true then 0
    else interleavedWidth (dataObjs s) * (nv0 (dataObjs s) * nc.toNat)
  | .ok k => chunksBudget s k (dataObjs s) p co 0 nc.toNat
  | .error _ => 0

theorem tr_segReadBody (file : Bytes) (s : Segment) (p : Bytes)
    (hsized : SizedIn s p)
    (co : Nat) (nc : Int) (pre : List ChanChunk) (cs : Nat) (hcs : chunkSize s.objects = .ok cs) :
    Tr (fun c => c = s.dataPosition + cs * co) (segReadBody file s p co (nc + co) pre cs)
      (SegDataAllowed s p co nc) (segBudget s p co nc) (fun _ _ => True) := by
  have hstop : (nc + (co : Int) - (co : Int)).toNat = nc.toNat := by
    congr 1; omega
  unfold segReadBody
  dsimp only
  refine Tr.bind (B1 := 0) (Q := fun kind c => dataReaderKind s = .ok kind ∧ c = s.dataPosition + cs * co)
    (Tr.liftE _ (fun a c ha hc => ⟨ha, hc⟩)) (fun kind => ?_) (Nat.le_of_eq (Nat.zero_add _))
  refine Tr.bind (B1 := 0)
    (Q := fun initial c => dataReaderKind s = .ok kind ∧ initial = s.dataPosition + cs * co ∧ c = s.dataPosition + cs * co)
    (Tr.fTell (fun c hc => ⟨hc.1, hc.2, hc.2⟩)) (fun initial => ?_) (Nat.le_of_eq (Nat.zero_add _))
  -- contiguous and DAQmx share the chunk loop
  have hloop : ∀ k, k ≠ ReaderKind.interleaved → dataReaderKind s = .ok k → initial = s.dataPosition + cs * co →
      Tr (fun c => c = s.dataPosition + cs * co)
        (do let cs' ← readChannelChunksFrom file s k (List.filter (fun x => x.hasData) s.objects) p cs initial co
              (nc + ↑co) (nc + ↑co - ↑co).toNat 0
            pure (pre ++ cs'))
        (SegDataAllowed s p co nc) (segBudget s p co nc) (fun _ _ => True) := by
    intro k hk hkind hinit
    subst hinit
    have hb : segBudget s p co nc = chunksBudget s k (dataObjs s) p co 0 nc.toNat := by
      unfold segBudget; rw [hkind]; cases k <;> first | rfl | exact (hk rfl).elim
    rw [hb, hstop]
    refine Tr.bind (B2 := 0) (Q := fun _ _ => True)
      ((tr_readChannelChunksFrom file s k (dataObjs s) p
          (fun hkd => by cases k <;> first | exact (hk rfl).elim | exact (hkd rfl).elim | exact hsized hkind)
          cs _ co (nc + co) nc.toNat 0).conseq
        (fun c hc => by rw [hc]; omega) (fun x ⟨i, _, h2, h3⟩ => ?_) (Nat.le_refl _) (fun _ _ h => h))
      (fun _ => Tr.pure _ (fun _ _ => trivial)) (Nat.le_refl _)
    refine ⟨cs, k, hcs, hkind, ?_⟩
    cases k with
    | interleaved => exact (hk rfl).elim
    | daqmx => exact ⟨i, by omega, h3⟩
    | contiguous => exact ⟨i, by omega, h3⟩
  apply Tr.of_forall_pos
  rintro c ⟨hkind, hinit, hc⟩
  subst hc
  cases kind with
  | interleaved =>
    dsimp only
    have hb : segBudget s p co nc =
        (if ((dataObjs s).any fun o => o.numberValues ≠ nv0 (dataObjs s)) = true then 0
         else interleavedWidth (dataObjs s) * (nv0 (dataObjs s) * nc.toNat)) := by
      unfold segBudget; rw [hkind]
    rw [hb, hstop]
    refine Tr.ite (fun _ => ?_) (fun _ => ?_)
    · rw [throw_bind_F]; exact Tr.throw _
    · refine Tr.bind (B2 := 0) (Q := fun _ _ => True)
        ((tr_readInterleavedChunks file s (dataObjs s) nc.toNat (s.dataPosition + cs * co)).conseq (fun _ h => h)
          (fun x hx => ⟨cs, .interleaved, hcs, hkind, hx⟩) (Nat.le_refl _) (fun _ _ _ => trivial))
        (fun chunks => ?_) (Nat.le_refl _)
      refine Tr.ite (fun _ => ?_) (fun _ => Tr.pure _ (fun _ _ => trivial))
      exact Tr.bind (B1 := 0) (B2 := 0) (Q := fun _ _ => True) (Tr.fSeek _ trivial)
        (fun _ => Tr.pure _ (fun _ _ => trivial)) (Nat.le_refl _)
  | daqmx => exact hloop .daqmx (by intro h; cases h) hkind hinit
  | contiguous => exact hloop .contiguous (by intro h; cases h) hkind hinit

theorem tr_segReadChannel (file : Bytes) (s : Segment) (p : Bytes)
    (hsized : SizedIn s p)
    (co : Nat) (nc : Int) :
    Tr (fun _ => True) (segReadChannel file s p co (some nc))
      (SegDataAllowed s p co nc) (segBudget s p co nc) (fun _ _ => True) := by
  rw [segReadChannel_eq]
  refine Tr.bind (B1 := 0) (Q := fun _ c => c = s.dataPosition) (Tr.fSeek _ rfl) (fun _ => ?_)
    (Nat.le_of_eq (Nat.zero_add _))
  refine Tr.bind (B1 := 0) (Q := fun cs c => chunkSize s.objects = .ok cs ∧ c = s.dataPosition)
    (Tr.liftE _ (fun a c ha hc => ⟨ha, hc⟩)) (fun cs => ?_) (Nat.le_of_eq (Nat.zero_add _))
  apply Tr.of_forall_pos
  rintro c ⟨hcs, hc⟩
  subst hc
  refine Tr.bind (B1 := 0) (Q := fun _ c => c = s.dataPosition + cs * co) ?_
    (fun _ => tr_segReadBody file s p hsized co nc _ cs hcs) (Nat.le_of_eq (Nat.zero_add _))
  refine Tr.ite (fun hco => ?_) (fun hco => Tr.pure _ (fun c hc => ?_))
  · refine Tr.bind (B1 := 0) (B2 := 0) (Q := fun cur _ => cur = s.dataPosition) (Tr.fTell (fun c hc => hc))
      (fun cur => ?_) (Nat.le_refl _)
    apply Tr.of_forall_pos
    intro c hc
    subst hc
    exact Tr.fSeek _ rfl
  · have : co = 0 := by omega
    subst this
    rw [hc]; simp

end Tdms.Proofs.C19
