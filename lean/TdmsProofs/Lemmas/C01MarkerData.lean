/-
  C01, the length-unknown marker on the last segment: raw data.  `readRawDataAll` over the records of complete
  segments followed by further records, and the raw data of a last segment flagged incomplete.
  Generalises `C01MultiData.segment_data` / `readRawDataAll_multi`.  Core Lean only.
-/
import TdmsProofs.Lemmas.C01MarkerMeta

namespace Tdms.Proofs.C01Marker

open Tdms Tdms.Generated Tdms.Model Tdms.Proofs.C02 Tdms.Proofs.C01Multi
open Tdms.Proofs.Bytes (contOK setCols F_bind_ok F_pure drop_add_of_drop_eq fRead_of_drop)
open Tdms.Proofs.C01Compose (pairsChunk)

/-- **the raw data of a last segment carrying the marker**, from any file state: the record is flagged incomplete,
    but no chunk is truncated (`override = none`), so the read is that of the complete segment -/
theorem segment_data_marker (file : Bytes) (pos : Nat) (s : SegEnc) (a : List ActiveObj) (rest : Bytes)
    (hfile : file.drop pos = encodeSeg (mark s) a ++ rest) (hok : SegOK s a) (hnd : (a.map (·.path)).Nodup)
    (st : FState) :
    ∃ st', (do verifySegmentStart file (segRecI pos s a true); segmentReadRawData file (segRecI pos s a true) : F _) st =
      .ok (rawChunksOfSeg s a, st') := by
  have hsplit := encodeSeg_mark s a
  have hli28 := encLeadIn_length tagData (mark s) (segMeta s).length (encRaw s a).length rfl
  have hnoq := not_daq_of_good hok.good
  -- the tag
  have htag : file.drop (⟨pos, st.trace⟩ : FState).pos = tagData ++ (encLE 4 (tocMask s) ++ enc s.endian 4 s.version ++
      enc s.endian 8 (2 ^ 64 - 1) ++
      enc s.endian 8 (segMeta s).length ++ (segMeta s ++ encRaw s a) ++ rest) := by
    show file.drop pos = _
    rw [hfile, hsplit]
    simp only [encLeadIn, List.append_assoc]
    rfl
  -- the raw data
  have hdrop : file.drop (pos + 28 + (segMeta s).length) =
      s.chunks.flatMap (encChunkContiguous s.endian (dataObjs a)) ++ rest := by
    have h28 : file.drop (pos + 28) = segMeta s ++ (encRaw s a ++ rest) := by
      rw [← List.drop_drop, hfile, hsplit, List.append_assoc, List.drop_left' hli28, List.append_assoc]
    rw [← List.drop_drop, h28, List.drop_left, encRaw_contig s a hok.std.contiguous hnoq]
  have hend : (segRecI pos s a true).endian = s.endian := Tdms.Proofs.Bytes.segEndian_of_tocMask s
  have hcont : ∀ ch ∈ s.chunks, contOK ((dataObjs a).map concObj) (dataObjs a) ch :=
    fun ch hch => (chunk_facts s.endian (dataObjs a) ch (good_dataObjs hok.good) (hok.chunks ch hch)).1
  obtain ⟨tr', hseq⟩ := readChunksSeq_conc file (segRecI pos s a true) rfl ((dataObjs a).map concObj) (dataObjs a)
    s.chunks 0 (pos + 28 + (segMeta s).length) (st.trace ++ [(pos, 4)]) rest hcont (by rw [hend]; exact hdrop)
  have hkind : dataReaderKind (segRecI pos s a true) = .ok .contiguous :=
    dataReaderKind_conc _ a hok.good rfl (by
      show hasFlag (tocMask s) kTocInterleavedData = false
      rw [Tdms.Proofs.Bytes.hasFlag_tocMask_interleaved, hok.std.contiguous])
  have hverify : verifySegmentStart file (segRecI pos s a true) st = .ok ((), ⟨pos + 4, st.trace ++ [(pos, 4)]⟩) := by
    have hread : fRead file 4 ⟨pos, st.trace⟩ = .ok (tagData, ⟨pos + 4, st.trace ++ [(pos, 4)]⟩) :=
      fRead_of_drop htag
    unfold verifySegmentStart
    have hseek : fSeek (segRecI pos s a true).position st = .ok ((), ⟨pos, st.trace⟩) := rfl
    rw [F_bind_ok hseek, F_bind_ok hread]
    simp [F_pure]
  have hsegread : ∃ st1, segmentReadRawData file (segRecI pos s a true) ⟨pos + 4, st.trace ++ [(pos, 4)]⟩ =
      .ok (rawChunksOfSeg s a, st1) := by
    refine ⟨⟨pos + 28 + (segMeta s).length +
      (s.chunks.flatMap (encChunkContiguous (segRecI pos s a true).endian (dataObjs a))).length, tr'⟩, ?_⟩
    unfold segmentReadRawData
    have hseek : fSeek (segRecI pos s a true).dataPosition ⟨pos + 4, st.trace ++ [(pos, 4)]⟩ =
        .ok ((), ⟨pos + 28 + (segMeta s).length, st.trace ++ [(pos, 4)]⟩) := rfl
    have hlift : Tdms.Model.liftE (dataReaderKind (segRecI pos s a true))
        ⟨pos + 28 + (segMeta s).length, st.trace ++ [(pos, 4)]⟩ =
        .ok (.contiguous, ⟨pos + 28 + (segMeta s).length, st.trace ++ [(pos, 4)]⟩) := by
      rw [hkind]; rfl
    have hd : (segRecI pos s a true).objects.filter (·.hasData) = (dataObjs a).map concObj := filter_hasData_conc a
    have hflagraw : hasFlag (segRecI pos s a true).toc kTocRawData = s.rawFlag :=
      Tdms.Proofs.Bytes.hasFlag_tocMask_raw s
    simp only []
    rw [F_bind_ok hseek, F_bind_ok hlift]
    simp only [hd]
    have hk : (segRecI pos s a true).numChunks = s.chunks.length := rfl
    have hseq' : readChunksSeq file (segRecI pos s a true) .contiguous ((dataObjs a).map concObj) 0
      s.chunks.length ⟨pos + 28 + (segMeta s).length, st.trace ++ [(pos, 4)]⟩ = _ := hseq
    rw [hk, F_bind_ok hseq']
    simp only [F_pure, rawChunksOfSeg, hflagraw]
    congr 2
    congr 1
    apply List.map_congr_left
    intro ch _
    exact setCols_conc (dataObjs a) ch (dataObjs_nodup hnd)
  obtain ⟨st1, hsegread⟩ := hsegread
  exact ⟨st1, by rw [F_bind_ok hverify, hsegread]⟩

/-- **the raw data of complete segments followed by further records** -/
theorem readRawDataAll_prefix (file : Bytes) (more : List Segment) (chunksMore : List RawChunk)
    (hmore : ∀ st1, ∃ st2, (readRawDataAll file more).run st1 = .ok (chunksMore, st2)) :
    ∀ (ss : List SegEnc) (as : List (List ActiveObj)) (rest : Bytes) (pos : Nat) (st : FState),
      ss.length = as.length → SegsOK ss as → ActsNodup as →
      file.drop pos = zipEncode encodeSeg ss as ++ rest →
      ∃ st', (readRawDataAll file (segRecs pos ss as ++ more)).run st =
        .ok (rawChunksAll ss as ++ chunksMore, st') := by
  intro ss
  induction ss with
  | nil =>
    intro as rest pos st hl _ _ _
    cases as with
    | nil => simpa [segRecs, rawChunksAll] using hmore st
    | cons a as => simp at hl
  | cons s ss ih =>
    intro as rest pos st hl hok hnd hfile
    cases as with
    | nil => cases hok
    | cons a as =>
      have hfile' : file.drop pos = encodeSeg s a ++ (zipEncode encodeSeg ss as ++ rest) := by
        rw [hfile]; simp [zipEncode]
      obtain ⟨st1, h1⟩ := segment_data file pos s a _ hfile' hok.1 (hnd a List.mem_cons_self) st
      obtain ⟨st2, h2⟩ := ih as rest (pos + (encodeSeg s a).length) st1 (by simpa using hl) hok.2
        (fun a' ha' => hnd a' (List.mem_cons_of_mem _ ha')) (drop_add_of_drop_eq hfile')
      refine ⟨st2, ?_⟩
      show readRawDataAll file (segRec pos s a :: (segRecs (pos + (encodeSeg s a).length) ss as ++ more)) st = _
      unfold readRawDataAll
      obtain ⟨u, sv, hv, h1'⟩ : ∃ u sv, verifySegmentStart file (segRec pos s a) st = .ok (u, sv) ∧
          segmentReadRawData file (segRec pos s a) sv = .ok (rawChunksOfSeg s a, st1) := by
        cases hv : verifySegmentStart file (segRec pos s a) st with
        | error err =>
          have : (do verifySegmentStart file (segRec pos s a); segmentReadRawData file (segRec pos s a) : F _) st =
              .error err := by
            show (StateT.bind _ _) st = _
            simp [StateT.bind, hv, bind, Except.bind]
          rw [this] at h1; cases h1
        | ok r =>
          obtain ⟨u, sv⟩ := r
          rw [F_bind_ok hv] at h1
          exact ⟨u, sv, rfl, h1⟩
      have h2' : readRawDataAll file (segRecs (pos + (encodeSeg s a).length) ss as ++ more) st1 = _ := h2
      rw [F_bind_ok hv, F_bind_ok h1', F_bind_ok h2']
      simp only [F_pure, rawChunksAll, List.append_assoc]

/-- `readRawDataAll` over the single record of a last segment carrying the marker -/
theorem readRawDataAll_marker (file : Bytes) (pos : Nat) (s : SegEnc) (a : List ActiveObj)
    (hfile : file.drop pos = encodeSeg (mark s) a) (hok : SegOK s a) (hnd : (a.map (·.path)).Nodup)
    (st : FState) :
    ∃ st', (readRawDataAll file [segRecI pos s a true]).run st = .ok (rawChunksOfSeg s a, st') := by
  obtain ⟨st1, h1⟩ := segment_data_marker file pos s a [] (by rw [hfile, List.append_nil]) hok hnd st
  refine ⟨st1, ?_⟩
  show readRawDataAll file [segRecI pos s a true] st = _
  unfold readRawDataAll
  obtain ⟨u, sv, hv, h1'⟩ : ∃ u sv, verifySegmentStart file (segRecI pos s a true) st = .ok (u, sv) ∧
      segmentReadRawData file (segRecI pos s a true) sv = .ok (rawChunksOfSeg s a, st1) := by
    cases hv : verifySegmentStart file (segRecI pos s a true) st with
    | error err =>
      have : (do verifySegmentStart file (segRecI pos s a true); segmentReadRawData file (segRecI pos s a true) : F _) st =
          .error err := by
        show (StateT.bind _ _) st = _
        simp [StateT.bind, hv, bind, Except.bind]
      rw [this] at h1; cases h1
    | ok r =>
      obtain ⟨u, sv⟩ := r
      rw [F_bind_ok hv] at h1
      exact ⟨u, sv, rfl, h1⟩
  rw [F_bind_ok hv, F_bind_ok h1']
  unfold readRawDataAll
  simp [bind, StateT.bind, Except.bind, pure, StateT.pure, Except.pure]

end Tdms.Proofs.C01Marker
