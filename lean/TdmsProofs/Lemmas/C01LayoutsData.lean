/-
  C01 for files with contiguous and interleaved segments: `readRawDataAll` over the `Segment` records.
  A contiguous segment yields one chunk per encoded chunk (`C01MultiData.segment_data`); an interleaved
  segment with at least one data object yields ONE chunk holding, per data object, the concatenation of its
  columns over all encoded chunks (`mergeCols`), and no chunk at all when it has no data object.
  Core Lean only.
-/
import TdmsProofs.Lemmas.C01LayoutsInter
import TdmsProofs.Lemmas.C01LayoutsMeta

namespace Tdms.Proofs.C01Layouts

open Tdms Tdms.Generated Tdms.Model Tdms.Proofs.C02 Tdms.Proofs.C01Multi
open Tdms.Proofs.Bytes (colsOK aTy rowWidth setCols F_bind_ok F_pure drop_add_of_drop_eq fRead_of_drop)
open Tdms.Proofs.C01Compose (pairsChunk)

/-- a contiguous segment of the class is a segment of the class of `C01Multi` -/
theorem segOK_of_contig {s : SegEnc} {a : List ActiveObj} (h : SegOKI s a) (hi : s.interleaved = false) :
    SegOK s a :=
  ⟨⟨hi, h.std.lengthKnown, h.std.std, h.std.canon⟩, h.fits, h.version, h.noMeta, h.objs, h.nodup, h.good,
    h.nonZero, h.chunks⟩

/-- the chunks the reader yields for a segment of either layout -/
def rawChunksOfSegI (s : SegEnc) (a : List ActiveObj) : List RawChunk :=
  (if !s.rawFlag then [[]] else []) ++
    (if s.interleaved then
      (if (dataObjs a).isEmpty then []
       else [pairsChunk (pairsOf (dataObjs a) (mergeCols (dataObjs a) s.chunks))])
     else s.chunks.map fun ch => pairsChunk (pairsOf (dataObjs a) ch))

theorem rawChunksOfSegI_contig (s : SegEnc) (a : List ActiveObj) (hi : s.interleaved = false) :
    rawChunksOfSegI s a = rawChunksOfSeg s a := by
  simp [rawChunksOfSegI, rawChunksOfSeg, hi]

theorem concObj_fixed {x : ActiveObj} (h : FixedObj x) :
    ∃ ty sz, (concObj x).dataType = some ty ∧ typeSize ty = some sz := by
  obtain ⟨ty, n, total, hi, hs⟩ := h
  obtain ⟨sz, hsz⟩ := Option.isSome_iff_exists.mp hs
  exact ⟨ty, sz, by unfold concObj; rw [hi], hsz⟩

theorem dataReaderKind_inter (seg : Segment) (a : List ActiveObj)
    (hg : ∀ x ∈ a, ∀ d, x.idx = some d → GoodDesc d) (hobjs : seg.objects = a.map concObj)
    (hfix : ∀ x ∈ dataObjs a, FixedObj x)
    (hint : hasFlag seg.toc kTocInterleavedData = true) : dataReaderKind seg = .ok .interleaved := by
  have h1 : ((dataObjs a).map concObj).any (fun o => o.dataType.isNone) = false := by
    simp only [List.any_eq_false, List.mem_map]
    rintro o ⟨x, hx, rfl⟩
    obtain ⟨ty, sz, hty, _⟩ := concObj_fixed (hfix x hx)
    simp [hty]
  have h2 : ((dataObjs a).map concObj).filter (fun o => (o.dataType.bind typeSize).isNone) = [] := by
    rw [List.filter_eq_nil_iff]
    rintro o ho
    obtain ⟨x, hx, rfl⟩ := List.mem_map.mp ho
    obtain ⟨ty, sz, hty, hsz⟩ := concObj_fixed (hfix x hx)
    simp [hty, hsz]
  simp [dataReaderKind, hobjs, haveDaqmxObjects_conc a hg, haveInterleavedData, hint, bind,
    Except.bind, pure, Except.pure, filter_hasData_conc, h1, h2]

theorem concObj_numberValues {x : ActiveObj} {n : Nat} (hfix : FixedObj x)
    (hn : ∀ dsc, x.idx = some dsc → dsc.n = n) : (concObj x).numberValues = n := by
  obtain ⟨ty, n', total, hi, _⟩ := hfix
  have := hn _ hi
  unfold concObj; rw [hi]; exact this

/-- all chunks of an interleaved segment in one read -/
theorem readInterleaved_segment (file : Bytes) (seg : Segment) (d : List ActiveObj) (hint : InterOK d)
    (chs : List (List (List Bytes))) (hwf : ∀ ch ∈ chs, wfStdChunk d ch = true)
    (hnd : (d.map (·.path)).Nodup) (pos : Nat) (tr : List (Nat × Nat)) (rest : Bytes)
    (hfile : file.drop pos = chs.flatMap (encChunkInterleaved seg.endian d) ++ rest) :
    ∃ st', (readInterleavedChunks file seg (d.map concObj) chs.length).run ⟨pos, tr⟩ =
      .ok ((if d.isEmpty then [] else [pairsChunk (pairsOf d (mergeCols d chs))]), st') := by
  cases d with
  | nil => exact ⟨⟨pos, tr⟩, rfl⟩
  | cons x xs =>
    obtain ⟨n, hn⟩ := hint.sameN
    have hcols := colsOK_merge n (x :: xs) hint.fixed hn chs hwf
    have hflat := flatMap_encChunkInterleaved seg.endian n x xs hint.fixed hn chs hwf
    have hlen := Tdms.Proofs.Bytes.encChunkInterleaved_length seg.endian (o := concObj x)
      (os := xs.map concObj) hcols
    have hnv : ∀ o ∈ concObj x :: xs.map concObj, o.numberValues = n := by
      intro o ho
      have ho' : o ∈ (x :: xs).map concObj := ho
      obtain ⟨y, hy, rfl⟩ := List.mem_map.mp ho'
      exact concObj_numberValues (hint.fixed y hy) (hn y hy)
    have htake : (file.drop pos).take (rowWidth (x :: xs) * (n * chs.length)) =
        encChunkInterleaved seg.endian (x :: xs) (mergeCols (x :: xs) chs) := by
      rw [hfile, hflat, List.take_left' hlen]
    have := readInterleavedChunks_many file seg (concObj x) (xs.map concObj) (x :: xs)
      (mergeCols (x :: xs) chs) n chs.length pos tr hcols hnv htake
    refine ⟨⟨pos + rowWidth (x :: xs) * (n * chs.length),
      tr ++ [(pos, rowWidth (x :: xs) * (n * chs.length))]⟩, ?_⟩
    rw [List.map_cons, this]
    have hsc := setCols_conc (x :: xs) (mergeCols (x :: xs) chs) hnd
    rw [List.map_cons] at hsc
    simp only [List.isEmpty_cons, Bool.false_eq_true, if_false, hsc]

/-- **the raw data of one interleaved segment**, from any file state -/
theorem segment_data_inter (file : Bytes) (pos : Nat) (s : SegEnc) (a : List ActiveObj) (rest : Bytes)
    (hfile : file.drop pos = encodeSeg s a ++ rest) (hok : SegOKI s a) (hi : s.interleaved = true)
    (hnd : (a.map (·.path)).Nodup) (st : FState) :
    ∃ st', (do verifySegmentStart file (segRec pos s a); segmentReadRawData file (segRec pos s a) : F _) st =
      .ok (rawChunksOfSegI s a, st') := by
  have hsplit := encodeSeg_split s a
  have hli28 := encLeadIn_length tagData s (segMeta s).length (encRaw s a).length rfl
  have hnoq := not_daq_of_good hok.good
  have htag : file.drop (⟨pos, st.trace⟩ : FState).pos = tagData ++ (encLE 4 (tocMask s) ++ enc s.endian 4 s.version ++
      enc s.endian 8 (if s.lengthUnknown then 2 ^ 64 - 1 else (segMeta s).length + (encRaw s a).length) ++
      enc s.endian 8 (segMeta s).length ++ (segMeta s ++ encRaw s a) ++ rest) := by
    show file.drop pos = _
    rw [hfile, hsplit]; simp [encLeadIn]
  have hdrop : file.drop (pos + 28 + (segMeta s).length) =
      s.chunks.flatMap (encChunkInterleaved s.endian (dataObjs a)) ++ rest := by
    have h28 : file.drop (pos + 28) = segMeta s ++ (encRaw s a ++ rest) := by
      rw [← List.drop_drop, hfile, hsplit, List.append_assoc, List.drop_left' hli28, List.append_assoc]
    rw [← List.drop_drop, h28, List.drop_left, encRaw_inter s a hi hnoq]
  have hend : (segRec pos s a).endian = s.endian := Tdms.Proofs.Bytes.segEndian_of_tocMask s
  obtain ⟨st1, hseq⟩ := readInterleaved_segment file (segRec pos s a) (dataObjs a) (hok.inter hi) s.chunks
    hok.chunks (dataObjs_nodup hnd) (pos + 28 + (segMeta s).length) (st.trace ++ [(pos, 4)]) rest
    (by rw [hend]; exact hdrop)
  have hkind : dataReaderKind (segRec pos s a) = .ok .interleaved :=
    dataReaderKind_inter _ a hok.good rfl (hok.inter hi).fixed (by
      show hasFlag (tocMask s) kTocInterleavedData = true
      rw [Tdms.Proofs.Bytes.hasFlag_tocMask_interleaved, hi])
  have hverify : verifySegmentStart file (segRec pos s a) st = .ok ((), ⟨pos + 4, st.trace ++ [(pos, 4)]⟩) := by
    have hread : fRead file 4 ⟨pos, st.trace⟩ = .ok (tagData, ⟨pos + 4, st.trace ++ [(pos, 4)]⟩) :=
      fRead_of_drop htag
    unfold verifySegmentStart
    have hseek : fSeek (segRec pos s a).position st = .ok ((), ⟨pos, st.trace⟩) := rfl
    rw [F_bind_ok hseek, F_bind_ok hread]
    simp [F_pure]
  have hsegread : segmentReadRawData file (segRec pos s a) ⟨pos + 4, st.trace ++ [(pos, 4)]⟩ =
      .ok (rawChunksOfSegI s a, st1) := by
    unfold segmentReadRawData
    have hseek : fSeek (segRec pos s a).dataPosition ⟨pos + 4, st.trace ++ [(pos, 4)]⟩ =
        .ok ((), ⟨pos + 28 + (segMeta s).length, st.trace ++ [(pos, 4)]⟩) := rfl
    have hlift : Tdms.Model.liftE (dataReaderKind (segRec pos s a))
        ⟨pos + 28 + (segMeta s).length, st.trace ++ [(pos, 4)]⟩ =
        .ok (.interleaved, ⟨pos + 28 + (segMeta s).length, st.trace ++ [(pos, 4)]⟩) := by
      rw [hkind]; rfl
    have hd : (segRec pos s a).objects.filter (·.hasData) = (dataObjs a).map concObj := filter_hasData_conc a
    have hflagraw : hasFlag (segRec pos s a).toc kTocRawData = s.rawFlag :=
      Tdms.Proofs.Bytes.hasFlag_tocMask_raw s
    simp only []
    rw [F_bind_ok hseek, F_bind_ok hlift]
    simp only [hd]
    have hk : (segRec pos s a).numChunks = s.chunks.length := rfl
    have hseq' : readInterleavedChunks file (segRec pos s a) ((dataObjs a).map concObj)
      s.chunks.length ⟨pos + 28 + (segMeta s).length, st.trace ++ [(pos, 4)]⟩ = _ := hseq
    rw [hk, F_bind_ok hseq']
    simp only [F_pure, rawChunksOfSegI, hflagraw, hi, if_true]
  exact ⟨st1, by rw [F_bind_ok hverify, hsegread]⟩

/-- **the raw data of one segment of either layout**, from any file state -/
theorem segment_dataI (file : Bytes) (pos : Nat) (s : SegEnc) (a : List ActiveObj) (rest : Bytes)
    (hfile : file.drop pos = encodeSeg s a ++ rest) (hok : SegOKI s a) (hnd : (a.map (·.path)).Nodup)
    (st : FState) :
    ∃ st', (do verifySegmentStart file (segRec pos s a); segmentReadRawData file (segRec pos s a) : F _) st =
      .ok (rawChunksOfSegI s a, st') := by
  cases hi : s.interleaved with
  | false =>
    rw [rawChunksOfSegI_contig s a hi]
    exact segment_data file pos s a rest hfile (segOK_of_contig hok hi) hnd st
  | true => exact segment_data_inter file pos s a rest hfile hok hi hnd st

/-! ## all segments -/

def rawChunksAllI : List SegEnc → List (List ActiveObj) → List RawChunk
  | s :: ss, a :: as => rawChunksOfSegI s a ++ rawChunksAllI ss as
  | _, _ => []

theorem readRawDataAll_multiI (file : Bytes) :
    ∀ (ss : List SegEnc) (as : List (List ActiveObj)) (pos : Nat) (st : FState),
      SegsOKI ss as → ActsNodup as → file.drop pos = zipEncode encodeSeg ss as →
      ∃ st', (readRawDataAll file (segRecs pos ss as)).run st = .ok (rawChunksAllI ss as, st') := by
  intro ss
  induction ss with
  | nil => intro as pos st _ _ _; cases as <;> exact ⟨st, rfl⟩
  | cons s ss ih =>
    intro as pos st hok hnd hfile
    cases as with
    | nil => cases hok
    | cons a as =>
      have hfile' : file.drop pos = encodeSeg s a ++ zipEncode encodeSeg ss as := hfile
      obtain ⟨st1, h1⟩ := segment_dataI file pos s a _ hfile' hok.1 (hnd a List.mem_cons_self) st
      obtain ⟨st2, h2⟩ := ih as (pos + (encodeSeg s a).length) st1 hok.2
        (fun a' ha' => hnd a' (List.mem_cons_of_mem _ ha')) (drop_add_of_drop_eq hfile')
      refine ⟨st2, ?_⟩
      show readRawDataAll file (segRec pos s a :: segRecs (pos + (encodeSeg s a).length) ss as) st = _
      unfold readRawDataAll
      obtain ⟨u, sv, hv, h1'⟩ : ∃ u sv, verifySegmentStart file (segRec pos s a) st = .ok (u, sv) ∧
          segmentReadRawData file (segRec pos s a) sv = .ok (rawChunksOfSegI s a, st1) := by
        cases hv : verifySegmentStart file (segRec pos s a) st with
        | error err =>
          have : (do verifySegmentStart file (segRec pos s a); segmentReadRawData file (segRec pos s a) : F _) st =
              .error err := by
            show (StateT.bind _ _) st = _
            simp [StateT.bind, hv, bind, Except.bind]
          rw [this] at h1; cases h1
        | ok r =>
          obtain ⟨u, sv⟩ := r
          rw [F_bind_ok hv] at h1
          exact ⟨u, sv, rfl, h1⟩
      have h2' : readRawDataAll file (segRecs (pos + (encodeSeg s a).length) ss as) st1 = _ := h2
      rw [F_bind_ok hv, F_bind_ok h1', F_bind_ok h2']
      rfl

end Tdms.Proofs.C01Layouts
