import TdmsProofs.Lemmas.C04WholePlan
import TdmsProofs.Lemmas.C19StringsWindow

/-!
# C19Strings: the number of planned chunks is bounded by the request

For a window of `len = endIndex − offset` values the plan of every touched segment has at most
`len / valuesPerChunk + 2` chunks (`window_plan_count`); hence the planned bytes of a window are at most
`4 · touchedSegments + Σ chunkSize · (len / valuesPerChunk + 2)` (`windowPlanned_le_request`).
Same ingredients as `window_plan_bounds` (C04Whole): `Frame`, `start_arith`, `end_arith`.  Core Lean only.
-/

namespace Tdms.Proofs.C19S

open Tdms Tdms.Model Tdms.Proofs.C04 Tdms.Proofs.C04Whole Tdms.Proofs.C19

theorem count_of_mul (cs : Nat) (hcs : 0 < cs) (n L : Int) (h : (n - 2) * (cs : Int) ≤ L) :
    n ≤ L / (cs : Int) + 2 := by
  have := (Int.le_ediv_iff_mul_le (by omega : (0 : Int) < cs)).2 h
  omega

theorem cnt_se (cs co E : Nat) (a e : Int) (hlt : a < ((cs * (co + 1) : Nat) : Int))
    (hE5 : 0 < E → ((cs * E : Nat) : Int) - cs < e) (hae : a ≤ e) : ((E : Int) - co - 2) * cs ≤ e - a := by
  grind

theorem cnt_s (cs co k' fs : Nat) (a e : Int) (hlt : a < ((cs * (co + 1) : Nat) : Int))
    (hne : ((cs * k' + fs : Nat) : Int) ≤ e) : (((k' + 1 : Nat) : Int) - co - 2) * cs ≤ e - a := by
  grind

theorem cnt_e (cs E : Nat) (a e : Int) (ha : a ≤ 0) (he0 : 0 < e)
    (hE5 : 0 < E → ((cs * E : Nat) : Int) - cs < e) : ((E : Int) - 2) * cs ≤ e - a := by
  grind

theorem cnt_m (cs k fs : Nat) (a e : Int) (ha : a ≤ 0)
    (hne : ((if k = 0 then 0 else cs * (k - 1) + fs : Nat) : Int) ≤ e) : ((k : Int) - 2) * cs ≤ e - a := by
  split at hne
  · subst k; grind
  · obtain ⟨k', rfl⟩ : ∃ k', k = k' + 1 := ⟨k - 1, by omega⟩
    simp only [Nat.add_sub_cancel] at hne
    grind

/-- the planned run of one segment has at most `(e − a) / cs + 2` chunks, where `[a, e)` is the window
    relative to the segment start -/
theorem seg_plan_count (l : SegL) (hwf : l.WF) (hcs : 0 < l.cs) (isStart isEnd : Bool) (a e : Int)
    (hs : isStart = true → 0 ≤ a ∧ a < l.nvals) (hns : isStart = false → a ≤ 0)
    (he : isEnd = true → e ≤ l.nvals ∧ a ≤ e ∧ (isStart = false → 0 < e))
    (hne : isEnd = false → (l.nvals : Int) ≤ e) :
    ∃ co skip nc, planA l isStart isEnd a (l.nvals - e) = some (co, skip, nc) ∧
      nc ≤ (e - a) / (l.cs : Int) + 2 := by
  rw [planA_eq l (by omega)]
  refine ⟨_, _, _, rfl, ?_⟩
  apply count_of_mul l.cs hcs
  have hN := nvals_eq l hwf hcs
  have hfs := fs_le l hwf
  cases isStart with
  | true =>
    obtain ⟨ha0, haN⟩ := hs rfl
    have hk0 : l.k ≠ 0 := by
      intro h; rw [h] at hN; simp at hN; omega
    obtain ⟨k', hk⟩ : ∃ k', l.k = k' + 1 := ⟨l.k - 1, by omega⟩
    rw [if_neg hk0, hk] at hN
    simp only [Nat.add_sub_cancel] at hN
    rw [hN] at haN
    obtain ⟨co, hco, hskip, hcok, hpre, hlt, hlast⟩ := start_arith l.cs k' l.fs a hcs hfs ha0 haN
    simp only [if_true]
    rw [hco, hk]
    cases isEnd with
    | false =>
      simp only [Bool.false_eq_true, if_false]
      have hne' := hne rfl
      rw [hN] at hne'
      exact cnt_s l.cs co k' l.fs a e hlt hne'
    | true =>
      obtain ⟨heN, hae, _⟩ := he rfl
      rw [hN] at heN
      obtain ⟨E, hEk, hadj, _, hE5⟩ := end_arith l.cs k' l.fs e (((k' + 1 : Nat) : Int) - (co : Int)) hcs hfs
        (by omega) heN
      simp only [if_true]
      rw [hN, hadj]
      have := cnt_se l.cs co E a e hlt hE5 hae
      have e1 : ((k' + 1 : Nat) : Int) - (co : Int) - ((k' + 1 : Nat) : Int) + (E : Int) - 2 = (E : Int) - co - 2 := by
        omega
      rw [e1]
      exact this
  | false =>
    have ha := hns rfl
    simp only [Bool.false_eq_true, if_false]
    cases isEnd with
    | false =>
      simp only [Bool.false_eq_true, if_false]
      have hne' := hne rfl
      rw [hN] at hne'
      exact cnt_m l.cs l.k l.fs a e ha hne'
    | true =>
      obtain ⟨heN, hae, he0⟩ := he rfl
      have he0 := he0 rfl
      have hk0 : l.k ≠ 0 := by
        intro h; rw [h] at hN; simp at hN; omega
      obtain ⟨k', hk⟩ : ∃ k', l.k = k' + 1 := ⟨l.k - 1, by omega⟩
      rw [if_neg hk0, hk] at hN
      simp only [Nat.add_sub_cancel] at hN
      rw [hN] at heN
      obtain ⟨E, hEk, hadj, _, hE5⟩ := end_arith l.cs k' l.fs e ((k' + 1 : Nat) : Int) hcs hfs
        (by omega) heN
      simp only [if_true]
      rw [hN, hk, hadj]
      have := cnt_e l.cs E a e ha he0 hE5
      have e1 : ((k' + 1 : Nat) : Int) - ((k' + 1 : Nat) : Int) + (E : Int) - 2 = (E : Int) - 2 := by omega
      rw [e1]
      exact this

/-- the plan of segment `i` of the window, for any `Frame`: at most `(endIndex − offset) / cs + 2` chunks -/
theorem plan_count_core (segs : List Segment) (p : Bytes) (L : List SegL) (nv : List Nat)
    (hL : L = segs.map (layoutOf p)) (hnv : nv = L.map SegL.nvals) (hwf : WellFormed L)
    (ix : ChannelIndex) (offset endIndex : Int) (startSeg endSeg : Nat)
    (fr : Frame nv ix offset endIndex startSeg endSeg)
    (hF : startSeg ≤ endSeg → startSeg < segs.length → offset ≤ endIndex)
    (i : Nat) (hi : i < segs.length) (hsi : startSeg ≤ i) (hie : i ≤ endSeg) (co skip nc : Int)
    (hplan : segPlan p ix offset endIndex startSeg endSeg i segs[i] = some (co, skip, nc)) :
    (layoutOf p segs[i]).cs ≠ 0 ∧ nc ≤ (endIndex - offset) / ((layoutOf p segs[i]).cs : Int) + 2 := by
  have hLlen : L.length = segs.length := by rw [hL]; simp
  have hnvlen : nv.length = segs.length := by rw [hnv, List.length_map, hLlen]
  have hiL : i < L.length := by omega
  have hinv : i < nv.length := by omega
  have hLi : L[i] = layoutOf p segs[i] := by subst hL; simp
  have hnvi : nv[i] = L[i].nvals := by subst hnv; simp
  have hps := psum_succ nv i hinv
  rw [hnvi] at hps
  rw [segPlan_eq_planA, ← hLi] at hplan
  rw [← hLi]
  have hwfi : L[i].WF := hwf _ (List.getElem_mem hiL)
  obtain ⟨hE1, hE2⟩ := fr.hE i hsi hie hinv
  rw [hE1, hE2] at hplan
  have hcs : L[i].cs ≠ 0 := by
    intro h
    unfold planA at hplan
    rw [if_pos h] at hplan
    cases hplan
  refine ⟨hcs, ?_⟩
  have hBi : i = startSeg → offset < ((psum nv (i + 1) : Nat) : Int) := by
    intro h; subst h; exact fr.hB (by omega) hinv
  have hstart : i ≠ startSeg → offset < ((psum nv i : Nat) : Int) := by
    intro hne
    have h1 := fr.hB (by omega) (by omega)
    have h2 := psum_mono nv (show startSeg + 1 ≤ i by omega)
    omega
  have hend : i ≠ endSeg → ((psum nv (i + 1) : Nat) : Int) ≤ endIndex := by
    intro hne
    have h1 := fr.hD (by omega)
    have h2 := psum_mono nv (show i + 1 ≤ endSeg by omega)
    omega
  obtain ⟨co', skip', nc', hplan', hok⟩ := seg_plan_count L[i] hwfi (by omega)
    (decide (i = startSeg)) (decide (i = endSeg))
    (offset - ((psum nv i : Nat) : Int)) (endIndex - ((psum nv i : Nat) : Int))
    (by intro h
        have h : i = startSeg := by simpa using h
        have h1 := hBi h
        have h2 := fr.hA
        rw [← h] at h2
        omega)
    (by intro h
        have h : i ≠ startSeg := by simpa using h
        have := hstart h
        omega)
    (by intro h
        have h : i = endSeg := by simpa using h
        have hC := fr.hC
        rw [← h] at hC
        refine ⟨by omega, ?_, ?_⟩
        · by_cases hs : i = startSeg
          · have := hF (by omega) (by omega); omega
          · have := hstart hs
            have := fr.hD (by omega)
            rw [← h] at this
            omega
        · intro hs
          have hs : i ≠ startSeg := by simpa using hs
          have := fr.hD (by omega)
          rw [← h] at this
          omega)
    (by intro h
        have h : i ≠ endSeg := by simpa using h
        have := hend h
        omega)
  have harg : ((psum nv (i + 1) : Nat) : Int) - endIndex
      = (L[i].nvals : Int) - (endIndex - ((psum nv i : Nat) : Int)) := by omega
  rw [harg, hplan'] at hplan
  simp only [Option.some.injEq, Prod.mk.injEq] at hplan
  obtain ⟨rfl, rfl, rfl⟩ := hplan
  have e1 : endIndex - ((psum nv i : Nat) : Int) - (offset - ((psum nv i : Nat) : Int)) = endIndex - offset := by omega
  rw [e1] at hok
  exact hok

/-- **the planned run is bounded by the request**: every segment read planned by
    `readRawDataForChannel segs p offset length` has at most `len / valuesPerChunk + 2` chunks, where `len` is
    the effective length `endIndex − offset` -/
theorem window_plan_count (segs : List Segment) (p : Bytes) (numValues : Nat)
    (hwf : WellFormed (segs.map (layoutOf p))) (hnum : numValues = total (segs.map (layoutOf p)))
    (offset : Int) (length : Option Int) (h0 : 0 ≤ offset) (hl : ∀ l, length = some l → 0 ≤ l)
    (i : Nat) (s : Segment) (hs : segs[i]? = some s)
    (hsi : (windowParams segs p numValues offset length).startSeg ≤ i)
    (hie : i ≤ (windowParams segs p numValues offset length).endSeg) (co skip nc : Int)
    (hplan : segPlan p (windowParams segs p numValues offset length).ix offset
      (windowParams segs p numValues offset length).endIndex
      (windowParams segs p numValues offset length).startSeg
      (windowParams segs p numValues offset length).endSeg i s = some (co, skip, nc)) :
    (layoutOf p s).cs ≠ 0 ∧
      nc ≤ ((windowParams segs p numValues offset length).endIndex - offset) / ((layoutOf p s).cs : Int) + 2 := by
  obtain ⟨hi, rfl⟩ := List.getElem?_eq_some_iff.mp hs
  have spec := buildIndex_spec segs p
  rw [nvOf_eq segs p hwf] at spec
  have htot : numValues = ((segs.map (layoutOf p)).map SegL.nvals).sum := by rw [hnum]; rfl
  obtain ⟨len, hlen, hend, hpos⟩ : ∃ len : Int,
      (windowParams segs p numValues offset length).endIndex = offset + len ∧
      offset + len ≤ (numValues : Int) ∧ (offset < (numValues : Int) → 0 ≤ len) := by
    cases length with
    | none => exact ⟨(numValues : Int) - offset, rfl, by omega, by omega⟩
    | some l =>
      have := hl l rfl
      exact ⟨min l ((numValues : Int) - offset), rfl, by omega, by omega⟩
  have hix : (windowParams segs p numValues offset length).ix = buildIndex segs p := by
    cases length <;> rfl
  have hss : (windowParams segs p numValues offset length).startSeg =
      (buildIndex segs p).firstSegment + searchRight (buildIndex segs p).offsets offset := by
    cases length <;> rfl
  have hes : (windowParams segs p numValues offset length).endSeg =
      (buildIndex segs p).firstSegment + searchLeft (buildIndex segs p).offsets
        (windowParams segs p numValues offset length).endIndex := by
    cases length <;> rfl
  have fr := frame_of_spec _ (buildIndex segs p) spec offset (offset + len) h0 (by rw [← htot]; exact hend)
  rw [hix, hss, hes, hlen] at hplan
  rw [hss] at hsi
  rw [hes, hlen] at hie
  rw [hlen]
  have hF : (buildIndex segs p).firstSegment + searchRight (buildIndex segs p).offsets offset ≤
        (buildIndex segs p).firstSegment + searchLeft (buildIndex segs p).offsets (offset + len) →
      (buildIndex segs p).firstSegment + searchRight (buildIndex segs p).offsets offset < segs.length →
      offset ≤ offset + len := by
    intro h1 h2
    have hB := fr.hB h1 (by simpa using h2)
    have := psum_le_sum ((segs.map (layoutOf p)).map SegL.nvals)
      ((buildIndex segs p).firstSegment + searchRight (buildIndex segs p).offsets offset + 1)
    rw [← htot] at this
    have := hpos (by omega)
    omega
  exact plan_count_core segs p _ _ rfl rfl hwf (buildIndex segs p) offset (offset + len) _ _ fr hF i hi hsi hie
    co skip nc hplan

/-! ## the planned bytes of a window in terms of the request -/

/-- values per chunk of channel `p` in segment `s` (0: the channel has no data there) -/
def valuesPerChunk (p : Bytes) (s : Segment) : Nat := (layoutOf p s).cs

/-- what a window of `n` values may cost in segment `s`: nothing when the channel has no data there, else
    `chunkSize · (n / valuesPerChunk + 2)` bytes -/
def segRequestCost (p : Bytes) (n : Nat) (s : Segment) : Nat :=
  if valuesPerChunk p s = 0 then 0 else plannedBytes s (n / valuesPerChunk p s + 2)

/-- `4 · touched segments + Σ chunkSize · (n / valuesPerChunk + 2)` -/
def requestBound (p : Bytes) (n : Nat) (segs : List Segment) : Nat :=
  4 * segs.length + (segs.map (segRequestCost p n)).sum

theorem plannedBytes_mono (s : Segment) {n m : Nat} (h : n ≤ m) : plannedBytes s n ≤ plannedBytes s m := by
  unfold plannedBytes
  split
  · exact Nat.mul_le_mul_left _ h
  · exact Nat.le_refl _

theorem windowPlanned_le_request (p : Bytes) (ix : ChannelIndex) (offset endIndex : Int) (startSeg endSeg : Nat)
    (n : Nat) (segs : List Segment) :
    ∀ (segIndex : Nat),
      (∀ k s, segs[k]? = some s → ∀ co skip nc,
        segPlan p ix offset endIndex startSeg endSeg (segIndex + k) s = some (co, skip, nc) →
        valuesPerChunk p s ≠ 0 ∧ nc.toNat ≤ n / valuesPerChunk p s + 2) →
      windowPlanned p ix offset endIndex startSeg endSeg segs segIndex ≤ requestBound p n segs := by
  induction segs with
  | nil => intro _ _; exact Nat.zero_le _
  | cons s rest ih =>
    intro segIndex h
    have ih := ih (segIndex + 1) (fun k s' hk co skip nc hp => by
      have := h (k + 1) s' (by simpa using hk) co skip nc
      have e : segIndex + (k + 1) = segIndex + 1 + k := by omega
      rw [e] at this
      exact this hp)
    unfold windowPlanned
    unfold requestBound at ih ⊢
    simp only [List.length_cons, List.map_cons, List.sum_cons]
    have h0 := h 0 s rfl
    rw [Nat.add_zero] at h0
    have : (match segPlan p ix offset endIndex startSeg endSeg segIndex s with
         | none => 0
         | some (_, _, nc) => plannedBytes s nc.toNat) ≤ segRequestCost p n s := by
      cases hp : segPlan p ix offset endIndex startSeg endSeg segIndex s with
      | none => exact Nat.zero_le _
      | some plan =>
        obtain ⟨co, skip, nc⟩ := plan
        obtain ⟨h1, h2⟩ := h0 co skip nc hp
        unfold segRequestCost
        rw [if_neg h1]
        exact plannedBytes_mono s h2
    have e : 4 * (rest.length + 1) = 4 + 4 * rest.length := by omega
    rw [e]
    calc _ ≤ 4 + segRequestCost p n s + (4 * rest.length + (rest.map (segRequestCost p n)).sum) :=
          Nat.add_le_add (Nat.add_le_add_left this 4) ih
      _ = _ := by omega

end Tdms.Proofs.C19S
