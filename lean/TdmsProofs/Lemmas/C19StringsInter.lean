import TdmsProofs.Lemmas.C19Bytes

/-!
# C19Strings: interleaved segments — the exact read and its minimality

`InterleavedDataReader.read_data_chunks` fetches ALL requested chunks with ONE read.  `TrX` is an exact
version of C19's `Tr` (the trace extension is known, not only bounded); with it
`segReadChannel file s p co (some nc)` on an interleaved segment performs exactly the read
`(dataPosition + co·chunkSize, nc·chunkSize)` (cropped at the end of the file).  The second half is
arithmetic: that range is the smallest row-aligned range containing the requested channel's values of the
planned chunks, and it exceeds the tight hull of those values by `col` bytes in front and
`width − col − size` bytes behind — less than one row.  Core Lean only.
-/

namespace Tdms.Proofs.C19S

open Tdms Tdms.Model Tdms.Generated Tdms.Proofs.C05 Tdms.Proofs.C19

/-- from a position satisfying `P`, a successful run of `m` extends the trace by EXACTLY `l` -/
def TrX {α : Type} (P : Nat → Prop) (m : F α) (l : List (Nat × Nat)) (Q : α → Nat → Prop) : Prop :=
  ∀ s, P s.pos → ∀ a s', m s = .ok (a, s') → Q a s'.pos ∧ s'.trace = s.trace ++ l

variable {α β : Type} {P : Nat → Prop}

theorem TrX.bind {m : F α} {k : α → F β} {l1 l2 l : List (Nat × Nat)} {Q : α → Nat → Prop} {R : β → Nat → Prop}
    (hm : TrX P m l1 Q) (hk : ∀ a, TrX (Q a) (k a) l2 R) (hl : l = l1 ++ l2) : TrX P (m >>= k) l R := by
  intro s hs b s'' hrun
  cases h1 : m s with
  | error e => rw [bind_run_error h1] at hrun; cases hrun
  | ok x =>
    obtain ⟨a, s'⟩ := x
    rw [bind_run_ok h1] at hrun
    obtain ⟨hq, hl1⟩ := hm s hs a s' h1
    obtain ⟨hr, hl2⟩ := hk a s' hq b s'' hrun
    exact ⟨hr, by rw [hl2, hl1, hl, List.append_assoc]⟩

theorem TrX.pure {Q : α → Nat → Prop} (a : α) (h : ∀ c, P c → Q a c) : TrX P (pure a : F α) [] Q := by
  intro s hs a' s' hrun
  have : (Except.ok (a, s) : Except Err (α × FState)) = .ok (a', s') := hrun
  injection this with this
  simp only [Prod.mk.injEq] at this
  obtain ⟨rfl, rfl⟩ := this
  exact ⟨h _ hs, by simp⟩

theorem TrX.throw {l : List (Nat × Nat)} {Q : α → Nat → Prop} (e : Err) : TrX P (throw e : F α) l Q := by
  intro s _ a' s' hrun
  have : (Except.error e : Except Err (α × FState)) = .ok (a', s') := hrun
  cases this

theorem TrX.liftE {Q : α → Nat → Prop} (x : Except Err α) (h : ∀ a c, x = .ok a → P c → Q a c) :
    TrX P (liftE x) [] Q := by
  cases x with
  | error e =>
    intro s _ a' s' hrun
    have : (Except.error e : Except Err (α × FState)) = .ok (a', s') := hrun
    cases this
  | ok a =>
    intro s hs a' s' hrun
    have : (Except.ok (a, s) : Except Err (α × FState)) = .ok (a', s') := hrun
    injection this with this
    simp only [Prod.mk.injEq] at this
    obtain ⟨rfl, rfl⟩ := this
    exact ⟨h _ _ rfl hs, by simp⟩

theorem TrX.fSeek {Q : Unit → Nat → Prop} (p : Nat) (h : Q () p) : TrX P (fSeek p) [] Q := by
  intro s _ a' s' hrun
  have : (Except.ok ((), { s with pos := p }) : Except Err (Unit × FState)) = .ok (a', s') := hrun
  injection this with this
  simp only [Prod.mk.injEq] at this
  obtain ⟨_, rfl⟩ := this
  exact ⟨h, by simp⟩

theorem TrX.fTell {Q : Nat → Nat → Prop} (h : ∀ c, P c → Q c c) : TrX P fTell [] Q := by
  intro s hs a' s' hrun
  have : (Except.ok (s.pos, s) : Except Err (Nat × FState)) = .ok (a', s') := hrun
  injection this with this
  simp only [Prod.mk.injEq] at this
  obtain ⟨rfl, rfl⟩ := this
  exact ⟨h _ hs, by simp⟩

/-- `file.read(n)` at position `c` returns `min n (length − c)` bytes -/
theorem TrX.fRead (file : Bytes) (n c : Nat) :
    TrX (fun c' => c' = c) (fRead file n) [(c, min n (file.length - c))] (fun _ _ => True) := by
  intro s hs a' s' hrun
  have : (Except.ok ((file.drop s.pos).take n,
      { pos := s.pos + ((file.drop s.pos).take n).length,
        trace := s.trace ++ [(s.pos, ((file.drop s.pos).take n).length)] }) : Except Err (Bytes × FState)) =
      .ok (a', s') := hrun
  injection this with this
  simp only [Prod.mk.injEq] at this
  obtain ⟨rfl, rfl⟩ := this
  have hs : s.pos = c := hs
  refine ⟨trivial, ?_⟩
  simp only [List.length_take, List.length_drop, hs]

theorem TrX.ite {c : Prop} [Decidable c] {a b : F α} {l : List (Nat × Nat)} {Q : α → Nat → Prop}
    (ha : c → TrX P a l Q) (hb : ¬ c → TrX P b l Q) : TrX P (if c then a else b) l Q := by
  split
  · exact ha ‹_›
  · exact hb ‹_›

theorem TrX.of_forall_pos {m : F α} {l : List (Nat × Nat)} {Q : α → Nat → Prop}
    (h : ∀ c, P c → TrX (fun c' => c' = c) m l Q) : TrX P m l Q := by
  intro s hs
  exact h s.pos hs s rfl

theorem TrX.post {m : F α} {l : List (Nat × Nat)} {Q Q' : α → Nat → Prop} {P' : Nat → Prop}
    (h : TrX P m l Q) (hP : ∀ c, P' c → P c) (hQ : ∀ a c, Q a c → Q' a c) : TrX P' m l Q' := by
  intro s hs a s' hm
  obtain ⟨hq, hl⟩ := h s (hP _ hs) a s' hm
  exact ⟨hQ _ _ hq, hl⟩

/-! ## the one read of an interleaved segment -/

/-- all data objects declare the same number of values per chunk (`readInterleavedChunks` raises otherwise) -/
def SameLengths (d : List SegObj) : Prop := (d.any fun o => o.numberValues ≠ nv0 d) = false

instance (d : List SegObj) : Decidable (SameLengths d) := by unfold SameLengths; infer_instance

/-- the read `readInterleavedChunks` performs at position `c` -/
def interleavedRead (file : Bytes) (d : List SegObj) (n c : Nat) : List (Nat × Nat) :=
  if d = [] then [] else [(c, min (interleavedWidth d * (nv0 d * n)) (file.length - c))]

theorem trx_readRows (file : Bytes) (w n c : Nat) :
    TrX (fun c' => c' = c) (readRows file w n) [(c, min (w * n) (file.length - c))] (fun _ _ => True) := by
  unfold readRows
  refine TrX.bind (l2 := []) (TrX.fRead file (w * n) c) (fun b => ?_) (by simp)
  dsimp only
  refine TrX.ite (fun _ => ?_) (fun _ => TrX.pure _ (fun _ _ => trivial))
  rw [throw_bind_F]
  exact TrX.throw _

theorem trx_readInterleavedChunks (file : Bytes) (s : Segment) (d : List SegObj) (n c : Nat) :
    TrX (fun c' => c' = c) (readInterleavedChunks file s d n) (interleavedRead file d n c)
      (fun _ _ => SameLengths d) := by
  unfold readInterleavedChunks interleavedRead
  cases d with
  | nil => exact TrX.pure _ (fun _ _ => by simp [SameLengths])
  | cons o0 tail =>
    rw [if_neg (by simp)]
    dsimp only
    refine TrX.ite (fun _ => ?_) (fun hany => ?_)
    · rw [throw_bind_F]; exact TrX.throw _
    · have hsame : SameLengths (o0 :: tail) := by
        unfold SameLengths nv0
        simp only [List.head?_cons, Option.map_some, Option.getD_some]
        cases h : ((o0 :: tail).any fun o => o.numberValues ≠ o0.numberValues) with
        | true =>
          exfalso
          apply hany
          simpa using h
        | false => exact h
      split
      · rename_i w hw
        have hw' := foldl_width _ _ 0 w rfl hw
        rw [Nat.zero_add] at hw'
        rw [pure_bind]
        have hnv : nv0 (o0 :: tail) = o0.numberValues := rfl
        rw [hnv, ← hw']
        refine TrX.bind (l2 := []) (Q := fun _ _ => True) (trx_readRows file w (o0.numberValues * n) c)
          (fun rows => ?_) (by simp)
        split
        · exact TrX.pure _ (fun _ _ => hsame)
        · exact TrX.throw _
      · rw [throw_bind_F]; exact TrX.throw _

theorem trx_segReadBody_interleaved (file : Bytes) (s : Segment) (p : Bytes)
    (hk : dataReaderKind s = .ok .interleaved) (co : Nat) (nc : Int) (pre : List ChanChunk) (cs : Nat) :
    TrX (fun c => c = s.dataPosition + cs * co) (segReadBody file s p co (nc + co) pre cs)
      (interleavedRead file (C19.dataObjs s) nc.toNat (s.dataPosition + cs * co))
      (fun _ _ => SameLengths (C19.dataObjs s)) := by
  have hstop : (nc + (co : Int) - (co : Int)).toNat = nc.toNat := by
    congr 1; omega
  unfold segReadBody
  dsimp only
  refine TrX.bind (l1 := []) (Q := fun kind c => dataReaderKind s = .ok kind ∧ c = s.dataPosition + cs * co)
    (TrX.liftE _ (fun a c ha hc => ⟨ha, hc⟩)) (fun kind => ?_) rfl
  refine TrX.bind (l1 := [])
    (Q := fun initial c => dataReaderKind s = .ok kind ∧ c = s.dataPosition + cs * co)
    (TrX.fTell (fun c hc => ⟨hc.1, hc.2⟩)) (fun initial => ?_) rfl
  apply TrX.of_forall_pos
  rintro c ⟨hkind, hc⟩
  subst hc
  rw [hk] at hkind
  injection hkind with hkind
  subst hkind
  dsimp only
  rw [hstop]
  refine TrX.ite (fun _ => ?_) (fun _ => ?_)
  · rw [throw_bind_F]; exact TrX.throw _
  · refine TrX.bind (l2 := []) (Q := fun _ _ => SameLengths (C19.dataObjs s))
      (trx_readInterleavedChunks file s (C19.dataObjs s) nc.toNat (s.dataPosition + cs * co)) (fun chunks => ?_) (List.append_nil _).symm
    refine TrX.ite (fun _ => ?_) (fun _ => TrX.pure _ (fun _ h => h))
    refine TrX.bind (l1 := []) (l2 := []) (Q := fun _ _ => SameLengths (C19.dataObjs s)) ?_
      (fun _ => TrX.pure _ (fun _ h => h)) rfl
    intro st hst a st' hrun
    have : (Except.ok ((), { st with pos := _ }) : Except Err (Unit × FState)) = .ok (a, st') := hrun
    injection this with this
    simp only [Prod.mk.injEq] at this
    obtain ⟨_, rfl⟩ := this
    exact ⟨hst, by simp⟩

/-- **the exact read of an interleaved segment read** -/
theorem trx_segReadChannel_interleaved (file : Bytes) (s : Segment) (p : Bytes)
    (hk : dataReaderKind s = .ok .interleaved) (cs : Nat) (hcs : chunkSize s.objects = .ok cs) (co : Nat) (nc : Int) :
    TrX (fun _ => True) (segReadChannel file s p co (some nc))
      (interleavedRead file (C19.dataObjs s) nc.toNat (s.dataPosition + cs * co))
      (fun _ _ => SameLengths (C19.dataObjs s)) := by
  rw [segReadChannel_eq]
  refine TrX.bind (l1 := []) (Q := fun _ c => c = s.dataPosition) (TrX.fSeek _ rfl) (fun _ => ?_) rfl
  refine TrX.bind (l1 := []) (Q := fun cs' c => cs' = cs ∧ c = s.dataPosition)
    (TrX.liftE _ (fun a c ha hc => ⟨by rw [hcs] at ha; injection ha with ha; exact ha.symm, hc⟩)) (fun cs' => ?_) rfl
  apply TrX.of_forall_pos
  rintro c ⟨rfl, hc⟩
  subst hc
  refine TrX.bind (l1 := []) (Q := fun _ c => c = s.dataPosition + cs' * co) ?_
    (fun _ => trx_segReadBody_interleaved file s p hk co nc _ cs') rfl
  refine TrX.ite (fun hco => ?_) (fun hco => TrX.pure _ (fun c hc => ?_))
  · refine TrX.bind (l1 := []) (l2 := []) (Q := fun cur _ => cur = s.dataPosition) (TrX.fTell (fun c hc => hc))
      (fun cur => ?_) rfl
    apply TrX.of_forall_pos
    intro c hc
    subst hc
    exact TrX.fSeek _ rfl
  · have : co = 0 := by omega
    subst this
    rw [hc]; simp

/-- with consistent sizes `width · (rows per chunk · chunks) = chunks · chunkSize` -/
theorem interleaved_bytes_eq (s : Segment) (hwf : SegWF s) (hk : dataReaderKind s = .ok .interleaved)
    (cs : Nat) (hcs : chunkSize s.objects = .ok cs) (hsame : SameLengths (C19.dataObjs s)) :
    cs = interleavedWidth (C19.dataObjs s) * nv0 (C19.dataObjs s) := by
  rcases kind_cases s _ hk with ⟨h, _⟩ | ⟨_, hd, hi⟩ | ⟨h, _⟩
  · cases h
  · have hnv := any_ne_false hsame
    have hsz := interleaved_sized s (C19.dataObjs s) hi
    have hb := chunkSize_not_daqmx s cs hcs hd
    rw [interleaved_chunk_bytes (C19.dataObjs s) (nv0 (C19.dataObjs s)) hnv
      (fun o ho => by obtain ⟨sz, h⟩ := hsz o ho; exact ⟨sz, h, hwf.dataSize_eq o ho sz h⟩)] at hb
    exact hb
  · cases h

/-! ## the column of a channel, and minimality of the read range -/

/-- `(column offset, value size)` of the first data object with path `p` in a row of an interleaved
    segment (`interleavedColumns` assigns the columns in this order) -/
def columnOf (p : Bytes) : List SegObj → Nat → Option (Nat × Nat)
  | [], _ => none
  | o :: os, col =>
    if o.path = p then some (col, (o.dataType.bind typeSize).getD 0)
    else columnOf p os (col + (o.dataType.bind typeSize).getD 0)

theorem columnOf_within (p : Bytes) (d : List SegObj) (c col sz : Nat) (h : columnOf p d c = some (col, sz)) :
    c ≤ col ∧ col + sz ≤ c + interleavedWidth d := by
  induction d generalizing c with
  | nil => cases h
  | cons o os ih =>
    unfold columnOf at h
    simp only [interleavedWidth, List.map_cons, List.sum_cons]
    split at h
    · injection h with h
      simp only [Prod.mk.injEq] at h
      obtain ⟨rfl, rfl⟩ := h
      omega
    · have := ih _ h
      simp only [interleavedWidth] at this
      omega

/-- value `r` of a column `(col, sz)` lies inside the read of `rows` rows of `w` bytes from `start` -/
theorem column_value_inside (start w rows col sz r : Nat) (hcol : col + sz ≤ w) (hr : r < rows) :
    start ≤ start + r * w + col ∧ start + r * w + col + sz ≤ start + rows * w := by
  have : (r + 1) * w ≤ rows * w := Nat.mul_le_mul_right _ hr
  rw [Nat.add_mul, Nat.one_mul] at this
  omega

/-- **minimality**: a range `[lo, hi)` that contains the values of the column `(col, sz)` in rows
    `0 … rows−1` starts at or before `start + col` and ends at or after `end − (w − col − sz)`: the read
    `[start, start + rows·w)` exceeds it by at most `col` bytes in front and `w − col − sz` behind -/
theorem column_hull (start w rows col sz lo hi : Nat) (hrows : 0 < rows)
    (hcover : ∀ r, r < rows → lo ≤ start + r * w + col ∧ start + r * w + col + sz ≤ hi) :
    lo ≤ start + col ∧ start + rows * w ≤ hi + (w - (col + sz)) := by
  have h0 := hcover 0 hrows
  have hl := hcover (rows - 1) (by omega)
  have e : rows * w = (rows - 1) * w + w := by
    have : rows = (rows - 1) + 1 := by omega
    conv => lhs; rw [this, Nat.add_mul, Nat.one_mul]
  refine ⟨by simpa using h0.1, ?_⟩
  rw [e]
  omega

/-- a ROW-ALIGNED range that contains the column's values contains the whole read -/
theorem column_hull_aligned (start w rows col sz a b : Nat) (hrows : 0 < rows) (hsz : 0 < sz) (hcol : col + sz ≤ w)
    (hcover : ∀ r, r < rows → start + a * w ≤ start + r * w + col ∧ start + r * w + col + sz ≤ start + b * w) :
    a = 0 ∧ rows ≤ b := by
  obtain ⟨h1, h2⟩ := column_hull start w rows col sz _ _ hrows hcover
  have hw : 0 < w := by omega
  constructor
  · cases a with
    | zero => rfl
    | succ a =>
      exfalso
      have : w ≤ (a + 1) * w := Nat.le_mul_of_pos_left w (by omega)
      omega
  · rcases Nat.lt_or_ge b rows with hb | hb
    · exfalso
      have : (b + 1) * w ≤ rows * w := Nat.mul_le_mul_right _ hb
      rw [Nat.add_mul, Nat.one_mul] at this
      omega
    · exact hb

end Tdms.Proofs.C19S
