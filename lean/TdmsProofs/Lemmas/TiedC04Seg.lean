import TdmsProofs.Properties.C06Tied
import Tdms.Model.Lazy
set_option linter.unusedSimpArgs false

/-!
# `TdmsSegment.read_raw_data_for_channel` (segment level): seek position and stop chunk

The generated definition (file object = its position `f`, `_read_channel_data_chunks` a parameter) and the
model's `segReadChannel` both factor through the same three quantities: whether an empty chunk is yielded
first, the position the file is left at before the chunks are read (`segSeekPos`), and `stop_chunk`
(`segStop`).
-/

namespace Tdms.Proofs.Tied

open Tdms Tdms.Model Tdms.Generated Tdms.Generated.Code

/-- position of the file when `_read_channel_data_chunks` starts -/
def segSeekPos (s : Segment) (chunkSz chunkOffset : Nat) : Nat :=
  if chunkOffset > 0 then s.dataPosition + chunkSz * chunkOffset else s.dataPosition

/-- `stop_chunk` -/
def segStop (s : Segment) (chunkOffset : Nat) (numChunks : Option Int) : Int :=
  match numChunks with
  | none => s.numChunks
  | some n => n + chunkOffset

/-- the part of `segReadChannel` after the seeks: `_read_channel_data_chunks` -/
def segReadTail (file : Bytes) (s : Segment) (p : Bytes) (chunkSz chunkOffset : Nat) (stop : Int) :
    F (List ChanChunk) := do
  let d := s.objects.filter (·.hasData)
  let kind ← liftE (dataReaderKind s)
  let initial ← fTell
  match kind with
  | .interleaved =>
    let n := stop - chunkOffset
    if n < 0 then throw .other
    let cs ← readInterleavedChunks file s d n.toNat
    let out := cs.map fun c => RawChunk.get c p
    if !out.isEmpty then fSeek (initial + chunkSz)
    pure out
  | k =>
    readChannelChunksFrom file s k d p chunkSz initial chunkOffset stop (stop - chunkOffset).toNat 0

private theorem inter_aux (c : Prop) [Decidable c] (X : F (List RawChunk)) (pre : List ChanChunk)
    (g : RawChunk → ChanChunk) (q : Nat) (σ : FState) :
    ((if c then StateT.bind (throw Err.other) fun (_ : PUnit) => StateT.bind X fun l =>
          if l = [] then StateT.pure (pre ++ l.map g) else StateT.bind (fSeek q) fun _ => StateT.pure (pre ++ l.map g)
      else StateT.bind X fun l =>
          if l = [] then StateT.pure (pre ++ l.map g) else StateT.bind (fSeek q) fun _ => StateT.pure (pre ++ l.map g)) σ
        : Except Err (List ChanChunk × FState)) =
    match ((if c then StateT.bind (throw Err.other) fun (_ : PUnit) => StateT.bind X fun l =>
          if l = [] then StateT.pure (l.map g) else StateT.bind (fSeek q) fun _ => StateT.pure (l.map g)
      else StateT.bind X fun l =>
          if l = [] then StateT.pure (l.map g) else StateT.bind (fSeek q) fun _ => StateT.pure (l.map g)) σ
        : Except Err (List ChanChunk × FState)) with
    | .ok (out, σ') => .ok (pre ++ out, σ')
    | .error e => .error e := by
  by_cases hc : c
  · simp only [hc, if_true]
    rfl
  · simp only [hc, if_false, StateT.bind]
    cases X σ with
    | error e => rfl
    | ok v =>
      obtain ⟨l, σ'⟩ := v
      by_cases hl : l = []
      · subst hl; rfl
      · simp only [bind, Except.bind, hl, ↓reduceIte]; rfl

private theorem match_pair_reorder {α σ β : Type} (x : Except Err (α × σ)) (g : α → σ → β) :
    (match x with
      | .error err => (Except.error err : Except Err β)
      | .ok v => .ok (g v.fst v.snd)) =
    (match x with
      | .ok (a, b) => .ok (g a b)
      | .error e => .error e) := by
  cases x with
  | error e => rfl
  | ok v => cases v; rfl

theorem seg_read_model (file : Bytes) (s : Segment) (p : Bytes) (co : Nat) (nc : Option Int) (σ : FState) :
    (segReadChannel file s p co nc).run σ =
      match chunkSize s.objects with
      | .error e => .error e
      | .ok cs =>
        match (segReadTail file s p cs co (segStop s co nc)).run { σ with pos := segSeekPos s cs co } with
        | .ok (out, σ') => .ok ((if !hasFlag s.toc kTocRawData then [({} : ChanChunk)] else []) ++ out, σ')
        | .error e => .error e := by
  unfold segReadChannel segReadTail segSeekPos segStop
  cases hcs : chunkSize s.objects with
  | error e => simp [StateT.run, bind, StateT.bind, Except.bind, fSeek, liftE, hcs]
  | ok cs =>
    cases hk : dataReaderKind s with
    | error e =>
      by_cases hco : co > 0 <;>
        simp [StateT.run, bind, StateT.bind, Except.bind, fSeek, fTell, liftE, hcs, hk, hco, pure, StateT.pure, Except.pure]
    | ok kind =>
      cases nc <;> by_cases hco : co > 0 <;> cases kind <;>
        simp [StateT.run, bind, StateT.bind, Except.bind, fSeek, fTell, liftE, hcs, hk, hco, pure, StateT.pure, Except.pure]
      all_goals first
        | done
        | (split <;> simp_all; done)
        | exact inter_aux _ _ _ _ _ _

/-- a loop that only yields every element is the identity -/
theorem forP_yield_all {α : Type} (xs : List α) (f : α → List α → Py.Step (List α))
    (hf : ∀ x out, f x out = .next (out ++ [x])) (out : List α) : Py.forP xs out f = out ++ xs := by
  induction xs generalizing out with
  | nil => simp
  | cons x xs ih => rw [Py.forP_cons, hf]; simp [ih]

theorem seg_read_generated {Chunk : Type} (empty : Chunk)
    (rc : Int → Py.Path → Int → Int → Int → List Chunk) (s : Segment) (f0 : Int) (p : Bytes) (co : Nat)
    (nc : Option Int) (hcons : DaqConsistent s.objects) :
    Agrees (fun (cs : Nat) =>
        ((if hasFlag s.toc kTocRawData then [] else [empty]) ++
            rc (segSeekPos s cs co : Nat) p (co : Int) (segStop s co nc) (cs : Int),
          pySegC s (some (cs : Int)) (haveDaqmxObjects s.objects).toOption))
      (chunkSize s.objects)
      (TdmsSegment.read_raw_data_for_channel empty rc (pySeg s) f0 p (co : Int) nc) := by
  have h := C06Tied._get_chunk_size_all_tied s hcons
  unfold Agrees at h ⊢
  unfold TdmsSegment.read_raw_data_for_channel
  cases hcs : chunkSize s.objects with
  | error e =>
    rw [hcs] at h
    obtain ⟨x, hx, hmem⟩ := h
    refine ⟨x, ?_, hmem⟩
    simp [hx, bind, Except.bind]
  | ok cs =>
    rw [hcs] at h
    simp only [] at h
    simp only [h, bind, Except.bind, pure, Except.pure]
    rw [forP_yield_all _ _ (by intro x out; rfl)]
    have hflag : (Py.band (pySeg s).toc_mask toc_properties_kTocRawData ≠ 0) ↔ hasFlag s.toc kTocRawData = true := by
      have := Py.band_two_pow_ne_zero s.toc 3
      have e1 : hasFlag s.toc kTocRawData = decide ((s.toc / 2 ^ 3) % 2 = 1) := rfl
      rw [e1, decide_eq_true_eq, ← this]
      rfl
    have hpos : (if (co : Int) > 0 then (pySeg s).data_position + (cs : Int) * (co : Int) else (pySeg s).data_position)
        = ((segSeekPos s cs co : Nat) : Int) := by
      unfold segSeekPos
      by_cases hco : co > 0
      · have : (co : Int) > 0 := by omega
        simp only [hco, this, if_true, pySeg, pySegC]; push_cast; rfl
      · have : ¬ ((co : Int) > 0) := by omega
        simp only [hco, this, if_false, pySeg, pySegC]
    rw [hpos]
    unfold segStop
    by_cases hf : hasFlag s.toc kTocRawData = true
    · have := hflag.mpr hf
      cases nc <;> simp [hf, this, pySegC]
    · have : ¬ (Py.band (pySeg s).toc_mask toc_properties_kTocRawData ≠ 0) := fun h => hf (hflag.mp h)
      cases nc <;> simp [hf, this, pySegC]

end Tdms.Proofs.Tied
