/-
  C03 (mixed files, windows) — the window loop over a supplier that may coalesce chunks.

  `SupEquiv segs p vals sup`: for every planned read whose chunk run satisfies `TrimOk` (chunk by chunk
  and coalesced), `trimStream` on what `sup` returns keeps the same values and leaves the same
  `values_read` as on C04's chunk-by-chunk supplier `supOf vals`.  Under it the pure window over `sup`
  carries the same values as the pure window over `supOf vals` (`windowPureG_supEquiv`), to which C04's
  window theorem applies.  Core Lean only.
-/
import TdmsProofs.Lemmas.C03MixedStep
import TdmsProofs.Lemmas.C04WindowMain

namespace Tdms.Proofs.C03

open Tdms Tdms.Model Tdms.Proofs.C04

/-- what the window loop knows about a visited segment `i` (positions relative to the segment start):
    exactly the hypotheses of C04's `seg_step` -/
theorem visited_hyps (nv : List Nat) (ix : ChannelIndex) (offset endIndex : Int) (startSeg endSeg : Nat)
    (fr : Frame nv ix offset endIndex startSeg endSeg)
    (hF : startSeg ≤ endSeg → startSeg < nv.length → offset ≤ endIndex)
    (i : Nat) (hsi : startSeg ≤ i) (hie : i ≤ endSeg) (hinv : i < nv.length) :
    (i = startSeg → 0 ≤ offset - ((psum nv i : Nat) : Int) ∧ offset - ((psum nv i : Nat) : Int) < (nv[i] : Nat)) ∧
    (i ≠ startSeg → offset - ((psum nv i : Nat) : Int) < 0) ∧
    (i = endSeg → endIndex - ((psum nv i : Nat) : Int) ≤ (nv[i] : Nat) ∧
      offset - ((psum nv i : Nat) : Int) ≤ endIndex - ((psum nv i : Nat) : Int) ∧
      (i ≠ startSeg → 0 < endIndex - ((psum nv i : Nat) : Int))) ∧
    (i ≠ endSeg → ((nv[i] : Nat) : Int) ≤ endIndex - ((psum nv i : Nat) : Int)) := by
  have hps := psum_succ nv i hinv
  have hBi : i = startSeg → offset < ((psum nv (i + 1) : Nat) : Int) := by
    intro h; subst h; exact fr.hB (by omega) hinv
  have hstart : i ≠ startSeg → offset < ((psum nv i : Nat) : Int) := by
    intro hne
    have h1 := fr.hB (by omega) (by omega)
    have h2 := psum_mono nv (show startSeg + 1 ≤ i by omega)
    omega
  refine ⟨?_, ?_, ?_, ?_⟩
  · intro h
    have h1 := hBi h
    have h2 := fr.hA
    rw [← h] at h2
    omega
  · intro h
    have := hstart h
    omega
  · intro h
    have hC := fr.hC
    rw [← h] at hC
    refine ⟨by omega, ?_, ?_⟩
    · by_cases hs : i = startSeg
      · have := hF (by omega) (by omega); omega
      · have := hstart hs
        have := fr.hD (by omega)
        rw [← h] at this
        omega
    · intro hs
      have := fr.hD (by omega)
      rw [← h] at this
      omega
  · intro h
    have h1 := fr.hD (by omega)
    have h2 := psum_mono nv (show i + 1 ≤ endSeg by omega)
    omega

/-- `sup` is as good as the chunk-by-chunk supplier `supOf vals` wherever the planned run may be
    trimmed (`TrimOk` chunk by chunk and coalesced) -/
def SupEquiv (segs : List Segment) (p : Bytes) (vals : Vals) (sup : Supplier) : Prop :=
  ∀ i s, segs[i]? = some s → (layoutOf p s).cs ≠ 0 → ∀ (co : Nat) (nc : Int) (skip : Nat) (len vr : Int),
    0 ≤ nc → co + nc.toNat ≤ s.numChunks →
    TrimOk len ((List.range' co nc.toNat).map (vals i)) skip vr →
    TrimOk len [((List.range' co nc.toNat).map (vals i)).flatten] skip vr →
    dataOf (trimStream len (sup i co nc) skip vr).1 = dataOf (trimStream len (supOf vals i co nc) skip vr).1 ∧
    (trimStream len (sup i co nc) skip vr).2 = (trimStream len (supOf vals i co nc) skip vr).2

/-- the loop over the segments `i, …, endSeg`, started with the `values_read` the loop has at `i` -/
theorem loop_supEquiv (segs : List Segment) (p : Bytes) (vals : Vals) (L : List SegL) (nv : List Nat)
    (hL : L = segs.map (layoutOf p)) (hnv : nv = L.map SegL.nvals)
    (hwf : WellFormed L) (hvals : ValsOk L vals)
    (ix : ChannelIndex) (offset endIndex : Int) (startSeg endSeg : Nat)
    (fr : Frame nv ix offset endIndex startSeg endSeg)
    (hF : startSeg ≤ endSeg → startSeg < segs.length → offset ≤ endIndex)
    (sup : Supplier) (hsup : SupEquiv segs p vals sup) :
    ∀ cnt i vr, i + cnt = endSeg + 1 → startSeg ≤ i →
      vr = (if i = startSeg then 0 else ((psum nv i : Nat) : Int) - offset) →
      dataOf (windowLoopPure sup p ix offset endIndex (endIndex - offset) startSeg endSeg
        ((segs.drop i).take cnt) i vr)
      = dataOf (windowLoopPure (supOf vals) p ix offset endIndex (endIndex - offset) startSeg endSeg
        ((segs.drop i).take cnt) i vr) := by
  have hLlen : L.length = segs.length := by rw [hL]; simp
  have hnvlen : nv.length = segs.length := by rw [hnv, List.length_map, hLlen]
  intro cnt
  induction cnt with
  | zero => intro i vr _ _ _; simp [windowLoopPure]
  | succ cnt ih =>
    intro i vr hcnt hsi hvr
    rcases Nat.lt_or_ge i segs.length with hi | hi
    · have hiL : i < L.length := by omega
      have hinv : i < nv.length := by omega
      have hLi : L[i] = layoutOf p segs[i] := by subst hL; simp
      have hnvi : nv[i] = L[i].nvals := by subst hnv; simp
      have hps := psum_succ nv i hinv
      rw [hnvi] at hps
      have hs : segs[i]? = some segs[i] := List.getElem?_eq_getElem hi
      rw [List.drop_eq_getElem_cons hi, List.take_succ_cons]
      simp only [windowLoopPure]
      rw [segPlan_eq_planA]
      have hwfi : L[i].WF := hwf _ (List.getElem_mem hiL)
      have hvi : ChunksOk L[i] (vals i) := hvals i L[i] (List.getElem?_eq_getElem hiL)
      obtain ⟨hE1, hE2⟩ := fr.hE i hsi (by omega) hinv
      rw [hE1, hE2]
      obtain ⟨v1, v2, v3, v4⟩ := visited_hyps nv ix offset endIndex startSeg endSeg fr
        (by rw [hnvlen]; exact hF) i hsi (by omega) hinv
      rw [hnvi] at v1 v3 v4
      by_cases hcs : L[i].cs = 0
      · have hnone : ∀ a b c d, planA (layoutOf p segs[i]) a b c d = none := by
          intro a b c d; unfold planA; rw [← hLi, if_pos hcs]
        have hnz : L[i].nvals = 0 := by unfold SegL.nvals; rw [if_pos hcs]
        rw [hnone]
        simp only []
        have hps' : psum nv (i + 1) = psum nv i := by omega
        have hne : i ≠ startSeg := by
          intro h
          have := (v1 h).2
          rw [hnz] at this
          have := (v1 h).1
          omega
        exact ih (i + 1) vr (by omega) (by omega) (by rw [if_neg (by omega), hps']; rw [if_neg hne] at hvr; exact hvr)
      · have hcs' : 0 < L[i].cs := by omega
        have hvr' : vr = if decide (i = startSeg) = true then 0 else -(offset - ((psum nv i : Nat) : Int)) := by
          by_cases h : i = startSeg
          · simp only [h, if_true, decide_true] at hvr ⊢; exact hvr
          · simp only [h, if_false, decide_false] at hvr ⊢
            rw [hvr]; simp; omega
        have a1 : decide (i = startSeg) = true → 0 ≤ offset - ((psum nv i : Nat) : Int) ∧
            offset - ((psum nv i : Nat) : Int) < (L[i].nvals : Nat) := fun h => v1 (by simpa using h)
        have a2 : decide (i = startSeg) = false → offset - ((psum nv i : Nat) : Int) < 0 :=
          fun h => v2 (by simpa using h)
        have a3 : decide (i = endSeg) = true → endIndex - ((psum nv i : Nat) : Int) ≤ (L[i].nvals : Nat) ∧
            offset - ((psum nv i : Nat) : Int) ≤ endIndex - ((psum nv i : Nat) : Int) ∧
            (decide (i = startSeg) = false → 0 < endIndex - ((psum nv i : Nat) : Int)) := fun h => by
          obtain ⟨x, y, z⟩ := v3 (by simpa using h)
          exact ⟨x, y, fun h' => z (by simpa using h')⟩
        have a4 : decide (i = endSeg) = false → ((L[i].nvals : Nat) : Int) ≤ endIndex - ((psum nv i : Nat) : Int) :=
          fun h => v4 (by simpa using h)
        obtain ⟨co, skip, nc, hplan, _, hvrend⟩ := seg_step L[i] (vals i) hwfi hcs' hvi
          (decide (i = startSeg)) (decide (i = endSeg))
          (offset - ((psum nv i : Nat) : Int)) (endIndex - ((psum nv i : Nat) : Int)) vr a1 a2 hvr' a3 a4
        obtain ⟨co', skip', nc', hplan', hco0, hnc0, hin, ht1, ht2⟩ := seg_step_trimOk L[i] (vals i) hwfi hcs' hvi
          (decide (i = startSeg)) (decide (i = endSeg))
          (offset - ((psum nv i : Nat) : Int)) (endIndex - ((psum nv i : Nat) : Int)) vr a1 a2 hvr' a3 a4
        rw [hplan] at hplan'
        simp only [Option.some.injEq, Prod.mk.injEq] at hplan'
        obtain ⟨rfl, rfl, rfl⟩ := hplan'
        have harg : ((psum nv (i + 1) : Nat) : Int) - endIndex
            = (L[i].nvals : Int) - (endIndex - ((psum nv i : Nat) : Int)) := by omega
        rw [← hLi, harg, hplan]
        simp only []
        have hlen : endIndex - offset = endIndex - ((psum nv i : Nat) : Int) - (offset - ((psum nv i : Nat) : Int)) := by
          omega
        rw [← hlen] at ht1 ht2 hvrend
        obtain ⟨e1, e2⟩ := hsup i segs[i] hs (by rw [← hLi]; exact hcs) co.toNat nc skip.toNat (endIndex - offset) vr
          hnc0 (by have : L[i].k = segs[i].numChunks := by rw [hLi]; rfl
                   omega) ht1 ht2
        rw [dataOf_append, dataOf_append, e1, e2]
        congr 1
        rcases Nat.eq_zero_or_pos cnt with hc0 | hc0
        · subst hc0
          simp [windowLoopPure]
        · have hnotend : i ≠ endSeg := by omega
          have hv2 := hvrend (by simpa using hnotend)
          rw [supOf_eq_wrap]
          exact ih (i + 1) _ (by omega) (by omega)
            (by rw [if_neg (by omega), hv2, hps]; simp only [Int.natCast_add]; omega)
    · rw [List.drop_eq_nil_of_le hi]
      simp [windowLoopPure]

/-- **the window over a coalescing supplier**: under `SupEquiv`, the pure window computed from `sup`
    carries the same values as the pure window computed from the chunk-by-chunk supplier -/
theorem windowPureG_supEquiv (segs : List Segment) (p : Bytes) (vals : Vals) (numValues : Nat)
    (hwf : WellFormed (segs.map (layoutOf p))) (hvals : ValsOk (segs.map (layoutOf p)) vals)
    (hnum : numValues = total (segs.map (layoutOf p)))
    (sup : Supplier) (hsup : SupEquiv segs p vals sup)
    (offset : Int) (length : Option Int) (h0 : 0 ≤ offset) (hl : ∀ l, length = some l → 0 ≤ l) :
    dataOf (windowPureG segs p numValues sup offset length)
      = dataOf (windowPureG segs p numValues (supOf vals) offset length) := by
  have spec := buildIndex_spec segs p
  rw [nvOf_eq segs p hwf] at spec
  have htot : numValues = ((segs.map (layoutOf p)).map SegL.nvals).sum := by rw [hnum]; rfl
  -- the common part, for a window `[offset, offset + len)`
  have core : ∀ len : Int, offset + len ≤ (numValues : Int) → (offset < (numValues : Int) → 0 ≤ len) →
      let ix := buildIndex segs p
      let startSeg := ix.firstSegment + searchRight ix.offsets offset
      let endSeg := ix.firstSegment + searchLeft ix.offsets (offset + len)
      dataOf (windowLoopPure sup p ix offset (offset + len) len startSeg endSeg
        ((segs.drop startSeg).take (endSeg + 1 - startSeg)) startSeg 0)
      = dataOf (windowLoopPure (supOf vals) p ix offset (offset + len) len startSeg endSeg
        ((segs.drop startSeg).take (endSeg + 1 - startSeg)) startSeg 0) := by
    intro len hend hpos ix startSeg endSeg
    have fr := frame_of_spec _ ix spec offset (offset + len) h0 (by rw [← htot]; exact hend)
    have hF : startSeg ≤ endSeg → startSeg < segs.length → offset ≤ offset + len := by
      intro h1 h2
      have hB := fr.hB h1 (by simpa using h2)
      have := psum_le_sum ((segs.map (layoutOf p)).map SegL.nvals)
        (ix.firstSegment + searchRight ix.offsets offset + 1)
      rw [← htot] at this
      have := hpos (by omega)
      omega
    rcases Nat.lt_or_ge endSeg startSeg with hlt | hge
    · have hc : endSeg + 1 - startSeg = 0 := by omega
      rw [hc]
      simp [windowLoopPure]
    · have hlen : len = offset + len - offset := by omega
      have := loop_supEquiv segs p vals _ _ rfl rfl hwf hvals ix offset (offset + len) startSeg endSeg fr hF sup hsup
        (endSeg + 1 - startSeg) startSeg 0 (by omega) (Nat.le_refl _) (by simp)
      rw [← hlen] at this
      exact this
  unfold windowPureG windowParams
  cases length with
  | none =>
    simp only []
    exact core _ (by omega) (by omega)
  | some l =>
    have := hl l rfl
    simp only []
    exact core _ (by omega) (by omega)

/-- **plan facts for every window**: each planned segment read has a non-negative chunk offset and chunk
    count and stays inside its segment (the interleaved reader raises on a negative count) -/
theorem plan_nonneg (segs : List Segment) (p : Bytes) (numValues : Nat)
    (hwf : WellFormed (segs.map (layoutOf p))) (hnum : numValues = total (segs.map (layoutOf p)))
    (offset : Int) (length : Option Int) (h0 : 0 ≤ offset) (hl : ∀ l, length = some l → 0 ≤ l) :
    let w := windowParams segs p numValues offset length
    ∀ i s, segs[i]? = some s → w.startSeg ≤ i → i ≤ w.endSeg → ∀ co skip nc,
      segPlan p w.ix offset w.endIndex w.startSeg w.endSeg i s = some (co, skip, nc) →
      0 ≤ co ∧ 0 ≤ nc ∧ co.toNat + nc.toNat ≤ s.numChunks := by
  intro w i s hs h1 h2 co skip nc hplan
  have spec := buildIndex_spec segs p
  rw [nvOf_eq segs p hwf] at spec
  have htot : numValues = ((segs.map (layoutOf p)).map SegL.nvals).sum := by rw [hnum]; rfl
  have hlen0 : offset < (numValues : Int) → offset ≤ w.endIndex := by
    intro hlt
    show offset ≤ offset + _
    cases length with
    | none => simp only []; omega
    | some l => have := hl l rfl; simp only []; omega
  have hend : w.endIndex ≤ ((((segs.map (layoutOf p)).map SegL.nvals).sum : Nat) : Int) := by
    rw [← htot]
    show offset + _ ≤ _
    cases length with
    | none => simp only []; omega
    | some l => simp only []; omega
  have fr : Frame _ w.ix offset w.endIndex w.startSeg w.endSeg := frame_of_spec _ w.ix spec offset w.endIndex h0 hend
  have hi : i < segs.length := by
    rcases Nat.lt_or_ge i segs.length with h | h
    · exact h
    · rw [List.getElem?_eq_none h] at hs; cases hs
  have hsi : segs[i] = s := by
    rw [List.getElem?_eq_getElem hi] at hs; exact Option.some.inj hs
  have hinv : i < ((segs.map (layoutOf p)).map SegL.nvals).length := by simpa using hi
  have hF : w.startSeg ≤ w.endSeg → w.startSeg < ((segs.map (layoutOf p)).map SegL.nvals).length →
      offset ≤ w.endIndex := by
    intro h1' h2'
    have hB := fr.hB h1' h2'
    have := psum_le_sum ((segs.map (layoutOf p)).map SegL.nvals) (w.startSeg + 1)
    rw [← htot] at this
    exact hlen0 (by omega)
  obtain ⟨hE1, hE2⟩ := fr.hE i h1 h2 hinv
  obtain ⟨v1, v2, v3, v4⟩ := visited_hyps _ w.ix offset w.endIndex w.startSeg w.endSeg fr hF i h1 h2 hinv
  have hps := psum_succ _ i hinv
  have hnvi : ((segs.map (layoutOf p)).map SegL.nvals)[i] = (layoutOf p s).nvals := by simp [hsi]
  rw [hnvi] at hps v1 v3 v4
  rw [segPlan_eq_planA, hE1, hE2] at hplan
  have hlwf : (layoutOf p s).WF := hwf _ (List.mem_map_of_mem (by rw [← hsi]; exact List.getElem_mem hi))
  have hcs : (layoutOf p s).cs ≠ 0 := by
    intro hz; unfold planA at hplan; rw [if_pos hz] at hplan; cases hplan
  generalize hnv : (segs.map (layoutOf p)).map SegL.nvals = nv at *
  obtain ⟨co', skip', nc', hplan', hco0, hnc0, hin, _, _⟩ := seg_step_trimOk (layoutOf p s)
    (fun j => List.replicate ((layoutOf p s).chunkLen j) []) hlwf (by omega) (fun j _ => by simp)
    (decide (i = w.startSeg)) (decide (i = w.endSeg))
    (offset - ((psum nv i : Nat) : Int)) (w.endIndex - ((psum nv i : Nat) : Int))
    (if decide (i = w.startSeg) = true then 0 else -(offset - ((psum nv i : Nat) : Int)))
    (fun h => v1 (by simpa using h)) (fun h => v2 (by simpa using h)) rfl
    (fun h => by
      obtain ⟨x, y, z⟩ := v3 (by simpa using h)
      exact ⟨x, y, fun h' => z (by simpa using h')⟩)
    (fun h => v4 (by simpa using h))
  have harg : ((psum nv (i + 1) : Nat) : Int) - w.endIndex
      = ((layoutOf p s).nvals : Int) - (w.endIndex - ((psum nv i : Nat) : Int)) := by omega
  rw [harg, hplan'] at hplan
  simp only [Option.some.injEq, Prod.mk.injEq] at hplan
  obtain ⟨rfl, rfl, rfl⟩ := hplan
  exact ⟨hco0, hnc0, hin⟩

end Tdms.Proofs.C03
