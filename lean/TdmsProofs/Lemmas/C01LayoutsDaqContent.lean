/-
  C01 with DAQmx segments: the metadata block of a segment that lists DAQmx indexes (parser round trip),
  the view `mOCD` of the spec's `Content` as the reader's `object_metadata` (data type, properties, scaler
  types; the value count is carried by a function `N` of the path), and one segment of `denoteSeg` against the
  reader's `updateObjectMetadata` / `updateObjectProperties`.  Core Lean only.
-/
import TdmsProofs.Lemmas.C01LayoutsDaqSpec

namespace Tdms.Proofs.C01Layouts

open Tdms Tdms.Generated Tdms.Model Tdms.Proofs.C02 Tdms.Proofs.C01Multi
open Tdms.Proofs.Bytes (canonProp)

/-! ## the parser on `encMeta`, all four header kinds -/

theorem parseOne_encObjD (e : Endian) (o : ObjEnc) (rest : Bytes) (hwf : wfObj o = true) (hf : ObjFitsD o) :
    parseOne e (encObj e o ++ rest) = .ok (itemOf o, rest) := by
  simp only [wfObj, Bool.and_eq_true, decide_eq_true_eq, List.all_eq_true] at hwf
  obtain ⟨⟨hidx, hprops⟩, hpath⟩ := hwf
  have h1 := Bytes.readString_encString e o.path
    (encIdx e o.idx ++ (enc e 4 o.props.length ++ (o.props.flatMap (encProp e) ++ rest))) hpath
  have h2 := readHdr_encIdx e o.path (enc e 4 o.props.length ++ (o.props.flatMap (encProp e) ++ rest)) o.idx
    hidx hf.idx
  obtain ⟨header, s2, h2a, h2b⟩ := C02.P_bind_eq_ok h2
  have h3 := Bytes.uN_enc_of_lt e (w := 4) hf.nProps (o.props.flatMap (encProp e) ++ rest)
  have h4 := Bytes.readProperties_encProps e o.props rest hprops hf.props
  unfold parseOne encObj
  simp only [List.append_assoc]
  rw [C02.P_bind_ok h1, C02.P_bind_ok h2a, C02.P_bind_ok h2b, C02.P_bind_ok h3, C02.P_bind_ok h4]
  rfl

theorem parseObjs_encObjsD (e : Endian) (objs : List ObjEnc) (rest : Bytes)
    (hwf : ∀ o ∈ objs, wfObj o = true) (hf : ∀ o ∈ objs, ObjFitsD o) :
    parseObjs e objs.length (objs.flatMap (encObj e) ++ rest) = .ok (objs.map itemOf, rest) := by
  induction objs with
  | nil => rfl
  | cons o os ih =>
    simp only [List.length_cons, List.flatMap_cons, List.append_assoc, parseObjs, List.map_cons]
    rw [C02.P_bind_ok (parseOne_encObjD e o _ (hwf o List.mem_cons_self) (hf o List.mem_cons_self)),
      C02.P_bind_ok (ih (fun q hq => hwf q (List.mem_cons_of_mem _ hq))
        (fun q hq => hf q (List.mem_cons_of_mem _ hq)))]
    rfl

theorem parseMeta_encMetaD (e : Endian) (objs : List ObjEnc) (rest : Bytes) (hlen : objs.length < 2 ^ 32)
    (hwf : ∀ o ∈ objs, wfObj o = true) (hf : ∀ o ∈ objs, ObjFitsD o) :
    (do let n ← uN e 4; parseObjs e n : P (List Item)) (encMeta e objs ++ rest) =
      .ok (objs.map itemOf, rest) := by
  unfold encMeta
  rw [List.append_assoc, C02.P_bind_ok (Bytes.uN_enc_of_lt e (w := 4) hlen _)]
  exact parseObjs_encObjsD e objs rest hwf hf

/-! ## the view -/

/-- a content entry as an `object_metadata` entry: the scaler types of a DAQmx raw-data channel are those
    of the file (`F`), the number of values is `N path` -/
def mOCD (F : ScF) (N : Bytes → Nat) (oc : ObjContent) : ObjMeta :=
  { path := oc.path, props := oc.props.map canonProp, dataType := oc.ty,
    scalerTypes := if oc.ty = some tyDaqmxRaw then F oc.path else none, numValues := N oc.path }

theorem get_map_mOCD (F : ScF) (N : Bytes → Nat) (c : Content) (p : Bytes) :
    ObjMetas.get (c.map (mOCD F N)) p = (c.find? (·.path = p)).map (mOCD F N) := by
  unfold ObjMetas.get
  rw [List.find?_map]
  rfl

/-- every content entry either has no type yet or the type of the most recent index of its path -/
def TyCons (last : LastIdx) (c : Content) : Prop :=
  ∀ oc ∈ c, oc.ty = none ∨ oc.ty = (last.get oc.path).map (·.ty)

/-! ## phase 1: `updateObjectMetadata` against `declareObjs` -/

/-- the function `declareObjs` applies for one active object -/
def declFD (a : ActiveObj) (o : ObjContent) : ObjContent :=
  { o with ty := (a.idx.map (·.ty)).orElse fun _ => o.ty,
           scalers := match a.idx with
             | some (.daq _ ty _ scalers _) =>
               if ty = tyDaqmxRaw then scalers.foldl (fun l s => appendScaler l s.scaleId []) o.scalers else o.scalers
             | _ => o.scalers }

theorem declareObjs_cons (c : Content) (a : ActiveObj) (as : List ActiveObj) :
    declareObjs c (a :: as) = declareObjs (c.modify a.path (declFD a)) as := rfl

/-- the scaler types the reader's object carries -/
def scT (a : ActiveObj) : Option (List (Nat × Nat)) :=
  match a.idx with
  | some (.daq dg _ _ sc _) => some (scTypesOf dg sc)
  | _ => none

theorem concObj_scT (a : ActiveObj) : (concObj a).scalerTypes = scT a := by
  unfold concObj SegObj.scalerTypes scT scTypesOf
  cases hi : a.idx with
  | none => rfl
  | some d => cases d <;> rfl

theorem stepMetas_concD (seg : Segment) (hov : seg.override = none) (ms : ObjMetas) (a : ActiveObj) :
    stepMetas seg ms (concObj a) = ms.modify a.path fun m =>
      { m with numValues := m.numValues + perObj a * seg.numChunks, dataType := a.idx.map (·.ty),
               scalerTypes := if (scT a).isSome then scT a else m.scalerTypes } := by
  unfold stepMetas
  rw [concObj_path, numberOfSegmentValues_conc a seg hov, concObj_dataType, concObj_scT]

theorem goodD_ty {F : ScF} {p : Bytes} {d : IdxDesc} (h : GoodDescD GoodDesc F p d) :
    (∃ ty n total, d = .std ty n total ∧ ty ≠ tyDaqmxRaw) ∨
    (∃ dg n sc w, d = .daq dg tyDaqmxRaw n sc w ∧ F p = some (scTypesOf dg sc)) := by
  cases d with
  | std ty n total =>
    left
    exact ⟨ty, n, total, rfl, goodDesc_ty_ne_raw (d := .std ty n total) h⟩
  | daq dg ty n sc w =>
    right
    have h' : DaqDescOK F p dg ty n sc w := h
    have hty := h'.raw
    subst hty
    exact ⟨dg, n, sc, w, rfl, h'.types⟩

/-- one object: the view of the declared entry is the reader's update of the view -/
theorem view_decl (F : ScF) (N N' : Bytes → Nat) (k : Nat) (a : ActiveObj) (oc : ObjContent)
    (hp : oc.path = a.path) (hN : N' a.path = N a.path + perObj a * k)
    (hc : oc.ty = none ∨ oc.ty = a.idx.map (·.ty))
    (hg : ∀ d, a.idx = some d → GoodDescD GoodDesc F a.path d) :
    mOCD F N' (declFD a oc) =
      { mOCD F N oc with numValues := (mOCD F N oc).numValues + perObj a * k, dataType := a.idx.map (·.ty),
                         scalerTypes := if (scT a).isSome then scT a else (mOCD F N oc).scalerTypes } := by
  have hdt : ((a.idx.map (·.ty)).orElse fun _ => oc.ty) = a.idx.map (·.ty) := by
    cases hi : a.idx with
    | none =>
      rcases hc with h | h
      · simp [h]
      · rw [hi] at h; simp [h]
    | some d => rfl
  have hpath : (declFD a oc).path = a.path := hp
  simp only [mOCD, hpath, hp, hN]
  have hty : (declFD a oc).ty = a.idx.map (·.ty) := hdt
  have hprops : (declFD a oc).props = oc.props := rfl
  rw [hty, hprops]
  congr 1
  cases hi : a.idx with
  | none =>
    have : oc.ty = none := by
      rcases hc with h | h
      · exact h
      · rw [hi] at h; exact h
    simp [scT, hi, this]
  | some d =>
    rcases goodD_ty (hg d hi) with ⟨ty, n, total, rfl, hne⟩ | ⟨dg, n, sc, w, rfl, hF⟩
    · have hoc : oc.ty ≠ some tyDaqmxRaw := by
        rcases hc with h | h
        · rw [h]; simp
        · rw [h, hi]; simpa [IdxDesc.ty] using hne
      simp [scT, hi, IdxDesc.ty, hne, hoc]
    · simp [scT, hi, IdxDesc.ty, hF]

/-- **`updateObjectMetadata` on the concretised active list** either raises `typeChanged` or yields the view
    of the declared content, with the segment's values added to the counts -/
theorem uom_simD (seg : Segment) (hov : seg.override = none) (F : ScF) (last' : LastIdx) :
    ∀ (act : List ActiveObj) (c : Content) (N : Bytes → Nat) (prev : PrevObjs),
      (∀ a ∈ act, a.idx = last'.get a.path) →
      (∀ a ∈ act, ∀ d, a.idx = some d → GoodDescD GoodDesc F a.path d) → TyCons last' c →
      (∀ p, c.any (fun o => decide (o.path = p)) = false → N p = 0) →
      match updateObjectMetadata seg (act.map concObj) prev (c.map (mOCD F N)) with
      | .ok (_, ms') => ms' = (declareObjs c act).map (mOCD F fun p => N p + cntOf act p * seg.numChunks)
      | .error e => e = .typeChanged := by
  intro act
  induction act with
  | nil => intro c N prev _ _ _ _; simp [updateObjectMetadata, declareObjs, cntOf_nil]
  | cons a as ih =>
    intro c N prev hidx hgood htc hN0
    rw [List.map_cons, uom_cons]
    by_cases htcl : ((dtOf (c.map (mOCD F N)) (concObj a).path).isSome &&
        decide (dtOf (c.map (mOCD F N)) (concObj a).path ≠ (concObj a).dataType)) = true
    · rw [if_pos htcl]
    · rw [if_neg htcl]
      have hclash : scalerClash (c.map (mOCD F N)) (concObj a) = false := by
        unfold scalerClash
        rw [concObj_scT, concObj_path, get_map_mOCD]
        cases hi : a.idx with
        | none => simp [scT, hi]
        | some d =>
          rcases goodD_ty (hgood a List.mem_cons_self d hi) with ⟨ty, n, total, rfl, _⟩ | ⟨dg, n, sc, w, rfl, hF⟩
          · simp [scT, hi]
          · cases hf : c.find? (·.path = a.path) with
            | none => simp [scT, hi]
            | some oc =>
              have hop : oc.path = a.path := by simpa using List.find?_some hf
              by_cases hr : oc.ty = some tyDaqmxRaw
              · simp [scT, hi, mOCD, hr, hop, hF]
              · simp [scT, hi, mOCD, hr]
      rw [hclash]
      simp only [Bool.false_eq_true, if_false]
      rw [stepMetas_concD seg hov _ a, declareObjs_cons]
      have hcons : ∀ oc ∈ c, oc.path = a.path → oc.ty = none ∨ oc.ty = a.idx.map (·.ty) := by
        intro oc hoc hp
        rw [hidx a List.mem_cons_self, ← hp]
        exact htc oc hoc
      have hstep := modify_sim c a.path (declFD a)
        (fun m => { m with numValues := m.numValues + perObj a * seg.numChunks, dataType := a.idx.map (·.ty),
                           scalerTypes := if (scT a).isSome then scT a else m.scalerTypes })
        (mOCD F N) (mOCD F fun p => N p + (if a.path = p then perObj a else 0) * seg.numChunks)
        (fun _ => rfl)
        (by
          intro oc _ hne
          have : ¬ a.path = oc.path := fun e => hne e.symm
          simp [mOCD, this])
        (by
          intro oc hmem hp
          exact view_decl F N _ seg.numChunks a oc hp (by simp) (hcons oc hmem hp)
            (hgood a List.mem_cons_self))
        (by
          intro hn
          have := view_decl F N (fun p => N p + (if a.path = p then perObj a else 0) * seg.numChunks)
            seg.numChunks a (dflt a.path) rfl (by simp) (Or.inl rfl) (hgood a List.mem_cons_self)
          rw [this]
          simp [mOCD, dflt, hN0 a.path hn])
      rw [hstep]
      have := ih (c.modify a.path (declFD a))
        (fun p => N p + (if a.path = p then perObj a else 0) * seg.numChunks) (prev.set (concObj a).path (concObj a))
        (fun x hx => hidx x (List.mem_cons_of_mem _ hx))
        (fun x hx => hgood x (List.mem_cons_of_mem _ hx))
        (by
          intro oc hoc
          have hdecl : ∀ y : ObjContent, y.path = a.path → (y.ty = none ∨ y.ty = a.idx.map (·.ty)) →
              (declFD a y).ty = none ∨ (declFD a y).ty = (last'.get a.path).map (·.ty) := by
            intro y _ hy
            rw [← hidx a List.mem_cons_self]
            show ((a.idx.map (·.ty)).orElse fun _ => y.ty) = none ∨ _
            cases hi : a.idx with
            | none =>
              rcases hy with h | h
              · left; simp [h]
              · rw [hi] at h; left; simp [h]
            | some d => right; simp [declFD, hi]
          rcases mem_modify hoc with ⟨h1, _⟩ | ⟨y, hy, hyp, rfl⟩ | rfl
          · exact htc oc h1
          · have := hdecl y hyp (hcons y hy hyp)
            rwa [show (declFD a y).path = a.path from hyp]
          · have := hdecl (dflt a.path) rfl (Or.inl rfl)
            exact this)
        (by
          intro p hp
          rw [modify_any (declFD a) (fun _ => rfl)] at hp
          simp only [Bool.or_eq_false_iff, decide_eq_false_iff_not] at hp
          have : ¬ a.path = p := fun e => hp.2 e.symm
          simp [hN0 p hp.1, this])
      revert this
      cases updateObjectMetadata seg (as.map concObj) (prev.set (concObj a).path (concObj a))
        ((c.modify a.path (declFD a)).map
          (mOCD F fun p => N p + (if a.path = p then perObj a else 0) * seg.numChunks)) with
      | error e => exact id
      | ok r =>
        intro h
        simp only [] at h ⊢
        rw [h]
        congr 1
        funext oc
        simp only [mOCD, cntOf_cons, Nat.add_mul, Nat.add_assoc]

theorem tyCons_declareObjs (last' : LastIdx) : ∀ (act : List ActiveObj) (c : Content),
    (∀ a ∈ act, a.idx = last'.get a.path) → TyCons last' c → TyCons last' (declareObjs c act) := by
  intro act
  induction act with
  | nil => intro c _ h; exact h
  | cons a as ih =>
    intro c hidx htc
    rw [declareObjs_cons]
    apply ih _ (fun x hx => hidx x (List.mem_cons_of_mem _ hx))
    intro oc hoc
    have hdecl : ∀ y : ObjContent, y.path = a.path → (y.ty = none ∨ y.ty = (last'.get a.path).map (·.ty)) →
        (declFD a y).ty = none ∨ (declFD a y).ty = (last'.get a.path).map (·.ty) := by
      intro y _ hy
      rw [← hidx a List.mem_cons_self] at hy ⊢
      show ((a.idx.map (·.ty)).orElse fun _ => y.ty) = none ∨ _
      cases hi : a.idx with
      | none =>
        rcases hy with h | h
        · left; simp [h]
        · rw [hi] at h; left; simp [h]
      | some d => right; simp [declFD, hi]
    rcases mem_modify hoc with ⟨h1, _⟩ | ⟨y, hy, hyp, rfl⟩ | rfl
    · exact htc oc h1
    · have := hdecl y hyp (by rw [← hyp]; exact htc y hy)
      rwa [show (declFD a y).path = a.path from hyp]
    · exact hdecl (dflt a.path) rfl (Or.inl rfl)

/-! ## phase 2: properties -/

theorem props_simD (F : ScF) (N : Bytes → Nat) : ∀ (objs : List ObjEnc) (c : Content),
    (∀ o ∈ objs, c.any (fun x => decide (x.path = o.path)) = true) →
    updateObjectProperties (c.map (mOCD F N))
      ((objs.filter fun o => !o.props.isEmpty).map fun o => (o.path, o.props.map canonProp)) =
    (applyProps c objs).map (mOCD F N) := by
  intro objs
  induction objs with
  | nil => intro c _; rfl
  | cons o os ih =>
    intro c hpres
    have hpo := hpres o List.mem_cons_self
    have hpres' : ∀ o' ∈ os, (c.modify o.path fun x => { x with props := o.props.foldl setProp x.props }).any
        (fun x => decide (x.path = o'.path)) = true := by
      intro o' ho'
      exact modify_present_mono _ _ _ _ (fun _ => rfl) (hpres o' (List.mem_cons_of_mem _ ho'))
    rw [applyProps]
    by_cases hp : o.props = []
    · have hid : (c.modify o.path fun x => { x with props := o.props.foldl setProp x.props }) = c := by
        apply modify_id_of_present _ _ _ _ hpo
        intro x _
        rw [hp]
        rfl
      rw [hid] at hpres' ⊢
      simp only [List.filter_cons, hp, List.isEmpty_nil, Bool.not_true, Bool.false_eq_true, if_false]
      exact ih c hpres'
    · have hemp : o.props.isEmpty = false := by
        cases h : o.props with
        | nil => exact absurd h hp
        | cons a as => rfl
      simp only [List.filter_cons, hemp, Bool.not_false, if_true, List.map_cons, updateObjectProperties]
      rw [modify_sim c o.path (fun x => { x with props := o.props.foldl setProp x.props })
        (fun m => { m with props := (o.props.map canonProp).foldl setPropVal m.props }) (mOCD F N) (mOCD F N)
        (fun _ => rfl) (fun _ _ _ => rfl)
        (by
          intro oc _ _
          simp only [mOCD, C01Compose.foldl_setProp_canon])
        (by intro hn; rw [hn] at hpo; cases hpo)]
      exact ih _ hpres'

theorem tyCons_applyProps (last' : LastIdx) : ∀ (os : List ObjEnc) (c : Content),
    (∀ o ∈ os, c.any (fun x => decide (x.path = o.path)) = true) → TyCons last' c →
    TyCons last' (applyProps c os) := by
  intro os
  induction os with
  | nil => intro c _ h; exact h
  | cons o os ih =>
    intro c hpres htc
    rw [applyProps]
    apply ih
    · intro o' ho'
      exact modify_present_mono _ _ _ _ (fun _ => rfl) (hpres o' (List.mem_cons_of_mem _ ho'))
    · rw [modify_present _ (hpres o List.mem_cons_self)]
      intro oc hoc
      obtain ⟨y, hy, rfl⟩ := List.mem_map.mp hoc
      have := htc y hy
      split <;> exact this

/-! ## phase 3: the chunks do not change the view -/

/-- a modification that keeps path, type and properties -/
def ViewPres (f : ObjContent → ObjContent) : Prop :=
  ∀ oc, (f oc).path = oc.path ∧ (f oc).ty = oc.ty ∧ (f oc).props = oc.props

theorem viewPres_mOCD {f : ObjContent → ObjContent} (h : ViewPres f) (F : ScF) (N : Bytes → Nat)
    (oc : ObjContent) : mOCD F N (f oc) = mOCD F N oc := by
  obtain ⟨h1, h2, h3⟩ := h oc
  simp [mOCD, h1, h2, h3]

/-- contents with the same view, entry by entry -/
def SameView (c c' : Content) : Prop :=
  c'.map (fun oc => (oc.path, oc.ty, oc.props)) = c.map (fun oc => (oc.path, oc.ty, oc.props))

theorem SameView.refl (c : Content) : SameView c c := rfl

theorem SameView.trans {c1 c2 c3 : Content} (h1 : SameView c1 c2) (h2 : SameView c2 c3) : SameView c1 c3 :=
  Eq.trans h2 h1

theorem SameView.map_mOCD {c c' : Content} (h : SameView c c') (F : ScF) (N : Bytes → Nat) :
    c'.map (mOCD F N) = c.map (mOCD F N) := by
  have hf : mOCD F N = (fun t : Bytes × Option Nat × List PropEnc =>
      ({ path := t.1, props := t.2.2.map canonProp, dataType := t.2.1,
         scalerTypes := if t.2.1 = some tyDaqmxRaw then F t.1 else none, numValues := N t.1 } : ObjMeta)) ∘
      (fun oc : ObjContent => (oc.path, oc.ty, oc.props)) := by
    funext oc; rfl
  rw [hf, ← List.map_map, ← List.map_map, h]

theorem SameView.any_path {c c' : Content} (h : SameView c c') (q : Bytes) :
    c'.any (fun o => decide (o.path = q)) = c.any (fun o => decide (o.path = q)) := by
  have hf : (fun o : ObjContent => decide (o.path = q)) =
      (fun t : Bytes × Option Nat × List PropEnc => decide (t.1 = q)) ∘ (fun oc => (oc.path, oc.ty, oc.props)) := by
    funext o; rfl
  rw [hf, ← List.any_map, ← List.any_map, h]

theorem SameView.paths {c c' : Content} (h : SameView c c') : c'.map (·.path) = c.map (·.path) := by
  have := congrArg (List.map (fun t : Bytes × Option Nat × List PropEnc => t.1)) h
  simpa [List.map_map, Function.comp_def] using this

theorem SameView.tyCons {c c' : Content} (h : SameView c c') {last : LastIdx} (ht : TyCons last c) :
    TyCons last c' := by
  intro oc hoc
  have hm : (oc.path, oc.ty, oc.props) ∈ c'.map (fun oc => (oc.path, oc.ty, oc.props)) :=
    List.mem_map.2 ⟨oc, hoc, rfl⟩
  rw [h] at hm
  obtain ⟨y, hy, he⟩ := List.mem_map.mp hm
  simp only [Prod.mk.injEq] at he
  have := ht y hy
  rw [he.1, he.2.1] at this
  exact this

theorem sameView_modify {c : Content} {p : Bytes} {f : ObjContent → ObjContent} (hf : ViewPres f)
    (hp : c.any (fun o => decide (o.path = p)) = true) : SameView c (c.modify p f) := by
  rw [modify_present _ hp]
  unfold SameView
  rw [List.map_map]
  apply List.map_congr_left
  intro oc _
  simp only [Function.comp]
  split
  · obtain ⟨h1, h2, h3⟩ := hf oc
    rw [h1, h2, h3]
  · rfl

theorem sameView_addStdChunk : ∀ (d : List ActiveObj) (ch : List (List Bytes)) (c : Content),
    (∀ a ∈ d, c.any (fun o => decide (o.path = a.path)) = true) → SameView c (addStdChunk c d ch) := by
  intro d
  induction d with
  | nil => intro ch c _; cases ch <;> exact SameView.refl c
  | cons a as ih =>
    intro ch c hpres
    cases ch with
    | nil => exact SameView.refl c
    | cons v vs =>
      rw [addStdChunk]
      have h1 : SameView c (c.modify a.path fun o => { o with values := o.values ++ v }) :=
        sameView_modify (fun _ => ⟨rfl, rfl, rfl⟩) (hpres a List.mem_cons_self)
      refine h1.trans (ih vs _ ?_)
      intro x hx
      rw [h1.any_path]
      exact hpres x (List.mem_cons_of_mem _ hx)

theorem sameView_addDaqmxObj (e : Endian) (bufs : List (List Bytes)) (c : Content) (a : ActiveObj)
    (hp : c.any (fun o => decide (o.path = a.path)) = true) : SameView c (addDaqmxObj e bufs c a) := by
  unfold addDaqmxObj
  cases hi : a.idx with
  | none => exact SameView.refl c
  | some d =>
    cases d with
    | std ty n total => exact SameView.refl c
    | daq dg ty n sc w =>
      simp only []
      suffices h : ∀ (scs : List ScalerEnc) (c' : Content), SameView c c' →
          SameView c (scs.foldl (fun c s =>
            c.modify a.path fun o =>
              if ty = tyDaqmxRaw then
                { o with scalers := appendScaler o.scalers s.scaleId ((bufs.getD s.buffer []).map (scalerValue e dg s)) }
              else { o with values := o.values ++ (bufs.getD s.buffer []).map (scalerValue e dg s) }) c') from
        h sc c (SameView.refl c)
      intro scs
      induction scs with
      | nil => intro c' h; exact h
      | cons s ss ih =>
        intro c' h
        rw [List.foldl_cons]
        apply ih
        refine h.trans (sameView_modify ?_ (by rw [h.any_path]; exact hp))
        intro oc
        split <;> exact ⟨rfl, rfl, rfl⟩

theorem sameView_addChunk (s : SegEnc) (a : List ActiveObj) (c : Content) (ch : List (List Bytes))
    (hpres : ∀ x ∈ a, c.any (fun o => decide (o.path = x.path)) = true) : SameView c (addChunk s a c ch) := by
  have hmem : ∀ x ∈ dataObjs a, x ∈ a := fun x hx => (List.mem_filter.mp hx).1
  unfold addChunk
  simp only []
  split
  · suffices h : ∀ (d : List ActiveObj) (c' : Content), (∀ x ∈ d, x ∈ a) → SameView c c' →
        SameView c (d.foldl (addDaqmxObj s.endian ch) c') from h _ c hmem (SameView.refl c)
    intro d
    induction d with
    | nil => intro c' _ h; exact h
    | cons x xs ih =>
      intro c' hd h
      rw [List.foldl_cons]
      apply ih _ (fun y hy => hd y (List.mem_cons_of_mem _ hy))
      exact h.trans (sameView_addDaqmxObj _ _ _ _ (by rw [h.any_path]; exact hpres x (hd x List.mem_cons_self)))
  · exact sameView_addStdChunk _ _ _ (fun x hx => hpres x (hmem x hx))

theorem sameView_chunks (s : SegEnc) (a : List ActiveObj) : ∀ (chs : List (List (List Bytes))) (c : Content),
    (∀ x ∈ a, c.any (fun o => decide (o.path = x.path)) = true) → SameView c (chs.foldl (addChunk s a) c) := by
  intro chs
  induction chs with
  | nil => intro c _; exact SameView.refl c
  | cons ch chs ih =>
    intro c hpres
    rw [List.foldl_cons]
    have h1 := sameView_addChunk s a c ch hpres
    exact h1.trans (ih _ (fun x hx => by rw [h1.any_path]; exact hpres x hx))

/-! ## one segment -/

/-- **one segment, metadata**: from the view of the declared content (what `updateObjectMetadata` yields) the
    reader's property update gives the view of `denoteSeg c s a` -/
theorem segment_metasD (F : ScF) (N : Bytes → Nat) (s : SegEnc) (a : List ActiveObj) (c : Content)
    (hlisted : s.hasMeta = true → ∀ o ∈ s.objs, o.path ∈ a.map (·.path))
    (hnoMeta : s.hasMeta = false → s.objs = []) :
    updateObjectProperties ((declareObjs c a).map (mOCD F N)) (propsDict s) =
      (denoteSeg c s a).map (mOCD F N) := by
  have hpresA : ∀ x ∈ a, (declareObjs c a).any (fun o => decide (o.path = x.path)) = true :=
    fun x hx => declareObjs_present a c x.path (Or.inr (List.mem_map.2 ⟨x, hx, rfl⟩))
  unfold denoteSeg
  simp only []
  by_cases hm : s.hasMeta = true
  · simp only [hm, if_true]
    rw [propsDict, props_simD F N s.objs (declareObjs c a)
      (fun o ho => declareObjs_present a c o.path (Or.inr (hlisted hm o ho)))]
    exact ((sameView_chunks s a s.chunks _
      (fun x hx => applyProps_present _ _ _ (hpresA x hx))).map_mOCD F N).symm
  · have hm' : s.hasMeta = false := by simpa using hm
    simp only [hm', Bool.false_eq_true, if_false]
    rw [propsDict, hnoMeta hm']
    simp only [List.filter_nil, List.map_nil, updateObjectProperties]
    exact ((sameView_chunks s a s.chunks _ hpresA).map_mOCD F N).symm

theorem tyCons_denoteSeg (last' : LastIdx) (s : SegEnc) (a : List ActiveObj) (c : Content)
    (hidx : ∀ x ∈ a, x.idx = last'.get x.path)
    (hlisted : s.hasMeta = true → ∀ o ∈ s.objs, o.path ∈ a.map (·.path))
    (htc : TyCons last' c) : TyCons last' (denoteSeg c s a) := by
  have hpresA : ∀ x ∈ a, (declareObjs c a).any (fun o => decide (o.path = x.path)) = true :=
    fun x hx => declareObjs_present a c x.path (Or.inr (List.mem_map.2 ⟨x, hx, rfl⟩))
  have h1 := tyCons_declareObjs last' a c hidx htc
  unfold denoteSeg
  simp only []
  by_cases hm : s.hasMeta = true
  · simp only [hm, if_true]
    exact (sameView_chunks s a s.chunks _ (fun x hx => applyProps_present _ _ _ (hpresA x hx))).tyCons
      (tyCons_applyProps last' _ _ (fun o ho => declareObjs_present a c o.path (Or.inr (hlisted hm o ho))) h1)
  · have hm' : s.hasMeta = false := by simpa using hm
    simp only [hm', Bool.false_eq_true, if_false]
    exact (sameView_chunks s a s.chunks _ hpresA).tyCons h1

/-- paths stay pairwise distinct through a segment -/
theorem denoteSeg_nodupD (c : Content) (s : SegEnc) (a : List ActiveObj) (h : (c.map (·.path)).Nodup) :
    ((denoteSeg c s a).map (·.path)).Nodup := by
  have hpresA : ∀ x ∈ a, (declareObjs c a).any (fun o => decide (o.path = x.path)) = true :=
    fun x hx => declareObjs_present a c x.path (Or.inr (List.mem_map.2 ⟨x, hx, rfl⟩))
  have h1 := declareObjs_nodup a c h
  unfold denoteSeg
  simp only []
  split
  · have h2 := applyProps_nodup s.objs _ h1
    rw [(sameView_chunks s a s.chunks _ (fun x hx => applyProps_present _ _ _ (hpresA x hx))).paths]
    exact h2
  · rw [(sameView_chunks s a s.chunks _ hpresA).paths]
    exact h1

end Tdms.Proofs.C01Layouts
