/-
  C03 — the file-level chunk iterator on files that mix contiguous and INTERLEAVED segments:
  `FileIter` yields exactly the chunks of the eager stream.  For an interleaved segment no hypothesis
  on the bytes is needed beyond the success of the read (both paths make the same call).
  Core Lean only.
-/
import TdmsProofs.Lemmas.C03FileIter

namespace Tdms.Proofs.C03

open Tdms Tdms.Generated Tdms.Model Tdms.Proofs.Bytes Tdms.Proofs.C04

/-- the result of the one read an interleaved segment is served by -/
def interRead (file : Bytes) (s : Segment) : Except Err (List RawChunk × Nat) :=
  runAt (readInterleavedChunks file s (dataObjs s) s.numChunks) s.dataPosition

/-- the chunks of the segment after the optional empty one, for both layouts -/
def segChunksG (file : Bytes) (s : Segment) : List RawChunk :=
  match dataReaderKind s with
  | .ok .interleaved =>
    match interRead file s with
    | .ok (cs, _) => cs
    | .error _ => []
  | _ => (List.range s.numChunks).map (eagerChunk file s (segCsz s))

/-- what the file iterator needs of a segment: the tag, and either exact contiguous chunks or an
    interleaved segment whose read succeeds -/
structure SegFOk (file : Bytes) (s : Segment) : Prop where
  tag : (file.drop s.position).take 4 = tagData
  data : ContigOk file s (segCsz s) ∨
    (dataReaderKind s = .ok .interleaved ∧ (∃ c, chunkSize s.objects = .ok c) ∧ ∃ r, interRead file s = .ok r)

def SegsFOk (file : Bytes) (segs : List Segment) : Prop := ∀ s ∈ segs, SegFOk file s

theorem SegOk.toF {file : Bytes} {s : Segment} (h : SegOk file s) : SegFOk file s := ⟨h.tag, Or.inl h.contig⟩

theorem SegsOk.toF {file : Bytes} {segs : List Segment} (h : SegsOk file segs) : SegsFOk file segs :=
  fun s hs => (h s hs).toF

theorem segChunksG_contig {file : Bytes} {s : Segment} (h : ContigOk file s (segCsz s)) :
    segChunksG file s = (List.range s.numChunks).map (eagerChunk file s (segCsz s)) := by
  unfold segChunksG; rw [h.kind]

theorem verifySegmentStart_okF {file : Bytes} {s : Segment} (h : SegFOk file s) (st : FState) :
    ∃ st', verifySegmentStart file s st = .ok ((), st') := by
  refine ⟨⟨s.position + 4, st.trace ++ [(s.position, 4)]⟩, ?_⟩
  unfold verifySegmentStart
  rw [F_bind_ok (fSeek_run _ _)]
  have hread : fRead file 4 ⟨s.position, st.trace⟩ = .ok (tagData, ⟨s.position + 4, st.trace ++ [(s.position, 4)]⟩) := by
    simp [fRead, h.tag, tagData]
  rw [F_bind_ok hread]
  simp [F_pure]

/-- the interleaved read, from any trace -/
theorem interRead_run {file : Bytes} {s : Segment} {cs : List RawChunk} {pos' : Nat}
    (h : interRead file s = .ok (cs, pos')) (tr : List (Nat × Nat)) :
    ∃ tr', readInterleavedChunks file s (s.objects.filter (·.hasData)) s.numChunks ⟨s.dataPosition, tr⟩ = .ok (cs, ⟨pos', tr'⟩) :=
  (posDet_readInterleavedChunks file s _ s.numChunks).run_ok h tr

/-- the eager reader on a segment of either layout -/
theorem segmentReadRawData_G (file : Bytes) (s : Segment) (h : SegFOk file s) (st : FState) :
    ∃ st', segmentReadRawData file s st =
      .ok ((if !hasFlag s.toc kTocRawData then [([] : RawChunk)] else []) ++ segChunksG file s, st') := by
  rcases h.data with hc | ⟨hk, _, r, hr⟩
  · obtain ⟨st', h1⟩ := segmentReadRawData_exact file s (segCsz s) hc st
    refine ⟨st', ?_⟩
    rw [h1, segChunksG_contig hc]
    rfl
  · obtain ⟨cs, pos'⟩ := r
    obtain ⟨tr', h1⟩ := interRead_run hr st.trace
    refine ⟨⟨pos', tr'⟩, ?_⟩
    unfold segmentReadRawData
    rw [F_bind_ok (fSeek_run _ _), hk, F_bind_ok (liftE_ok _ _)]
    simp only []
    rw [F_bind_ok h1]
    simp only [F_pure, segChunksG, hk, hr]

/-- all chunks the eager reader yields for the file -/
def eagerChunksAllG (file : Bytes) (segs : List Segment) : List RawChunk :=
  segs.flatMap fun s => (if !hasFlag s.toc kTocRawData then [([] : RawChunk)] else []) ++ segChunksG file s

theorem readRawDataAll_G (file : Bytes) : ∀ (segs : List Segment), SegsFOk file segs → ∀ st,
    ∃ st', readRawDataAll file segs st = .ok (eagerChunksAllG file segs, st') := by
  intro segs
  induction segs with
  | nil => intro _ st; exact ⟨st, rfl⟩
  | cons s ss ih =>
    intro hok st
    have hs := hok s List.mem_cons_self
    obtain ⟨st1, h1⟩ := verifySegmentStart_okF hs st
    obtain ⟨st2, h2⟩ := segmentReadRawData_G file s hs st1
    obtain ⟨st3, h3⟩ := ih (fun x hx => hok x (List.mem_cons_of_mem _ hx)) st2
    refine ⟨st3, ?_⟩
    unfold readRawDataAll
    rw [F_bind_ok h1, F_bind_ok h2, F_bind_ok h3]
    rfl

/-! ## the iterator -/

def fileSegRestG (file : Bytes) (s : Segment) (inSeg : Option Nat) (ey : Bool) : List RawChunk :=
  match inSeg with
  | none => (if !hasFlag s.toc kTocRawData ∧ !ey then [([] : RawChunk)] else []) ++ segChunksG file s
  | some i => (segChunksG file s).drop i

def fileRestG (file : Bytes) (segs : List Segment) (it : FileIter) : List RawChunk :=
  match segs[it.seg]? with
  | none => []
  | some s => fileSegRestG file s it.inSeg it.emptyYielded ++ eagerChunksAllG file (segs.drop (it.seg + 1))

theorem eagerChunksAllG_drop (file : Bytes) (segs : List Segment) (j : Nat) (s : Segment) (hs : segs[j]? = some s) :
    eagerChunksAllG file (segs.drop j) =
      ((if !hasFlag s.toc kTocRawData then [([] : RawChunk)] else []) ++ segChunksG file s) ++
        eagerChunksAllG file (segs.drop (j + 1)) := by
  have hj : j < segs.length := by
    rcases Nat.lt_or_ge j segs.length with h | h
    · exact h
    · rw [List.getElem?_eq_none h] at hs; cases hs
  rw [List.drop_eq_getElem_cons hj]
  have : segs[j] = s := by rw [List.getElem?_eq_getElem hj] at hs; exact Option.some.inj hs
  rw [this]
  simp [eagerChunksAllG]

theorem fileRestG_fresh (file : Bytes) (segs : List Segment) (j : Nat) (pend : List RawChunk) (offs : List (Bytes × Nat)) :
    fileRestG file segs { seg := j, inSeg := none, emptyYielded := false, pending := pend, offsets := offs }
      = eagerChunksAllG file (segs.drop j) := by
  unfold fileRestG
  simp only []
  cases hs : segs[j]? with
  | none =>
    have : segs.length ≤ j := by
      rcases Nat.lt_or_ge j segs.length with h | h
      · rw [List.getElem?_eq_getElem h] at hs; cases hs
      · exact h
    rw [List.drop_eq_nil_of_le this]; rfl
  | some s =>
    rw [eagerChunksAllG_drop file segs j s hs]
    simp [fileSegRestG]

/-- a suspended iterator inside a segment has yielded at least one chunk of it -/
def IterPos (it : FileIter) : Prop := ∀ i, it.inSeg = some i → 1 ≤ i

def FileStepSpecG (f : OpenFile) (it : FileIter) (r : Option (RawChunk × List (Bytes × Nat))) (it' : FileIter) : Prop :=
  match fileRestG f.file f.segments it with
  | [] => r = none ∧ fileRestG f.file f.segments it' = []
  | c :: rest => r = some (c, it.offsets) ∧ fileRestG f.file f.segments it' = rest ∧
      it'.offsets = bumpOffsets it.offsets c ∧ IterPos it'

theorem FileStepSpecG.of_eq {f : OpenFile} {it it0 : FileIter} {r : Option (RawChunk × List (Bytes × Nat))} {it' : FileIter}
    (h : FileStepSpecG f it0 r it') (hrest : fileRestG f.file f.segments it = fileRestG f.file f.segments it0)
    (hoffs : it.offsets = it0.offsets) : FileStepSpecG f it r it' := by
  unfold FileStepSpecG at h ⊢
  rw [hrest, hoffs]
  exact h

theorem FileStepSpecG.cons {f : OpenFile} {it it' : FileIter} {c : RawChunk} {rest : List RawChunk}
    (h : fileRestG f.file f.segments it = c :: rest) (h' : fileRestG f.file f.segments it' = rest)
    (ho : it'.offsets = bumpOffsets it.offsets c) (hpos : IterPos it') :
    FileStepSpecG f it (some (c, it.offsets)) it' := by
  unfold FileStepSpecG
  rw [h]
  exact ⟨rfl, h', ho, hpos⟩

theorem fileRestG_mk (file : Bytes) (segs : List Segment) (s : Segment) (j : Nat) (inSeg : Option Nat) (ey : Bool)
    (pend : List RawChunk) (offs : List (Bytes × Nat)) (hs : segs[j]? = some s) :
    fileRestG file segs ⟨j, inSeg, ey, pend, offs⟩ =
      fileSegRestG file s inSeg ey ++ eagerChunksAllG file (segs.drop (j + 1)) := by
  unfold fileRestG; simp only [hs]

theorem interleaved_le_one (file : Bytes) (s : Segment) (d : List SegObj) (n : Nat) (st st' : FState) (cs : List RawChunk)
    (h : readInterleavedChunks file s d n st = .ok (cs, st')) : cs.length ≤ 1 := by
  unfold readInterleavedChunks at h
  split at h
  · simp only [F_pure, Except.ok.injEq, Prod.mk.injEq] at h; rw [← h.1]; simp
  · rename_i o0 os
    by_cases hany : ((o0 :: os).any fun x => decide (x.numberValues ≠ o0.numberValues)) = true
    · rw [if_pos hany] at h
      cases h
    · rw [if_neg hany] at h
      simp only [pure_bind] at h
      generalize hw : List.foldl _ _ (o0 :: os) = w at h
      cases w with
      | error e => cases h
      | ok w =>
        simp only [] at h
        cases hrows : readRows file w (o0.numberValues * n) st with
        | error e =>
          exfalso
          revert h
          show StateT.bind _ _ _ = _ → False
          simp [StateT.bind, hrows, bind, Except.bind]
        | ok r =>
          obtain ⟨rows, st1⟩ := r
          rw [F_bind_ok hrows] at h
          cases hcol : interleavedColumns s.endian rows 0 (o0 :: os) [] with
          | ok c =>
            simp only [hcol, F_pure, Except.ok.injEq, Prod.mk.injEq] at h
            rw [← h.1]; simp
          | error x =>
            simp only [hcol] at h
            cases h

theorem fileIterNext_specG (f : OpenFile) (hok : SegsFOk f.file f.segments) :
    ∀ (fuel : Nat) (it : FileIter) (st : FState), IterPos it → f.segments.length + 1 ≤ it.seg + fuel →
      ∃ r it' st', fileIterNext f fuel it st = .ok ((r, it'), st') ∧ FileStepSpecG f it r it' := by
  intro fuel
  induction fuel with
  | zero =>
    intro it st _ hfuel
    have hnone : f.segments[it.seg]? = none := List.getElem?_eq_none (by omega)
    refine ⟨none, it, st, rfl, ?_⟩
    simp [FileStepSpecG, fileRestG, hnone]
  | succ fuel ih =>
    intro it st hpos hfuel
    unfold fileIterNext
    cases hs : f.segments[it.seg]? with
    | none =>
      refine ⟨none, it, st, rfl, ?_⟩
      simp [FileStepSpecG, fileRestG, hs]
    | some s =>
      have hso := hok s (List.mem_of_getElem? hs)
      simp only []
      have hrestEq : fileRestG f.file f.segments it =
          fileSegRestG f.file s it.inSeg it.emptyYielded ++ eagerChunksAllG f.file (f.segments.drop (it.seg + 1)) := by
        unfold fileRestG; simp only [hs]
      have hnext : fileSegRestG f.file s it.inSeg it.emptyYielded = [] → ∀ st1,
          ∃ r it' st', fileIterNext f fuel { seg := it.seg + 1, pending := it.pending, offsets := it.offsets } st1
            = .ok ((r, it'), st') ∧ FileStepSpecG f it r it' := by
        intro hnil st1
        obtain ⟨r, it', st', hrun, hspec⟩ := ih { seg := it.seg + 1, pending := it.pending, offsets := it.offsets } st1
          (by intro i h; cases h) (by simp only []; omega)
        refine ⟨r, it', st', hrun, hspec.of_eq ?_ rfl⟩
        rw [fileRestG_fresh, hrestEq, hnil, List.nil_append]
      -- yielding chunk `c`, the head of what is left of the segment
      have hyield : ∀ (c : RawChunk) (rest : List RawChunk) (inSeg' : Option Nat) (ey' : Bool) (st2 : FState),
          fileSegRestG f.file s it.inSeg it.emptyYielded = c :: rest →
          fileSegRestG f.file s inSeg' ey' = rest → (∀ i, inSeg' = some i → 1 ≤ i) →
          ∃ r it' st', (pure (some (c, it.offsets),
              ({ seg := it.seg, inSeg := inSeg', emptyYielded := ey', pending := it.pending,
                 offsets := bumpOffsets it.offsets c } : FileIter)) : F _) st2 = .ok ((r, it'), st') ∧
            FileStepSpecG f it r it' := by
        intro c rest inSeg' ey' st2 h1 h2 h3
        refine ⟨_, _, st2, rfl, ?_⟩
        apply FileStepSpecG.cons (rest := rest ++ eagerChunksAllG f.file (f.segments.drop (it.seg + 1)))
        · rw [hrestEq, h1]; rfl
        · rw [fileRestG_mk f.file f.segments s it.seg _ _ _ _ hs, h2]
        · rfl
        · exact h3
      have hver : ∀ (k : Unit → F (Option (RawChunk × List (Bytes × Nat)) × FileIter)),
          (∀ st1, ∃ r it' st', k () st1 = .ok ((r, it'), st') ∧ FileStepSpecG f it r it') →
          ∃ r it' st', (if (!it.emptyYielded) = true then do
              let __r ← verifySegmentStart f.file s
              k __r
            else k ()) st = .ok ((r, it'), st') ∧ FileStepSpecG f it r it' := by
        intro k hk
        by_cases hey : (!it.emptyYielded) = true
        · rw [if_pos hey]
          obtain ⟨st1, h1⟩ := verifySegmentStart_okF hso st
          rw [F_bind_ok h1]
          exact hk st1
        · rw [if_neg hey]
          exact hk st
      rcases hso.data with hc | ⟨hk, ⟨csz, hsize⟩, rr, hr⟩
      · -- contiguous segment
        have hkind := hc.kind
        have hsize := hc.size
        have hchunks := segChunksG_contig hc
        have hdrop : ∀ i, i < s.numChunks → (segChunksG f.file s).drop i =
            eagerChunk f.file s (segCsz s) i :: (segChunksG f.file s).drop (i + 1) := by
          intro i hi
          have hlen : i < (segChunksG f.file s).length := by rw [hchunks]; simpa using hi
          rw [List.drop_eq_getElem_cons hlen]
          congr 1
          simp [hchunks]
        have hdropnil : ∀ i, ¬ i < s.numChunks → (segChunksG f.file s).drop i = [] := by
          intro i hi
          apply List.drop_eq_nil_of_le
          rw [hchunks]; simp; omega
        cases hin : it.inSeg with
        | none =>
          simp only []
          apply hver
          intro st1
          by_cases hpre : (!hasFlag s.toc kTocRawData) = true ∧ (!it.emptyYielded) = true
          · rw [if_pos hpre]
            exact hyield [] (segChunksG f.file s) none true st1
              (by rw [hin]; simp only [fileSegRestG]; rw [if_pos hpre]; rfl)
              (by simp [fileSegRestG]) (by intro i h; cases h)
          · rw [if_neg hpre]
            rw [F_bind_ok (fSeek_run _ _), hkind, F_bind_ok (liftE_ok _ _)]
            simp only []
            have hsegrest : fileSegRestG f.file s it.inSeg it.emptyYielded = (segChunksG f.file s).drop 0 := by
              rw [hin]; simp only [fileSegRestG]; rw [if_neg hpre]; rfl
            by_cases hk : 0 < s.numChunks
            · rw [if_pos hk]
              obtain ⟨st2, h2⟩ := readChunksSeq_exact f.file s (segCsz s) hc 1 0 st1.trace (by omega)
              simp only [Nat.zero_mul, Nat.add_zero] at h2
              have h2' : readChunksSeq f.file s ReaderKind.contiguous (List.filter (fun x => x.hasData) s.objects) 0 1
                  ⟨s.dataPosition, st1.trace⟩ = .ok ([eagerChunk f.file s (segCsz s) 0], st2) := h2
              rw [F_bind_ok h2']
              exact hyield _ ((segChunksG f.file s).drop 1) (some 1) it.emptyYielded st2
                (by rw [hsegrest, hdrop 0 hk]) rfl (by intro i h; cases h; omega)
            · rw [if_neg hk]
              apply hnext
              rw [hsegrest, hdropnil 0 hk]
        | some i =>
          simp only []
          rw [hsize, F_bind_ok (liftE_ok _ _), F_bind_ok (fSeek_run _ _), hkind, F_bind_ok (liftE_ok _ _)]
          simp only []
          have hsegrest : fileSegRestG f.file s it.inSeg it.emptyYielded = (segChunksG f.file s).drop i := by
            rw [hin]; rfl
          by_cases hk : i < s.numChunks
          · rw [if_pos hk]
            obtain ⟨st2, h2⟩ := readChunksSeq_exact f.file s (segCsz s) hc 1 i st.trace (by omega)
            have h2' : readChunksSeq f.file s ReaderKind.contiguous (List.filter (fun x => x.hasData) s.objects) i 1
                ⟨s.dataPosition + i * segCsz s, st.trace⟩ = .ok ([eagerChunk f.file s (segCsz s) i], st2) := h2
            rw [F_bind_ok h2']
            exact hyield _ ((segChunksG f.file s).drop (i + 1)) (some (i + 1)) it.emptyYielded st2
              (by rw [hsegrest, hdrop i hk]) rfl (by intro j h; cases h; omega)
          · rw [if_neg hk]
            apply hnext
            rw [hsegrest, hdropnil i hk]
      · -- interleaved segment
        obtain ⟨cs, pos'⟩ := rr
        have hchunks : segChunksG f.file s = cs := by unfold segChunksG; rw [hk, hr]
        cases hin : it.inSeg with
        | none =>
          simp only []
          apply hver
          intro st1
          by_cases hpre : (!hasFlag s.toc kTocRawData) = true ∧ (!it.emptyYielded) = true
          · rw [if_pos hpre]
            exact hyield [] (segChunksG f.file s) none true st1
              (by rw [hin]; simp only [fileSegRestG]; rw [if_pos hpre]; rfl)
              (by simp [fileSegRestG]) (by intro i h; cases h)
          · rw [if_neg hpre]
            rw [F_bind_ok (fSeek_run _ _), hk, F_bind_ok (liftE_ok _ _)]
            simp only []
            obtain ⟨tr2, h2⟩ := interRead_run hr st1.trace
            rw [F_bind_ok h2]
            have hsegrest : fileSegRestG f.file s it.inSeg it.emptyYielded = cs := by
              rw [hin]; simp only [fileSegRestG]; rw [if_neg hpre, hchunks]; rfl
            have hle := interleaved_le_one _ _ _ _ _ _ _ h2
            cases cs with
            | nil =>
              simp only [List.head?_nil]
              exact hnext hsegrest _
            | cons c rest =>
              have hrnil : rest = [] := by
                cases rest with
                | nil => rfl
                | cons _ _ => simp at hle
              subst hrnil
              simp only [List.head?_cons]
              exact hyield c [] (some 1) it.emptyYielded _ hsegrest (by simp [fileSegRestG, hchunks])
                (by intro i h; cases h; omega)
        | some i =>
          simp only []
          rw [hsize, F_bind_ok (liftE_ok _ _), F_bind_ok (fSeek_run _ _), hk, F_bind_ok (liftE_ok _ _)]
          simp only []
          apply hnext
          rw [hin]
          show (segChunksG f.file s).drop i = []
          obtain ⟨tr2, h2⟩ := interRead_run hr []
          have hle := interleaved_le_one _ _ _ _ _ _ _ h2
          have hi := hpos i hin
          apply List.drop_eq_nil_of_le
          rw [hchunks]; omega

/-! ## consuming the iterator -/

theorem fileIterAll_specG (f : OpenFile) (hok : SegsFOk f.file f.segments) :
    ∀ (n : Nat) (it : FileIter) (st : FState), IterPos it → (fileRestG f.file f.segments it).length ≤ n →
      ∃ st', fileIterAll f n it st = .ok (withOffsets it.offsets (fileRestG f.file f.segments it), st') := by
  intro n
  induction n with
  | zero =>
    intro it st _ h
    have : fileRestG f.file f.segments it = [] := List.eq_nil_of_length_eq_zero (by omega)
    rw [this]
    exact ⟨st, rfl⟩
  | succ n ih =>
    intro it st hpos h
    obtain ⟨r, it', st1, hrun, hspec⟩ := fileIterNext_specG f hok (fuelFor f) it st hpos (by unfold fuelFor; omega)
    unfold fileIterAll
    rw [F_bind_ok hrun]
    unfold FileStepSpecG at hspec
    cases hrest : fileRestG f.file f.segments it with
    | nil =>
      rw [hrest] at hspec
      obtain ⟨rfl, _⟩ := hspec
      exact ⟨st1, rfl⟩
    | cons c rest =>
      rw [hrest] at hspec h
      obtain ⟨rfl, hr', ho, hpos'⟩ := hspec
      obtain ⟨st2, h2⟩ := ih it' st1 hpos' (by rw [hr']; simpa using h)
      refine ⟨st2, ?_⟩
      simp only []
      rw [F_bind_ok h2, hr', ho]
      rfl

/-! ## every entry of every chunk carries plain data -/

theorem allData_interleavedColumns (e : Endian) (rows : List Bytes) : ∀ (d : List SegObj) (col : Nat) (acc c : RawChunk),
    interleavedColumns e rows col d acc = .ok c → AllData acc → AllData c := by
  intro d
  induction d with
  | nil =>
    intro col acc c h hacc
    simp only [interleavedColumns, Except.ok.injEq] at h
    subst h; exact hacc
  | cons o os ih =>
    intro col acc c h hacc
    unfold interleavedColumns at h
    cases hsz : objSize o with
    | error x => simp [hsz, bind, Except.bind] at h
    | ok sz =>
      simp only [hsz, bind, Except.bind] at h
      exact ih _ _ c h (allData_dictSet acc o.path _ hacc)

theorem allData_readInterleaved (file : Bytes) (s : Segment) (d : List SegObj) (n : Nat) (st st' : FState)
    (cs : List RawChunk) (h : readInterleavedChunks file s d n st = .ok (cs, st')) : ∀ c ∈ cs, AllData c := by
  unfold readInterleavedChunks at h
  split at h
  · simp only [F_pure, Except.ok.injEq, Prod.mk.injEq] at h; rw [← h.1]; intro c hc; cases hc
  · rename_i o0 os
    by_cases hany : ((o0 :: os).any fun x => decide (x.numberValues ≠ o0.numberValues)) = true
    · rw [if_pos hany] at h
      cases h
    · rw [if_neg hany] at h
      simp only [pure_bind] at h
      generalize hw : List.foldl _ _ (o0 :: os) = w at h
      cases w with
      | error e => cases h
      | ok w =>
        simp only [] at h
        cases hrows : readRows file w (o0.numberValues * n) st with
        | error e =>
          exfalso
          revert h
          show StateT.bind _ _ _ = _ → False
          simp [StateT.bind, hrows, bind, Except.bind]
        | ok r =>
          obtain ⟨rows, st1⟩ := r
          rw [F_bind_ok hrows] at h
          cases hcol : interleavedColumns s.endian rows 0 (o0 :: os) [] with
          | ok c =>
            simp only [hcol, F_pure, Except.ok.injEq, Prod.mk.injEq] at h
            rw [← h.1]
            intro c' hc'
            simp only [List.mem_singleton] at hc'
            subst hc'
            exact allData_interleavedColumns _ _ _ _ _ _ hcol (by intro x hx; cases hx)
          | error x =>
            simp only [hcol] at h
            cases h

theorem allData_segChunksG (file : Bytes) (s : Segment) : ∀ c ∈ segChunksG file s, AllData c := by
  intro c hc
  unfold segChunksG at hc
  split at hc
  · split at hc
    · rename_i cs pos' hr
      obtain ⟨tr', h⟩ := interRead_run hr []
      exact allData_readInterleaved _ _ _ _ _ _ _ h c hc
    · cases hc
  · obtain ⟨j, _, rfl⟩ := List.mem_map.mp hc
    exact allData_setCols _ _ [] (by intro x hx; cases hx)

theorem allData_eagerChunksAllG (file : Bytes) (segs : List Segment) : ∀ c ∈ eagerChunksAllG file segs, AllData c := by
  intro c hc
  unfold eagerChunksAllG at hc
  rw [List.mem_flatMap] at hc
  obtain ⟨s, _, hc⟩ := hc
  rcases List.mem_append.mp hc with hc | hc
  · split at hc
    · simp only [List.mem_singleton] at hc; subst hc; intro x hx; cases hx
    · cases hc
  · exact allData_segChunksG file s c hc

end Tdms.Proofs.C03
