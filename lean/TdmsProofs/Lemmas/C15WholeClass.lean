/-
  C15 for whole files: `withEndian` stays inside the classes of the whole-file theorems.  Core Lean only.
-/
import TdmsProofs.Lemmas.C15WholeSize

namespace Tdms.Proofs.C15Whole

open Tdms Tdms.Generated Tdms.Model Tdms.Proofs.C01Layouts Tdms.Proofs.C01Multi Tdms.Proofs.C02 Tdms.Proofs.Bytes

/-! ## membership -/

theorem mem_weSegs (f : Nat → Bool) : ∀ (ss : List SegEnc) (as : List (List ActiveObj)) (i : Nat) (s' : SegEnc),
    s' ∈ weSegs f i ss as → ∃ s ∈ ss, ∃ a b, s' = weSeg b s a := by
  intro ss
  induction ss with
  | nil => intro as i s' h; cases as <;> cases h
  | cons s ss ih =>
    intro as i s' h
    cases as with
    | nil => cases h
    | cons a as =>
      simp only [weSegs, List.mem_cons] at h
      rcases h with rfl | h
      · exact ⟨s, List.mem_cons_self, a, f i, rfl⟩
      · obtain ⟨s0, hs0, r⟩ := ih as (i + 1) s' h
        exact ⟨s0, List.mem_cons_of_mem _ hs0, r⟩

theorem mem_zip_weSegs (f : Nat → Bool) : ∀ (ss : List SegEnc) (as : List (List ActiveObj)) (i : Nat)
    (sa : SegEnc × List ActiveObj), sa ∈ (weSegs f i ss as).zip as →
    ∃ s b, (s, sa.2) ∈ ss.zip as ∧ sa.1 = weSeg b s sa.2 := by
  intro ss
  induction ss with
  | nil => intro as i sa h; cases as <;> simp [weSegs] at h
  | cons s ss ih =>
    intro as i sa h
    cases as with
    | nil => simp [weSegs] at h
    | cons a as =>
      simp only [weSegs, List.zip_cons_cons, List.mem_cons] at h
      rcases h with rfl | h
      · exact ⟨s, f i, by simp, rfl⟩
      · obtain ⟨s0, b, hs0, r⟩ := ih as (i + 1) sa h
        exact ⟨s0, b, by simp [hs0], r⟩

theorem mem_withEndian {f : Nat → Bool} {e : FileEnc} {s' : SegEnc} (h : s' ∈ withEndian f e) :
    ∃ s ∈ e, ∃ a b, s' = weSeg b s a := by
  cases ha : activeLists none [] e with
  | error r =>
    simp only [withEndian, ha] at h
    exact ⟨s', h, [], s'.big, (weSeg_self s' []).symm⟩
  | ok acts =>
    rw [withEndian_eq ha] at h
    exact mem_weSegs f e acts 0 s' h

theorem weSegs_objs (f : Nat → Bool) : ∀ (ss : List SegEnc) (as : List (List ActiveObj)) (i : Nat),
    as.length = ss.length → (weSegs f i ss as).flatMap (·.objs) = ss.flatMap (·.objs) := by
  intro ss
  induction ss with
  | nil => intro as i _; cases as <;> rfl
  | cons s ss ih =>
    intro as i h
    cases as with
    | nil => cases h
    | cons a as => simp only [weSegs, List.flatMap_cons, weSeg_objs, ih as (i + 1) (by simpa using h)]

theorem withEndian_objs (f : Nat → Bool) (e : FileEnc) :
    (withEndian f e).flatMap (·.objs) = e.flatMap (·.objs) := by
  cases ha : activeLists none [] e with
  | error r => simp [withEndian, ha]
  | ok acts => rw [withEndian_eq ha, weSegs_objs f e acts 0 (activeLists_len e none [] acts ha)]

theorem fileScF_withEndian (f : Nat → Bool) (e : FileEnc) : fileScF (withEndian f e) = fileScF e := by
  funext p
  simp only [fileScF, withEndian_objs]

/-! ## the classes -/

theorem wellFormed_withEndian' {e : FileEnc} (hwf : wellFormed e = true) (f : Nat → Bool) :
    wellFormed (withEndian f e) = true := by
  obtain ⟨acts, ha, hw⟩ := wellFormed_acts hwf
  unfold wellFormed
  rw [activeLists_withEndian, ha]
  simp only
  rw [withEndian_eq ha]
  exact wfSegs_weSegs f e acts 0 hw

theorem fieldsCompat_withEndian' {e : FileEnc} (h : FieldsCompat e) (f : Nat → Bool) : FieldsCompat (withEndian f e) := by
  intro acts ha
  rw [activeLists_withEndian] at ha
  exact h acts ha

theorem multiStdD_withEndian' {e : FileEnc} (h : MultiStdD e) (f : Nat → Bool) : MultiStdD (withEndian f e) := by
  unfold MultiStdD
  rw [fileScF_withEndian]
  refine ⟨?_, wellFormed_withEndian' h.wf f, ?_⟩
  · intro s' hs'
    obtain ⟨s, hs, a, b, rfl⟩ := mem_withEndian hs'
    simpa using h.segs s hs
  · intro acts ha
    rw [activeLists_withEndian] at ha
    exact h.widths acts ha

theorem fileFitsD_withEndian' {e : FileEnc} (h : FileFitsD e) (f : Nat → Bool) : FileFitsD (withEndian f e) := by
  intro s' hs'
  obtain ⟨s, hs, a, b, rfl⟩ := mem_withEndian hs'
  have := h s hs
  exact ⟨by simpa using this.nObjs, by simpa using this.objs⟩

theorem weSeg_chunks_ne_nil (b : Bool) (s : SegEnc) (a : List ActiveObj) :
    (weSeg b s a).chunks ≠ [] ↔ s.chunks ≠ [] := by
  have := weSeg_chunks_length b s a
  constructor
  · intro h1 h2; rw [h2] at this; exact h1 (List.eq_nil_of_length_eq_zero this)
  · intro h1 h2; rw [h2] at this; exact h1 (List.eq_nil_of_length_eq_zero this.symm)

theorem onlyChannelsHaveDataD_withEndian' {e : FileEnc} (h : onlyChannelsHaveDataD e) (f : Nat → Bool) :
    onlyChannelsHaveDataD (withEndian f e) := by
  intro acts ha sa hsa
  rw [activeLists_withEndian] at ha
  rw [withEndian_eq ha] at hsa
  obtain ⟨s, b, hs, hsa1⟩ := mem_zip_weSegs f e acts 0 sa hsa
  obtain ⟨h1, h2⟩ := h acts ha (s, sa.2) hs
  refine ⟨?_, h2⟩
  intro hne
  apply h1
  rw [hsa1] at hne
  simpa [weSeg_chunks_ne_nil] using hne

/-! ## the standard contiguous class (for the lazy side) -/

theorem multiStd_withEndian' {e : FileEnc} (h : MultiStd e) (f : Nat → Bool) : MultiStd (withEndian f e) := by
  refine ⟨?_, wellFormed_withEndian' h.wf f⟩
  intro s' hs'
  obtain ⟨s, hs, a, b, rfl⟩ := mem_withEndian hs'
  have := h.segs s hs
  exact ⟨by simpa using this.contiguous, by simpa using this.lengthKnown, by simpa using this.std⟩

theorem fileFits_withEndian' {e : FileEnc} (h : FileFits e) (f : Nat → Bool) : FileFits (withEndian f e) := by
  intro s' hs'
  obtain ⟨s, hs, a, b, rfl⟩ := mem_withEndian hs'
  have := h s hs
  exact ⟨by simpa using this.nObjs, by simpa using this.objs⟩

/-- a file without DAQmx index has no re-encoded row: only the flags change -/
theorem fieldsCompat_of_multiStdI {e : FileEnc} (h : MultiStdI e) : FieldsCompat e := by
  intro acts ha a haa x hx s hs
  have := noDaq_of_multiStdI h ha a haa x (List.mem_filter.mp hx).1
  unfold isDaqmxObj at this
  unfold daqScalers at hs
  cases hi : x.idx with
  | none => rw [hi] at hs; cases hs
  | some d =>
    cases d with
    | std ty n total => rw [hi] at hs; cases hs
    | daq dg ty n sc w => rw [hi] at this; cases this

/-- in a file without DAQmx index `withEndian` changes the flags and nothing else -/
theorem weSegs_std (f : Nat → Bool) : ∀ (ss : List SegEnc) (as : List (List ActiveObj)) (i : Nat),
    as.length = ss.length → (∀ a ∈ as, (dataObjs a).any isDaqmxObj = false) →
    weSegs f i ss as = ss.mapIdx fun j s => { s with big := f (i + j) } := by
  intro ss
  induction ss with
  | nil => intro as i _ _; cases as <;> rfl
  | cons s ss ih =>
    intro as i h hq
    cases as with
    | nil => cases h
    | cons a as =>
      simp only [weSegs, List.mapIdx_cons, Nat.add_zero, weSeg_std (f i) s a (hq a List.mem_cons_self)]
      rw [ih as (i + 1) (by simpa using h) (fun a' ha' => hq a' (List.mem_cons_of_mem _ ha'))]
      simp only [Nat.add_assoc, Nat.add_comm 1]

theorem withEndian_std {e : FileEnc} (h : MultiStdI e) (f : Nat → Bool) :
    withEndian f e = e.mapIdx fun i s => { s with big := f i } := by
  obtain ⟨acts, ha, _⟩ := wellFormed_acts h.wf
  rw [withEndian_eq ha, weSegs_std f e acts 0 (activeLists_len e none [] acts ha)]
  · simp
  · intro a haa
    have hnd := noDaq_of_multiStdI h ha a haa
    rw [List.any_eq_false]
    intro x hx
    rw [hnd x (List.mem_filter.mp hx).1]
    simp

/-! ## the bytes -/

theorem encodeFile_withEndian' {e : FileEnc} (hwf : wellFormed e = true) (f : Nat → Bool) :
    ∃ b₁ b₂, encodeFile (withEndian f e) = .ok b₁ ∧ encodeFile e = .ok b₂ ∧ b₁.length = b₂.length := by
  obtain ⟨acts, ha, hw⟩ := wellFormed_acts hwf
  refine ⟨zipEncode encodeSeg (withEndian f e) acts, zipEncode encodeSeg e acts, ?_, ?_, ?_⟩
  · simp [encodeFile, activeLists_withEndian, ha]
  · simp [encodeFile, ha]
  · rw [withEndian_eq ha]
    exact zipEncode_weSegs_length f e acts 0 hw

end Tdms.Proofs.C15Whole
