/-
  C11Whole — one encoded segment of the class `SegOKD` (standard or DAQmx; `C01Layouts` part B) against the
  hypotheses of `C11Lazy`: for a DAQmx raw-data channel `p` and one of its scale ids the record `segRec pos s a`
  satisfies `SegDOk`:
  * DAQmx segment in which `p` has values: `DaqOk` (every chunk, read at its nominal position
    `dataPosition + j · chunkSize`, is the dictionary `bmChunk` of the `j`-th encoded chunk and ends at the next
    nominal position — from `readDaqmxChunk_encChunk`), distinct keys, and `ScChunk` (the entry of `p` holds
    exactly the scalers of `p`, each with `number_values` values — from `bmChunk_spec` / `mem_accItems`);
  * any other segment: `p` has no values there and its eager chunks hold nothing for the scaler.
  Core Lean only.
-/
import TdmsProofs.Lemmas.C01LayoutsDaqMain
import TdmsProofs.Lemmas.C11LazyWin
import TdmsProofs.Lemmas.C04WholeLayout
import TdmsProofs.Lemmas.C03Single

namespace Tdms.Proofs.C11Whole

open Tdms Tdms.Generated Tdms.Model Tdms.Proofs.C02 Tdms.Proofs.C01Multi Tdms.Proofs.C01Layouts Tdms.Proofs.C03
open Tdms.Proofs.C04 Tdms.Proofs.C11Lazy
open Tdms.Proofs.Bytes (drop_add_of_drop_eq F_bind_ok)

/-! ## the entry of one object in the dictionary of one DAQmx chunk -/

section Chunk
variable {F : ScF} {W : List Nat} (e : Endian) (d : List ActiveObj) (hnd : (d.map (·.path)).Nodup)
  (hobj : ∀ x ∈ d, DaqObj F W x) (c : List (List Bytes)) (hck : DaqChunkOK W d c)
include hnd hobj hck

omit hck in
theorem itemsOfD_bmChunk (x : ActiveObj) (hx : x ∈ d) :
    itemsOfD (bmChunk e d 0 c []) x.path = accItems e x 0 c := by
  obtain ⟨_, hitems⟩ := bmChunk_spec e d hnd c 0 [] (dictInv_nil d)
  rw [hitems x hx]
  have hnil : itemsOfD ([] : RawChunk) x.path = [] := rfl
  rw [hnil]
  obtain ⟨dg, n, sc, hi, hd⟩ := hobj x hx
  have hds : daqScalers x = sc := by simp [daqScalers, hi]
  rw [roa_fold_fresh _ [] (accItems_ids_nodup e x (by rw [hds]; exact hd.ids) c 0) (by simp)]
  rfl

omit hnd in
/-- the items of `x` in the chunk: one per scaler of `x`, with as many values as `x` declares per chunk -/
theorem accItems_facts (x : ActiveObj) (hx : x ∈ d) :
    ((accItems e x 0 c).map (·.1)).Nodup ∧
    (∀ id, id ∈ (daqScalers x).map (·.scaleId) → id ∈ (accItems e x 0 c).map (·.1)) ∧
    (∀ dsc, x.idx = some dsc → ∀ iv ∈ accItems e x 0 c, iv.2.length = dsc.n) ∧ accItems e x 0 c ≠ [] := by
  obtain ⟨dg, n, sc, hi, hne, hbuf, hds, _⟩ := concObj_daqObj (hobj x hx)
  obtain ⟨_, _, _, hi', hd⟩ := hobj x hx
  have hmem : ∀ s ∈ daqScalers x,
      (s.scaleId, (c.getD (s.buffer - 0) []).map (scalerValue e (dgOf x) s)) ∈ accItems e x 0 c := by
    intro s hs
    rw [mem_accItems]
    refine ⟨s, hs, Nat.zero_le _, ?_, rfl⟩
    rw [Nat.zero_add, hck.len]
    exact hbuf s (by rw [← hds]; exact hs)
  refine ⟨accItems_ids_nodup e x (by rw [hds]; rw [hi] at hi'; cases hi'; exact hd.ids) c 0, ?_, ?_, ?_⟩
  · intro id hid
    obtain ⟨s, hs, rfl⟩ := List.mem_map.mp hid
    exact List.mem_map.2 ⟨_, hmem s hs, rfl⟩
  · intro dsc hdsc iv hiv
    obtain ⟨s, hs, _, _, rfl⟩ := (mem_accItems e x c 0 iv).mp hiv
    simp only [List.length_map, Nat.sub_zero]
    exact hck.count x hx dsc hdsc s hs
  · cases hsc : sc with
    | nil => exact absurd hsc hne
    | cons s0 rest =>
      intro hnil
      have := hmem s0 (by rw [hds, hsc]; exact List.mem_cons_self)
      rw [hnil] at this
      cases this

/-- **the entry of `x` in the dictionary of the chunk** -/
theorem get_bmChunk (x : ActiveObj) (hx : x ∈ d) :
    RawChunk.get (bmChunk e d 0 c []) x.path = { scalers := some (accItems e x 0 c) } := by
  obtain ⟨hinv, _⟩ := bmChunk_spec e d hnd c 0 [] (dictInv_nil d)
  have hitems := itemsOfD_bmChunk e d hnd hobj c x hx
  have hne := (accItems_facts e d hobj c hck x hx).2.2.2
  unfold itemsOfD at hitems
  unfold RawChunk.get
  cases hf : (bmChunk e d 0 c []).find? (·.1 = x.path) with
  | none => rw [hf] at hitems; exact absurd hitems.symm hne
  | some pc =>
    rw [hf] at hitems
    obtain ⟨items, hpc⟩ := hinv.allScal pc (List.mem_of_find?_eq_some hf)
    simp only [Option.bind_some, hpc, Option.getD_some] at hitems
    simp only [Option.map_some, Option.getD_some, hpc, hitems]

/-- **the entry of `x` is a scaler chunk**: no plain data, the scalers of `x` once each, every one with as many
    values as `x` declares per chunk -/
theorem scChunk_bmChunk (x : ActiveObj) (hx : x ∈ d) (dsc : IdxDesc) (hdsc : x.idx = some dsc) (id : Nat)
    (hid : id ∈ (daqScalers x).map (·.scaleId)) :
    ScChunk id dsc.n (RawChunk.get (bmChunk e d 0 c []) x.path) := by
  obtain ⟨h1, h2, h3, _⟩ := accItems_facts e d hobj c hck x hx
  rw [get_bmChunk e d hnd hobj c hck x hx]
  exact ⟨rfl, _, rfl, h1, h2 id hid, h3 dsc hdsc⟩

omit hobj hck in
theorem keys_bmChunk : ((bmChunk e d 0 c []).map (·.1)).Nodup ∧
    ∀ k ∈ (bmChunk e d 0 c []).map (·.1), k ∈ d.map (·.path) := by
  obtain ⟨hinv, _⟩ := bmChunk_spec e d hnd c 0 [] (dictInv_nil d)
  exact ⟨hinv.nodup, hinv.keys⟩

end Chunk

/-! ## chunks that do not list the path -/

theorem chunkSc_not_key (c : RawChunk) (p : Bytes) (id : Nat) (h : p ∉ c.map (·.1)) : chunkSc c p id = [] := by
  unfold chunkSc
  rw [List.filter_eq_nil_iff.mpr]
  · rfl
  · intro y hy hyp
    exact h (List.mem_map.2 ⟨y, hy, by simpa using hyp⟩)

theorem streamSc_not_key (cs : List RawChunk) (p : Bytes) (id : Nat) (h : ∀ c ∈ cs, p ∉ c.map (·.1)) :
    streamSc cs p id = [] := by
  unfold streamSc
  induction cs with
  | nil => rfl
  | cons c cs ih =>
    rw [List.flatMap_cons, chunkSc_not_key c p id (h c List.mem_cons_self),
      ih (fun c' hc' => h c' (List.mem_cons_of_mem _ hc'))]
    rfl

/-- the keys of every chunk the reader yields for a segment are paths of its data objects -/
theorem keys_rawChunksOfSegD (s : SegEnc) (a : List ActiveObj) (hnd : (a.map (·.path)).Nodup) :
    ∀ c ∈ rawChunksOfSegD s a, ∀ k ∈ c.map (·.1), k ∈ (dataObjs a).map (·.path) := by
  intro c hc k hk
  unfold rawChunksOfSegD at hc
  split at hc
  · rcases List.mem_append.mp hc with hc | hc
    · have : c = [] := by
        cases hr : s.rawFlag <;> simp [hr] at hc
        exact hc
      subst this; cases hk
    · obtain ⟨ch, _, rfl⟩ := List.mem_map.mp hc
      exact (keys_bmChunk s.endian (dataObjs a) (dataObjs_nodup hnd) ch).2 k hk
  · rw [rawChunksOfSegI_eq] at hc
    obtain ⟨pairs, hpairs, rfl⟩ := List.mem_map.mp hc
    obtain ⟨pc, hpc, rfl⟩ := List.mem_map.mp hk
    unfold C01Compose.pairsChunk at hpc
    obtain ⟨pv, hpv, rfl⟩ := List.mem_map.mp hpc
    exact (mem_pairListsI hpairs hpv).2

/-! ## the eager chunks of the record of an encoded segment -/

theorem segEager_segRec (F : ScF) (file : Bytes) (pos : Nat) (s : SegEnc) (a : List ActiveObj) (rest : Bytes)
    (hfile : file.drop pos = encodeSeg s a ++ rest) (hok : SegOKD GoodDesc F s a) (hnd : (a.map (·.path)).Nodup) :
    segEager file (segRec pos s a) = rawChunksOfSegD s a := by
  obtain ⟨st1, h1⟩ := segment_dataD F file pos s a rest hfile hok hnd {}
  cases hv : verifySegmentStart file (segRec pos s a) {} with
  | error err =>
    have : (do verifySegmentStart file (segRec pos s a); segmentReadRawData file (segRec pos s a) : Tdms.Model.F _) {} =
        .error err := by
      show (StateT.bind _ _) _ = _
      simp [StateT.bind, hv, bind, Except.bind]
    rw [this] at h1; cases h1
  | ok r =>
    obtain ⟨u, sv⟩ := r
    rw [F_bind_ok hv] at h1
    exact segmentReadRawData_run h1

theorem tag_segRec (file : Bytes) (pos : Nat) (s : SegEnc) (a : List ActiveObj) (rest : Bytes)
    (hfile : file.drop pos = encodeSeg s a ++ rest) : (file.drop (segRec pos s a).position).take 4 = tagData := by
  show (file.drop pos).take 4 = tagData
  rw [hfile, encodeSeg_split]
  simp [encLeadIn, tagData]

theorem noRaw_segRec (pos : Nat) (s : SegEnc) (a : List ActiveObj) (hraw : s.chunks ≠ [] → s.rawFlag = true) :
    hasFlag (segRec pos s a).toc kTocRawData = false → (segRec pos s a).numChunks = 0 := by
  intro hr
  have hf : hasFlag (segRec pos s a).toc kTocRawData = s.rawFlag := Tdms.Proofs.Bytes.hasFlag_tocMask_raw s
  rw [hf] at hr
  show s.chunks.length = 0
  cases hc : s.chunks with
  | nil => rfl
  | cons c cs =>
    have := hraw (by rw [hc]; simp)
    rw [hr] at this; cases this

/-! ## a DAQmx segment: chunks at their nominal positions -/

/-- **`DaqOk` for the record of an encoded DAQmx segment, and what its chunks are** -/
theorem daqOk_segRec (F : ScF) (file : Bytes) (pos : Nat) (s : SegEnc) (a : List ActiveObj) (rest : Bytes)
    (hfile : file.drop pos = encodeSeg s a ++ rest) (hok : SegOKD GoodDesc F s a)
    (hl : DaqLayout F s (dataObjs a)) :
    DaqOk file (segRec pos s a) ∧
      ∀ j (hj : j < s.chunks.length), daqChunk file (segRec pos s a) j = bmChunk s.endian (dataObjs a) 0 s.chunks[j] [] := by
  have hany := daqLayout_any hl
  obtain ⟨W, dims, hobj, hdims, hch⟩ := bufferDimensions_daq hl
  obtain ⟨cb, hcs, hcb⟩ := seg_arith hok
  have hend : (segRec pos s a).endian = s.endian := Tdms.Proofs.Bytes.segEndian_of_tocMask s
  have hkind := dataReaderKind_daq (segRec pos s a) a rfl hl.nonempty (fun x hx => daqObj_isDaq (hobj x hx))
  have hcsz : segCsz (segRec pos s a) = cb := by
    unfold segCsz
    show (match chunkSize (a.map concObj) with | .ok c => c | .error _ => 0) = _
    rw [hcs]
  have hsize : chunkSize (segRec pos s a).objects = .ok (segCsz (segRec pos s a)) := by rw [hcsz]; exact hcs
  have hdims' : bufferDimensions ((dataObjs a).map concObj) = .ok dims := by
    rw [← filter_hasData_conc, bufferDimensions_filter]; exact hdims
  have hd : C03.dataObjs (segRec pos s a) = (dataObjs a).map concObj := filter_hasData_conc a
  have hencraw : encRaw s a = s.chunks.flatMap encChunkDaqmx := by
    unfold encRaw
    congr 1
    funext c
    exact encChunk_daq s a hany c
  have hraw := raw_drop file pos s a rest hfile
  rw [hencraw] at hraw
  have hc : ∀ ch ∈ s.chunks, (encChunkDaqmx ch).length = cb := by
    intro ch hch'
    rw [← encChunk_daq s a hany ch]
    exact hcb ch hch'
  -- chunk `j` at its nominal position
  have hchunk : ∀ j (hj : j < s.chunks.length), ∃ st', readDaqmxChunk file (segRec pos s a) (C03.dataObjs (segRec pos s a)) j
      ⟨(segRec pos s a).dataPosition + j * segCsz (segRec pos s a), []⟩ =
        .ok (bmChunk s.endian (dataObjs a) 0 s.chunks[j] [], st') ∧
      st'.pos = (segRec pos s a).dataPosition + (j + 1) * segCsz (segRec pos s a) := by
    intro j hj
    have hdrop : file.drop (pos + 28 + (segMeta s).length + j * cb) =
        encChunkDaqmx s.chunks[j] ++ ((s.chunks.drop (j + 1)).flatMap encChunkDaqmx ++ rest) := by
      rw [← List.drop_drop, hraw, List.drop_append_of_le_length, C03.drop_flatMap_const _ _ _ hc j hj,
        List.append_assoc]
      rw [Tdms.Proofs.C01Compose.flatMap_length_const _ _ _ hc]
      exact Nat.mul_le_mul_right _ (by omega)
    have hmem : s.chunks[j] ∈ s.chunks := List.getElem_mem hj
    obtain ⟨st', h1, h2⟩ := readDaqmxChunk_encChunk F file (segRec pos s a) rfl (dataObjs a) W dims hobj hdims'
      s.chunks[j] (hch _ hmem).1 (hch _ hmem).2 j ⟨pos + 28 + (segMeta s).length + j * cb, []⟩ _ hdrop
    refine ⟨st', ?_, ?_⟩
    · rw [hd, hcsz, ← hend]
      exact h1
    · rw [h2, hcsz, hc _ hmem, Nat.succ_mul]
      show pos + 28 + (segMeta s).length + j * cb + cb = pos + 28 + (segMeta s).length + (j * cb + cb)
      omega
  have hat : ∀ j (hj : j < s.chunks.length), daqChunkAt file (segRec pos s a) j =
      .ok (bmChunk s.endian (dataObjs a) 0 s.chunks[j] [],
        (segRec pos s a).dataPosition + (j + 1) * segCsz (segRec pos s a)) := by
    intro j hj
    obtain ⟨st', h1, h2⟩ := hchunk j hj
    unfold daqChunkAt
    rw [(posDet_readDaqmxChunk file _ _ j).runAt_of_run h1, h2]
  refine ⟨⟨hkind, hsize, ?_⟩, ?_⟩
  · intro ci hci
    exact ⟨_, _, hat ci hci, fun _ => rfl⟩
  · intro j hj
    unfold daqChunk
    rw [hat j hj]

/-! ## the invariant of `C11Lazy` for one segment -/

theorem csD_of_mem {d : List ActiveObj} (hnd : (d.map (·.path)).Nodup) {x : ActiveObj} (hx : x ∈ d) :
    C04Whole.csD d x.path = (x.idx.map (·.n)).getD 0 := by
  unfold C04Whole.csD
  rw [C04Whole.find_of_nodup_act hnd hx]

theorem csD_not_mem {d : List ActiveObj} {p : Bytes} (hp : p ∉ d.map (·.path)) : C04Whole.csD d p = 0 := by
  cases h : C04Whole.csD d p with
  | zero => rfl
  | succ k => exact absurd (C04Whole.mem_paths_of_csD_ne_zero d p (by rw [h]; simp)) hp

/-- **`SegDOk` for the record of an encoded segment of the class**, for a path `p` that is active with data
    only as a DAQmx object, and a scale id of `p` -/
theorem segDOk_segRec (F : ScF) (file : Bytes) (pos : Nat) (s : SegEnc) (a : List ActiveObj) (rest : Bytes)
    (hfile : file.drop pos = encodeSeg s a ++ rest) (hok : SegOKD GoodDesc F s a) (hnd : (a.map (·.path)).Nodup)
    (hraw : s.chunks ≠ [] → s.rawFlag = true) (p : Bytes) (id : Nat) (hid : id ∈ idsF F p)
    (hp : ∀ x ∈ dataObjs a, x.path = p → isDaqmxObj x = true) :
    SegDOk file (segRec pos s a) p id := by
  refine ⟨tag_segRec file pos s a rest hfile, noRaw_segRec pos s a hraw, ?_⟩
  rw [C04Whole.layoutOf_segRec pos s a hnd p]
  simp only []
  have hE := segEager_segRec F file pos s a rest hfile hok hnd
  have hdnd := dataObjs_nodup hnd
  by_cases hmem : p ∈ (dataObjs a).map (·.path)
  · obtain ⟨x, hx, rfl⟩ := List.mem_map.mp hmem
    have hq := hp x hx rfl
    rcases hok.layout with hl | hl
    · -- a standard segment has no DAQmx data object
      have := hl.noDaq
      rw [List.any_eq_false] at this
      exact absurd hq (this x hx)
    · have hany := daqLayout_any hl
      obtain ⟨W, hobj, hch⟩ := hl.width
      obtain ⟨dg, n, sc, hi, hd⟩ := hobj x hx
      have hds : daqScalers x = sc := by simp [daqScalers, hi]
      have hidx : id ∈ (daqScalers x).map (·.scaleId) := by
        rw [hds]
        simpa only [idsF, hd.types, Option.getD_some, scTypesOf_ids] using hid
      have hcs : C04Whole.csD (dataObjs a) x.path = n := by rw [csD_of_mem hdnd hx, hi]; rfl
      obtain ⟨hdaq, hchunks⟩ := daqOk_segRec F file pos s a rest hfile hok hl
      have hsc : ∀ j (hj : j < s.chunks.length),
          ScChunk id n (RawChunk.get (daqChunk file (segRec pos s a) j) x.path) := by
        intro j hj
        rw [hchunks j hj]
        exact scChunk_bmChunk s.endian (dataObjs a) hdnd hobj _ (hch _ (List.getElem_mem hj)) x hx _ hi id hidx
      have hkeys : ∀ j, j < s.chunks.length → ((daqChunk file (segRec pos s a) j).map (·.1)).Nodup := by
        intro j hj
        rw [hchunks j hj]
        exact (keys_bmChunk s.endian (dataObjs a) hdnd _).1
      rw [hcs]
      by_cases hn : n = 0
      · left
        refine ⟨hn, ?_⟩
        rw [segEager_daq file _ hdaq]
        unfold streamSc
        rw [List.flatMap_append]
        have hpre : ((if !hasFlag (segRec pos s a).toc kTocRawData then [([] : RawChunk)] else []).flatMap
            fun c => chunkSc c x.path id) = [] := by
          split <;> simp [chunkSc]
        rw [hpre, List.nil_append, List.flatMap_map]
        apply List.flatMap_eq_nil_iff.mpr
        intro j hj
        have hj' : j < s.chunks.length := List.mem_range.mp hj
        rw [chunkSc_nodup _ _ _ (hkeys j hj')]
        have := (scChunk_entry (hsc j hj')).1
        rw [hn] at this
        exact List.eq_nil_of_length_eq_zero this
      · right
        refine ⟨hn, hdaq, hkeys, ?_⟩
        intro j hj
        have hj' : j < s.chunks.length := hj
        have hlen : (⟨n, s.chunks.length, none⟩ : SegL).chunkLen j = n := by
          unfold SegL.chunkLen
          simp
        have hlay : layoutOf x.path (segRec pos s a) = ⟨n, s.chunks.length, none⟩ := by
          rw [C04Whole.layoutOf_segRec pos s a hnd x.path, hcs]
        rw [hlay, hlen]
        exact hsc j hj'
  · left
    refine ⟨csD_not_mem hmem, ?_⟩
    rw [hE]
    apply streamSc_not_key
    intro c hc hk
    exact hmem (keys_rawChunksOfSegD s a hnd c hc p hk)

end Tdms.Proofs.C11Whole
