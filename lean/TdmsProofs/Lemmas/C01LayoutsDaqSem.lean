/-
  C01 with DAQmx segments, the spec side: what `denoteSeg` does to the values (`valsOf`) and to the scaler
  dictionaries (`scalOf`, through `lookupV` and the id lists) of the content, segment by segment, and the
  invariant `CInv` (entries without type are empty; DAQmx raw-data entries hold no plain values and exactly
  the scale ids of the file; other entries hold no scalers).  Core Lean only.
-/
import TdmsProofs.Lemmas.C01LayoutsDaqDict

namespace Tdms.Proofs.C01Layouts

open Tdms Tdms.Generated Tdms.Model Tdms.Proofs.C02 Tdms.Proofs.C01Multi
open Tdms.Proofs.C01Compose (bump)

/-! ## scaler dictionaries of the content -/

def scalOf (c : Content) (p : Bytes) : ScalDict := ((c.find? (·.path = p)).map (·.scalers)).getD []

theorem scalOf_modify (c : Content) (q : Bytes) (f : ObjContent → ObjContent) (hf : ∀ x, (f x).path = x.path)
    (p : Bytes) :
    scalOf (c.modify q f) p =
      if p = q then (f ((c.find? (·.path = q)).getD (dflt q))).scalers else scalOf c p := by
  unfold scalOf
  rw [find_modify c q p f hf]
  by_cases h : p = q <;> simp [h]

theorem scalOf_modify_same (c : Content) (q : Bytes) (f : ObjContent → ObjContent)
    (hf : ∀ x, (f x).path = x.path) (hs : ∀ x, (f x).scalers = x.scalers) : scalOf (c.modify q f) = scalOf c := by
  funext p
  rw [scalOf_modify c q f hf]
  by_cases h : p = q
  · subst h
    simp only [if_true, hs, scalOf]
    cases c.find? (·.path = p) <;> rfl
  · simp [h]

theorem scalOf_modify_append (c : Content) (q : Bytes) (id : Nat) (v : List Bytes) (p : Bytes) :
    scalOf (c.modify q fun o => { o with scalers := appendScaler o.scalers id v }) p =
      if p = q then appendScaler (scalOf c q) id v else scalOf c p := by
  rw [scalOf_modify c q (fun o => { o with scalers := appendScaler o.scalers id v }) (fun _ => rfl)]
  by_cases h : p = q
  · subst h
    simp only [if_true, scalOf]
    cases c.find? (·.path = p) <;> rfl
  · simp [h]

/-- items a list of (path, items) entries holds for a path -/
def itemsAt (ents : List (Bytes × ScalDict)) (p : Bytes) : ScalDict :=
  (ents.filter fun pe => decide (pe.1 = p)).flatMap (·.2)

theorem itemsAt_cons (pe : Bytes × ScalDict) (ents : List (Bytes × ScalDict)) (p : Bytes) :
    itemsAt (pe :: ents) p = (if pe.1 = p then pe.2 else []) ++ itemsAt ents p := by
  unfold itemsAt
  rw [List.filter_cons]
  by_cases h : pe.1 = p <;> simp [h]

theorem itemsAt_append (a b : List (Bytes × ScalDict)) (p : Bytes) :
    itemsAt (a ++ b) p = itemsAt a p ++ itemsAt b p := by
  simp [itemsAt, List.filter_append]

/-- the scaler items of one DAQmx object for the buffers of a chunk (any number of buffers) -/
def scalItemsG (e : Endian) (x : ActiveObj) (bufs : List (List Bytes)) : ScalDict :=
  match x.idx with
  | some (.daq dg _ _ sc _) => sc.map fun s => (s.scaleId, (bufs.getD s.buffer []).map (scalerValue e dg s))
  | _ => []

/-- one DAQmx object of raw type: its scalers are appended, nothing else changes -/
theorem scalOf_addDaqmxObj (e : Endian) (bufs : List (List Bytes)) (c : Content) (x : ActiveObj)
    (hraw : ∀ dg ty n sc w, x.idx = some (.daq dg ty n sc w) → ty = tyDaqmxRaw) (p : Bytes) :
    scalOf (addDaqmxObj e bufs c x) p =
      if p = x.path then (scalItemsG e x bufs).foldl stepS (scalOf c p) else scalOf c p := by
  unfold addDaqmxObj scalItemsG
  cases hi : x.idx with
  | none => simp
  | some d =>
    cases d with
    | std ty n total => simp
    | daq dg ty n sc w =>
      have hty := hraw dg ty n sc w hi
      subst hty
      simp only [if_true]
      suffices h : ∀ (scs : List ScalerEnc) (c' : Content),
          scalOf (scs.foldl (fun c s => c.modify x.path fun o =>
            { o with scalers := appendScaler o.scalers s.scaleId ((bufs.getD s.buffer []).map (scalerValue e dg s)) }) c') p =
          if p = x.path then
            (scs.map fun s => (s.scaleId, (bufs.getD s.buffer []).map (scalerValue e dg s))).foldl stepS (scalOf c' p)
          else scalOf c' p from h sc c
      intro scs
      induction scs with
      | nil => intro c'; simp
      | cons s ss ih =>
        intro c'
        rw [List.foldl_cons, ih, List.map_cons, List.foldl_cons]
        by_cases hp : p = x.path
        · subst hp
          simp only [if_true, scalOf_modify_append, stepS]
        · simp only [hp, if_false, scalOf_modify_append]

theorem valsOf_addDaqmxObj (e : Endian) (bufs : List (List Bytes)) (c : Content) (x : ActiveObj)
    (hraw : ∀ dg ty n sc w, x.idx = some (.daq dg ty n sc w) → ty = tyDaqmxRaw) :
    valsOf (addDaqmxObj e bufs c x) = valsOf c := by
  unfold addDaqmxObj
  cases hi : x.idx with
  | none => rfl
  | some d =>
    cases d with
    | std ty n total => rfl
    | daq dg ty n sc w =>
      have hty := hraw dg ty n sc w hi
      subst hty
      simp only [if_true]
      suffices h : ∀ (scs : List ScalerEnc) (c' : Content),
          valsOf (scs.foldl (fun c s => c.modify x.path fun o =>
            { o with scalers := appendScaler o.scalers s.scaleId ((bufs.getD s.buffer []).map (scalerValue e dg s)) }) c') =
          valsOf c' from h sc c
      intro scs
      induction scs with
      | nil => intro c'; rfl
      | cons s ss ih =>
        intro c'
        rw [List.foldl_cons, ih]
        exact valsOf_modify_same _ _ _ (fun _ => rfl) (fun _ => rfl)

/-- (path, items) entries of one DAQmx chunk -/
def daqEntsOfChunk (e : Endian) (d : List ActiveObj) (ch : List (List Bytes)) : List (Bytes × ScalDict) :=
  d.map fun x => (x.path, scalItemsG e x ch)

theorem scalOf_daqChunk (e : Endian) (ch : List (List Bytes)) : ∀ (d : List ActiveObj) (c : Content),
    (∀ x ∈ d, ∀ dg ty n sc w, x.idx = some (.daq dg ty n sc w) → ty = tyDaqmxRaw) → ∀ p,
    scalOf (d.foldl (addDaqmxObj e ch) c) p = (itemsAt (daqEntsOfChunk e d ch) p).foldl stepS (scalOf c p) := by
  intro d
  induction d with
  | nil => intro c _ p; rfl
  | cons x xs ih =>
    intro c hraw p
    rw [List.foldl_cons, ih _ (fun y hy => hraw y (List.mem_cons_of_mem _ hy)),
      scalOf_addDaqmxObj e ch c x (hraw x List.mem_cons_self)]
    simp only [daqEntsOfChunk, List.map_cons, itemsAt_cons, List.foldl_append]
    by_cases hp : p = x.path
    · subst hp; simp
    · have : ¬ x.path = p := fun e => hp e.symm
      simp [hp, this]

theorem valsOf_daqChunk (e : Endian) (ch : List (List Bytes)) : ∀ (d : List ActiveObj) (c : Content),
    (∀ x ∈ d, ∀ dg ty n sc w, x.idx = some (.daq dg ty n sc w) → ty = tyDaqmxRaw) →
    valsOf (d.foldl (addDaqmxObj e ch) c) = valsOf c := by
  intro d
  induction d with
  | nil => intro c _; rfl
  | cons x xs ih =>
    intro c hraw
    rw [List.foldl_cons, ih _ (fun y hy => hraw y (List.mem_cons_of_mem _ hy)),
      valsOf_addDaqmxObj e ch c x (hraw x List.mem_cons_self)]

theorem scalOf_addStdChunk : ∀ (d : List ActiveObj) (ch : List (List Bytes)) (c : Content),
    scalOf (addStdChunk c d ch) = scalOf c := by
  intro d
  induction d with
  | nil => intro ch c; cases ch <;> rfl
  | cons a as ih =>
    intro ch c
    cases ch with
    | nil => rfl
    | cons v vs =>
      rw [addStdChunk, ih]
      exact scalOf_modify_same _ _ _ (fun _ => rfl) (fun _ => rfl)

theorem scalOf_applyProps : ∀ (os : List ObjEnc) (c : Content), scalOf (applyProps c os) = scalOf c := by
  intro os
  induction os with
  | nil => intro c; rfl
  | cons o os ih =>
    intro c
    rw [applyProps, ih]
    exact scalOf_modify_same _ _ _ (fun _ => rfl) (fun _ => rfl)

theorem colN_empty_vals (sc : List ScalerEnc) (id : Nat) :
    colN (sc.map fun s => (s.scaleId, ([] : List Bytes))) id = [] := by
  induction sc with
  | nil => rfl
  | cons s ss ih =>
    rw [List.map_cons, colN_cons, ih]
    split <;> rfl

/-- declaring the objects does not change any scaler values -/
theorem lookupV_declareObjs : ∀ (act : List ActiveObj) (c : Content) (p : Bytes) (id : Nat),
    lookupV (scalOf (declareObjs c act) p) id = lookupV (scalOf c p) id := by
  intro act
  induction act with
  | nil => intro c p id; rfl
  | cons a as ih =>
    intro c p id
    rw [declareObjs_cons, ih, scalOf_modify c a.path (declFD a) (fun _ => rfl)]
    by_cases hp : p = a.path
    · rw [hp]
      simp only [if_true]
      have hent : ((c.find? (·.path = a.path)).getD (dflt a.path)).scalers = scalOf c a.path := by
        unfold scalOf
        cases c.find? (·.path = a.path) <;> rfl
      unfold declFD
      simp only []
      cases hi : a.idx with
      | none => simp only [hent]
      | some d =>
        cases d with
        | std ty n total => simp only [hent]
        | daq dg ty n sc w =>
          simp only []
          split
          · rw [hent]
            have : sc.foldl (fun l s => appendScaler l s.scaleId []) (scalOf c a.path) =
                (sc.map fun s => (s.scaleId, ([] : List Bytes))).foldl stepS (scalOf c a.path) := by
              rw [List.foldl_map]; rfl
            rw [this, lookupV_fold, colN_empty_vals, List.append_nil]
          · rw [hent]
    · simp [hp]

/-! ## all chunks of a segment -/

/-- the (path, items) entries of a segment: one per data object and chunk, in file order (DAQmx segments
    only) -/
def daqEnts (s : SegEnc) (a : List ActiveObj) : List (Bytes × ScalDict) :=
  if (dataObjs a).any isDaqmxObj then s.chunks.flatMap (daqEntsOfChunk s.endian (dataObjs a)) else []

/-- the (path, values) pairs of a segment (standard segments only) -/
def stdPairs (s : SegEnc) (a : List ActiveObj) : List (Bytes × List Bytes) :=
  if (dataObjs a).any isDaqmxObj then [] else segPairs s a

theorem addChunk_daq (s : SegEnc) (a : List ActiveObj) (h : (dataObjs a).any isDaqmxObj = true) (c : Content)
    (ch : List (List Bytes)) : addChunk s a c ch = (dataObjs a).foldl (addDaqmxObj s.endian ch) c := by
  simp only [addChunk, h, if_true]

def AllRaw (d : List ActiveObj) : Prop :=
  ∀ x ∈ d, ∀ dg ty n sc w, x.idx = some (.daq dg ty n sc w) → ty = tyDaqmxRaw

theorem chunks_daq (s : SegEnc) (a : List ActiveObj) (h : (dataObjs a).any isDaqmxObj = true)
    (hraw : AllRaw (dataObjs a)) : ∀ (chs : List (List (List Bytes))) (c : Content),
    valsOf (chs.foldl (addChunk s a) c) = valsOf c ∧
    ∀ p, scalOf (chs.foldl (addChunk s a) c) p =
      (itemsAt (chs.flatMap (daqEntsOfChunk s.endian (dataObjs a))) p).foldl stepS (scalOf c p) := by
  intro chs
  induction chs with
  | nil => intro c; exact ⟨rfl, fun _ => rfl⟩
  | cons ch chs ih =>
    intro c
    obtain ⟨h1, h2⟩ := ih (addChunk s a c ch)
    rw [List.foldl_cons]
    refine ⟨?_, ?_⟩
    · rw [h1, addChunk_daq s a h, valsOf_daqChunk _ _ _ _ hraw]
    · intro p
      rw [h2, addChunk_daq s a h, scalOf_daqChunk _ _ _ _ hraw, List.flatMap_cons, itemsAt_append,
        List.foldl_append]

theorem chunks_std_scal (s : SegEnc) (a : List ActiveObj) (h : (dataObjs a).any isDaqmxObj = false) :
    ∀ (chs : List (List (List Bytes))) (c : Content), scalOf (chs.foldl (addChunk s a) c) = scalOf c := by
  intro chs
  induction chs with
  | nil => intro c; rfl
  | cons ch chs ih =>
    intro c
    rw [List.foldl_cons, ih, addChunk_std s a h, scalOf_addStdChunk]

/-- **one segment, values**: a standard segment appends its pairs, a DAQmx segment (raw types) nothing -/
theorem valsOf_denoteSegD (c : Content) (s : SegEnc) (a : List ActiveObj) (hraw : AllRaw (dataObjs a)) :
    valsOf (denoteSeg c s a) = (stdPairs s a).foldl bump (valsOf c) := by
  unfold stdPairs
  cases hq : (dataObjs a).any isDaqmxObj with
  | false => simp only [Bool.false_eq_true, if_false]; exact valsOf_denoteSeg c s a hq
  | true =>
    simp only [if_true, List.foldl_nil]
    unfold denoteSeg
    rw [(chunks_daq s a hq hraw s.chunks _).1]
    cases s.hasMeta
    · simp only [Bool.false_eq_true, if_false]; exact valsOf_declareObjs a c
    · simp only [if_true]; rw [valsOf_applyProps, valsOf_declareObjs]

/-- **one segment, scaler values** -/
theorem lookupV_denoteSeg (c : Content) (s : SegEnc) (a : List ActiveObj) (hraw : AllRaw (dataObjs a))
    (p : Bytes) (id : Nat) :
    lookupV (scalOf (denoteSeg c s a) p) id = lookupV (scalOf c p) id ++ colN (itemsAt (daqEnts s a) p) id := by
  have hbase : ∀ c0, (c0 = declareObjs c a ∨ c0 = applyProps (declareObjs c a) s.objs) →
      lookupV (scalOf c0 p) id = lookupV (scalOf c p) id := by
    intro c0 h
    rcases h with rfl | rfl
    · exact lookupV_declareObjs a c p id
    · rw [scalOf_applyProps]; exact lookupV_declareObjs a c p id
  unfold daqEnts denoteSeg
  simp only []
  cases hq : (dataObjs a).any isDaqmxObj with
  | false =>
    simp only [Bool.false_eq_true, if_false, itemsAt, List.filter_nil, List.flatMap_nil, colN, List.append_nil]
    rw [chunks_std_scal s a hq]
    split
    · exact hbase _ (Or.inr rfl)
    · exact hbase _ (Or.inl rfl)
  | true =>
    simp only [if_true]
    rw [(chunks_daq s a hq hraw s.chunks _).2, lookupV_fold]
    congr 1
    split
    · exact hbase _ (Or.inr rfl)
    · exact hbase _ (Or.inl rfl)

end Tdms.Proofs.C01Layouts
