import TdmsProofs.Lemmas.TiedRepr

/-!
# Lemmas for the C11 tied theorems (`_lists_are_equal`, `get_buffer_dimensions`,
`get_daqmx_chunk_size`, `get_daqmx_final_chunk_lengths` of `nptdms/daqmx.py`)

Three layers:

1. generic lemmas about the `Py.*` operations (namespace `Tdms.Generated.Py`; candidates for
   `TiedPrelude.lean`), the most important being `forE_transport` / `mapE_transport`: a loop over
   represented values with a represented state is the representation of a loop over the originals as
   soon as every iteration is;
2. `N.*`: the three Python functions once more, over the MODEL's types (`Nat`, `SegObj`, …) but with
   Python's exceptions and Python's control flow.  `get_…_eq` prove, by unfolding the GENERATED definitions
   and discharging each loop iteration by case analysis and `simp`, that the generated definition is exactly
   the image of the `N.*` function;
3. `N.*` against the model (`bufferDimensions`, `daqmxBufferLengths`, `daqmxFinalChunkLengths`): pure
   `Nat`/`List` reasoning, independent of the generated code.
-/

set_option linter.unusedSimpArgs false

namespace Tdms.Generated.Py

/-! ## generic: results -/

/-- image of a loop step under a map of the running state -/
def Step.map {σ τ : Type} (r : σ → τ) : Step σ → Step τ
  | .next s => .next (r s)
  | .brk s => .brk (r s)

@[simp] theorem Step.map_next {σ τ : Type} (r : σ → τ) (s : σ) : Step.map r (.next s) = .next (r s) := rfl
@[simp] theorem Step.map_brk {σ τ : Type} (r : σ → τ) (s : σ) : Step.map r (.brk s) = .brk (r s) := rfl

@[simp] theorem map_ok' {ε α β : Type} (f : α → β) (a : α) : Except.map f (.ok a : Except ε α) = .ok (f a) := rfl
@[simp] theorem map_error' {ε α β : Type} (f : α → β) (e : ε) : Except.map f (.error e : Except ε α) = .error e := rfl
@[simp] theorem bind_ok' {ε α β : Type} (a : α) (f : α → Except ε β) : ((Except.ok a : Except ε α) >>= f) = f a := rfl
@[simp] theorem bind_error' {ε α β : Type} (e : ε) (f : α → Except ε β) :
    ((Except.error e : Except ε α) >>= f) = .error e := rfl

@[simp] theorem fmap_ok' {ε α β : Type} (f : α → β) (a : α) : (f <$> (Except.ok a : Except ε α)) = .ok (f a) := rfl
@[simp] theorem fmap_error' {ε α β : Type} (f : α → β) (e : ε) : (f <$> (Except.error e : Except ε α)) = .error e := rfl
@[simp] theorem pure_eq' {ε α : Type} (a : α) : (pure a : Except ε α) = .ok a := rfl
@[simp] theorem throw_eq' {ε α : Type} (e : ε) : (throw e : Except ε α) = .error e := rfl

/-! ## generic: integers -/

theorem natCast_max (a b : Nat) : max (a : Int) (b : Int) = ((max a b : Nat) : Int) := by omega
theorem natCast_min (a b : Nat) : min (a : Int) (b : Int) = ((min a b : Nat) : Int) := by omega

/-! ## generic: sequences -/

/-- `xs[k]` for a non-negative index -/
theorem index_natCast {α : Type} (xs : List α) (k : Nat) :
    index xs (k : Int) = match xs[k]? with | some v => .ok v | none => .error "IndexError" := by
  unfold index
  have h1 : ¬ ((k : Int) < 0) := by omega
  simp only [h1, if_false, Int.toNat_natCast]
  rfl

/-- `xs[k] = v` for a non-negative index -/
theorem setItem_natCast {α : Type} (xs : List α) (k : Nat) (v : α) :
    setItem xs (k : Int) v = if k < xs.length then .ok (xs.set k v) else .error "IndexError" := by
  unfold setItem
  have h1 : ¬ ((k : Int) < 0) := by omega
  simp only [h1, if_false, Int.toNat_natCast]

theorem replicate_natCast {α : Type} (n : Nat) (v : α) : replicate (n : Int) v = List.replicate n v := by
  simp [replicate]

theorem enumerateFrom_map {α β : Type} (f : α → β) (xs : List α) (k : Nat) :
    enumerateFrom (k : Int) (xs.map f) = (xs.zipIdx k).map fun xi => ((xi.2 : Int), f xi.1) := by
  induction xs generalizing k with
  | nil => rfl
  | cons x xs ih =>
    simp only [List.map_cons, enumerateFrom, List.zipIdx_cons]
    have := ih (k + 1)
    rw [Int.natCast_add] at this
    rw [← this]; rfl

/-- `enumerate` of a represented list: the represented elements with their (natural) positions -/
theorem enumerate_map {α β : Type} (f : α → β) (xs : List α) :
    enumerate (xs.map f) = xs.zipIdx.map fun xi => ((xi.2 : Int), f xi.1) := by
  unfold enumerate
  exact enumerateFrom_map f xs 0

/-! ## generic: transport of loops and comprehensions along a representation -/

/-- a `for` loop over represented elements, started in a represented state, whose body maps represented
    element and state to the representation of what `g` does, is the representation of the loop of `g` -/
theorem forE_transport {α β σ τ : Type} (ra : α → β) (rs : σ → τ) (g : α → σ → Except Exc (Step σ))
    (xs : List α) (ys : List β) (s : σ) (t : τ) (body : β → τ → Except Exc (Step τ))
    (hys : ys = xs.map ra) (ht : t = rs s)
    (h : ∀ x ∈ xs, ∀ s, body (ra x) (rs s) = (g x s).map (Step.map rs)) :
    forE ys t body = (forE xs s g).map rs := by
  subst hys; subst ht
  induction xs generalizing s with
  | nil => rfl
  | cons x xs ih =>
    rw [List.map_cons, forE_cons, forE_cons, h x (by simp)]
    cases hg : g x s with
    | error e => rfl
    | ok st =>
      cases st with
      | next s' => exact ih s' (fun y hy => h y (by simp [hy]))
      | brk s' => rfl

/-- the same for a list comprehension -/
theorem mapE_transport {α β γ δ : Type} (ra : α → β) (rc : γ → δ) (g : α → Except Exc γ)
    (xs : List α) (ys : List β) (f : β → Except Exc δ)
    (hys : ys = xs.map ra)
    (h : ∀ x ∈ xs, f (ra x) = (g x).map rc) :
    mapE ys f = (mapE xs g).map (List.map rc) := by
  subst hys
  induction xs with
  | nil => rfl
  | cons x xs ih =>
    simp only [List.map_cons, mapE]
    rw [h x (by simp), ih (fun y hy => h y (by simp [hy]))]
    cases g x with
    | error e => rfl
    | ok y => cases mapE xs g <;> rfl

/-! ## generic: `set`, `min`, dictionaries -/

theorem eraseDups_map_aux {α β : Type} [BEq α] [LawfulBEq α] [BEq β] [LawfulBEq β] (f : α → β)
    (hf : ∀ x y, f x = f y → x = y) (n : Nat) : ∀ l : List α, l.length ≤ n → (l.map f).eraseDups = l.eraseDups.map f := by
  induction n with
  | zero =>
    intro l hl
    have : l = [] := List.eq_nil_of_length_eq_zero (by omega)
    subst this; simp
  | succ n ih =>
    intro l hl
    cases l with
    | nil => simp
    | cons a as =>
      rw [List.map_cons, List.eraseDups_cons, List.eraseDups_cons, List.map_cons]
      have e : (as.map f).filter (fun b => !b == f a) = (as.filter (fun b => !b == a)).map f := by
        rw [List.filter_map]
        congr 1
        apply List.filter_congr
        intro b _
        by_cases hb : b = a
        · subst hb; simp
        · have : f b ≠ f a := fun h => hb (hf _ _ h)
          have h1 : (f b == f a) = false := by simpa using this
          have h2 : (b == a) = false := by simpa using hb
          simp [h1, h2]
      rw [e, ih]
      have := List.length_filter_le (fun b => !b == a) as
      simp only [List.length_cons] at hl
      omega

theorem toSet_map {α β : Type} [BEq α] [LawfulBEq α] [BEq β] [LawfulBEq β] (f : α → β)
    (hf : ∀ x y, f x = f y → x = y) (l : List α) : toSet (l.map f) = (toSet l).map f :=
  eraseDups_map_aux f hf l.length l (Nat.le_refl _)

theorem foldl_min_natCast (l : List Nat) (x : Nat) :
    (l.map fun (n : Nat) => (n : Int)).foldl min (x : Int) = ((l.foldl min x : Nat) : Int) := by
  induction l generalizing x with
  | nil => rfl
  | cons y ys ih =>
    simp only [List.map_cons, List.foldl_cons]
    rw [show min (x : Int) (y : Int) = ((min x y : Nat) : Int) by omega, ih]

/-- `min` of a list of non-negative ints -/
theorem minE_natCast (l : List Nat) :
    minE (l.map fun (n : Nat) => (n : Int)) = match l with
      | [] => .error "ValueError"
      | x :: xs => .ok ((xs.foldl min x : Nat) : Int) := by
  cases l with
  | nil => rfl
  | cons x xs => simp only [List.map_cons, minE, foldl_min_natCast]

theorem Dict.set_map {κ ν μ : Type} [DecidableEq κ] (r : ν → μ) (d : Dict κ ν) (k : κ) (v : ν) :
    Dict.set (d.map fun kv => (kv.1, r kv.2)) k (r v) = (Dict.set d k v).map fun kv => (kv.1, r kv.2) := by
  induction d with
  | nil => rfl
  | cons kv rest ih =>
    obtain ⟨k', v'⟩ := kv
    simp only [List.map_cons, Dict.set]
    by_cases hk : k' = k
    · simp [hk]
    · simp [hk, ih]

end Tdms.Generated.Py

namespace Tdms.Proofs.Tied
open Tdms Tdms.Model Tdms.Generated Tdms.Generated.Code

/-! ## representations -/

/-- the list of `(number of values, width)` tuples -/
def pyDims (dims : List (Nat × Nat)) : List (Int × Int) := dims.map fun (n, w) => ((n : Int), (w : Int))

/-- a list of ints -/
def pyNats (l : List Nat) : List Int := l.map fun (n : Nat) => (n : Int)

/-- every object with data is a DAQmx object.  Python reads `o.daqmx_metadata.…` of every object with data
    (AttributeError on a `TdmsSegmentObject`) whereas the model skips objects without DAQmx metadata; all call
    sites check `_have_daqmx_objects` first. -/
def AllDaq (objs : List SegObj) : Prop := ∀ o ∈ objs, o.hasData = true → o.daq.isSome = true

/-! ## `_lists_are_equal` -/

/-- two lists are equal when they have the same length and agree position by position -/
theorem zip_all_eq (p : Int × Int → Bool) (hp : ∀ x y, p (x, y) = true ↔ x = y) (a b : List Int) :
    (a.length = b.length ∧ List.all (List.zip a b) p = true) ↔ a = b := by
  induction a generalizing b with
  | nil => cases b <;> simp
  | cons x xs ih =>
    cases b with
    | nil => simp
    | cons y ys =>
      simp only [List.length_cons, List.zip_cons_cons, List.all_cons, Bool.and_eq_true, hp,
        List.cons.injEq, Nat.add_right_cancel_iff]
      rw [← ih ys]
      constructor
      · rintro ⟨h1, h2, h3⟩; exact ⟨h2, h1, h3⟩
      · rintro ⟨h2, h1, h3⟩; exact ⟨h1, h2, h3⟩

theorem lists_are_equal_eq (a b : List Int) : _lists_are_equal a b = decide (a = b) := by
  unfold _lists_are_equal
  rw [Bool.eq_iff_iff, decide_eq_true_eq]
  simp only [Py.len_eq, Py.zip, Bool.and_eq_true, decide_eq_true_eq, Int.natCast_inj]
  refine zip_all_eq _ ?_ a b
  intro x y
  simp [eq_comm]

theorem pyNats_inj (a b : List Nat) : pyNats a = pyNats b ↔ a = b := by
  unfold pyNats
  exact List.map_inj_right (fun x y hxy => by omega)

/-! ## `get_buffer_dimensions` over the model's types -/

namespace N

/-- one scaler: grow the buffer it lives in -/
def scalerStep (nv : Nat) (sc : DaqScaler) (dims : List (Nat × Nat)) : Except Py.Exc (Py.Step (List (Nat × Nat))) :=
  match dims[sc.buffer]? with
  | none => .error "IndexError"
  | some (n, w) => .ok (.next (dims.set sc.buffer (max n nv, w)))

/-- the first object with data fixes the widths; the later ones must have the same -/
def startDims (m : DaqMeta) : Option (List Nat × List (Nat × Nat)) → Except Py.Exc (List Nat × List (Nat × Nat))
  | none => .ok (m.widths, m.widths.map fun w => (0, w))
  | some (ws, dims) => if m.widths = ws then .ok (ws, dims) else .error "ValueError"

/-- the running state: `None` before the first object with data, then `raw_data_widths` and `dimensions` -/
abbrev BdState := Option (List Nat × List (Nat × Nat))

/-- one object -/
def objStep (o : SegObj) (s : BdState) : Except Py.Exc (Py.Step BdState) :=
  if o.hasData = false then .ok (.next s)
  else match o.daq with
    | none => .error "AttributeError"
    | some m =>
      match startDims m s with
      | .error e => .error e
      | .ok (ws, dims0) =>
        match Py.forE m.scalers dims0 (scalerStep o.numberValues) with
        | .error e => .error e
        | .ok dims' => .ok (.next (some (ws, dims')))

def dimsOf : BdState → List (Nat × Nat)
  | none => []
  | some (_, dims) => dims

def bufferDims (objs : List SegObj) : Except Py.Exc (List (Nat × Nat)) :=
  (Py.forE objs none objStep).map dimsOf

end N

/-- the two running variables `raw_data_widths`, `dimensions` -/
def pyBdState : N.BdState → Option (List Int) × Option (List (Int × Int))
  | none => (none, none)
  | some (ws, dims) => (some (pyNats ws), some (pyDims dims))

@[simp] theorem pyDaq_widths (m : DaqMeta) : (pyDaq m).raw_data_widths = pyNats m.widths := rfl
@[simp] theorem pyDaq_scalers (m : DaqMeta) : (pyDaq m).scalers = m.scalers.map pyScaler := rfl
@[simp] theorem pyScaler_buffer (sc : DaqScaler) : (pyScaler sc).raw_buffer_index = (sc.buffer : Int) := rfl

theorem index_pyDims (d : List (Nat × Nat)) (k : Nat) :
    Py.index (pyDims d) (k : Int) = match d[k]? with
      | none => .error "IndexError"
      | some nw => .ok ((nw.1 : Int), (nw.2 : Int)) := by
  rw [Py.index_natCast]; unfold pyDims; rw [List.getElem?_map]
  cases d[k]? <;> rfl

theorem setItem_pyDims (d : List (Nat × Nat)) (k : Nat) (a b : Nat) :
    Py.setItem (pyDims d) (k : Int) ((a : Int), (b : Int))
      = if k < d.length then .ok (pyDims (d.set k (a, b))) else .error "IndexError" := by
  rw [Py.setItem_natCast]; unfold pyDims; rw [List.map_set, List.length_map]

theorem pyDims_zero (ws : List Nat) :
    List.map (fun w => ((0 : Int), w)) (pyNats ws) = pyDims (ws.map fun w => (0, w)) := by
  simp [pyDims, pyNats]

/-- one iteration of the loop over the scalers: the body at `(pyScaler sc) (pyDims d)` is the image of
    `N.scalerStep` -/
local macro "tie_scaler_step" : tactic => `(tactic| (
  intro sc _ d
  unfold N.scalerStep
  simp only [pyScaler_buffer, index_pyDims]
  cases h : d[sc.buffer]? with
  | none => simp
  | some nw =>
    have hlt : sc.buffer < d.length := (List.getElem?_eq_some_iff.mp h).1
    simp [Py.natCast_max, setItem_pyDims, hlt]))

theorem get_buffer_dimensions_eq (objs : List SegObj) :
    get_buffer_dimensions (objs.map pyObj) = (N.bufferDims objs).map pyDims := by
  unfold get_buffer_dimensions N.bufferDims
  simp only []
  rw [Py.forE_transport pyObj pyBdState N.objStep objs (objs.map pyObj) none (none, none) _ rfl rfl]
  · cases Py.forE objs none N.objStep with
    | error e => rfl
    | ok s =>
      cases s with
      | none => rfl
      | some wd => rfl
  · intro o _ s
    unfold N.objStep
    cases hd : o.hasData with
    | false => simp [pyObj, hd]
    | true =>
      cases hq : o.daq with
      | none => simp [pyObj, hd, hq, Py.attr]
      | some m =>
        -- the loop over the scalers, for any start value
        have hsc : ∀ (d0 : List (Nat × Nat)) body,
            (∀ sc ∈ m.scalers, ∀ d, body (pyScaler sc) (pyDims d)
              = (N.scalerStep o.numberValues sc d).map (Py.Step.map pyDims)) →
            Py.forE (m.scalers.map pyScaler) (pyDims d0) body
              = (Py.forE m.scalers d0 (N.scalerStep o.numberValues)).map pyDims :=
          fun d0 body h => Py.forE_transport pyScaler pyDims _ m.scalers _ d0 _ body rfl rfl h
        cases s with
        | none =>
          simp only [pyObj, hd, hq, Py.attr, pyBdState, N.startDims, Option.map_some, pyDaq_widths,
            pyDaq_scalers, pyDims_zero, Py.bind_ok', Py.pure_eq', not_true_eq_false, if_false]
          rw [hsc]
          · cases Py.forE m.scalers (m.widths.map fun w => (0, w)) (N.scalerStep o.numberValues) <;>
              simp [pyBdState]
          · tie_scaler_step
        | some wd =>
          obtain ⟨ws, dims⟩ := wd
          simp only [pyObj, hd, hq, Py.attr, Py.notNone, pyBdState, N.startDims, Option.map_some, pyDaq_widths,
            pyDaq_scalers, lists_are_equal_eq, pyNats_inj, Py.bind_ok', Py.pure_eq', Py.throw_eq',
            not_true_eq_false, if_false, decide_eq_true_eq]
          by_cases hw : m.widths = ws
          · simp only [hw, not_true_eq_false, if_false, if_true, Py.bind_ok']
            rw [hsc]
            · cases Py.forE m.scalers dims (N.scalerStep o.numberValues) <;> simp [pyBdState]
            · tie_scaler_step
          · simp [hw]

/-! ## `N.bufferDims` against the model's `bufferDimensions` -/

theorem agrees_map {α β : Type} (r : α → β) (m : Except Err α) (g : Except Py.Exc α) (h : Agrees id m g) :
    Agrees r m (g.map r) := by
  unfold Agrees at *
  cases m with
  | ok v => simp only [id] at h; rw [h]; rfl
  | error e => obtain ⟨x, hx, hm⟩ := h; exact ⟨x, by rw [hx]; rfl, hm⟩

/-- the scaler step of `bufferDimensions` (a local definition there) -/
def mScal (cs : Nat) (acc : Except Err (List (Nat × Nat))) (s : DaqScaler) : Except Err (List (Nat × Nat)) :=
  match acc with
  | .error x => .error x
  | .ok dims =>
    match dims[s.buffer]? with
    | none => .error .other
    | some (n, w) => .ok (dims.set s.buffer (max n cs, w))

/-- the object step of `bufferDimensions` (a local definition there) -/
def mStep (fw : List Nat) (acc : Except Err (List (Nat × Nat))) (m : DaqMeta) : Except Err (List (Nat × Nat)) :=
  match acc with
  | .error x => .error x
  | .ok dims => if m.widths ≠ fw then .error .daqmxWidths else m.scalers.foldl (mScal m.chunkSize) (.ok dims)

theorem bufferDimensions_def (objs : List SegObj) :
    bufferDimensions objs =
      match (objs.filter (·.hasData)).filterMap (·.daq) with
      | [] => .ok []
      | first :: rest => (first :: rest).foldl (mStep first.widths) (.ok (first.widths.map fun w => (0, w))) := by
  unfold bufferDimensions
  simp only []
  cases (objs.filter (·.hasData)).filterMap (·.daq) <;> rfl

theorem mScal_ok (cs : Nat) (dims : List (Nat × Nat)) (s : DaqScaler) :
    mScal cs (.ok dims) s = match dims[s.buffer]? with
      | none => .error .other
      | some (n, w) => .ok (dims.set s.buffer (max n cs, w)) := rfl

theorem mStep_ok (fw : List Nat) (dims : List (Nat × Nat)) (m : DaqMeta) :
    mStep fw (.ok dims) m
      = if m.widths ≠ fw then .error .daqmxWidths else m.scalers.foldl (mScal m.chunkSize) (.ok dims) := rfl

theorem objStep_nodata (o : SegObj) (s : N.BdState) (h : o.hasData = false) : N.objStep o s = .ok (.next s) := by
  simp [N.objStep, h]

theorem objStep_data (o : SegObj) (s : N.BdState) (m : DaqMeta) (h : o.hasData = true) (hq : o.daq = some m) :
    N.objStep o s = match N.startDims m s with
      | .error e => .error e
      | .ok (ws, dims0) =>
        match Py.forE m.scalers dims0 (N.scalerStep o.numberValues) with
        | .error e => .error e
        | .ok dims' => .ok (.next (some (ws, dims'))) := by
  simp [N.objStep, h, hq]

theorem foldl_mScal_error (cs : Nat) (e : Err) (scs : List DaqScaler) :
    scs.foldl (mScal cs) (.error e) = .error e := by
  induction scs with
  | nil => rfl
  | cons s scs ih => exact ih

theorem foldl_mStep_error (fw : List Nat) (e : Err) (ms : List DaqMeta) :
    ms.foldl (mStep fw) (.error e) = .error e := by
  induction ms with
  | nil => rfl
  | cons s scs ih => exact ih

/-- the loop over the scalers of one object: same result, `IndexError` for `.other` -/
theorem scalers_model (cs : Nat) (scs : List DaqScaler) (dims : List (Nat × Nat)) :
    (∃ d', scs.foldl (mScal cs) (.ok dims) = .ok d' ∧ Py.forE scs dims (N.scalerStep cs) = .ok d') ∨
    (scs.foldl (mScal cs) (.ok dims) = .error .other ∧ Py.forE scs dims (N.scalerStep cs) = .error "IndexError") := by
  induction scs generalizing dims with
  | nil => exact .inl ⟨dims, rfl, rfl⟩
  | cons sc scs ih =>
    rw [List.foldl_cons, Py.forE_cons, mScal_ok]
    simp only [N.scalerStep]
    cases h : dims[sc.buffer]? with
    | none => simp only []; right; exact ⟨foldl_mScal_error _ _ _, trivial⟩
    | some nw => exact ih _

/-- from the second object with data on -/
theorem bufferDims_tail (ws : List Nat) (objs : List SegObj) (hdaq : AllDaq objs) (hc : DaqConsistent objs)
    (dims : List (Nat × Nat)) :
    Agrees id (((objs.filter (·.hasData)).filterMap (·.daq)).foldl (mStep ws) (.ok dims))
      ((Py.forE objs (some (ws, dims)) N.objStep).map N.dimsOf) := by
  induction objs generalizing dims with
  | nil => rfl
  | cons o objs ih =>
    have hdaq' : AllDaq objs := fun x hx => hdaq x (by simp [hx])
    have hc' : DaqConsistent objs := fun x hx => hc x (by simp [hx])
    rw [Py.forE_cons]
    cases hd : o.hasData with
    | false =>
      rw [objStep_nodata o _ hd]
      simp only [List.filter_cons, hd]
      exact ih hdaq' hc' dims
    | true =>
      have hs := hdaq o (by simp) hd
      cases hq : o.daq with
      | none => rw [hq] at hs; simp at hs
      | some m =>
        have hcs : o.numberValues = m.chunkSize := hc o (by simp) m hq
        rw [objStep_data o _ m hd hq]
        simp only [List.filter_cons, hd, if_true, List.filterMap_cons, hq, List.foldl_cons, N.startDims, mStep_ok]
        by_cases hw : m.widths = ws
        · simp only [hw, ne_eq, not_true_eq_false, if_false, if_true]
          rw [hcs]
          rcases scalers_model m.chunkSize m.scalers dims with ⟨d', h1, h2⟩ | ⟨h1, h2⟩
          · rw [h1, h2]; exact ih hdaq' hc' d'
          · rw [h1, h2, foldl_mStep_error]
            exact ⟨"IndexError", rfl, by simp [errNames]⟩
        · simp only [hw, ne_eq, not_false_eq_true, if_true, if_false]
          rw [foldl_mStep_error]
          exact ⟨"ValueError", rfl, by simp [errNames]⟩

theorem bufferDims_model (objs : List SegObj) (hdaq : AllDaq objs) (hc : DaqConsistent objs) :
    Agrees id (bufferDimensions objs) (N.bufferDims objs) := by
  induction objs with
  | nil => rfl
  | cons o objs ih =>
    have hdaq' : AllDaq objs := fun x hx => hdaq x (by simp [hx])
    have hc' : DaqConsistent objs := fun x hx => hc x (by simp [hx])
    cases hd : o.hasData with
    | false =>
      have e1 : bufferDimensions (o :: objs) = bufferDimensions objs := by
        rw [bufferDimensions_def, bufferDimensions_def]; simp only [List.filter_cons, hd]; rfl
      have e2 : N.bufferDims (o :: objs) = N.bufferDims objs := by
        unfold N.bufferDims; rw [Py.forE_cons, objStep_nodata o _ hd]
      rw [e1, e2]; exact ih hdaq' hc'
    | true =>
      have hs := hdaq o (by simp) hd
      cases hq : o.daq with
      | none => rw [hq] at hs; simp at hs
      | some m =>
        have e1 : bufferDimensions (o :: objs)
            = (((o :: objs).filter (·.hasData)).filterMap (·.daq)).foldl (mStep m.widths)
                (.ok (m.widths.map fun w => (0, w))) := by
          rw [bufferDimensions_def]; simp only [List.filter_cons, hd, if_true, List.filterMap_cons, hq]
        have e2 : N.bufferDims (o :: objs)
            = (Py.forE (o :: objs) (some (m.widths, m.widths.map fun w => (0, w))) N.objStep).map N.dimsOf := by
          unfold N.bufferDims
          rw [Py.forE_cons, Py.forE_cons, objStep_data o _ m hd hq, objStep_data o _ m hd hq]
          simp [N.startDims]
        rw [e1, e2]
        exact bufferDims_tail m.widths (o :: objs) hdaq hc _

/-! ## `get_daqmx_final_chunk_lengths` over the model's types -/

namespace N

/-- one buffer `(orig_length, width)` at position `k`; running state `updated_buffer_lengths`, `bytes_remaining` -/
def lenStep (nwk : (Nat × Nat) × Nat) (s : List Nat × Nat) : Except Py.Exc (Py.Step (List Nat × Nat)) :=
  if s.2 > nwk.1.1 * nwk.1.2 then
    if nwk.2 < s.1.length then .ok (.next (s.1.set nwk.2 nwk.1.1, s.2 - nwk.1.1 * nwk.1.2))
    else .error "IndexError"
  else if nwk.1.2 = 0 then .error "ZeroDivisionError"
  else if nwk.2 < s.1.length then .ok (.brk (s.1.set nwk.2 (s.2 / nwk.1.2), s.2))
  else .error "IndexError"

def bufferLens (dims : List (Nat × Nat)) (rem : Nat) : Except Py.Exc (List Nat × Nat) :=
  Py.forE dims.zipIdx (List.replicate dims.length 0, rem) lenStep

def lookup (lens : List Nat) (k : Nat) : Except Py.Exc Nat :=
  match lens[k]? with
  | some v => .ok v
  | none => .error "IndexError"

def minN : List Nat → Except Py.Exc Nat
  | [] => .error "ValueError"
  | x :: xs => .ok (xs.foldl min x)

/-- one object; running state `object_lengths` -/
def objLen (lens : List Nat) (o : SegObj) (ol : List (Bytes × Nat)) : Except Py.Exc (Py.Step (List (Bytes × Nat))) :=
  if o.hasData = false then .ok (.next ol)
  else match o.daq with
    | none => .error "AttributeError"
    | some m =>
      match Py.mapE (Py.toSet (m.scalers.map (·.buffer))) (lookup lens) with
      | .error e => .error e
      | .ok t5 =>
        match minN t5 with
        | .error e => .error e
        | .ok t6 => .ok (.next (Py.Dict.set ol o.path t6))

def finalLengths (objs : List SegObj) (rem : Nat) : Except Py.Exc (List (Bytes × Nat)) :=
  match bufferDims objs with
  | .error e => .error e
  | .ok dims =>
    match bufferLens dims rem with
    | .error e => .error e
    | .ok lr => Py.forE objs [] (objLen lr.1)

end N

/-- `updated_buffer_lengths`, `bytes_remaining` -/
def pyLenState (s : List Nat × Nat) : List Int × Int := (pyNats s.1, (s.2 : Int))

/-- an element of `enumerate(buffer_dims)` -/
def pyEnumDim (nwk : (Nat × Nat) × Nat) : Int × Int × Int := ((nwk.2 : Int), ((nwk.1.1 : Int), (nwk.1.2 : Int)))

theorem enumerate_pyDims (dims : List (Nat × Nat)) : Py.enumerate (pyDims dims) = dims.zipIdx.map pyEnumDim := by
  unfold pyDims
  rw [Py.enumerate_map]
  rfl

theorem setItem_pyNats (l : List Nat) (k v : Nat) :
    Py.setItem (pyNats l) (k : Int) (v : Int) = if k < l.length then .ok (pyNats (l.set k v)) else .error "IndexError" := by
  rw [Py.setItem_natCast]; unfold pyNats; rw [List.map_set, List.length_map]

theorem index_pyNats (l : List Nat) (k : Nat) :
    Py.index (pyNats l) (k : Int) = (N.lookup l k).map fun (n : Nat) => (n : Int) := by
  rw [Py.index_natCast]; unfold pyNats N.lookup; rw [List.getElem?_map]
  cases l[k]? <;> rfl

theorem minE_pyNats (l : List Nat) : Py.minE (pyNats l) = (N.minN l).map fun (n : Nat) => (n : Int) := by
  unfold pyNats; rw [Py.minE_natCast]
  cases l <;> rfl

theorem toSet_pyNats (l : List Nat) : Py.toSet (pyNats l) = pyNats (Py.toSet l) :=
  Py.toSet_map _ (fun x y h => by omega) l

theorem set_pyDict (d : List (Bytes × Nat)) (k : Bytes) (v : Nat) :
    Py.Dict.set (pyDict d) k (v : Int) = pyDict (Py.Dict.set d k v) :=
  Py.Dict.set_map (fun (n : Nat) => (n : Int)) d k v

/-- the buffer indices of the scalers of an object -/
theorem map_pyScaler (f : DaqMxScaler → Int) (hf : ∀ sc, f (pyScaler sc) = (sc.buffer : Int)) (scs : List DaqScaler) :
    List.map f (scs.map pyScaler) = pyNats (scs.map (·.buffer)) := by
  simp [pyNats, hf]

theorem mapE_index_pyNats (lens ks : List Nat) :
    Py.mapE (pyNats ks) (fun i => Py.index (pyNats lens) i) = (Py.mapE ks (N.lookup lens)).map pyNats :=
  Py.mapE_transport (fun (n : Nat) => (n : Int)) (fun (n : Nat) => (n : Int)) (N.lookup lens) ks _ _ rfl
    (fun k _ => index_pyNats lens k)

theorem natCast_mul_gt (r n w : Nat) : ((r : Int) > (n : Int) * (w : Int)) ↔ r > n * w := by
  rw [← Int.natCast_mul]; omega

theorem natCast_sub_mul (r n w : Nat) (h : r > n * w) : (r : Int) - (n : Int) * (w : Int) = ((r - n * w : Nat) : Int) := by
  rw [← Int.natCast_mul]; omega

theorem get_daqmx_final_chunk_lengths_eq (objs : List SegObj) (rem : Nat) :
    get_daqmx_final_chunk_lengths (objs.map pyObj) (rem : Int) = (N.finalLengths objs rem).map pyDict := by
  unfold get_daqmx_final_chunk_lengths N.finalLengths
  rw [get_buffer_dimensions_eq]
  cases N.bufferDims objs with
  | error e => rfl
  | ok dims =>
    simp only [Py.map_ok', Py.bind_ok']
    unfold N.bufferLens
    rw [Py.forE_transport pyEnumDim pyLenState N.lenStep dims.zipIdx _ (List.replicate dims.length 0, rem) _ _
      (enumerate_pyDims dims) ?_ ?_]
    · cases Py.forE dims.zipIdx (List.replicate dims.length 0, rem) N.lenStep with
      | error e => rfl
      | ok lr =>
        simp only [Py.map_ok', Py.bind_ok', pyLenState]
        rw [Py.forE_transport pyObj pyDict (N.objLen lr.1) objs _ [] [] _ rfl rfl ?_]
        intro o _ ol
        unfold N.objLen
        cases hd : o.hasData with
        | false => simp [pyObj, hd]
        | true =>
          cases hq : o.daq with
          | none => simp [pyObj, hd, hq, Py.attr]
          | some m =>
            simp only [pyObj, hd, hq, Py.attr, Option.map_some, pyDaq_scalers, Py.bind_ok', Py.pure_eq',
              not_true_eq_false, if_false]
            rw [map_pyScaler _ (fun _ => rfl), toSet_pyNats, mapE_index_pyNats]
            cases Py.mapE (Py.toSet (m.scalers.map (·.buffer))) (N.lookup lr.1) with
            | error e => rfl
            | ok t5 =>
              simp only [Py.map_ok', Py.bind_ok', minE_pyNats]
              cases N.minN t5 with
              | error e => rfl
              | ok t6 => simp [set_pyDict]
    · simp [pyLenState, pyNats, pyDims, Py.replicate_natCast]
    · intro nwk _ s
      obtain ⟨⟨n, w⟩, k⟩ := nwk
      obtain ⟨ubl, r⟩ := s
      simp only [pyEnumDim, pyLenState, N.lenStep, natCast_mul_gt]
      by_cases hgt : r > n * w
      · by_cases hk : k < ubl.length <;>
          simp [hgt, hk, setItem_pyNats, pyLenState, natCast_sub_mul]
      · rw [if_neg hgt, if_neg hgt]
        by_cases hw : w = 0
        · subst hw; simp [Py.floordiv_zero]
        · rw [if_neg hw, Py.floordiv_natCast r w hw]
          simp only [Py.bind_ok', setItem_pyNats]
          by_cases hk : k < ubl.length <;> simp [hk, pyLenState]

/-! ## `N.finalLengths` against the model's `daqmxFinalChunkLengths` -/

/-- Python divides `bytes_remaining // width` at the first buffer that the remaining bytes do not overfill
    (ZeroDivisionError when that width is 0) whereas the model's `rem / 0` is `0`.  While
    `bytes_remaining > orig_length * width` holds the remainder stays positive, and a positive remainder that is
    `≤ orig_length * width` forces `width > 0`; so the division by zero happens exactly when the remainder is `0`
    at the start and the first buffer has width `0`.  This is the negation of that. -/
def NoZeroDiv (objs : List SegObj) (rem : Nat) : Prop :=
  rem = 0 → ∀ dims nw, bufferDimensions objs = .ok dims → dims.head? = some nw → nw.2 ≠ 0

/-- at the only call site (`_calculate_chunks`) the remainder is positive -/
theorem noZeroDiv_of_pos (objs : List SegObj) (rem : Nat) (h : 0 < rem) : NoZeroDiv objs rem :=
  fun h0 => by omega

theorem set_append_length {α : Type} (pre : List α) (x v : α) (zs : List α) :
    (pre ++ x :: zs).set pre.length v = pre ++ v :: zs := by
  rw [List.set_append_right _ _ (Nat.le_refl _)]; simp

theorem bufferLens_aux (dims : List (Nat × Nat)) (pre : List Nat) (r : Nat)
    (hr : r = 0 → ∀ nw, dims.head? = some nw → nw.2 ≠ 0) :
    ∃ r', Py.forE (dims.zipIdx pre.length) (pre ++ List.replicate dims.length 0, r) N.lenStep
      = .ok (pre ++ daqmxBufferLengths dims r, r') := by
  induction dims generalizing pre r with
  | nil => exact ⟨r, rfl⟩
  | cons nw rest ih =>
    obtain ⟨n, w⟩ := nw
    rw [List.zipIdx_cons, Py.forE_cons]
    simp only [N.lenStep, List.length_cons, List.replicate_succ, daqmxBufferLengths, List.length_append,
      List.length_replicate]
    by_cases hgt : r > n * w
    · have hk : pre.length < pre.length + (rest.length + 1) := by omega
      simp only [hgt, if_true, hk, set_append_length]
      have := ih (pre ++ [n]) (r - n * w) (fun h0 => by omega)
      simp only [List.length_append, List.length_cons, List.length_nil, List.append_assoc, List.cons_append,
        List.nil_append] at this
      exact this
    · have hw : w ≠ 0 := by
        intro hw; subst hw
        exact hr (by omega) (n, 0) rfl rfl
      have hk : pre.length < pre.length + (rest.length + 1) := by omega
      simp only [hgt, if_false, hw, hk, if_true, set_append_length, List.map_const']
      exact ⟨r, rfl⟩

theorem bufferLens_model (dims : List (Nat × Nat)) (rem : Nat)
    (hr : rem = 0 → ∀ nw, dims.head? = some nw → nw.2 ≠ 0) :
    ∃ r', N.bufferLens dims rem = .ok (daqmxBufferLengths dims rem, r') := by
  have := bufferLens_aux dims [] rem hr
  simpa [N.bufferLens] using this

theorem daqmxBufferLengths_length (dims : List (Nat × Nat)) (rem : Nat) :
    (daqmxBufferLengths dims rem).length = dims.length := by
  induction dims generalizing rem with
  | nil => rfl
  | cons nw rest ih =>
    obtain ⟨n, w⟩ := nw
    unfold daqmxBufferLengths
    split <;> simp [ih]

/-! ### every scaler of every object with data points into the buffer dimensions -/

theorem scalers_bounds (cs : Nat) (scs : List DaqScaler) (d d' : List (Nat × Nat))
    (h : Py.forE scs d (N.scalerStep cs) = .ok d') :
    d'.length = d.length ∧ ∀ sc ∈ scs, sc.buffer < d.length := by
  induction scs generalizing d with
  | nil =>
    simp only [Py.forE_nil, Except.ok.injEq] at h
    subst h; exact ⟨rfl, fun _ h => by simp at h⟩
  | cons sc scs ih =>
    rw [Py.forE_cons] at h
    simp only [N.scalerStep] at h
    cases hq : d[sc.buffer]? with
    | none => rw [hq] at h; simp at h
    | some nw =>
      rw [hq] at h
      have hlt : sc.buffer < d.length := (List.getElem?_eq_some_iff.mp hq).1
      obtain ⟨h1, h2⟩ := ih _ h
      rw [List.length_set] at h1 h2
      refine ⟨h1, fun x hx => ?_⟩
      rcases List.mem_cons.mp hx with rfl | hx
      · exact hlt
      · exact h2 x hx

theorem objs_bounds (objs : List SegObj) (s s' : N.BdState) (h : Py.forE objs s N.objStep = .ok s') :
    (∀ ws d, s = some (ws, d) → ∃ d', s' = some (ws, d') ∧ d'.length = d.length) ∧
    (∀ o ∈ objs, o.hasData = true → ∀ m, o.daq = some m → ∀ sc ∈ m.scalers, sc.buffer < (N.dimsOf s').length) := by
  induction objs generalizing s with
  | nil =>
    simp only [Py.forE_nil, Except.ok.injEq] at h
    subst h
    exact ⟨fun ws d hs => ⟨d, hs, rfl⟩, fun _ h => by simp at h⟩
  | cons o objs ih =>
    rw [Py.forE_cons] at h
    cases hd : o.hasData with
    | false =>
      rw [objStep_nodata o s hd] at h
      obtain ⟨h1, h2⟩ := ih s h
      refine ⟨h1, fun x hx hxd => ?_⟩
      rcases List.mem_cons.mp hx with rfl | hx
      · rw [hd] at hxd; simp at hxd
      · exact h2 x hx hxd
    | true =>
      cases hq : o.daq with
      | none => simp [N.objStep, hd, hq] at h
      | some m =>
        rw [objStep_data o s m hd hq] at h
        cases hst : N.startDims m s with
        | error e => rw [hst] at h; simp at h
        | ok wd0 =>
          obtain ⟨ws0, d0⟩ := wd0
          rw [hst] at h
          simp only [] at h
          cases hsc : Py.forE m.scalers d0 (N.scalerStep o.numberValues) with
          | error e => rw [hsc] at h; simp at h
          | ok d1 =>
            rw [hsc] at h
            simp only [] at h
            obtain ⟨b1, b2⟩ := scalers_bounds _ _ _ _ hsc
            obtain ⟨h1, h2⟩ := ih _ h
            obtain ⟨d', hs', hl'⟩ := h1 ws0 d1 rfl
            refine ⟨fun ws d hs => ?_, fun x hx hxd mx hmx sc hsc' => ?_⟩
            · subst hs
              simp only [N.startDims] at hst
              split at hst
              · simp only [Except.ok.injEq, Prod.mk.injEq] at hst
                obtain ⟨rfl, rfl⟩ := hst
                exact ⟨d', hs', by omega⟩
              · simp at hst
            · rcases List.mem_cons.mp hx with rfl | hx
              · rw [hq] at hmx
                simp only [Option.some.injEq] at hmx
                subst hmx
                rw [hs']
                simp only [N.dimsOf]
                have := b2 sc hsc'
                omega
              · exact h2 x hx hxd mx hmx sc hsc'

/-! ### `min` over the set of buffer indices is `min` over the scalers -/

theorem foldl_min_le (xs : List Nat) (x : Nat) : ∀ y ∈ x :: xs, xs.foldl min x ≤ y := by
  induction xs generalizing x with
  | nil => intro y hy; simp at hy; subst hy; exact Nat.le_refl _
  | cons z zs ih =>
    intro y hy
    simp only [List.foldl_cons]
    have h1 := ih (min x z)
    rcases List.mem_cons.mp hy with rfl | hy
    · have := h1 (min y z) (by simp); omega
    · rcases List.mem_cons.mp hy with rfl | hy
      · have := h1 (min x y) (by simp); omega
      · exact h1 y (by simp [hy])

theorem foldl_min_mem (xs : List Nat) (x : Nat) : xs.foldl min x ∈ x :: xs := by
  induction xs generalizing x with
  | nil => simp
  | cons z zs ih =>
    simp only [List.foldl_cons]
    have h1 := ih (min x z)
    rcases List.mem_cons.mp h1 with h | h
    · rw [h]
      by_cases hxz : x ≤ z
      · rw [Nat.min_eq_left hxz]; simp
      · rw [Nat.min_eq_right (by omega)]; simp
    · simp [h]

theorem minN_congr (l1 l2 : List Nat) (h : ∀ x, x ∈ l1 ↔ x ∈ l2) : N.minN l1 = N.minN l2 := by
  cases l1 with
  | nil =>
    cases l2 with
    | nil => rfl
    | cons y ys => have := (h y).mpr (by simp); simp at this
  | cons x xs =>
    cases l2 with
    | nil => have := (h x).mp (by simp); simp at this
    | cons y ys =>
      simp only [N.minN, Except.ok.injEq]
      have a1 := foldl_min_le ys y _ ((h _).mp (foldl_min_mem xs x))
      have a2 := foldl_min_le xs x _ ((h _).mpr (foldl_min_mem ys y))
      omega

theorem mapE_lookup (lens ks : List Nat) (hb : ∀ k ∈ ks, k < lens.length) :
    Py.mapE ks (N.lookup lens) = .ok (ks.map fun k => lens.getD k 0) := by
  induction ks with
  | nil => rfl
  | cons k ks ih =>
    have hk := hb k (by simp)
    simp only [Py.mapE, N.lookup, List.getElem?_eq_getElem hk, ih (fun x hx => hb x (by simp [hx])),
      List.map_cons, List.getD_eq_getElem?_getD, Option.getD_some]

/-- the value computed for one object -/
theorem objLen_val (lens : List Nat) (scs : List DaqScaler) (hb : ∀ sc ∈ scs, sc.buffer < lens.length) :
    (match Py.mapE (Py.toSet (scs.map (·.buffer))) (N.lookup lens) with
      | .error e => .error e
      | .ok t5 => N.minN t5) = N.minN (scs.map fun sc => lens.getD sc.buffer 0) := by
  rw [mapE_lookup]
  · simp only []
    apply minN_congr
    intro x
    simp only [Py.toSet, List.mem_map, List.mem_eraseDups]
    constructor
    · rintro ⟨k, ⟨sc, hsc, rfl⟩, rfl⟩; exact ⟨sc, hsc, rfl⟩
    · rintro ⟨sc, hsc, rfl⟩; exact ⟨sc.buffer, ⟨sc, hsc, rfl⟩, rfl⟩
  · intro k hk
    simp only [Py.toSet, List.mem_eraseDups, List.mem_map] at hk
    obtain ⟨sc, hsc, rfl⟩ := hk
    exact hb sc hsc

/-! ### the loop over the objects -/

/-- the step of the `foldr` of `daqmxFinalChunkLengths` (a local function there) -/
def mLen (lens : List Nat) (o : SegObj) (acc : Except Err (List (Bytes × Nat))) : Except Err (List (Bytes × Nat)) := do
  let rest ← acc
  match o.daq with
  | none => pure rest
  | some m =>
    match m.scalers.map fun sc => lens.getD sc.buffer 0 with
    | [] => throw .other
    | l :: ls => pure ((o.path, ls.foldl min l) :: rest)

theorem daqmxFinalChunkLengths_def (objs : List SegObj) (rem : Nat) :
    daqmxFinalChunkLengths objs rem =
      match bufferDimensions objs with
      | .error e => .error e
      | .ok dims => (objs.filter (·.hasData)).foldr (mLen (daqmxBufferLengths dims rem)) (.ok []) := by
  unfold daqmxFinalChunkLengths
  cases bufferDimensions objs <;> rfl

theorem mLen_eq (lens : List Nat) (o : SegObj) (m : DaqMeta) (hq : o.daq = some m)
    (acc : Except Err (List (Bytes × Nat))) :
    mLen lens o acc = match acc with
      | .error e => .error e
      | .ok rest =>
        match N.minN (m.scalers.map fun sc => lens.getD sc.buffer 0) with
        | .error _ => .error .other
        | .ok v => .ok ((o.path, v) :: rest) := by
  unfold mLen
  rw [hq]
  cases acc with
  | error e => rfl
  | ok rest =>
    cases h : m.scalers.map fun sc => lens.getD sc.buffer 0 with
    | nil => simp only [N.minN, Py.bind_ok', h]; rfl
    | cons l ls => simp only [N.minN, Py.bind_ok', h]; rfl

theorem objLen_data (lens : List Nat) (o : SegObj) (m : DaqMeta) (ol : List (Bytes × Nat))
    (hd : o.hasData = true) (hq : o.daq = some m) (hb : ∀ sc ∈ m.scalers, sc.buffer < lens.length) :
    N.objLen lens o ol = match N.minN (m.scalers.map fun sc => lens.getD sc.buffer 0) with
      | .error e => .error e
      | .ok v => .ok (.next (Py.Dict.set ol o.path v)) := by
  rw [← objLen_val lens m.scalers hb]
  simp only [N.objLen, hd, hq]
  cases Py.mapE (Py.toSet (m.scalers.map (·.buffer))) (N.lookup lens) <;> simp

theorem minN_error (l : List Nat) (e : Py.Exc) (h : N.minN l = .error e) : e = "ValueError" := by
  cases l with
  | nil => simp only [N.minN, Except.error.injEq] at h; exact h.symm
  | cons x xs => simp [N.minN] at h

theorem objLens_model (lens : List Nat) (objs : List SegObj) (hdaq : AllDaq objs)
    (hb : ∀ o ∈ objs, o.hasData = true → ∀ m, o.daq = some m → ∀ sc ∈ m.scalers, sc.buffer < lens.length)
    (hnd : ((objs.filter (·.hasData)).map (·.path)).Nodup)
    (ol : List (Bytes × Nat)) (hol : ∀ kv ∈ ol, kv.1 ∉ (objs.filter (·.hasData)).map (·.path)) :
    match (objs.filter (·.hasData)).foldr (mLen lens) (.ok []) with
    | .ok rest => Py.forE objs ol (N.objLen lens) = .ok (ol ++ rest)
    | .error e => e = .other ∧ ∃ x, Py.forE objs ol (N.objLen lens) = .error x ∧ x ∈ errNames .other := by
  induction objs generalizing ol with
  | nil => simp
  | cons o objs ih =>
    have hdaq' : AllDaq objs := fun x hx => hdaq x (by simp [hx])
    have hb' : ∀ o ∈ objs, o.hasData = true → ∀ m, o.daq = some m → ∀ sc ∈ m.scalers, sc.buffer < lens.length :=
      fun x hx => hb x (by simp [hx])
    rw [Py.forE_cons]
    cases hd : o.hasData with
    | false =>
      simp only [List.filter_cons, hd] at hnd hol ⊢
      simp only [N.objLen, hd, if_true]
      exact ih hdaq' hb' hnd ol hol
    | true =>
      have hs := hdaq o (by simp) hd
      cases hq : o.daq with
      | none => rw [hq] at hs; simp at hs
      | some m =>
        simp only [List.filter_cons, hd, if_true, List.map_cons, List.nodup_cons, List.foldr_cons] at hnd hol ⊢
        rw [objLen_data lens o m ol hd hq (hb o (by simp) hd m hq), mLen_eq lens o m hq]
        have hkey : ∀ kv ∈ ol, kv.1 ≠ o.path := fun kv hkv h => hol kv hkv (by simp [h])
        cases hv : N.minN (m.scalers.map fun sc => lens.getD sc.buffer 0) with
        | error e =>
          have he := minN_error _ _ hv
          subst he
          simp only []
          cases hrest : (objs.filter (·.hasData)).foldr (mLen lens) (.ok []) with
          | error e' =>
            have := ih hdaq' hb' hnd.2 ol (fun kv hkv h => hol kv hkv (by simp [h]))
            rw [hrest] at this
            exact ⟨this.1, "ValueError", rfl, by simp [errNames]⟩
          | ok rest => exact ⟨rfl, "ValueError", rfl, by simp [errNames]⟩
        | ok v =>
          simp only []
          rw [Py.Dict.set_append_of_not_mem ol o.path v hkey]
          have := ih hdaq' hb' hnd.2 (ol ++ [(o.path, v)]) (by
            intro kv hkv
            rcases List.mem_append.mp hkv with h | h
            · intro hm; exact hol kv h (by simp [hm])
            · simp only [List.mem_singleton] at h; subst h; exact hnd.1)
          cases hrest : (objs.filter (·.hasData)).foldr (mLen lens) (.ok []) with
          | error e' => rw [hrest] at this; exact this
          | ok rest => rw [hrest] at this; simp only [] at this ⊢; rw [this]; simp

/-- `N.finalLengths` agrees with the model -/
theorem finalLengths_model (objs : List SegObj) (rem : Nat) (hdaq : AllDaq objs) (hc : DaqConsistent objs)
    (hnd : ((objs.filter (·.hasData)).map (·.path)).Nodup) (hw : NoZeroDiv objs rem) :
    Agrees id (daqmxFinalChunkLengths objs rem) (N.finalLengths objs rem) := by
  have hbd := bufferDims_model objs hdaq hc
  rw [daqmxFinalChunkLengths_def]
  unfold N.finalLengths
  cases hm : bufferDimensions objs with
  | error e =>
    rw [hm] at hbd
    obtain ⟨x, hx, hxe⟩ := hbd
    rw [hx]
    exact ⟨x, rfl, hxe⟩
  | ok dims =>
    rw [hm] at hbd
    simp only [Agrees, id] at hbd
    rw [hbd]
    obtain ⟨r', hr'⟩ := bufferLens_model dims rem (fun h0 nw hnw => hw h0 dims nw hm hnw)
    simp only [hr']
    have hbounds : ∀ o ∈ objs, o.hasData = true → ∀ m, o.daq = some m → ∀ sc ∈ m.scalers,
        sc.buffer < (daqmxBufferLengths dims rem).length := by
      unfold N.bufferDims at hbd
      cases hf : Py.forE objs none N.objStep with
      | error e => rw [hf] at hbd; simp at hbd
      | ok s' =>
        rw [hf] at hbd
        simp only [Py.map_ok', Except.ok.injEq] at hbd
        have := (objs_bounds objs none s' hf).2
        rw [hbd] at this
        rw [daqmxBufferLengths_length]
        exact this
    have := objLens_model (daqmxBufferLengths dims rem) objs hdaq hbounds hnd [] (fun _ h => by simp at h)
    cases hr : (objs.filter (·.hasData)).foldr (mLen (daqmxBufferLengths dims rem)) (.ok []) with
    | error e =>
      rw [hr] at this
      obtain ⟨he, x, hx, hxe⟩ := this
      subst he
      exact ⟨x, hx, hxe⟩
    | ok rest =>
      rw [hr] at this
      simp only [List.nil_append] at this
      exact this

/-! ### the stronger, simpler sufficient condition for `NoZeroDiv`: all raw data widths positive -/

theorem set_snd_eq (d : List (Nat × Nat)) (k n w x : Nat) (h : d[k]? = some (n, w)) :
    (d.set k (x, w)).map (·.2) = d.map (·.2) := by
  obtain ⟨hlt, heq⟩ := List.getElem?_eq_some_iff.mp h
  rw [List.map_set]
  apply List.ext_getElem?
  intro i
  rw [List.getElem?_set]
  split
  · rename_i hik; subst hik
    simp [hlt, heq]
  · rfl

theorem scalers_widths (cs : Nat) (scs : List DaqScaler) (d d' : List (Nat × Nat))
    (h : Py.forE scs d (N.scalerStep cs) = .ok d') : d'.map (·.2) = d.map (·.2) := by
  induction scs generalizing d with
  | nil =>
    simp only [Py.forE_nil, Except.ok.injEq] at h
    subst h; rfl
  | cons sc scs ih =>
    rw [Py.forE_cons] at h
    simp only [N.scalerStep] at h
    cases hq : d[sc.buffer]? with
    | none => rw [hq] at h; simp at h
    | some nw =>
      rw [hq] at h
      rw [ih _ h]
      exact set_snd_eq d sc.buffer nw.1 nw.2 _ hq

/-- the widths of the dimensions are the widths of an object with data -/
theorem objs_widths (objs' objs : List SegObj) (s s' : N.BdState) (h : Py.forE objs s N.objStep = .ok s')
    (hs : ∀ ws d, s = some (ws, d) → d.map (·.2) = ws ∧
      ∃ o ∈ objs', o.hasData = true ∧ ∃ m : DaqMeta, o.daq = some m ∧ m.widths = ws)
    (hsub : ∀ o ∈ objs, o ∈ objs') :
    ∀ ws d, s' = some (ws, d) → d.map (·.2) = ws ∧
      ∃ o ∈ objs', o.hasData = true ∧ ∃ m : DaqMeta, o.daq = some m ∧ m.widths = ws := by
  induction objs generalizing s with
  | nil =>
    simp only [Py.forE_nil, Except.ok.injEq] at h
    subst h; exact hs
  | cons o objs ih =>
    rw [Py.forE_cons] at h
    cases hd : o.hasData with
    | false =>
      rw [objStep_nodata o s hd] at h
      exact ih s h hs (fun x hx => hsub x (by simp [hx]))
    | true =>
      cases hq : o.daq with
      | none => simp [N.objStep, hd, hq] at h
      | some m =>
        rw [objStep_data o s m hd hq] at h
        cases hst : N.startDims m s with
        | error e => rw [hst] at h; simp at h
        | ok wd0 =>
          obtain ⟨ws0, d0⟩ := wd0
          rw [hst] at h
          simp only [] at h
          cases hsc : Py.forE m.scalers d0 (N.scalerStep o.numberValues) with
          | error e => rw [hsc] at h; simp at h
          | ok d1 =>
            rw [hsc] at h
            simp only [] at h
            refine ih _ h ?_ (fun x hx => hsub x (by simp [hx]))
            intro ws d hwd
            simp only [Option.some.injEq, Prod.mk.injEq] at hwd
            obtain ⟨rfl, rfl⟩ := hwd
            rw [scalers_widths _ _ _ _ hsc]
            cases s with
            | none =>
              simp only [N.startDims, Except.ok.injEq, Prod.mk.injEq] at hst
              obtain ⟨rfl, rfl⟩ := hst
              exact ⟨by simp [List.map_map, Function.comp_def], o, hsub o (by simp), hd, m, hq, rfl⟩
            | some wd =>
              obtain ⟨ws, d⟩ := wd
              simp only [N.startDims] at hst
              split at hst
              · simp only [Except.ok.injEq, Prod.mk.injEq] at hst
                obtain ⟨rfl, rfl⟩ := hst
                exact hs _ _ rfl
              · simp at hst

/-- all raw data widths of the objects with data positive: no division by zero -/
theorem noZeroDiv_of_widths_pos (objs : List SegObj) (rem : Nat) (hdaq : AllDaq objs) (hc : DaqConsistent objs)
    (hw : ∀ o ∈ objs, o.hasData = true → ∀ m, o.daq = some m → ∀ w ∈ m.widths, 0 < w) : NoZeroDiv objs rem := by
  intro _ dims nw hm hhead
  have hbd := bufferDims_model objs hdaq hc
  rw [hm] at hbd
  simp only [Agrees, id, N.bufferDims] at hbd
  cases hf : Py.forE objs none N.objStep with
  | error e => rw [hf] at hbd; simp at hbd
  | ok s' =>
    rw [hf] at hbd
    simp only [Py.map_ok', Except.ok.injEq] at hbd
    cases s' with
    | none => simp only [N.dimsOf] at hbd; subst hbd; simp at hhead
    | some wd =>
      obtain ⟨ws, d⟩ := wd
      simp only [N.dimsOf] at hbd; subst hbd
      obtain ⟨h1, o, ho, hd, m, hq, hmw⟩ :=
        objs_widths objs objs none _ hf (fun _ _ h => by simp at h) (fun _ h => h) ws d rfl
      have hmem : nw.2 ∈ m.widths := by
        rw [hmw, ← h1]
        cases d with
        | nil => simp at hhead
        | cons x xs => simp only [List.head?_cons, Option.some.injEq] at hhead; subst hhead; simp
      have := hw o ho hd m hq _ hmem
      omega

/-! ## `get_daqmx_chunk_size` -/

/-- the sum of the buffer sizes -/
theorem sum_pyDims (f : Int × Int → Int) (hf : ∀ n w : Nat, f ((n : Int), (w : Int)) = ((n * w : Nat) : Int))
    (dims : List (Nat × Nat)) :
    Py.sum (List.map f (pyDims dims)) = (((dims.map fun (n, w) => n * w).sum : Nat) : Int) := by
  induction dims with
  | nil => rfl
  | cons nw rest ih =>
    obtain ⟨n, w⟩ := nw
    simp only [pyDims, List.map_cons, Py.sum_cons, List.sum_cons, Int.natCast_add] at ih ⊢
    rw [ih, hf]

theorem get_daqmx_chunk_size_eq (objs : List SegObj) :
    get_daqmx_chunk_size (objs.map pyObj)
      = (N.bufferDims objs).map fun dims => (((dims.map fun (n, w) => n * w).sum : Nat) : Int) := by
  unfold get_daqmx_chunk_size
  rw [get_buffer_dimensions_eq]
  cases N.bufferDims objs with
  | error e => rfl
  | ok dims =>
    simp only [Py.map_ok', Py.bind_ok', Py.pure_eq']
    rw [sum_pyDims _ (fun n w => by simp)]

end Tdms.Proofs.Tied
