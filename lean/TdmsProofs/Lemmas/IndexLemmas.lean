/-
  Raw-data indexes: `readStdIndex`, `readDaqmxIndex` against `encIdx`.  Core Lean only.
-/
import TdmsProofs.Lemmas.MetaLemmas

namespace Tdms.Proofs.Bytes

open Tdms Tdms.Generated Tdms.Model

/-- `x` sits at offset `n` with width `w` -/
theorem slice_mid {pre x post : Bytes} {n w : Nat} (hn : pre.length = n) (hw : x.length = w) :
    ((pre ++ x ++ post).drop n).take w = x := by
  rw [List.append_assoc, List.drop_left' hn, List.take_left' hw]

theorem slice_end {pre x : Bytes} {n : Nat} (hn : pre.length = n) : (pre ++ x).drop n = x :=
  List.drop_left' hn

/-! ## header word and body of an index -/

/-- the 4-byte word that starts a raw-data index -/
def idxHeader : IdxEnc → Nat
  | .noData => rawDataIndexNoData
  | .matchesPrev => rawDataIndexMatchesPrevious
  | .full ty _ _ => if ty = tyString then 28 else 20
  | .daqmx dg _ _ _ _ => if dg then digitalLineScaler else formatChangingScaler

/-- what follows the header word -/
def idxBody (e : Endian) : IdxEnc → Bytes
  | .noData => []
  | .matchesPrev => []
  | .full ty n total =>
    if ty = tyString then enc e 4 ty ++ enc e 4 1 ++ enc e 8 n ++ enc e 8 total
    else enc e 4 ty ++ enc e 4 1 ++ enc e 8 n
  | .daqmx digital ty n scalers widths =>
    enc e 4 ty ++ enc e 4 1 ++ enc e 8 n ++ enc e 4 scalers.length ++
      (scalers.flatMap (encScaler e digital)) ++ enc e 4 widths.length ++ (widths.flatMap (enc e 4))

theorem encIdx_eq (e : Endian) (i : IdxEnc) : encIdx e i = enc e 4 (idxHeader i) ++ idxBody e i := by
  cases i with
  | noData => simp [encIdx, idxHeader, idxBody]
  | matchesPrev => simp [encIdx, idxHeader, idxBody]
  | full ty n total =>
    by_cases h : ty = tyString <;> simp [encIdx, idxHeader, idxBody, h, List.append_assoc]
  | daqmx dg ty n sc w => simp [encIdx, idxHeader, idxBody, List.append_assoc]

theorem idxBody_eq_drop (e : Endian) (i : IdxEnc) : idxBody e i = (encIdx e i).drop 4 := by
  rw [encIdx_eq, List.drop_left' (enc_length e 4 _)]

theorem idxHeader_lt (i : IdxEnc) : idxHeader i < 2 ^ 32 := by
  cases i with
  | noData => decide
  | matchesPrev => decide
  | full ty n total => by_cases h : ty = tyString <;> simp [idxHeader, h]
  | daqmx dg ty n sc w => cases dg <;> simp [idxHeader, digitalLineScaler, formatChangingScaler]

/-- the reader's first step on any index: the header word -/
theorem uN_encIdx_header (e : Endian) (i : IdxEnc) (rest : Bytes) :
    uN e 4 (encIdx e i ++ rest) = .ok (idxHeader i, idxBody e i ++ rest) := by
  rw [encIdx_eq, List.append_assoc]
  exact uN_enc_of_lt e (idxHeader_lt i) _

/-! ## standard index -/

theorem knownType_of_typeSize {ty sz : Nat} (h : typeSize ty = some sz) : knownType ty = true := by
  obtain ⟨ti, hti, _⟩ := typeSize_some h
  simp [knownType, hti]

theorem knownType_tyString : knownType tyString = true := by decide

/-- the object `read_raw_data_index` produces -/
def stdIndexObj (o : SegObj) (ty n total : Nat) : SegObj :=
  { o with numberValues := n, dataType := some ty,
           dataSize := if ty = tyString then total else n * (typeSize ty).getD 0 }

theorem std16_slices (e : Endian) (ty n : Nat) :
    let b := enc e 4 ty ++ enc e 4 1 ++ enc e 8 n
    b.take 4 = enc e 4 ty ∧ (b.drop 4).take 4 = enc e 4 1 ∧ b.drop 8 = enc e 8 n ∧ b.length = 16 := by
  intro b
  refine ⟨?_, ?_, ?_, ?_⟩
  · show (enc e 4 ty ++ enc e 4 1 ++ enc e 8 n).take 4 = _
    rw [List.append_assoc]; exact List.take_left' (enc_length e 4 ty)
  · exact slice_mid (enc_length e 4 ty) (enc_length e 4 1)
  · exact slice_end (by simp)
  · show (enc e 4 ty ++ enc e 4 1 ++ enc e 8 n).length = 16
    simp

theorem readStdIndex_core (e : Endian) (o : SegObj) (ty n : Nat) (rest : Bytes)
    (hty : ty < 2 ^ 32) (hn : n < 2 ^ 64) (hk : knownType ty = true)
    (hs : (typeSize ty).isSome = true ∨ ty = tyString) :
    readStdIndex e o (enc e 4 ty ++ enc e 4 1 ++ enc e 8 n ++ rest) =
      (if ty = tyString then do
          let total ← uN e 8
          pure { o with numberValues := n, dataType := some ty, dataSize := total }
        else
          pure { o with numberValues := n, dataType := some ty,
                        dataSize := n * (typeSize ty).getD 0 } : P SegObj) rest := by
  obtain ⟨h1, h2, h3, h4⟩ := std16_slices e ty n
  have d1 : dec e (enc e 4 ty) = ty := dec_enc_of_lt e (w := 4) hty
  have d2 : dec e (enc e 4 1) = 1 := dec_enc_of_lt e (w := 4) (by decide)
  have d3 : dec e (enc e 8 n) = n := dec_enc_of_lt e (w := 8) hn
  have hs' : ¬ (typeSize ty = none ∧ ¬ ty = tyString) := by
    rcases hs with h | h
    · intro ⟨h', _⟩; simp [h'] at h
    · intro ⟨_, h'⟩; exact h' h
  unfold readStdIndex
  rw [P_bind_ok (takeN_append _ _ h4)]
  generalize enc e 4 ty ++ enc e 4 1 ++ enc e 8 n = b at h1 h2 h3
  cases e <;>
    simp only [dec] at d1 d2 d3 <;>
    simp [h1, h2, h3, d1, d2, d3, hk, if_neg hs']

theorem readStdIndex_full (e : Endian) (o : SegObj) (ty n total : Nat) (rest : Bytes)
    (hwf : wfIdx (.full ty n total) = true) (htot : ty = tyString → total < 2 ^ 64) :
    readStdIndex e o (idxBody e (.full ty n total) ++ rest) = .ok (stdIndexObj o ty n total, rest) := by
  simp only [wfIdx, Bool.and_eq_true, Bool.or_eq_true, decide_eq_true_eq] at hwf
  obtain ⟨hty, hn⟩ := hwf
  by_cases hs : ty = tyString
  · subst hs
    simp only [idxBody, if_true, List.append_assoc]
    have := readStdIndex_core e o tyString n (enc e 8 total ++ rest) (by decide) hn
      knownType_tyString (Or.inr rfl)
    simp only [List.append_assoc] at this
    rw [this]
    simp only [if_true]
    rw [P_bind_ok (uN_enc_of_lt e (w := 8) (htot rfl) _)]
    simp [P_pure, stdIndexObj]
  · have hsz : (typeSize ty).isSome = true := by
      rcases hty with h | h
      · exact absurd h hs
      · exact h
    obtain ⟨sz, hsz'⟩ := Option.isSome_iff_exists.mp hsz
    simp only [idxBody, hs, if_false]
    rw [readStdIndex_core e o ty n rest (typeSize_code_lt hsz') hn (knownType_of_typeSize hsz')
      (Or.inl hsz)]
    simp [P_pure, stdIndexObj, hs]

/-! ## DAQmx index -/

/-- the scaler the reader builds from an encoded scaler record -/
def daqScalerOf (dg : Bool) (s : ScalerEnc) : DaqScaler :=
  ⟨s.scaleId, (daqmxTypeCode s.daqType).getD 0, s.buffer, s.offset, s.bitmap, dg⟩

/-- every field of a scaler record fits its slot (4 bytes; the digital-line bitmap has 1 byte) -/
def scalerFits (dg : Bool) (s : ScalerEnc) : Prop :=
  s.daqType < 2 ^ 32 ∧ s.buffer < 2 ^ 32 ∧ s.offset < 2 ^ 32 ∧
  s.bitmap < (if dg then 2 ^ 8 else 2 ^ 32) ∧ s.scaleId < 2 ^ 32

theorem record_slices (a b c d f : Bytes) (w k : Nat) (ha : a.length = 4) (hb : b.length = 4)
    (hc : c.length = 4) (hd : d.length = w) (hf : f.length = 4) (hk : k = 12 + w) :
    let r := a ++ b ++ c ++ d ++ f
    (r.drop 0).take 4 = a ∧ (r.drop 4).take 4 = b ∧ (r.drop 8).take 4 = c ∧
    (r.drop 12).take w = d ∧ (r.drop k).take 4 = f ∧ r.length = 16 + w := by
  intro r
  refine ⟨?_, ?_, ?_, ?_, ?_, ?_⟩
  · show ((a ++ b ++ c ++ d ++ f).drop 0).take 4 = a
    simp only [List.drop_zero, List.append_assoc]; exact List.take_left' ha
  · have : r = a ++ b ++ (c ++ d ++ f) := by simp [r, List.append_assoc]
    rw [this]; exact slice_mid ha hb
  · have : r = (a ++ b) ++ c ++ (d ++ f) := by simp [r, List.append_assoc]
    rw [this]; exact slice_mid (by simp [ha, hb]) hc
  · exact slice_mid (by simp [ha, hb, hc]) hd
  · have : r = (a ++ b ++ c ++ d) ++ f ++ [] := by simp [r, List.append_assoc]
    rw [this]; exact slice_mid (by simp [ha, hb, hc, hd, hk]; omega) hf
  · show (a ++ b ++ c ++ d ++ f).length = 16 + w
    simp [ha, hb, hc, hd, hf]; omega

theorem readScalers_step (e : Endian) (dg : Bool) (s : ScalerEnc) (k : Nat) (rest : Bytes)
    (hfit : scalerFits dg s) (hty : (daqmxTypeCode s.daqType).isSome = true) :
    readScalers e dg (k + 1) (encScaler e dg s ++ rest) =
      ((fun l => daqScalerOf dg s :: l) <$> readScalers e dg k) rest := by
  obtain ⟨h1, h2, h3, h4, h5⟩ := hfit
  obtain ⟨t, ht⟩ := Option.isSome_iff_exists.mp hty
  have hfind : ∃ c, daqmxTypes.find? (fun x => decide (x.1 = s.daqType)) = some (c, t) := by
    unfold daqmxTypeCode at ht
    cases hf : daqmxTypes.find? (fun x => decide (x.1 = s.daqType)) with
    | none => simp [hf] at ht
    | some p => exact ⟨p.1, by simp [hf] at ht; rw [← ht]⟩
  obtain ⟨c, hfind⟩ := hfind
  have d1 : dec e (enc e 4 s.daqType) = s.daqType := dec_enc_of_lt e (w := 4) h1
  have d2 : dec e (enc e 4 s.buffer) = s.buffer := dec_enc_of_lt e (w := 4) h2
  have d3 : dec e (enc e 4 s.offset) = s.offset := dec_enc_of_lt e (w := 4) h3
  have d5 : dec e (enc e 4 s.scaleId) = s.scaleId := dec_enc_of_lt e (w := 4) h5
  cases dg
  · have d4 : dec e (enc e 4 s.bitmap) = s.bitmap := dec_enc_of_lt e (w := 4) (by simpa using h4)
    obtain ⟨r1, r2, r3, r4, r5, r6⟩ := record_slices (enc e 4 s.daqType) (enc e 4 s.buffer)
      (enc e 4 s.offset) (enc e 4 s.bitmap) (enc e 4 s.scaleId) 4 16 (by simp) (by simp) (by simp)
      (by simp) (by simp) rfl
    simp only [readScalers, encScaler, Bool.false_eq_true, if_false]
    rw [P_bind_ok (takeN_append (n := daqmxScalerRecordSize) _ _ r6)]
    generalize enc e 4 s.daqType ++ enc e 4 s.buffer ++ enc e 4 s.offset ++ enc e 4 s.bitmap ++
      enc e 4 s.scaleId = r at r1 r2 r3 r4 r5
    simp only [r1, r2, r3, r4, r5, d1, d2, d3, d4, d5, hfind, daqScalerOf, ht, Option.getD_some]
    rfl
  · have d4 : dec e (enc e 1 s.bitmap) = s.bitmap := dec_enc_of_lt e (w := 1) (by simpa using h4)
    obtain ⟨r1, r2, r3, r4, r5, r6⟩ := record_slices (enc e 4 s.daqType) (enc e 4 s.buffer)
      (enc e 4 s.offset) (enc e 1 s.bitmap) (enc e 4 s.scaleId) 1 13 (by simp) (by simp) (by simp)
      (by simp) (by simp) rfl
    simp only [readScalers, encScaler, if_true]
    rw [P_bind_ok (takeN_append (n := digitalLineScalerRecordSize) _ _ r6)]
    generalize enc e 4 s.daqType ++ enc e 4 s.buffer ++ enc e 4 s.offset ++ enc e 1 s.bitmap ++
      enc e 4 s.scaleId = r at r1 r2 r3 r4 r5
    simp only [r1, r2, r3, r4, r5, d1, d2, d3, d4, d5, hfind, daqScalerOf, ht, Option.getD_some]
    rfl

theorem readScalers_enc (e : Endian) (dg : Bool) (scalers : List ScalerEnc) (rest : Bytes)
    (hfit : ∀ s ∈ scalers, scalerFits dg s)
    (hty : ∀ s ∈ scalers, (daqmxTypeCode s.daqType).isSome = true) :
    readScalers e dg scalers.length (scalers.flatMap (encScaler e dg) ++ rest) =
      .ok (scalers.map (daqScalerOf dg), rest) := by
  induction scalers with
  | nil => rfl
  | cons s ss ih =>
    simp only [List.length_cons, List.flatMap_cons, List.append_assoc, List.map_cons]
    rw [readScalers_step e dg s _ _ (hfit s List.mem_cons_self) (hty s List.mem_cons_self)]
    exact P_map_ok (ih (fun x hx => hfit x (List.mem_cons_of_mem _ hx))
      (fun x hx => hty x (List.mem_cons_of_mem _ hx)))

theorem readWidths_enc (e : Endian) (widths : List Nat) (rest : Bytes)
    (h : ∀ w ∈ widths, w < 2 ^ 32) :
    readWidths e widths.length (widths.flatMap (enc e 4) ++ rest) = .ok (widths, rest) := by
  induction widths with
  | nil => rfl
  | cons w ws ih =>
    simp only [List.length_cons, List.flatMap_cons, List.append_assoc, readWidths]
    rw [P_bind_ok (uN_enc_of_lt e (w := 4) (h w List.mem_cons_self) _),
      P_bind_ok (ih (fun x hx => h x (List.mem_cons_of_mem _ hx)))]
    rfl

/-- the object `DaqmxSegmentObject.read_raw_data_index` produces -/
def daqIndexObj (o : SegObj) (dg : Bool) (ty n : Nat) (scalers : List ScalerEnc) (widths : List Nat) :
    SegObj :=
  { o with numberValues := n, dataType := some ty,
           daq := some ⟨n, widths, scalers.map (daqScalerOf dg)⟩ }

/-- size side conditions that `wfIdx` does not state: every number fits the field that stores it -/
def idxFits : IdxEnc → Prop
  | .noData => True
  | .matchesPrev => True
  | .full ty _ total => ty = tyString → total < 2 ^ 64
  | .daqmx dg _ _ scalers widths =>
    scalers.length < 2 ^ 32 ∧ widths.length < 2 ^ 32 ∧ (∀ s ∈ scalers, scalerFits dg s) ∧
    (∀ w ∈ widths, w < 2 ^ 32)

theorem daqmxTypes_known : ∀ p ∈ daqmxTypes, knownType p.2 = true := by decide

theorem knownType_of_daqmxTypeCode {d t : Nat} (h : daqmxTypeCode d = some t) : knownType t = true := by
  unfold daqmxTypeCode at h
  cases hf : daqmxTypes.find? (fun x => decide (x.1 = d)) with
  | none => simp [hf] at h
  | some p =>
    simp [hf] at h
    rw [← h]
    exact daqmxTypes_known p (List.mem_of_find?_eq_some hf)

theorem knownType_lt {t : Nat} (h : knownType t = true) : t < 2 ^ 32 := by
  unfold knownType at h
  obtain ⟨ti, hti⟩ := Option.isSome_iff_exists.mp h
  exact typeInfo_code_lt hti

theorem daq16_slices (e : Endian) (n l : Nat) :
    let b := enc e 4 1 ++ enc e 8 n ++ enc e 4 l
    b.take 4 = enc e 4 1 ∧ (b.drop 4).take 8 = enc e 8 n ∧ b.drop 12 = enc e 4 l ∧ b.length = 16 := by
  intro b
  refine ⟨?_, ?_, ?_, ?_⟩
  · show (enc e 4 1 ++ enc e 8 n ++ enc e 4 l).take 4 = _
    rw [List.append_assoc]; exact List.take_left' (enc_length e 4 1)
  · exact slice_mid (enc_length e 4 1) (enc_length e 8 n)
  · exact slice_end (by simp)
  · show (enc e 4 1 ++ enc e 8 n ++ enc e 4 l).length = 16
    simp

theorem header_digital (dg : Bool) :
    decide ((if dg then digitalLineScaler else formatChangingScaler) = digitalLineScaler) = dg := by
  cases dg <;> decide

theorem readDaqmxIndex_core (e : Endian) (o : SegObj) (dg : Bool) (hdr ty n : Nat)
    (scalers : List ScalerEnc) (widths : List Nat) (rest : Bytes)
    (hh : decide (hdr = digitalLineScaler) = dg)
    (hwf : wfIdx (.daqmx dg ty n scalers widths) = true)
    (hfit : idxFits (.daqmx dg ty n scalers widths)) :
    readDaqmxIndex e hdr o (idxBody e (.daqmx dg ty n scalers widths) ++ rest) =
      .ok (daqIndexObj o dg ty n scalers widths, rest) := by
  obtain ⟨hsl, hwl, hsf, hwf'⟩ := hfit
  simp only [wfIdx, Bool.and_eq_true, Bool.or_eq_true, decide_eq_true_eq, List.all_eq_true,
    Bool.not_eq_true'] at hwf
  obtain ⟨⟨⟨⟨hn, hne⟩, _⟩, hraw⟩, hall⟩ := hwf
  have hcodes : ∀ s ∈ scalers, (daqmxTypeCode s.daqType).isSome = true := by
    intro s hs
    have := hall s hs
    cases hc : daqmxTypeCode s.daqType with
    | none => simp [hc] at this
    | some t => rfl
  have hknown : knownType ty = true := by
    rcases hraw with h | ⟨h1, h2⟩
    · rw [h]; decide
    · cases scalers with
      | nil => simp at h1
      | cons s ss => exact knownType_of_daqmxTypeCode (h2 s List.mem_cons_self)
  have hty : ty < 2 ^ 32 := knownType_lt hknown
  obtain ⟨b1, b2, b3, b4⟩ := daq16_slices e n scalers.length
  have d1 : dec e (enc e 4 1) = 1 := dec_enc_of_lt e (w := 4) (by decide)
  have d2 : dec e (enc e 8 n) = n := dec_enc_of_lt e (w := 8) hn
  have d3 : dec e (enc e 4 scalers.length) = scalers.length := dec_enc_of_lt e (w := 4) hsl
  have hin : idxBody e (.daqmx dg ty n scalers widths) ++ rest =
      enc e 4 ty ++ ((enc e 4 1 ++ enc e 8 n ++ enc e 4 scalers.length) ++
        (scalers.flatMap (encScaler e dg) ++ (enc e 4 widths.length ++
          (widths.flatMap (enc e 4) ++ rest)))) := by
    simp [idxBody, List.append_assoc]
  rw [hin]
  unfold readDaqmxIndex
  rw [P_bind_ok (uN_enc_of_lt e (w := 4) hty _)]
  simp only [hknown, Bool.not_true, Bool.false_eq_true, if_false]
  rw [P_bind_ok (takeN_append _ _ b4)]
  generalize enc e 4 1 ++ enc e 8 n ++ enc e 4 scalers.length = b at b1 b2 b3
  simp only [b1, b2, b3, d1, d2, d3, hh, ne_eq, not_true_eq_false, if_false]
  rw [P_bind_ok (readScalers_enc e dg scalers _ hsf hcodes)]
  have htail : (do
        let nWidths ← uN e 4
        let widths' ← readWidths e nWidths
        pure ({ o with numberValues := n, dataType := some ty,
                       daq := some ⟨n, widths', scalers.map (daqScalerOf dg)⟩ } : SegObj) : P SegObj)
      (enc e 4 widths.length ++ (widths.flatMap (enc e 4) ++ rest)) =
      .ok (daqIndexObj o dg ty n scalers widths, rest) := by
    rw [P_bind_ok (uN_enc_of_lt e (w := 4) hwl _), P_bind_ok (readWidths_enc e widths rest hwf')]
    rfl
  by_cases hr : ty = tyDaqmxRaw
  · simp only [hr, not_true_eq_false, if_false]
    rw [← hr]; exact htail
  · rcases hraw with h | ⟨hl, hc⟩
    · exact absurd h hr
    · match scalers, hl, hc with
      | [s], _, hc =>
        have : (daqScalerOf dg s).ty = ty := by
          simp [daqScalerOf, hc s List.mem_cons_self]
        simp only [hr, not_false_eq_true, if_true, List.length_singleton, not_true_eq_false,
          if_false, List.map_cons, List.map_nil, List.head?_cons, this]
        exact htail

theorem readDaqmxIndex_enc (e : Endian) (o : SegObj) (dg : Bool) (ty n : Nat)
    (scalers : List ScalerEnc) (widths : List Nat) (rest : Bytes)
    (hwf : wfIdx (.daqmx dg ty n scalers widths) = true)
    (hfit : idxFits (.daqmx dg ty n scalers widths)) :
    readDaqmxIndex e (idxHeader (.daqmx dg ty n scalers widths)) o
        (idxBody e (.daqmx dg ty n scalers widths) ++ rest) =
      .ok (daqIndexObj o dg ty n scalers widths, rest) :=
  readDaqmxIndex_core e o dg _ ty n scalers widths rest (header_digital dg) hwf hfit

end Tdms.Proofs.Bytes
