/-
  C01 for multi-segment files: the pure parser of C02 (`parseOne`, `parseObjs`) on the metadata block the
  spec's encoder writes (`encObj`, `encMeta`) — all three standard header kinds (`noData`,
  `matchesPrev`, `full`), both byte orders.  Core Lean only.
-/
import TdmsProofs.Properties.C01Layers
import TdmsProofs.Properties.C02

namespace Tdms.Proofs.C01Multi

open Tdms Tdms.Generated Tdms.Model Tdms.Proofs.C02

/-- the listed index is not a DAQmx index -/
def stdListed (o : ObjEnc) : Prop := ∀ dg ty n sc w, o.idx ≠ .daqmx dg ty n sc w

/-- size side conditions on a listed object that `wfObj` does not state: the total size of string data
    of one chunk fits the 4-byte offsets, the number of properties and the lengths inside each property fit
    their 4-byte fields -/
structure ObjFitsM (o : ObjEnc) : Prop where
  strTotal : ∀ n total, o.idx = .full tyString n total → total < 2 ^ 32
  nProps : o.props.length < 2 ^ 32
  props : ∀ p ∈ o.props, Bytes.propFits p

/-- the parsed form of a listed object -/
def itemOf (o : ObjEnc) : Item := ⟨o.path, hdrOf o.path o.idx, o.props.map Bytes.canonProp⟩

theorem idxFits_of_fitsM {o : ObjEnc} (hs : stdListed o) (hf : ObjFitsM o) : C02.idxFits o.idx := by
  cases hidx : o.idx with
  | noData => trivial
  | matchesPrev => trivial
  | full ty n total =>
    intro hty
    subst hty
    have := hf.strTotal n total hidx
    omega
  | daqmx dg ty n sc w => exact absurd hidx (hs dg ty n sc w)

theorem parseOne_encObj (e : Endian) (o : ObjEnc) (rest : Bytes) (hwf : wfObj o = true)
    (hs : stdListed o) (hf : ObjFitsM o) :
    parseOne e (encObj e o ++ rest) = .ok (itemOf o, rest) := by
  simp only [wfObj, Bool.and_eq_true, decide_eq_true_eq, List.all_eq_true] at hwf
  obtain ⟨⟨hidx, hprops⟩, hpath⟩ := hwf
  have h1 := Bytes.readString_encString e o.path
    (encIdx e o.idx ++ (enc e 4 o.props.length ++ (o.props.flatMap (encProp e) ++ rest))) hpath
  have h2 := readHdr_encIdx e o.path (enc e 4 o.props.length ++ (o.props.flatMap (encProp e) ++ rest)) o.idx
    hidx (idxFits_of_fitsM hs hf)
  obtain ⟨header, s2, h2a, h2b⟩ := C02.P_bind_eq_ok h2
  have h3 := Bytes.uN_enc_of_lt e (w := 4) hf.nProps (o.props.flatMap (encProp e) ++ rest)
  have h4 := Bytes.readProperties_encProps e o.props rest hprops hf.props
  unfold parseOne encObj
  simp only [List.append_assoc]
  rw [C02.P_bind_ok h1, C02.P_bind_ok h2a, C02.P_bind_ok h2b, C02.P_bind_ok h3, C02.P_bind_ok h4]
  rfl

theorem parseObjs_encObjs (e : Endian) (objs : List ObjEnc) (rest : Bytes)
    (hwf : ∀ o ∈ objs, wfObj o = true) (hs : ∀ o ∈ objs, stdListed o) (hf : ∀ o ∈ objs, ObjFitsM o) :
    parseObjs e objs.length (objs.flatMap (encObj e) ++ rest) = .ok (objs.map itemOf, rest) := by
  induction objs with
  | nil => rfl
  | cons o os ih =>
    simp only [List.length_cons, List.flatMap_cons, List.append_assoc, parseObjs, List.map_cons]
    rw [C02.P_bind_ok (parseOne_encObj e o _ (hwf o List.mem_cons_self) (hs o List.mem_cons_self)
        (hf o List.mem_cons_self)),
      C02.P_bind_ok (ih (fun q hq => hwf q (List.mem_cons_of_mem _ hq))
        (fun q hq => hs q (List.mem_cons_of_mem _ hq)) (fun q hq => hf q (List.mem_cons_of_mem _ hq)))]
    rfl

/-- the metadata block of a segment (`uN e 4` then the pure object parser) -/
theorem parseMeta_encMeta (e : Endian) (objs : List ObjEnc) (rest : Bytes) (hlen : objs.length < 2 ^ 32)
    (hwf : ∀ o ∈ objs, wfObj o = true) (hs : ∀ o ∈ objs, stdListed o) (hf : ∀ o ∈ objs, ObjFitsM o) :
    (do let n ← uN e 4; parseObjs e n : P (List Item)) (encMeta e objs ++ rest) =
      .ok (objs.map itemOf, rest) := by
  unfold encMeta
  rw [List.append_assoc, C02.P_bind_ok (Bytes.uN_enc_of_lt e (w := 4) hlen _)]
  exact parseObjs_encObjs e objs rest hwf hs hf

/-- the headers of the parsed items are `hdrsOf` -/
theorem items_hdrs (objs : List ObjEnc) :
    (objs.map itemOf).map (fun it => (it.path, it.hdr)) = hdrsOf objs := by
  simp [hdrsOf, itemOf, List.map_map, Function.comp_def]

/-- the `properties` dictionary of the parsed items, for pairwise distinct paths: the objects that list
    at least one property, in order -/
theorem foldProps_items (objs : List ObjEnc) :
    ∀ (props : List (Bytes × List PropVal)), noDupPaths objs = true →
      (∀ o ∈ objs, ∀ x ∈ props, x.1 ≠ o.path) →
      foldProps props (objs.map itemOf) = props ++
        (objs.filter fun o => !o.props.isEmpty).map fun o => (o.path, o.props.map Bytes.canonProp) := by
  induction objs with
  | nil => intro props _ _; simp [foldProps]
  | cons o os ih =>
    intro props hnd hfresh
    simp only [noDupPaths, Bool.and_eq_true, Bool.not_eq_true', List.any_eq_false,
      decide_eq_true_eq] at hnd
    obtain ⟨hno, hnd'⟩ := hnd
    have hany : props.any (fun x => decide (x.1 = o.path)) = false := by
      simp only [List.any_eq_false, decide_eq_true_eq]
      exact fun x hx => hfresh o List.mem_cons_self x hx
    have hstep : foldProps props ((o :: os).map itemOf) =
        foldProps (C02.addProps props o.path (o.props.map Bytes.canonProp)) (os.map itemOf) := by
      simp [foldProps, itemOf]
    rw [hstep]
    by_cases hp : o.props = []
    · have : C02.addProps props o.path (o.props.map Bytes.canonProp) = props := by
        simp [C02.addProps, hp]
      rw [this, ih props hnd' (fun q hq x hx => hfresh q (List.mem_cons_of_mem _ hq) x hx)]
      simp [hp]
    · have hemp : (o.props.map Bytes.canonProp).isEmpty = false := by
        cases h : o.props with
        | nil => exact absurd h hp
        | cons a as => rfl
      have hemp' : o.props.isEmpty = false := by
        cases h : o.props with
        | nil => exact absurd h hp
        | cons a as => rfl
      have : C02.addProps props o.path (o.props.map Bytes.canonProp) =
          props ++ [(o.path, o.props.map Bytes.canonProp)] := by
        simp only [C02.addProps, hemp, Bool.false_eq_true, if_false, hany]
      rw [this, ih _ hnd' (by
        intro q hq x hx
        rcases List.mem_append.mp hx with hx | hx
        · exact hfresh q (List.mem_cons_of_mem _ hq) x hx
        · simp only [List.mem_singleton] at hx
          subst hx
          exact fun h => hno q hq h.symm)]
      simp [hemp']

end Tdms.Proofs.C01Multi
