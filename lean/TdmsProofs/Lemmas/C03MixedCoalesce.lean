-- C03 mixed
/-
  C03 (mixed files, windows) — trimming is insensitive to chunking.

  `trimStream len cs skip vr` (the per-chunk `skip` / running `values_read` / `trim` arithmetic of
  `read_raw_data_for_channel`) is given in closed form on a run of plain data chunks that satisfies
  `TrimOk` (the values to skip lie in the first chunk; every chunk starts at or before the window end):
  the result is the slice `[skip : len - vr + skip]` of the CONCATENATION of the run.  Hence
  `trimStream_coalesce`: two runs with the same concatenation are trimmed to the same values.
  Core Lean only.
-/
import TdmsProofs.Lemmas.C04WindowList

namespace Tdms.Proofs.C03

open Tdms Tdms.Model Tdms.Proofs.C04

/-- a run of chunk contents may be streamed through `trimStream len · skip vr`: the values to skip
    lie in the first chunk, and every chunk starts at or before the end of the window
    (`values_read - skip ≤ length` before each chunk) -/
def TrimOk (len : Int) : List (List Bytes) → Nat → Int → Prop
  | [], _, _ => True
  | d :: ds, skip, vr => vr - skip ≤ len ∧ skip ≤ d.length ∧ TrimOk len ds 0 (vr + d.length - skip)

instance (len : Int) : ∀ (ds : List (List Bytes)) (skip : Nat) (vr : Int), Decidable (TrimOk len ds skip vr)
  | [], _, _ => by unfold TrimOk; infer_instance
  | d :: ds, skip, vr => by
    unfold TrimOk
    have := instDecidableTrimOk len ds 0 (vr + d.length - skip)
    infer_instance

/-- **closed form of `trimStream`** on a run satisfying `TrimOk`: the values kept are the slice
    `[skip : len - vr + skip]` of the concatenation of the run -/
theorem trimStream_closed (len : Int) (ds : List (List Bytes)) (skip : Nat) (vr : Int)
    (h : TrimOk len ds skip vr) :
    dataOf (trimStream len (wrap ds) skip vr).1 = sl ds.flatten skip (len - vr + skip) := by
  induction ds generalizing skip vr with
  | nil => simp [wrap, trimStream, dataOf, sl]
  | cons d ds ih =>
    obtain ⟨h1, h2, h3⟩ := h
    simp only [wrap, List.map_cons, trimStream, List.flatten_cons] at ih ⊢
    rw [dataOf_cons, sl_append, trimChannelChunk_data]
    have hlen : ChanChunk.len { data := some d } = d.length := by simp [ChanChunk.len]
    rw [hlen]
    congr 1
    · apply pySliceTo_eq_sl _ _ _ _ _ (by omega)
      by_cases h : vr + (d.length : Int) - skip < len
      · left; rw [if_pos h]; exact ⟨rfl, by omega⟩
      · right; rw [if_neg h]; omega
    · rw [ih 0 (vr + (d.length : Int) - skip) h3]
      unfold sl
      have e1 : ((0 : Nat) : Int).toNat = ((skip : Int) - (d.length : Int)).toNat := by omega
      have e2 : (len - (vr + (d.length : Int) - skip) + ((0 : Nat) : Int)).toNat
          = (len - vr + (skip : Int) - (d.length : Int)).toNat := by omega
      rw [e1, e2]

/-- `values_read` after a non-empty run -/
theorem trimStream_snd (len : Int) (ds : List (List Bytes)) (skip : Nat) (vr : Int) :
    (trimStream len (wrap ds) skip vr).2 = if ds = [] then vr else vr + (ds.flatten.length : Int) - skip := by
  cases ds with
  | nil => simp [wrap, trimStream]
  | cons d ds => rw [trimStream_snd_cons]; simp

/-- **`trimStream_coalesce`** — trimming `skip` values at the front and everything beyond the window
    at the back of a concatenation does not depend on how the concatenation is cut into chunks: two
    runs of chunks with the same concatenation, both satisfying `TrimOk`, are trimmed to the same
    values and leave the same `values_read`. -/
theorem trimStream_coalesce (len : Int) (ds ds' : List (List Bytes)) (skip : Nat) (vr : Int)
    (hflat : ds.flatten = ds'.flatten) (h : TrimOk len ds skip vr) (h' : TrimOk len ds' skip vr) :
    dataOf (trimStream len (wrap ds) skip vr).1 = dataOf (trimStream len (wrap ds') skip vr).1 ∧
    (trimStream len (wrap ds) skip vr).2 = (trimStream len (wrap ds') skip vr).2 := by
  refine ⟨by rw [trimStream_closed len ds skip vr h, trimStream_closed len ds' skip vr h', hflat], ?_⟩
  rw [trimStream_snd, trimStream_snd, hflat]
  -- an empty run next to a non-empty one: the non-empty one consists of empty chunks, so `skip = 0`
  have key : ∀ (xs ys : List (List Bytes)), xs = [] → ys ≠ [] → xs.flatten = ys.flatten → TrimOk len ys skip vr →
      vr = vr + (ys.flatten.length : Int) - skip := by
    intro xs ys hx hy hf hok
    subst hx
    cases ys with
    | nil => exact absurd rfl hy
    | cons d ys =>
      obtain ⟨_, h2, _⟩ := hok
      have hz : (d :: ys).flatten.length = 0 := by rw [← hf]; rfl
      have : d.length = 0 := by simp only [List.flatten_cons, List.length_append] at hz; omega
      rw [hz]; omega
  by_cases h1 : ds = [] <;> by_cases h2 : ds' = []
  · rw [if_pos h1, if_pos h2]
  · rw [if_pos h1, if_neg h2]; exact key ds ds' h1 h2 hflat h'
  · rw [if_neg h1, if_pos h2, ← hflat]; exact (key ds' ds h2 h1 hflat.symm h).symm
  · rw [if_neg h1, if_neg h2]

/-- the special case used for interleaved segments: ONE chunk holding the concatenation -/
theorem trimStream_coalesce_one (len : Int) (ds : List (List Bytes)) (skip : Nat) (vr : Int)
    (h : TrimOk len ds skip vr) (h' : TrimOk len [ds.flatten] skip vr) :
    dataOf (trimStream len (wrap [ds.flatten]) skip vr).1 = dataOf (trimStream len (wrap ds) skip vr).1 ∧
    (trimStream len (wrap [ds.flatten]) skip vr).2 = (trimStream len (wrap ds) skip vr).2 :=
  trimStream_coalesce len [ds.flatten] ds skip vr (by simp) h' h

/-- C04's `RunOk` (positions `q`, window `[a, e)`) implies `TrimOk` -/
theorem trimOk_of_runOk (ds : List (List Bytes)) (q a e : Int) (skip : Nat) (vr : Int)
    (hskip : (skip : Int) = max 0 (a - q)) (hvr : vr = q - a + skip) (hok : RunOk ds q a e) :
    TrimOk (e - a) ds skip vr := by
  induction ds generalizing q skip vr with
  | nil => trivial
  | cons d ds ih =>
    obtain ⟨h1, h2, h3⟩ := hok
    refine ⟨by omega, by omega, ?_⟩
    exact ih (q + d.length) 0 (vr + (d.length : Int) - skip) (by omega) (by omega) h3

/-- a non-empty `RunOk` run may be coalesced -/
theorem runOk_flatten (d : List Bytes) (ds : List (List Bytes)) (q a e : Int) (hok : RunOk (d :: ds) q a e) :
    RunOk [(d :: ds).flatten] q a e := by
  obtain ⟨h1, h2, _⟩ := hok
  refine ⟨h1, ?_, trivial⟩
  simp only [List.flatten_cons, List.length_append, Int.natCast_add]
  omega

/-- the hypotheses are needed: a chunk that starts beyond the window end is cut with a NEGATIVE stop
    (Python's `d[0 : len(d) - trim]` wraps around), so the chunked and the coalesced run differ -/
example : dataOf (trimStream 1 (wrap [[[1], [2]], [[3], [4], [5]]]) 0 0).1 = [[1], [3], [4]] ∧
    dataOf (trimStream 1 (wrap [[[1], [2], [3], [4], [5]]]) 0 0).1 = [[1]] ∧
    ¬ TrimOk 1 [[[1], [2]], [[3], [4], [5]]] 0 0 := by decide

end Tdms.Proofs.C03

