/-
  C06, the cut theorem for the general multi-segment class `MultiStdU` (`C01Marker.lean`): from the class to the
  canonical form the byte-level lemmas work with, and the theorem for every cut offset.  Core Lean only.
-/
import TdmsProofs.Lemmas.C06GenMain

namespace Tdms.Proofs.C06Gen

open Tdms Tdms.Generated Tdms.Model Tdms.Proofs.C02 Tdms.Proofs.C01Multi Tdms.Proofs.C01Marker
open Tdms.Proofs.Bytes (canonProp)
open Tdms.Proofs.C01Compose (pairsChunk bump valuesIn rcvWith content contentOfDenote ObjView)
open Tdms.Proofs.C06Whole (dataPosOf)

theorem setU_unmark (l : SegEnc) : setU l.lengthUnknown (unmark l) = l := by
  cases l; simp [setU, unmark]

/-- the canonical form of a non-empty file of the class: segments `EI ++ [EL]` with explicit offsets and canonical
    totals, active lists `AI ++ [AL]`; the bytes are those of `EI`, then `EL` with the marker iff the last segment
    of the file carries it -/
theorem canon_setup (init : List SegEnc) (l : SegEnc) (h : MultiStdU (init ++ [l])) (fit : FileFits (init ++ [l]))
    (hch : onlyChannelsHaveDataM (init ++ [l])) :
    ∃ (AI0 : List (List ActiveObj)) (AL0 : List ActiveObj),
      activeLists none [] (init ++ [l]) = .ok (AI0 ++ [AL0]) ∧ init.length = AI0.length ∧
      SegsOK ((init.map unmark).map canonSeg ++ [canonSeg (unmark l)])
        (AI0.map (·.map canonAct) ++ [AL0.map canonAct]) ∧
      activeLists none [] ((init.map unmark).map canonSeg ++ [canonSeg (unmark l)]) =
        .ok (AI0.map (·.map canonAct) ++ [AL0.map canonAct]) ∧
      ActsNodup (AI0.map (·.map canonAct) ++ [AL0.map canonAct]) ∧
      (∀ sa ∈ ((init.map unmark).map canonSeg ++ [canonSeg (unmark l)]).zip
          (AI0.map (·.map canonAct) ++ [AL0.map canonAct]), ChannelsOnly sa) ∧
      zipEncode encodeSeg (init ++ [l]) (AI0 ++ [AL0]) =
        zipEncode encodeSeg ((init.map unmark).map canonSeg) (AI0.map (·.map canonAct)) ++
          encodeSeg (setU l.lengthUnknown (canonSeg (unmark l))) (AL0.map canonAct) ∧
      denoteSegs [] ((init.map unmark).map canonSeg ++ [canonSeg (unmark l)])
          (AI0.map (·.map canonAct) ++ [AL0.map canonAct]) =
        denoteSegs [] (init ++ [l]) (AI0 ++ [AL0]) := by
  have h' := multiStd_unmark h
  have fit' := fileFits_unmark fit
  obtain ⟨acts, ha', hwf'⟩ := h'.acts
  have ha : activeLists none [] (init ++ [l]) = .ok acts := by rw [← activeLists_unmark]; exact ha'
  have hok := segsOK_canon _ acts (segsOK0_of_multi h' fit' ha')
  have hac := activeLists_canon _ none [] acts ha'
  have hnd := actsNodup_canon (activeLists_nodup _ none [] acts ha' SpecInv.init (wellFormed_noDup h'.wf))
  have hlenA := segsOK_length _ _ hok
  simp only [List.map_append, List.map_cons, List.map_nil, List.length_append, List.length_map,
    List.length_cons, List.length_nil] at hlenA
  obtain ⟨AI0, AL0, rfl⟩ : ∃ AI0 AL0, acts = AI0 ++ [AL0] := by
    cases hacts : acts.reverse with
    | nil =>
      have : acts = [] := by simpa using hacts
      subst this; simp at hlenA
    | cons x xs =>
      refine ⟨xs.reverse, x, ?_⟩
      have := congrArg List.reverse hacts
      simpa using this
  have hlI : init.length = AI0.length := by simp at hlenA; omega
  have hch' : ∀ sa ∈ ((init ++ [l]).map unmark |>.map canonSeg).zip ((AI0 ++ [AL0]).map (·.map canonAct)),
      ChannelsOnly sa := by
    intro sa hsa hne x hx hd
    rw [List.map_map, List.zip_map, List.mem_map] at hsa
    obtain ⟨sa0, hsa0, rfl⟩ := hsa
    simp only [Prod.map_snd, List.mem_map] at hx
    obtain ⟨x0, hx0, rfl⟩ := hx
    exact hch _ ha sa0 hsa0 hne x0 hx0 hd
  have hknown : ∀ s ∈ init, s.lengthUnknown = false := by
    have := h.wf
    unfold wellFormed at this
    rw [ha] at this
    have hk := wfSegs_known _ _ this
    intro s hs
    exact hk s (by simp [hs])
  have hfile : zipEncode encodeSeg (init ++ [l]) (AI0 ++ [AL0]) =
      zipEncode encodeSeg ((init.map unmark).map canonSeg) (AI0.map (·.map canonAct)) ++
        encodeSeg (setU l.lengthUnknown (canonSeg (unmark l))) (AL0.map canonAct) := by
    rw [zipEncode_append init AI0 [l] [AL0] hlI, zipEncode_canon, map_unmark_of_known init hknown]
    congr 1
    have e1 : setU l.lengthUnknown (canonSeg (unmark l)) = canonSeg (setU l.lengthUnknown (unmark l)) := rfl
    rw [e1, encodeSeg_canon, setU_unmark]
    simp [zipEncode]
  simp only [List.map_append, List.map_cons, List.map_nil] at hok hac hnd hch'
  have hden : denoteSegs [] (List.map canonSeg (List.map unmark init) ++ [canonSeg (unmark l)])
      (List.map (fun x => List.map canonAct x) AI0 ++ [List.map canonAct AL0]) =
      denoteSegs [] (init ++ [l]) (AI0 ++ [AL0]) := by
    have := denoteSegs_canon ((init ++ [l]).map unmark) (AI0 ++ [AL0]) []
    simp only [List.map_append, List.map_cons, List.map_nil] at this
    rw [this]
    have := denoteSegs_unmark (init ++ [l]) (AI0 ++ [AL0]) []
    simpa only [List.map_append, List.map_cons, List.map_nil] using this
  exact ⟨AI0, AL0, ha, hlI, hok, hac, hnd, hch', hfile, hden⟩

/-- **a file of the class `MultiStdU` cut after `K` bytes, any `K`**: the eager read never fails; every object's
    values are a prefix of the values `denote e` assigns to it; `len(channel)` is the number of values returned -/
theorem read_cut_general_core (e : FileEnc) (h : MultiStdU e) (fit : FileFits e) (hch : onlyChannelsHaveDataM e)
    (bytes : Bytes) (hb : encodeFile e = .ok bytes) (hlen : bytes.length < 2 ^ 63) (K : Nat)
    (hK : K ≤ bytes.length) :
    ∃ c r' acts, denote e = .ok c ∧ activeLists none [] e = .ok acts ∧ readFile (bytes.take K) = .ok r' ∧
      (∀ oc ∈ c, valuesIn r'.channels oc.path <+: oc.values) ∧
      (∀ m ∈ r'.state.objects, m.numValues = (valuesIn r'.channels m.path).length) ∧
      (∀ seg ∈ r'.state.segments, RecOf ((e.map unmark).map canonSeg) (acts.map (·.map canonAct)) seg) := by
  -- the empty file
  by_cases he : e = []
  · subst he
    have hb' : bytes = [] := by
      simp [encodeFile, activeLists, zipEncode] at hb
      exact hb
    subst hb'
    refine ⟨[], ⟨{}, []⟩, [], by simp [denote, activeLists, denoteSegs], rfl, ?_, ?_, ?_, ?_⟩
    · simp only [List.take_nil]
      rfl
    · intro oc hoc; cases hoc
    · intro m hm; cases hm
    · intro seg hseg; cases hseg
  obtain ⟨init, l, rfl⟩ : ∃ init l, e = init ++ [l] := by
    cases hr : e.reverse with
    | nil => exact absurd (by simpa using hr) he
    | cons x xs =>
      refine ⟨xs.reverse, x, ?_⟩
      have := congrArg List.reverse hr
      simpa using this
  obtain ⟨AI0, AL0, ha, hlI, hok, hac, hnd, hch', hfile, hden⟩ := canon_setup init l h fit hch
  have hbytes : encodeFile (init ++ [l]) = .ok (zipEncode encodeSeg (init ++ [l]) (AI0 ++ [AL0])) := by
    simp [encodeFile, ha]
  rw [hbytes] at hb
  injection hb with hb
  subst hb
  rw [hfile] at hlen hK ⊢
  have hEq : ((init ++ [l]).map unmark).map canonSeg = (init.map unmark).map canonSeg ++ [canonSeg (unmark l)] := by
    simp
  have hAq : (AI0 ++ [AL0]).map (·.map canonAct) = AI0.map (·.map canonAct) ++ [AL0.map canonAct] := by simp
  suffices hsuff : ∃ r', readFile ((zipEncode encodeSeg ((init.map unmark).map canonSeg) (AI0.map (·.map canonAct)) ++
      encodeSeg (setU l.lengthUnknown (canonSeg (unmark l))) (AL0.map canonAct)).take K) = .ok r' ∧
      (∀ oc ∈ denoteSegs [] (init ++ [l]) (AI0 ++ [AL0]), valuesIn r'.channels oc.path <+: oc.values) ∧
      (∀ m ∈ r'.state.objects, m.numValues = (valuesIn r'.channels m.path).length) ∧
      (∀ seg ∈ r'.state.segments, RecOf ((init.map unmark).map canonSeg ++ [canonSeg (unmark l)])
        (AI0.map (·.map canonAct) ++ [AL0.map canonAct]) seg) by
    obtain ⟨r', g0, g1, g2, g3⟩ := hsuff
    exact ⟨_, r', AI0 ++ [AL0], by simp [denote, ha], ha, g0, g1, g2, by rw [hEq, hAq]; exact g3⟩
  clear hEq hAq
  generalize hEI : (init.map unmark).map canonSeg = EI at *
  generalize hEL : canonSeg (unmark l) = EL at *
  generalize hAI : AI0.map (·.map canonAct) = AI at *
  generalize hAL : AL0.map canonAct = AL at *
  have hlEI : EI.length = AI.length := by rw [← hEI, ← hAI]; simpa using hlI
  obtain ⟨hokI, hokL⟩ := segsOK_append EI AI [EL] [AL] hlEI hok
  have hLlen : (encodeSeg (setU l.lengthUnknown EL) AL).length = (encodeSeg EL AL).length :=
    encodeSeg_setU_length _ _ _
  -- the meaning
  have hnodupc := denoteSegs_nodup _ _ [] hok (by simp)
  have hvals := valsOf_denoteSegs _ _ [] hok
  have hv0 : valsOf [] = fun _ => [] := rfl
  rw [hv0] at hvals
  rw [hden] at hnodupc hvals
  have hvoc : ∀ oc ∈ denoteSegs [] (init ++ [l]) (AI0 ++ [AL0]),
      oc.values = ff oc.path (allPairs (EI ++ [EL]) (AI ++ [AL])) := by
    intro oc hoc
    have h1 : valsOf (denoteSegs [] (init ++ [l]) (AI0 ++ [AL0])) oc.path = oc.values := by
      unfold valsOf
      rw [find_of_nodup hnodupc hoc]
      rfl
    rw [← h1, hvals, foldl_bump_eq_ff]
  -- the cut
  have hfinish : ∀ r', CutView r' (EI ++ [EL]) (AI ++ [AL]) →
      (∀ oc ∈ denoteSegs [] (init ++ [l]) (AI0 ++ [AL0]), valuesIn r'.channels oc.path <+: oc.values) ∧
      (∀ m ∈ r'.state.objects, m.numValues = (valuesIn r'.channels m.path).length) ∧
      (∀ seg ∈ r'.state.segments, RecOf (EI ++ [EL]) (AI ++ [AL]) seg) := by
    intro r' hv
    exact ⟨fun oc hoc => by rw [hvoc oc hoc]; exact hv.pre oc.path, hv.len, hv.recs⟩
  by_cases hcase : K ≤ (zipEncode encodeSeg EI AI).length ∧ EI ≠ []
  · -- the cut lies inside (or at the end of) one of the segments before the last
    obtain ⟨hK1, hne⟩ := hcase
    obtain ⟨pre, apre, s, a, post, apost, k, h1, h2, h3, h4, h5, h6⟩ := zip_cut_decompose EI AI K hlEI hne hK1
    have htake : (zipEncode encodeSeg EI AI ++ encodeSeg (setU l.lengthUnknown EL) AL).take K =
        zipEncode encodeSeg pre apre ++ (encodeSeg (setU false s) a).take k := by
      rw [List.take_append_of_le_length hK1, h6]
      have hs : SegOK s a := by
        have hok1 : SegsOK (pre ++ s :: post) (apre ++ a :: apost) := by rw [← h1, ← h2]; exact hokI
        have h7 : SegsOK ((pre ++ [s]) ++ post) ((apre ++ [a]) ++ apost) := by simpa [List.append_assoc] using hok1
        exact ((segsOK_append pre apre [s] [a] h3 (segsOK_append _ _ _ _ (by simp [h3]) h7).1).2).1
      rw [setU_false s hs.std.lengthKnown]
    have hE : EI ++ [EL] = pre ++ s :: (post ++ [EL]) := by rw [h1]; simp
    have hA : AI ++ [AL] = apre ++ a :: (apost ++ [AL]) := by rw [h2]; simp
    rw [hE, hA] at hok hac hch' hfinish
    rw [hA] at hnd
    have hlen' : (zipEncode encodeSeg pre apre).length + (encodeSeg s a).length < 2 ^ 63 := by
      have : (zipEncode encodeSeg EI AI).length =
          (zipEncode encodeSeg pre apre).length + (encodeSeg s a).length + (zipEncode encodeSeg post apost).length := by
        rw [h1, h2, zipEncode_append pre apre _ _ h3]
        simp [zipEncode, Nat.add_assoc]
      simp only [List.length_append] at hlen
      omega
    obtain ⟨r', hr', hv⟩ := read_cut_at pre apre s a (post ++ [EL]) (apost ++ [AL]) false k hac h3 hok hnd hch' h4 hlen'
    rw [htake]
    obtain ⟨g1, g2, g3⟩ := hfinish r' hv
    exact ⟨r', hr', g1, g2, by rw [hE, hA]; exact g3⟩
  · -- the cut lies inside (or at the end of) the last segment
    have hK1 : (zipEncode encodeSeg EI AI).length ≤ K := by
      by_cases hne : EI = []
      · subst hne
        cases AI <;> simp [zipEncode]
      · have : ¬ K ≤ (zipEncode encodeSeg EI AI).length := fun h => hcase ⟨h, hne⟩
        omega
    obtain ⟨k, rfl⟩ : ∃ k, K = (zipEncode encodeSeg EI AI).length + k :=
      ⟨K - (zipEncode encodeSeg EI AI).length, by omega⟩
    have hkL : k ≤ (encodeSeg EL AL).length := by
      simp only [List.length_append, hLlen] at hK
      omega
    have hlen' : (zipEncode encodeSeg EI AI).length + (encodeSeg EL AL).length < 2 ^ 63 := by
      simp only [List.length_append, hLlen] at hlen
      exact hlen
    obtain ⟨r', hr', hv⟩ := read_cut_at EI AI EL AL [] [] l.lengthUnknown k hac hlEI hok hnd hch' hkL hlen'
    rw [List.take_length_add_append]
    obtain ⟨g1, g2, g3⟩ := hfinish r' hv
    exact ⟨r', hr', g1, g2, g3⟩

end Tdms.Proofs.C06Gen
