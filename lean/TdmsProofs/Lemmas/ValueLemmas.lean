/-
  Value byte order: `swapAtoms`, `storeValue`, `canonValue`, and kernel-checked facts about the
  generated type table.  Core Lean only.
-/
import TdmsProofs.Lemmas.BytesLemmas

namespace Tdms.Proofs.Bytes

open Tdms Tdms.Generated Tdms.Model

/-! ## `swapAtoms` -/

theorem swapAtoms_length (ws : List Nat) (v : Bytes) (h : ws.sum ≤ v.length) :
    (swapAtoms ws v).length = ws.sum := by
  induction ws generalizing v with
  | nil => simp [swapAtoms]
  | cons w ws ih =>
    simp only [List.sum_cons] at h
    simp only [swapAtoms, List.length_append, List.length_reverse, List.length_take, List.sum_cons]
    rw [ih (v.drop w) (by simp; omega)]
    omega

/-- swapping the atoms twice is the identity when the atoms tile the value exactly -/
theorem swapAtoms_involutive (ws : List Nat) (v : Bytes) (h : ws.sum = v.length) :
    swapAtoms ws (swapAtoms ws v) = v := by
  induction ws generalizing v with
  | nil =>
    simp only [List.sum_nil] at h
    simp [swapAtoms, List.length_eq_zero_iff.mp h.symm]
  | cons w ws ih =>
    simp only [List.sum_cons] at h
    have hw : w ≤ v.length := by omega
    have hl : ((v.take w).reverse).length = w := by simp [hw]
    have hd : ws.sum = (v.drop w).length := by simp; omega
    simp only [swapAtoms]
    rw [List.take_left' hl, List.drop_left' hl, List.reverse_reverse, ih _ hd, List.take_append_drop]

/-- a single atom is reversed as a whole -/
theorem swapAtoms_single (v : Bytes) : swapAtoms [v.length] v = v.reverse := by
  simp [swapAtoms]

/-! ## facts about the generated table (checked by the kernel, re-checked on every regeneration) -/

/-- the atoms of every fixed-width type tile its size -/
theorem table_atoms_sum :
    ∀ ti ∈ typeTable, ∀ s, ti.size = some s → (typeAtoms ti.code).sum = s := by decide

/-- no fixed-width type has size zero -/
theorem table_size_pos : ∀ ti ∈ typeTable, ∀ s, ti.size = some s → 0 < s := by decide

/-- every type code fits the 4-byte field that stores it -/
theorem table_code_lt : ∀ ti ∈ typeTable, ti.code < 2 ^ 32 := by decide

/-- `typeInfo` of the code of a table entry is an entry with the same code -/
theorem typeInfo_some {ty : Nat} {ti : TypeInfo} (h : typeInfo ty = some ti) :
    ti ∈ typeTable ∧ ti.code = ty := by
  unfold typeInfo at h
  exact ⟨List.mem_of_find?_eq_some h, by simpa using List.find?_some h⟩

/-- types read through `struct.unpack` are single atoms (no complex type has a struct format) -/
theorem table_struct_single :
    ∀ ti ∈ typeTable, ti.structFmt.isSome → ∃ s, ti.size = some s ∧ typeAtoms ti.code = [s] := by
  decide

theorem table_timestamp : typeInfo tyTimeStamp = some ⟨68, "TimeStamp", some 16, none, none, true, true, false⟩ ∧
    typeAtoms tyTimeStamp = [16] := by decide

/-- the sixteen fixed-width types -/
theorem table_fixed_codes :
    (typeTable.filter (·.size.isSome)).map (·.code) =
      [1, 2, 3, 4, 5, 6, 7, 8, 9, 10, 25, 26, 33, 68, 524300, 1048589] := by decide

theorem typeSize_some {ty s : Nat} (h : typeSize ty = some s) :
    ∃ ti, typeInfo ty = some ti ∧ ti ∈ typeTable ∧ ti.code = ty ∧ ti.size = some s := by
  unfold typeSize at h
  cases hti : typeInfo ty with
  | none => simp [hti] at h
  | some ti =>
    have := typeInfo_some hti
    exact ⟨ti, rfl, this.1, this.2, by simpa [hti] using h⟩

theorem typeAtoms_sum {ty s : Nat} (h : typeSize ty = some s) : (typeAtoms ty).sum = s := by
  obtain ⟨ti, _, hm, hc, hs⟩ := typeSize_some h
  have := table_atoms_sum ti hm s hs
  rwa [hc] at this

theorem typeSize_pos {ty s : Nat} (h : typeSize ty = some s) : 0 < s := by
  obtain ⟨ti, _, hm, _, hs⟩ := typeSize_some h
  exact table_size_pos ti hm s hs

theorem typeSize_code_lt {ty s : Nat} (h : typeSize ty = some s) : ty < 2 ^ 32 := by
  obtain ⟨ti, _, hm, hc, _⟩ := typeSize_some h
  have := table_code_lt ti hm
  rwa [hc] at this

theorem typeInfo_code_lt {ty : Nat} {ti : TypeInfo} (h : typeInfo ty = some ti) : ty < 2 ^ 32 := by
  have := typeInfo_some h
  have h2 := table_code_lt ti this.1
  rwa [this.2] at h2

/-! ## `storeValue` / `canonValue` -/

theorem storeValue_length (e : Endian) {ty s : Nat} (h : typeSize ty = some s) (v : Bytes)
    (hv : v.length = s) : (storeValue e ty v).length = s := by
  cases e
  · exact hv
  · simp only [storeValue]
    rw [swapAtoms_length _ _ (by rw [typeAtoms_sum h, hv]; exact Nat.le_refl _), typeAtoms_sum h]

/-- decoding a stored value gives the value back, for every fixed-width type of the table -/
theorem canonValue_storeValue (e : Endian) {ty s : Nat} (h : typeSize ty = some s) (v : Bytes)
    (hv : v.length = s) : canonValue e ty (storeValue e ty v) = v := by
  cases e
  · rfl
  · simp only [canonValue, storeValue]
    exact swapAtoms_involutive _ _ (by rw [typeAtoms_sum h, hv])

/-- … and symmetrically (the two maps are the same involution) -/
theorem storeValue_canonValue (e : Endian) {ty s : Nat} (h : typeSize ty = some s) (v : Bytes)
    (hv : v.length = s) : storeValue e ty (canonValue e ty v) = v :=
  canonValue_storeValue e h v hv

end Tdms.Proofs.Bytes
