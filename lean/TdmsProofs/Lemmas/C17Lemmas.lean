/-
  Helper lemmas for C17.lean.
-/
import TdmsProofs.Model.Sensors
import TdmsProofs.Spec.SensorLaws
import Mathlib.Tactic.FieldSimp
import Mathlib.Tactic.Ring
import Mathlib.Tactic.Linarith
import Mathlib.Tactic.NormNum

namespace Tdms.Proofs.C17Lemmas

open Tdms.Model.Sensors Tdms.Spec.Sensors

/-! ## Lead wires -/

section Field
variable {K : Type*} [Field K]

/-- Current excitation: the code's compensation removes exactly the lead term of the law. -/
theorem adjustLead_current (cfg : Nat) (R lead : K) :
    adjustLead true cfg (R + currentLeadTerm cfg lead) lead = R := by
  rcases cfg with _ | _ | _ | _ | n <;> simp [adjustLead, currentLeadTerm]

theorem adjustLead_voltage (cfg : Nat) (R lead : K) :
    adjustLead false cfg R lead = if cfg = 3 then R - lead else R := by
  simp [adjustLead]

theorem rtdResistance_law {I : K} (hI : I ≠ 0) (cfg : Nat) (R lead : K) :
    rtdResistance I lead cfg (currentExcitedVoltage I R cfg lead) = R := by
  unfold rtdResistance currentExcitedVoltage
  rw [mul_div_cancel_left₀ _ hI]
  exact adjustLead_current cfg R lead

/-! ## Thermistor resistance -/

theorem thermistorResistanceCurrent_law {I : K} (hI : I ≠ 0) (R : K) :
    thermistorResistanceCurrent I (I * R) = R := by
  unfold thermistorResistanceCurrent
  exact mul_div_cancel_left₀ _ hI

theorem thermistorResistanceVoltage_law {R R1 Vex : K}
    (hR : R ≠ 0) (hV : Vex ≠ 0) (hR1 : R1 ≠ 0) (_hS : R1 + R ≠ 0) :
    R1 * (Vex * (Vex * R / (R1 + R))⁻¹ - 1)⁻¹ = R := by
  have h1 : Vex * (Vex * R / (R1 + R))⁻¹ - 1 = R1 / R := by
    field_simp
    ring
  rw [h1, inv_div]
  field_simp

/-! ## Polynomial -/

theorem horner_eq_polyEval (cs : List K) (x : K) : horner cs x = polyEval cs x := by
  induction cs with
  | nil => simp [horner, polyEval]
  | cons c cs ih =>
    simp only [horner, polyEval, List.length_cons] at *
    rw [Finset.sum_range_succ', ih, Finset.sum_mul]
    simp only [List.getD_cons_succ, List.getD_cons_zero, pow_zero, mul_one, pow_succ]
    rw [add_comm]
    congr 1
    apply Finset.sum_congr rfl
    intro i _
    ring

theorem polyEval_quartic (c0 c1 c2 c3 c4 x : K) :
    polyEval [c0, c1, c2, c3, c4] x = c0 + c1 * x + c2 * x ^ 2 + c3 * x ^ 3 + c4 * x ^ 4 := by
  simp [polyEval, Finset.sum_range_succ]

/-- The quartic handed to `polyroots` is the Callendar–Van Dusen law (with the `C` term)
minus the measured resistance. -/
theorem polyEval_rtdQuartic (a b c r0 r_t t : K) :
    polyEval (rtdQuarticCoeffs a b c r0 r_t) t
      = r0 * (1 + a * t + b * t ^ 2 + c * (t - 100) * t ^ 3) - r_t := by
  rw [rtdQuarticCoeffs, polyEval_quartic]
  ring

/-! ## Initial bridge voltage -/

section
variable [DecidableEq K]

theorem subInitial_eq (vInit v : K) : subInitial vInit v = v - vInit := by
  unfold subInitial
  split_ifs with h
  · rfl
  · rw [not_not] at h; rw [h, sub_zero]

theorem subInitial_add (vInit V : K) : subInitial vInit (V + vInit) = V := by
  rw [subInitial_eq, add_sub_cancel_right]

end

/-! ## Wheatstone bridge closed forms (the "This gives Vo = …" comments)

The bridge equations divide by `R1 + R2 = 2·R0`, so `2 ≠ 0` is needed: characteristic 0. -/

variable [CharZero K]

theorem fullBridge1_closed {R0 : K} (hR0 : R0 ≠ 0) (G Vex ε : K) :
    fullBridge1 R0 G Vex ε = -ε * G * Vex := by
  unfold fullBridge1 wheatstone
  have h1 : R0 * (1 - ε * G) + R0 * (1 + ε * G) = R0 * 2 := by ring
  rw [h1]
  field_simp
  ring

theorem fullBridge2_closed {R0 : K} (hR0 : R0 ≠ 0) (G ν Vex ε : K) :
    fullBridge2 R0 G ν Vex ε = -(1 / 2) * ε * G * Vex * (1 + ν) := by
  unfold fullBridge2 wheatstone
  have h1 : R0 * (1 - ε * G) + R0 * (1 + ε * G) = R0 * 2 := by ring
  have h2 : R0 * (1 - ε * ν * G) + R0 * (1 + ε * ν * G) = R0 * 2 := by ring
  rw [h1, h2]
  field_simp
  ring

omit [CharZero K] in
theorem fullBridge3_closed {R0 G ν ε : K} (hR0 : R0 ≠ 0) (hD : 2 + ε * G * (1 - ν) ≠ 0) (Vex : K) :
    fullBridge3 R0 G ν Vex ε = -ε * G * (1 + ν) * Vex / (2 + ε * G * (1 - ν)) := by
  unfold fullBridge3 wheatstone
  have h1 : R0 * (1 - ε * ν * G) + R0 * (1 + ε * G) = R0 * (2 + ε * G * (1 - ν)) := by ring
  rw [h1]
  field_simp
  ring

theorem halfBridge1_closed {R0 G ν ε : K} (hR0 : R0 ≠ 0) (hD : 2 + ε * G * (1 - ν) ≠ 0) (Vex : K) :
    halfBridge1 R0 G ν Vex ε = -ε * G * (1 + ν) * Vex / (2 * (2 + ε * G * (1 - ν))) := by
  unfold halfBridge1 wheatstone
  have h1 : R0 * (1 - ε * ν * G) + R0 * (1 + ε * G) = R0 * (2 + ε * G * (1 - ν)) := by ring
  have h2 : R0 + R0 = R0 * 2 := by ring
  rw [h1, h2]
  field_simp
  ring

/-- The code comment's own closed form:
`Vo = [(1 - ε ν G) / (2 + ε G - ε ν G) - 1/2] Vex`. -/
theorem halfBridge1_comment_form {R0 G ν ε : K} (hR0 : R0 ≠ 0) (hD : 2 + ε * G - ε * ν * G ≠ 0)
    (Vex : K) :
    halfBridge1 R0 G ν Vex ε = ((1 - ε * ν * G) / (2 + ε * G - ε * ν * G) - 1 / 2) * Vex := by
  unfold halfBridge1 wheatstone
  have h1 : R0 * (1 - ε * ν * G) + R0 * (1 + ε * G) = R0 * (2 + ε * G - ε * ν * G) := by ring
  have h2 : R0 + R0 = R0 * 2 := by ring
  rw [h1, h2]
  field_simp

theorem halfBridge2_closed {R0 : K} (hR0 : R0 ≠ 0) (G Vex ε : K) :
    halfBridge2 R0 G Vex ε = -ε * G * Vex / 2 := by
  unfold halfBridge2 wheatstone
  have h1 : R0 * (1 - ε * G) + R0 * (1 + ε * G) = R0 * 2 := by ring
  have h2 : R0 + R0 = R0 * 2 := by ring
  rw [h1, h2]
  field_simp
  ring

/-- The code comment's closed form: `Vo = [1 / (2 + ε G) - (1 / 2)] Vex`. -/
theorem quarterBridge_closed {R0 G ε : K} (hR0 : R0 ≠ 0) (hD : 2 + ε * G ≠ 0) (Vex : K) :
    quarterBridge R0 G Vex ε = (1 / (2 + ε * G) - 1 / 2) * Vex := by
  unfold quarterBridge wheatstone
  have h1 : R0 + R0 * (1 + ε * G) = R0 * (2 + ε * G) := by ring
  have h2 : R0 + R0 = R0 * 2 := by ring
  rw [h1, h2]
  field_simp

/-! ## Strain: inverting the closed forms with the code's formulas

`Gb` is the gauge factor that acts in the bridge, `p.gageFactor` the one the code
divides by; the headline theorems instantiate `Gb := p.gageFactor` (ideal bridge) and
`Gb := desensitisedGaugeFactor …` (lead wire in series with the gauge). -/

variable [DecidableEq K]

omit [CharZero K] in
theorem strainFullBridge1_core (p : StrainParams K) (hV : p.vex ≠ 0) (hG : p.gageFactor ≠ 0) (ε : K) :
    strainFullBridge1 p (-ε * p.gageFactor * p.vex + p.vInit) = p.gain * ε := by
  unfold strainFullBridge1
  rw [subInitial_add]
  field_simp

theorem strainFullBridge2_core (p : StrainParams K) (hV : p.vex ≠ 0) (hG : p.gageFactor ≠ 0)
    (hν : 1 + p.nu ≠ 0) (ε : K) :
    strainFullBridge2 p (-(1 / 2) * ε * p.gageFactor * p.vex * (1 + p.nu) + p.vInit) = p.gain * ε := by
  unfold strainFullBridge2
  rw [subInitial_add]
  field_simp

theorem strainFullBridge3_core (p : StrainParams K) (hV : p.vex ≠ 0) (hG : p.gageFactor ≠ 0)
    (hg : p.gain ≠ 0) (hν : 1 + p.nu ≠ 0) (ε : K)
    (hD : 2 + ε * p.gageFactor * (1 - p.nu) ≠ 0) :
    strainFullBridge3 p
      (-ε * p.gageFactor * (1 + p.nu) * p.vex / (2 + ε * p.gageFactor * (1 - p.nu)) + p.vInit)
      = p.gain * ε := by
  unfold strainFullBridge3
  rw [subInitial_add]
  set G := p.gageFactor
  set ν := p.nu
  set Vex := p.vex
  set g := p.gain
  set D := 2 + ε * G * (1 - ν) with hDdef
  have htemp : -ε * G * (1 + ν) * Vex / D * (-(1 / 2) / g * (1 - ν) * G)
      + -(1 / 2) / g * Vex * G * (1 + ν) = -(G * Vex * (1 + ν)) / (g * D) := by
    field_simp
    rw [hDdef]
    ring
  simp only []
  rw [htemp]
  field_simp

theorem strainHalfBridge1_core (p : StrainParams K) (Gb ε : K) (hV : p.vex ≠ 0)
    (hG : p.gageFactor ≠ 0) (hg : p.gain ≠ 0) (hν : 1 + p.nu ≠ 0)
    (hL : 1 + p.lead / p.gageResistance ≠ 0) (hD : 2 + ε * Gb * (1 - p.nu) ≠ 0) :
    strainHalfBridge1 p
      (-ε * Gb * (1 + p.nu) * p.vex / (2 * (2 + ε * Gb * (1 - p.nu))) + p.vInit)
      = p.gain * (1 + p.lead / p.gageResistance) * ε * (Gb / p.gageFactor) := by
  unfold strainHalfBridge1 leadAdjustment
  rw [subInitial_add]
  set G := p.gageFactor
  set ν := p.nu
  set Vex := p.vex
  set g := p.gain
  set L := 1 + p.lead / p.gageResistance
  set D := 2 + ε * Gb * (1 - ν) with hDdef
  have htemp : -ε * Gb * (1 + ν) * Vex / (2 * D) * (-G * Vex * (1 / L) / (4 * g) * 2 * (1 - ν) / Vex)
      + -G * Vex * (1 / L) / (4 * g) * (1 + ν) = -(G * Vex * (1 + ν)) / (2 * g * L * D) := by
    field_simp
    rw [hDdef]
    ring
  simp only []
  rw [htemp]
  field_simp

theorem strainHalfBridge2_core (p : StrainParams K) (Gb ε : K) (hV : p.vex ≠ 0)
    (hG : p.gageFactor ≠ 0) (hL : 1 + p.lead / p.gageResistance ≠ 0) :
    strainHalfBridge2 p (-ε * Gb * p.vex / 2 + p.vInit)
      = p.gain * (1 + p.lead / p.gageResistance) * ε * (Gb / p.gageFactor) := by
  unfold strainHalfBridge2 leadAdjustment
  rw [subInitial_add]
  set L := 1 + p.lead / p.gageResistance
  field_simp

theorem strainQuarterBridge_core (p : StrainParams K) (Gb ε : K) (hV : p.vex ≠ 0)
    (hG : p.gageFactor ≠ 0) (hL : 1 + p.lead / p.gageResistance ≠ 0) (hD : 2 + ε * Gb ≠ 0) :
    strainQuarterBridge p ((1 / (2 + ε * Gb) - 1 / 2) * p.vex + p.vInit)
      = p.gain * (1 + p.lead / p.gageResistance) * ε * (Gb / p.gageFactor) := by
  unfold strainQuarterBridge leadAdjustment
  rw [subInitial_add]
  set L := 1 + p.lead / p.gageResistance
  have h1 : (1 / (2 + ε * Gb) - 1 / 2) * p.vex * (2 / p.vex) + 1 = 2 / (2 + ε * Gb) := by
    field_simp
    ring
  rw [h1, inv_div]
  field_simp
  ring

end Field

/-! ## RTD -/

section Real

theorem cvd_nonneg {r0 a b c T : ℝ} (hT : 0 ≤ T) :
    callendarVanDusen r0 a b c T = r0 * (1 + a * T + b * T ^ 2) := by
  unfold callendarVanDusen
  rw [if_neg (not_lt.mpr hT), add_zero]

theorem cvd_neg {r0 a b c T : ℝ} (hT : T < 0) :
    callendarVanDusen r0 a b c T = r0 * (1 + a * T + b * T ^ 2 + c * (T - 100) * T ^ 3) := by
  unfold callendarVanDusen
  rw [if_pos hT]

/-- The discriminant of the code's quadratic at `r_t = R(T)` is a perfect square. -/
theorem rtd_discriminant {r0 : ℝ} (hr0 : r0 ≠ 0) (a b T : ℝ) :
    a ^ 2 - 4 * b * (1 - r0 * (1 + a * T + b * T ^ 2) / r0) = (a + 2 * b * T) ^ 2 := by
  rw [mul_div_cancel_left₀ _ hr0]
  ring

theorem rtd_quadratic_inverse {a b r0 T : ℝ} (hb : b ≠ 0) (hr0 : r0 ≠ 0) (hs : 0 ≤ a + 2 * b * T) :
    (-a + Real.sqrt (a ^ 2 - 4 * b * (1 - r0 * (1 + a * T + b * T ^ 2) / r0))) / (2 * b) = T := by
  rw [rtd_discriminant hr0, Real.sqrt_sq hs]
  field_simp
  ring

/-- Without the sign condition the quadratic branch returns the *other* root. -/
theorem rtd_quadratic_other_root {a b r0 T : ℝ} (hb : b ≠ 0) (hr0 : r0 ≠ 0) (hs : a + 2 * b * T ≤ 0) :
    (-a + Real.sqrt (a ^ 2 - 4 * b * (1 - r0 * (1 + a * T + b * T ^ 2) / r0))) / (2 * b)
      = -a / b - T := by
  have h : (a + 2 * b * T) ^ 2 = (-(a + 2 * b * T)) ^ 2 := by ring
  rw [rtd_discriminant hr0, h, Real.sqrt_sq (by linarith)]
  field_simp
  ring

theorem cvd_ge_r0 {r0 a b c T : ℝ} (hr0 : 0 < r0) (hb : b ≤ 0) (hT : 0 ≤ T)
    (hs : 0 ≤ a + 2 * b * T) : r0 ≤ callendarVanDusen r0 a b c T := by
  rw [cvd_nonneg hT]
  have h1 : 0 ≤ -b * T := mul_nonneg (by linarith) hT
  have h2 : 0 ≤ T * (a + b * T) := mul_nonneg hT (by linarith)
  have h3 : 0 ≤ r0 * (T * (a + b * T)) := mul_nonneg hr0.le h2
  nlinarith [h3]

theorem cvd_lt_r0 {r0 a b c T : ℝ} (hr0 : 0 < r0) (ha : 0 < a) (hb : b ≤ 0) (hc : c ≤ 0)
    (hT : T < 0) : callendarVanDusen r0 a b c T < r0 := by
  rw [cvd_neg hT]
  have h1 : 0 ≤ b * T := mul_nonneg_of_nonpos_of_nonpos hb hT.le
  have h2 : 0 ≤ c * (T - 100) := mul_nonneg_of_nonpos_of_nonpos hc (by linarith)
  have h3 : 0 ≤ c * (T - 100) * T ^ 2 := mul_nonneg h2 (sq_nonneg T)
  have h4 : 0 < a + b * T + c * (T - 100) * T ^ 2 := by linarith
  have h5 : T * (a + b * T + c * (T - 100) * T ^ 2) < 0 := mul_neg_of_neg_of_pos hT h4
  have h6 : r0 * (T * (a + b * T + c * (T - 100) * T ^ 2)) < 0 := mul_neg_of_pos_of_neg hr0 h5
  nlinarith [h6]

/-- For `a > 0, b ≤ 0, c ≤ 0` the Callendar–Van Dusen polynomial (with `C` term) is strictly
increasing on `(-∞, 0]`; hence a negative root of the quartic is unique. -/
theorem cvdPoly_strictMono_neg {a b c s t : ℝ} (ha : 0 < a) (hb : b ≤ 0) (hc : c ≤ 0)
    (hst : s < t) (ht : t ≤ 0) :
    1 + a * s + b * s ^ 2 + c * (s - 100) * s ^ 3 < 1 + a * t + b * t ^ 2 + c * (t - 100) * t ^ 3 := by
  have hs : s < 0 := lt_of_lt_of_le hst ht
  have hd : 0 < t - s := sub_pos.mpr hst
  -- t^2 - s^2 ≤ 0
  have h2 : 0 ≤ s ^ 2 - t ^ 2 := by nlinarith
  have hb2 : 0 ≤ b * (t ^ 2 - s ^ 2) := mul_nonneg_of_nonpos_of_nonpos hb (by linarith)
  -- t^3 - s^3 ≥ 0
  have h3 : 0 ≤ t ^ 3 - s ^ 3 := by
    have : t ^ 3 - s ^ 3 = (t - s) * (t ^ 2 + t * s + s ^ 2) := by ring
    rw [this]
    have : 0 ≤ t * s := mul_nonneg_of_nonpos_of_nonpos ht hs.le
    exact mul_nonneg hd.le (by nlinarith [sq_nonneg t, sq_nonneg s])
  -- t^4 - s^4 ≤ 0
  have h4 : 0 ≤ s ^ 4 - t ^ 4 := by
    have : s ^ 4 - t ^ 4 = (s ^ 2 - t ^ 2) * (s ^ 2 + t ^ 2) := by ring
    rw [this]
    exact mul_nonneg h2 (by nlinarith [sq_nonneg t, sq_nonneg s])
  have hc4 : 0 ≤ c * ((t ^ 4 - 100 * t ^ 3) - (s ^ 4 - 100 * s ^ 3)) :=
    mul_nonneg_of_nonpos_of_nonpos hc (by linarith)
  have ha1 : 0 < a * (t - s) := mul_pos ha hd
  nlinarith [ha1, hb2, hc4]

/-! ## Thermistor -/

theorem thermistorScale_eq (a b c offset r : ℝ) :
    thermistorScale a b c offset r
      = (a + b * Real.log r + c * Real.log r ^ 3)⁻¹ - offset := by
  unfold thermistorScale
  congr 2
  simp only [horner]
  ring

theorem thermistorScale_law {a b c R T : ℝ} (offset : ℝ) (_hT : T ≠ 0) (h : SteinhartHart a b c R T) :
    thermistorScale a b c offset R = T - offset := by
  rw [thermistorScale_eq]
  unfold SteinhartHart at h
  rw [← h, one_div, inv_inv]

end Real

/-! ## Table: `np.interp` -/

section Order
variable {K : Type*} [LinearOrder K] [Zero K]

omit [Zero K] in
theorem _root_.Tdms.Model.Sensors.StrictlySorted.tail {a : K} {l : List K} (h : StrictlySorted (a :: l)) : StrictlySorted l := by
  cases l with
  | nil => trivial
  | cons b t => exact h.2

/-- In a strictly sorted list the head is below every later element. -/
theorem _root_.Tdms.Model.Sensors.StrictlySorted.head_lt_getD {a : K} {l : List K} (h : StrictlySorted (a :: l)) :
    ∀ j, j < l.length → a < l.getD j 0 := by
  induction l generalizing a with
  | nil => intro j hj; simp at hj
  | cons b t ih =>
    intro j hj
    cases j with
    | zero => simpa using h.1
    | succ k =>
      have hk : k < t.length := by simpa using hj
      have := ih h.2 k hk
      simpa using lt_trans h.1 this

theorem _root_.Tdms.Model.Sensors.StrictlySorted.head_le_getD {a : K} {l : List K} (h : StrictlySorted (a :: l)) :
    ∀ j, j ≤ l.length → a ≤ (a :: l).getD j 0 := by
  intro j hj
  cases j with
  | zero => simp
  | succ k =>
    have := h.head_lt_getD k (by omega)
    simpa using this.le

omit [Zero K] in
theorem _root_.Tdms.Model.Sensors.StrictlySorted.head_le_getLastD {a : K} {l : List K} (h : StrictlySorted (a :: l)) :
    a ≤ l.getLastD a := by
  induction l generalizing a with
  | nil => simp
  | cons b t ih =>
    rw [List.getLastD_cons]
    exact le_trans h.1.le (ih h.2)

/-- Strictly sorted lists are strictly monotone in the index. -/
theorem _root_.Tdms.Model.Sensors.StrictlySorted.getD_lt_getD {l : List K} (h : StrictlySorted l) :
    ∀ i j, i < j → j < l.length → l.getD i 0 < l.getD j 0 := by
  induction l with
  | nil => intro i j _ hj; simp at hj
  | cons a t ih =>
    intro i j hij hj
    cases j with
    | zero => omega
    | succ j' =>
      have hj' : j' < t.length := by simpa using hj
      cases i with
      | zero => simpa using h.head_lt_getD j' hj'
      | succ i' => simpa using ih h.tail i' j' (by omega) hj'

end Order

section Ordered
variable {K : Type*} [Field K] [LinearOrder K]

theorem interpGo_above {x0 y0 : K} {xs ys : List K} {x : K}
    (hs : StrictlySorted (x0 :: xs)) (hl : xs.length = ys.length) (hx : xs.getLastD x0 ≤ x) :
    interpGo x0 y0 xs ys x = ys.getLastD y0 := by
  induction xs generalizing x0 y0 ys with
  | nil =>
    cases ys with
    | nil => simp [interpGo]
    | cons _ _ => simp at hl
  | cons x1 xs' ih =>
    cases ys with
    | nil => simp at hl
    | cons y1 ys' =>
      rw [List.getLastD_cons] at hx
      have h1 : x1 ≤ x := le_trans hs.2.head_le_getLastD hx
      rw [interpGo, if_neg (not_lt.mpr h1), List.getLastD_cons]
      exact ih hs.2 (by simpa using hl) hx

omit [LinearOrder K] in
theorem segment_cons_succ (x0 y0 : K) (xs ys : List K) (k : Nat) (x : K) :
    segment (x0 :: xs) (y0 :: ys) (k + 1) x = segment xs ys k x := by
  simp [segment]

theorem interpGo_between {x0 y0 : K} {xs ys : List K} {x : K} {j : Nat}
    (hs : StrictlySorted (x0 :: xs)) (hl : xs.length = ys.length) (hj : j < xs.length)
    (hlo : (x0 :: xs).getD j 0 ≤ x) (hhi : x < xs.getD j 0) :
    interpGo x0 y0 xs ys x = segment (x0 :: xs) (y0 :: ys) j x := by
  induction j generalizing x0 y0 xs ys with
  | zero =>
    cases xs with
    | nil => simp at hj
    | cons x1 xs' =>
      cases ys with
      | nil => simp at hl
      | cons y1 ys' =>
        have h1 : x < x1 := by simpa using hhi
        rw [interpGo, if_pos h1]
        simp [segment]
        ring
  | succ k ih =>
    cases xs with
    | nil => simp at hj
    | cons x1 xs' =>
      cases ys with
      | nil => simp at hl
      | cons y1 ys' =>
        have hk : k < xs'.length := by simpa using hj
        have hlo' : (x1 :: xs').getD k 0 ≤ x := by simpa using hlo
        have hhi' : x < xs'.getD k 0 := by simpa using hhi
        have h1 : x1 ≤ x := le_trans (hs.2.head_le_getD k hk.le) hlo'
        rw [interpGo, if_neg (not_lt.mpr h1), segment_cons_succ]
        exact ih hs.2 (by simpa using hl) hk hlo' hhi'

/-- If `x` lies inside the table there is a segment containing it. -/
theorem exists_segment {x0 : K} {xs : List K} {x : K} (hlo : x0 ≤ x) (hhi : x < xs.getLastD x0) :
    ∃ j, j < xs.length ∧ (x0 :: xs).getD j 0 ≤ x ∧ x < xs.getD j 0 := by
  induction xs generalizing x0 with
  | nil => simp at hhi; exact absurd hhi (not_lt.mpr hlo)
  | cons x1 xs' ih =>
    by_cases h1 : x < x1
    · exact ⟨0, by simp, by simpa using hlo, by simpa using h1⟩
    · rw [List.getLastD_cons] at hhi
      obtain ⟨j, hj, hjl, hjh⟩ := ih (not_lt.mp h1) hhi
      exact ⟨j + 1, by simpa using hj, by simpa using hjl, by simpa using hjh⟩

/-! ### The three regions of `interpClamped` -/

theorem interpClamped_below {xs ys : List K} {x : K} (hl : xs.length = ys.length)
    (hne : xs ≠ []) (hx : x < xs.headD 0) : interpClamped xs ys x = ys.headD 0 := by
  cases xs with
  | nil => exact absurd rfl hne
  | cons x0 xs' =>
    cases ys with
    | nil => simp at hl
    | cons y0 ys' =>
      have h : x < x0 := by simpa using hx
      simp [interpClamped, h]

theorem interpClamped_above {xs ys : List K} {x : K} (hs : StrictlySorted xs)
    (hl : xs.length = ys.length) (hne : xs ≠ []) (hx : xs.getLastD 0 ≤ x) :
    interpClamped xs ys x = ys.getLastD 0 := by
  cases xs with
  | nil => exact absurd rfl hne
  | cons x0 xs' =>
    cases ys with
    | nil => simp at hl
    | cons y0 ys' =>
      rw [List.getLastD_cons] at hx
      have h0 : x0 ≤ x := le_trans hs.head_le_getLastD hx
      rw [interpClamped, if_neg (not_lt.mpr h0), List.getLastD_cons]
      exact interpGo_above hs (by simpa using hl) hx

theorem interpClamped_between {xs ys : List K} {x : K} {j : Nat} (hs : StrictlySorted xs)
    (hl : xs.length = ys.length) (hj : j + 1 < xs.length)
    (hlo : xs.getD j 0 ≤ x) (hhi : x < xs.getD (j + 1) 0) :
    interpClamped xs ys x = segment xs ys j x := by
  cases xs with
  | nil => simp at hj
  | cons x0 xs' =>
    cases ys with
    | nil => simp at hl
    | cons y0 ys' =>
      have hj' : j < xs'.length := by simpa using hj
      have h0 : x0 ≤ x := le_trans (hs.head_le_getD j hj'.le) hlo
      rw [interpClamped, if_neg (not_lt.mpr h0)]
      exact interpGo_between hs (by simpa using hl) hj' hlo (by simpa using hhi)

/-- For strictly sorted `xs` at most one segment contains `x`. -/
theorem segment_index_unique {xs : List K} {x : K} {i j : Nat} (hs : StrictlySorted xs)
    (hi : i + 1 < xs.length) (hj : j + 1 < xs.length)
    (hil : xs.getD i 0 ≤ x) (hih : x < xs.getD (i + 1) 0)
    (hjl : xs.getD j 0 ≤ x) (hjh : x < xs.getD (j + 1) 0) : i = j := by
  have mono : ∀ a b, a ≤ b → b < xs.length → xs.getD a 0 ≤ xs.getD b 0 := by
    intro a b hab hb
    rcases Nat.eq_or_lt_of_le hab with h | h
    · rw [h]
    · exact (hs.getD_lt_getD a b h hb).le
  by_contra hne
  rcases Nat.lt_or_gt_of_ne hne with h | h
  · have := mono (i + 1) j h (by omega)
    exact absurd (lt_of_lt_of_le hih (le_trans this hjl)) (lt_irrefl _)
  · have := mono (j + 1) i h (by omega)
    exact absurd (lt_of_lt_of_le hjh (le_trans this hil)) (lt_irrefl _)

theorem interpClamped_eq_piecewiseLinear {xs ys : List K} (hs : StrictlySorted xs)
    (hl : xs.length = ys.length) (x : K) : interpClamped xs ys x = piecewiseLinear xs ys x := by
  cases xs with
  | nil =>
    cases ys with
    | nil => simp [interpClamped, piecewiseLinear]
    | cons _ _ => simp at hl
  | cons x0 xs' =>
    cases ys with
    | nil => simp at hl
    | cons y0 ys' =>
      unfold piecewiseLinear
      by_cases h1 : x < (x0 :: xs').headD 0
      · rw [if_pos h1]
        exact interpClamped_below hl (by simp) h1
      · rw [if_neg h1]
        by_cases h2 : (x0 :: xs').getLastD 0 ≤ x
        · rw [if_pos h2]
          exact interpClamped_above hs hl (by simp) h2
        · rw [if_neg h2]
          have hlo : x0 ≤ x := by simpa using h1
          have hhi : x < xs'.getLastD x0 := by
            rw [List.getLastD_cons] at h2
            exact not_le.mp h2
          obtain ⟨j, hj, hjl, hjh⟩ := exists_segment hlo hhi
          cases hfind : (List.range ((x0 :: xs').length - 1)).find?
              (fun j => decide ((x0 :: xs').getD j 0 ≤ x ∧ x < (x0 :: xs').getD (j + 1) 0)) with
          | none =>
            exfalso
            rw [List.find?_eq_none] at hfind
            have := hfind j (by simpa using hj)
            simp at this
            exact absurd (by simpa using hjh) (not_lt.mpr (this hjl))
          | some i =>
            have hp := List.find?_some hfind
            have hmem := List.mem_of_find?_eq_some hfind
            simp only [decide_eq_true_eq] at hp
            have hi : i + 1 < (x0 :: xs').length := by
              have := List.mem_range.mp hmem
              simp at this ⊢
              omega
            exact interpClamped_between hs hl hi hp.1 hp.2

omit [Field K] in
/-- What `TableScaling.__init__` stores is strictly increasing, of equal lengths, and is the
given table or its flip. -/
theorem tableInit_spec {pre scaled xs ys : List K} (hl : pre.length = scaled.length)
    (h : tableInit pre scaled = some (xs, ys)) :
    StrictlySorted xs ∧ xs.length = ys.length ∧
      ((xs = scaled ∧ ys = pre) ∨ (xs = scaled.reverse ∧ ys = pre.reverse)) := by
  unfold tableInit at h
  split_ifs at h with h1 h2
  · simp only [Option.some.injEq, Prod.mk.injEq] at h
    obtain ⟨rfl, rfl⟩ := h
    exact ⟨h1, hl.symm, Or.inl ⟨rfl, rfl⟩⟩
  · simp only [Option.some.injEq, Prod.mk.injEq] at h
    obtain ⟨rfl, rfl⟩ := h
    exact ⟨h2, by simp [hl], Or.inr ⟨rfl, rfl⟩⟩

end Ordered

end Tdms.Proofs.C17Lemmas
