/-
  C03 (mixed files, windows) — one segment of the window loop: the run of chunks planned by `segPlan`
  satisfies `TrimOk`, chunk by chunk AND coalesced into one chunk.  This is the part of C04's
  per-segment argument (`seg_run`, `seg_step`) that C04 keeps internal; it is re-derived here from the
  same arithmetic lemmas (`start_arith`, `end_arith`, `runOk_range`).  Core Lean only.
-/
import TdmsProofs.Lemmas.C03MixedCoalesce
import TdmsProofs.Lemmas.C04WindowPlan

namespace Tdms.Proofs.C03

open Tdms Tdms.Model Tdms.Proofs.C04

/-- under the hypotheses of C04's `seg_run`, the run `[co, co+n)` may be trimmed chunk by chunk and
    as one coalesced chunk -/
theorem run_trimOk (l : SegL) (v : Nat → List Bytes) (hv : ChunksOk l v)
    (co n : Nat) (a e : Int) (skip : Nat) (vr : Int)
    (h4 : co + n ≤ l.k)
    (hskip : (skip : Int) = max 0 (a - ((l.cs * co : Nat) : Int)))
    (hvr : vr = ((l.cs * co : Nat) : Int) - a + skip)
    (h3 : a ≤ ((l.cs * co : Nat) : Int) + l.chunkLen co)
    (h3' : a ≤ ((l.cs * (co + 1) : Nat) : Int))
    (h5 : 0 < n → ((l.cs * (co + n) : Nat) : Int) - l.cs ≤ e)
    (h0 : n = 0 → ((l.cs * co : Nat) : Int) ≤ e ∧ a ≤ ((l.cs * co : Nat) : Int)) :
    TrimOk (e - a) ((List.range' co n).map v) skip vr ∧
    TrimOk (e - a) [((List.range' co n).map v).flatten] skip vr := by
  have hfull : ∀ j, j + 1 < l.k → (v j).length = l.cs := by
    intro j hj; rw [hv j (by omega)]; exact chunkLen_of_not_last l j hj
  have hrun : RunOk ((List.range' co n).map v) ((l.cs * co : Nat) : Int) a e :=
    runOk_range v l.cs a e n co (fun j h2 h3 => hfull j (by omega)) h5
      (fun hn => by rw [hv co (by omega)]; exact h3) h3'
  refine ⟨trimOk_of_runOk _ _ a e skip vr hskip hvr hrun, ?_⟩
  apply trimOk_of_runOk _ _ a e skip vr hskip hvr
  cases n with
  | zero =>
    obtain ⟨h01, h02⟩ := h0 rfl
    simp only [List.range'_zero, List.map_nil, List.flatten_nil]
    exact ⟨h01, by simpa using h02, trivial⟩
  | succ n =>
    rw [List.range'_succ, List.map_cons] at hrun ⊢
    exact runOk_flatten _ _ _ _ _ hrun

/-- **one segment of the loop**: the plan exists, its chunk offset and chunk count are non-negative and
    stay inside the segment, and the planned run satisfies `TrimOk` both chunk by chunk and coalesced
    (same hypotheses as C04's `seg_step`) -/
theorem seg_step_trimOk (l : SegL) (v : Nat → List Bytes) (hwf : l.WF) (hcs : 0 < l.cs) (hv : ChunksOk l v)
    (isStart isEnd : Bool) (a e vr : Int)
    (hs : isStart = true → 0 ≤ a ∧ a < l.nvals) (hns : isStart = false → a < 0)
    (hvr : vr = if isStart then 0 else -a)
    (he : isEnd = true → e ≤ l.nvals ∧ a ≤ e ∧ (isStart = false → 0 < e))
    (hne : isEnd = false → (l.nvals : Int) ≤ e) :
    ∃ co skip nc, planA l isStart isEnd a (l.nvals - e) = some (co, skip, nc) ∧
      0 ≤ co ∧ 0 ≤ nc ∧ co.toNat + nc.toNat ≤ l.k ∧
      TrimOk (e - a) ((List.range' co.toNat nc.toNat).map v) skip.toNat vr ∧
      TrimOk (e - a) [((List.range' co.toNat nc.toNat).map v).flatten] skip.toNat vr := by
  rw [planA_eq l (by omega)]
  refine ⟨_, _, _, rfl, ?_⟩
  have hN := nvals_eq l hwf hcs
  have hfs := fs_le l hwf
  cases isStart with
  | true =>
    obtain ⟨ha0, haN⟩ := hs rfl
    have hk0 : l.k ≠ 0 := by
      intro h; rw [h] at hN; simp at hN; omega
    obtain ⟨k', hk⟩ : ∃ k', l.k = k' + 1 := ⟨l.k - 1, by omega⟩
    rw [if_neg hk0, hk] at hN
    simp only [Nat.add_sub_cancel] at hN
    rw [hN] at haN
    obtain ⟨co, hco, hskip, hcok, hpre, hlt, hlast⟩ := start_arith l.cs k' l.fs a hcs hfs ha0 haN
    simp only [if_true] at hvr ⊢
    rw [hco, hskip, hk]
    have h3 : a ≤ ((l.cs * co : Nat) : Int) + l.chunkLen co := by
      rw [chunkLen_eq]
      by_cases h : co + 1 = l.k
      · rw [if_pos h]; have := hlast (by omega); omega
      · rw [if_neg h]; rw [Nat.mul_succ] at hlt; omega
    have hsk : ((a - ((l.cs * co : Nat) : Int)).toNat : Int) = max 0 (a - ((l.cs * co : Nat) : Int)) := by omega
    have hvr' : vr = ((l.cs * co : Nat) : Int) - a + ((a - ((l.cs * co : Nat) : Int)).toNat : Int) := by omega
    have hmk : l.cs * (k' + 1) = l.cs * k' + l.cs := Nat.mul_succ _ _
    cases isEnd with
    | false =>
      have hne' := hne rfl
      simp only [Bool.false_eq_true, if_false, Int.toNat_natCast]
      have hn : (((k' + 1 : Nat) : Int) - (co : Int)).toNat = k' + 1 - co := by omega
      rw [hn]
      have := run_trimOk l v hv co (k' + 1 - co) a e _ vr (by omega)
        hsk hvr' h3 (by omega)
        (by intro _
            have : co + (k' + 1 - co) = k' + 1 := by omega
            rw [this, hmk]; omega)
        (by intro h; omega)
      exact ⟨by omega, by omega, by omega, this.1, this.2⟩
    | true =>
      obtain ⟨heN, hae, _⟩ := he rfl
      rw [hN] at heN
      obtain ⟨E, hEk, hadj, hE6, hE5⟩ := end_arith l.cs k' l.fs e (((k' + 1 : Nat) : Int) - (co : Int)) hcs hfs
        (by omega) heN
      simp only [if_true, Int.toNat_natCast]
      rw [hN, hadj]
      have hcoE : co ≤ E := by
        rcases hE6 with h | h
        · omega
        · have hh : l.cs * co ≤ l.cs * E := by omega
          exact Nat.le_of_mul_le_mul_left hh hcs
      have hn : (((k' + 1 : Nat) : Int) - (co : Int) - ((k' + 1 : Nat) : Int) + (E : Int)).toNat = E - co := by omega
      rw [hn]
      have hE : co + (E - co) = E := by omega
      have := run_trimOk l v hv co (E - co) a e _ vr (by omega)
        hsk hvr' h3 (by omega)
        (by intro _; rw [hE]; have := hE5 (by omega); omega)
        (by intro h
            have hEco : E = co := by omega
            rcases hE6 with h6 | h6
            · omega
            · rw [hEco] at h6; omega)
      exact ⟨by omega, by omega, by omega, this.1, this.2⟩
  | false =>
    have ha := hns rfl
    simp only [Bool.false_eq_true, if_false] at hvr ⊢
    simp only [Int.toNat_zero]
    have hz : l.cs * 0 = 0 := Nat.mul_zero _
    cases isEnd with
    | false =>
      have hne' := hne rfl
      simp only [Bool.false_eq_true, if_false, Int.toNat_natCast]
      have := run_trimOk l v hv 0 l.k a e 0 vr (by omega)
        (by rw [hz]; omega) (by rw [hz]; omega) (by rw [hz]; omega) (by rw [Nat.zero_add, Nat.mul_one]; omega)
        (by intro hk0
            obtain ⟨k', hk⟩ : ∃ k', l.k = k' + 1 := ⟨l.k - 1, by omega⟩
            rw [if_neg (by omega), hk] at hN
            simp only [Nat.add_sub_cancel] at hN
            rw [Nat.zero_add, hk, Nat.mul_succ]; omega)
        (by intro _; rw [hz]; omega)
      exact ⟨by omega, by omega, by omega, this.1, this.2⟩
    | true =>
      obtain ⟨heN, hae, he0⟩ := he rfl
      have he0 := he0 rfl
      have hk0 : l.k ≠ 0 := by
        intro h; rw [h] at hN; simp at hN; omega
      obtain ⟨k', hk⟩ : ∃ k', l.k = k' + 1 := ⟨l.k - 1, by omega⟩
      rw [if_neg hk0, hk] at hN
      simp only [Nat.add_sub_cancel] at hN
      rw [hN] at heN
      obtain ⟨E, hEk, hadj, hE6, hE5⟩ := end_arith l.cs k' l.fs e ((k' + 1 : Nat) : Int) hcs hfs
        (by omega) heN
      simp only [if_true]
      rw [hN, hk, hadj]
      have hn : (((k' + 1 : Nat) : Int) - ((k' + 1 : Nat) : Int) + (E : Int)).toNat = E := by omega
      rw [hn]
      have := run_trimOk l v hv 0 E a e 0 vr (by omega)
        (by rw [hz]; omega) (by rw [hz]; omega) (by rw [hz]; omega) (by rw [Nat.zero_add, Nat.mul_one]; omega)
        (by intro h; rw [Nat.zero_add]; have := hE5 h; omega)
        (by intro _; rw [hz]; omega)
      exact ⟨by omega, by omega, by omega, this.1, this.2⟩

end Tdms.Proofs.C03
