/-
  C01, composed theorem for one-segment files: definitions shared by all lemma files, and the spec
  side (`activeLists`, `wellFormed`, `denote` of a single standard segment in closed form).
  Core Lean only.
-/
import TdmsProofs.Properties.C01Layers

namespace Tdms.Proofs.C01Compose

open Tdms Tdms.Generated Tdms.Model Tdms.Proofs.Bytes

/-! ## the class of segments -/

/-- the raw-data index of an object is `noData` or a full standard index -/
def stdIdx (o : ObjEnc) : Prop := o.idx = .noData ∨ ∃ ty n total, o.idx = .full ty n total

def isFull (o : ObjEnc) : Bool :=
  match o.idx with
  | .full .. => true
  | _ => false

/-- the objects that carry data -/
def dataOs (os : List ObjEnc) : List ObjEnc := os.filter isFull

/-- data type declared by an object -/
def tyOf (o : ObjEnc) : Option Nat :=
  match o.idx with
  | .full ty _ _ => some ty
  | _ => none

/-- values per chunk declared by an object -/
def nvals (o : ObjEnc) : Nat :=
  match o.idx with
  | .full _ n _ => n
  | _ => 0

/-- the active object of a listed object in a first segment -/
def actOf (o : ObjEnc) : ActiveObj :=
  match o.idx with
  | .full ty n total => ⟨o.path, true, some (.std ty n total)⟩
  | _ => ⟨o.path, false, none⟩

theorem actOf_path (o : ObjEnc) : (actOf o).path = o.path := by
  obtain ⟨p, idx, ps⟩ := o; cases idx <;> rfl

theorem actOf_hasData (o : ObjEnc) : (actOf o).hasData = isFull o := by
  obtain ⟨p, idx, ps⟩ := o; cases idx <;> rfl

theorem actOf_ty (o : ObjEnc) : (actOf o).idx.map (·.ty) = tyOf o := by
  obtain ⟨p, idx, ps⟩ := o; cases idx <;> rfl

theorem actOf_not_daq (o : ObjEnc) : isDaqmxObj (actOf o) = false := by
  obtain ⟨p, idx, ps⟩ := o; cases idx <;> rfl

theorem dataObjs_map_actOf (os : List ObjEnc) : dataObjs (os.map actOf) = (dataOs os).map actOf := by
  induction os with
  | nil => rfl
  | cons o os ih =>
    simp only [dataObjs, dataOs, List.map_cons, List.filter_cons, actOf_hasData] at ih ⊢
    cases h : isFull o <;> simp [ih]

theorem dataOs_sub {os : List ObjEnc} {o : ObjEnc} (h : o ∈ dataOs os) : o ∈ os ∧ isFull o = true := by
  simpa [dataOs] using h

theorem isFull_iff (o : ObjEnc) : isFull o = true ↔ ∃ ty n total, o.idx = .full ty n total := by
  obtain ⟨p, idx, ps⟩ := o
  cases idx <;> simp [isFull]

/-! ## distinct paths -/

theorem noDupPaths_iff (os : List ObjEnc) : noDupPaths os = true ↔ (os.map (·.path)).Nodup := by
  induction os with
  | nil => simp [noDupPaths]
  | cons o os ih =>
    simp only [noDupPaths, Bool.and_eq_true, Bool.not_eq_true', List.any_eq_false, decide_eq_true_eq,
      List.map_cons, List.nodup_cons, List.mem_map, not_exists, not_and, ih]

/-- `map` with a keyed update touches exactly the one element carrying the key -/
theorem map_ite_unique {α : Type} (key : α → Bytes) (p : Bytes) (f : α → α) (pre post : List α)
    (x : α) (hx : key x = p) (hpre : ∀ y ∈ pre, key y ≠ p) (hpost : ∀ y ∈ post, key y ≠ p) :
    (pre ++ x :: post).map (fun y => if key y = p then f y else y) = pre ++ f x :: post := by
  have h1 : pre.map (fun y => if key y = p then f y else y) = pre := by
    conv => rhs; rw [← List.map_id pre]
    exact List.map_congr_left fun y hy => by simp [hpre y hy]
  have h2 : post.map (fun y => if key y = p then f y else y) = post := by
    conv => rhs; rw [← List.map_id post]
    exact List.map_congr_left fun y hy => by simp [hpost y hy]
  simp [h1, h2, hx]

/-! ## `activeLists` of a single standard segment -/

theorem lastGet_set_ne (last : LastIdx) (p q : Bytes) (d : IdxDesc) (hne : q ≠ p)
    (h : last.get q = none) : (last.set p d).get q = none := by
  simp only [LastIdx.get, LastIdx.set, Option.map_eq_none_iff, List.find?_eq_none,
    decide_eq_true_eq] at h ⊢
  intro x hx
  rcases List.mem_cons.mp hx with rfl | hx
  · exact fun h' => hne h'.symm
  · exact h x (List.mem_filter.mp hx).1

theorem resolveObjs_std (objs : List ObjEnc) :
    ∀ (last : LastIdx) (act : List ActiveObj), (∀ o ∈ objs, stdIdx o) →
      (objs.map (·.path)).Nodup → (∀ o ∈ objs, last.get o.path = none) →
      (∀ o ∈ objs, ∀ a ∈ act, a.path ≠ o.path) →
      ∃ last', resolveObjs last act objs = .ok (act ++ objs.map actOf, last') := by
  induction objs with
  | nil => intro last act _ _ _ _; exact ⟨last, by simp [resolveObjs]⟩
  | cons o os ih =>
    intro last act hstd hnd hlast hact
    simp only [List.map_cons, List.nodup_cons, List.mem_map, not_exists, not_and] at hnd
    obtain ⟨hno, hnd'⟩ := hnd
    have hany : act.any (fun a => decide (a.path = o.path)) = false := by
      simp only [List.any_eq_false, decide_eq_true_eq]
      exact fun a ha => hact o List.mem_cons_self a ha
    have hact' : ∀ q ∈ os, ∀ a ∈ act ++ [actOf o], a.path ≠ q.path := by
      intro q hq a ha
      rcases List.mem_append.mp ha with ha | ha
      · exact hact q (List.mem_cons_of_mem _ hq) a ha
      · simp only [List.mem_singleton] at ha
        subst ha
        rw [actOf_path]
        exact fun h => hno q hq h.symm
    have hl0 := hlast o List.mem_cons_self
    rcases hstd o List.mem_cons_self with h | ⟨ty, n, total, h⟩
    · have hres : resolveObj last o = .ok (actOf o, last) := by
        simp [resolveObj, actOf, h, hl0]
      obtain ⟨last', hr⟩ := ih last (act ++ [actOf o])
        (fun q hq => hstd q (List.mem_cons_of_mem _ hq)) hnd'
        (fun q hq => hlast q (List.mem_cons_of_mem _ hq)) hact'
      refine ⟨last', ?_⟩
      have hp : placeObj act (actOf o) = act ++ [actOf o] := by
        simp [placeObj, actOf_path, hany]
      simp only [resolveObjs, hres, hp, hr, List.map_cons, List.append_assoc, List.singleton_append]
    · have hres : resolveObj last o = .ok (actOf o, last.set o.path (.std ty n total)) := by
        simp [resolveObj, actOf, h, hl0]
      obtain ⟨last', hr⟩ := ih (last.set o.path (.std ty n total)) (act ++ [actOf o])
        (fun q hq => hstd q (List.mem_cons_of_mem _ hq)) hnd'
        (fun q hq => lastGet_set_ne last o.path q.path _ (fun h' => hno q hq h')
          (hlast q (List.mem_cons_of_mem _ hq))) hact'
      refine ⟨last', ?_⟩
      have hp : placeObj act (actOf o) = act ++ [actOf o] := by
        simp [placeObj, actOf_path, hany]
      simp only [resolveObjs, hres, hp, hr, List.map_cons, List.append_assoc, List.singleton_append]

theorem activeLists_single (s : SegEnc) (hm : s.hasMeta = true) (hstd : ∀ o ∈ s.objs, stdIdx o)
    (hnd : (s.objs.map (·.path)).Nodup) :
    activeLists none [] [s] = .ok [s.objs.map actOf] := by
  obtain ⟨last', hr⟩ := resolveObjs_std s.objs [] [] hstd hnd
    (fun _ _ => by simp [LastIdx.get]) (fun _ _ a ha => by simp at ha)
  simp only [activeLists, activeOfSeg, hm, Bool.not_true, Bool.false_eq_true, if_false]
  have hb : (if s.newList = true then ([] : List ActiveObj) else (none : Option (List ActiveObj)).getD []) = [] := by
    cases s.newList <;> rfl
  rw [hb, hr]
  simp

/-- what `wellFormed [s]` says, for a segment of the class -/
structure WfSingle (s : SegEnc) : Prop where
  acts : activeLists none [] [s] = .ok [s.objs.map actOf]
  nodup : (s.objs.map (·.path)).Nodup
  version : s.version = 4712 ∨ s.version = 4713
  objs : ∀ o ∈ s.objs, wfObj o = true
  nonZero : ∀ c ∈ s.chunks, (encChunk s (s.objs.map actOf) c).length ≠ 0
  chunks : ∀ c ∈ s.chunks, wfStdChunk ((dataOs s.objs).map actOf) c = true

theorem not_any_daq (os : List ObjEnc) : ((dataOs os).map actOf).any isDaqmxObj = false := by
  simp [List.any_eq_false, actOf_not_daq]

theorem wfSingle_of_wellFormed (s : SegEnc) (hm : s.hasMeta = true) (hstd : ∀ o ∈ s.objs, stdIdx o)
    (hwf : wellFormed [s] = true) : WfSingle s := by
  unfold wellFormed at hwf
  cases hacts : activeLists none [] [s] with
  | error r => simp [hacts] at hwf
  | ok acts =>
    simp only [hacts] at hwf
    cases acts with
    | nil => simp [wfSegs] at hwf
    | cons a as =>
      cases as with
      | cons b bs => simp [wfSegs] at hwf
      | nil =>
        simp only [wfSegs, Bool.and_true] at hwf
        have hnd : (s.objs.map (·.path)).Nodup := by
          rw [← noDupPaths_iff]
          simp only [wfSeg, Bool.and_eq_true] at hwf
          exact hwf.1.1.1.1.2
        have ha := activeLists_single s hm hstd hnd
        rw [hacts] at ha
        have ha' : a = s.objs.map actOf := by simpa using ha
        subst ha'
        simp only [wfSeg, Bool.and_eq_true, Bool.or_eq_true, decide_eq_true_eq, List.all_eq_true,
          dataObjs_map_actOf, not_any_daq, Bool.false_eq_true, if_false, chunkBytesNonZero,
          Bool.not_eq_true'] at hwf
        obtain ⟨⟨⟨⟨⟨⟨⟨hv, _⟩, hobjs⟩, _⟩, _⟩, _⟩, hnz⟩, hch, _⟩ := hwf
        refine ⟨hacts, hnd, hv, hobjs, ?_, hch⟩
        intro c hc h0
        have := hnz c hc
        rw [List.isEmpty_eq_false_iff] at this
        exact this (List.eq_nil_of_length_eq_zero h0)

/-! ## `denote` of a single standard segment -/

/-- the content entry of an object before any raw data -/
def base (o : ObjEnc) : ObjContent := ⟨o.path, tyOf o, o.props.foldl setProp [], [], []⟩

def base0 (o : ObjEnc) : ObjContent := ⟨o.path, tyOf o, [], [], []⟩

/-- replace the value lists by a function of the path -/
def withVals (c : Content) (f : Bytes → List Bytes) : Content := c.map fun oc => { oc with values := f oc.path }

/-- append `pv.2` to the values stored under `pv.1` -/
def bump (f : Bytes → List Bytes) (pv : Bytes × List Bytes) : Bytes → List Bytes :=
  fun q => if q = pv.1 then f q ++ pv.2 else f q

/-- one chunk as (path, values) pairs, in the order of the data objects -/
def chunkPairs (ds : List ObjEnc) (chunk : List (List Bytes)) : List (Bytes × List Bytes) :=
  (ds.map (·.path)).zip chunk

/-- values per path after all chunks -/
def valsAfter (ds : List ObjEnc) (f : Bytes → List Bytes) (chunks : List (List (List Bytes))) :
    Bytes → List Bytes :=
  chunks.foldl (fun f ch => (chunkPairs ds ch).foldl bump f) f

theorem declareObjs_std (os : List ObjEnc) :
    ∀ (c : Content), (os.map (·.path)).Nodup → (∀ o ∈ os, ∀ x ∈ c, x.path ≠ o.path) →
      declareObjs c (os.map actOf) = c ++ os.map base0 := by
  induction os with
  | nil => intro c _ _; simp [declareObjs]
  | cons o os ih =>
    intro c hnd hfresh
    simp only [List.map_cons, List.nodup_cons, List.mem_map, not_exists, not_and] at hnd
    obtain ⟨hno, hnd'⟩ := hnd
    have hany : c.any (fun x => decide (x.path = (actOf o).path)) = false := by
      simp only [List.any_eq_false, decide_eq_true_eq, actOf_path]
      exact fun x hx => hfresh o List.mem_cons_self x hx
    simp only [List.map_cons, declareObjs, Content.modify, hany, Bool.false_eq_true, if_false]
    rw [ih _ hnd' (by
      intro q hq x hx
      rcases List.mem_append.mp hx with hx | hx
      · exact hfresh q (List.mem_cons_of_mem _ hq) x hx
      · simp only [List.mem_singleton] at hx
        subst hx
        simp only [actOf_path]
        exact fun h => hno q hq h.symm)]
    simp only [List.append_assoc, List.singleton_append, List.append_cancel_left_eq, List.cons.injEq,
      and_true, base0, actOf_path, actOf_ty]
    clear hany hfresh hno ih
    obtain ⟨p, idx, ps⟩ := o
    cases idx <;> rfl

theorem applyProps_std (os : List ObjEnc) :
    ∀ (done : Content), (os.map (·.path)).Nodup → (∀ o ∈ os, ∀ x ∈ done, x.path ≠ o.path) →
      applyProps (done ++ os.map base0) os = done ++ os.map base := by
  induction os with
  | nil => intro done _ _; simp [applyProps]
  | cons o os ih =>
    intro done hnd hfresh
    simp only [List.map_cons, List.nodup_cons, List.mem_map, not_exists, not_and] at hnd
    obtain ⟨hno, hnd'⟩ := hnd
    have hany : (done ++ base0 o :: os.map base0).any (fun x => decide (x.path = o.path)) = true := by
      simp [base0]
    simp only [List.map_cons, applyProps, Content.modify, hany, if_true]
    rw [map_ite_unique (fun x : ObjContent => x.path) o.path _ done (os.map base0) (base0 o) rfl
      (fun y hy => hfresh o List.mem_cons_self y hy)
      (fun y hy => by
        obtain ⟨q, hq, rfl⟩ := List.mem_map.mp hy
        exact fun h => hno q hq h)]
    have := ih (done ++ [base o]) hnd' (by
      intro q hq x hx
      rcases List.mem_append.mp hx with hx | hx
      · exact hfresh q (List.mem_cons_of_mem _ hq) x hx
      · simp only [List.mem_singleton] at hx
        subst hx
        exact fun h => hno q hq h.symm)
    simpa [base, base0] using this

theorem withVals_paths (c : Content) (f : Bytes → List Bytes) :
    (withVals c f).map (·.path) = c.map (·.path) := by
  simp [withVals, List.map_map, Function.comp_def]

theorem modify_withVals (B : Content) (f : Bytes → List Bytes) (p : Bytes) (v : List Bytes)
    (hp : p ∈ B.map (·.path)) :
    (withVals B f).modify p (fun o => { o with values := o.values ++ v }) = withVals B (bump f (p, v)) := by
  have hany : (withVals B f).any (fun x => decide (x.path = p)) = true := by
    obtain ⟨x, hx, rfl⟩ := List.mem_map.mp hp
    simp only [List.any_eq_true, decide_eq_true_eq]
    exact ⟨{ x with values := f x.path }, List.mem_map.mpr ⟨x, hx, rfl⟩, rfl⟩
  unfold Content.modify
  rw [if_pos hany]
  simp only [withVals, List.map_map]
  apply List.map_congr_left
  intro x _
  by_cases h : x.path = p <;> simp [bump, h]

theorem addStdChunk_withVals (B : Content) (ds : List ObjEnc) :
    ∀ (f : Bytes → List Bytes) (chunk : List (List Bytes)), (∀ d ∈ ds, d.path ∈ B.map (·.path)) →
      addStdChunk (withVals B f) (ds.map actOf) chunk = withVals B ((chunkPairs ds chunk).foldl bump f) := by
  induction ds with
  | nil => intro f chunk _; cases chunk <;> simp [addStdChunk, chunkPairs]
  | cons d ds ih =>
    intro f chunk hmem
    cases chunk with
    | nil => simp [addStdChunk, chunkPairs]
    | cons v vs =>
      simp only [List.map_cons, addStdChunk, actOf_path]
      rw [modify_withVals B f d.path v (hmem d List.mem_cons_self),
        ih _ vs (fun q hq => hmem q (List.mem_cons_of_mem _ hq))]
      simp [chunkPairs]

theorem foldl_addChunk_withVals (s : SegEnc) (B : Content)
    (hmem : ∀ d ∈ dataOs s.objs, d.path ∈ B.map (·.path)) :
    ∀ (chunks : List (List (List Bytes))) (f : Bytes → List Bytes),
      chunks.foldl (addChunk s (s.objs.map actOf)) (withVals B f) =
        withVals B (valsAfter (dataOs s.objs) f chunks) := by
  intro chunks
  induction chunks with
  | nil => intro f; rfl
  | cons ch chs ih =>
    intro f
    simp only [List.foldl_cons, valsAfter]
    have : addChunk s (s.objs.map actOf) (withVals B f) ch =
        withVals B ((chunkPairs (dataOs s.objs) ch).foldl bump f) := by
      simp only [addChunk, dataObjs_map_actOf, not_any_daq, Bool.false_eq_true, if_false]
      exact addStdChunk_withVals B _ f ch hmem
    rw [this, ih]
    rfl

theorem withVals_base_nil (os : List ObjEnc) : withVals (os.map base) (fun _ => []) = os.map base := by
  simp [withVals, base]

/-- **the meaning of a single standard segment in closed form** -/
theorem denote_single (s : SegEnc) (hm : s.hasMeta = true) (w : WfSingle s) :
    denote [s] = .ok (withVals (s.objs.map base) (valsAfter (dataOs s.objs) (fun _ => []) s.chunks)) := by
  unfold denote
  rw [w.acts]
  simp only [denoteSegs, denoteSeg, hm, if_true]
  have h1 := declareObjs_std s.objs [] w.nodup (fun _ _ x hx => by simp at hx)
  have h2 := applyProps_std s.objs [] w.nodup (fun _ _ x hx => by simp at hx)
  simp only [List.nil_append] at h1 h2
  rw [h1, h2, ← withVals_base_nil s.objs,
    foldl_addChunk_withVals s (s.objs.map base) (by
      intro d hd
      exact List.mem_map.mpr ⟨base d, List.mem_map.mpr ⟨d, (dataOs_sub hd).1, rfl⟩, rfl⟩)]
  rw [withVals_base_nil]

end Tdms.Proofs.C01Compose
