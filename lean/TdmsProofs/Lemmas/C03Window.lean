/-
  C03 — from per-segment agreement to the whole file: the invariant `SegsOk`, the chunk contents
  `chanVals` (what the eager reader holds for the channel, chunk by chunk), the hypothesis
  `ReadsAs` of the C04 link lemma discharged for every window, and the full array of C04 identified
  with the concatenation of the eager chunk stream.  Core Lean only.
-/
import TdmsProofs.Lemmas.C03Seg
import TdmsProofs.Lemmas.C03Plan
import TdmsProofs.Lemmas.C04WindowLink
import TdmsProofs.Lemmas.C02Basic

namespace Tdms.Proofs.C03

open Tdms Tdms.Generated Tdms.Model Tdms.Proofs.Bytes Tdms.Proofs.C04

/-- the chunk size `_get_chunk_size` computes for the segment (0 when it raises) -/
def segCsz (s : Segment) : Nat :=
  match chunkSize s.objects with
  | .ok c => c
  | .error _ => 0

/-- **the invariant on one segment of the reader state** (about the file bytes and the segment
    record, independent of any channel): the segment starts with the `TDSm` tag, its object paths
    are pairwise distinct, a segment without the raw-data flag has no chunks, its data are read by
    the contiguous reader and every chunk is exact (`ContigOk`) -/
structure SegOk (file : Bytes) (s : Segment) : Prop where
  tag : (file.drop s.position).take 4 = tagData
  nodup : (s.objects.map (·.path)).Nodup
  noRaw : hasFlag s.toc kTocRawData = false → s.numChunks = 0
  contig : ContigOk file s (segCsz s)

def SegsOk (file : Bytes) (segs : List Segment) : Prop := ∀ s ∈ segs, SegOk file s

theorem SegOk.nodupData {file : Bytes} {s : Segment} (h : SegOk file s) : ((dataObjs s).map (·.path)).Nodup :=
  (h.nodup.sublist (List.Sublist.map _ List.filter_sublist))

theorem verifySegmentStart_ok {file : Bytes} {s : Segment} (h : SegOk file s) (st : FState) :
    ∃ st', verifySegmentStart file s st = .ok ((), st') := by
  refine ⟨⟨s.position + 4, st.trace ++ [(s.position, 4)]⟩, ?_⟩
  unfold verifySegmentStart
  rw [F_bind_ok (fSeek_run _ _)]
  have hread : fRead file 4 ⟨s.position, st.trace⟩ = .ok (tagData, ⟨s.position + 4, st.trace ++ [(s.position, 4)]⟩) := by
    simp [fRead, h.tag, tagData]
  rw [F_bind_ok hread]
  simp [F_pure]

/-! ## the channel's values, chunk by chunk -/

/-- values of channel `p` in chunk `j` of segment `s` (nothing when the channel has no data there) -/
def segChanVals (file : Bytes) (s : Segment) (p : Bytes) (j : Nat) : List Bytes :=
  if (layoutOf p s).cs = 0 then [] else (lazyChunk file s (segCsz s) p j).data.getD []

/-- the chunk contents for the C04 window theorem -/
def chanVals (file : Bytes) (segs : List Segment) (p : Bytes) : Vals := fun i j =>
  match segs[i]? with
  | some s => segChanVals file s p j
  | none => []

/-- what the lazy segment reads return -/
def supActual (file : Bytes) (segs : List Segment) (p : Bytes) : Supplier := fun i co nc =>
  match segs[i]? with
  | some s => lazySegChunks file s (segCsz s) p co nc
  | none => []

theorem getSegmentObject_mem (s : Segment) (p : Bytes) (o : SegObj) (h : getSegmentObject s p = some o) :
    o ∈ s.objects := by
  unfold getSegmentObject at h
  rw [Option.bind_eq_some_iff] at h
  obtain ⟨i, _, ho⟩ := h
  exact List.mem_of_getElem? ho

/-- a channel with values in the segment is one of its data objects -/
theorem layout_cs_obj {s : Segment} {p : Bytes} (h : (layoutOf p s).cs ≠ 0) :
    ∃ o, o ∈ dataObjs s ∧ o.path = p ∧ o.numberValues = (layoutOf p s).cs := by
  unfold layoutOf at h ⊢
  simp only [] at h ⊢
  cases ho : getSegmentObject s p with
  | none => rw [ho] at h; exact absurd rfl h
  | some o =>
    rw [ho] at h
    simp only [] at h ⊢
    by_cases hd : o.hasData = true
    · rw [if_pos hd]
      exact ⟨o, by simp [dataObjs, getSegmentObject_mem s p o ho, hd], getSegmentObject_path s p o ho, rfl⟩
    · rw [if_neg hd] at h; exact absurd rfl h

theorem chanOf_mem (p : Bytes) : ∀ (d : List SegObj) (vs : List (List Bytes)), vs.length = d.length →
    p ∈ d.map (·.path) → chanOf p d vs = { data := some ((chanOf p d vs).data.getD []) } := by
  intro d
  induction d with
  | nil => intro vs _ h; cases h
  | cons o os ih =>
    intro vs hl h
    cases vs with
    | nil => cases hl
    | cons v vs =>
      simp only [chanOf]
      by_cases hp : o.path = p
      · rw [if_pos hp]; rfl
      · rw [if_neg hp]
        simp only [List.map_cons, List.mem_cons] at h
        rcases h with h | h
        · exact absurd h.symm hp
        · exact ih vs (by simpa using hl) h

/-- chunk `j` of a segment in which the channel has values: the lazy chunk carries `segChanVals`,
    and as many values as the layout says -/
theorem lazyChunk_vals {file : Bytes} {s : Segment} (h : SegOk file s) (p : Bytes) (hcs : (layoutOf p s).cs ≠ 0)
    (j : Nat) (hj : j < s.numChunks) :
    lazyChunk file s (segCsz s) p j = { data := some (segChanVals file s p j) } ∧
    (segChanVals file s p j).length = (layoutOf p s).chunkLen j := by
  obtain ⟨o, hod, hop, hon⟩ := layout_cs_obj hcs
  obtain ⟨e, hex, _⟩ := h.contig.chunk hj
  have hlen := exactChunk_length hex
  have hmem : p ∈ (dataObjs s).map (·.path) := by rw [← hop]; exact List.mem_map_of_mem hod
  have h1 := chanOf_mem p (dataObjs s) _ hlen hmem
  have h2 := (chanOf_length p hex o hod hop h.nodupData).2
  unfold segChanVals
  rw [if_neg hcs]
  refine ⟨h1, ?_⟩
  show ((chanOf p (dataObjs s) (segVs file s (segCsz s) j)).data.getD []).length = _
  rw [h2]
  unfold channelNumberValues SegL.chunkLen
  rw [hon, hop]
  cases hov : s.override with
  | none => simp [layoutOf, hov]
  | some ov => simp [layoutOf, hov]

/-- … and when the channel has no values in the segment, no chunk of the segment carries any -/
theorem lazyChunk_absent {file : Bytes} {s : Segment} (h : SegOk file s) (p : Bytes) (hwf : (layoutOf p s).WF)
    (hcs : (layoutOf p s).cs = 0) (j : Nat) (hj : j < s.numChunks) :
    (lazyChunk file s (segCsz s) p j).data.getD [] = [] := by
  by_cases hmem : p ∈ (dataObjs s).map (·.path)
  · obtain ⟨o, hod, hop⟩ := List.mem_map.mp hmem
    obtain ⟨e, hex, _⟩ := h.contig.chunk hj
    have h2 := (chanOf_length p hex o hod hop h.nodupData).2
    apply List.eq_nil_of_length_eq_zero
    show ((chanOf p (dataObjs s) (segVs file s (segCsz s) j)).data.getD []).length = 0
    rw [h2]
    -- the object is the one `getSegmentObject` finds
    have hmemo : o ∈ s.objects := (List.mem_filter.mp hod).1
    have hdat : o.hasData = true := by simpa using (List.mem_filter.mp hod).2
    obtain ⟨i, hi, hio⟩ := List.getElem_of_mem hmemo
    have hex' : existingIndex s.objects p = some i := by
      have := (Tdms.Proofs.C02.existingIndex_unique h.nodup (p := p) (i := i)).mpr (by
        rw [List.getElem?_eq_getElem hi, hio]; simp [hop])
      exact this
    have hget : getSegmentObject s p = some o := by
      unfold getSegmentObject
      rw [hex']
      simp [List.getElem?_eq_getElem hi, hio]
    have hnv : o.numberValues = 0 := by
      unfold layoutOf at hcs
      simp only [hget, hdat, if_true] at hcs
      exact hcs
    unfold channelNumberValues
    cases hov : s.override with
    | none => exact hnv
    | some ov =>
      simp only []
      split
      · unfold SegL.WF layoutOf at hwf
        simp only [hov, Option.map] at hwf
        unfold layoutOf at hcs
        simp only [] at hcs
        rw [hop]
        omega
      · exact hnv
  · show ((chanOf p (dataObjs s) (segVs file s (segCsz s) j)).data.getD []) = []
    rw [chanOf_of_not_mem p _ _ hmem]
    rfl

end Tdms.Proofs.C03
