import TdmsProofs.Lemmas.C05Cache

/-!
# C19: a Hoare logic for the I/O trace of the monad `F`

`Tr P m A B Q`: from a state whose position satisfies `P`, if `m` succeeds then the trace is only
extended (by `l`), every new entry satisfies `A`, the new entries sum to at most `B` bytes, and the
result and final position satisfy `Q`.

`Span n m`: a purely sequential reader that consumes at most `n` bytes from wherever it starts.
-/

namespace Tdms.Proofs.C19

open Tdms Tdms.Model Tdms.Generated Tdms.Proofs.C05

/-- number of bytes returned by the reads of a trace -/
def traceBytes (l : List (Nat × Nat)) : Nat := (l.map (·.2)).sum

@[simp] theorem traceBytes_nil : traceBytes [] = 0 := rfl
@[simp] theorem traceBytes_append (a b : List (Nat × Nat)) : traceBytes (a ++ b) = traceBytes a + traceBytes b := by
  simp [traceBytes]
@[simp] theorem traceBytes_singleton (x : Nat × Nat) : traceBytes [x] = x.2 := by simp [traceBytes]

def Tr {α : Type} (P : Nat → Prop) (m : F α) (A : Nat × Nat → Prop) (B : Nat) (Q : α → Nat → Prop) : Prop :=
  ∀ s, P s.pos → ∀ a s', m s = .ok (a, s') →
    Q a s'.pos ∧ ∃ l, s'.trace = s.trace ++ l ∧ (∀ x ∈ l, A x) ∧ traceBytes l ≤ B

variable {α β : Type} {P P' : Nat → Prop} {A A' : Nat × Nat → Prop} {B B' B1 B2 : Nat}

theorem Tr.conseq {m : F α} {Q Q' : α → Nat → Prop} (h : Tr P m A B Q) (hP : ∀ c, P' c → P c)
    (hA : ∀ x, A x → A' x) (hB : B ≤ B') (hQ : ∀ a c, Q a c → Q' a c) : Tr P' m A' B' Q' := by
  intro s hs a s' hm
  obtain ⟨hq, l, hl, hall, hb⟩ := h s (hP _ hs) a s' hm
  exact ⟨hQ _ _ hq, l, hl, fun x hx => hA x (hall x hx), Nat.le_trans hb hB⟩

theorem Tr.bind {m : F α} {k : α → F β} {Q : α → Nat → Prop} {R : β → Nat → Prop}
    (hm : Tr P m A B1 Q) (hk : ∀ a, Tr (Q a) (k a) A B2 R) (hB : B1 + B2 ≤ B) : Tr P (m >>= k) A B R := by
  intro s hs b s'' hrun
  cases h1 : m s with
  | error e => rw [bind_run_error h1] at hrun; cases hrun
  | ok x =>
    obtain ⟨a, s'⟩ := x
    rw [bind_run_ok h1] at hrun
    obtain ⟨hq, l1, hl1, hall1, hb1⟩ := hm s hs a s' h1
    obtain ⟨hr, l2, hl2, hall2, hb2⟩ := hk a s' hq b s'' hrun
    refine ⟨hr, l1 ++ l2, by rw [hl2, hl1, List.append_assoc], ?_, ?_⟩
    · intro x hx
      rcases List.mem_append.1 hx with h | h
      · exact hall1 x h
      · exact hall2 x h
    · rw [traceBytes_append]; omega

theorem Tr.pure {Q : α → Nat → Prop} (a : α) (h : ∀ c, P c → Q a c) : Tr P (pure a : F α) A B Q := by
  intro s hs a' s' hrun
  have : a' = a ∧ s' = s := by
    have : (Except.ok (a, s) : Except Err (α × FState)) = .ok (a', s') := hrun
    injection this with this
    simp only [Prod.mk.injEq] at this
    exact ⟨this.1.symm, this.2.symm⟩
  obtain ⟨rfl, rfl⟩ := this
  exact ⟨h _ hs, [], by simp, by simp, by simp⟩

theorem Tr.throw {Q : α → Nat → Prop} (e : Err) : Tr P (throw e : F α) A B Q := by
  intro s _ a' s' hrun
  have : (Except.error e : Except Err (α × FState)) = .ok (a', s') := hrun
  cases this

theorem Tr.liftE {Q : α → Nat → Prop} (x : Except Err α) (h : ∀ a c, x = .ok a → P c → Q a c) :
    Tr P (liftE x) A B Q := by
  cases x with
  | error e =>
    intro s _ a' s' hrun
    have : (Except.error e : Except Err (α × FState)) = .ok (a', s') := hrun
    cases this
  | ok a =>
    intro s hs a' s' hrun
    have : (Except.ok (a, s) : Except Err (α × FState)) = .ok (a', s') := hrun
    injection this with this
    simp only [Prod.mk.injEq] at this
    obtain ⟨rfl, rfl⟩ := this
    exact ⟨h _ _ rfl hs, [], by simp, by simp, by simp⟩

theorem Tr.fSeek {Q : Unit → Nat → Prop} (p : Nat) (h : Q () p) : Tr P (fSeek p) A B Q := by
  intro s _ a' s' hrun
  have : (Except.ok ((), { s with pos := p }) : Except Err (Unit × FState)) = .ok (a', s') := hrun
  injection this with this
  simp only [Prod.mk.injEq] at this
  obtain ⟨_, rfl⟩ := this
  exact ⟨h, [], by simp, by simp, by simp⟩

theorem Tr.fTell {Q : Nat → Nat → Prop} (h : ∀ c, P c → Q c c) : Tr P fTell A B Q := by
  intro s hs a' s' hrun
  have : (Except.ok (s.pos, s) : Except Err (Nat × FState)) = .ok (a', s') := hrun
  injection this with this
  simp only [Prod.mk.injEq] at this
  obtain ⟨rfl, rfl⟩ := this
  exact ⟨h _ hs, [], by simp, by simp, by simp⟩

theorem Tr.fRead {Q : Bytes → Nat → Prop} (file : Bytes) (n : Nat)
    (h : ∀ c, P c → ∀ b : Bytes, b.length ≤ n → A (c, b.length) ∧ b.length ≤ B ∧ Q b (c + b.length)) :
    Tr P (fRead file n) A B Q := by
  intro s hs a' s' hrun
  have : (Except.ok ((file.drop s.pos).take n,
      { pos := s.pos + ((file.drop s.pos).take n).length,
        trace := s.trace ++ [(s.pos, ((file.drop s.pos).take n).length)] }) : Except Err (Bytes × FState)) =
      .ok (a', s') := hrun
  injection this with this
  simp only [Prod.mk.injEq] at this
  obtain ⟨rfl, rfl⟩ := this
  have hlen : ((file.drop s.pos).take n).length ≤ n := by simp [List.length_take]; omega
  obtain ⟨h1, h2, h3⟩ := h _ hs _ hlen
  exact ⟨h3, [_], rfl, by simpa using h1, by simpa using h2⟩

theorem Tr.ite {c : Prop} [Decidable c] {a b : F α} {Q : α → Nat → Prop}
    (ha : c → Tr P a A B Q) (hb : ¬ c → Tr P b A B Q) : Tr P (if c then a else b) A B Q := by
  split
  · exact ha ‹_›
  · exact hb ‹_›

/-- a precondition that nothing satisfies, or a family of exact positions -/
theorem Tr.of_forall_pos {m : F α} {Q : α → Nat → Prop}
    (h : ∀ c, P c → Tr (fun c' => c' = c) m A B Q) : Tr P m A B Q := by
  intro s hs
  exact h s.pos hs s rfl

/-! ## sequential readers -/

/-- `m` only reads forward from where it starts and consumes at most `n` bytes -/
def Span {α : Type} (n : Nat) (m : F α) : Prop :=
  ∀ c, Tr (fun c' => c' = c) m (fun x => c ≤ x.1 ∧ x.1 + x.2 ≤ c + n) n (fun _ c' => c ≤ c' ∧ c' ≤ c + n)

theorem Span.mono {m : F α} {n n' : Nat} (h : Span n m) (hn : n ≤ n') : Span n' m := by
  intro c
  exact (h c).conseq (fun _ h => h) (fun x hx => ⟨hx.1, by omega⟩) hn (fun _ c' hc => ⟨hc.1, by omega⟩)

theorem Span.bind {m : F α} {k : α → F β} {a b n : Nat} (hm : Span a m) (hk : ∀ x, Span b (k x))
    (hn : a + b ≤ n) : Span n (m >>= k) := by
  intro c
  refine Tr.bind (B1 := a) (B2 := b) (Q := fun _ c' => c ≤ c' ∧ c' ≤ c + a)
    ((hm c).conseq (fun _ h => h) (fun x hx => ⟨hx.1, by omega⟩) (Nat.le_refl _) (fun _ _ h => h)) ?_ hn
  intro x
  apply Tr.of_forall_pos
  intro c₁ hc₁
  exact (hk x c₁).conseq (fun _ h => h) (fun y hy => ⟨by omega, by omega⟩) (Nat.le_refl _)
    (fun _ c' hc => ⟨by omega, by omega⟩)

theorem Span.pure (a : α) (n : Nat) : Span n (pure a : F α) := by
  intro c
  exact Tr.pure a (fun c' h => by subst h; exact ⟨Nat.le_refl _, by omega⟩)

theorem Span.throw (e : Err) (n : Nat) : Span n (throw e : F α) := fun _ => Tr.throw e

theorem Span.liftE (x : Except Err α) (n : Nat) : Span n (liftE x) := by
  intro c
  exact Tr.liftE x (fun a c' _ h => by subst h; exact ⟨Nat.le_refl _, by omega⟩)

theorem Span.fRead (file : Bytes) (n : Nat) : Span n (fRead file n) := by
  intro c
  apply Tr.fRead
  intro c' hc b hb
  subst hc
  exact ⟨⟨Nat.le_refl _, by show c' + b.length ≤ c' + n; omega⟩, hb, by omega, by omega⟩

theorem Span.ite {c : Prop} [Decidable c] {a b : F α} {n : Nat} (ha : Span n a) (hb : Span n b) :
    Span n (if c then a else b) := by
  split <;> assumption

end Tdms.Proofs.C19
