import TdmsProofs.Lemmas.C05WFMain
import TdmsProofs.Lemmas.C04SliceLemmas

/-!
# C04Whole: `channel[i]` on a lazily opened encoded file

`read_channel_chunk_for_index` / `_read_at_index` on `openFile (encodeFile e)`: the index arithmetic
(`searchRight` on the channel index, chunk index inside the segment) lands on the chunk that holds value
`j` of the channel, and the value returned is `(values of denote e)[j]`.  Core Lean only.
-/

namespace Tdms.Proofs.C04Whole

open Tdms Tdms.Generated Tdms.Model Tdms.Proofs.C02 Tdms.Proofs.C01Multi Tdms.Proofs.C04

/-! ## positions in a concatenation of equally long lists -/

theorem flatten_getElem?_const {α : Type} (c : Nat) : ∀ (l : List (List α)) (ci r : Nat),
    (∀ x ∈ l, x.length = c) → ci < l.length → r < c → l.flatten[ci * c + r]? = (l.getD ci [])[r]? := by
  intro l
  induction l with
  | nil => intro ci r _ h; simp at h
  | cons x xs ih =>
    intro ci r hall hci hr
    have hx : x.length = c := hall x List.mem_cons_self
    cases ci with
    | zero =>
      simp only [Nat.zero_mul, Nat.zero_add, List.flatten_cons, List.getD_cons_zero]
      rw [List.getElem?_append_left (by omega)]
    | succ ci =>
      simp only [List.flatten_cons, List.getD_cons_succ]
      rw [List.getElem?_append_right (by rw [hx, Nat.succ_mul]; omega)]
      have : (ci + 1) * c + r - x.length = ci * c + r := by rw [hx, Nat.succ_mul]; omega
      rw [this]
      exact ih ci r (fun y hy => hall y (List.mem_cons_of_mem _ hy)) (by simpa using hci) hr

theorem flatMap_length_const' {α β : Type} (l : List α) (f : α → List β) (c : Nat)
    (h : ∀ x ∈ l, (f x).length = c) : (l.flatMap f).length = l.length * c := by
  induction l with
  | nil => simp
  | cons x xs ih =>
    simp only [List.flatMap_cons, List.length_append, List.length_cons,
      ih (fun y hy => h y (List.mem_cons_of_mem _ hy)), h x List.mem_cons_self, Nat.succ_mul]
    omega

/-- number of values of path `p` the encoding lists in one segment -/
def nvS (p : Bytes) (sa : SegEnc × List ActiveObj) : Nat := csD (dataObjs sa.2) p * sa.1.chunks.length

/-- number of values of path `p` in the segments before segment `i` -/
def preVals (ss : List SegEnc) (as : List (List ActiveObj)) (p : Bytes) (i : Nat) : Nat :=
  (((ss.zip as).take i).map (nvS p)).sum

theorem segVals_length' (s : SegEnc) (a : List ActiveObj) (hok : SegOK s a) (p : Bytes) :
    ((s.chunks.map fun ch => chanVals (dataObjs a) ch p).flatten).length = nvS p (s, a) := by
  rw [← List.flatMap_def, flatMap_length_const' _ _ (csD (dataObjs a) p)
    (fun ch hch => chanVals_length p _ _ (hok.chunks ch hch)), nvS, Nat.mul_comm]

/-- **where value `r` of chunk `ci` of segment `i` sits in the channel's value list** -/
theorem chanValsAll_getElem? (p : Bytes) : ∀ (ss : List SegEnc) (as : List (List ActiveObj)) (i : Nat)
    (s : SegEnc) (a : List ActiveObj), SegsOK ss as → ss[i]? = some s → as[i]? = some a →
    ∀ ci r, ci < s.chunks.length → r < csD (dataObjs a) p →
      (chanValsAll ss as p)[preVals ss as p i + ci * csD (dataObjs a) p + r]? =
        (chanVals (dataObjs a) (s.chunks.getD ci []) p)[r]? := by
  intro ss
  induction ss with
  | nil => intro as i s a _ h; simp at h
  | cons s0 ss ih =>
    intro as i s a hok hs ha ci r hci hr
    cases as with
    | nil => cases hok
    | cons a0 as =>
      have hlen := segVals_length' s0 a0 hok.1 p
      cases i with
      | zero =>
        simp only [List.getElem?_cons_zero, Option.some.injEq] at hs ha
        subst hs; subst ha
        have hpre : preVals (s0 :: ss) (a0 :: as) p 0 = 0 := by simp [preVals]
        rw [hpre, Nat.zero_add, chanValsAll]
        have hlt : ci * csD (dataObjs a0) p + r < csD (dataObjs a0) p * s0.chunks.length := by
          have : (ci + 1) * csD (dataObjs a0) p ≤ s0.chunks.length * csD (dataObjs a0) p :=
            Nat.mul_le_mul_right _ hci
          rw [Nat.succ_mul] at this
          rw [Nat.mul_comm (csD (dataObjs a0) p)]
          omega
        rw [List.getElem?_append_left (by rw [hlen]; exact hlt)]
        rw [flatten_getElem?_const (csD (dataObjs a0) p) _ ci r ?_ (by simpa using hci) hr]
        · congr 1
          simp [List.getD_eq_getElem?_getD, hci]
        · intro x hx
          obtain ⟨ch, hch, rfl⟩ := List.mem_map.1 hx
          exact chanVals_length p _ _ (hok.1.chunks ch hch)
      | succ i =>
        simp only [List.getElem?_cons_succ] at hs ha
        have hpre : preVals (s0 :: ss) (a0 :: as) p (i + 1) = nvS p (s0, a0) + preVals ss as p i := by
          simp [preVals]
        rw [hpre, chanValsAll, List.getElem?_append_right (by rw [hlen]; omega)]
        have : nvS p (s0, a0) + preVals ss as p i + ci * csD (dataObjs a) p + r -
            ((s0.chunks.map fun ch => chanVals (dataObjs a0) ch p).flatten).length =
            preVals ss as p i + ci * csD (dataObjs a) p + r := by rw [hlen]; omega
        rw [this]
        exact ih as i s a hok.2 hs ha ci r hci hr

theorem psum_layouts (ss : List SegEnc) (as : List (List ActiveObj)) (p : Bytes) (i : Nat) :
    psum ((layouts ss as p).map SegL.nvals) i = preVals ss as p i := by
  unfold psum preVals layouts
  rw [List.map_map, ← List.map_take]
  congr 1
  apply List.map_congr_left
  intro sa _
  show SegL.nvals ⟨csD (dataObjs sa.2) p, sa.1.chunks.length, none⟩ = nvS p sa
  unfold SegL.nvals nvS
  split
  · rename_i h; simp only at h; rw [h]; simp
  · rfl


/-! ## the index arithmetic lands on the right segment -/

theorem segStartOf_cast (f : OpenFile) (p : Bytes) (i : Nat) :
    C04.segStartOf (buildIndex f.segments p) i = ((C05.segStartOf f p i : Nat) : Int) := by
  unfold C04.segStartOf C05.segStartOf
  split <;> rfl

/-- `segment_start_index` of the segment an index falls into is the number of values before it -/
theorem segStart_eq_psum (segs : List Segment) (p : Bytes) (hwf : WellFormed (segs.map (layoutOf p)))
    (j : Nat) (hj : j < total (segs.map (layoutOf p)))
    (hlt : (buildIndex segs p).firstSegment + searchRight (buildIndex segs p).offsets j < segs.length) :
    C04.segStartOf (buildIndex segs p) ((buildIndex segs p).firstSegment + searchRight (buildIndex segs p).offsets j) =
      ((psum ((segs.map (layoutOf p)).map SegL.nvals)
        ((buildIndex segs p).firstSegment + searchRight (buildIndex segs p).offsets j) : Nat) : Int) := by
  have spec := buildIndex_spec segs p
  rw [nvOf_eq segs p hwf] at spec
  have fr := frame_of_spec _ (buildIndex segs p) spec (j : Int) ((j : Int) + 1) (by omega)
    (by unfold total at hj; omega)
  obtain ⟨r1, r2, r3⟩ := C04.searchRight_spec (buildIndex segs p).offsets (j : Int)
  obtain ⟨q1, q2, q3⟩ := C04.searchLeft_spec (buildIndex segs p).offsets ((j : Int) + 1)
  have hle : searchRight (buildIndex segs p).offsets (j : Int) ≤ searchLeft (buildIndex segs p).offsets ((j : Int) + 1) := by
    rcases Nat.lt_or_ge (searchLeft (buildIndex segs p).offsets ((j : Int) + 1))
      (searchRight (buildIndex segs p).offsets (j : Int)) with h | h
    · have h1 := r2 _ h
      have h2 := q3 (by omega)
      omega
    · exact h
  exact (fr.hE _ (Nat.le_refl _) (by omega) (by simpa using hlt)).1

/-- **`read_channel_chunk_for_index(j)` and the value `_read_at_index` extracts**, on the lazily opened
    encoding: from any file state the uncached path succeeds and returns value `j` of the values the
    encoding lists under `p` -/
theorem missPath_encoded (ss : List SegEnc) (as : List (List ActiveObj)) (hok : SegsOK ss as) (hnd : ActsNodup as)
    (hraw : ∀ s ∈ ss, s.chunks ≠ [] → s.rawFlag = true)
    (f : OpenFile) (hfile : f.file = zipEncode encodeSeg ss as) (hsegs : f.segments = segRecs 0 ss as)
    (p : Bytes) (j : Nat) (hj : j < (chanValsAll ss as p).length) (st : FState) :
    ∃ st' v cache, C05.missPath f p j st = .ok ((v, some cache), st') ∧ (chanValsAll ss as p)[j]? = some v := by
  have hlay : f.segments.map (layoutOf p) = layouts ss as p := by rw [hsegs]; exact layouts_segRecs p ss as 0 hnd
  have hwf : WellFormed (f.segments.map (layoutOf p)) := by rw [hlay]; exact layouts_wellFormed ss as p
  have hvals : ValsOk (f.segments.map (layoutOf p)) (fileVals ss as p) := by rw [hlay]; exact fileVals_ok ss as hok p
  have hfull : full (f.segments.map (layoutOf p)) (fileVals ss as p) = chanValsAll ss as p := by
    rw [hlay]; exact full_layouts ss as hok p
  have htot : total (f.segments.map (layoutOf p)) = (chanValsAll ss as p).length := by
    rw [← full_length _ _ hwf hvals, hfull]
  have hit : C05.indexTotal f p = (chanValsAll ss as p).length := by
    rw [C05WF.indexTotal_eq_sum, nvOf_eq f.segments p hwf, ← htot]; rfl
  obtain ⟨hk, hlo, hhi, hoffs⟩ := C05.index_facts f p j (by rw [hit]; exact hj)
  -- the segment
  have hpos : 0 < (f.segments.map (C05.nvOf p)).getD (C19.indexSegIdx f p j) 0 := by omega
  have hlt : C19.indexSegIdx f p j < f.segments.length := by
    rcases Nat.lt_or_ge (C19.indexSegIdx f p j) f.segments.length with h | h
    · exact h
    · rw [List.getD_eq_getElem?_getD, List.getElem?_eq_none (by simpa using h)] at hpos
      simp at hpos
  have hs : f.segments[C19.indexSegIdx f p j]? = some f.segments[C19.indexSegIdx f p j] :=
    List.getElem?_eq_getElem hlt
  have hget : (segRecs 0 ss as)[C19.indexSegIdx f p j]? = some f.segments[C19.indexSegIdx f p j] := by
    rw [← hsegs]; exact hs
  obtain ⟨pos', s, a, rest, hsE, ha, heq, hbytes⟩ := segRecs_at f.file ss as 0 (by rw [hfile]; rfl) _ _ hget
  rw [heq] at hs
  have hsok := segsOK_getElem ss as hok _ s a hsE ha
  have hamem : a ∈ as := List.mem_of_getElem? ha
  have hsmem : s ∈ ss := List.mem_of_getElem? hsE
  have hlayS := layoutOf_segRec pos' s a (hnd a hamem) p
  -- value counts
  have hwfS : (layoutOf p (segRec pos' s a)).WF := by rw [hlayS]; trivial
  have hnvS : C05.nvOf p (segRec pos' s a) = csD (dataObjs a) p * s.chunks.length := by
    have h1 := nvals_layoutOf (segRec pos' s a) p hwfS
    rw [hlayS] at h1
    have h2 : C05.nvOf p (segRec pos' s a) =
        (⟨csD (dataObjs a) p, s.chunks.length, none⟩ : SegL).nvals := by
      rw [← h1]
      unfold C05.nvOf
      cases getSegmentObject (segRec pos' s a) p <;> rfl
    rw [h2]
    unfold SegL.nvals
    split
    · rename_i h; simp only at h; rw [h]; simp
    · rfl
  have hnvget : (f.segments.map (C05.nvOf p)).getD (C19.indexSegIdx f p j) 0 = csD (dataObjs a) p * s.chunks.length := by
    rw [List.getD_eq_getElem?_getD, List.getElem?_map, hs, Option.map_some, Option.getD_some, hnvS]
  rw [hnvget] at hoffs hpos
  have hcs0 : 0 < csD (dataObjs a) p := Nat.pos_of_mul_pos_right hpos
  have hk0 : 0 < s.chunks.length := Nat.pos_of_mul_pos_left hpos
  have hsegCs : C05.segCs (segRec pos' s a) p = csD (dataObjs a) p := by
    have h1 : (layoutOf p (segRec pos' s a)).cs = csD (dataObjs a) p := by rw [hlayS]
    unfold layoutOf at h1
    unfold C05.segCs
    simp only at h1
    cases hg : getSegmentObject (segRec pos' s a) p with
    | none => rw [hg] at h1; simp only at h1; omega
    | some o =>
      rw [hg] at h1
      simp only at h1 ⊢
      cases hd : o.hasData with
      | false => rw [hd] at h1; simp at h1; omega
      | true => rw [hd] at h1; simpa using h1
  -- the chunk
  have hci : C19.indexChunkIdx f p j (segRec pos' s a) =
      (j - C05.segStartOf f p (C19.indexSegIdx f p j)) / csD (dataObjs a) p := by
    rw [C05.indexChunkIdx_eq, hsegCs]
  have hx : j - C05.segStartOf f p (C19.indexSegIdx f p j) < csD (dataObjs a) p * s.chunks.length := by omega
  have hcik : (j - C05.segStartOf f p (C19.indexSegIdx f p j)) / csD (dataObjs a) p < s.chunks.length := by
    rw [Nat.div_lt_iff_lt_mul hcs0, Nat.mul_comm]; exact hx
  have hp := mem_paths_of_csD_ne_zero (dataObjs a) p (by omega)
  have hrf : s.rawFlag = true := hraw s hsmem (by intro h; rw [h] at hk0; simp at hk0)
  -- the reads
  obtain ⟨st1, hv⟩ := verifySegmentStart_enc f.file pos' s a rest hbytes st
  obtain ⟨st2, hr⟩ := segReadChannel_enc f.file pos' s a rest hbytes hsok p hp
    ((j - C05.segStartOf f p (C19.indexSegIdx f p j)) / csD (dataObjs a) p) 1 (by simp; omega) st1
  have hchunk : readChannelChunkForIndex f p j st = Except.ok
      ((({ data := some (chanVals (dataObjs a)
          (s.chunks.getD ((j - C05.segStartOf f p (C19.indexSegIdx f p j)) / csD (dataObjs a) p) []) p) } : ChanChunk),
        C05.segStartOf f p (C19.indexSegIdx f p j) +
          (j - C05.segStartOf f p (C19.indexSegIdx f p j)) / csD (dataObjs a) p * csD (dataObjs a) p), st2) := by
    rw [C05.readChannelChunkForIndex_eq]
    unfold C05.chunkForPlan
    rw [hs]
    simp only [hsegCs, hci]
    rw [if_neg (by omega)]
    rw [Tdms.Proofs.Bytes.F_bind_ok hv, Tdms.Proofs.Bytes.F_bind_ok hr]
    simp [hrf, chunkRun, Tdms.Proofs.Bytes.F_pure]
  -- the value inside the chunk
  have hgetD : s.chunks.getD ((j - C05.segStartOf f p (C19.indexSegIdx f p j)) / csD (dataObjs a) p) [] ∈ s.chunks := by
    rw [List.getD_eq_getElem?_getD, List.getElem?_eq_getElem hcik, Option.getD_some]
    exact List.getElem_mem hcik
  have hvlen := chanVals_length p (dataObjs a) _ (hsok.chunks _ hgetD)
  have hdm := Nat.div_add_mod (j - C05.segStartOf f p (C19.indexSegIdx f p j)) (csD (dataObjs a) p)
  have hr := Nat.mod_lt (j - C05.segStartOf f p (C19.indexSegIdx f p j)) hcs0
  have hcomm := Nat.mul_comm (csD (dataObjs a) p)
    ((j - C05.segStartOf f p (C19.indexSegIdx f p j)) / csD (dataObjs a) p)
  generalize hci' : (j - C05.segStartOf f p (C19.indexSegIdx f p j)) / csD (dataObjs a) p = ci at *
  generalize hr' : (j - C05.segStartOf f p (C19.indexSegIdx f p j)) % csD (dataObjs a) p = r at *
  have hjoff : j - (C05.segStartOf f p (C19.indexSegIdx f p j) + ci * csD (dataObjs a) p) = r := by omega
  have hvget : (chanVals (dataObjs a) (s.chunks.getD ci []) p)[r]? =
      some ((chanVals (dataObjs a) (s.chunks.getD ci []) p)[r]'(by omega)) := List.getElem?_eq_getElem (by omega)
  -- the position in the channel's value list
  have hstart : C05.segStartOf f p (C19.indexSegIdx f p j) = preVals ss as p (C19.indexSegIdx f p j) := by
    have h1 := segStart_eq_psum f.segments p hwf j (by rw [htot]; exact hj) hlt
    rw [segStartOf_cast, hlay, psum_layouts] at h1
    exact Int.ofNat.inj h1
  have hposn := chanValsAll_getElem? p ss as _ s a hok hsE ha ci r hcik hr
  rw [← hstart, show C05.segStartOf f p (C19.indexSegIdx f p j) + ci * csD (dataObjs a) p + r = j by omega,
    hvget] at hposn
  refine ⟨st2, _, ⟨C05.segStartOf f p (C19.indexSegIdx f p j) + ci * csD (dataObjs a) p,
    C05.segStartOf f p (C19.indexSegIdx f p j) + ci * csD (dataObjs a) p +
      (chanVals (dataObjs a) (s.chunks.getD ci []) p).length,
    chanVals (dataObjs a) (s.chunks.getD ci []) p⟩, ?_, hposn⟩
  unfold C05.missPath
  rw [Tdms.Proofs.Bytes.F_bind_ok hchunk]
  simp only [Option.getD_some, hjoff, hvget]
  rfl


theorem normIndex_eq_pyIndex (f : OpenFile) (p : Bytes) (i : Int) :
    C05.normIndex f p i = Tdms.Spec.PySlice.pyIndex (C05.chanLen f p) i := by
  have h := indexRequest_eq_pyIndex (C05.chanLen f p) i
  unfold indexRequest at h
  unfold C05.normIndex
  show (if (if i < 0 then ((C05.chanLen f p : Nat) : Int) + i else i) < 0 ∨
          (if i < 0 then ((C05.chanLen f p : Nat) : Int) + i else i) ≥ ((C05.chanLen f p : Nat) : Int)
        then none else some (if i < 0 then ((C05.chanLen f p : Nat) : Int) + i else i).toNat) = _
  simp only [] at h
  generalize (if i < 0 then ((C05.chanLen f p : Nat) : Int) + i else i) = i' at h ⊢
  by_cases hc : i' < 0 ∨ i' ≥ ((C05.chanLen f p : Nat) : Int)
  · rw [if_pos hc] at h ⊢
    cases hp : Tdms.Spec.PySlice.pyIndex (C05.chanLen f p) i with
    | none => rfl
    | some k => rw [hp] at h; cases h
  · rw [if_neg hc] at h ⊢
    cases hp : Tdms.Spec.PySlice.pyIndex (C05.chanLen f p) i with
    | none => rw [hp] at h; cases h
    | some k => rw [hp] at h; injection h with h; rw [h]

/-- **`channel[i]` on a freshly opened encoded file** = CPython's `(values)[i]` -/
theorem index_fresh_encoded (ss : List SegEnc) (as : List (List ActiveObj)) (hok : SegsOK ss as) (hnd : ActsNodup as)
    (hraw : ∀ s ∈ ss, s.chunks ≠ [] → s.rawFlag = true)
    (f : OpenFile) (hfile : f.file = zipEncode encodeSeg ss as) (hsegs : f.segments = segRecs 0 ss as)
    (p : Bytes) (hlen : C05.chanLen f p = (chanValsAll ss as p).length) (i : Int) :
    (step f {} (.index p i)).2 =
      match Tdms.Spec.PySlice.pyIndex (chanValsAll ss as p).length i with
      | some j => .value ((chanValsAll ss as p).getD j [])
      | none => .error .indexError := by
  rw [C05.step_index, C05.channelReadAtIndex_eq, normIndex_eq_pyIndex, hlen]
  have hnil : C05.cacheLookup ({} : OpenState).caches p = none := rfl
  rw [hnil]
  cases hpy : Tdms.Spec.PySlice.pyIndex (chanValsAll ss as p).length i with
  | none => rfl
  | some j =>
    have hj : j < (chanValsAll ss as p).length := by
      unfold Tdms.Spec.PySlice.pyIndex at hpy
      split at hpy
      · rename_i hc
        simp only [Option.some.injEq] at hpy
        have hn : (0 : Int) < ((chanValsAll ss as p).length : Nat) := by omega
        have h1 := Int.emod_nonneg i (Int.ne_of_gt hn)
        have h2 := Int.emod_lt_of_pos i hn
        omega
      · cases hpy
    obtain ⟨st', v, cache, hrun, hval⟩ := missPath_encoded ss as hok hnd hraw f hfile hsegs p j hj ({} : OpenState).io
    simp only []
    have : runF ({} : OpenState) (C05.missPath f p j) = Except.ok ((v, some cache), { ({} : OpenState) with io := st' }) := by
      unfold runF
      have hrun' : StateT.run (C05.missPath f p j) ({} : OpenState).io = .ok ((v, some cache), st') := hrun
      rw [hrun']
    rw [this]
    simp only [C05.indexPost]
    congr 1
    rw [List.getD_eq_getElem?_getD, hval]
    rfl

end Tdms.Proofs.C04Whole
