/-
  C03 (mixed files, windows) — an INTERLEAVED segment read lazily for one channel, any chunk offset and
  chunk count inside the segment: ONE chunk holding the slice `[cs·co : cs·(co+nc)]` of the column the
  eager reader holds for the channel (`segE`).  Arbitrary bytes; truncated final chunks included (no
  hypothesis on `override`).  The invariant `SegWOk` for files mixing contiguous and interleaved
  segments, strong enough for windows.  Core Lean only.
-/
import TdmsProofs.Lemmas.C03MixedRows
import TdmsProofs.Lemmas.C03MixedMain
import TdmsProofs.Lemmas.C03Sized

namespace Tdms.Proofs.C03

open Tdms Tdms.Generated Tdms.Model Tdms.Proofs.Bytes Tdms.Proofs.C04 Tdms.Proofs.C06

/-- an interleaved segment with fixed-width objects (`data_size = number_values · size`) whose read succeeds -/
structure InterBase (file : Bytes) (s : Segment) : Prop where
  kind : dataReaderKind s = .ok .interleaved
  size : chunkSize s.objects = .ok (segCsz s)
  sized : SizedOk s
  read : ∃ r, interRead file s = .ok r

/-- an interleaved segment, for window reads: fixed-width objects with `data_size = number_values · size`,
    a successful read, and as many complete rows as the metadata (with the override of a truncated final
    chunk) says — for every data object `o`: `len(eager column) = (layoutOf o.path s).nvals` -/
structure InterWOk (file : Bytes) (s : Segment) : Prop extends InterBase file s where
  rows : ∀ o ∈ dataObjs s, (segE file s o.path).length = (layoutOf o.path s).nvals

/-- **the invariant on one segment, both layouts, for window reads** -/
structure SegWOk (file : Bytes) (s : Segment) : Prop where
  tag : (file.drop s.position).take 4 = tagData
  nodup : (s.objects.map (·.path)).Nodup
  noRaw : hasFlag s.toc kTocRawData = false → s.numChunks = 0
  data : ContigOk file s (segCsz s) ∨ InterWOk file s

def SegsWOk (file : Bytes) (segs : List Segment) : Prop := ∀ s ∈ segs, SegWOk file s

theorem SegOk.toW {file : Bytes} {s : Segment} (h : SegOk file s) : SegWOk file s :=
  ⟨h.tag, h.nodup, h.noRaw, Or.inl h.contig⟩

theorem SegWOk.toF {file : Bytes} {s : Segment} (h : SegWOk file s) : SegFOk file s := by
  refine ⟨h.tag, ?_⟩
  rcases h.data with hc | hi
  · exact Or.inl hc
  · exact Or.inr ⟨hi.kind, ⟨_, hi.size⟩, hi.read⟩

theorem SegsWOk.toF {file : Bytes} {segs : List Segment} (h : SegsWOk file segs) : SegsFOk file segs :=
  fun s hs => (h s hs).toF

theorem SegWOk.nodupData {file : Bytes} {s : Segment} (h : SegWOk file s) : ((dataObjs s).map (·.path)).Nodup :=
  h.nodup.sublist (List.Sublist.map _ List.filter_sublist)

theorem SegWOk.toOk {file : Bytes} {s : Segment} (h : SegWOk file s) (hc : ContigOk file s (segCsz s)) : SegOk file s :=
  ⟨h.tag, h.nodup, h.noRaw, hc⟩

/-! ## widths -/

theorem objSz_of_objSize {o : SegObj} {sz : Nat} (h : objSize o = .ok sz) : objSz o = sz := by
  unfold objSize at h
  unfold objSz
  cases hty : o.dataType with
  | none => rw [hty] at h; cases h
  | some ty =>
    rw [hty] at h
    simp only [] at h
    cases hts : typeSize ty with
    | none => rw [hts] at h; cases h
    | some z => rw [hts] at h; cases h; simp [hts]

theorem widthOf_fold : ∀ (d : List SegObj) (k : Nat), (∀ o ∈ d, ∃ sz, objSize o = .ok sz) →
    d.foldl (fun acc o => do let a ← acc; let s ← objSize o; pure (a + s)) (Except.ok k)
      = (Except.ok (k + (d.map objSz).sum) : Except Err Nat) := by
  intro d
  induction d with
  | nil => intro k _; simp
  | cons o os ih =>
    intro k h
    obtain ⟨sz, hsz⟩ := h o List.mem_cons_self
    rw [List.foldl_cons, hsz]
    show List.foldl _ (Except.ok (k + sz)) os = _
    rw [ih (k + sz) (fun x hx => h x (List.mem_cons_of_mem _ hx))]
    simp [objSz_of_objSize hsz, Nat.add_assoc]

theorem sum_map_mul_const (d : List SegObj) (nv : Nat) (h : ∀ o ∈ d, o.numberValues = nv) :
    (d.map fun o => o.numberValues * objSz o).sum = (d.map objSz).sum * nv := by
  induction d with
  | nil => simp
  | cons o os ih =>
    simp only [List.map_cons, List.sum_cons]
    rw [ih (fun x hx => h x (List.mem_cons_of_mem _ hx)), h o List.mem_cons_self, Nat.add_mul, Nat.mul_comm]

/-! ## the segment -/

section
variable {file : Bytes} {s : Segment} (h : SegWOk file s) (hi : InterBase file s) (p : Bytes)
include h hi

omit h in
/-- the static facts about an interleaved segment with a data object `o` -/
theorem interB_static (o : SegObj) (hod : o ∈ dataObjs s) :
    ∃ o0 os w, dataObjs s = o0 :: os ∧ InterStatic (o0 :: os) o.numberValues w ∧ o0.numberValues = o.numberValues ∧
      segCsz s = w * o.numberValues ∧ 0 < w := by
  obtain ⟨r, hr⟩ := hi.read
  obtain ⟨cs, pos'⟩ := r
  obtain ⟨tr, hrun⟩ := interRead_run hr []
  cases hd : dataObjs s with
  | nil => rw [hd] at hod; cases hod
  | cons o0 os =>
    have hd' : s.objects.filter (·.hasData) = o0 :: os := hd
    rw [hd'] at hrun
    obtain ⟨w, hst⟩ := interStatic_of_read _ _ _ _ _ _ _ _ hrun
    have hnv0 : o0.numberValues = o.numberValues := (hst.same o (by rw [← hd]; exact hod)).symm
    rw [hnv0] at hst
    refine ⟨o0, os, w, rfl, hst, hnv0, ?_, Nat.pos_of_ne_zero hst.pos⟩
    have h1 := chunkSize_std s.objects (haveDaqmx_of_kind hi.kind (by decide))
    have h2 : segCsz s = ((dataObjs s).map (·.dataSize)).sum := by
      have h3 := hi.size
      rw [h1] at h3
      exact (Except.ok.inj h3).symm
    rw [h2, sized_sum_dataSize hi.sized, hd, sum_map_mul_const _ _ hst.same]
    have hw := widthOf_fold (o0 :: os) 0 hst.sized
    have hw' : widthOf (o0 :: os) = .ok (0 + ((o0 :: os).map objSz).sum) := hw
    rw [hst.width] at hw'
    cases hw'
    simp

omit h in
/-- the static facts about an interleaved segment in which channel `p` has values -/
theorem interW_static (hcs : (layoutOf p s).cs ≠ 0) :
    ∃ o0 os w, dataObjs s = o0 :: os ∧ InterStatic (o0 :: os) (layoutOf p s).cs w ∧ o0.numberValues = (layoutOf p s).cs ∧
      segCsz s = w * (layoutOf p s).cs ∧ 0 < w ∧ p ∈ (dataObjs s).map (·.path) := by
  obtain ⟨o, hod, hop, hon⟩ := layout_cs_obj hcs
  obtain ⟨o0, os, w, hd, hst, hnv0, hcsz, hw⟩ := interB_static hi o hod
  rw [hon] at hst hnv0 hcsz
  exact ⟨o0, os, w, hd, hst, hnv0, hcsz, hw, by rw [← hop]; exact List.mem_map_of_mem hod⟩

omit h in
/-- the eager column of channel `p` -/
theorem interB_segE (hnd0 : ((dataObjs s).map (·.path)).Nodup) (o0 : SegObj) (os : List SegObj) (w nv : Nat) (hd : dataObjs s = o0 :: os)
    (hst : InterStatic (o0 :: os) nv w) (hnv0 : o0.numberValues = nv) :
    segE file s p = (chanOf p (o0 :: os)
      (colsOf s.endian (rowsAt file w s.dataPosition (nv * s.numChunks)) 0 (o0 :: os))).data.getD [] := by
  obtain ⟨r, hr⟩ := hi.read
  obtain ⟨cs, pos'⟩ := r
  have hchunks : segChunksG file s = cs := by unfold segChunksG; rw [hi.kind, hr]
  obtain ⟨tr, hrun⟩ := interRead_run hr []
  have hd' : s.objects.filter (·.hasData) = o0 :: os := hd
  rw [hd'] at hrun
  rw [← hnv0] at hst
  obtain ⟨st', hcl⟩ := readInterleaved_closed file s o0 os w hst s.numChunks ⟨s.dataPosition, []⟩
  rw [hcl] at hrun
  simp only [Except.ok.injEq, Prod.mk.injEq] at hrun
  unfold segE
  rw [hchunks, ← hrun.1, ← hnv0]
  simp only [streamVals, List.flatMap_cons, List.flatMap_nil, List.append_nil]
  have hnd : ((o0 :: os).map (·.path)).Nodup := by rw [← hd]; exact hnd0
  rw [chunkVals_setCols p (o0 :: os) _ hnd, get_setCols p (o0 :: os) _ hnd]

/-- the eager column of channel `p` -/
theorem interW_segE (o0 : SegObj) (os : List SegObj) (w nv : Nat) (hd : dataObjs s = o0 :: os)
    (hst : InterStatic (o0 :: os) nv w) (hnv0 : o0.numberValues = nv) :
    segE file s p = (chanOf p (o0 :: os)
      (colsOf s.endian (rowsAt file w s.dataPosition (nv * s.numChunks)) 0 (o0 :: os))).data.getD [] :=
  interB_segE hi p h.nodupData o0 os w nv hd hst hnv0

/-- the interleaved reader on the chunk range `[co, co+nc)` of the segment: one chunk, whose entry for
    `p` is the slice `[cs·co : cs·(co+nc)]` of the eager column -/
theorem interW_read (hcs : (layoutOf p s).cs ≠ 0) (co nc : Nat) (hin : co + nc ≤ s.numChunks) (tr : List (Nat × Nat)) :
    ∃ c st', readInterleavedChunks file s (s.objects.filter (·.hasData)) nc ⟨s.dataPosition + segCsz s * co, tr⟩ =
        .ok ([c], st') ∧
      RawChunk.get c p = { data := some (((segE file s p).drop ((layoutOf p s).cs * co)).take ((layoutOf p s).cs * nc)) } := by
  obtain ⟨o0, os, w, hd, hst, hnv0, hcsz, hw, hmem⟩ := interW_static hi p hcs
  have hE := interW_segE h hi p o0 os w _ hd hst hnv0
  have hd' : s.objects.filter (·.hasData) = o0 :: os := hd
  have hst' := hst
  rw [← hnv0] at hst'
  generalize hcsv : (layoutOf p s).cs = cs at *
  obtain ⟨st', hcl⟩ := readInterleaved_closed file s o0 os w hst' nc ⟨s.dataPosition + segCsz s * co, tr⟩
  have hnd : ((o0 :: os).map (·.path)).Nodup := by rw [← hd]; exact h.nodupData
  have hmem' : p ∈ (o0 :: os).map (·.path) := by rw [← hd]; exact hmem
  refine ⟨_, st', by rw [hd']; exact hcl, ?_⟩
  have hpos : s.dataPosition + segCsz s * co = s.dataPosition + w * (cs * co) := by
    rw [hcsz, Nat.mul_assoc]
  simp only []
  rw [hnv0, hpos, rowsAt_sub file w hw (cs * co) (cs * nc) (cs * s.numChunks) s.dataPosition
    (by rw [← Nat.mul_add]; exact Nat.mul_le_mul_left _ hin), colsOf_slice,
    get_setCols p (o0 :: os) _ hnd, chanOf_map p _ (o0 :: os) _ hmem' (colsOf_length _ _ _ _).1, hE]

/-- **the lazy read of an interleaved segment, any chunk range inside the segment**: one chunk holding
    the slice `[cs·co : cs·(co+nc)]` of the eager column -/
theorem segReadChannel_interW (hcs : (layoutOf p s).cs ≠ 0) (co : Nat) (nc : Int) (h0 : 0 ≤ nc)
    (hin : co + nc.toNat ≤ s.numChunks) (st : FState) :
    ∃ st', segReadChannel file s p co (some nc) st =
      .ok ((if !hasFlag s.toc kTocRawData then [({} : ChanChunk)] else []) ++
        [({ data := some (((segE file s p).drop ((layoutOf p s).cs * co)).take ((layoutOf p s).cs * nc.toNat)) } : ChanChunk)],
        st') := by
  obtain ⟨c, st1, h1, hget⟩ := interW_read h hi p hcs co nc.toNat hin st.trace
  unfold segReadChannel
  rw [F_bind_ok (fSeek_run _ _), hi.size, F_bind_ok (liftE_ok _ _)]
  have hn : (nc + (co : Int) - (co : Int)).toNat = nc.toNat := by omega
  by_cases hco : co > 0
  · rw [if_pos hco, F_bind_ok (fTell_run _), F_bind_ok (fSeek_run _ _)]
    simp only []
    rw [hi.kind, F_bind_ok (liftE_ok _ _), F_bind_ok (fTell_run _)]
    simp only []
    rw [if_neg (by omega), hn]
    rw [F_bind_ok h1]
    simp only [List.map_cons, List.map_nil, hget, List.isEmpty_cons, Bool.not_false, if_true]
    rw [F_bind_ok (fSeek_run _ _)]
    exact ⟨_, rfl⟩
  · have hco0 : co = 0 := by omega
    subst hco0
    rw [if_neg hco]
    simp only []
    rw [hi.kind, F_bind_ok (liftE_ok _ _), F_bind_ok (fTell_run _)]
    simp only []
    rw [if_neg (by omega), hn]
    have hp0 : s.dataPosition + segCsz s * 0 = s.dataPosition := by simp
    rw [hp0] at h1
    rw [F_bind_ok h1]
    simp only [List.map_cons, List.map_nil, hget, List.isEmpty_cons, Bool.not_false, if_true]
    rw [F_bind_ok (fSeek_run _ _)]
    exact ⟨_, rfl⟩

end

end Tdms.Proofs.C03
