import Tdms.Model.Timestamp

/-!
  Helper lemmas for C12 (timestamp arithmetic).  Core Lean only (`omega`, `simp`, `decide`).
  Literals: 2^64 = 18446744073709551616, 2^63 = 9223372036854775808, 2^32 = 4294967296, 2^11 = 2048.
-/

namespace Tdms.Proofs.C12
open Tdms.Model.Timestamp

/-! ## Scalar path -/

theorem steps_def (R frac : Nat) :
    steps R frac = (min (frac + 2048) 18446744073709551615 * R) / 18446744073709551616 := by
  simp [steps, tol, maxFrac]

theorem encodeUs_def (u : Nat) : encodeUs u = (u * 18446744073709551616) / 1000000 := by
  simp [encodeUs]

theorem us_roundtrip_aux (u : Nat) (hu : u < 1000000) : steps 1000000 (encodeUs u) = u := by
  rw [steps_def, encodeUs_def]
  omega

theorem encodeUs_lt_aux (u : Nat) (hu : u < 1000000) : encodeUs u < 18446744073709551616 := by
  rw [encodeUs_def]; omega

theorem us_band_aux (u frac : Nat)
    (hlo : u * 18446744073709551616 ≤ (frac + 2048) * 1000000)
    (hhi : frac * 1000000 ≤ u * 18446744073709551616 + 2048 * 1000000)
    (hu : u < 1000000) : steps 1000000 frac = u := by
  rw [steps_def]
  omega

theorem us_band_iff_aux (u frac : Nat) (hcap : frac + 2048 ≤ 18446744073709551615) :
    steps 1000000 frac = u ↔
      (u * 18446744073709551616 ≤ (frac + 2048) * 1000000 ∧
        (frac + 2048) * 1000000 < (u + 1) * 18446744073709551616) := by
  rw [steps_def]
  omega

theorem us_capped_aux (frac : Nat) (hcap : 18446744073709551615 < frac + 2048) :
    steps 1000000 frac = 999999 := by
  rw [steps_def]
  omega

/-- Generic two-sided bound, any `R`. -/
theorem within_unit_aux (R frac : Nat) (hf : frac < 18446744073709551616) :
    frac * R < (steps R frac + 1) * 18446744073709551616 ∧
      steps R frac * 18446744073709551616 ≤ (frac + 2048) * R := by
  rw [steps_def]
  have hg1 : frac ≤ min (frac + 2048) 18446744073709551615 := by omega
  have hg2 : min (frac + 2048) 18446744073709551615 ≤ frac + 2048 := by omega
  generalize min (frac + 2048) 18446744073709551615 = g at hg1 hg2
  have h1 : frac * R ≤ g * R := Nat.mul_le_mul_right R hg1
  have h2 : g * R ≤ (frac + 2048) * R := Nat.mul_le_mul_right R hg2
  generalize g * R = p at h1 h2
  generalize frac * R = a at h1
  generalize (frac + 2048) * R = b at h2
  omega

theorem steps_lt_aux (R frac : Nat) (hR : 0 < R) : steps R frac < R := by
  rw [steps_def]
  have hg : min (frac + 2048) 18446744073709551615 ≤ 18446744073709551615 := by omega
  generalize min (frac + 2048) 18446744073709551615 = g at hg
  have h1 : g * R ≤ 18446744073709551615 * R := Nat.mul_le_mul_right R hg
  generalize g * R = p at h1
  omega

theorem steps_mono_aux (R f₁ f₂ : Nat) (h : f₁ ≤ f₂) : steps R f₁ ≤ steps R f₂ := by
  rw [steps_def, steps_def]
  have hg : min (f₁ + 2048) 18446744073709551615 ≤ min (f₂ + 2048) 18446744073709551615 := by omega
  exact Nat.div_le_div_right (Nat.mul_le_mul_right R hg)

theorem decode_mono_aux (R : Nat) (s₁ : Int) (f₁ : Nat) (s₂ : Int) (f₂ : Nat) (hR : 0 < R)
    (h : s₁ < s₂ ∨ (s₁ = s₂ ∧ f₁ ≤ f₂)) : decode R s₁ f₁ ≤ decode R s₂ f₂ := by
  unfold decode
  rcases h with h | ⟨rfl, h⟩
  · have h1 : steps R f₁ < R := steps_lt_aux R f₁ hR
    have h2 : (s₁ + 1) * (R : Int) ≤ s₂ * (R : Int) :=
      Int.mul_le_mul_of_nonneg_right (by omega) (by omega)
    rw [Int.add_mul] at h2
    omega
  · have := steps_mono_aux R f₁ f₂ h
    omega

/-! ## Writer -/

theorem encode_fst (delta seconds0 : Int) :
    (encode delta seconds0).1 =
      if delta - seconds0 * 1000000 < 0 then seconds0 - 1 else seconds0 := rfl

theorem encode_snd (delta seconds0 : Int) :
    (encode delta seconds0).2 = (encodeFracInt delta seconds0).toNat := rfl

theorem encodeFracInt_def (delta seconds0 : Int) :
    encodeFracInt delta seconds0 =
      ((if delta - seconds0 * 1000000 < 0 then 1000000 + (delta - seconds0 * 1000000)
          else delta - seconds0 * 1000000) * 18446744073709551616) / 1000000 := by
  simp [encodeFracInt]

/-- Under the float-quotient assumption the value handed to `struct.pack('<Q')` is in range. -/
theorem encodeFracInt_range_aux (delta seconds0 : Int)
    (h : -1000000 ≤ delta - seconds0 * 1000000 ∧ delta - seconds0 * 1000000 < 1000000) :
    0 ≤ encodeFracInt delta seconds0 ∧ encodeFracInt delta seconds0 < 18446744073709551616 := by
  rw [encodeFracInt_def]
  split <;> omega

theorem encode_decode_aux (delta seconds0 : Int)
    (h : -1000000 ≤ delta - seconds0 * 1000000 ∧ delta - seconds0 * 1000000 < 1000000) :
    decode 1000000 (encode delta seconds0).1 (encode delta seconds0).2 = delta ∧
      (encode delta seconds0).2 < 18446744073709551616 := by
  unfold decode
  rw [encode_fst, encode_snd, encodeFracInt_def, steps_def]
  split <;> omega

theorem encode_canonical_aux (delta seconds0 : Int)
    (h : -1000000 ≤ delta - seconds0 * 1000000 ∧ delta - seconds0 * 1000000 < 1000000) :
    encode delta seconds0 = (delta / 1000000, encodeUs (delta % 1000000).toNat) := by
  apply Prod.ext
  · rw [encode_fst]; dsimp only; split <;> omega
  · obtain ⟨k, hk⟩ : ∃ k : Nat, delta % 1000000 = (k : Int) :=
      Int.eq_ofNat_of_zero_le (Int.emod_nonneg _ (by decide))
    rw [encode_snd, encodeFracInt_def, encodeUs_def, hk, Int.toNat_natCast]
    dsimp only
    have hk' : k < 1000000 := by omega
    split
    · have e : 1000000 + (delta - seconds0 * 1000000) = (k : Int) := by omega
      rw [e]; omega
    · have e : delta - seconds0 * 1000000 = (k : Int) := by omega
      rw [e]; omega

theorem encodeFracInt_overflow_aux (delta seconds0 : Int)
    (h : 1000000 ≤ delta - seconds0 * 1000000) :
    18446744073709551616 ≤ encodeFracInt delta seconds0 := by
  rw [encodeFracInt_def]
  split <;> omega

theorem encodeFracInt_range_iff_aux (delta seconds0 : Int) :
    (0 ≤ encodeFracInt delta seconds0 ∧ encodeFracInt delta seconds0 < 18446744073709551616) ↔
      (-1000000 ≤ delta - seconds0 * 1000000 ∧ delta - seconds0 * 1000000 < 1000000) := by
  rw [encodeFracInt_def]
  split <;> omega

theorem tdiv_rem_bounds (delta : Int) :
    -1000000 ≤ delta - Int.tdiv delta 1000000 * 1000000 ∧
      delta - Int.tdiv delta 1000000 * 1000000 < 1000000 := by
  have h1 := Int.tmod_add_mul_tdiv delta 1000000
  have h2 : Int.tmod delta 1000000 < 1000000 := Int.tmod_lt_of_pos delta (by decide)
  have h3 : -1000000 < Int.tmod delta 1000000 := Int.lt_tmod_of_pos delta (by decide)
  omega

/-! ## Array path: `_multiply_high` -/

theorem mulhi64_exact_aux (x m : Nat) (hx : x < 18446744073709551616) (hm : m < 18446744073709551616) :
    mulhi64 x m = x * m / 18446744073709551616 := by
  have hxh : x / 4294967296 ≤ 4294967295 := by omega
  have hxl : x % 4294967296 ≤ 4294967295 := by omega
  have hmh : m / 4294967296 ≤ 4294967295 := by omega
  have hml : m % 4294967296 ≤ 4294967295 := by omega
  have hxe : x = x / 4294967296 * 4294967296 + x % 4294967296 := by omega
  have hme : m = m / 4294967296 * 4294967296 + m % 4294967296 := by omega
  have hmul : x * m
      = (x / 4294967296) * (m / 4294967296) * 18446744073709551616
        + ((x / 4294967296) * (m % 4294967296) + (x % 4294967296) * (m / 4294967296)) * 4294967296
        + (x % 4294967296) * (m % 4294967296) := by
    generalize x / 4294967296 = xh at hxe
    generalize x % 4294967296 = xl at hxe
    generalize m / 4294967296 = mh at hme
    generalize m % 4294967296 = ml at hme
    subst hxe hme
    simp only [Nat.mul_add, Nat.add_mul]
    have e1 : xh * 4294967296 * (mh * 4294967296) = xh * mh * 18446744073709551616 := by
      rw [Nat.mul_mul_mul_comm]
    have e2 : xl * (mh * 4294967296) = xl * mh * 4294967296 := by rw [Nat.mul_assoc]
    have e3 : xh * 4294967296 * ml = xh * ml * 4294967296 := by
      rw [Nat.mul_assoc, Nat.mul_comm 4294967296 ml, ← Nat.mul_assoc]
    rw [e1, e2, e3]
    omega
  have ha : (x / 4294967296) * (m / 4294967296) ≤ 4294967295 * 4294967295 := Nat.mul_le_mul hxh hmh
  have hb : (x / 4294967296) * (m % 4294967296) ≤ 4294967295 * 4294967295 := Nat.mul_le_mul hxh hml
  have hc : (x % 4294967296) * (m / 4294967296) ≤ 4294967295 * 4294967295 := Nat.mul_le_mul hxl hmh
  have hd : (x % 4294967296) * (m % 4294967296) ≤ 4294967295 * 4294967295 := Nat.mul_le_mul hxl hml
  have hmm : m % 4294967296 % 18446744073709551616 = m % 4294967296 := by omega
  have hmd : m / 4294967296 % 18446744073709551616 = m / 4294967296 := by omega
  simp only [mulhi64, W64, Nat.reducePow, hmm, hmd]
  rw [hmul]
  generalize (x / 4294967296) * (m / 4294967296) = a at ha
  generalize (x / 4294967296) * (m % 4294967296) = b at hb
  generalize (x % 4294967296) * (m / 4294967296) = c at hc
  generalize (x % 4294967296) * (m % 4294967296) = d at hd
  omega

/-- Stronger form: every uint64 intermediate equals its unreduced value (no wrap anywhere). -/
theorem stepsArr_eq_aux (R frac : Nat) (hf : frac < 18446744073709551616)
    (hR : R < 18446744073709551616) : stepsArr R frac = steps R frac := by
  have harg : (min frac (maxFrac - tol) + tol) % W64 = min (frac + 2048) 18446744073709551615 := by
    simp only [maxFrac, tol, W64, Nat.reducePow]; omega
  unfold stepsArr
  rw [harg, steps_def]
  exact mulhi64_exact_aux _ R (by omega) hR

/-! ## Raw bytes -/

theorem length_encLE (w n : Nat) : (encLE w n).length = w := by
  induction w generalizing n with
  | zero => rfl
  | succ w ih => simp [encLE, ih]

theorem decLE_encLE (w n : Nat) : decLE (encLE w n) = n % 256 ^ w := by
  induction w generalizing n with
  | zero => simp [encLE, decLE, Nat.mod_one]
  | succ w ih =>
    simp only [encLE, decLE, ih]
    have h : (UInt8.ofNat (n % 256)).toNat = n % 256 := by
      simp [UInt8.toNat_ofNat']
    rw [h, Nat.pow_succ, Nat.mul_comm (256 ^ w) 256, Nat.mod_mul]

theorem ofU64_toU64 (s : Int) (h1 : -9223372036854775808 ≤ s) (h2 : s < 9223372036854775808) :
    ofU64 (toU64 s % 18446744073709551616) = s := by
  unfold ofU64 toU64
  simp only [Nat.reducePow, Int.reducePow]
  split <;> omega

theorem take8 (a b : List UInt8) (h : a.length = 8) : (a ++ b).take 8 = a := by
  rw [← h]; exact List.take_left

theorem drop8 (a b : List UInt8) (h : a.length = 8) : (a ++ b).drop 8 = b := by
  rw [← h]; exact List.drop_left

theorem take8' (b : List UInt8) (h : b.length = 8) : b.take 8 = b := by
  rw [← h]; exact List.take_length

theorem raw_LE_aux (s : Int) (f : Nat) (hf : f < 18446744073709551616)
    (h1 : -9223372036854775808 ≤ s) (h2 : s < 9223372036854775808) :
    ofBytesLE (toBytesLE s f) = (s, f) := by
  unfold ofBytesLE toBytesLE
  rw [take8 _ _ (length_encLE 8 f), drop8 _ _ (length_encLE 8 f), take8' _ (length_encLE 8 _),
    decLE_encLE, decLE_encLE]
  have e : (256 : Nat) ^ 8 = 18446744073709551616 := by decide
  rw [e, ofU64_toU64 s h1 h2, Nat.mod_eq_of_lt hf]

theorem raw_BE_aux (s : Int) (f : Nat) (hf : f < 18446744073709551616)
    (h1 : -9223372036854775808 ≤ s) (h2 : s < 9223372036854775808) :
    ofBytesBE (toBytesBE s f) = (s, f) := by
  unfold ofBytesBE toBytesBE
  have l1 : (encLE 8 (toU64 s)).reverse.length = 8 := by rw [List.length_reverse, length_encLE]
  have l2 : (encLE 8 f).reverse.length = 8 := by rw [List.length_reverse, length_encLE]
  rw [take8 _ _ l1, drop8 _ _ l1, take8' _ l2, List.reverse_reverse, List.reverse_reverse,
    decLE_encLE, decLE_encLE]
  have e : (256 : Nat) ^ 8 = 18446744073709551616 := by decide
  rw [e, ofU64_toU64 s h1 h2, Nat.mod_eq_of_lt hf]

theorem BE_eq_reverse_LE (s : Int) (f : Nat) : toBytesBE s f = (toBytesLE s f).reverse := by
  unfold toBytesBE toBytesLE
  rw [List.reverse_append]

end Tdms.Proofs.C12
