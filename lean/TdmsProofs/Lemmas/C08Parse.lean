import Tdms.Spec.Parse
import Tdms.Model.Writer
import TdmsProofs.Lemmas.BytesLemmasW
import TdmsProofs.Lemmas.C07Lemmas

/-!
# C08: the strict parser inverts the writer model, field by field

`Tdms.Strict.pProp (encWProp p ++ rest)`, `pObj (encObjMeta o ++ rest)`, `pObjs`, the expected data
length and the string offset tables.  Core Lean only.
-/

namespace Tdms.Proofs.C08
open Tdms Tdms.Strict Tdms.Model.Writer Tdms.Generated Tdms.Proofs.BytesW

/-! ## what the writer can emit -/

/-- a fixed-width type the format allows as a *property* type, with its width -/
def propTypeOK (ty len : Nat) : Prop :=
  typeSize ty = some len ∧ (ty = tyTimeStamp ∨ ((typeInfo ty).bind (·.structFmt)).isSome)

instance (ty len : Nat) : Decidable (propTypeOK ty len) := by unfold propTypeOK; infer_instance

/-- supported property values: Python `int`, `float` (8 bytes), `bool`, `str` shorter than `2^32`
    bytes, `datetime`, `TdmsTimestamp`, and explicitly typed values whose type is `String` or a
    fixed-width property type with a value of exactly that width -/
def WritableVal : PyVal → Prop
  | .int _ => True
  | .float b => b.length = 8
  | .bool _ => True
  | .str s => s.length < 2 ^ 32
  | .datetime _ => True
  | .rawTimestamp _ _ => True
  | .typed code le => if code = tyString then le.length < 2 ^ 32 else propTypeOK code le.length

instance (v : PyVal) : Decidable (WritableVal v) := by cases v <;> (unfold WritableVal; infer_instance)

def WritableProp (p : WProp) : Prop := p.name.length < 2 ^ 32 ∧ WritableVal p.val

instance (p : WProp) : Decidable (WritableProp p) := by unfold WritableProp; infer_instance

/-- channel data after `_to_np_array`: no type (empty), strings whose offsets fit the 32-bit offset
    table, or a fixed-width type from the table with every value exactly `size` bytes long -/
def WritableData (d : WData) : Prop :=
  if d.ty = tyVoid then d.vals = []
  else if d.ty = tyString then
    d.vals.length < 2 ^ 64 ∧ d.vals.flatten.length < 2 ^ 32 ∧ objectDataSize d < 2 ^ 64
  else
    match typeSize d.ty with
    | some sz => (∀ v ∈ d.vals, v.length = sz) ∧ d.vals.length < 2 ^ 64
    | none => False

instance (d : WData) : Decidable (WritableData d) := by
  unfold WritableData
  cases typeSize d.ty <;> infer_instance

def WritableObj (o : WObj) : Prop :=
  o.path.length < 2 ^ 32 ∧ o.props.length < 2 ^ 32 ∧ (∀ p ∈ o.props, WritableProp p) ∧
    match o with
    | .channel _ _ d _ => WritableData d
    | _ => True

instance (o : WObj) : Decidable (WritableObj o) := by
  unfold WritableObj; cases o <;> infer_instance

/-- an object list `TdmsSegment.write` can serialise: every count and length fits its field -/
def WritableObjs (objs : List WObj) : Prop :=
  objs.length < 2 ^ 32 ∧ (∀ o ∈ objs, WritableObj o) ∧ (metadata objs).length + dataSize objs < 2 ^ 64

instance (objs : List WObj) : Decidable (WritableObjs objs) := by unfold WritableObjs; infer_instance

/-! ## what the strict parser must return -/

def toPProp (p : WProp) : Bytes × Nat × Bytes := (p.name, (toTdmsValue p.val).1, (toTdmsValue p.val).2)

def toPIdx : WObj → Option (Nat × Nat × Option Nat)
  | .channel _ _ d _ =>
    if d.ty = tyVoid then none
    else if d.ty = tyString then some (d.ty, d.vals.length, some (objectDataSize d))
    else some (d.ty, d.vals.length, none)
  | _ => none

def toPObj (o : WObj) : PObj := ⟨o.path, toPIdx o, o.props.map toPProp⟩

/-- the parse of the segment written for `objs` -/
def expectedSeg (version : Nat) (objs : List WObj) : PSeg :=
  { isIndex := false, toc := tocWritten, version := version,
    nextOff := (metadata objs).length + dataSize objs, rawOff := (metadata objs).length,
    objs := objs.map toPObj,
    leadAndMeta := leadin false version (metadata objs).length (dataSize objs) ++ metadata objs }

/-! ## the parser monad -/

theorem take_ok {bs : Bytes} (rest : Bytes) {n : Nat} (h : bs.length = n) :
    Tdms.Strict.take n (bs ++ rest) = .ok (bs, rest) := by
  subst h
  simp [Tdms.Strict.take]

theorem bind_ok {α β} {x : SP α} {f : α → SP β} {s s' : Bytes} {a : α} (h : x s = .ok (a, s')) :
    (x >>= f) s = f a s' := by
  show (StateT.bind x f) s = _
  simp [StateT.bind, h]
  rfl

theorem u_ok (w n : Nat) (rest : Bytes) (h : n < 2 ^ (8 * w)) :
    u .little w (encLE w n ++ rest) = .ok (n, rest) := by
  unfold u
  rw [bind_ok (take_ok rest (encLE_length w n))]
  simp [dec, decLE_encLE_of_lt h]
  rfl

theorem str_ok (s rest : Bytes) (h : s.length < 2 ^ 32) :
    str .little (encStringLE s ++ rest) = .ok (s, rest) := by
  unfold str encStringLE
  rw [List.append_assoc, bind_ok (u_ok 4 s.length _ (by simpa using h))]
  exact take_ok rest rfl

/-! ## type table facts -/

theorem typeInfo_code_lt {ty : Nat} {ti : TypeInfo} (h : typeInfo ty = some ti) : ty < 2 ^ 32 := by
  unfold typeInfo at h
  have hm := List.mem_of_find?_eq_some h
  have hc := List.find?_some h
  have hall : ∀ t ∈ typeTable, t.code < 2 ^ 32 := by decide
  have := hall _ hm
  simp at hc
  omega

theorem typeSize_code_lt {ty sz : Nat} (h : typeSize ty = some sz) : ty < 2 ^ 32 := by
  unfold typeSize at h
  cases hti : typeInfo ty with
  | none => simp [hti] at h
  | some ti => exact typeInfo_code_lt hti

/-! ## properties -/

/-- the condition on `_to_tdms_value`'s output under which `pProp` accepts it -/
def TdmsValueOK (tv : Nat × Bytes) : Prop :=
  tv.1 < 2 ^ 32 ∧ if tv.1 = tyString then tv.2.length < 2 ^ 32 else propTypeOK tv.1 tv.2.length

theorem typeSize_timestamp : typeSize tyTimeStamp = some 16 := by decide

theorem toBytesLE_length (s : Int) (f : Nat) : (Tdms.Model.Timestamp.toBytesLE s f).length = 16 := by
  have h : ∀ w n, (Tdms.Model.Timestamp.encLE w n).length = w := by
    intro w; induction w with
    | zero => intro n; rfl
    | succ w ih => intro n; simp [Tdms.Model.Timestamp.encLE, ih]
  simp [Tdms.Model.Timestamp.toBytesLE, h]

theorem tvOK_mk {ty : Nat} {v : Bytes} {sz : Nat} (hsz : typeSize ty = some sz) (hne : ty ≠ tyString)
    (hfmt : ty = tyTimeStamp ∨ ((typeInfo ty).bind (·.structFmt)).isSome) (hl : v.length = sz) :
    TdmsValueOK (ty, v) := by
  refine ⟨typeSize_code_lt hsz, ?_⟩
  simp only
  rw [if_neg hne, hl]
  exact ⟨hsz, hfmt⟩

theorem tdmsValueOK_of_writable {v : PyVal} (h : WritableVal v) : TdmsValueOK (toTdmsValue v) := by
  cases v with
  | int v =>
    simp only [toTdmsValue]
    rw [Tdms.Proofs.C07.intPropertyType_eq]
    split
    · exact tvOK_mk (sz := 8) (by decide) (by decide) (by decide) (by simp; decide)
    · split
      · exact tvOK_mk (sz := 8) (by decide) (by decide) (by decide) (by simp; decide)
      · exact tvOK_mk (sz := 4) (by decide) (by decide) (by decide) (by simp; decide)
  | float b =>
    simp only [WritableVal] at h
    exact tvOK_mk (ty := tyDouble) (sz := 8) (by decide) (by decide) (by decide) h
  | bool b => exact tvOK_mk (ty := tyBoolean) (sz := 1) (by decide) (by decide) (by decide) rfl
  | str s =>
    simp only [WritableVal] at h
    exact ⟨by show tyString < 2 ^ 32; decide, by simpa [toTdmsValue] using h⟩
  | datetime us =>
    exact tvOK_mk (ty := tyTimeStamp) (sz := 16) (by decide) (by decide) (by decide) (toBytesLE_length _ _)
  | rawTimestamp s f =>
    exact tvOK_mk (ty := tyTimeStamp) (sz := 16) (by decide) (by decide) (by decide) (toBytesLE_length _ _)
  | typed code le =>
    simp only [WritableVal] at h
    have key : ∀ le' : Bytes, le'.length = le.length → TdmsValueOK (code, le') := by
      intro le' hl
      by_cases hs : code = tyString
      · rw [if_pos hs] at h
        refine ⟨by show code < 2 ^ 32; rw [hs]; decide, ?_⟩
        simp only
        rw [if_pos hs, hl]; exact h
      · rw [if_neg hs] at h
        exact tvOK_mk h.1 hs h.2 hl
    simp only [toTdmsValue]
    split
    · rename_i hc
      split
      · exact key _ (by rw [encLE_length, hc.2])
      · exact key _ rfl
    · exact key _ rfl

theorem pProp_ok (p : WProp) (rest : Bytes) (hn : p.name.length < 2 ^ 32) (hv : TdmsValueOK (toTdmsValue p.val)) :
    pProp .little (encWProp p ++ rest) = .ok (toPProp p, rest) := by
  unfold pProp encWProp toPProp
  obtain ⟨hty, hv⟩ := hv
  generalize toTdmsValue p.val = tv at *
  obtain ⟨ty, v⟩ := tv
  simp only at *
  simp only [List.append_assoc]
  rw [bind_ok (str_ok _ _ hn), bind_ok (u_ok 4 ty _ (by simpa using hty))]
  by_cases hs : ty = tyString
  · rw [if_pos hs, if_pos hs] at *
    rw [bind_ok (str_ok _ _ hv)]
    rfl
  · rw [if_neg hs, if_neg hs] at *
    obtain ⟨h1, h2⟩ := hv
    rw [h1]
    simp only
    rw [if_pos h2, bind_ok (take_ok rest rfl)]
    rfl

theorem pProp_ok' (p : WProp) (rest : Bytes) (h : WritableProp p) :
    pProp .little (encWProp p ++ rest) = .ok (toPProp p, rest) :=
  pProp_ok p rest h.1 (tdmsValueOK_of_writable h.2)

theorem pProps_ok (ps : List WProp) (rest : Bytes) (h : ∀ p ∈ ps, WritableProp p) :
    pProps .little ps.length (ps.flatMap encWProp ++ rest) = .ok (ps.map toPProp, rest) := by
  induction ps with
  | nil => rfl
  | cons p ps ih =>
    simp only [List.length_cons, pProps, List.flatMap_cons, List.append_assoc, List.map_cons]
    rw [bind_ok (pProp_ok' p _ (h p (by simp))), bind_ok (ih (fun q hq => h q (by simp [hq])))]
    rfl

/-! ## objects -/

theorem pure_bind_ok {α β} (a : α) (f : α → SP β) (s : Bytes) : ((pure a : SP α) >>= f) s = f a s := by
  rw [bind_ok (s' := s) (a := a) rfl]

theorem noData_bytes : ([0xFF, 0xFF, 0xFF, 0xFF] : Bytes) = encLE 4 rawDataIndexNoData := by decide

/-- the raw data index of `o`, parsed -/
theorem pObj_ok (o : WObj) (rest : Bytes) (h : WritableObj o) :
    pObj .little (encObjMeta o ++ rest) = .ok (toPObj o, rest) := by
  obtain ⟨hpath, hnp, hprops, hdata⟩ := h
  unfold pObj encObjMeta toPObj
  simp only [List.append_assoc]
  rw [bind_ok (str_ok _ _ hpath)]
  have tail : ∀ idx, (do
        let np ← u .little 4
        let props ← pProps .little np
        pure (⟨o.path, idx, props⟩ : PObj)) (encLE 4 o.props.length ++ (o.props.flatMap encWProp ++ rest)) =
      .ok (⟨o.path, idx, o.props.map toPProp⟩, rest) := by
    intro idx
    rw [bind_ok (u_ok 4 _ _ (by simpa using hnp)), bind_ok (pProps_ok _ _ hprops)]
    rfl
  cases o with
  | root ps =>
    simp only [rawDataIndex, toPIdx, noData_bytes]
    rw [bind_ok (u_ok 4 _ _ (by decide)), if_pos rfl, pure_bind_ok]
    exact tail none
  | group g ps =>
    simp only [rawDataIndex, toPIdx, noData_bytes]
    rw [bind_ok (u_ok 4 _ _ (by decide)), if_pos rfl, pure_bind_ok]
    exact tail none
  | channel g c d ps =>
    simp only [WritableData] at hdata
    by_cases hvoid : d.ty = tyVoid
    · simp only [rawDataIndex, toPIdx, if_pos hvoid, noData_bytes]
      rw [bind_ok (u_ok 4 _ _ (by decide)), if_pos rfl, pure_bind_ok]
      exact tail none
    · rw [if_neg hvoid] at hdata
      by_cases hstr : d.ty = tyString
      · rw [if_pos hstr] at hdata
        obtain ⟨hn, _, htot⟩ := hdata
        simp only [rawDataIndex, toPIdx, if_neg hvoid, if_pos hstr, List.append_assoc]
        rw [bind_ok (u_ok 4 _ _ (by decide)), if_neg (by decide), bind_ok (u_ok 4 _ _ (by rw [hstr]; decide)),
          bind_ok (u_ok 4 _ _ (by decide)), bind_ok (u_ok 8 _ _ (by simpa using hn)), if_neg (by decide),
          if_pos hstr, if_neg (by decide), bind_ok (u_ok 8 _ _ (by simpa using htot)), pure_bind_ok]
        exact tail _
      · rw [if_neg hstr] at hdata
        cases hsz : typeSize d.ty with
        | none => simp [hsz] at hdata
        | some sz =>
          rw [hsz] at hdata
          simp only [rawDataIndex, toPIdx, if_neg hvoid, if_neg hstr, List.append_assoc]
          rw [bind_ok (u_ok 4 _ _ (by decide)), if_neg (by decide), bind_ok (u_ok 4 _ _ (by simpa using typeSize_code_lt hsz)),
            bind_ok (u_ok 4 _ _ (by decide)), bind_ok (u_ok 8 _ _ (by simpa using hdata.2)), if_neg (by decide),
            if_neg hstr, hsz]
          simp only
          rw [if_neg (by decide), pure_bind_ok]
          exact tail _

theorem pObjs_ok (objs : List WObj) (rest : Bytes) (h : ∀ o ∈ objs, WritableObj o) :
    pObjs .little objs.length (objs.flatMap encObjMeta ++ rest) = .ok (objs.map toPObj, rest) := by
  induction objs with
  | nil => rfl
  | cons o os ih =>
    simp only [List.length_cons, pObjs, List.flatMap_cons, List.append_assoc, List.map_cons]
    rw [bind_ok (pObj_ok o _ (h o (by simp))), bind_ok (ih (fun q hq => h q (by simp [hq])))]
    rfl

/-- the metadata block parses to exactly its own length: nothing is left over -/
theorem metadata_ok (objs : List WObj) (rest : Bytes) (hn : objs.length < 2 ^ 32) (h : ∀ o ∈ objs, WritableObj o) :
    (do let n ← u .little 4
        pObjs .little n) (metadata objs ++ rest) = .ok (objs.map toPObj, rest) := by
  unfold metadata
  rw [List.append_assoc, bind_ok (u_ok 4 _ _ (by simpa using hn))]
  exact pObjs_ok objs rest h

end Tdms.Proofs.C08
