/-
  Basic lemmas for C02: association lists (`LastIdx`, `PrevObjs`), `placeObj`, `existingIndex`.
  Core Lean only.
-/
import Tdms.Spec.Meaning
import Tdms.Model.Reader
import Tdms.Model.Lazy

namespace Tdms.Proofs.C02

open Tdms Tdms.Model Tdms.Generated

/-! ## association lists keyed by path -/

theorem assoc_get_set_self {α : Type} (m : List (Bytes × α)) (p : Bytes) (d : α) :
    (((p, d) :: m.filter (·.1 ≠ p)).find? (·.1 = p)).map (·.2) = some d := by
  simp

theorem assoc_find_filter_ne {α : Type} (m : List (Bytes × α)) (p q : Bytes) (h : q ≠ p) :
    (m.filter (·.1 ≠ p)).find? (·.1 = q) = m.find? (·.1 = q) := by
  induction m with
  | nil => rfl
  | cons x xs ih =>
    simp only [List.filter_cons, List.find?_cons]
    grind

theorem assoc_get_set_ne {α : Type} (m : List (Bytes × α)) (p q : Bytes) (d : α) (h : q ≠ p) :
    (((p, d) :: m.filter (·.1 ≠ p)).find? (·.1 = q)).map (·.2) = (m.find? (·.1 = q)).map (·.2) := by
  have hp : p ≠ q := fun h' => h h'.symm
  rw [List.find?_cons]
  simp only [hp, decide_false]
  rw [assoc_find_filter_ne m p q h]

@[simp] theorem LastIdx.get_set_self (m : LastIdx) (p : Bytes) (d : IdxDesc) :
    (m.set p d).get p = some d := assoc_get_set_self m p d

theorem LastIdx.get_set_ne (m : LastIdx) (p q : Bytes) (d : IdxDesc) (h : q ≠ p) :
    (m.set p d).get q = m.get q := assoc_get_set_ne m p q d h

@[simp] theorem PrevObjs.get_set_self (m : PrevObjs) (p : Bytes) (d : SegObj) :
    (m.set p d).get p = some d := assoc_get_set_self m p d

theorem PrevObjs.get_set_ne (m : PrevObjs) (p q : Bytes) (d : SegObj) (h : q ≠ p) :
    (m.set p d).get q = m.get q := assoc_get_set_ne m p q d h

theorem LastIdx.get_set (m : LastIdx) (p q : Bytes) (d : IdxDesc) :
    (m.set p d).get q = if q = p then some d else m.get q := by
  by_cases h : q = p
  · subst h; simp
  · simp [h, LastIdx.get_set_ne m p q d h]

theorem PrevObjs.get_set (m : PrevObjs) (p q : Bytes) (d : SegObj) :
    (m.set p d).get q = if q = p then some d else m.get q := by
  by_cases h : q = p
  · subst h; simp
  · simp [h, PrevObjs.get_set_ne m p q d h]

/-! ## `getLast?` of a filtered range: the largest index satisfying the predicate -/

theorem getLast?_filter_range (P : Nat → Bool) (n i : Nat) :
    ((List.range n).filter P).getLast? = some i ↔
      (i < n ∧ P i = true ∧ ∀ j, i < j → j < n → P j = false) := by
  induction n with
  | zero => simp
  | succ n ih =>
    rw [List.range_succ, List.filter_append]
    by_cases hn : P n = true
    · simp only [List.filter_cons, hn, List.filter_nil, if_true]
      rw [List.getLast?_append]
      simp only [List.getLast?_singleton, Option.some_or, Option.some.injEq]
      constructor
      · intro h; subst h
        refine ⟨by omega, hn, ?_⟩
        intro j h1 h2; omega
      · rintro ⟨h1, h2, h3⟩
        by_cases hi : i = n
        · exact hi.symm
        · have := h3 n (by omega) (by omega)
          simp [hn] at this
    · have hn' : P n = false := by simpa using hn
      simp only [List.filter_cons, hn', List.filter_nil, List.append_nil, Bool.false_eq_true, if_false]
      rw [ih]
      constructor
      · rintro ⟨h1, h2, h3⟩
        refine ⟨by omega, h2, ?_⟩
        intro j hj1 hj2
        by_cases hjn : j = n
        · subst hjn; exact hn'
        · exact h3 j hj1 (by omega)
      · rintro ⟨h1, h2, h3⟩
        have hin : i ≠ n := by
          intro h; subst h; rw [hn'] at h2; exact Bool.noConfusion h2
        refine ⟨by omega, h2, ?_⟩
        intro j hj1 hj2
        exact h3 j hj1 (by omega)

theorem getLast?_filter_range_none (P : Nat → Bool) (n : Nat) :
    ((List.range n).filter P).getLast? = none ↔ ∀ j, j < n → P j = false := by
  rw [List.getLast?_eq_none_iff, List.filter_eq_nil_iff]
  simp

/-! ## `existingIndex` (item 5): the LAST position of a path -/

/-- `existingIndex l p = some i` iff `i` is the largest index with `l[i].path = p`. -/
theorem existingIndex_spec (l : List SegObj) (p : Bytes) (i : Nat) :
    existingIndex l p = some i ↔
      (l[i]?.map (·.path) = some p ∧ ∀ j, i < j → l[j]?.map (·.path) ≠ some p) := by
  unfold existingIndex
  simp only []
  rw [getLast?_filter_range]
  constructor
  · rintro ⟨h1, h2, h3⟩
    refine ⟨by simpa using h2, ?_⟩
    intro j hj
    by_cases hjl : j < l.length
    · simpa using h3 j hj hjl
    · simp [List.getElem?_eq_none (Nat.le_of_not_lt hjl)]
  · rintro ⟨h1, h2⟩
    have hi : i < l.length := by
      by_cases hi : i < l.length
      · exact hi
      · simp [List.getElem?_eq_none (Nat.le_of_not_lt hi)] at h1
    refine ⟨hi, by simpa using h1, ?_⟩
    intro j hj _
    simpa using h2 j hj

theorem existingIndex_none (l : List SegObj) (p : Bytes) :
    existingIndex l p = none ↔ ∀ o ∈ l, o.path ≠ p := by
  unfold existingIndex
  simp only []
  rw [getLast?_filter_range_none]
  constructor
  · intro h o ho
    obtain ⟨j, hj, rfl⟩ := List.getElem_of_mem ho
    have := h j hj
    simpa [List.getElem?_eq_getElem hj] using this
  · intro h j hj
    have := h l[j] (List.getElem_mem hj)
    simpa [List.getElem?_eq_getElem hj] using this

/-- what the reader does with the index: it fetches the object at that position, whose path is `p` -/
theorem existingIndex_some_getElem {l : List SegObj} {p : Bytes} {i : Nat}
    (h : existingIndex l p = some i) : ∃ o, l[i]? = some o ∧ o.path = p := by
  have := ((existingIndex_spec l p i).1 h).1
  cases hl : l[i]? with
  | none => simp [hl] at this
  | some o => exact ⟨o, rfl, by simpa [hl] using this⟩

/-- with no duplicate paths the position found is THE position of the path -/
theorem existingIndex_unique {l : List SegObj} (hnd : (l.map (·.path)).Nodup) {p : Bytes} {i : Nat} :
    existingIndex l p = some i ↔ l[i]?.map (·.path) = some p := by
  rw [existingIndex_spec]
  constructor
  · exact fun h => h.1
  · intro h
    refine ⟨h, ?_⟩
    intro j hj hjp
    have h1 : (l.map (·.path))[i]? = some p := by simpa using h
    have h2 : (l.map (·.path))[j]? = some p := by simpa using hjp
    have := (List.getElem?_inj (by
      rcases List.getElem?_eq_some_iff.1 h1 with ⟨hi, _⟩; exact hi) hnd).1 (h1.trans h2.symm)
    omega

/-- `SegmentIndexCache`: `getSegmentObject` returns the object at the last position of the path -/
theorem getSegmentObject_spec (s : Segment) (p : Bytes) (o : SegObj) :
    Tdms.Model.getSegmentObject s p = some o ↔
      ∃ i : Nat, s.objects[i]? = some o ∧ o.path = p ∧
        ∀ j : Nat, i < j → s.objects[j]?.map (fun x : SegObj => x.path) ≠ some p := by
  unfold Tdms.Model.getSegmentObject
  constructor
  · intro h
    cases hi : existingIndex s.objects p with
    | none => simp [hi] at h
    | some i =>
      simp only [hi, Option.bind_some] at h
      have hs := (existingIndex_spec s.objects p i).1 hi
      refine ⟨i, h, ?_, hs.2⟩
      simpa [h] using hs.1
  · rintro ⟨i, h1, h2, h3⟩
    have : existingIndex s.objects p = some i :=
      (existingIndex_spec s.objects p i).2 ⟨by simp [h1, h2], h3⟩
    simp [this, h1]

end Tdms.Proofs.C02
