/-
  C02 — `hdrOf` is what the model's parser (`readHdr`, i.e. `newIndexedObject`) produces on the bytes
  the spec's encoder (`encIdx`) writes for a listed index.  Core Lean only.
-/
import TdmsProofs.Model.MetaMachine

namespace Tdms.Proofs.C02

open Tdms Tdms.Model Tdms.Generated

/-! ## bytes -/

theorem length_encLE (w n : Nat) : (encLE w n).length = w := by
  induction w generalizing n with
  | zero => rfl
  | succ w ih => simp [encLE, ih]

theorem length_enc (e : Endian) (w n : Nat) : (enc e w n).length = w := by
  cases e <;> simp [enc, encBE, length_encLE]

theorem decLE_encLE (w n : Nat) : decLE (encLE w n) = n % 2 ^ (8 * w) := by
  induction w generalizing n with
  | zero => simp [encLE, decLE, Nat.mod_one]
  | succ w ih =>
    simp only [encLE, decLE, ih]
    have h1 : (UInt8.ofNat (n % 256)).toNat = n % 256 := by
      rw [UInt8.toNat_ofNat']
      omega
    rw [h1]
    have : 2 ^ (8 * (w + 1)) = 256 * 2 ^ (8 * w) := by
      rw [Nat.mul_add, Nat.pow_add]; simp [Nat.mul_comm]
    rw [this, Nat.mod_mul]

theorem dec_enc (e : Endian) (w n : Nat) (h : n < 2 ^ (8 * w)) : dec e (enc e w n) = n := by
  cases e
  · simp [dec, enc, decLE_encLE, Nat.mod_eq_of_lt h]
  · simp [dec, enc, decBE, encBE, decLE_encLE, Nat.mod_eq_of_lt h]

theorem takeN_append (a rest : Bytes) (n : Nat) (h : a.length = n) :
    takeN n (a ++ rest) = .ok (a, rest) := by
  unfold takeN
  have : ¬ (a ++ rest).length < n := by simp [h]
  simp [← h]

theorem uN_enc (e : Endian) (w n : Nat) (rest : Bytes) (h : n < 2 ^ (8 * w)) :
    uN e w (enc e w n ++ rest) = .ok (n, rest) := by
  unfold uN
  rw [P_bind_ok (takeN_append _ _ _ (length_enc e w n))]
  simp [P_pure, dec_enc e w n h]

/-! ## the standard raw-data index -/

theorem decLE_enc_little (w n : Nat) (h : n < 2 ^ (8 * w)) : decLE (enc .little w n) = n :=
  dec_enc .little w n h

theorem decBE_enc_big (w n : Nat) (h : n < 2 ^ (8 * w)) : decBE (enc .big w n) = n :=
  dec_enc .big w n h

/-- the three fields `read_raw_data_index` unpacks from its 16 bytes -/
theorem stdIndex_parts (e : Endian) (ty n : Nat) :
    (enc e 4 ty ++ enc e 4 1 ++ enc e 8 n).take 4 = enc e 4 ty ∧
    ((enc e 4 ty ++ enc e 4 1 ++ enc e 8 n).drop 4).take 4 = enc e 4 1 ∧
    (enc e 4 ty ++ enc e 4 1 ++ enc e 8 n).drop 8 = enc e 8 n := by
  refine ⟨?_, ?_, ?_⟩
  · rw [List.append_assoc, List.take_left' (length_enc e 4 ty)]
  · rw [List.append_assoc, List.drop_left' (length_enc e 4 ty), List.take_left' (length_enc e 4 1)]
  · rw [List.drop_left' (by simp [length_enc])]

theorem readStdIndex_enc_fixed (e : Endian) (o : SegObj) (ty n : Nat) (rest : Bytes)
    (hty : ty < 2 ^ 32) (hn : n < 2 ^ 64) (hs : (typeSize ty).isSome = true) (hns : ty ≠ tyString) :
    readStdIndex e o (enc e 4 ty ++ enc e 4 1 ++ enc e 8 n ++ rest) =
      .ok ({ o with numberValues := n, dataType := some ty, dataSize := n * (typeSize ty).getD 0 }, rest) := by
  unfold readStdIndex
  rw [P_bind_ok (takeN_append (enc e 4 ty ++ enc e 4 1 ++ enc e 8 n) rest 16 (by simp [length_enc]))]
  obtain ⟨h1, h2, h3⟩ := stdIndex_parts e ty n
  rw [h1, h2, h3]
  have hk : knownType ty = true := by
    unfold knownType
    unfold typeSize at hs
    cases hti : typeInfo ty with
    | none => rw [hti] at hs; simp at hs
    | some ti => rfl
  have hns' : (typeSize ty).isNone = false := by
    cases hsz : typeSize ty with
    | none => rw [hsz] at hs; cases hs
    | some _ => rfl
  cases e
  · simp only [decLE_enc_little 4 ty (by simpa using hty), decLE_enc_little 4 1 (by decide),
      decLE_enc_little 8 n (by simpa using hn)]
    simp [hk, hns', hns, P_pure]
  · simp only [decBE_enc_big 4 ty (by simpa using hty), decBE_enc_big 4 1 (by decide),
      decBE_enc_big 8 n (by simpa using hn)]
    simp [hk, hns', hns, P_pure]

theorem readStdIndex_enc_string (e : Endian) (o : SegObj) (n total : Nat) (rest : Bytes)
    (hn : n < 2 ^ 64) (ht : total < 2 ^ 64) :
    readStdIndex e o (enc e 4 tyString ++ enc e 4 1 ++ enc e 8 n ++ (enc e 8 total ++ rest)) =
      .ok ({ o with numberValues := n, dataType := some tyString, dataSize := total }, rest) := by
  unfold readStdIndex
  rw [P_bind_ok (takeN_append (enc e 4 tyString ++ enc e 4 1 ++ enc e 8 n) _ 16 (by simp [length_enc]))]
  obtain ⟨h1, h2, h3⟩ := stdIndex_parts e tyString n
  rw [h1, h2, h3]
  have hk : knownType tyString = true := by decide
  have hu := uN_enc e 8 total rest (by simpa using ht)
  cases e
  · simp only [decLE_enc_little 4 tyString (by decide), decLE_enc_little 4 1 (by decide),
      decLE_enc_little 8 n (by simpa using hn)]
    simp only [hk, Bool.not_true, Bool.false_eq_true, if_false, ne_eq, not_true_eq_false, decide_false,
      Bool.and_false, if_true]
    rw [P_bind_ok hu]
    rfl
  · simp only [decBE_enc_big 4 tyString (by decide), decBE_enc_big 4 1 (by decide),
      decBE_enc_big 8 n (by simpa using hn)]
    simp only [hk, Bool.not_true, Bool.false_eq_true, if_false, ne_eq, not_true_eq_false, decide_false,
      Bool.and_false, if_true]
    rw [P_bind_ok hu]
    rfl

/-- **`hdrOf` is what the parser produces.**  Reading the 4-byte header and then `readHdr` on the bytes
    `encIdx` writes for a listed index (followed by anything) yields `hdrOf` and consumes exactly the
    index. DAQmx indexes are not covered here. -/
theorem readHdr_encIdx_noData (e : Endian) (path rest : Bytes) :
    (do let header ← uN e 4; readHdr e path header : P Hdr) (encIdx e .noData ++ rest) =
      .ok (hdrOf path .noData, rest) := by
  unfold encIdx
  rw [P_bind_ok (uN_enc e 4 rawDataIndexNoData rest (by decide))]
  simp [readHdr, P_pure, hdrOf, hdrRaw, canonIdx]

theorem readHdr_encIdx_matchesPrev (e : Endian) (path rest : Bytes) :
    (do let header ← uN e 4; readHdr e path header : P Hdr) (encIdx e .matchesPrev ++ rest) =
      .ok (hdrOf path .matchesPrev, rest) := by
  unfold encIdx
  rw [P_bind_ok (uN_enc e 4 rawDataIndexMatchesPrevious rest (by decide))]
  have : rawDataIndexMatchesPrevious ≠ rawDataIndexNoData := by decide
  simp [readHdr, P_pure, hdrOf, hdrRaw, canonIdx, this]

theorem readHdr_encIdx_full (e : Endian) (path rest : Bytes) (ty n total : Nat)
    (hwf : wfIdx (.full ty n total) = true) (htotal : ty = tyString → total < 2 ^ 64) :
    (do let header ← uN e 4; readHdr e path header : P Hdr) (encIdx e (.full ty n total) ++ rest) =
      .ok (hdrOf path (.full ty n total), rest) := by
  simp only [wfIdx, Bool.and_eq_true, Bool.or_eq_true, decide_eq_true_eq] at hwf
  obtain ⟨hts, hn⟩ := hwf
  unfold encIdx
  by_cases hs : ty = tyString
  · subst hs
    simp only [if_true, List.append_assoc]
    rw [P_bind_ok (uN_enc e 4 28 _ (by decide))]
    have h1 : (28 : Nat) ≠ rawDataIndexNoData := by decide
    have h2 : (28 : Nat) ≠ rawDataIndexMatchesPrevious := by decide
    have h3 : isDaqmxHeader 28 = false := by decide
    simp only [readHdr, h1, h2, if_false, newIndexedObject, h3, Bool.false_eq_true]
    have := readStdIndex_enc_string e { path := path, hasData := true } n total rest hn (htotal rfl)
    simp only [List.append_assoc] at this
    rw [P_bind_ok this]
    simp [P_pure, hdrOf, hdrRaw, canonIdx, concObj]
  · simp only [hs, if_false, List.append_assoc]
    rw [P_bind_ok (uN_enc e 4 20 _ (by decide))]
    have h1 : (20 : Nat) ≠ rawDataIndexNoData := by decide
    have h2 : (20 : Nat) ≠ rawDataIndexMatchesPrevious := by decide
    have h3 : isDaqmxHeader 20 = false := by decide
    simp only [readHdr, h1, h2, if_false, newIndexedObject, h3, Bool.false_eq_true]
    have hsz : (typeSize ty).isSome = true := by
      rcases hts with h | h
      · exact absurd h hs
      · exact h
    have hty : ty < 2 ^ 32 := by
      unfold typeSize typeInfo at hsz
      cases hf : typeTable.find? (·.code = ty) with
      | none => rw [hf] at hsz; simp at hsz
      | some ti =>
        have hm := List.mem_of_find?_eq_some hf
        have hc : ti.code = ty := by simpa using List.find?_some hf
        have hall : (typeTable.all fun t => t.code < 2 ^ 32) = true := by decide
        have := List.all_eq_true.1 hall ti hm
        simp only [decide_eq_true_eq] at this
        omega
    have := readStdIndex_enc_fixed e { path := path, hasData := true } ty n rest hty hn hsz hs
    simp only [List.append_assoc] at this
    rw [P_bind_ok this]
    simp [P_pure, hdrOf, hdrRaw, canonIdx, concObj, hs]

/-! ## the DAQmx raw-data index -/

/-- the fields of a scaler record fit their slots -/
def scalerFits (dg : Bool) (s : ScalerEnc) : Prop :=
  s.daqType < 2 ^ 32 ∧ s.buffer < 2 ^ 32 ∧ s.offset < 2 ^ 32 ∧
  s.bitmap < (if dg then 2 ^ 8 else 2 ^ 32) ∧ s.scaleId < 2 ^ 32 ∧
  (daqmxTypes.find? (·.1 = s.daqType)).isSome = true

theorem five_fields (a b c d f : Bytes) (wd : Nat) (la : a.length = 4) (lb : b.length = 4)
    (lc : c.length = 4) (ld : d.length = wd) (lf : f.length = 4) :
    ((a ++ b ++ c ++ d ++ f).drop 0).take 4 = a ∧ ((a ++ b ++ c ++ d ++ f).drop 4).take 4 = b ∧
    ((a ++ b ++ c ++ d ++ f).drop 8).take 4 = c ∧ ((a ++ b ++ c ++ d ++ f).drop 12).take wd = d ∧
    ((a ++ b ++ c ++ d ++ f).drop (12 + wd)).take 4 = f := by
  refine ⟨?_, ?_, ?_, ?_, ?_⟩
  · rw [List.drop_zero]
    have : a ++ b ++ c ++ d ++ f = a ++ (b ++ c ++ d ++ f) := by simp [List.append_assoc]
    rw [this, List.take_left' la]
  · have : a ++ b ++ c ++ d ++ f = a ++ (b ++ (c ++ d ++ f)) := by simp [List.append_assoc]
    rw [this, List.drop_left' la, List.take_left' lb]
  · have : a ++ b ++ c ++ d ++ f = (a ++ b) ++ (c ++ (d ++ f)) := by simp [List.append_assoc]
    rw [this, List.drop_left' (by simp [la, lb]), List.take_left' lc]
  · have : a ++ b ++ c ++ d ++ f = (a ++ b ++ c) ++ (d ++ f) := by simp [List.append_assoc]
    rw [this, List.drop_left' (by simp [la, lb, lc]), List.take_left' ld]
  · have : a ++ b ++ c ++ d ++ f = (a ++ b ++ c ++ d) ++ (f ++ []) := by simp [List.append_assoc]
    rw [this, List.drop_left' (by simp [la, lb, lc, ld]; omega), List.take_left' lf]

theorem readScalers_enc (e : Endian) (dg : Bool) : ∀ (sc : List ScalerEnc) (rest : Bytes),
    (∀ s ∈ sc, scalerFits dg s) →
    readScalers e dg sc.length (sc.flatMap (encScaler e dg) ++ rest) = .ok (sc.map (convScaler dg), rest) := by
  intro sc
  induction sc with
  | nil => intro rest _; rfl
  | cons s sc ih =>
    intro rest hfit
    obtain ⟨h1, h2, h3, h4, h5, h6⟩ := hfit s (List.mem_cons_self ..)
    have ih' := ih rest (fun s' hs' => hfit s' (List.mem_cons_of_mem _ hs'))
    simp only [List.length_cons, List.flatMap_cons, List.append_assoc]
    unfold readScalers
    cases hf : daqmxTypes.find? (·.1 = s.daqType) with
    | none => rw [hf] at h6; cases h6
    | some ct =>
      obtain ⟨c0, t0⟩ := ct
      cases dg with
      | true =>
        have hlen : (encScaler e true s).length = digitalLineScalerRecordSize := by
          simp [encScaler, length_enc, digitalLineScalerRecordSize]
        rw [P_bind_ok (takeN_append (encScaler e true s) _ _ (by simpa using hlen))]
        obtain ⟨f1, f2, f3, f4, f5⟩ := five_fields (enc e 4 s.daqType) (enc e 4 s.buffer) (enc e 4 s.offset)
          (enc e 1 s.bitmap) (enc e 4 s.scaleId) 1 (length_enc ..) (length_enc ..) (length_enc ..)
          (length_enc ..) (length_enc ..)
        simp only [encScaler, if_true] at f1 f2 f3 f4 f5 ⊢
        simp only [f1, f2, f3, f4, f5, dec_enc e 4 s.daqType (by simpa using h1),
          dec_enc e 4 s.buffer (by simpa using h2), dec_enc e 4 s.offset (by simpa using h3),
          dec_enc e 1 s.bitmap (by simpa using h4), dec_enc e 4 s.scaleId (by simpa using h5), hf]
        rw [P_bind_ok ih']
        simp [P_pure, convScaler, hf]
      | false =>
        have hlen : (encScaler e false s).length = daqmxScalerRecordSize := by
          simp [encScaler, length_enc, daqmxScalerRecordSize]
        rw [P_bind_ok (takeN_append (encScaler e false s) _ _ (by simpa using hlen))]
        obtain ⟨f1, f2, f3, f4, f5⟩ := five_fields (enc e 4 s.daqType) (enc e 4 s.buffer) (enc e 4 s.offset)
          (enc e 4 s.bitmap) (enc e 4 s.scaleId) 4 (length_enc ..) (length_enc ..) (length_enc ..)
          (length_enc ..) (length_enc ..)
        simp only [encScaler, Bool.false_eq_true, if_false] at f1 f2 f3 f4 f5 ⊢
        simp only [f1, f2, f3, f4, f5, dec_enc e 4 s.daqType (by simpa using h1),
          dec_enc e 4 s.buffer (by simpa using h2), dec_enc e 4 s.offset (by simpa using h3),
          dec_enc e 4 s.bitmap (by simpa using h4), dec_enc e 4 s.scaleId (by simpa using h5), hf]
        rw [P_bind_ok ih']
        simp [P_pure, convScaler, hf]

theorem readWidths_enc (e : Endian) : ∀ (w : List Nat) (rest : Bytes), (∀ x ∈ w, x < 2 ^ 32) →
    readWidths e w.length (w.flatMap (enc e 4) ++ rest) = .ok (w, rest) := by
  intro w
  induction w with
  | nil => intro rest _; rfl
  | cons x w ih =>
    intro rest hw
    simp only [List.length_cons, List.flatMap_cons, List.append_assoc]
    unfold readWidths
    rw [P_bind_ok (uN_enc e 4 x _ (by simpa using hw x (List.mem_cons_self ..)))]
    rw [P_bind_ok (ih rest (fun y hy => hw y (List.mem_cons_of_mem _ hy)))]
    rfl

theorem daqmx_ty_ok {dg : Bool} {ty n : Nat} {sc : List ScalerEnc} {w : List Nat}
    (hwf : wfIdx (.daqmx dg ty n sc w) = true) :
    ty < 2 ^ 32 ∧ knownType ty = true ∧
    (ty ≠ tyDaqmxRaw → sc.length = 1 ∧ ∀ s ∈ sc, (daqmxTypes.find? (·.1 = s.daqType)).map (·.2) = some ty) := by
  simp only [wfIdx, Bool.and_eq_true, Bool.or_eq_true, decide_eq_true_eq] at hwf
  obtain ⟨⟨⟨⟨_, _⟩, _⟩, hty⟩, _⟩ := hwf
  rcases hty with h | ⟨h1, h2⟩
  · subst h
    exact ⟨by decide, by decide, fun h => absurd rfl h⟩
  · have hall : ∀ s ∈ sc, (daqmxTypes.find? (·.1 = s.daqType)).map (·.2) = some ty := by
      intro s hs
      have := List.all_eq_true.1 h2 s hs
      simp only [daqmxTypeCode] at this
      exact of_decide_eq_true this
    cases sc with
    | nil => simp at h1
    | cons s0 rest =>
      have h0 := hall s0 (List.mem_cons_self ..)
      cases hf : daqmxTypes.find? (·.1 = s0.daqType) with
      | none => rw [hf] at h0; cases h0
      | some ct =>
        rw [hf] at h0
        simp only [Option.map_some, Option.some.injEq] at h0
        have hm := List.mem_of_find?_eq_some hf
        have hgood : (daqmxTypes.all fun ct => decide (ct.2 < 2 ^ 32) && knownType ct.2) = true := by decide
        have := List.all_eq_true.1 hgood ct hm
        simp only [Bool.and_eq_true, decide_eq_true_eq] at this
        rw [h0] at this
        exact ⟨this.1, this.2, fun _ => ⟨h1, hall⟩⟩

theorem readDaqmxIndex_enc (e : Endian) (o : SegObj) (dg : Bool) (ty n : Nat) (sc : List ScalerEnc)
    (w : List Nat) (rest : Bytes) (hwf : wfIdx (.daqmx dg ty n sc w) = true)
    (hsc : ∀ s ∈ sc, scalerFits dg s) (hw : ∀ x ∈ w, x < 2 ^ 32)
    (hlsc : sc.length < 2 ^ 32) (hlw : w.length < 2 ^ 32) :
    readDaqmxIndex e (if dg then digitalLineScaler else formatChangingScaler) o
        (enc e 4 ty ++ (enc e 4 1 ++ enc e 8 n ++ enc e 4 sc.length ++
          (sc.flatMap (encScaler e dg) ++ (enc e 4 w.length ++ (w.flatMap (enc e 4) ++ rest))))) =
      .ok ({ o with numberValues := n, dataType := some ty, daq := some ⟨n, w, sc.map (convScaler dg)⟩ }, rest) := by
  obtain ⟨hty, hk, hraw⟩ := daqmx_ty_ok hwf
  have hn : n < 2 ^ 64 := by
    simp only [wfIdx, Bool.and_eq_true, decide_eq_true_eq] at hwf
    exact hwf.1.1.1.1
  unfold readDaqmxIndex
  rw [P_bind_ok (uN_enc e 4 ty _ (by simpa using hty))]
  simp only [hk, Bool.not_true, Bool.false_eq_true, if_false]
  rw [P_bind_ok (takeN_append (enc e 4 1 ++ enc e 8 n ++ enc e 4 sc.length) _ 16 (by simp [length_enc]))]
  have b1 : (enc e 4 1 ++ enc e 8 n ++ enc e 4 sc.length).take 4 = enc e 4 1 := by
    rw [List.append_assoc, List.take_left' (length_enc ..)]
  have b2 : ((enc e 4 1 ++ enc e 8 n ++ enc e 4 sc.length).drop 4).take 8 = enc e 8 n := by
    rw [List.append_assoc, List.drop_left' (length_enc ..), List.take_left' (length_enc ..)]
  have b3 : (enc e 4 1 ++ enc e 8 n ++ enc e 4 sc.length).drop 12 = enc e 4 sc.length := by
    rw [List.drop_left' (by simp [length_enc])]
  simp only [b1, b2, b3, dec_enc e 4 1 (by decide), dec_enc e 8 n (by simpa using hn),
    dec_enc e 4 sc.length (by simpa using hlsc)]
  have hdig : decide ((if dg then digitalLineScaler else formatChangingScaler) = digitalLineScaler) = dg := by
    cases dg <;> decide
  simp only [ne_eq, not_true_eq_false, if_false, hdig]
  rw [P_bind_ok (readScalers_enc e dg sc _ hsc)]
  have htail : (do
      let nWidths ← uN e 4
      let widths ← readWidths e nWidths
      pure { o with numberValues := n, dataType := some ty, daq := some ⟨n, widths, sc.map (convScaler dg)⟩ } : P SegObj)
        (enc e 4 w.length ++ (w.flatMap (enc e 4) ++ rest)) =
      .ok ({ o with numberValues := n, dataType := some ty, daq := some ⟨n, w, sc.map (convScaler dg)⟩ }, rest) := by
    rw [P_bind_ok (uN_enc e 4 w.length _ (by simpa using hlw))]
    rw [P_bind_ok (readWidths_enc e w rest hw)]
    rfl
  by_cases hr : ty = tyDaqmxRaw
  · simp only [hr, not_true_eq_false, if_false] at htail ⊢
    exact htail
  · obtain ⟨hlen, hall⟩ := hraw hr
    cases sc with
    | nil => simp at hlen
    | cons s0 tl =>
      have h0 := hall s0 (List.mem_cons_self ..)
      have hst : (convScaler dg s0).ty = ty := by
        unfold convScaler
        simp only [h0, Option.getD_some]
      simp only [hr, not_false_eq_true, if_true, hlen, not_true_eq_false, if_false, List.map_cons,
        List.head?_cons, hst] at htail ⊢
      exact htail

theorem readHdr_encIdx_daqmx (e : Endian) (path rest : Bytes) (dg : Bool) (ty n : Nat)
    (sc : List ScalerEnc) (w : List Nat) (hwf : wfIdx (.daqmx dg ty n sc w) = true)
    (hsc : ∀ s ∈ sc, scalerFits dg s) (hw : ∀ x ∈ w, x < 2 ^ 32)
    (hlsc : sc.length < 2 ^ 32) (hlw : w.length < 2 ^ 32) :
    (do let header ← uN e 4; readHdr e path header : P Hdr) (encIdx e (.daqmx dg ty n sc w) ++ rest) =
      .ok (hdrOf path (.daqmx dg ty n sc w), rest) := by
  unfold encIdx
  simp only [List.append_assoc]
  have hh : (if dg then digitalLineScaler else formatChangingScaler) < 2 ^ (8 * 4) := by
    cases dg <;> decide
  rw [P_bind_ok (uN_enc e 4 _ _ hh)]
  have h1 : (if dg then digitalLineScaler else formatChangingScaler) ≠ rawDataIndexNoData := by
    cases dg <;> decide
  have h2 : (if dg then digitalLineScaler else formatChangingScaler) ≠ rawDataIndexMatchesPrevious := by
    cases dg <;> decide
  have h3 : isDaqmxHeader (if dg then digitalLineScaler else formatChangingScaler) = true := by
    cases dg <;> decide
  simp only [readHdr, h1, h2, if_false, newIndexedObject, h3, if_true]
  have := readDaqmxIndex_enc e { path := path, hasData := true } dg ty n sc w rest hwf hsc hw hlsc hlw
  simp only [List.append_assoc] at this
  rw [P_bind_ok this]
  simp [P_pure, hdrOf, hdrRaw, canonIdx, concObj]

/-- every field of the index fits the slot `encIdx` writes it into (what `wfIdx` does not already say) -/
def idxFits : IdxEnc → Prop
  | .full ty _ total => ty = tyString → total < 2 ^ 64
  | .daqmx dg _ _ sc w =>
    (∀ s ∈ sc, scalerFits dg s) ∧ (∀ x ∈ w, x < 2 ^ 32) ∧ sc.length < 2 ^ 32 ∧ w.length < 2 ^ 32
  | _ => True

/-- **`hdrOf` is what the parser produces**, all four kinds of header. -/
theorem readHdr_encIdx (e : Endian) (path rest : Bytes) (idx : IdxEnc)
    (hwf : wfIdx idx = true) (hfit : idxFits idx) :
    (do let header ← uN e 4; readHdr e path header : P Hdr) (encIdx e idx ++ rest) =
      .ok (hdrOf path idx, rest) := by
  cases idx with
  | noData => exact readHdr_encIdx_noData e path rest
  | matchesPrev => exact readHdr_encIdx_matchesPrev e path rest
  | full ty n total => exact readHdr_encIdx_full e path rest ty n total hwf hfit
  | daqmx dg ty n sc w =>
    obtain ⟨h1, h2, h3, h4⟩ := hfit
    exact readHdr_encIdx_daqmx e path rest dg ty n sc w hwf h1 h2 h3 h4

end Tdms.Proofs.C02
