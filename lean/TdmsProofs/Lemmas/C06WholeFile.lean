/-
  C06, whole-file truncation theorem for one-segment files: `readFile` on the file cut after `k` bytes
  (receivers, capacity check), and the comparison with the complete file.  Core Lean only.
-/
import TdmsProofs.Lemmas.C06WholeData

namespace Tdms.Proofs.C06Whole

open Tdms Tdms.Generated Tdms.Model Tdms.Proofs.Bytes Tdms.Proofs.C01Compose

/-! ## receivers and capacities, with an arbitrary value count -/

theorem newReceiver_metaN (nv : ObjEnc → Nat) (o : ObjEnc) (hwf : wfObj o = true) :
    newReceiver (metaN nv o) = if isFull o then some ⟨o.path, some [], []⟩ else none := by
  have h := newReceiver_metaOf 0 o hwf
  have e : newReceiver (metaN nv o) = newReceiver (metaOf 0 o) := by
    unfold newReceiver metaN metaOf
    rfl
  rw [e, h]

theorem receivers_eq_gen (nv : ObjEnc → Nat) (os : List ObjEnc) (hwf : ∀ o ∈ os, wfObj o = true) :
    ((os.map (metaN nv)).filter fun m => countComponents m.path = 2).filterMap newReceiver =
      rcvWith (rcvPaths os) (fun _ => []) := by
  rw [← receivers_eq 0 os hwf]
  induction os with
  | nil => rfl
  | cons o os ih =>
    have ih := ih (fun q hq => hwf q (List.mem_cons_of_mem _ hq))
    have hp : (metaN nv o).path = o.path := rfl
    have hp' : (metaOf 0 o).path = o.path := rfl
    simp only [List.map_cons, List.filter_cons, hp, hp']
    by_cases hc : countComponents o.path = 2
    · simp only [hc, decide_true, if_true, List.filterMap_cons,
        newReceiver_metaN nv o (hwf o List.mem_cons_self), newReceiver_metaOf 0 o (hwf o List.mem_cons_self)]
      rw [ih]
    · simp only [hc, decide_false, Bool.false_eq_true, if_false]
      exact ih

theorem get_metaN (nv : ObjEnc → Nat) (os : List ObjEnc) (p : Bytes) :
    ((ObjMetas.get (os.map (metaN nv)) p).map (·.numValues)).getD 0 =
      ((os.find? (·.path = p)).map nv).getD 0 := by
  induction os with
  | nil => simp [ObjMetas.get]
  | cons o os ih =>
    have hp : (metaN nv o).path = o.path := rfl
    by_cases h : o.path = p
    · subst h
      simp [ObjMetas.get, metaN]
    · have e1 : ObjMetas.get (List.map (metaN nv) (o :: os)) p = ObjMetas.get (List.map (metaN nv) os) p := by
        simp only [ObjMetas.get, List.map_cons, List.find?_cons, hp, h, decide_false]
      have e2 : List.find? (fun x => decide (x.path = p)) (o :: os) = List.find? (fun x => decide (x.path = p)) os := by
        simp only [List.find?_cons, h, decide_false]
      rw [e1, e2, ih]

/-! ## the chunk loop with a capacity bound on the final lengths -/

theorem bump_foldl_length_ge (pairs : List (Bytes × List Bytes)) :
    ∀ (f : Bytes → List Bytes) (p : Bytes), (f p).length ≤ (pairs.foldl bump f p).length := by
  induction pairs with
  | nil => intro f p; exact Nat.le_refl _
  | cons pv pairs ih =>
    intro f p
    rw [List.foldl_cons]
    refine Nat.le_trans ?_ (ih _ p)
    unfold bump
    split <;> simp

theorem valsAfter_length_ge (ds : List ObjEnc) :
    ∀ (chs : List (List (List Bytes))) (f : Bytes → List Bytes) (p : Bytes),
      (f p).length ≤ (valsAfter ds f chs p).length := by
  intro chs
  induction chs with
  | nil => intro f p; exact Nat.le_refl _
  | cons ch chs ih =>
    intro f p
    show _ ≤ (valsAfter ds ((chunkPairs ds ch).foldl bump f) chs p).length
    exact Nat.le_trans (bump_foldl_length_ge _ f p) (ih _ p)

/-- the loop of `_read_data`: it succeeds as soon as the *final* lengths respect the capacities -/
theorem foldl_fileStep_gen (st : ReaderState) (ps : List Bytes) (ds : List ObjEnc)
    (hmem : ∀ d ∈ ds, d.path ∈ ps) :
    ∀ (chs : List (List (List Bytes))) (f : Bytes → List Bytes),
      (∀ p ∈ ps, (valsAfter ds f chs p).length ≤ ((st.objects.get p).map (·.numValues)).getD 0) →
      (chs.map fun ch => pairsChunk (chunkPairs ds ch)).foldl (fileStep st) (.ok (rcvWith ps f)) =
        .ok (rcvWith ps (valsAfter ds f chs)) := by
  intro chs
  induction chs with
  | nil => intro f _; rfl
  | cons ch chs ih =>
    intro f hcap
    have hrecv := receiveChunk_rcvWith ps (chunkPairs ds ch) f (by
      intro pv hpv
      have := chunkPairs_paths_sub ds ch pv.1 (List.mem_map.mpr ⟨pv, hpv, rfl⟩)
      obtain ⟨d, hd, hde⟩ := List.mem_map.mp this
      rw [← hde]; exact hmem d hd)
    have hcap' : ∀ p ∈ ps, (valsAfter ds ((chunkPairs ds ch).foldl bump f) chs p).length ≤
        ((st.objects.get p).map (·.numValues)).getD 0 := hcap
    have hchk := checkCapacity_rcvWith st ps ((chunkPairs ds ch).foldl bump f) (by
      intro p hp
      exact Nat.le_trans (valsAfter_length_ge ds chs _ p) (hcap' p hp))
    have hstep : fileStep st (.ok (rcvWith ps f)) (pairsChunk (chunkPairs ds ch)) =
        .ok (rcvWith ps ((chunkPairs ds ch).foldl bump f)) := by
      simp only [fileStep, bind, Except.bind, hrecv, hchk, pure, Except.pure]
    simp only [List.map_cons, List.foldl_cons, hstep]
    exact ih _ hcap'

/-! ## values per data object, by index -/

/-- `bump_foldl_at` without any assumption on the shape of the chunk -/
theorem bump_foldl_at' (ds : List ObjEnc) :
    ∀ (ch : List (List Bytes)) (f : Bytes → List Bytes) (i : Nat) (hi : i < ds.length),
      (ds.map (·.path)).Nodup →
      (chunkPairs ds ch).foldl bump f ds[i].path = f ds[i].path ++ ch.getD i [] := by
  induction ds with
  | nil => intro ch f i hi; simp at hi
  | cons d ds ih =>
    intro ch f i hi hnd
    cases ch with
    | nil => simp [chunkPairs]
    | cons v vs =>
      simp only [List.map_cons, List.nodup_cons] at hnd
      obtain ⟨hno, hnd'⟩ := hnd
      have hcp : chunkPairs (d :: ds) (v :: vs) = (d.path, v) :: chunkPairs ds vs := rfl
      rw [hcp, List.foldl_cons]
      cases i with
      | zero =>
        simp only [List.getElem_cons_zero]
        rw [bump_foldl_not_mem _ _ _ (fun hm => hno (chunkPairs_paths_sub ds vs d.path hm))]
        simp [bump]
      | succ i =>
        have hi' : i < ds.length := by simpa using hi
        simp only [List.getElem_cons_succ]
        rw [ih vs _ i hi' hnd']
        have hne : ¬ ds[i].path = d.path := by
          intro e
          exact hno (List.mem_map.mpr ⟨ds[i], List.getElem_mem hi', e⟩)
        simp [bump, hne]

theorem valsAfter_at' (ds : List ObjEnc) (hnd : (ds.map (·.path)).Nodup) (i : Nat) (hi : i < ds.length) :
    ∀ (chs : List (List (List Bytes))) (f : Bytes → List Bytes),
      valsAfter ds f chs ds[i].path = f ds[i].path ++ chs.flatMap (·.getD i []) := by
  intro chs
  induction chs with
  | nil => intro f; simp [valsAfter]
  | cons ch chs ih =>
    intro f
    show valsAfter ds ((chunkPairs ds ch).foldl bump f) chs ds[i].path = _
    rw [ih _, bump_foldl_at' ds ch f i hi hnd]
    simp

theorem lensOK_getD (ds : List ObjEnc) :
    ∀ (ch : List (List Bytes)) (i : Nat) (hi : i < ds.length), lensOK ds ch →
      (ch.getD i []).length = nvals ds[i] := by
  induction ds with
  | nil => intro ch i hi; simp at hi
  | cons d ds ih =>
    intro ch i hi h
    cases ch with
    | nil => simp [lensOK] at h
    | cons v vs =>
      cases i with
      | zero => simpa using h.1
      | succ i =>
        have hi' : i < ds.length := by simpa using hi
        have := ih vs i hi' h.2
        simpa using this

theorem zipWith_take_getD (ds : List ObjEnc) (m : Bytes → Nat) :
    ∀ (ch : List (List Bytes)) (i : Nat) (hi : i < ds.length),
      (List.zipWith (fun (d : ObjEnc) v => v.take (m d.path)) ds ch).getD i [] =
        (ch.getD i []).take (m ds[i].path) := by
  induction ds with
  | nil => intro ch i hi; simp at hi
  | cons d ds ih =>
    intro ch i hi
    cases ch with
    | nil => simp
    | cons v vs =>
      cases i with
      | zero => simp
      | succ i =>
        have hi' : i < ds.length := by simpa using hi
        have := ih vs i hi'
        simpa using this

/-! ## the values of the cut file, per data object -/

/-- values of data object `i` in the complete file -/
def fullVals (s : SegEnc) (i : Nat) : List Bytes := s.chunks.flatMap (·.getD i [])

/-- values of data object `i` in the file cut after `k` bytes -/
def cutVals (s : SegEnc) (k i : Nat) : List Bytes := (cutChunks s k).flatMap (·.getD i [])

theorem flatMap_length_const' {α β : Type} (l : List α) (f : α → List β) (c : Nat)
    (h : ∀ x ∈ l, (f x).length = c) : (l.flatMap f).length = l.length * c := by
  induction l with
  | nil => simp
  | cons x xs ih =>
    simp only [List.flatMap_cons, List.length_append, List.length_cons,
      ih (fun y hy => h y (List.mem_cons_of_mem _ hy)), h x List.mem_cons_self, Nat.succ_mul]
    omega

/-- the number of values read from the truncated chunk never exceeds the chunk length of the object -/
theorem finLen_le (s : SegEnc) (hi : s.interleaved = false) (hstd : ∀ o ∈ s.objs, stdIdx o) (w : WfSingle s)
    (k : Nat) (o : ObjEnc) (ho : o ∈ dataOs s.objs) : finLen s k o.path ≤ nvals o := by
  unfold finLen
  split
  · exact Nat.zero_le _
  · obtain ⟨hmem, hfull⟩ := dataOs_sub ho
    have hso := hstd o hmem
    let seg : Segment := ⟨0, tocMask s, 0, 0, true, s.objs.map segObjOf, 0, none⟩
    have hov := computeFinal_cut s hstd w seg rfl
      (by show hasFlag (tocMask s) kTocInterleavedData = false; rw [hasFlag_tocMask_interleaved, hi]) rfl
      (cutR s k) (cutR s k)
    have hnd : ((seg.objects.filter (·.hasData)).map (·.path)).Nodup := by
      show (((s.objs.map segObjOf).filter (·.hasData)).map (·.path)).Nodup
      rw [filter_hasData_map_segObjOf s.objs hstd, List.map_map]
      rw [show ((fun x : SegObj => x.path) ∘ segObjOf) = fun o : ObjEnc => o.path from
        funext fun o => segObjOf_path o]
      exact dataOs_nodup s.objs w.nodup
    have := Tdms.Proofs.C06.final_length_le seg (cutR s k) (cutR s k) (ovOf s (cutR s k))
      (haveDaqmxObjects_std s.objs hstd) hnd (Nat.le_refl _) hov (segObjOf o)
      (List.mem_map.mpr ⟨o, hmem, rfl⟩) (by rw [segObjOf_hasData o hso]; exact hfull)
    rw [segObjOf_path, segObjOf_numberValues o hso] at this
    exact this

/-- the cut values of data object `i`: all values of the complete chunks, then a prefix of its values in the
    chunk that contains the cut -/
theorem cutVals_eq (s : SegEnc) (k i : Nat) (hi' : i < (dataOs s.objs).length) :
    cutVals s k i = (s.chunks.take (cutQ s k)).flatMap (·.getD i []) ++
      (if cutR s k = 0 then []
       else ((s.chunks.getD (cutQ s k) []).getD i []).take (finLen s k (dataOs s.objs)[i].path)) := by
  unfold cutVals cutChunks
  rw [List.flatMap_append]
  congr 1
  by_cases hr : cutR s k = 0
  · simp [hr]
  · simp only [hr, if_false, List.flatMap_cons, List.flatMap_nil, List.append_nil]
    exact zipWith_take_getD (dataOs s.objs) (finLen s k) _ i hi'

theorem cutVals_length (s : SegEnc) (hi : s.interleaved = false) (hstd : ∀ o ∈ s.objs, stdIdx o)
    (w : WfSingle s) (k : Nat) (hk : dataPosOf s ≤ k) (hkL : k ≤ (encodeSeg s (s.objs.map actOf)).length)
    (i : Nat) (hi' : i < (dataOs s.objs).length) :
    (cutVals s k i).length = nvals (dataOs s.objs)[i] * cutQ s k + finLen s k (dataOs s.objs)[i].path := by
  have hok : ∀ ch ∈ s.chunks, lensOK (dataOs s.objs) ch :=
    fun ch hc => lensOK_of_wfStdChunk _ ch (w.chunks ch hc)
  have hq := cutQ_le s w hi k hk hkL
  rw [cutVals_eq s k i hi', List.length_append,
    flatMap_length_const' _ _ (nvals (dataOs s.objs)[i])
      (fun ch hc => lensOK_getD _ ch i hi' (hok ch (List.mem_of_mem_take hc))),
    List.length_take, Nat.min_eq_left hq, Nat.mul_comm]
  congr 1
  by_cases hr : cutR s k = 0
  · simp [hr, finLen]
  · obtain ⟨_, _, _, hqlt⟩ := cutR_pos_imp s w hi k hk hkL hr
    simp only [hr, if_false]
    rw [List.length_take, getD_of_lt _ _ _ hqlt,
      lensOK_getD _ _ i hi' (hok _ (List.getElem_mem hqlt))]
    exact Nat.min_eq_left (finLen_le s hi hstd w k _ (List.getElem_mem hi'))

/-- **nothing is invented**: the cut values are a prefix of the complete values -/
theorem cutVals_prefix (s : SegEnc) (hi : s.interleaved = false) (w : WfSingle s) (k : Nat)
    (hk : dataPosOf s ≤ k) (hkL : k ≤ (encodeSeg s (s.objs.map actOf)).length)
    (i : Nat) (hi' : i < (dataOs s.objs).length) : cutVals s k i <+: fullVals s i := by
  rw [cutVals_eq s k i hi']
  unfold fullVals
  conv => rhs; rw [← List.take_append_drop (cutQ s k) s.chunks, List.flatMap_append]
  rw [List.prefix_append_right_inj]
  by_cases hr : cutR s k = 0
  · simp [hr]
  · obtain ⟨_, _, _, hqlt⟩ := cutR_pos_imp s w hi k hk hkL hr
    simp only [hr, if_false]
    rw [List.drop_eq_getElem_cons hqlt, List.flatMap_cons, getD_of_lt _ _ _ hqlt]
    exact List.IsPrefix.trans (List.take_prefix _ _) (List.prefix_append _ _)

/-! ## `readFile` on the cut file -/

theorem find_path_of_mem (os : List ObjEnc) (hnd : (os.map (·.path)).Nodup) (o : ObjEnc) (ho : o ∈ os) :
    os.find? (·.path = o.path) = some o := by
  induction os with
  | nil => simp at ho
  | cons a as ih =>
    simp only [List.map_cons, List.nodup_cons, List.mem_map, not_exists, not_and] at hnd
    obtain ⟨hno, hnd'⟩ := hnd
    rcases List.mem_cons.mp ho with rfl | h
    · simp
    · have hne : ¬ a.path = o.path := fun e => hno o h e.symm
      simp only [List.find?_cons, hne, decide_false]
      exact ih hnd' h

theorem cutRawChunks_eq (s : SegEnc) (w : WfSingle s) (k : Nat) :
    cutRawChunks s k = (if !s.rawFlag then [[]] else []) ++
      (cutChunks s k).map fun ch => pairsChunk (chunkPairs (dataOs s.objs) ch) := by
  unfold cutRawChunks
  congr 1
  apply List.map_congr_left
  intro ch _
  exact setCols_eq_pairs (dataOs s.objs) ch (dataOs_nodup s.objs w.nodup)

theorem mem_rcvPaths_of_data (s : SegEnc) (hch : onlyChannelsHaveData s) (d : ObjEnc) (hd : d ∈ dataOs s.objs) :
    d.path ∈ rcvPaths s.objs := by
  obtain ⟨hmem, hfull⟩ := dataOs_sub hd
  exact List.mem_map.mpr ⟨d, List.mem_filter.mpr ⟨hmem, by simp [hch d hmem hfull, hfull]⟩, rfl⟩

theorem rcvPaths_sub_data (s : SegEnc) (p : Bytes) (hp : p ∈ rcvPaths s.objs) :
    ∃ i, ∃ hi : i < (dataOs s.objs).length, (dataOs s.objs)[i].path = p := by
  obtain ⟨o, ho, rfl⟩ := List.mem_map.mp hp
  obtain ⟨hmem, hcond⟩ := List.mem_filter.mp ho
  simp only [Bool.and_eq_true, decide_eq_true_eq] at hcond
  have hd : o ∈ dataOs s.objs := by simp [dataOs, hmem, hcond.2]
  obtain ⟨i, hi, hie⟩ := List.getElem_of_mem hd
  exact ⟨i, hi, by rw [hie]⟩

/-- **cut inside or after the raw data**: what `TdmsFile.read` returns -/
theorem readFile_cut (s : SegEnc) (h : CutStd s) (fit : SegFits s) (hch : onlyChannelsHaveData s)
    (hlen : (encodeSeg s (s.objs.map actOf)).length < 2 ^ 63) (k : Nat) (hk : dataPosOf s ≤ k)
    (hkL : k ≤ (encodeSeg s (s.objs.map actOf)).length) :
    ∃ prev, readFile ((encodeSeg s (s.objs.map actOf)).take k) =
      .ok ⟨cutState s (encodeSeg s (s.objs.map actOf)).length k prev, cutChannels s k⟩ := by
  have w := h.wfSingle
  obtain ⟨prev, hmeta⟩ := readMetadata_cut s h.hasMeta h.contiguous h.stdObjs w fit hlen k hk hkL
  obtain ⟨fs, hdata⟩ := readRawDataAll_cut s h.contiguous h.stdObjs w fit k hk hkL {}
  refine ⟨prev, readFile_of_parts _ _ (cutRawChunks s k) fs _ hmeta hdata ?_⟩
  have hlenV := cutVals_length s h.contiguous h.stdObjs w k hk hkL
  generalize (encodeSeg s (s.objs.map actOf)).length = L at *
  have hobjs : (cutState s L k prev).objects = s.objs.map (metaN (cutNum s k)) := rfl
  rw [hobjs, receivers_eq_gen _ _ w.objs, cutRawChunks_eq s w, List.foldl_append]
  have hpre : (if !s.rawFlag then [[]] else [] : List RawChunk).foldl (fileStep (cutState s L k prev))
      (.ok (rcvWith (rcvPaths s.objs) fun _ => [])) = .ok (rcvWith (rcvPaths s.objs) fun _ => []) := by
    cases s.rawFlag
    · simp only [Bool.not_false, if_true, List.foldl_cons, List.foldl_nil]
      exact fileStep_empty _ _
    · rfl
  rw [hpre]
  apply foldl_fileStep_gen (cutState s L k prev) (rcvPaths s.objs) (dataOs s.objs)
    (fun d hd => mem_rcvPaths_of_data s hch d hd)
  intro p hp
  obtain ⟨i, hi, rfl⟩ := rcvPaths_sub_data s p hp
  have hmemd := List.getElem_mem hi
  obtain ⟨hmem, hfull⟩ := dataOs_sub hmemd
  rw [hobjs, get_metaN, find_path_of_mem s.objs w.nodup _ hmem,
    valsAfter_at' _ (dataOs_nodup s.objs w.nodup) i hi]
  have := hlenV i hi
  unfold cutVals at this
  simp only [List.nil_append, Option.map_some, Option.getD_some, cutNum, hfull, if_true]
  omega

/-- **cut before the raw data**: what `TdmsFile.read` returns -/
theorem readFile_dropped (s : SegEnc) (h : CutStd s)
    (hlen : (encodeSeg s (s.objs.map actOf)).length < 2 ^ 63) (k : Nat) (hk : k < dataPosOf s) :
    readFile ((encodeSeg s (s.objs.map actOf)).take k) = .ok ⟨droppedState s k, []⟩ := by
  have hmeta := readMetadata_dropped s h.wfSingle hlen k hk
  have hsegs : (droppedState s k).segments = [] := by unfold droppedState; split <;> rfl
  have hobjs : (droppedState s k).objects = [] := by unfold droppedState; split <;> rfl
  refine readFile_of_parts _ _ [] {} _ hmeta (by rw [hsegs]; rfl) (by rw [hobjs]; rfl)

/-! ## the values a user sees -/

theorem valuesIn_rcv_data (s : SegEnc) (hch : onlyChannelsHaveData s) (w : WfSingle s)
    (chs : List (List (List Bytes))) (i : Nat) (hi : i < (dataOs s.objs).length) :
    valuesIn (rcvWith (rcvPaths s.objs) (valsAfter (dataOs s.objs) (fun _ => []) chs)) (dataOs s.objs)[i].path =
      chs.flatMap (·.getD i []) := by
  rw [valuesIn_rcvWith, if_pos (mem_rcvPaths_of_data s hch _ (List.getElem_mem hi)),
    valsAfter_at' _ (dataOs_nodup s.objs w.nodup) i hi]
  rfl

theorem valuesIn_rcv_other (s : SegEnc) (chs : List (List (List Bytes))) (p : Bytes)
    (hp : p ∉ (dataOs s.objs).map (·.path)) :
    valuesIn (rcvWith (rcvPaths s.objs) (valsAfter (dataOs s.objs) (fun _ => []) chs)) p = [] := by
  rw [valuesIn_rcvWith]
  split
  · exact valsAfter_not_mem _ _ hp _ _
  · rfl

/-! ## the number of values read from the truncated chunk, in closed form -/

/-- byte width of one value of an object (0 for strings and objects without data) -/
def valSize (o : ObjEnc) : Nat := ((tyOf o).bind typeSize).getD 0

/-- byte offset of data object `i` inside a chunk -/
def startOf (s : SegEnc) (i : Nat) : Nat := (((dataOs s.objs).take i).map fun o => nvals o * valSize o).sum

/-- number of values of data object `i` (which is `o`) read from the chunk containing the cut: none when the cut
    is on a chunk boundary or a string channel is present, otherwise the complete values before the cut -/
def finalCount (s : SegEnc) (k i : Nat) (o : ObjEnc) : Nat :=
  if cutR s k = 0 ∨ hasStr s = true then 0 else min (nvals o) ((cutR s k - startOf s i) / valSize o)

theorem objSz_segObjOf (o : ObjEnc) (h : stdIdx o) : Tdms.Proofs.C06.objSz (segObjOf o) = valSize o := by
  unfold Tdms.Proofs.C06.objSz valSize
  rw [segObjOf_dataType o h]

theorem totalBytes_map_segObjOf (l : List ObjEnc) (h : ∀ o ∈ l, stdIdx o) :
    Tdms.Proofs.C06.totalBytes (l.map segObjOf) = (l.map fun o => nvals o * valSize o).sum := by
  unfold Tdms.Proofs.C06.totalBytes
  rw [List.map_map]
  congr 1
  apply List.map_congr_left
  intro o ho
  simp only [Function.comp, segObjOf_numberValues o (h o ho), objSz_segObjOf o (h o ho)]

theorem finLen_closed (s : SegEnc) (hstd : ∀ o ∈ s.objs, stdIdx o) (w : WfSingle s) (k i : Nat)
    (hi : i < (dataOs s.objs).length) :
    finLen s k (dataOs s.objs)[i].path = finalCount s k i (dataOs s.objs)[i] := by
  unfold finLen finalCount
  by_cases hr : cutR s k = 0
  · simp [hr]
  · cases hs : hasStr s with
    | true => simp [hr, ovOf, hs, Tdms.Proofs.C06.overrideGet_nil]
    | false =>
      simp only [hr, if_false, ovOf, hs, Bool.false_eq_true, or_self]
      have hall := allSized_of_noStr s hstd w hs
      have hfil := filter_hasData_map_segObjOf s.objs hstd
      have hnd : (((s.objs.map segObjOf).filter (·.hasData)).map (·.path)).Nodup := by
        rw [hfil, List.map_map]
        rw [show ((fun x : SegObj => x.path) ∘ segObjOf) = fun o : ObjEnc => o.path from
          funext fun o => segObjOf_path o]
        exact dataOs_nodup s.objs w.nodup
      have hsplit : (s.objs.map segObjOf).filter (·.hasData) =
          ((dataOs s.objs).take i).map segObjOf ++ segObjOf (dataOs s.objs)[i] ::
            ((dataOs s.objs).drop (i + 1)).map segObjOf := by
        have e : dataOs s.objs = (dataOs s.objs).take i ++ (dataOs s.objs)[i] :: (dataOs s.objs).drop (i + 1) := by
          rw [← List.drop_eq_getElem_cons hi, List.take_append_drop]
        rw [hfil]
        conv => lhs; rw [e]
        simp only [List.map_append, List.map_cons]
      have hdi := (dataOs_sub (List.getElem_mem hi)).1
      have := Tdms.Proofs.C06.contiguous_final_length_of_object (s.objs.map segObjOf) (cutR s k) _ _ _ hsplit
        (Tdms.Proofs.C06.allSized_objSz_pos hall) hnd
      rw [segObjOf_path, segObjOf_numberValues _ (hstd _ hdi), objSz_segObjOf _ (hstd _ hdi),
        totalBytes_map_segObjOf _ (fun o ho => hstd o (dataOs_sub (List.mem_of_mem_take ho)).1)] at this
      exact this

/-! ## monotonicity in the cut offset -/

theorem take_flatMap_prefix {α β : Type} (l : List α) (f : α → List β) (a b : Nat) (hab : a ≤ b) :
    (l.take a).flatMap f <+: (l.take b).flatMap f := by
  have e : l.take a = (l.take b).take a := by rw [List.take_take, Nat.min_eq_left hab]
  rw [e]
  conv => rhs; rw [← List.take_append_drop a (l.take b), List.flatMap_append]
  exact List.prefix_append _ _

theorem take_prefix_take_of_le {α : Type} (l : List α) (a b : Nat) (hab : a ≤ b) : l.take a <+: l.take b := by
  have e : l.take a = (l.take b).take a := by rw [List.take_take, Nat.min_eq_left hab]
  rw [e]
  exact List.take_prefix _ _

theorem finalCount_mono (s : SegEnc) (k k' i : Nat) (o : ObjEnc) (hq : cutQ s k = cutQ s k')
    (hr0 : cutR s k ≠ 0) (hr : cutR s k ≤ cutR s k') : finalCount s k i o ≤ finalCount s k' i o := by
  have _ := hq
  unfold finalCount
  have hr0' : cutR s k' ≠ 0 := by omega
  cases hs : hasStr s with
  | true => simp
  | false =>
    simp only [hr0, hr0', Bool.false_eq_true, or_self, if_false]
    have : (cutR s k - startOf s i) / valSize o ≤ (cutR s k' - startOf s i) / valSize o :=
      Nat.div_le_div_right (Nat.sub_le_sub_right hr _)
    omega

/-- **the later the cut, the more is read**: the values of the file cut after `k` bytes are a prefix of the values
    of the file cut after `k' ≥ k` bytes -/
theorem cutVals_mono (s : SegEnc) (hi : s.interleaved = false) (hstd : ∀ o ∈ s.objs, stdIdx o) (w : WfSingle s)
    (k k' : Nat) (hk : dataPosOf s ≤ k) (hkk : k ≤ k') (hkL : k' ≤ (encodeSeg s (s.objs.map actOf)).length)
    (i : Nat) (hi' : i < (dataOs s.objs).length) : cutVals s k i <+: cutVals s k' i := by
  rcases Nat.eq_or_lt_of_le hkk with rfl | hlt
  · exact List.prefix_refl _
  have hL := file_length s w hi
  have hc : 0 < chunkBytes s.objs := by
    apply Nat.pos_of_ne_zero
    intro h0
    have hK := chunkBytes_zero_no_chunks s hi w h0
    rw [hK] at hL
    omega
  have hd := cut_div_mod s k hk
  have hd' := cut_div_mod s k' (by omega)
  have hrc : cutR s k < chunkBytes s.objs := Nat.mod_lt _ hc
  have hrc' : cutR s k' < chunkBytes s.objs := Nat.mod_lt _ hc
  have hqq : cutQ s k ≤ cutQ s k' := by
    apply Nat.le_of_lt_succ
    apply Nat.lt_of_mul_lt_mul_right (a := chunkBytes s.objs)
    rw [Nat.succ_mul]
    omega
  rw [cutVals_eq s k i hi', cutVals_eq s k' i hi']
  rcases Nat.eq_or_lt_of_le hqq with heq | hqlt
  · -- same chunk: more bytes of it
    rw [← heq]
    rw [List.prefix_append_right_inj]
    have hrr : cutR s k ≤ cutR s k' := by
      rw [← heq] at hd'; omega
    by_cases hr0 : cutR s k = 0
    · simp [hr0]
    · have hr0' : cutR s k' ≠ 0 := by omega
      simp only [hr0, hr0', if_false]
      rw [finLen_closed s hstd w k i hi', finLen_closed s hstd w k' i hi']
      exact take_prefix_take_of_le _ _ _ (finalCount_mono s k k' i _ heq hr0 hrr)
  · -- a later chunk: the whole chunk containing the first cut is there
    have hq1 : cutQ s k + 1 ≤ cutQ s k' := hqlt
    have hqK := cutQ_le s w hi k' (by omega) hkL
    have hqltK : cutQ s k < s.chunks.length := by omega
    refine List.IsPrefix.trans ?_ (List.IsPrefix.trans
      (take_flatMap_prefix s.chunks (·.getD i []) (cutQ s k + 1) (cutQ s k') hq1) (List.prefix_append _ _))
    rw [List.take_succ_eq_append_getElem hqltK, List.flatMap_append, List.prefix_append_right_inj]
    simp only [List.flatMap_cons, List.flatMap_nil, List.append_nil]
    split
    · exact List.nil_prefix
    · rw [getD_of_lt _ _ _ hqltK]
      exact List.take_prefix _ _

/-! ## the uncut file is the cut at its end -/

theorem cut_at_end (s : SegEnc) (hi : s.interleaved = false) (w : WfSingle s) :
    cutQ s (encodeSeg s (s.objs.map actOf)).length = s.chunks.length ∧
    cutR s (encodeSeg s (s.objs.map actOf)).length = 0 := by
  have hL := file_length s w hi
  unfold cutQ cutR
  rw [hL, Nat.add_sub_cancel_left]
  by_cases h0 : chunkBytes s.objs = 0
  · have hK := chunkBytes_zero_no_chunks s hi w h0
    rw [h0, hK]; simp
  · exact ⟨Nat.mul_div_cancel _ (Nat.pos_of_ne_zero h0), Nat.mul_mod_left _ _⟩

theorem cutChunks_at_end (s : SegEnc) (hi : s.interleaved = false) (w : WfSingle s) :
    cutChunks s (encodeSeg s (s.objs.map actOf)).length = s.chunks := by
  obtain ⟨hq, hr⟩ := cut_at_end s hi w
  unfold cutChunks
  rw [hq, hr]
  simp

/-- what the uncut read shows is the spec's meaning of the file (also with the length-unknown marker) -/
theorem content_at_end (s : SegEnc) (hi : s.interleaved = false) (w : WfSingle s) (hch : onlyChannelsHaveData s)
    (prev : PrevObjs) :
    content ⟨cutState s (encodeSeg s (s.objs.map actOf)).length (encodeSeg s (s.objs.map actOf)).length prev,
        cutChannels s (encodeSeg s (s.objs.map actOf)).length⟩ =
      contentOfDenote (withVals (s.objs.map base) (valsAfter (dataOs s.objs) (fun _ => []) s.chunks)) := by
  rw [← content_eq s hch (encodeSeg s (s.objs.map actOf)).length prev]
  have hc : cutChannels s (encodeSeg s (s.objs.map actOf)).length = channelsOf s := by
    unfold cutChannels channelsOf
    rw [cutChunks_at_end s hi w]
  unfold content
  rw [hc]
  show (s.objs.map (metaN _)).map _ = (s.objs.map (metaOf _)).map _
  rw [List.map_map, List.map_map]
  rfl

/-- `len(channel)` is the number of values returned, for every object of the cut file -/
theorem cutState_numValues (s : SegEnc) (h : CutStd s) (hch : onlyChannelsHaveData s) (k : Nat)
    (hk : dataPosOf s ≤ k) (hkL : k ≤ (encodeSeg s (s.objs.map actOf)).length) (L : Nat) (prev : PrevObjs) :
    ∀ m ∈ (cutState s L k prev).objects, m.numValues = (valuesIn (cutChannels s k) m.path).length := by
  have w := h.wfSingle
  intro m hm
  obtain ⟨o, ho, rfl⟩ := List.mem_map.mp hm
  show cutNum s k o = (valuesIn (cutChannels s k) o.path).length
  unfold cutChannels cutNum
  cases hf : isFull o with
  | true =>
    have hd : o ∈ dataOs s.objs := by simp [dataOs, ho, hf]
    obtain ⟨i, hi, rfl⟩ := List.getElem_of_mem hd
    rw [valuesIn_rcv_data s hch w _ i hi]
    exact (cutVals_length s h.contiguous h.stdObjs w k hk hkL i hi).symm
  | false =>
    rw [valuesIn_rcv_other s _ o.path]
    · rfl
    · intro hmem
      obtain ⟨d, hd, hde⟩ := List.mem_map.mp hmem
      obtain ⟨hdm, hfull⟩ := dataOs_sub hd
      have : d = o := eq_of_nodup_map_path s.objs w.nodup hdm ho hde
      subst this
      rw [hf] at hfull; cases hfull

end Tdms.Proofs.C06Whole
