/-
  C07 (whole composition, write → read): definitions.

  * `encOfProgram v prog` — the spec encoding (`List SegEnc`) of what the writer model emits for `prog`;
  * `promised prog`      — the content the writer promises, straight from the program, in closed form;
  * `typesConsistent`, `stringTotalsFit` — the two decidable side conditions besides `WritableProgram`.
  Core Lean only.
-/
import TdmsProofs.Properties.C08
import TdmsProofs.Properties.C01Multi

namespace Tdms.Proofs.C07Whole

open Tdms Tdms.Generated Tdms.Model Tdms.Model.Writer Tdms.Proofs.C08

abbrev Program := List (List (List WObj))

/-! ## the writer's output as a spec encoding -/

/-- a written property as the spec's `PropEnc`: name, the TDMS type `_to_tdms_value` picks for the Python
    value, and its little-endian bytes -/
def toPropEnc (p : WProp) : PropEnc := ⟨p.name, (toTdmsValue p.val).1, (toTdmsValue p.val).2⟩

/-- the channel data for which the writer emits a raw data index (`none`: root, group, or a channel whose
    array is empty and untyped — the writer emits `0xFFFFFFFF`, "no data") -/
def dataOf : WObj → Option WData
  | .channel _ _ d _ => if d.ty = tyVoid then none else some d
  | _ => none

/-- the raw data index the writer emits: always a full index (the writer never uses "matches previous") -/
def idxOfW (o : WObj) : IdxEnc :=
  match dataOf o with
  | some d => .full d.ty d.vals.length (objectDataSize d)
  | none => .noData

def toObjEnc (o : WObj) : ObjEnc := ⟨o.path, idxOfW o, o.props.map toPropEnc⟩

/-- the one chunk of a written segment: the value lists of the objects with an index, in order -/
def chunkOf (objs : List WObj) : List (List Bytes) := objs.filterMap fun o => (dataOf o).map (·.vals)

/-- the segment `TdmsSegment.write` emits for an object list: metadata, new object list, raw-data flag
    (always set, also without data), little endian, no padding, one chunk (none if there are no data bytes) -/
def segOfW (v : Nat) (objs : List WObj) : SegEnc :=
  { hasMeta := true, newList := true, interleaved := false, big := false, rawFlag := true, daqmxFlag := false,
    version := v, objs := objs.map toObjEnc, padding := 0,
    chunks := if dataSize objs = 0 then [] else [chunkOf objs], lengthUnknown := false }

/-- the object lists the program's `write_segment` calls emit (after root / group insertion and the stable
    sort), over all sessions, in file order; `[]` if the writer raises -/
def emitted (prog : Program) : List (List WObj) := ((programSegs prog).getD []).flatten

/-- **the spec encoding of the written file**: one `SegEnc` per written segment -/
def encOfProgram (v : Nat) (prog : Program) : FileEnc := (emitted prog).map (segOfW v)

/-! ## the promised content -/

/-- every object written, in file order -/
def written (prog : Program) : List WObj := (emitted prog).flatten

/-- the data type a written object declares -/
def tyOfW (o : WObj) : Option Nat := (dataOf o).map (·.ty)

/-- the values written with a channel object -/
def chanVals : WObj → List Bytes
  | .channel _ _ d _ => d.vals
  | _ => []

/-- what is promised for the object with path `p`, given all objects written (in order): the data type of
    the (last) typed write, the property dictionary (position of the first write of a name, value of the last;
    values converted by `_to_tdms_value`), and the concatenation of the data written, in order -/
def promisedObj (ws : List WObj) (p : Bytes) : ObjContent :=
  let mine := ws.filter (·.path = p)
  { path := p,
    ty := (mine.filterMap tyOfW).getLast?,
    props := (mine.flatMap fun o => o.props.map toPropEnc).foldl setProp [],
    values := mine.flatMap chanVals,
    scalers := [] }

/-- objects in order of first appearance -/
def promisedOf (ws : List WObj) : Content := (ws.map (·.path)).eraseDups.map (promisedObj ws)

/-- **the content the writer promises for a program** -/
def promised (prog : Program) : Content := promisedOf (written prog)

/-! ## side conditions -/

/-- two typed writes of the same path agree on the data type -/
def Consistent (ws : List WObj) : Prop :=
  ∀ o₁ ∈ ws, ∀ o₂ ∈ ws, o₁.path = o₂.path → tyOfW o₁ = none ∨ tyOfW o₂ = none ∨ tyOfW o₁ = tyOfW o₂

instance (ws : List WObj) : Decidable (Consistent ws) := by unfold Consistent; infer_instance

/-- no channel is written with two different data types (an empty untyped array counts as no type) -/
def typesConsistent (prog : Program) : Prop := Consistent (written prog)

instance (prog : Program) : Decidable (typesConsistent prog) := by unfold typesConsistent; infer_instance

/-- the string data of one channel in one segment, offsets included, stay below 2^32 bytes
    (the size condition `FileFits` of the C01 multi-segment theorem on listed string indexes) -/
def StringTotalFits (o : WObj) : Prop := ∀ d, dataOf o = some d → d.ty = tyString → objectDataSize d < 2 ^ 32

instance (o : WObj) : Decidable (StringTotalFits o) := by
  unfold StringTotalFits
  cases dataOf o with
  | none => exact isTrue (by intro d h; cases h)
  | some d =>
    by_cases h : d.ty = tyString → objectDataSize d < 2 ^ 32
    · exact isTrue (by intro d' h'; cases h'; exact h)
    · exact isFalse (fun hh => h (hh d rfl))

def stringTotalsFit (prog : Program) : Prop := ∀ o ∈ written prog, StringTotalFits o

instance (prog : Program) : Decidable (stringTotalsFit prog) := by unfold stringTotalsFit; infer_instance

end Tdms.Proofs.C07Whole
