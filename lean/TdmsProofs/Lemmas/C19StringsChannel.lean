import TdmsProofs.Lemmas.C19StringsRead

/-!
# C19Strings: one channel, one chunk / one segment, for fixed-width AND variable-width channels

C19's `channelSpan` gives a variable-width (string) channel the length 0 and its trace lemmas assume
`SizedIn`.  Here the channel's bytes in a chunk are `objBytes` (`n · size` for a fixed-width type, the
DECLARED `dataSize` — the `total` of the raw-data index — for a string channel), and the trace lemmas
take the hypothesis `ReadsWithin`: "reading the channel's values of this chunk, started at the channel's
position, stays inside these bytes".  It holds unconditionally for fixed-width channels
(`readsWithin_of_sized`), on encoded files for strings (`C19StringsEnc.lean`), and on arbitrary bytes for
strings whose offset table is sane (`readsWithin_of_table`).  Core Lean only.
-/

namespace Tdms.Proofs.C19S

open Tdms Tdms.Model Tdms.Generated Tdms.Proofs.C05 Tdms.Proofs.C19

/-- the bytes object `o` occupies in chunk `j`: `n · size` for a fixed-width type, the declared data size
    (`total` of the index) for a variable-width type -/
def objBytes (s : Segment) (j : Nat) (o : SegObj) : Nat :=
  match o.dataType.bind typeSize with
  | some sz => channelNumberValues s o j * sz
  | none => o.dataSize

/-- the object and the position `ContiguousDataReader._read_channel_data_chunk` arrives at for path `p`
    in a chunk that starts at `cur`: the preceding data objects are skipped by their DECLARED sizes
    (`cur + o.dataSize`; for a truncated final chunk `size · n`) — nothing is read -/
def channelLoc (s : Segment) (j : Nat) (p : Bytes) : List SegObj → Nat → Option (SegObj × Nat)
  | [], _ => none
  | o :: os, cur =>
    if o.path = p then some (o, cur)
    else if channelNumberValues s o j = o.numberValues then channelLoc s j p os (cur + o.dataSize)
    else match o.dataType.bind typeSize with
      | some sz => channelLoc s j p os (cur + sz * channelNumberValues s o j)
      | none => none

/-- `(start, length)` of channel `p` in a chunk that starts at `cur` -/
def channelSpanS (s : Segment) (j : Nat) (p : Bytes) (os : List SegObj) (cur : Nat) : Option (Nat × Nat) :=
  (channelLoc s j p os cur).map fun oa => (oa.2, objBytes s j oa.1)

/-- reading the values of `o` in chunk `j`, started at `a`, stays inside `[a, a + objBytes)` -/
def ReadsWithin (file : Bytes) (s : Segment) (j : Nat) (o : SegObj) (a : Nat) : Prop :=
  SpanAt a (objBytes s j o) (readValues file s.endian o (channelNumberValues s o j))

theorem readsWithin_of_sized (file : Bytes) (s : Segment) (j : Nat) (o : SegObj) (a sz : Nat)
    (h : o.dataType.bind typeSize = some sz) : ReadsWithin file s j o a := by
  unfold ReadsWithin objBytes
  rw [h]
  exact SpanAt.of_span (span_readValues_sized file s.endian o _ sz h) a

/-- a string object whose offset table (as found in the file) is non-decreasing and ends inside the
    declared size -/
theorem readsWithin_of_table (file : Bytes) (s : Segment) (j : Nat) (o : SegObj) (a : Nat)
    (hty : o.dataType = some tyString)
    (hmono : MonoFrom 0 (tableAt file s.endian a (channelNumberValues s o j)))
    (hlast : 4 * channelNumberValues s o j + lastFrom 0 (tableAt file s.endian a (channelNumberValues s o j)) ≤
      o.dataSize) : ReadsWithin file s j o a := by
  unfold ReadsWithin objBytes
  have : o.dataType.bind typeSize = none := by rw [hty]; exact Tdms.Proofs.Bytes.typeSize_tyString
  rw [this]
  show SpanAt a o.dataSize _
  exact (spanAt_readValues_string_table file s.endian o a _
    (o.dataSize - 4 * channelNumberValues s o j) hty hmono (by omega)).mono (by omega)

theorem channelLoc_fst (s : Segment) (j : Nat) (p : Bytes) (os : List SegObj) (c c' : Nat) :
    (channelLoc s j p os c).map (·.1) = (channelLoc s j p os c').map (·.1) := by
  induction os generalizing c c' with
  | nil => rfl
  | cons o os ih =>
    unfold channelLoc
    split
    · rfl
    · split
      · exact ih _ _
      · split
        · exact ih _ _
        · rfl

theorem channelSpanS_len (s : Segment) (j : Nat) (p : Bytes) (os : List SegObj) (c c' : Nat) :
    (channelSpanS s j p os c).map (·.2) = (channelSpanS s j p os c').map (·.2) := by
  have := channelLoc_fst s j p os c c'
  unfold channelSpanS
  simp only [Option.map_map]
  have e : ((fun x : Nat × Nat => x.2) ∘ fun oa : SegObj × Nat => (oa.2, objBytes s j oa.1)) =
      (fun o : SegObj => objBytes s j o) ∘ (fun oa : SegObj × Nat => oa.1) := rfl
  rw [e, ← Option.map_map, ← Option.map_map, this]

theorem tr_readChannelChunkContiguousS (file : Bytes) (s : Segment) (j : Nat) (p : Bytes) (os : List SegObj)
    (cur : Nat) (hread : ∀ o a, channelLoc s j p os cur = some (o, a) → ReadsWithin file s j o a) :
    Tr (fun _ => True) (readChannelChunkContiguous file s j p os cur)
      (fun x => ∃ a len, channelSpanS s j p os cur = some (a, len) ∧ a ≤ x.1 ∧ x.1 + x.2 ≤ a + len)
      (((channelSpanS s j p os cur).map (·.2)).getD 0) (fun _ _ => True) := by
  induction os generalizing cur with
  | nil => unfold readChannelChunkContiguous; exact Tr.pure _ (fun _ _ => trivial)
  | cons o os ih =>
    unfold readChannelChunkContiguous channelSpanS
    unfold channelLoc at hread ⊢
    dsimp only
    by_cases hp : o.path = p
    · rw [if_pos hp] at hread
      rw [if_pos hp, if_pos hp]
      have hr : Tr (fun c => c = cur) (readValues file s.endian o (channelNumberValues s o j))
          (fun x => cur ≤ x.1 ∧ x.1 + x.2 ≤ cur + objBytes s j o) (objBytes s j o) (fun _ _ => True) :=
        hread o cur rfl
      simp only [Option.map_some, Option.getD_some]
      refine Tr.bind (B1 := 0) (B2 := objBytes s j o) (Q := fun _ c => c = cur)
        (Tr.fSeek cur rfl) (fun _ => ?_) (by omega)
      refine Tr.bind (B1 := objBytes s j o) (B2 := 0) (Q := fun _ _ => True)
        (hr.conseq (fun _ h => h) (fun x hx => ⟨cur, _, rfl, hx.1, hx.2⟩) (Nat.le_refl _) (fun _ _ _ => trivial))
        (fun vals => Tr.pure _ (fun _ _ => trivial)) (by omega)
    · rw [if_neg hp] at hread
      rw [if_neg hp, if_neg hp]
      by_cases hn : channelNumberValues s o j = o.numberValues
      · rw [if_pos hn] at hread
        rw [if_pos hn, if_pos hn]
        exact ih _ hread
      · rw [if_neg hn] at hread
        rw [if_neg hn, if_neg hn]
        cases hsz : o.dataType.bind typeSize with
        | some sz =>
          rw [hsz] at hread
          dsimp only
          exact ih _ hread
        | none =>
          dsimp only
          refine Tr.ite (fun _ => Tr.throw _) (fun _ => Tr.ite (fun _ => Tr.pure _ (fun _ _ => trivial)) (fun _ => Tr.throw _))

/-- where the reads of one chunk (that starts at `c`) of a contiguous segment may fall -/
def ChunkAllowedS (s : Segment) (d : List SegObj) (p : Bytes) (j c : Nat) (x : Nat × Nat) : Prop :=
  ∃ a len, channelSpanS s j p d c = some (a, len) ∧ a ≤ x.1 ∧ x.1 + x.2 ≤ a + len

/-- how many bytes one chunk may cost -/
def chunkBudgetS (s : Segment) (d : List SegObj) (p : Bytes) (j : Nat) : Nat :=
  ((channelSpanS s j p d 0).map (·.2)).getD 0

/-- the channel's values of chunk `j` (which starts at `c`) are read inside the channel's bytes -/
def ChunkReadable (file : Bytes) (s : Segment) (d : List SegObj) (p : Bytes) (j c : Nat) : Prop :=
  ∀ o a, channelLoc s j p d c = some (o, a) → ReadsWithin file s j o a

theorem tr_readChannelChunkAtS (file : Bytes) (s : Segment) (d : List SegObj) (p : Bytes) (j c : Nat)
    (hread : ChunkReadable file s d p j c) :
    Tr (fun c' => c' = c) (readChannelChunkAt file s .contiguous d p j) (ChunkAllowedS s d p j c)
      (chunkBudgetS s d p j) (fun _ _ => True) := by
  unfold readChannelChunkAt
  dsimp only
  refine Tr.bind (B1 := 0) (Q := fun cur _ => cur = c) (Tr.fTell (fun c' h => h)) (fun cur => ?_)
    (Nat.le_of_eq (Nat.zero_add _))
  apply Tr.of_forall_pos
  intro c₁ hc₁
  subst hc₁
  unfold chunkBudgetS
  rw [channelSpanS_len s j p d 0 cur]
  exact (tr_readChannelChunkContiguousS file s j p d cur hread).conseq (fun _ _ => trivial) (fun _ h => h)
    (Nat.le_refl _) (fun _ _ h => h)

/-- sum of the budgets of chunks `co + i .. co + i + fuel - 1` -/
def chunksBudgetS (s : Segment) (d : List SegObj) (p : Bytes) (co i fuel : Nat) : Nat :=
  ((List.range fuel).map fun t => chunkBudgetS s d p (co + (i + t))).sum

theorem chunksBudgetS_succ (s : Segment) (d : List SegObj) (p : Bytes) (co i fuel : Nat) :
    chunksBudgetS s d p co i (fuel + 1) = chunkBudgetS s d p (co + i) + chunksBudgetS s d p co (i + 1) fuel := by
  unfold chunksBudgetS
  rw [List.range_succ_eq_map, List.map_cons, List.sum_cons, List.map_map]
  congr 2
  apply List.map_congr_left
  intro t _
  simp only [Function.comp]
  congr 1
  omega

theorem tr_readChannelChunksFromS (file : Bytes) (s : Segment) (d : List SegObj) (p : Bytes)
    (cs initial co : Nat) (stop : Int) (fuel i : Nat)
    (hread : ∀ i', i ≤ i' → i' < i + fuel → ChunkReadable file s d p (co + i') (initial + i' * cs)) :
    Tr (fun c => c = initial + i * cs) (readChannelChunksFrom file s .contiguous d p cs initial co stop fuel i)
      (fun x => ∃ i', i ≤ i' ∧ i' < i + fuel ∧ ChunkAllowedS s d p (co + i') (initial + i' * cs) x)
      (chunksBudgetS s d p co i fuel) (fun _ _ => True) := by
  induction fuel generalizing i with
  | zero => unfold readChannelChunksFrom; exact Tr.pure _ (fun _ _ => trivial)
  | succ fuel ih =>
    unfold readChannelChunksFrom
    refine Tr.ite (fun _ => ?_) (fun _ => Tr.pure _ (fun _ _ => trivial))
    rw [chunksBudgetS_succ]
    refine Tr.bind (Q := fun _ _ => True)
      ((tr_readChannelChunkAtS file s d p (co + i) (initial + i * cs) (hread i (Nat.le_refl _) (by omega))).conseq
        (fun _ h => h) (fun x hx => ⟨i, Nat.le_refl _, by omega, hx⟩) (Nat.le_refl _) (fun _ _ h => h))
      (fun c => ?_) (Nat.le_refl _)
    refine Tr.bind (B1 := 0) (Q := fun _ c' => c' = initial + (i + 1) * cs) (Tr.fSeek _ rfl) (fun _ => ?_)
      (Nat.le_of_eq (Nat.zero_add _))
    refine Tr.bind (B2 := 0) (Q := fun _ _ => True)
      ((ih (i + 1) (fun i' h1 h2 => hread i' (by omega) (by omega))).conseq (fun _ h => h)
        (fun x ⟨i', h1, h2, h3⟩ => ⟨i', by omega, by omega, h3⟩) (Nat.le_refl _) (fun _ _ h => h))
      (fun _ => Tr.pure _ (fun _ _ => trivial)) (Nat.le_refl _)

/-! ## one segment -/

/-- where the data reads of `segReadChannel file s p co (some nc)` may fall, contiguous segment: inside the
    bytes of channel `p` of ONE planned chunk `co + i` -/
def SegDataAllowedS (s : Segment) (p : Bytes) (co : Nat) (nc : Int) (x : Nat × Nat) : Prop :=
  ∃ cs, chunkSize s.objects = .ok cs ∧
    ∃ i, i < nc.toNat ∧ ChunkAllowedS s (C19.dataObjs s) p (co + i) (s.dataPosition + cs * co + i * cs) x

def segBudgetS (s : Segment) (p : Bytes) (co : Nat) (nc : Int) : Nat :=
  chunksBudgetS s (C19.dataObjs s) p co 0 nc.toNat

/-- every planned chunk of the segment is readable inside the channel's bytes -/
def SegReadable (file : Bytes) (s : Segment) (p : Bytes) (co : Nat) (nc : Int) : Prop :=
  ∀ cs, chunkSize s.objects = .ok cs → ∀ i, i < nc.toNat →
    ChunkReadable file s (C19.dataObjs s) p (co + i) (s.dataPosition + cs * co + i * cs)

theorem segReadable_of_sizedIn (file : Bytes) (s : Segment) (p : Bytes) (co : Nat) (nc : Int)
    (hk : dataReaderKind s = .ok .contiguous) (h : SizedIn s p) : SegReadable file s p co nc := by
  intro cs _ i _ o a hloc
  have hmem : ∀ (os : List SegObj) (c : Nat), channelLoc s (co + i) p os c = some (o, a) → o ∈ os ∧ o.path = p := by
    intro os
    induction os with
    | nil => intro c h; cases h
    | cons o' os ih =>
      intro c h
      unfold channelLoc at h
      split at h
      · rename_i hp
        injection h with h
        simp only [Prod.mk.injEq] at h
        rw [← h.1]
        exact ⟨List.mem_cons_self .., hp⟩
      · split at h
        · have := ih _ h; exact ⟨List.mem_cons_of_mem _ this.1, this.2⟩
        · split at h
          · have := ih _ h; exact ⟨List.mem_cons_of_mem _ this.1, this.2⟩
          · cases h
  obtain ⟨h1, h2⟩ := hmem _ _ hloc
  obtain ⟨sz, hsz⟩ := h hk o h1 h2
  exact readsWithin_of_sized file s _ o a sz hsz

theorem tr_segReadBodyS (file : Bytes) (s : Segment) (p : Bytes) (hk : dataReaderKind s = .ok .contiguous)
    (co : Nat) (nc : Int) (hread : SegReadable file s p co nc)
    (pre : List ChanChunk) (cs : Nat) (hcs : chunkSize s.objects = .ok cs) :
    Tr (fun c => c = s.dataPosition + cs * co) (segReadBody file s p co (nc + co) pre cs)
      (SegDataAllowedS s p co nc) (segBudgetS s p co nc) (fun _ _ => True) := by
  have hstop : (nc + (co : Int) - (co : Int)).toNat = nc.toNat := by
    congr 1; omega
  unfold segReadBody
  dsimp only
  refine Tr.bind (B1 := 0) (Q := fun kind c => dataReaderKind s = .ok kind ∧ c = s.dataPosition + cs * co)
    (Tr.liftE _ (fun a c ha hc => ⟨ha, hc⟩)) (fun kind => ?_) (Nat.le_of_eq (Nat.zero_add _))
  refine Tr.bind (B1 := 0)
    (Q := fun initial c => dataReaderKind s = .ok kind ∧ initial = s.dataPosition + cs * co ∧ c = s.dataPosition + cs * co)
    (Tr.fTell (fun c hc => ⟨hc.1, hc.2, hc.2⟩)) (fun initial => ?_) (Nat.le_of_eq (Nat.zero_add _))
  apply Tr.of_forall_pos
  rintro c ⟨hkind, hinit, hc⟩
  subst hc
  rw [hk] at hkind
  injection hkind with hkind
  subst hkind
  subst hinit
  dsimp only
  rw [hstop]
  unfold segBudgetS
  refine Tr.bind (B2 := 0) (Q := fun _ _ => True)
    ((tr_readChannelChunksFromS file s (C19.dataObjs s) p cs _ co (nc + co) nc.toNat 0
        (fun i' _ h2 => hread cs hcs i' (by omega))).conseq
      (fun c hc => by rw [hc]; omega) (fun x ⟨i, _, h2, h3⟩ => ⟨cs, hcs, i, by omega, h3⟩) (Nat.le_refl _)
      (fun _ _ h => h))
    (fun _ => Tr.pure _ (fun _ _ => trivial)) (Nat.le_refl _)

theorem tr_segReadChannelS (file : Bytes) (s : Segment) (p : Bytes) (hk : dataReaderKind s = .ok .contiguous)
    (co : Nat) (nc : Int) (hread : SegReadable file s p co nc) :
    Tr (fun _ => True) (segReadChannel file s p co (some nc))
      (SegDataAllowedS s p co nc) (segBudgetS s p co nc) (fun _ _ => True) := by
  rw [segReadChannel_eq]
  refine Tr.bind (B1 := 0) (Q := fun _ c => c = s.dataPosition) (Tr.fSeek _ rfl) (fun _ => ?_)
    (Nat.le_of_eq (Nat.zero_add _))
  refine Tr.bind (B1 := 0) (Q := fun cs c => chunkSize s.objects = .ok cs ∧ c = s.dataPosition)
    (Tr.liftE _ (fun a c ha hc => ⟨ha, hc⟩)) (fun cs => ?_) (Nat.le_of_eq (Nat.zero_add _))
  apply Tr.of_forall_pos
  rintro c ⟨hcs, hc⟩
  subst hc
  refine Tr.bind (B1 := 0) (Q := fun _ c => c = s.dataPosition + cs * co) ?_
    (fun _ => tr_segReadBodyS file s p hk co nc hread _ cs hcs) (Nat.le_of_eq (Nat.zero_add _))
  refine Tr.ite (fun hco => ?_) (fun hco => Tr.pure _ (fun c hc => ?_))
  · refine Tr.bind (B1 := 0) (B2 := 0) (Q := fun cur _ => cur = s.dataPosition) (Tr.fTell (fun c hc => hc))
      (fun cur => ?_) (Nat.le_refl _)
    apply Tr.of_forall_pos
    intro c hc
    subst hc
    exact Tr.fSeek _ rfl
  · have : co = 0 := by omega
    subst this
    rw [hc]; simp

/-! ## every reader kind -/

/-- the data reads of one planned segment read: contiguous segments by `SegDataAllowedS` (fixed-width and
    string channels), interleaved and DAQmx segments as in C19 -/
def SegDataAllowedG (s : Segment) (p : Bytes) (co : Nat) (nc : Int) (x : Nat × Nat) : Prop :=
  (dataReaderKind s = .ok .contiguous ∧ SegDataAllowedS s p co nc x) ∨
  (dataReaderKind s ≠ .ok .contiguous ∧ SegDataAllowed s p co nc x)

def segBudgetG (s : Segment) (p : Bytes) (co : Nat) (nc : Int) : Nat :=
  match dataReaderKind s with
  | .ok .contiguous => segBudgetS s p co nc
  | _ => segBudget s p co nc

theorem tr_segReadChannelG (file : Bytes) (s : Segment) (p : Bytes) (co : Nat) (nc : Int)
    (hread : dataReaderKind s = .ok .contiguous → SegReadable file s p co nc) :
    Tr (fun _ => True) (segReadChannel file s p co (some nc))
      (SegDataAllowedG s p co nc) (segBudgetG s p co nc) (fun _ _ => True) := by
  by_cases hk : dataReaderKind s = .ok .contiguous
  · have hb : segBudgetG s p co nc = segBudgetS s p co nc := by unfold segBudgetG; rw [hk]
    rw [hb]
    exact (tr_segReadChannelS file s p hk co nc (hread hk)).conseq (fun _ h => h) (fun x hx => Or.inl ⟨hk, hx⟩)
      (Nat.le_refl _) (fun _ _ h => h)
  · have hb : segBudgetG s p co nc = segBudget s p co nc := by
      unfold segBudgetG
      split
      · rename_i h; exact absurd h hk
      · rfl
    rw [hb]
    exact (tr_segReadChannel file s p (fun h => absurd h hk) co nc).conseq (fun _ h => h)
      (fun x hx => Or.inr ⟨hk, hx⟩) (Nat.le_refl _) (fun _ _ h => h)

end Tdms.Proofs.C19S
