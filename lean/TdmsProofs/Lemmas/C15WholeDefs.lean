/-
  C15 for whole files: the re-encoding map.

  `withEndian f e` is the description `e` with the big-endian flag of segment `i` replaced by `f i`.
  Standard (contiguous / interleaved) segments store their values canonically in `SegEnc.chunks` (the encoder
  `storeValue`s them), so nothing else changes.  DAQmx segments store the raw rows of the buffers AS WRITTEN in the
  file, and the meaning of a row depends on the byte order (`scalerValue`); when the flag of a DAQmx segment
  changes, every row is re-encoded by `swapRow`: the bytes of every scaler field of the buffer are mirrored in
  place.  Core Lean only.
-/
import TdmsProofs.Properties.C01Layouts

namespace Tdms.Proofs.C15Whole

open Tdms Tdms.Generated Tdms.Model Tdms.Proofs.C01Layouts

/-- the byte field a scaler reads in a row of its buffer: (first byte, number of bytes) -/
def scField (dg : Bool) (s : ScalerEnc) : Nat × Nat :=
  (scalerByteOffset dg s, (typeSize ((daqmxTypeCode s.daqType).getD 0)).getD 0)

/-- the fields of buffer `b` read by the scalers of the data objects `d` -/
def bufFields (d : List ActiveObj) (b : Nat) : List (Nat × Nat) :=
  d.flatMap fun x => ((daqScalers x).filter (·.buffer = b)).map (scField (dgOf x))

def covers (g : Nat × Nat) (i : Nat) : Bool := decide (g.1 ≤ i) && decide (i < g.1 + g.2)

/-- byte `i` of the re-encoded row: the mirror image inside the (first) field that covers `i`, the byte itself
    when no field covers it -/
def swapByte (fields : List (Nat × Nat)) (row : Bytes) (i : Nat) : UInt8 :=
  match fields.find? (covers · i) with
  | some g => row.getD (g.1 + g.2 - 1 - (i - g.1)) 0
  | none => row.getD i 0

/-- a DAQmx row written in the other byte order: every scaler field mirrored in place -/
def swapRow (fields : List (Nat × Nat)) (row : Bytes) : Bytes :=
  (List.range row.length).map (swapByte fields row)

/-- one DAQmx chunk (buffer ↦ rows) written in the other byte order -/
def reencChunk (d : List ActiveObj) (bufs : List (List Bytes)) : List (List Bytes) :=
  bufs.mapIdx fun b rows => rows.map (swapRow (bufFields d b))

/-- the segment with big-endian flag `b`: unchanged when it has that flag already; otherwise the flag is set
    and, in a DAQmx segment, the raw rows are re-encoded -/
def weSeg (b : Bool) (s : SegEnc) (a : List ActiveObj) : SegEnc :=
  if b = s.big then s
  else { s with
    big := b,
    chunks := if (dataObjs a).any isDaqmxObj then s.chunks.map (reencChunk (dataObjs a)) else s.chunks }

def weSegs (f : Nat → Bool) : Nat → List SegEnc → List (List ActiveObj) → List SegEnc
  | i, s :: ss, a :: as => weSeg (f i) s a :: weSegs f (i + 1) ss as
  | _, _, _ => []

/-- **the same file with segment `i` written big-endian iff `f i`** -/
def withEndian (f : Nat → Bool) (e : FileEnc) : FileEnc :=
  match activeLists none [] e with
  | .ok acts => weSegs f 0 e acts
  | .error _ => e

/-- two fields are the same or do not overlap -/
def compat (g h : Nat × Nat) : Prop := g = h ∨ g.1 + g.2 ≤ h.1 ∨ h.1 + h.2 ≤ g.1

instance (g h : Nat × Nat) : Decidable (compat g h) := by unfold compat; infer_instance

/-- the scaler fields of every buffer are pairwise identical or disjoint -/
def FieldsCompatD (d : List ActiveObj) : Prop :=
  ∀ x ∈ d, ∀ s ∈ daqScalers x, ∀ y ∈ d, ∀ t ∈ daqScalers y, s.buffer = t.buffer →
    compat (scField (dgOf x) s) (scField (dgOf y) t)

def fieldsCompatDB (d : List ActiveObj) : Bool :=
  d.all fun x => (daqScalers x).all fun s => d.all fun y => (daqScalers y).all fun t =>
    !decide (s.buffer = t.buffer) || decide (compat (scField (dgOf x) s) (scField (dgOf y) t))

/-- **the extra hypothesis of the DAQmx part**: in every segment, the scaler fields of the data objects are
    pairwise identical or disjoint (no two scalers read partially overlapping bytes of a row) -/
def FieldsCompat (e : FileEnc) : Prop :=
  ∀ acts, activeLists none [] e = .ok acts → ∀ a ∈ acts, FieldsCompatD (dataObjs a)

def fieldsCompatB (e : FileEnc) : Bool :=
  match activeLists none [] e with
  | .ok acts => acts.all fun a => fieldsCompatDB (dataObjs a)
  | .error _ => true

end Tdms.Proofs.C15Whole
