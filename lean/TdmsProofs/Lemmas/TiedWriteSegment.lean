import TdmsProofs.Lemmas.TiedWriter
import TdmsProofs.Lemmas.TiedPrelude

/-!
# `TdmsWriter.write_segment` (generated, in three regions) and `TdmsSegment.__init__` against
`segmentObjects` / `typesStep` of `Tdms/Model/Writer.lean`
-/

namespace Tdms.Proofs.Tied2W

open Tdms Tdms.Generated Tdms.Generated.Code2 Tdms.Model.Writer

/-! ## a stable sort by a key with the three values 0, 1, 2 is the concatenation of the three filters -/

theorem insertByKey_skip {γ : Type} (k : Int) (x : γ) (L R : List (Int × γ)) (h : ∀ y ∈ L, y.1 ≤ k) :
    Py.insertByKey k x (L ++ R) = L ++ Py.insertByKey k x R := by
  induction L with
  | nil => rfl
  | cons y ys ih =>
    obtain ⟨ky, vy⟩ := y
    have hy : ky ≤ k := h (ky, vy) (by simp)
    have : ¬ k < ky := by omega
    simp only [List.cons_append, Py.insertByKey, this, if_false]
    rw [ih (fun z hz => h z (by simp [hz]))]

theorem insertByKey_head {γ : Type} (k : Int) (x : γ) (R : List (Int × γ)) (h : ∀ y ∈ R, k < y.1) :
    Py.insertByKey k x R = (k, x) :: R := by
  cases R with
  | nil => rfl
  | cons y ys =>
    obtain ⟨ky, vy⟩ := y
    have : k < ky := h (ky, vy) (by simp)
    simp [Py.insertByKey, this]

/-- the three-way partition of a list by a key in {0, 1, 2}, with the keys attached -/
def part3 {γ : Type} (k : γ → Nat) (l : List γ) : List (Int × γ) :=
  ((l.filter fun x => k x = 0) ++ (l.filter fun x => k x = 1) ++ (l.filter fun x => k x = 2)).map
    fun x => (((k x : Nat) : Int), x)

theorem insert_part3 {γ : Type} (k : γ → Nat) (hk : ∀ x, k x ≤ 2) (p : List γ) (x : γ) :
    Py.insertByKey ((k x : Nat) : Int) x (part3 k p) = part3 k (p ++ [x]) := by
  unfold part3
  simp only [List.filter_append, List.map_append]
  have h0 : ∀ y ∈ (p.filter fun x => k x = 0).map (fun x => (((k x : Nat) : Int), x)), y.1 = 0 := by
    intro y hy
    obtain ⟨z, hz, rfl⟩ := List.mem_map.mp hy
    have := (List.mem_filter.mp hz).2
    simp at this; simp [this]
  have h1 : ∀ y ∈ (p.filter fun x => k x = 1).map (fun x => (((k x : Nat) : Int), x)), y.1 = 1 := by
    intro y hy
    obtain ⟨z, hz, rfl⟩ := List.mem_map.mp hy
    have := (List.mem_filter.mp hz).2
    simp at this; simp [this]
  have h2 : ∀ y ∈ (p.filter fun x => k x = 2).map (fun x => (((k x : Nat) : Int), x)), y.1 = 2 := by
    intro y hy
    obtain ⟨z, hz, rfl⟩ := List.mem_map.mp hy
    have := (List.mem_filter.mp hz).2
    simp at this; simp [this]
  have hx := hk x
  rcases (by omega : k x = 0 ∨ k x = 1 ∨ k x = 2) with e | e | e
  · simp only [e, List.filter_cons, List.filter_nil, decide_true, if_true, Nat.zero_ne_one, decide_false,
      Bool.false_eq_true, if_false, List.append_nil, List.map_cons, List.map_nil, List.append_assoc,
      show (0 : Nat) ≠ 2 by omega]
    rw [insertByKey_skip _ _ _ _ (fun y hy => by rw [h0 y hy]; omega)]
    rw [insertByKey_head _ _ _ (fun y hy => by
      rcases List.mem_append.mp hy with hy | hy
      · rw [h1 y hy]; omega
      · rw [h2 y hy]; omega)]
    simp
  · simp only [e, List.filter_cons, List.filter_nil, decide_true, if_true, decide_false,
      Bool.false_eq_true, if_false, List.append_nil, List.map_cons, List.map_nil, List.append_assoc,
      show (1 : Nat) ≠ 0 by omega, show (1 : Nat) ≠ 2 by omega]
    rw [← List.append_assoc, insertByKey_skip _ _ _ _ (fun y hy => by
      rcases List.mem_append.mp hy with hy | hy
      · rw [h0 y hy]; omega
      · rw [h1 y hy]; omega)]
    rw [insertByKey_head _ _ _ (fun y hy => by rw [h2 y hy]; omega)]
    simp
  · simp only [e, List.filter_cons, List.filter_nil, decide_true, if_true, decide_false,
      Bool.false_eq_true, if_false, List.append_nil, List.map_cons, List.map_nil,
      show (2 : Nat) ≠ 0 by omega, show (2 : Nat) ≠ 1 by omega]
    have := insertByKey_skip ((2 : Nat) : Int) x
      ((p.filter fun x => k x = 0).map (fun x => (((k x : Nat) : Int), x)) ++
        ((p.filter fun x => k x = 1).map (fun x => (((k x : Nat) : Int), x)) ++
          (p.filter fun x => k x = 2).map (fun x => (((k x : Nat) : Int), x)))) [] (fun y hy => by
      rcases List.mem_append.mp hy with hy | hy
      · rw [h0 y hy]; omega
      · rcases List.mem_append.mp hy with hy | hy
        · rw [h1 y hy]; omega
        · rw [h2 y hy]; omega)
    simp only [List.append_nil, List.append_assoc] at this ⊢
    rw [this]
    simp [Py.insertByKey]

theorem foldl_part3 {γ : Type} (k : γ → Nat) (hk : ∀ x, k x ≤ 2) (r p : List γ) :
    (r.map fun x => (((k x : Nat) : Int), x)).foldl (fun acc kx => Py.insertByKey kx.1 kx.2 acc) (part3 k p) =
      part3 k (p ++ r) := by
  induction r generalizing p with
  | nil => simp
  | cons x xs ih =>
    simp only [List.map_cons, List.foldl_cons]
    rw [insert_part3 k hk p x, ih (p ++ [x])]
    simp

theorem mapE_ok' {α β : Type} (xs : List α) (f : α → Except Py.Exc β) (g : α → β) (h : ∀ x ∈ xs, f x = .ok (g x)) :
    Py.mapE xs f = .ok (xs.map g) := by
  induction xs with
  | nil => rfl
  | cons x xs ih =>
    simp only [Py.mapE, h x (by simp), ih (fun y hy => h y (by simp [hy])), List.map_cons]

/-- `xs.sort(key=…)` with keys in {0, 1, 2} -/
theorem sortByKeyE_part3 {γ : Type} (k : γ → Nat) (hk : ∀ x, k x ≤ 2) (key : γ → Except Py.Exc Int)
    (l : List γ) (hkey : ∀ x ∈ l, key x = .ok ((k x : Nat) : Int)) :
    Py.sortByKeyE l key =
      .ok ((l.filter fun x => k x = 0) ++ (l.filter fun x => k x = 1) ++ (l.filter fun x => k x = 2)) := by
  unfold Py.sortByKeyE
  rw [mapE_ok' l _ (fun x => (((k x : Nat) : Int), x)) (fun x hx => by simp [hkey x hx])]
  have := foldl_part3 k hk l []
  have e : part3 k ([] : List γ) = [] := rfl
  rw [e] at this
  simp only [this, List.nil_append, part3, List.map_map]
  congr 1
  have hid : ((fun x : Int × γ => x.2) ∘ fun x : γ => (((k x : Nat) : Int), x)) = id := rfl
  simp [hid]

/-! ## region 1 of `write_segment`: object completion and ordering -/

section Objects
variable (nameOf : Bytes → List Char)

/-- a group name as an element of the Python sets (`ObjectPath.group`: None-able) -/
def pyName (g : Bytes) : Option (List Char) := some (nameOf g)

/-- what `ObjectPath.from_string(o.path)` gives for a Python writer object (the round trip through the path string is C16) -/
def pyPathOf : WObject (List WProp) Bytes → ObjectPath
  | .RootObject _ => ⟨none, none⟩
  | .GroupObject o => ⟨o.group, none⟩
  | .ChannelObject o => ⟨some o.group, some o.channel⟩

theorem pyPathOf_pyWObj (o : WObj) : pyPathOf (pyWObj nameOf o) = pyPath nameOf o := by
  cases o <;> rfl

/-- a Python set `s` of group names holds the names of the model list `l` -/
def SetRepr (s : List (Option (List Char))) (l : List Bytes) : Prop := ∀ x, x ∈ s ↔ x ∈ l.map (pyName nameOf)

def segIncluded (objs : List WObj) : List Bytes := objs.filterMap fun o => match o with | .group g _ => some g | _ => none
def segRequired (objs : List WObj) : List Bytes := objs.filterMap fun o => match o with | .channel g _ _ _ => some g | _ => none
def segAddRoot (st : WriterState) (objs : List WObj) : Bool := !st.rootWritten && !(objs.any (·.key = 0))
def segToAdd (st : WriterState) (objs : List WObj) : List Bytes :=
  sortedSet ((segRequired objs).filter fun g => !((segIncluded objs).contains g) && !(st.groupsWritten.contains g))
def segAll (st : WriterState) (objs : List WObj) : List WObj :=
  objs ++ (if segAddRoot st objs then [WObj.root []] else []) ++ (segToAdd st objs).map fun g => WObj.group g []

theorem segmentObjects_eq (st : WriterState) (objs : List WObj) :
    segmentObjects st objs =
      (let sorted := stableSortByKey (segAll st objs)
       let paths := sorted.map (·.path)
       if paths.eraseDups.length ≠ paths.length then none
       else some (sorted, { rootWritten := true, groupsWritten := st.groupsWritten ++ segIncluded objs ++ segToAdd st objs })) := rfl

theorem included_names (objs : List WObj) :
    List.map (fun p : ObjectPath × WObject (List WProp) Bytes => p.1.group)
      (List.filter (fun p => ObjectPath.is_group p.1) (objs.map fun o => (pyPath nameOf o, pyWObj nameOf o))) =
      (segIncluded objs).map (pyName nameOf) := by
  induction objs with
  | nil => rfl
  | cons o os ih =>
    cases o <;> simp_all [segIncluded, pyPath, ObjectPath.is_group, pyName]

theorem required_names (objs : List WObj) :
    List.map (fun p : ObjectPath × WObject (List WProp) Bytes => p.1.group)
      (List.filter (fun p => ObjectPath.is_channel p.1) (objs.map fun o => (pyPath nameOf o, pyWObj nameOf o))) =
      (segRequired objs).map (pyName nameOf) := by
  induction objs with
  | nil => rfl
  | cons o os ih =>
    cases o <;> simp_all [segRequired, pyPath, ObjectPath.is_channel, pyName]

theorem any_root (objs : List WObj) :
    List.any (objs.map fun o => (pyPath nameOf o, pyWObj nameOf o)) (fun p => ObjectPath.is_root p.1) =
      objs.any (·.key = 0) := by
  induction objs with
  | nil => rfl
  | cons o os ih =>
    cases o <;> simp_all [pyPath, ObjectPath.is_root, WObj.key]

theorem key_of_pair (o : WObj) :
    Py.notNone (_path_ordering_key (pyPath nameOf o)) = .ok ((o.key : Nat) : Int) := by
  rw [path_ordering_key_eq]; rfl

theorem key_le_two (o : WObj) : o.key ≤ 2 := by cases o <;> simp [WObj.key]

/-- the sort key of a (path, object) pair as a natural number (`0` where `_path_ordering_key` returns None) -/
def pairKey (p : ObjectPath × WObject (List WProp) Bytes) : Nat := ((_path_ordering_key p.1).getD 0).toNat

theorem pairKey_le (p : ObjectPath × WObject (List WProp) Bytes) : pairKey p ≤ 2 := by
  obtain ⟨⟨g, c⟩, o⟩ := p
  cases g <;> cases c <;> simp [pairKey, _path_ordering_key, ObjectPath.is_root, ObjectPath.is_group, ObjectPath.is_channel]

theorem write_segment_objects_eq (hinj : ∀ a b, nameOf a = nameOf b → a = b)
    (sorted_names : List (Option (List Char)) → List (Option (List Char)))
    (hsorted : ∀ (s : List (Option (List Char))) (l : List Bytes), (∀ x, x ∈ s ↔ x ∈ l.map (pyName nameOf)) →
      sorted_names s = (sortedSet l).map (pyName nameOf))
    {Handle : Type} (w : TdmsWriter Handle) (st : WriterState) (objs : List WObj)
    (hroot : w._root_written = st.rootWritten) (hset : SetRepr nameOf w._groups_written st.groupsWritten) :
    ∃ inc, TdmsWriter.write_segment_objects pyPathOf sorted_names w (objs.map (pyWObj nameOf)) =
        .ok ((stableSortByKey (segAll st objs)).map (pyWObj nameOf), inc, (segToAdd st objs).map (pyName nameOf)) ∧
      SetRepr nameOf inc (segIncluded objs) := by
  unfold TdmsWriter.write_segment_objects
  have hpairs : List.map (fun o => (pyPathOf o, o)) (objs.map (pyWObj nameOf)) =
      objs.map fun o => (pyPath nameOf o, pyWObj nameOf o) := by
    simp [List.map_map, Function.comp, pyPathOf_pyWObj]
  simp only [hpairs, included_names, required_names, any_root, hroot]
  -- the set handed to `sorted`
  have hS : ∀ x, x ∈ Py.setDiff (Py.setDiff (Py.toSet ((segRequired objs).map (pyName nameOf)))
      (Py.toSet ((segIncluded objs).map (pyName nameOf)))) w._groups_written ↔
      x ∈ ((segRequired objs).filter fun g => !((segIncluded objs).contains g) && !(st.groupsWritten.contains g)).map
        (pyName nameOf) := by
    intro x
    simp only [Py.setDiff, Py.toSet, List.mem_filter, List.mem_eraseDups, List.mem_map, Bool.not_eq_true',
      List.contains_eq_mem, decide_eq_false_iff_not, Bool.and_eq_true, Bool.not_eq_eq_eq_not, Bool.not_true]
    constructor
    · rintro ⟨⟨⟨g, hg, rfl⟩, h2⟩, h3⟩
      refine ⟨g, ⟨hg, ?_, ?_⟩, rfl⟩
      · intro hc; exact h2 ⟨g, hc, rfl⟩
      · intro hc
        exact h3 ((hset _).mpr (List.mem_map.mpr ⟨g, hc, rfl⟩))
    · rintro ⟨g, ⟨hg, h2, h3⟩, rfl⟩
      refine ⟨⟨⟨g, hg, rfl⟩, ?_⟩, ?_⟩
      · rintro ⟨g', hg', he⟩
        have : g' = g := hinj _ _ (by simpa [pyName] using he)
        subst this; exact h2 hg'
      · intro hc
        obtain ⟨g', hg', he⟩ := List.mem_map.mp ((hset _).mp hc)
        have : g' = g := hinj _ _ (by simpa [pyName] using he)
        subst this; exact h3 hg'
  rw [hsorted _ _ hS]
  have htoadd : (sortedSet ((segRequired objs).filter fun g => !((segIncluded objs).contains g) &&
      !(st.groupsWritten.contains g))) = segToAdd st objs := rfl
  rw [htoadd]
  -- the completed list of pairs
  have hall : (let p0 := objs.map fun o => (pyPath nameOf o, pyWObj nameOf o)
      let p1 : List (ObjectPath × WObject (List WProp) Bytes) :=
        if ((!st.rootWritten) && !(objs.any (·.key = 0))) = true then
          p0 ++ [(({ group := none, channel := none } : ObjectPath), WObject.RootObject (RootObject.__init__ none))]
        else p0
      let p2 : List (ObjectPath × WObject (List WProp) Bytes) :=
        if (!((segToAdd st objs).map (pyName nameOf)).isEmpty) = true then
          p1 ++ List.map (fun g => (({ group := g, channel := none } : ObjectPath),
            WObject.GroupObject (GroupObject.__init__ g none))) ((segToAdd st objs).map (pyName nameOf))
        else p1
      p2) = (segAll st objs).map fun o => (pyPath nameOf o, pyWObj nameOf o) := by
    simp only [segAll, segAddRoot]
    have hg : List.map (fun g => (({ group := g, channel := none } : ObjectPath),
        (WObject.GroupObject (GroupObject.__init__ g none) : WObject (List WProp) Bytes)))
        ((segToAdd st objs).map (pyName nameOf)) =
        ((segToAdd st objs).map fun g => WObj.group g []).map fun o => (pyPath nameOf o, pyWObj nameOf o) := by
      simp [List.map_map, Function.comp, pyPath, pyWObj, pyName, GroupObject.__init__, propsOf]
    have hempty : ((segToAdd st objs).map (pyName nameOf)).isEmpty = true → segToAdd st objs = [] := by
      intro he
      exact List.map_eq_nil_iff.mp (List.isEmpty_iff.mp he)
    rcases Bool.eq_false_or_eq_true ((!st.rootWritten) && !(objs.any (·.key = 0))) with hr | hr <;>
      rcases Bool.eq_false_or_eq_true (((segToAdd st objs).map (pyName nameOf)).isEmpty) with he | he
    · simp [hr, he, hempty he, pyPath, pyWObj, RootObject.__init__, propsOf]
    · simp [hr, he, hg, pyPath, pyWObj, RootObject.__init__, propsOf]
    · simp [hr, he, hempty he]
    · simp [hr, he, hg]
  simp only at hall
  rw [hall]
  have hsort := sortByKeyE_part3 (pairKey) pairKey_le (fun p => Py.notNone (_path_ordering_key p.1))
    ((segAll st objs).map fun o => (pyPath nameOf o, pyWObj nameOf o)) (by
      intro x hx
      obtain ⟨o, _, rfl⟩ := List.mem_map.mp hx
      simp only [pairKey, path_ordering_key_eq, Option.getD_some, Int.toNat_natCast]
      rfl)
  rw [hsort]
  have hf : ∀ i : Nat, List.filter (fun x => decide (pairKey x = i))
      ((segAll st objs).map fun o => (pyPath nameOf o, pyWObj nameOf o)) =
      ((segAll st objs).filter fun o => decide (o.key = i)).map fun o => (pyPath nameOf o, pyWObj nameOf o) := by
    intro i
    rw [List.filter_map]
    congr 1
    apply List.filter_congr
    intro o _
    simp only [Function.comp, pairKey, path_ordering_key_eq]
    simp
  refine ⟨Py.toSet (List.map (pyName nameOf) (segIncluded objs)), ?_, ?_⟩
  · simp only [hf, ok_bind', pure_eq_ok', stableSortByKey, List.map_append, List.map_map]
    rfl
  · intro x
    simp only [Py.toSet, List.mem_eraseDups]

end Objects

/-! ## `TdmsSegment.__init__`: the duplicate path check -/

section Paths
variable (nameOf : Bytes → List Char) (enc : List Char → Bytes) (pstr : Bytes → List Char)

/-- `GroupObject.path` / `ChannelObject.path` (`str(ObjectPath(...))`, not translated): the path string of the model -/
def groupPath (o : GroupObject (List WProp)) : List Char :=
  match o.group with
  | some n => pstr (Model.Path.componentsToPathBytes [enc n])
  | none => []

def channelPath (o : ChannelObject Bytes (List WProp)) : List Char :=
  pstr (Model.Path.componentsToPathBytes [enc o.group, enc o.channel])

theorem path_dispatch (henc : ∀ b, enc (nameOf b) = b) (hroot : pstr (Model.Path.componentsToPathBytes []) = ['/']) (o : WObj) :
    WObject_path_0 (groupPath enc pstr) (channelPath enc pstr) (pyWObj nameOf o) = .ok (pstr o.path) := by
  cases o with
  | root p => simp [WObject_path_0, pyWObj, RootObject.path, WObj.path, hroot, pure_eq_ok']
  | group g p => simp [WObject_path_0, pyWObj, groupPath, WObj.path, henc, pure_eq_ok']
  | channel g c d p => simp [WObject_path_0, pyWObj, channelPath, WObj.path, henc, pure_eq_ok']

theorem eraseDups_map_inj {α β : Type} [BEq α] [LawfulBEq α] [BEq β] [LawfulBEq β] (f : α → β)
    (hf : ∀ x y, f x = f y → x = y) (n : Nat) : ∀ l : List α, l.length ≤ n → (l.map f).eraseDups = l.eraseDups.map f := by
  induction n with
  | zero =>
    intro l hl
    have : l = [] := List.eq_nil_of_length_eq_zero (by omega)
    subst this; simp
  | succ n ih =>
    intro l hl
    cases l with
    | nil => simp
    | cons a as =>
      rw [List.map_cons, List.eraseDups_cons, List.eraseDups_cons, List.map_cons]
      have e : (as.map f).filter (fun b => !b == f a) = (as.filter (fun b => !b == a)).map f := by
        rw [List.filter_map]
        congr 1
        apply List.filter_congr
        intro b _
        by_cases hb : b = a
        · subst hb; simp
        · have : f b ≠ f a := fun h => hb (hf _ _ h)
          have h1 : (f b == f a) = false := by simpa using this
          have h2 : (b == a) = false := by simpa using hb
          simp [h1, h2]
      rw [e, ih]
      have := List.length_filter_le (fun b => !b == a) as
      simp only [List.length_cons] at hl
      omega

theorem segment_init_eq (henc : ∀ b, enc (nameOf b) = b) (hroot : pstr (Model.Path.componentsToPathBytes []) = ['/'])
    (hinj : ∀ a b, pstr a = pstr b → a = b) (objs : List WObj) (version : Nat) (isIndex : Bool) :
    TdmsSegment.__init__ (groupPath enc pstr) (channelPath enc pstr) (objs.map (pyWObj nameOf)) isIndex (version : Int) =
      if ((objs.map (·.path)).eraseDups.length ≠ (objs.map (·.path)).length) then .error "ValueError"
      else .ok (pySegment nameOf objs version isIndex) := by
  unfold TdmsSegment.__init__
  have hm : Py.mapE (objs.map (pyWObj nameOf)) (fun obj => WObject_path_0 (groupPath enc pstr) (channelPath enc pstr) obj) =
      .ok ((objs.map (·.path)).map pstr) := by
    have := mapE_ok' (objs.map (pyWObj nameOf))
      (fun obj => WObject_path_0 (groupPath enc pstr) (channelPath enc pstr) obj)
    induction objs with
    | nil => rfl
    | cons o os ih =>
      simp only [List.map_cons, Py.mapE, path_dispatch nameOf enc pstr henc hroot o]
      rw [ih (mapE_ok' _ _)]
  have he := eraseDups_map_inj pstr hinj _ (objs.map (·.path)) (Nat.le_refl _)
  simp only [hm, ok_bind', Py.toSet, Py.len, he, List.length_map]
  by_cases hd : (objs.map (·.path)).eraseDups.length = objs.length
  · simp [hd, pySegment, pure_eq_ok']
  · have : ¬ (((objs.map (·.path)).eraseDups.length : Int) = (objs.length : Int)) := by
      intro h; apply hd; exact_mod_cast h
    simp [hd, this]
    rfl

end Paths

/-! ## region 2 of `write_segment`: one data type per channel -/

section Types
variable (nameOf : Bytes → List Char) (enc : List Char → Bytes) (pstr : Bytes → List Char)

theorem filterE_map_ok {α β : Type} (g : α → β) (xs : List α) (f : β → Except Py.Exc Bool) (p : α → Bool)
    (h : ∀ x ∈ xs, f (g x) = .ok (p x)) : Py.filterE (xs.map g) f = .ok ((xs.filter p).map g) := by
  induction xs with
  | nil => rfl
  | cons x xs ih =>
    simp only [List.map_cons, Py.filterE, h x (by simp), ih (fun y hy => h y (by simp [hy])), List.filter_cons]
    cases p x <;> rfl

theorem mapE_map_ok {α β γ : Type} (g : α → β) (xs : List α) (f : β → Except Py.Exc γ) (r : α → γ)
    (h : ∀ x ∈ xs, f (g x) = .ok (r x)) : Py.mapE (xs.map g) f = .ok (xs.map r) := by
  induction xs with
  | nil => rfl
  | cons x xs ih =>
    simp only [List.map_cons, Py.mapE, h x (by simp), ih (fun y hy => h y (by simp [hy]))]

/-- does the object carry typed data (`hasattr(o, 'data') and o.data_type != Void`) -/
def isTyped : WObj → Bool
  | .channel _ _ d _ => decide (d.ty ≠ tyVoid)
  | _ => false

def tyOf : WObj → Nat
  | .channel _ _ d _ => d.ty
  | _ => 0

theorem typedChannels_eq (objs : List WObj) :
    typedChannels objs = (objs.filter isTyped).map fun o => (o.path, tyOf o) := by
  induction objs with
  | nil => rfl
  | cons o os ih =>
    cases o with
    | root p => simpa [typedChannels, isTyped] using ih
    | group g p => simpa [typedChannels, isTyped] using ih
    | channel g c d p =>
      by_cases h : d.ty = tyVoid
      · simp only [typedChannels, List.filterMap_cons, h, if_true, isTyped, ne_eq, not_true_eq_false, decide_false,
          List.filter_cons, Bool.false_eq_true, if_false]
        exact ih
      · simp only [typedChannels, List.filterMap_cons, h, if_false, isTyped, ne_eq, not_false_eq_true, decide_true,
          List.filter_cons, if_true, List.map_cons, tyOf]
        congr 1

/-- `d[k] = v` then `d.get(k', x)` -/
theorem getD_set {κ ν : Type} [DecidableEq κ] (d : Py.Dict κ ν) (k k' : κ) (v x : ν) :
    Py.Dict.getD (Py.Dict.set d k v) k' x = if k' = k then v else Py.Dict.getD d k' x := by
  induction d with
  | nil =>
    by_cases h : k' = k
    · subst h; simp [Py.Dict.set, Py.Dict.getD]
    · have : ¬ k = k' := fun e => h e.symm
      simp [Py.Dict.set, Py.Dict.getD, h, this]
  | cons kv rest ih =>
    obtain ⟨k0, v0⟩ := kv
    by_cases h0 : k0 = k
    · subst h0
      by_cases h : k' = k0
      · subst h; simp [Py.Dict.set, Py.Dict.getD]
      · have : ¬ k0 = k' := fun e => h e.symm
        simp [Py.Dict.set, Py.Dict.getD, h, this]
    · by_cases h1 : k0 = k'
      · subst h1
        have : ¬ k0 = k := h0
        simp [Py.Dict.set, h0, Py.Dict.getD, this]
      · simp only [Py.Dict.set, h0, if_false]
        have e1 : Py.Dict.getD ((k0, v0) :: Py.Dict.set rest k v) k' x = Py.Dict.getD (Py.Dict.set rest k v) k' x := by
          simp [Py.Dict.getD, List.find?, h1]
        have e2 : Py.Dict.getD ((k0, v0) :: rest) k' x = Py.Dict.getD rest k' x := by
          simp [Py.Dict.getD, List.find?, h1]
        rw [e1, e2, ih]

theorem ofPairs_nodup_aux {κ ν : Type} [DecidableEq κ] (ps acc : Py.Dict κ ν)
    (h : ((acc ++ ps).map (·.1)).Nodup) :
    ps.foldl (fun d kv => Py.Dict.set d kv.1 kv.2) acc = acc ++ ps := by
  induction ps generalizing acc with
  | nil => simp
  | cons kv rest ih =>
    simp only [List.foldl_cons]
    have hnot : ∀ x ∈ acc, x.1 ≠ kv.1 := by
      intro x hx he
      have hnd := h
      simp only [List.map_append, List.map_cons] at hnd
      have := (List.nodup_append.mp hnd).2.2 x.1 (List.mem_map.mpr ⟨x, hx, rfl⟩) kv.1 (by simp)
      exact this he
    rw [Py.Dict.set_append_of_not_mem acc kv.1 kv.2 hnot]
    have : acc ++ [(kv.1, kv.2)] ++ rest = acc ++ kv :: rest := by simp
    rw [ih (acc ++ [(kv.1, kv.2)]) (by rw [this]; exact h), this]

/-- `dict(pairs)` of pairs with distinct keys -/
theorem ofPairs_nodup {κ ν : Type} [DecidableEq κ] (ps : Py.Dict κ ν) (h : (ps.map (·.1)).Nodup) :
    Py.Dict.ofPairs ps = ps := by
  unfold Py.Dict.ofPairs
  simpa using ofPairs_nodup_aux ps [] (by simpa using h)

/-- the written-types dict of the Python writer holds what the model's `seen` list says -/
def DictRepr (d : Py.Dict (List Char) Int) (seen : List (Bytes × Nat)) : Prop :=
  ∀ (p : Bytes) (t : Nat), Py.Dict.getD d (pstr p) (t : Int) = (((lookupType seen p).getD t : Nat) : Int)

/-- the written type of the channel (if any) is the type it is written with now -/
def typeOk (seen : List (Bytes × Nat)) (pt : Bytes × Nat) : Bool :=
  match lookupType seen pt.1 with
  | some t => t == pt.2
  | none => true

theorem typesStep_eq (seen : List (Bytes × Nat)) (objs : List WObj) :
    typesStep seen objs =
      if (typedChannels objs).all (typeOk seen) then some (typedChannels objs ++ seen) else none := rfl

theorem guard_loop (d : Py.Dict (List Char) Int) (seen : List (Bytes × Nat)) (hd : DictRepr pstr d seen)
    (f : (List Char × Int) → Unit → Except Py.Exc (Py.Step Unit))
    (hf : ∀ (p : Bytes) (t : Nat), f (pstr p, (t : Int)) () =
      if Py.Dict.getD d (pstr p) (t : Int) ≠ (t : Int) then .error "ValueError" else .ok (.next ()))
    (cts : List (Bytes × Nat)) :
    Py.forE (cts.map fun pt => (pstr pt.1, (pt.2 : Int))) () f =
      if cts.all (typeOk seen) then .ok () else .error "ValueError" := by
  induction cts with
  | nil => rfl
  | cons pt rest ih =>
    obtain ⟨p, t⟩ := pt
    simp only [List.map_cons, Py.forE, hf, hd p t, List.all_cons, typeOk]
    rcases Option.eq_none_or_eq_some (lookupType seen p) with hl | ⟨t0, hl⟩
    · simp only [hl, Option.getD_none, ne_eq, not_true_eq_false, if_false, Bool.true_and]
      exact ih
    · by_cases ht : t0 = t
      · subst ht
        simp only [hl, Option.getD_some, ne_eq, not_true_eq_false, if_false, beq_self_eq_true, Bool.true_and]
        exact ih
      · have : ¬ ((t0 : Int) = (t : Int)) := by intro h; apply ht; exact_mod_cast h
        simp [hl, this, ht]

end Types

section TypesMain
variable (nameOf : Bytes → List Char) (enc : List Char → Bytes) (pstr : Bytes → List Char)

/-- the entries of the Python dict `channel_types` of a segment -/
def pyTypes (cts : List (Bytes × Nat)) : Py.Dict (List Char) Int := cts.map fun pt => (pstr pt.1, (pt.2 : Int))

theorem write_segment_types_eq (henc : ∀ b, enc (nameOf b) = b)
    (hroot : pstr (Model.Path.componentsToPathBytes []) = ['/']) (hinj : ∀ a b, pstr a = pstr b → a = b)
    {Handle : Type} (w : TdmsWriter Handle) (seen : List (Bytes × Nat)) (hd : DictRepr pstr w._channel_types seen)
    (objs : List WObj) (hnd : ((typedChannels objs).map (·.1)).Nodup) :
    TdmsWriter.write_segment_types (groupPath enc pstr) (channelPath enc pstr) w (objs.map (pyWObj nameOf)) =
      match typesStep seen objs with
      | some _ => .ok (pyTypes pstr (typedChannels objs))
      | none => .error "ValueError" := by
  unfold TdmsWriter.write_segment_types
  rw [filterE_map_ok (pyWObj nameOf) objs _ isTyped (by
    intro o _
    cases o with
    | root p => rfl
    | group g p => rfl
    | channel g c d p =>
      simp only [pyWObj, WObject.data?, WObject.data_type?, Option.isSome_some, if_true, Py.attr, ok_bind', pure_eq_ok',
        isTyped]
      congr 1
      have : (((d.ty : Nat) : Int) ≠ Void.enum_value) ↔ d.ty ≠ tyVoid := by
        constructor
        · intro h e; apply h; rw [e]; rfl
        · intro h e; apply h
          have : ((d.ty : Nat) : Int) = ((tyVoid : Nat) : Int) := e
          exact_mod_cast this
      exact decide_eq_decide.mpr this)]
  simp only [ok_bind']
  rw [mapE_map_ok (pyWObj nameOf) (objs.filter isTyped) _ (fun o => (pstr o.path, ((tyOf o : Nat) : Int))) (by
    intro o ho
    have hty := (List.mem_filter.mp ho).2
    cases o with
    | root p => simp [isTyped] at hty
    | group g p => simp [isTyped] at hty
    | channel g c d p =>
      have := path_dispatch nameOf enc pstr henc hroot (WObj.channel g c d p)
      simp only [pyWObj] at this
      simp only [this, ok_bind', pyWObj, WObject.data_type?, Py.attr, pure_eq_ok', tyOf])]
  have hpairs : (objs.filter isTyped).map (fun o => (pstr o.path, ((tyOf o : Nat) : Int))) =
      pyTypes pstr (typedChannels objs) := by
    rw [typedChannels_eq]; simp [pyTypes, List.map_map, Function.comp]
  simp only [ok_bind', hpairs]
  have hnd' : ((pyTypes pstr (typedChannels objs)).map (·.1)).Nodup := by
    have : (pyTypes pstr (typedChannels objs)).map (·.1) = ((typedChannels objs).map (·.1)).map pstr := by
      simp [pyTypes, List.map_map, Function.comp]
    rw [this]
    exact List.Pairwise.map pstr (fun a b h e => h (hinj a b e)) hnd
  rw [ofPairs_nodup _ hnd']
  have hloop := guard_loop pstr w._channel_types seen hd
    (fun x (_ : Unit) => if Py.Dict.getD w._channel_types x.1 x.2 ≠ x.2 then throw "ValueError" else pure (Py.Step.next ()))
    (fun p t => rfl) (typedChannels objs)
  by_cases hall : (typedChannels objs).all (typeOk seen) = true
  · have hmodel : typesStep seen objs = some (typedChannels objs ++ seen) := by
      rw [typesStep_eq, if_pos hall]
    simp only [hall, if_true] at hloop
    have : Py.forE (pyTypes pstr (typedChannels objs)) () (fun x (_ : Unit) =>
        if Py.Dict.getD w._channel_types x.1 x.2 ≠ x.2 then throw "ValueError" else pure (Py.Step.next ())) = .ok () := hloop
    rw [hmodel]
    erw [this]
    rfl
  · have hmodel : typesStep seen objs = none := by
      rw [typesStep_eq, if_neg hall]
    simp only [hall, Bool.false_eq_true, if_false] at hloop
    have : Py.forE (pyTypes pstr (typedChannels objs)) () (fun x (_ : Unit) =>
        if Py.Dict.getD w._channel_types x.1 x.2 ≠ x.2 then throw "ValueError" else pure (Py.Step.next ())) =
        .error "ValueError" := hloop
    rw [hmodel]
    erw [this]
    rfl

end TypesMain

/-! ## region 3 of `write_segment`: the writer state after the segment -/

section State
variable (nameOf : Bytes → List Char) (pstr : Bytes → List Char)

theorem mem_setUnion {α : Type} [BEq α] [LawfulBEq α] (s xs : List α) (x : α) :
    x ∈ Py.setUnion s xs ↔ x ∈ s ∨ x ∈ xs := by
  simp only [Py.setUnion, List.mem_append, List.mem_filter, List.mem_eraseDups, Bool.not_eq_true',
    List.contains_eq_mem, decide_eq_false_iff_not]
  constructor
  · rintro (h | ⟨h, _⟩)
    · exact Or.inl h
    · exact Or.inr h
  · rintro (h | h)
    · exact Or.inl h
    · by_cases hs : x ∈ s
      · exact Or.inl hs
      · exact Or.inr ⟨h, hs⟩

theorem getD_update_aux {κ ν : Type} [DecidableEq κ] (e d : Py.Dict κ ν) (h : (e.map (·.1)).Nodup) (k : κ) (x : ν) :
    Py.Dict.getD (e.foldl (fun acc kv => Py.Dict.set acc kv.1 kv.2) d) k x =
      match e.find? (fun kv => decide (kv.1 = k)) with
      | some kv => kv.2
      | none => Py.Dict.getD d k x := by
  induction e generalizing d with
  | nil => rfl
  | cons kv rest ih =>
    simp only [List.map_cons, List.nodup_cons] at h
    simp only [List.foldl_cons, List.find?_cons]
    rw [ih (Py.Dict.set d kv.1 kv.2) h.2, getD_set]
    by_cases hk : kv.1 = k
    · subst hk
      have : rest.find? (fun x => decide (x.1 = kv.1)) = none := by
        apply List.find?_eq_none.mpr
        intro y hy hyk
        apply h.1
        have : y.1 = kv.1 := by simpa using hyk
        rw [← this]
        exact List.mem_map.mpr ⟨y, hy, rfl⟩
      simp [this]
    · have hk' : ¬ k = kv.1 := fun e => hk e.symm
      simp only [hk, decide_false, hk', if_false]

theorem state_types (hinj : ∀ a b, pstr a = pstr b → a = b) (d : Py.Dict (List Char) Int) (seen cts : List (Bytes × Nat))
    (hd : DictRepr pstr d seen) (hnd : (cts.map (·.1)).Nodup) :
    DictRepr pstr (Py.Dict.update d (pyTypes pstr cts)) (cts ++ seen) := by
  intro p t
  unfold Py.Dict.update
  have hnd' : ((pyTypes pstr cts).map (·.1)).Nodup := by
    have : (pyTypes pstr cts).map (·.1) = (cts.map (·.1)).map pstr := by
      simp [pyTypes, List.map_map, Function.comp]
    rw [this]
    exact List.Pairwise.map pstr (fun a b h e => h (hinj a b e)) hnd
  rw [getD_update_aux _ _ hnd']
  have hfind : (pyTypes pstr cts).find? (fun kv => decide (kv.1 = pstr p)) =
      (cts.find? (fun pt => decide (pt.1 = p))).map fun pt => (pstr pt.1, (pt.2 : Int)) := by
    unfold pyTypes
    rw [List.find?_map]
    congr 1
    have : ((fun kv : List Char × Int => decide (kv.1 = pstr p)) ∘ fun pt : Bytes × Nat => (pstr pt.1, (pt.2 : Int))) =
        fun pt => decide (pt.1 = p) := by
      funext pt
      simp only [Function.comp]
      by_cases h : pt.1 = p
      · simp [h]
      · have : ¬ pstr pt.1 = pstr p := fun e => h (hinj _ _ e)
        simp [h, this]
    rw [this]
  rw [hfind]
  simp only [lookupType, List.find?_append]
  cases hc : cts.find? (fun pt => decide (pt.1 = p)) with
  | some pt => simp
  | none =>
    have := hd p t
    simpa [lookupType] using this

theorem write_segment_state_eq (hinj : ∀ a b, pstr a = pstr b → a = b) {Handle : Type} (w : TdmsWriter Handle)
    (st : WriterState) (seen : List (Bytes × Nat)) (inc : List (Option (List Char))) (incL addL : List Bytes)
    (cts : List (Bytes × Nat)) (hset : SetRepr nameOf w._groups_written st.groupsWritten)
    (hinc : SetRepr nameOf inc incL) (hd : DictRepr pstr w._channel_types seen) (hnd : (cts.map (·.1)).Nodup) :
    let w' := TdmsWriter.write_segment_state w inc (addL.map (pyName nameOf)) (pyTypes pstr cts)
    w'._root_written = true ∧
    SetRepr nameOf w'._groups_written (st.groupsWritten ++ incL ++ addL) ∧
    DictRepr pstr w'._channel_types (cts ++ seen) ∧
    w'._file = w._file ∧ w'._index_file = w._index_file ∧ w'._tdms_version = w._tdms_version := by
  simp only [TdmsWriter.write_segment_state]
  refine ⟨trivial, ?_, state_types pstr hinj _ _ _ hd hnd, trivial, trivial, trivial⟩
  intro x
  simp only [mem_setUnion, List.map_append, List.mem_append]
  rw [hset x, hinc x]

end State

end Tdms.Proofs.Tied2W
