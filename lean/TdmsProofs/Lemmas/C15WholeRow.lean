/-
  C15 for whole files: a re-encoded DAQmx row carries, in the other byte order, the same scaler values.
  Core Lean only.
-/
import TdmsProofs.Lemmas.C15WholeDefs

namespace Tdms.Proofs.C15Whole

open Tdms Tdms.Generated Tdms.Model Tdms.Proofs.C01Layouts Tdms.Proofs.Bytes

@[simp] theorem swapRow_length (fields : List (Nat × Nat)) (row : Bytes) :
    (swapRow fields row).length = row.length := by simp [swapRow]

theorem swapRow_nil_fields (row : Bytes) : swapRow [] row = row := by
  apply List.ext_getElem
  · simp
  · intro i h1 h2
    simp [swapRow, swapByte, List.getD_eq_getElem?_getD, List.getElem?_eq_getElem h2]

/-- the first field covering a byte of `g` is `g` itself when all fields are compatible with `g` -/
theorem find_covers {fields : List (Nat × Nat)} {g : Nat × Nat} (hg : g ∈ fields)
    (hc : ∀ h ∈ fields, compat h g) {i : Nat} (h1 : g.1 ≤ i) (h2 : i < g.1 + g.2) :
    fields.find? (covers · i) = some g := by
  cases hf : fields.find? (covers · i) with
  | none =>
    have := List.find?_eq_none.mp hf g hg
    simp [covers, h1, h2] at this
  | some h =>
    have hm := List.mem_of_find?_eq_some hf
    have hp := List.find?_some hf
    simp only [covers, Bool.and_eq_true, decide_eq_true_eq] at hp
    rcases hc h hm with rfl | hd | hd
    · rfl
    · omega
    · omega

/-- **the bytes of a field are mirrored** -/
theorem swapRow_field {fields : List (Nat × Nat)} {g : Nat × Nat} (hg : g ∈ fields)
    (hc : ∀ h ∈ fields, compat h g) (row : Bytes) (hlen : g.1 + g.2 ≤ row.length) :
    ((swapRow fields row).drop g.1).take g.2 = ((row.drop g.1).take g.2).reverse := by
  apply List.ext_getElem
  · simp
  · intro j h1 h2
    simp only [List.length_take, List.length_drop, swapRow_length] at h1
    have hj : j < g.2 := by omega
    simp only [List.getElem_take, List.getElem_drop, List.getElem_reverse, List.length_take, List.length_drop]
    simp only [swapRow, List.getElem_map, List.getElem_range, swapByte]
    rw [find_covers hg hc (by omega) (by omega)]
    simp only
    rw [List.getD_eq_getElem?_getD, List.getElem?_eq_getElem (by omega)]
    simp only [Option.getD_some]
    congr 1
    omega

/-! ## scaler values -/

def flipE : Endian → Endian
  | .little => .big
  | .big => .little

/-- every DAQmx scaler type is a single atom: its value is byte-swapped as a whole -/
theorem daqmx_types_single : ∀ p ∈ daqmxTypes, ∀ sz, typeSize p.2 = some sz → typeAtoms p.2 = [sz] := by decide

theorem daqmxTypeCode_mem {dt t : Nat} (h : daqmxTypeCode dt = some t) : ∃ p ∈ daqmxTypes, p.2 = t := by
  unfold daqmxTypeCode at h
  cases hf : daqmxTypes.find? (·.1 = dt) with
  | none => rw [hf] at h; cases h
  | some p =>
    rw [hf] at h
    simp only [Option.map_some, Option.some.injEq] at h
    exact ⟨p, List.mem_of_find?_eq_some hf, h⟩

theorem scField_eq {dg : Bool} {s : ScalerEnc} {t sz : Nat} (ht : daqmxTypeCode s.daqType = some t)
    (hsz : typeSize t = some sz) : scField dg s = (scalerByteOffset dg s, sz) := by
  simp [scField, ht, hsz]

/-- **the re-encoded row read in the other byte order gives the same canonical scaler value** -/
theorem scalerValue_swapRow {fields : List (Nat × Nat)} (e : Endian) (dg : Bool) (s : ScalerEnc) {t sz : Nat}
    (ht : daqmxTypeCode s.daqType = some t) (hsz : typeSize t = some sz) (hg : scField dg s ∈ fields)
    (hc : ∀ h ∈ fields, compat h (scField dg s)) (row : Bytes)
    (hlen : scalerByteOffset dg s + sz ≤ row.length) :
    scalerValue (flipE e) dg s (swapRow fields row) = scalerValue e dg s row := by
  obtain ⟨p, hp, rfl⟩ := daqmxTypeCode_mem ht
  have hat := daqmx_types_single p hp sz hsz
  rw [scField_eq ht hsz] at hg hc
  have hfield := swapRow_field hg hc row hlen
  simp only at hfield
  have hrl : ((row.drop (scalerByteOffset dg s)).take sz).length = sz := by simp; omega
  generalize hraw : (row.drop (scalerByteOffset dg s)).take sz = raw at hfield hrl
  unfold scalerValue
  simp only [ht, hsz, Option.getD_some, hfield, hraw, hat]
  subst hrl
  have h1 : raw.reverse.take raw.length = raw.reverse := List.take_of_length_le (by simp)
  cases dg <;> cases e <;> simp [flipE, dec, decBE, swapAtoms, h1]

end Tdms.Proofs.C15Whole
