import TdmsProofs.Lemmas.C05Index

/-! # C05: chunk locality for well-formed files without DAQmx data -/

namespace Tdms.Proofs.C05

open Tdms Tdms.Model Tdms.Generated Tdms.Proofs.C19

/-- `chunk_size` of channel `p` in segment `s` as `read_channel_chunk_for_index` computes it -/
def segCs (s : Segment) (p : Bytes) : Nat :=
  match getSegmentObject s p with
  | some o => o.numberValues
  | none => 0

/-- `segment_start_index` of segment `segIndex` -/
def segStartOf (f : OpenFile) (p : Bytes) (segIndex : Nat) : Nat :=
  if segIndex = (buildIndex f.segments p).firstSegment then 0
  else (buildIndex f.segments p).offsets.getD (segIndex - (buildIndex f.segments p).firstSegment - 1) 0

/-- `read_channel_chunk_for_index` only uses the index through the segment and chunk it selects -/
def chunkForPlan (f : OpenFile) (p : Bytes) (segIndex : Nat) (ci : Segment → Nat) : F (ChanChunk × Nat) :=
  match f.segments[segIndex]? with
  | none => throw .other
  | some s => do
    if segCs s p = 0 then throw .other
    verifySegmentStart f.file s
    let chunks ← segReadChannel f.file s p (ci s) (some 1)
    match chunks.head? with
    | some c => pure (c, segStartOf f p segIndex + ci s * segCs s p)
    | none => throw .other

theorem readChannelChunkForIndex_eq (f : OpenFile) (p : Bytes) (j : Nat) :
    readChannelChunkForIndex f p j = chunkForPlan f p (indexSegIdx f p j) (indexChunkIdx f p j) := by
  rfl

/-- same segment and same chunk: same action -/
theorem readChannelChunkForIndex_congr (f : OpenFile) (p : Bytes) (j j' : Nat)
    (hseg : indexSegIdx f p j = indexSegIdx f p j')
    (hci : ∀ s, f.segments[indexSegIdx f p j]? = some s → indexChunkIdx f p j s = indexChunkIdx f p j' s) :
    readChannelChunkForIndex f p j = readChannelChunkForIndex f p j' := by
  rw [readChannelChunkForIndex_eq, readChannelChunkForIndex_eq, ← hseg]
  unfold chunkForPlan
  cases hs : f.segments[indexSegIdx f p j]? with
  | none => rfl
  | some s => dsimp only; rw [hci s hs]

/-- what a successful `read_channel_chunk_for_index` tells us -/
theorem post_chunkForPlan (f : OpenFile) (p : Bytes) (k : Nat) (ci : Segment → Nat)
    (hnd : ∀ s ∈ f.segments, dataReaderKind s ≠ .ok .daqmx)
    (hov : ∀ s ∈ f.segments, dataReaderKind s = .ok .interleaved → s.override = none) :
    Post (chunkForPlan f p k ci) (fun r => ∃ s, f.segments[k]? = some s ∧ segCs s p ≠ 0 ∧
      r.2 = segStartOf f p k + ci s * segCs s p ∧ dataLen r.1 ≤ chanCap s (ci s) p (C19.dataObjs s)) := by
  unfold chunkForPlan
  cases hs : f.segments[k]? with
  | none => exact Post.throw _
  | some s =>
    dsimp only
    have hmem : s ∈ f.segments := List.mem_of_getElem? hs
    refine Post.ite (fun _ => ?_) (fun h0 => ?_)
    · rw [throw_bind_F]; exact Post.throw _
    · refine Post.bind (Post.true _) (fun _ _ => ?_)
      refine Post.bind (post_segReadChannel f.file s p (ci s) (hnd s hmem) (hov s hmem)) (fun chunks hch => ?_)
      split
      · rename_i c hc
        exact Post.pure _ ⟨s, rfl, h0, rfl, hch c hc⟩
      · exact Post.throw _

theorem getSegmentObject_some {s : Segment} {p : Bytes} {o : SegObj} (h : getSegmentObject s p = some o) :
    o ∈ s.objects ∧ o.path = p := by
  unfold getSegmentObject existingIndex at h
  dsimp only at h
  cases hl : ((List.range s.objects.length).filter fun i => (s.objects[i]?.map (·.path)) = some p).getLast? with
  | none => rw [hl] at h; cases h
  | some i =>
    rw [hl] at h
    have h : s.objects[i]? = some o := h
    have hi := List.mem_of_getLast? hl
    rw [List.mem_filter] at hi
    have hp := hi.2
    rw [h] at hp
    exact ⟨List.mem_of_getElem? h, by simpa using hp⟩

/-- the last offset of the index -/
def indexTotal (f : OpenFile) (p : Bytes) : Nat := (buildIndex f.segments p).offsets.getLast?.getD 0

/-- well-formedness needed for chunk locality of index reads -/
structure IndexWF (f : OpenFile) : Prop where
  noDaqmx : ∀ s ∈ f.segments, dataReaderKind s ≠ .ok .daqmx
  interleavedFull : ∀ s ∈ f.segments, dataReaderKind s = .ok .interleaved → s.override = none
  uniquePaths : ∀ s ∈ f.segments, ∀ o ∈ s.objects, ∀ o' ∈ s.objects, o.path = o'.path → o = o'
  override_le : ∀ s ∈ f.segments, ∀ ov, s.override = some ov → ∀ o ∈ s.objects, overrideGet ov o.path ≤ o.numberValues
  override_chunks : ∀ s ∈ f.segments, ∀ ov, s.override = some ov → 1 ≤ s.numChunks
  numValues_le : ∀ p, chanLen f p ≤ indexTotal f p

/-- pure arithmetic: the chunk `q = x / cs` of a segment with `nsv` values fits into the segment -/
theorem chunk_fits (cs N x nsv cap : Nat) (ov : Option Nat) (hcs : 0 < cs) (hx : x < nsv)
    (hnsv : nsv = ov.elim (cs * N) (fun v => cs * (N - 1) + v))
    (hov : ∀ v, ov = some v → v ≤ cs ∧ 1 ≤ N)
    (hcap : cap = ov.elim cs (fun v => if x / cs + 1 = N then v else cs)) :
    cap ≤ cs ∧ x / cs * cs + cap ≤ nsv := by
  have hdm := Nat.div_add_mod x cs
  have hmod := Nat.mod_lt x hcs
  rw [Nat.mul_comm (x / cs) cs]
  generalize hq : x / cs = q at *
  cases ov with
  | none =>
    simp only [Option.elim] at hnsv hcap
    rw [hcap]
    refine ⟨Nat.le_refl _, ?_⟩
    have hlt : cs * q < cs * N := by omega
    have hqN : q < N := Nat.lt_of_mul_lt_mul_left hlt
    have : cs * (q + 1) ≤ cs * N := Nat.mul_le_mul_left _ hqN
    rw [Nat.mul_add] at this
    omega
  | some v =>
    simp only [Option.elim] at hnsv hcap
    obtain ⟨hv, hN⟩ := hov v rfl
    by_cases hlast : q + 1 = N
    · rw [if_pos hlast] at hcap
      rw [hcap]
      have : N - 1 = q := by omega
      rw [this] at hnsv
      exact ⟨hv, by omega⟩
    · rw [if_neg hlast] at hcap
      rw [hcap]
      refine ⟨Nat.le_refl _, ?_⟩
      have hN' : cs * N = cs * (N - 1) + cs := by
        have : N = (N - 1) + 1 := by omega
        rw [this, Nat.mul_add]; simp
      have hlt : cs * q < cs * N := by omega
      have hqN : q < N := Nat.lt_of_mul_lt_mul_left hlt
      have : cs * (q + 1) ≤ cs * (N - 1) := Nat.mul_le_mul_left _ (by omega)
      rw [Nat.mul_add] at this
      omega

theorem segStartOf_add (f : OpenFile) (p : Bytes) (k : Nat) :
    segStartOf f p ((buildIndex f.segments p).firstSegment + k) =
      if k = 0 then 0 else (buildIndex f.segments p).offsets.getD (k - 1) 0 := by
  unfold segStartOf
  by_cases hk : k = 0
  · subst hk; simp
  · have h1 : ¬ (buildIndex f.segments p).firstSegment + k = (buildIndex f.segments p).firstSegment := by omega
    have h2 : (buildIndex f.segments p).firstSegment + k - (buildIndex f.segments p).firstSegment - 1 = k - 1 := by omega
    rw [if_neg h1, if_neg hk, h2]

/-- where a valid index falls in the channel index -/
theorem index_facts (f : OpenFile) (p : Bytes) (j₀ : Nat) (hj : j₀ < indexTotal f p) :
    searchRight (buildIndex f.segments p).offsets j₀ < (buildIndex f.segments p).offsets.length ∧
    segStartOf f p (indexSegIdx f p j₀) ≤ j₀ ∧
    j₀ < (buildIndex f.segments p).offsets.getD (searchRight (buildIndex f.segments p).offsets j₀) 0 ∧
    (buildIndex f.segments p).offsets.getD (searchRight (buildIndex f.segments p).offsets j₀) 0 =
      segStartOf f p (indexSegIdx f p j₀) + (f.segments.map (nvOf p)).getD (indexSegIdx f p j₀) 0 := by
  obtain ⟨h1, h2, h3⟩ := searchRight_spec (buildIndex f.segments p).offsets j₀
  have hk : searchRight (buildIndex f.segments p).offsets j₀ < (buildIndex f.segments p).offsets.length := by
    rcases Nat.lt_or_ge (searchRight (buildIndex f.segments p).offsets j₀) (buildIndex f.segments p).offsets.length with h | h
    · exact h
    · have heq : searchRight (buildIndex f.segments p).offsets j₀ = (buildIndex f.segments p).offsets.length := by omega
      unfold indexTotal at hj
      rw [List.getLast?_eq_getElem?] at hj
      by_cases hlen : (buildIndex f.segments p).offsets.length = 0
      · rw [List.getElem?_eq_none (by omega)] at hj
        simp at hj
      · have := h2 ((buildIndex f.segments p).offsets.length - 1) (by omega)
        rw [List.getD_eq_getElem?_getD] at this
        omega
  have hidx : indexSegIdx f p j₀ = (buildIndex f.segments p).firstSegment + searchRight (buildIndex f.segments p).offsets j₀ := rfl
  refine ⟨hk, ?_, h3 hk, ?_⟩
  · rw [hidx, segStartOf_add]
    split
    · exact Nat.zero_le _
    · exact h2 _ (by omega)
  · rw [hidx, segStartOf_add]
    exact buildIndex_offsets f.segments p _ hk

theorem indexChunkIdx_eq (f : OpenFile) (p : Bytes) (j : Nat) (s : Segment) :
    indexChunkIdx f p j s = (j - segStartOf f p (indexSegIdx f p j)) / segCs s p := rfl

/-- **Chunk locality** for well-formed files without DAQmx data. -/
theorem chunkLocal_of_wf (f : OpenFile) (hwf : IndexWF f) : ChunkLocal f := by
  intro p j₀ chunk off hj₀ hat j hlo hhi
  have hj₀' : j₀ < indexTotal f p := Nat.lt_of_lt_of_le hj₀ (hwf.numValues_le p)
  -- what the successful read at `j₀` tells us
  obtain ⟨io', hrun⟩ := hat {}
  rw [readChannelChunkForIndex_eq] at hrun
  obtain ⟨s, hs, hcs, hoff, hL⟩ :=
    post_chunkForPlan f p _ _ hwf.noDaqmx hwf.interleavedFull _ _ _ hrun
  have hmem : s ∈ f.segments := List.mem_of_getElem? hs
  dsimp only at hoff hL
  obtain ⟨hk, hlo₀, hhi₀, hoffs⟩ := index_facts f p j₀ hj₀'
  -- the values of the segment
  have hnv : (f.segments.map (nvOf p)).getD (indexSegIdx f p j₀) 0 = nvOf p s := by
    rw [List.getD_eq_getElem?_getD, List.getElem?_map, hs]; rfl
  rw [hnv] at hoffs
  have hpos : 0 < nvOf p s := by omega
  -- the data object
  cases hobj : getSegmentObject s p with
  | none => unfold nvOf at hpos; rw [hobj] at hpos; exact absurd hpos (Nat.lt_irrefl _)
  | some o =>
    obtain ⟨homem, hopath⟩ := getSegmentObject_some hobj
    have hnsv : nvOf p s = numberOfSegmentValues o s := by unfold nvOf; rw [hobj]
    have hcsv : segCs s p = o.numberValues := by unfold segCs; rw [hobj]
    have hdata : o.hasData = true := by
      cases hd : o.hasData with
      | true => rfl
      | false =>
        rw [hnsv] at hpos
        unfold numberOfSegmentValues at hpos
        rw [hd] at hpos
        exact absurd hpos (Nat.lt_irrefl _)
    have hod : o ∈ C19.dataObjs s := by
      unfold C19.dataObjs; rw [List.mem_filter]; exact ⟨homem, hdata⟩
    -- the capacity of the chunk
    have hcap : chanCap s (indexChunkIdx f p j₀ s) p (C19.dataObjs s) = channelNumberValues s o (indexChunkIdx f p j₀ s) := by
      obtain ⟨o', hfind, ho', hp'⟩ := find?_path_some ⟨o, hod, hopath⟩
      have ho's : o' ∈ s.objects := (List.mem_filter.1 ho').1
      have : o' = o := hwf.uniquePaths s hmem o' ho's o homem (hp'.trans hopath.symm)
      unfold chanCap
      rw [hfind, this]
    rw [hcap] at hL
    -- arithmetic
    have hcs0 : 0 < o.numberValues := by rw [← hcsv]; omega
    have hfit := chunk_fits o.numberValues s.numChunks (j₀ - segStartOf f p (indexSegIdx f p j₀))
      (numberOfSegmentValues o s) (channelNumberValues s o (indexChunkIdx f p j₀ s))
      (s.override.map fun ov => overrideGet ov o.path) hcs0 (by omega)
      (by unfold numberOfSegmentValues
          rw [hdata]
          cases s.override <;> rfl)
      (by intro v hv
          cases hov : s.override with
          | none => rw [hov] at hv; cases hv
          | some ov =>
            rw [hov] at hv
            injection hv with hv
            rw [← hv]
            exact ⟨hwf.override_le s hmem ov hov o homem, hwf.override_chunks s hmem ov hov⟩)
      (by unfold channelNumberValues
          rw [indexChunkIdx_eq, hcsv]
          cases s.override <;> rfl)
    obtain ⟨hcaple, hfits⟩ := hfit
    have hci₀ : indexChunkIdx f p j₀ s = (j₀ - segStartOf f p (indexSegIdx f p j₀)) / o.numberValues := by
      rw [indexChunkIdx_eq, hcsv]
    rw [← hci₀] at hfits
    rw [hcsv] at hoff
    have hLlen : (chunk.data.getD []).length = dataLen chunk := rfl
    rw [hLlen] at hhi
    -- same segment
    have hseg : indexSegIdx f p j = indexSegIdx f p j₀ := by
      show (buildIndex f.segments p).firstSegment + searchRight (buildIndex f.segments p).offsets j =
        (buildIndex f.segments p).firstSegment + searchRight (buildIndex f.segments p).offsets j₀
      congr 1
      refine searchRight_eq _ j _ hk (fun i hi => ?_) (by omega)
      have hm := buildIndex_mono f.segments p i (searchRight (buildIndex f.segments p).offsets j₀ - 1) (by omega) (by omega)
      have hst : segStartOf f p (indexSegIdx f p j₀) =
          (buildIndex f.segments p).offsets.getD (searchRight (buildIndex f.segments p).offsets j₀ - 1) 0 := by
        show segStartOf f p ((buildIndex f.segments p).firstSegment + _) = _
        rw [segStartOf_add, if_neg (by omega)]
      omega
    -- same chunk
    have hci : indexChunkIdx f p j s = indexChunkIdx f p j₀ s := by
      rw [indexChunkIdx_eq, hseg, hcsv]
      exact Nat.div_eq_of_lt_le (by omega) (by rw [Nat.add_mul]; omega)
    have hact : readChannelChunkForIndex f p j = readChannelChunkForIndex f p j₀ := by
      apply readChannelChunkForIndex_congr f p j j₀ hseg
      intro s' hs'
      rw [hseg, hs] at hs'
      injection hs' with hs'
      rw [← hs']; exact hci
    intro io
    rw [hact]
    exact hat io

end Tdms.Proofs.C05
