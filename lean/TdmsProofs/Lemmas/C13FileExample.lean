/-
  C13 / C14 at file level: the example file (two segments; a Linear→Polynomial chain on channel `a` whose slope is
  overwritten in the second segment, a group-level scaling used by channel `b`, a root-level default used by
  channel `c` of a group that has no object in the file).
-/
import TdmsProofs.Lemmas.C13FileRat

namespace Tdms.Proofs.C13File

open Tdms Tdms.Generated Tdms.Model Tdms.Model.Scaling

/-- UTF-8 bytes of a string literal -/
def utf8 (s : String) : Bytes := s.toUTF8.data.toList

def pStr (n v : String) : PropEnc := ⟨utf8 n, 0x20, utf8 v⟩
def pU32 (n : String) (v : Nat) : PropEnc := ⟨utf8 n, 7, encLE 4 v⟩
/-- a DoubleFloat property from the 8 bytes of the double, little-endian -/
def pF64 (n : String) (v : Bytes) : PropEnc := ⟨utf8 n, 10, v⟩

def d0 : Bytes := [0, 0, 0, 0, 0, 0, 0, 0]             -- 0.0
def dHalf : Bytes := [0, 0, 0, 0, 0, 0, 0xE0, 0x3F]    -- 0.5
def d1 : Bytes := [0, 0, 0, 0, 0, 0, 0xF0, 0x3F]       -- 1.0
def d2 : Bytes := [0, 0, 0, 0, 0, 0, 0, 0x40]          -- 2.0
def d3 : Bytes := [0, 0, 0, 0, 0, 0, 0x08, 0x40]       -- 3.0
def d4 : Bytes := [0, 0, 0, 0, 0, 0, 0x10, 0x40]       -- 4.0
def d10 : Bytes := [0, 0, 0, 0, 0, 0, 0x24, 0x40]      -- 10.0
def dm15 : Bytes := [0, 0, 0, 0, 0, 0, 0xF8, 0xBF]     -- -1.5
def dTenth : Bytes := [0x9A, 0x99, 0x99, 0x99, 0x99, 0x99, 0xB9, 0x3F]   -- 0.1 (= 3602879701896397 / 2^55)

def sRoot : Bytes := utf8 "/"
def sG : Bytes := utf8 "/'g'"
def sA : Bytes := utf8 "/'g'/'a'"
def sB : Bytes := utf8 "/'g'/'b'"
def sC : Bytes := utf8 "/'h'/'c'"

/-- root: the default scaling `y = 10·x` -/
def rootProps : List PropEnc :=
  [pStr "name" "example", pU32 "NI_Number_Of_Scales" 1, pStr "NI_Scale[0]_Scale_Type" "Linear",
   pF64 "NI_Scale[0]_Linear_Slope" d10, pF64 "NI_Scale[0]_Linear_Y_Intercept" d0]

/-- group `g`: overrides the root default by `y = 3·x + 1` -/
def groupProps : List PropEnc :=
  [pU32 "NI_Number_Of_Scales" 1, pStr "NI_Scale[0]_Scale_Type" "Linear",
   pF64 "NI_Scale[0]_Linear_Slope" d3, pF64 "NI_Scale[0]_Linear_Y_Intercept" d1]

/-- channel `a`: scale 0 = Linear `2·x + 0.5` on the raw data, scale 1 = Polynomial `1 + 0·u + 3·u²` on scale 0 -/
def chanProps : List PropEnc :=
  [pStr "NI_Scaling_Status" "unscaled", pU32 "NI_Number_Of_Scales" 2,
   pStr "NI_Scale[0]_Scale_Type" "Linear", pF64 "NI_Scale[0]_Linear_Slope" d2,
   pF64 "NI_Scale[0]_Linear_Y_Intercept" dHalf, pU32 "NI_Scale[0]_Linear_Input_Source" 0xFFFFFFFF,
   pStr "NI_Scale[1]_Scale_Type" "Polynomial", pU32 "NI_Scale[1]_Polynomial_Coefficients_Size" 3,
   pU32 "NI_Scale[1]_Polynomial_Input_Source" 0,
   pF64 "NI_Scale[1]_Polynomial_Coefficients[0]" d1, pF64 "NI_Scale[1]_Polynomial_Coefficients[1]" d0,
   pF64 "NI_Scale[1]_Polynomial_Coefficients[2]" d3]

def scSeg0 : SegEnc :=
  { hasMeta := true, newList := true, interleaved := false, big := false, rawFlag := true, daqmxFlag := false,
    version := 4713, objs := [], padding := 0, chunks := [], lengthUnknown := false }

/-- two segments:
    0. root, group `g`, Int32 channel `a` (2 values per chunk), Int16 channel `b`, DoubleFloat channel `c` in a
       group `h` that has no object of its own; one chunk;
    1. incremental list: the slope of scale 0 of `a` is OVERWRITTEN (2 → 4; last write wins, also for the data
       of segment 0); all indexes "same as previous"; one more chunk. -/
def scFile : FileEnc := [
  { scSeg0 with
      objs := [⟨sRoot, .noData, rootProps⟩, ⟨sG, .noData, groupProps⟩, ⟨sA, .full 3 2 8, chanProps⟩,
               ⟨sB, .full 2 2 4, []⟩, ⟨sC, .full 10 2 16, []⟩],
      chunks := [[[[1, 0, 0, 0], [2, 0, 0, 0]], [[5, 0], [0xFF, 0xFF]], [dHalf, dm15]]] },
  { scSeg0 with
      newList := false,
      objs := [⟨sA, .matchesPrev, [pF64 "NI_Scale[0]_Linear_Slope" d4]⟩],
      chunks := [[[[3, 0, 0, 0], [0xFE, 0xFF, 0xFF, 0xFF]], [[7, 0], [0, 0]], [d2, dTenth]]] } ]

end Tdms.Proofs.C13File
