/-
  C07 whole: the meaning (`denote`) of the spec encoding of a written file is the promised content.
  Core Lean only.
-/
import TdmsProofs.Lemmas.C07WholeUpd

namespace Tdms.Proofs.C07Whole

open Tdms Tdms.Generated Tdms.Model Tdms.Model.Writer Tdms.Proofs.C08 Tdms.Proofs.C02
open Tdms.Proofs.C01Multi

/-! ## the three phases of `denoteSeg` as keyed updates over the written objects -/

/-- the description the spec remembers is always a standard one -/
def LastStd (last : LastIdx) : Prop := ∀ p d, last.get p = some d → ∃ ty n total, d = .std ty n total

theorem lastStd_nil : LastStd [] := by intro p d h; cases h

theorem lastStd_step {last : LastIdx} (h : LastStd last) (o : WObj) : LastStd (stepLast last o) := by
  unfold stepLast
  cases dataOf o with
  | none => exact h
  | some d =>
    intro p d' hg
    rw [LastIdx.get_set] at hg
    split at hg
    · cases hg; exact ⟨_, _, _, rfl⟩
    · exact h p d' hg

theorem lastStd_after : ∀ (objs : List WObj) {last : LastIdx}, LastStd last → LastStd (lastAfter last objs) := by
  intro objs
  induction objs with
  | nil => intro last h; exact h
  | cons o os ih => intro last h; exact ih (lastStd_step h o)

theorem notDaq_actOfW {last : LastIdx} (h : LastStd last) (o : WObj) : notDaq (actOfW last o) := by
  intro dg ty n sc w hi
  unfold actOfW at hi
  cases hd : dataOf o with
  | none =>
    rw [hd] at hi
    obtain ⟨_, _, _, he⟩ := h _ _ hi
    cases he
  | some d => rw [hd] at hi; cases hi

/-- properties of one written object, applied to an entry -/
def propF (o : WObj) (x : ObjContent) : ObjContent :=
  { x with props := (o.props.map toPropEnc).foldl setProp x.props }

/-- the values the segment's chunk holds for a written object -/
def dvals (o : WObj) : List Bytes := ((dataOf o).map (·.vals)).getD []

def upd1 (last : LastIdx) (objs : List WObj) : List Upd := objs.map fun o => (o.path, declF (actOfW last o))
def upd2 (objs : List WObj) : List Upd := objs.map fun o => (o.path, propF o)
def upd3 (objs : List WObj) : List Upd := objs.map fun o => (o.path, appF (dvals o))

theorem phase1 {last : LastIdx} (hl : LastStd last) : ∀ (objs : List WObj) (c : Content),
    declareObjs c (objs.map (actOfW last)) = applyUpd c (upd1 last objs) := by
  intro objs
  induction objs with
  | nil => intro c; rfl
  | cons o os ih =>
    intro c
    rw [List.map_cons, declareObjs_cons_std c _ _ (notDaq_actOfW hl o), ih, actOfW_path]
    rfl

theorem phase2 : ∀ (objs : List WObj) (c : Content),
    applyProps c (objs.map toObjEnc) = applyUpd c (upd2 objs) := by
  intro objs
  induction objs with
  | nil => intro c; rfl
  | cons o os ih =>
    intro c
    rw [List.map_cons, applyProps, ih]
    rfl

theorem appF_nil (x : ObjContent) : appF [] x = x := by
  simp [appF]

theorem phase3 (last : LastIdx) : ∀ (objs : List WObj) (c : Content),
    (∀ o ∈ objs, o.path ∈ c.map (·.path)) →
    addStdChunk c (dataObjs (objs.map (actOfW last))) (chunkOf objs) = applyUpd c (upd3 objs) := by
  intro objs
  induction objs with
  | nil => intro c _; rfl
  | cons o os ih =>
    intro c hp
    rw [List.map_cons, dataObjs_cons, chunkOf_cons]
    have hact := actFor_actOfW last o
    obtain ⟨hpath, hm⟩ := hact
    cases hd : dataOf o with
    | none =>
      rw [hd] at hm
      simp only at hm
      simp only [hm, Bool.false_eq_true, if_false]
      have hid : c.modify o.path (appF (dvals o)) = c := by
        apply modify_id_of_present
        · intro x _; simp [dvals, hd, appF_nil]
        · exact (any_iff_mem c o.path).2 (hp o List.mem_cons_self)
      show _ = applyUpd (c.modify o.path (appF (dvals o))) (upd3 os)
      rw [hid]
      exact ih c (fun q hq => hp q (List.mem_cons_of_mem _ hq))
    | some d =>
      rw [hd] at hm
      simp only at hm
      simp only [hm.1, if_true, addStdChunk, hpath]
      show _ = applyUpd (c.modify o.path (appF (dvals o))) (upd3 os)
      have : dvals o = d.vals := by simp [dvals, hd]
      rw [this]
      apply ih
      intro q hq
      show q.path ∈ (c.modify o.path (appF d.vals)).map (·.path)
      rw [modify_paths c o.path (appF d.vals) (fun _ => rfl)]
      split
      · exact hp q (List.mem_cons_of_mem _ hq)
      · exact List.mem_append_left _ (hp q (List.mem_cons_of_mem _ hq))

theorem upd_pathPres1 (last : LastIdx) (objs : List WObj) : ∀ u ∈ upd1 last objs, PathPres u.2 := by
  intro u hu
  obtain ⟨o, _, rfl⟩ := List.mem_map.1 hu
  intro x; rfl

theorem upd_pathPres2 (objs : List WObj) : ∀ u ∈ upd2 objs, PathPres u.2 := by
  intro u hu
  obtain ⟨o, _, rfl⟩ := List.mem_map.1 hu
  intro x; rfl

theorem upd_pathPres3 (objs : List WObj) : ∀ u ∈ upd3 objs, PathPres u.2 := by
  intro u hu
  obtain ⟨o, _, rfl⟩ := List.mem_map.1 hu
  intro x; rfl

theorem upd1_keys (last : LastIdx) (objs : List WObj) : (upd1 last objs).map (·.1) = objs.map (·.path) := by
  simp [upd1, Function.comp_def]
theorem upd2_keys (objs : List WObj) : (upd2 objs).map (·.1) = objs.map (·.path) := by
  simp [upd2, Function.comp_def]
theorem upd3_keys (objs : List WObj) : (upd3 objs).map (·.1) = objs.map (·.path) := by
  simp [upd3, Function.comp_def]

/-! ## when there are no data bytes, every value list is empty -/

theorem typeSize_pos {ty sz : Nat} (h : typeSize ty = some sz) : 0 < sz := by
  unfold typeSize at h
  cases hti : typeInfo ty with
  | none => rw [hti] at h; cases h
  | some ti =>
    rw [hti] at h
    have hm := List.mem_of_find?_eq_some hti
    have hall : ∀ t ∈ typeTable, ∀ s, t.size = some s → 0 < s := by decide
    exact hall ti hm sz h

theorem sum_eq_zero {l : List Nat} (h : l.sum = 0) : ∀ x ∈ l, x = 0 := by
  induction l with
  | nil => intro x hx; cases hx
  | cons a as ih =>
    rw [List.sum_cons] at h
    intro x hx
    rcases List.mem_cons.1 hx with rfl | hx
    · omega
    · exact ih (by omega) x hx

theorem dvals_nil_of_dataSize {objs : List WObj} (h0 : dataSize objs = 0) (hw : ∀ o ∈ objs, WritableObj o) :
    ∀ o ∈ objs, dvals o = [] := by
  intro o ho
  unfold dvals
  cases hd : dataOf o with
  | none => rfl
  | some d =>
    obtain ⟨g, c, ps, rfl, hv⟩ := dataOf_some_channel hd
    have hsz : objectDataSize d = 0 := by
      unfold dataSize at h0
      exact sum_eq_zero h0 _ (List.mem_map.2 ⟨_, ho, rfl⟩)
    have hwd : WritableData d := (hw _ ho).2.2.2
    unfold WritableData at hwd
    rw [if_neg hv] at hwd
    simp only [Option.map_some, Option.getD_some]
    unfold objectDataSize at hsz
    by_cases hs : d.ty = tyString
    · rw [if_pos hs] at hsz
      cases hvals : d.vals with
      | nil => rfl
      | cons x xs =>
        have := sum_eq_zero hsz (4 + x.length) (by simp [hvals])
        omega
    · rw [if_neg hs] at hsz hwd
      cases hts : typeSize d.ty with
      | none => rw [hts] at hwd; exact hwd.elim
      | some sz =>
        have := typeSize_pos hts
        rw [hts] at hsz
        cases hvals : d.vals with
        | nil => rfl
        | cons x xs =>
          rw [hvals] at hsz
          simp only [List.isEmpty_cons, Bool.false_eq_true, if_false, Option.getD_some, List.length_cons] at hsz
          have hpos : 0 < sz * (xs.length + 1) := Nat.mul_pos this (Nat.succ_pos _)
          omega

theorem applyUpd_id : ∀ (us : List Upd) (c : Content), (∀ u ∈ us, u.1 ∈ c.map (·.path)) →
    (∀ u ∈ us, ∀ x, u.2 x = x) → applyUpd c us = c := by
  intro us
  induction us with
  | nil => intro c _ _; rfl
  | cons u us ih =>
    intro c hp hid
    have : c.modify u.1 u.2 = c :=
      modify_id_of_present c u.1 u.2 (fun x _ => hid u List.mem_cons_self x)
        ((any_iff_mem c u.1).2 (hp u List.mem_cons_self))
    rw [applyUpd_cons, this]
    exact ih c (fun w hw => hp w (List.mem_cons_of_mem _ hw)) (fun w hw => hid w (List.mem_cons_of_mem _ hw))

/-! ## one segment -/

theorem mem_paths_applyUpd1 (last : LastIdx) (objs : List WObj) (c : Content)
    (hnd : (objs.map (·.path)).Nodup) :
    ∀ o ∈ objs, o.path ∈ (applyUpd c (upd1 last objs)).map (·.path) := by
  intro o ho
  rw [applyUpd_paths _ c (upd_pathPres1 last objs) (by rw [upd1_keys]; exact hnd), upd1_keys]
  by_cases h : o.path ∈ c.map (·.path)
  · exact List.mem_append_left _ h
  · apply List.mem_append_right
    rw [List.mem_filter]
    exact ⟨List.mem_map.2 ⟨o, ho, rfl⟩, by simp [h]⟩

/-- **one written segment, as three rounds of keyed updates** -/
theorem denoteSeg_written (v : Nat) (objs : List WObj) (last : LastIdx) (c : Content) (hl : LastStd last)
    (hnd : (objs.map (·.path)).Nodup) (hw : ∀ o ∈ objs, WritableObj o) :
    denoteSeg c (segOfW v objs) (objs.map (actOfW last)) =
      applyUpd (applyUpd (applyUpd c (upd1 last objs)) (upd2 objs)) (upd3 objs) := by
  unfold denoteSeg
  have hm : (segOfW v objs).hasMeta = true := rfl
  have ho : (segOfW v objs).objs = objs.map toObjEnc := rfl
  simp only [hm, if_true, ho, phase1 hl, phase2]
  have hp1 := mem_paths_applyUpd1 last objs c hnd
  have hp2 : ∀ o ∈ objs, o.path ∈ (applyUpd (applyUpd c (upd1 last objs)) (upd2 objs)).map (·.path) := by
    intro o hobj
    rw [applyUpd_paths_present _ _ (upd_pathPres2 objs)]
    · exact hp1 o hobj
    · intro u hu
      obtain ⟨q, hq, rfl⟩ := List.mem_map.1 hu
      exact hp1 q hq
  by_cases h0 : dataSize objs = 0
  · have hcs : (segOfW v objs).chunks = [] := by simp [segOfW, h0]
    rw [hcs, List.foldl_nil]
    symm
    apply applyUpd_id
    · intro u hu
      obtain ⟨q, hq, rfl⟩ := List.mem_map.1 hu
      exact hp2 q hq
    · intro u hu x
      obtain ⟨q, hq, rfl⟩ := List.mem_map.1 hu
      simp only [dvals_nil_of_dataSize h0 hw q hq, appF_nil]
  · have hcs : (segOfW v objs).chunks = [chunkOf objs] := by simp [segOfW, h0]
    rw [hcs, List.foldl_cons, List.foldl_nil,
      addChunk_std _ _ (not_daq_of_actFor objs _ (actsFor_map last objs))]
    exact phase3 last objs _ hp2

theorem find_objs_map {β : Type} (objs : List WObj) (F : WObj → β) (p : Bytes) :
    (objs.map fun o => (o.path, F o)).find? (·.1 = p) =
      (objs.find? (·.path = p)).map fun o => (o.path, F o) := by
  rw [List.find?_map]
  rfl

/-- lookup after one written segment -/
theorem find_denoteSeg (v : Nat) (objs : List WObj) (last : LastIdx) (c : Content) (hl : LastStd last)
    (hnd : (objs.map (·.path)).Nodup) (hw : ∀ o ∈ objs, WritableObj o) (p : Bytes) :
    (denoteSeg c (segOfW v objs) (objs.map (actOfW last))).find? (·.path = p) =
      match objs.find? (·.path = p) with
      | some o => some (appF (dvals o) (propF o (declF (actOfW last o) ((c.find? (·.path = p)).getD (dflt p)))))
      | none => c.find? (·.path = p) := by
  rw [denoteSeg_written v objs last c hl hnd hw,
    applyUpd_find _ _ p (upd_pathPres3 objs) (by rw [upd3_keys]; exact hnd),
    applyUpd_find _ _ p (upd_pathPres2 objs) (by rw [upd2_keys]; exact hnd),
    applyUpd_find _ _ p (upd_pathPres1 last objs) (by rw [upd1_keys]; exact hnd)]
  unfold upd1 upd2 upd3
  rw [find_objs_map, find_objs_map, find_objs_map]
  cases objs.find? (·.path = p) with
  | none => rfl
  | some o => rfl

/-- the path list after one written segment -/
theorem paths_denoteSeg (v : Nat) (objs : List WObj) (last : LastIdx) (c : Content) (hl : LastStd last)
    (hnd : (objs.map (·.path)).Nodup) (hw : ∀ o ∈ objs, WritableObj o) :
    (denoteSeg c (segOfW v objs) (objs.map (actOfW last))).map (·.path) =
      c.map (·.path) ++ (objs.map (·.path)).filter (fun k => !(c.map (·.path)).elem k) := by
  have hp1 := mem_paths_applyUpd1 last objs c hnd
  have hp2 : ∀ o ∈ objs, o.path ∈ (applyUpd (applyUpd c (upd1 last objs)) (upd2 objs)).map (·.path) := by
    intro o hobj
    rw [applyUpd_paths_present _ _ (upd_pathPres2 objs)]
    · exact hp1 o hobj
    · intro u hu
      obtain ⟨q, hq, rfl⟩ := List.mem_map.1 hu
      exact hp1 q hq
  rw [denoteSeg_written v objs last c hl hnd hw, applyUpd_paths_present _ _ (upd_pathPres3 objs),
    applyUpd_paths_present _ _ (upd_pathPres2 objs),
    applyUpd_paths _ c (upd_pathPres1 last objs) (by rw [upd1_keys]; exact hnd), upd1_keys]
  · intro u hu
    obtain ⟨q, hq, rfl⟩ := List.mem_map.1 hu
    exact hp1 q hq
  · intro u hu
    obtain ⟨q, hq, rfl⟩ := List.mem_map.1 hu
    exact hp2 q hq

end Tdms.Proofs.C07Whole
