-- C11Lazy
/-
  C11 (lazy DAQmx) — one DAQmx chunk and one DAQmx segment, on ARBITRARY bytes.

  * every reader of the model is position-deterministic (`PosDet`), so the chunk stream of the eager read
    is the concatenation over the segments of `segEager` (what `segmentReadRawData` returns);
  * the lazy per-channel read of a DAQmx chunk IS the eager chunk read followed by the dictionary look-up
    (`readChannelChunkAt_daqmx`);
  * `DaqOk`: the chunks of a DAQmx segment are read at the positions the lazy reader seeks to; under it
    eager and lazy segment reads are given in closed form (`segEager_daq`, `segReadChannel_daq`).
  Core Lean only.
-/
import TdmsProofs.Lemmas.C03Window
import TdmsProofs.Lemmas.C11Lemmas

namespace Tdms.Proofs.C11Lazy

open Tdms Tdms.Generated Tdms.Model Tdms.Proofs.Bytes Tdms.Proofs.C03

/-! ## position determinism of the remaining readers -/

theorem posDet_readContiguousChunk (file : Bytes) (s : Segment) (ci : Nat) : ∀ (d : List SegObj) (acc : RawChunk),
    PosDet (readContiguousChunk file s ci d acc) := by
  intro d
  induction d with
  | nil => intro acc; exact PosDet.pure _
  | cons o os ih =>
    intro acc
    unfold readContiguousChunk
    exact PosDet.bind (posDet_readValues _ _ _ _) (fun vals => ih _)

theorem posDet_bufs (file : Bytes) (s : Segment) (d : List SegObj) (crop : Bytes → Option Nat) :
    ∀ (dims : List (Nat × Nat)) (b : Nat) (data scal : RawChunk),
      PosDet (readDaqmxChunk.bufs file s d crop b dims data scal) := by
  intro dims
  induction dims with
  | nil =>
    intro b data scal
    constructor
    intro pos tr
    rw [Tdms.Proofs.C11.bufs_nil, Tdms.Proofs.C11.bufs_nil]
    simp [rebase]
  | cons x xs ih =>
    intro b data scal
    obtain ⟨n, w⟩ := x
    constructor
    intro pos tr
    rw [Tdms.Proofs.C11.bufs_cons, Tdms.Proofs.C11.bufs_cons, (posDet_readRows file w n).eq pos tr]
    cases hr : readRows file w n ⟨pos, []⟩ with
    | error e => rfl
    | ok r =>
      obtain ⟨rows, st1⟩ := r
      obtain ⟨p1, t1⟩ := st1
      show (match daqBufferScalers s.endian b rows crop d data scal with
          | .ok (data, scal) => readDaqmxChunk.bufs file s d crop (b + 1) xs data scal ⟨p1, tr ++ t1⟩
          | .error x => .error x) =
        rebase tr (match daqBufferScalers s.endian b rows crop d data scal with
          | .ok (data, scal) => readDaqmxChunk.bufs file s d crop (b + 1) xs data scal ⟨p1, t1⟩
          | .error x => .error x)
      cases daqBufferScalers s.endian b rows crop d data scal with
      | error e => rfl
      | ok r2 =>
        obtain ⟨d2, s2⟩ := r2
        show readDaqmxChunk.bufs file s d crop (b + 1) xs d2 s2 ⟨p1, tr ++ t1⟩ =
          rebase tr (readDaqmxChunk.bufs file s d crop (b + 1) xs d2 s2 ⟨p1, t1⟩)
        rw [(ih (b + 1) d2 s2).eq p1 (tr ++ t1), (ih (b + 1) d2 s2).eq p1 t1, rebase_rebase]

theorem posDet_readDaqmxChunk (file : Bytes) (s : Segment) (d : List SegObj) (ci : Nat) :
    PosDet (readDaqmxChunk file s d ci) := by
  unfold readDaqmxChunk
  dsimp only
  split
  · refine PosDet.bind (PosDet.pure _) (fun dims => PosDet.bind (posDet_bufs file s d _ dims 0 [] []) (fun r => ?_))
    obtain ⟨a, b⟩ := r
    exact PosDet.pure _
  · refine PosDet.bind (PosDet.throw _) (fun dims => PosDet.bind (posDet_bufs file s d _ dims 0 [] []) (fun r => ?_))
    obtain ⟨a, b⟩ := r
    exact PosDet.pure _

theorem posDet_readChunksSeq (file : Bytes) (s : Segment) (kind : ReaderKind) (d : List SegObj) :
    ∀ (k i : Nat), PosDet (readChunksSeq file s kind d i k) := by
  intro k
  induction k with
  | zero => intro i; exact PosDet.pure _
  | succ k ih =>
    intro i
    unfold readChunksSeq
    cases kind with
    | daqmx =>
      exact PosDet.bind (posDet_readDaqmxChunk _ _ _ _) (fun c => PosDet.bind (ih (i + 1)) (fun rest => PosDet.pure _))
    | interleaved =>
      exact PosDet.bind (posDet_readContiguousChunk _ _ _ _ _) (fun c => PosDet.bind (ih (i + 1)) (fun rest => PosDet.pure _))
    | contiguous =>
      exact PosDet.bind (posDet_readContiguousChunk _ _ _ _ _) (fun c => PosDet.bind (ih (i + 1)) (fun rest => PosDet.pure _))

theorem posDet_segmentReadRawData (file : Bytes) (s : Segment) : PosDet (segmentReadRawData file s) := by
  unfold segmentReadRawData
  refine PosDet.bind (PosDet.fSeek _) (fun _ => PosDet.bind (PosDet.liftE _) (fun kind => ?_))
  cases kind with
  | daqmx => exact PosDet.bind (posDet_readChunksSeq _ _ _ _ _ _) (fun _ => PosDet.pure _)
  | interleaved => exact PosDet.bind (posDet_readInterleavedChunks _ _ _ _) (fun _ => PosDet.pure _)
  | contiguous => exact PosDet.bind (posDet_readChunksSeq _ _ _ _ _ _) (fun _ => PosDet.pure _)

/-! ## the eager chunk stream, segment by segment -/

/-- the chunks the eager reader yields for one segment (`[]` when the read raises) -/
def segEager (file : Bytes) (s : Segment) : List RawChunk :=
  match runAt (segmentReadRawData file s) 0 with
  | .ok (cs, _) => cs
  | .error _ => []

theorem segmentReadRawData_run {file : Bytes} {s : Segment} {st st' : FState} {cs : List RawChunk}
    (h : segmentReadRawData file s st = .ok (cs, st')) : segEager file s = cs := by
  -- the first action is a seek, so the start position is irrelevant
  have hseek : ∀ st0 : FState, segmentReadRawData file s st0 = segmentReadRawData file s ⟨s.dataPosition, st0.trace⟩ := by
    intro st0
    unfold segmentReadRawData
    rw [F_bind_ok (fSeek_run _ _), F_bind_ok (fSeek_run _ _)]
  have hpd := posDet_segmentReadRawData file s
  rw [hseek] at h
  have h1 := hpd.runAt_of_run h
  unfold segEager
  have h0 : runAt (segmentReadRawData file s) 0 = runAt (segmentReadRawData file s) s.dataPosition := by
    unfold runAt
    rw [hseek ⟨0, []⟩]
  rw [h0, h1]

/-- **the chunk stream of the eager read is the concatenation of `segEager` over the segments**,
    whenever `readRawDataAll` succeeds — no hypothesis on the bytes -/
theorem readRawDataAll_flatMap (file : Bytes) : ∀ (segs : List Segment) (st st' : FState) (chunks : List RawChunk),
    readRawDataAll file segs st = .ok (chunks, st') → chunks = segs.flatMap (segEager file) := by
  intro segs
  induction segs with
  | nil =>
    intro st st' chunks h
    simp only [readRawDataAll, F_pure, Except.ok.injEq, Prod.mk.injEq] at h
    rw [← h.1]; rfl
  | cons s ss ih =>
    intro st st' chunks h
    unfold readRawDataAll at h
    cases h1 : verifySegmentStart file s st with
    | error e =>
      have : (verifySegmentStart file s >>= fun _ => (do
          let cs ← segmentReadRawData file s
          let rest ← readRawDataAll file ss
          pure (cs ++ rest) : F (List RawChunk))) st = .error e := by
        show StateT.bind _ _ _ = _
        simp [StateT.bind, h1, bind, Except.bind]
      rw [this] at h; cases h
    | ok r1 =>
      obtain ⟨u, st1⟩ := r1
      rw [F_bind_ok h1] at h
      cases h2 : segmentReadRawData file s st1 with
      | error e =>
        have : (segmentReadRawData file s >>= fun cs => (do
            let rest ← readRawDataAll file ss
            pure (cs ++ rest) : F (List RawChunk))) st1 = .error e := by
          show StateT.bind _ _ _ = _
          simp [StateT.bind, h2, bind, Except.bind]
        rw [this] at h; cases h
      | ok r2 =>
        obtain ⟨cs, st2⟩ := r2
        rw [F_bind_ok h2] at h
        cases h3 : readRawDataAll file ss st2 with
        | error e =>
          have : (readRawDataAll file ss >>= fun rest => (pure (cs ++ rest) : F (List RawChunk))) st2 = .error e := by
            show StateT.bind _ _ _ = _
            simp [StateT.bind, h3, bind, Except.bind]
          rw [this] at h; cases h
        | ok r3 =>
          obtain ⟨rest, st3⟩ := r3
          rw [F_bind_ok h3] at h
          simp only [F_pure, Except.ok.injEq, Prod.mk.injEq] at h
          rw [← h.1, List.flatMap_cons, segmentReadRawData_run h2, ih st2 st3 rest h3]

/-! ## one DAQmx chunk -/

/-- **`daqmx_chunk_component`** — the lazy read of one channel's part of a DAQmx chunk is the eager chunk
    read at the same file state, followed by the look-up of the channel (whatever the bytes are) -/
theorem readChannelChunkAt_daqmx (file : Bytes) (s : Segment) (d : List SegObj) (p : Bytes) (ci : Nat) (st : FState) :
    readChannelChunkAt file s .daqmx d p ci st =
      match readDaqmxChunk file s d ci st with
      | .ok (c, st') => .ok (RawChunk.get c p, st')
      | .error e => .error e := by
  unfold readChannelChunkAt
  show StateT.bind _ _ _ = _
  simp only [StateT.bind, bind, Except.bind]
  cases readDaqmxChunk file s d ci st with
  | error e => rfl
  | ok r => rfl

/-! ## DAQmx segments whose chunks sit where the lazy reader seeks to -/

/-- chunk `ci` of the segment read at its nominal position `dataPosition + ci · chunkSize` -/
def daqChunkAt (file : Bytes) (s : Segment) (ci : Nat) : Except Err (RawChunk × Nat) :=
  runAt (readDaqmxChunk file s (C03.dataObjs s) ci) (s.dataPosition + ci * segCsz s)

def daqChunk (file : Bytes) (s : Segment) (ci : Nat) : RawChunk :=
  match daqChunkAt file s ci with
  | .ok (c, _) => c
  | .error _ => []

/-- a DAQmx segment: every chunk read at its nominal position succeeds, and every chunk but the last
    ends where the next one nominally starts (the reads are complete) -/
structure DaqOk (file : Bytes) (s : Segment) : Prop where
  kind : dataReaderKind s = .ok .daqmx
  size : chunkSize s.objects = .ok (segCsz s)
  exact : ∀ ci, ci < s.numChunks → ∃ c e, daqChunkAt file s ci = .ok (c, e) ∧
    (ci + 1 < s.numChunks → e = s.dataPosition + (ci + 1) * segCsz s)

theorem DaqOk.chunk {file : Bytes} {s : Segment} (h : DaqOk file s) {ci : Nat} (hci : ci < s.numChunks)
    (tr : List (Nat × Nat)) :
    ∃ e tr', readDaqmxChunk file s (C03.dataObjs s) ci ⟨s.dataPosition + ci * segCsz s, tr⟩ = .ok (daqChunk file s ci, ⟨e, tr'⟩) ∧
      (ci + 1 < s.numChunks → e = s.dataPosition + (ci + 1) * segCsz s) := by
  obtain ⟨c, e, h1, h2⟩ := h.exact ci hci
  obtain ⟨tr', h3⟩ := (posDet_readDaqmxChunk file s (C03.dataObjs s) ci).run_ok h1 tr
  refine ⟨e, tr', ?_, h2⟩
  rw [h3]
  simp [daqChunk, h1]

theorem readChunksSeq_daq (file : Bytes) (s : Segment) (h : DaqOk file s) :
    ∀ (n i : Nat) (tr : List (Nat × Nat)), i + n ≤ s.numChunks →
      ∃ st', readChunksSeq file s .daqmx (C03.dataObjs s) i n ⟨s.dataPosition + i * segCsz s, tr⟩ =
        .ok ((List.range' i n).map (daqChunk file s), st') := by
  intro n
  induction n with
  | zero => intro i tr _; exact ⟨_, rfl⟩
  | succ n ih =>
    intro i tr hi
    obtain ⟨e, tr1, h1, hend⟩ := h.chunk (show i < s.numChunks by omega) tr
    by_cases hn : n = 0
    · subst hn
      refine ⟨⟨e, tr1⟩, ?_⟩
      unfold readChunksSeq
      simp only []
      rw [F_bind_ok h1]
      simp only [readChunksSeq]
      rfl
    · have he := hend (by omega)
      subst he
      obtain ⟨st2, h2⟩ := ih (i + 1) tr1 (by omega)
      refine ⟨st2, ?_⟩
      unfold readChunksSeq
      simp only []
      rw [F_bind_ok h1, F_bind_ok h2]
      rfl

/-- the eager chunks of a DAQmx segment in closed form -/
theorem segEager_daq (file : Bytes) (s : Segment) (h : DaqOk file s) :
    segEager file s = (if !hasFlag s.toc kTocRawData then [([] : RawChunk)] else []) ++
      (List.range s.numChunks).map (daqChunk file s) := by
  obtain ⟨st', h1⟩ := readChunksSeq_daq file s h s.numChunks 0 [] (by omega)
  simp only [Nat.zero_mul, Nat.add_zero] at h1
  apply segmentReadRawData_run (st := ⟨0, []⟩) (st' := st')
  unfold segmentReadRawData
  rw [F_bind_ok (fSeek_run _ _), h.kind, F_bind_ok (liftE_ok _ _)]
  show ((readChunksSeq file s .daqmx (C03.dataObjs s) 0 s.numChunks) >>= _) _ = _
  rw [F_bind_ok h1]
  simp only [List.range_eq_range']
  rfl

theorem readChannelChunksFrom_daq (file : Bytes) (s : Segment) (h : DaqOk file s) (p : Bytes)
    (co : Nat) (stop : Int) :
    ∀ (fuel i : Nat) (tr : List (Nat × Nat)), co + i + fuel ≤ s.numChunks → (fuel ≠ 0 → ((co + i + fuel : Nat) : Int) ≤ stop) →
      ∃ st', readChannelChunksFrom file s .daqmx (C03.dataObjs s) p (segCsz s) (s.dataPosition + segCsz s * co) co stop fuel i
          ⟨s.dataPosition + segCsz s * co + i * segCsz s, tr⟩ =
        .ok ((List.range' (co + i) fuel).map (fun j => RawChunk.get (daqChunk file s j) p), st') := by
  intro fuel
  induction fuel with
  | zero => intro i tr _ _; exact ⟨_, rfl⟩
  | succ fuel ih =>
    intro i tr hk hstop
    have hpos : s.dataPosition + segCsz s * co + i * segCsz s = s.dataPosition + (co + i) * segCsz s := by
      rw [Nat.add_mul, Nat.mul_comm (segCsz s) co]; omega
    obtain ⟨e, tr1, h1, _⟩ := h.chunk (show co + i < s.numChunks by omega) tr
    rw [← hpos] at h1
    have h1' : readChannelChunkAt file s .daqmx (C03.dataObjs s) p (co + i)
        ⟨s.dataPosition + segCsz s * co + i * segCsz s, tr⟩ = .ok (RawChunk.get (daqChunk file s (co + i)) p, ⟨e, tr1⟩) := by
      rw [readChannelChunkAt_daqmx, h1]
    obtain ⟨st2, h2⟩ := ih (i + 1) tr1 (by omega)
      (by intro _; rw [show co + (i + 1) + fuel = co + i + (fuel + 1) by omega]; exact hstop (by omega))
    refine ⟨st2, ?_⟩
    unfold readChannelChunksFrom
    have hstop' := hstop (by omega)
    rw [if_pos (by omega)]
    rw [F_bind_ok h1', F_bind_ok (fSeek_run _ _), F_bind_ok h2]
    rfl

/-- **the lazy read of a DAQmx segment, any chunk range inside the segment**: the channel's entry of every
    eager chunk of the range, after the optional empty chunk -/
theorem segReadChannel_daq (file : Bytes) (s : Segment) (h : DaqOk file s) (p : Bytes)
    (co : Nat) (nc : Int) (hk : co + nc.toNat ≤ s.numChunks) (st : FState) :
    ∃ st', segReadChannel file s p co (some nc) st =
      .ok ((if !hasFlag s.toc kTocRawData then [({} : ChanChunk)] else []) ++
        (List.range' co nc.toNat).map (fun j => RawChunk.get (daqChunk file s j) p), st') := by
  obtain ⟨st', h1⟩ := readChannelChunksFrom_daq file s h p co (nc + co) nc.toNat 0 st.trace
    (by omega) (by intro _; omega)
  refine ⟨st', ?_⟩
  simp only [Nat.zero_mul, Nat.add_zero] at h1
  unfold segReadChannel
  rw [F_bind_ok (fSeek_run _ _), h.size, F_bind_ok (liftE_ok _ _)]
  have hfuel : (nc + (co : Int) - (co : Int)).toNat = nc.toNat := by omega
  by_cases hco : co > 0
  · rw [if_pos hco, F_bind_ok (fTell_run _), F_bind_ok (fSeek_run _ _)]
    simp only []
    rw [h.kind, F_bind_ok (liftE_ok _ _), F_bind_ok (fTell_run _)]
    simp only []
    rw [hfuel]
    show ((readChannelChunksFrom file s .daqmx (C03.dataObjs s) p (segCsz s) (s.dataPosition + segCsz s * co) co (nc + co)
      nc.toNat 0) >>= _) _ = _
    rw [F_bind_ok h1]
    rfl
  · have : co = 0 := by omega
    subst this
    simp only [Nat.mul_zero, Nat.add_zero] at h1
    rw [if_neg hco]
    simp only []
    rw [h.kind, F_bind_ok (liftE_ok _ _), F_bind_ok (fTell_run _)]
    simp only []
    rw [hfuel]
    show ((readChannelChunksFrom file s .daqmx (C03.dataObjs s) p (segCsz s) s.dataPosition 0 (nc + (0 : Nat))
      nc.toNat 0) >>= _) _ = _
    rw [F_bind_ok h1]
    rfl

end Tdms.Proofs.C11Lazy
