import TdmsProofs.Lemmas.C05WFLoop
import TdmsProofs.Lemmas.C06Lemmas
import TdmsProofs.Lemmas.C04WholeLayout

/-!
# C05WF / C19WF: consequences of the loop invariant for one segment

What `calculateChunks` guarantees (`numChunks` / `override` consistency), final chunk lengths `≤`
full chunk lengths (non-DAQmx segments with distinct data paths), keys of the override, and the
per-segment value count under distinct paths.  Core Lean only.
-/

namespace Tdms.Proofs.C05WF

open Tdms Tdms.Model Tdms.Generated Tdms.Proofs.C02 Tdms.Proofs.LeadIn Tdms.Proofs.C06

theorem computeFinalChunkLengths_congr (s s' : Segment) (c r : Nat) (h1 : s'.objects = s.objects)
    (h2 : s'.toc = s.toc) (h3 : s'.incomplete = s.incomplete) :
    computeFinalChunkLengths s' c r = computeFinalChunkLengths s c r := by
  unfold computeFinalChunkLengths
  rw [h1, h2, h3]

/-- **what `_calculate_chunks` returns**: either no override and the data is exactly `numChunks` chunks,
    or an override, at least one chunk, and the data is `numChunks - 1` chunks plus a remainder
    `0 < r < chunkSize` from which the override was computed -/
theorem calculateChunks_inv {s0 s : Segment} (h0 : s0.override = none) (h : calculateChunks s0 = .ok s) :
    ∃ c, chunkSize s.objects = .ok c ∧ s.dataPosition ≤ s.nextSegmentPos ∧
      ((s.override = none ∧ s.nextSegmentPos - s.dataPosition = s.numChunks * c) ∨
       (∃ ov r, s.override = some ov ∧ 0 < r ∧ r < c ∧ 1 ≤ s.numChunks ∧
          s.nextSegmentPos - s.dataPosition = (s.numChunks - 1) * c + r ∧
          computeFinalChunkLengths s c r = .ok ov)) := by
  unfold calculateChunks at h
  cases hc : chunkSize s0.objects with
  | error e => simp [hc, bind, Except.bind] at h
  | ok c =>
    simp only [hc, bind, Except.bind] at h
    by_cases h1 : s0.nextSegmentPos < s0.dataPosition
    · simp [h1, throw, throwThe, MonadExceptOf.throw] at h
    · simp only [h1, if_false, pure, Except.pure] at h
      by_cases h2 : c = 0
      · simp only [h2, if_true] at h
        by_cases h3 : s0.nextSegmentPos - s0.dataPosition ≠ 0
        · simp [h3, throw, throwThe, MonadExceptOf.throw] at h
        · simp [h3] at h
          subst h
          refine ⟨0, by rw [← h2]; exact hc, by simp; omega, Or.inl ⟨h0, ?_⟩⟩
          simp; omega
      · simp only [h2, if_false] at h
        by_cases h3 : (s0.nextSegmentPos - s0.dataPosition) % c = 0
        · simp [h3] at h
          subst h
          refine ⟨c, hc, by simp; omega, Or.inl ⟨h0, ?_⟩⟩
          simp only
          have := Nat.div_add_mod (s0.nextSegmentPos - s0.dataPosition) c
          rw [h3, Nat.add_zero, Nat.mul_comm] at this
          exact this.symm
        · simp only [h3, if_false] at h
          cases hov : computeFinalChunkLengths s0 c ((s0.nextSegmentPos - s0.dataPosition) % c) with
          | error e => simp [hov] at h
          | ok ov =>
            simp [hov] at h
            subst h
            refine ⟨c, hc, by simp; omega, Or.inr ⟨ov, (s0.nextSegmentPos - s0.dataPosition) % c, rfl,
              by omega, Nat.mod_lt _ (by omega), by simp, ?_, ?_⟩⟩
            · simp only [Nat.add_sub_cancel_left]
              have := Nat.div_add_mod (s0.nextSegmentPos - s0.dataPosition) c
              rw [Nat.mul_comm] at this
              exact this.symm
            · rw [← hov]
              exact computeFinalChunkLengths_congr _ _ _ _ rfl rfl rfl

/-- the keys of the override of a non-DAQmx segment are paths of data objects -/
theorem override_keys_std (s : Segment) (c r : Nat) (ov : List (Bytes × Nat))
    (hd : haveDaqmxObjects s.objects = .ok false) (hov : computeFinalChunkLengths s c r = .ok ov) :
    ∀ q ∈ ov.map (·.1), q ∈ (s.objects.filter (·.hasData)).map (·.path) := by
  rcases computeFinalChunkLengths_cases s c r hd with h | h | h
  · rw [h] at hov; cases hov
  · rw [h] at hov; cases hov; intro q hq; cases hq
  · rw [computeFinalChunkLengths_std s c r hd h] at hov
    cases hov
    split
    · intro q hq
      simpa [List.map_map, Function.comp_def] using hq
    · intro q hq
      rw [cfl_eq, cfl_paths] at hq
      obtain ⟨o, ho, rfl⟩ := List.mem_map.1 hq
      exact List.mem_map.2 ⟨o, List.mem_of_mem_take ho, rfl⟩

theorem haveDaqmx_false_daq_none {objs : List SegObj} (h : haveDaqmxObjects objs = .ok false) :
    ∀ o ∈ objs.filter (·.hasData), o.daq = none := by
  intro o ho
  unfold haveDaqmxObjects at h
  simp only at h
  by_cases hq : ((objs.filter (·.hasData)).filter (·.daq.isSome)).length = 0
  · have : (objs.filter (·.hasData)).filter (·.daq.isSome) = [] := List.eq_nil_of_length_eq_zero hq
    rw [List.filter_eq_nil_iff] at this
    have := this o ho
    cases hd : o.daq with
    | none => rfl
    | some d => rw [hd] at this; simp at this
  · rw [if_neg hq] at h
    split at h <;> cases h

/-- what holds for a segment produced by the metadata reader, given distinct paths and no DAQmx data -/
structure SegFacts (s : Segment) : Prop where
  override_chunks : ∀ ov, s.override = some ov → 1 ≤ s.numChunks
  dataSize_eq : ∀ o ∈ s.objects.filter (·.hasData), ∀ sz, o.dataType.bind typeSize = some sz →
    o.dataSize = o.numberValues * sz
  override_le : ∀ ov, s.override = some ov → ∀ o ∈ s.objects, overrideGet ov o.path ≤ o.numberValues
  override_absent : ∀ ov, s.override = some ov → ∀ p, p ∉ (s.objects.filter (·.hasData)).map (·.path) →
    overrideGet ov p = 0

theorem segFacts_of_calc {s0 s : Segment} (h0 : s0.override = none) (h : calculateChunks s0 = .ok s)
    (hok : AllOK s.objects) (hd : haveDaqmxObjects s.objects = .ok false)
    (hnd : (s.objects.map (·.path)).Nodup) : SegFacts s := by
  obtain ⟨c, hc, hpos, hcase⟩ := calculateChunks_inv h0 h
  have hndd : ((s.objects.filter (·.hasData)).map (·.path)).Nodup :=
    hnd.sublist (List.Sublist.map _ List.filter_sublist)
  have habs : ∀ ov, s.override = some ov → ∀ p, p ∉ (s.objects.filter (·.hasData)).map (·.path) →
      overrideGet ov p = 0 := by
    intro ov hov p hp
    rcases hcase with ⟨hnone, _⟩ | ⟨ov', r, hov', _, _, _, _, hcomp⟩
    · rw [hnone] at hov; cases hov
    · rw [hov'] at hov; cases hov
      apply overrideGet_of_not_mem
      intro hmem
      exact hp (override_keys_std s c r _ hd hcomp p hmem)
  refine ⟨?_, ?_, ?_, habs⟩
  · intro ov hov
    rcases hcase with ⟨hnone, _⟩ | ⟨ov', r, _, _, _, hk, _, _⟩
    · rw [hnone] at hov; cases hov
    · exact hk
  · intro o ho sz hsz
    exact hok o (List.mem_filter.1 ho).1 (haveDaqmx_false_daq_none hd o ho) sz hsz
  · intro ov hov o ho
    cases hdat : o.hasData with
    | true =>
      rcases hcase with ⟨hnone, _⟩ | ⟨ov', r, hov', _, hrc, _, _, hcomp⟩
      · rw [hnone] at hov; cases hov
      · rw [hov'] at hov; cases hov
        exact final_length_le_std s c r _ hd hndd (by omega) hcomp o ho hdat
    | false =>
      rw [habs ov hov]
      · exact Nat.zero_le _
      · intro hmem
        obtain ⟨o', ho', hp⟩ := List.mem_map.1 hmem
        have ho'' := List.mem_filter.1 ho'
        -- distinct paths: `o' = o`
        obtain ⟨i, hi, rfl⟩ := List.getElem_of_mem ho
        obtain ⟨j, hj, hj'⟩ := List.getElem_of_mem ho''.1
        have h1 : (s.objects.map (·.path))[i]? = some s.objects[i].path := by simp [hi]
        have h2 : (s.objects.map (·.path))[j]? = some s.objects[i].path := by simp [hj, hj', hp]
        have := (List.getElem?_inj (by simpa using hi) hnd).1 (h1.trans h2.symm)
        subst this
        rw [← hj'] at ho''
        rw [hdat] at ho''
        exact absurd ho''.2 (by simp)

/-! ## value counts under distinct paths -/

theorem segContrib_of_nodup (s : Segment) (hnd : (s.objects.map (·.path)).Nodup) (p : Bytes) :
    segContrib s p = (match getSegmentObject s p with
      | some o => numberOfSegmentValues o s
      | none => 0) := by
  unfold segContrib
  by_cases hp : p ∈ s.objects.map (·.path)
  · obtain ⟨o, ho, rfl⟩ := List.mem_map.1 hp
    rw [Tdms.Proofs.C04Whole.getSegmentObject_of_mem s hnd o ho]
    have : s.objects.filter (·.path = o.path) = [o] := by
      have key : ∀ (l : List SegObj), (l.map (·.path)).Nodup → o ∈ l → l.filter (·.path = o.path) = [o] := by
        intro l
        induction l with
        | nil => intro _ h; cases h
        | cons x xs ih =>
          intro hn hm
          rw [List.map_cons, List.nodup_cons] at hn
          rw [List.filter_cons]
          rcases List.mem_cons.1 hm with rfl | hm'
          · simp only [decide_true, if_true]
            congr 1
            rw [List.filter_eq_nil_iff]
            intro y hy hyp
            exact hn.1 (List.mem_map.2 ⟨y, hy, of_decide_eq_true hyp⟩)
          · have hne : x.path ≠ o.path := fun e => hn.1 (e ▸ List.mem_map.2 ⟨o, hm', rfl⟩)
            simp only [hne, decide_false, Bool.false_eq_true, if_false]
            exact ih hn.2 hm'
      exact key s.objects hnd ho
    rw [this]
    simp
  · rw [Tdms.Proofs.C04Whole.getSegmentObject_none s p hp]
    have : s.objects.filter (·.path = p) = [] := by
      rw [List.filter_eq_nil_iff]
      intro y hy hyp
      exact hp (List.mem_map.2 ⟨y, hy, of_decide_eq_true hyp⟩)
    rw [this]
    rfl

end Tdms.Proofs.C05WF
