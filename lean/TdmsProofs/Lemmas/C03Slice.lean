/-
  C03 — `channel[a:b:c]` on an open file is CPython's slice of the eager values: the C04 slice
  normalisation composed with the C03 window theorem.  Core Lean only.
-/
import TdmsProofs.Lemmas.C03Main
import TdmsProofs.Lemmas.C04SliceLemmas

namespace Tdms.Proofs.C03

open Tdms Tdms.Generated Tdms.Model Tdms.Proofs.Bytes Tdms.Proofs.C04

theorem channelReadSlice_eager (f : OpenFile) (p : Bytes) (m : ObjMeta)
    (hok : SegsOk f.file f.segments) (hc : ChanOk f.objects f.segments p m) (hty : m.dataType.isSome = true)
    (a b c : Option Int) (st : FState) :
    match Tdms.Spec.PySlice.pySlice (eagerVals f.file f.segments p) a b c with
    | .error _ => (channelReadSlice f p a b c).run st = .error .stepZero
    | .ok xs => ∃ st', (channelReadSlice f p a b c).run st = .ok (xs, st') := by
  have hspec := sliceResult_eq_pySlice (eagerVals f.file f.segments p) a b c
  have hlen := eagerVals_length f.file f.segments p hok hc.wf
  rw [← hc.num] at hlen
  unfold sliceResult at hspec
  rw [hlen] at hspec
  rw [channelReadSlice_eq, hc.get]
  simp only [Option.map_some, Option.getD_some]
  cases hreq : sliceRequest (m.numValues : Int) a b c with
  | error e =>
    rw [hreq] at hspec
    cases hpy : Tdms.Spec.PySlice.pySlice (eagerVals f.file f.segments p) a b c with
    | error u =>
      rw [hpy] at hspec
      simp only [Except.mapError, Except.error.injEq] at hspec
      subst hspec; rfl
    | ok xs => rw [hpy] at hspec; simp [Except.mapError] at hspec
  | ok r =>
    rw [hreq] at hspec
    cases r with
    | none =>
      cases hpy : Tdms.Spec.PySlice.pySlice (eagerVals f.file f.segments p) a b c with
      | error u => rw [hpy] at hspec; simp [Except.mapError] at hspec
      | ok xs =>
        rw [hpy] at hspec
        simp only [Except.mapError, Except.ok.injEq] at hspec
        subst hspec
        exact ⟨st, rfl⟩
    | some t =>
      obtain ⟨off, l, stp⟩ := t
      obtain ⟨h0, hl0, _, _⟩ := sliceRequest_in_range m.numValues a b c off l stp hreq
      obtain ⟨st', r, hrun, hr⟩ := channelReadData_window f p m hok hc hty off (some l) h0
        (by intro l' h; cases h; exact hl0) st
      cases hpy : Tdms.Spec.PySlice.pySlice (eagerVals f.file f.segments p) a b c with
      | error u => rw [hpy] at hspec; simp [Except.mapError] at hspec
      | ok xs =>
        rw [hpy] at hspec
        simp only [Except.mapError, Except.ok.injEq] at hspec
        refine ⟨st', ?_⟩
        simp only [bind, StateT.bind, StateT.run, Except.bind] at hrun ⊢
        rw [hrun]
        simp only [takeOpt] at hr
        simp only []
        rw [hr, hspec]
        rfl

end Tdms.Proofs.C03
