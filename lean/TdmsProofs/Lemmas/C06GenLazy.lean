/-
  C06, lazy = eager on the cut files of the GENERAL multi-segment class (fixed-width channels): the segment records
  of the cut file (`cutRec`) satisfy `SegShape` and `SizedOk` of `C03.lean`.  Core Lean only.
-/
import TdmsProofs.Lemmas.C06GenClass
import TdmsProofs.Lemmas.C06LazyMain

namespace Tdms.Proofs.C06Gen

open Tdms Tdms.Generated Tdms.Model Tdms.Proofs.C02 Tdms.Proofs.C01Multi Tdms.Proofs.C01Marker
open Tdms.Proofs.Bytes (canonProp)
open Tdms.Proofs.C01Compose (valuesIn)
open Tdms.Proofs.C06Whole (dataPosOf)
open Tdms.Proofs.C03 (SegShape SizedOk)

/-! ## the records -/

theorem segShape_cutRec (pos : Nat) (s : SegEnc) (b : Bool) (a : List ActiveObj) (k : Nat) (h : SegOK s a)
    (hnd : (a.map (·.path)).Nodup) (hraw : s.chunks ≠ [] → s.rawFlag = true)
    (hk1 : dataPosOf s ≤ k) (hkL : k ≤ (encodeSeg s a).length) : SegShape (cutRec pos s b a k) := by
  refine ⟨?_, ?_, ?_⟩
  · show ((a.map concObj).map (·.path)).Nodup
    rw [map_concObj_paths]; exact hnd
  · exact dataReaderKind_conc _ a h.good rfl (by
      show hasFlag (tocMask s) kTocInterleavedData = false
      rw [Tdms.Proofs.Bytes.hasFlag_tocMask_interleaved, h.std.contiguous])
  · intro hr
    have hr' : s.rawFlag = false := by
      rw [← Tdms.Proofs.Bytes.hasFlag_tocMask_raw s]; exact hr
    have hc : s.chunks = [] := by
      cases hcs : s.chunks with
      | nil => rfl
      | cons c cs =>
        have := hraw (by rw [hcs]; simp)
        rw [hr'] at this; cases this
    have hL := encodeSeg_len s a h
    rw [hc] at hL
    simp only [List.length_nil, Nat.zero_mul, Nat.add_zero] at hL
    have h0 : k - dataPosOf s = 0 := by omega
    show cutQA s a k + (if cutRA s a k = 0 then 0 else 1) = 0
    unfold cutQA cutRA
    rw [h0]
    simp

theorem sizedOk_cutRec (pos : Nat) (s : SegEnc) (b : Bool) (a : List ActiveObj) (k : Nat) (h : SegOK s a)
    (hidx : ∀ x ∈ a, x.hasData = true → x.idx ≠ none)
    (hns : ∀ x ∈ a, ∀ d, x.idx = some d → d.ty ≠ tyString) : SizedOk (cutRec pos s b a k) := by
  intro o ho
  unfold Tdms.Proofs.C03.dataObjs at ho
  have hobjs : (cutRec pos s b a k).objects = a.map concObj := rfl
  rw [hobjs, filter_hasData_conc] at ho
  obtain ⟨x, hx, rfl⟩ := List.mem_map.mp ho
  have hxa : x ∈ a ∧ x.hasData = true := by simpa [dataObjs] using hx
  cases hi : x.idx with
  | none => exact absurd hi (hidx x hxa.1 hxa.2)
  | some d =>
    have hg := h.good x hxa.1 d hi
    have hnot := hns x hxa.1 d hi
    cases d with
    | daq dg ty n sc w => exact absurd hg (by simp [GoodDesc])
    | std ty n total =>
      simp only [GoodDesc] at hg
      obtain ⟨hkind, _, _, hcan⟩ := hg
      have hty : ty ≠ tyString := hnot
      have hsome : (typeSize ty).isSome = true := by
        rcases hkind with h1 | h1
        · exact absurd h1 hty
        · exact h1
      obtain ⟨sz, hsz⟩ := Option.isSome_iff_exists.mp hsome
      refine ⟨ty, sz, ?_, hsz, ?_⟩
      · unfold concObj; rw [hi]
      · unfold concObj; rw [hi]
        show total = n * sz
        rw [hcan hty, hsz]; rfl

/-! ## from the class to the per-segment facts -/

/-- no listed index is a string index -/
def noStrings (e : FileEnc) : Prop := ∀ s ∈ e, ∀ o ∈ s.objs, ∀ n total, o.idx ≠ .full tyString n total

def noStringsB (e : FileEnc) : Bool :=
  e.all fun s => s.objs.all fun o => match o.idx with
    | .full ty _ _ => !decide (ty = tyString)
    | _ => true

theorem noStringsB_sound {e : FileEnc} (h : noStringsB e = true) : noStrings e := by
  intro s hs o ho n total hi
  simp only [noStringsB, List.all_eq_true] at h
  have := h s hs o ho
  rw [hi] at this
  simp at this

theorem wfSegs_raw : ∀ (ss : List SegEnc) (as : List (List ActiveObj)), wfSegs ss as = true →
    ∀ s ∈ ss, s.chunks ≠ [] → s.rawFlag = true := by
  intro ss
  induction ss with
  | nil => intro as _ s hs; cases hs
  | cons x xs ih =>
    intro as h s hs hne
    cases as with
    | nil => simp [wfSegs] at h
    | cons a as =>
      simp only [wfSegs, Bool.and_eq_true] at h
      rcases List.mem_cons.mp hs with rfl | hs
      · have h1 := h.1
        simp only [wfSeg, Bool.and_eq_true] at h1
        have h6 := h1.1.1.2
        cases hc : s.chunks with
        | nil => exact absurd hc hne
        | cons c cs =>
          rw [hc] at h6
          simpa using h6
      · exact ih as h.2 s hs hne

theorem activeLists_hasIdx : ∀ (ss : List SegEnc) (prev : Option (List ActiveObj)) (last : LastIdx)
    (as : List (List ActiveObj)), activeLists prev last ss = .ok as → SpecInv prev last →
    (∀ s ∈ ss, noDupPaths s.objs = true) → ∀ a ∈ as, ∀ x ∈ a, x.hasData = true → x.idx ≠ none := by
  intro ss
  induction ss with
  | nil => intro prev last as h _ _; rw [activeLists_nil h]; intro a ha; cases ha
  | cons s ss ih =>
    intro prev last as h hspec hnd
    obtain ⟨a, last', as', hact, hrest, rfl⟩ := activeLists_cons h
    have hpost := activeOfSeg_post hspec (hnd s List.mem_cons_self) hact
    intro x hx
    rcases List.mem_cons.1 hx with rfl | hx'
    · exact hpost.hasIdx
    · exact ih _ _ _ hrest hpost.specInv (fun s' hs' => hnd s' (List.mem_cons_of_mem _ hs')) x hx'

theorem mem_zip_map {α β γ δ : Type} (f : α → γ) (g : β → δ) : ∀ (l : List α) (m : List β) (c : γ) (d : δ),
    (c, d) ∈ (l.map f).zip (m.map g) → ∃ x y, (x, y) ∈ l.zip m ∧ c = f x ∧ d = g y := by
  intro l m c d h
  rw [List.zip_map, List.mem_map] at h
  obtain ⟨⟨x, y⟩, hxy, he⟩ := h
  simp only [Prod.map, Prod.mk.injEq] at he
  exact ⟨x, y, hxy, he.1.symm, he.2.symm⟩

theorem segsOK_mem : ∀ (ss : List SegEnc) (as : List (List ActiveObj)), SegsOK ss as →
    ∀ sa ∈ ss.zip as, SegOK sa.1 sa.2 := by
  intro ss
  induction ss with
  | nil => intro as _ sa h; cases as <;> simp at h
  | cons s ss ih =>
    intro as hok sa h
    cases as with
    | nil => cases hok
    | cons a as =>
      simp only [List.zip_cons_cons, List.mem_cons] at h
      rcases h with rfl | h
      · exact hok.1
      · exact ih as hok.2 sa h

/-- **lazy = eager on every cut of a file of the general class with fixed-width channels** -/
theorem cut_lazy_general_core (e : FileEnc) (h : MultiStdU e) (fit : FileFits e) (hch : onlyChannelsHaveDataM e)
    (hns : noStrings e) (bytes : Bytes) (hb : encodeFile e = .ok bytes) (hlen : bytes.length < 2 ^ 63) (K : Nat)
    (hK : K ≤ bytes.length) :
    ∃ c r', denote e = .ok c ∧ readFile (bytes.take K) = .ok r' ∧
      Tdms.Proofs.C06Lazy.LazyEqEager (bytes.take K) r' ∧
      (∀ oc ∈ c, valuesIn r'.channels oc.path <+: oc.values) ∧
      (∀ m ∈ r'.state.objects, m.numValues = (valuesIn r'.channels m.path).length) := by
  obtain ⟨c, r', acts, hc, ha, hr', hpre, hnum, hrecs⟩ := read_cut_general_core e h fit hch bytes hb hlen K hK
  refine ⟨c, r', hc, hr', ?_, hpre, hnum⟩
  -- per-segment facts of the canonical form
  have h' := multiStd_unmark h
  have fit' := fileFits_unmark fit
  have ha' : activeLists none [] (e.map unmark) = .ok acts := by rw [activeLists_unmark]; exact ha
  have hok := segsOK_canon _ acts (segsOK0_of_multi h' fit' ha')
  have hnd := activeLists_nodup _ none [] acts ha' SpecInv.init (wellFormed_noDup h'.wf)
  have hidx := activeLists_hasIdx _ none [] acts ha' SpecInv.init (wellFormed_noDup h'.wf)
  have hraw : ∀ s ∈ e, s.chunks ≠ [] → s.rawFlag = true := by
    have := h.wf
    unfold wellFormed at this
    rw [ha] at this
    exact wfSegs_raw e acts this
  have hW : ∀ a ∈ acts, ActW (fun d => d.ty ≠ tyString) a :=
    activeLists_W (fun d => d.ty ≠ tyString) e none [] acts ha (fun p d hd => by simp [LastIdx.get] at hd)
      (fun a ha => by cases ha)
      (by
        intro s hs o ho d hd
        cases hi : o.idx with
        | noData => rw [hi] at hd; cases hd
        | matchesPrev => rw [hi] at hd; cases hd
        | daqmx dg ty n sc w => exact absurd hi (h.std s hs o ho dg ty n sc w)
        | full ty n total =>
          rw [hi] at hd
          cases hd
          intro hty
          exact hns s hs o ho n total (by rw [hi]; simp only [IdxDesc.ty] at hty; rw [hty]))
  have hfacts : ∀ sa ∈ ((e.map unmark).map canonSeg).zip (acts.map (·.map canonAct)),
      SegOK sa.1 sa.2 ∧ (sa.2.map (·.path)).Nodup ∧ (sa.1.chunks ≠ [] → sa.1.rawFlag = true) ∧
      (∀ x ∈ sa.2, x.hasData = true → x.idx ≠ none) ∧
      (∀ x ∈ sa.2, ∀ d, x.idx = some d → d.ty ≠ tyString) := by
    intro sa hsa
    have hsok := segsOK_mem _ _ hok sa hsa
    obtain ⟨s, a⟩ := sa
    rw [List.map_map] at hsa
    obtain ⟨s0, a0, hmem, rfl, rfl⟩ := mem_zip_map (canonSeg ∘ unmark) (fun x => x.map canonAct) e acts _ _ hsa
    have hs0 : s0 ∈ e := (List.of_mem_zip hmem).1
    have ha0 : a0 ∈ acts := (List.of_mem_zip hmem).2
    refine ⟨hsok, ?_, hraw s0 hs0, ?_, ?_⟩
    · show ((a0.map canonAct).map (·.path)).Nodup
      rw [List.map_map]
      exact hnd a0 ha0
    · intro x hx hd
      obtain ⟨x0, hx0, rfl⟩ := List.mem_map.mp hx
      have := hidx a0 ha0 x0 hx0 hd
      show (x0.idx.map canonDesc) ≠ none
      cases hxi : x0.idx with
      | none => exact absurd hxi this
      | some d => simp
    · intro x hx d hd
      obtain ⟨x0, hx0, rfl⟩ := List.mem_map.mp hx
      have hd' : x0.idx.map canonDesc = some d := hd
      cases hxi : x0.idx with
      | none => rw [hxi] at hd'; cases hd'
      | some d0 =>
        rw [hxi] at hd'
        simp only [Option.map_some, Option.some.injEq] at hd'
        have := hW a0 ha0 x0 hx0 d0 hxi
        rw [← hd']
        cases d0 <;> exact this
  apply Tdms.Proofs.C06Lazy.lazyEqEager_of_sized _ r' hr'
  · intro seg hseg
    obtain ⟨s, a, pos, b, k, hm, hk1, hkL, rfl⟩ := hrecs seg hseg
    obtain ⟨f1, f2, f3, _, _⟩ := hfacts (s, a) hm
    exact segShape_cutRec pos s b a k f1 f2 f3 hk1 hkL
  · intro seg hseg
    obtain ⟨s, a, pos, b, k, hm, _, _, rfl⟩ := hrecs seg hseg
    obtain ⟨f1, _, _, f4, f5⟩ := hfacts (s, a) hm
    exact sizedOk_cutRec pos s b a k f1 f4 f5

end Tdms.Proofs.C06Gen
