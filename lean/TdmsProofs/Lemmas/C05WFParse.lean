import TdmsProofs.Model.MetaLoop
import TdmsProofs.Lemmas.LeadInLoopLemmas

/-!
# C05WF / C19WF: what the metadata parser guarantees about segment objects, for ARBITRARY bytes

`ObjOK o`: a non-DAQmx object with a fixed-width type has `dataSize = numberValues * size`
(`read_raw_data_index` computes it).  It holds for every object `readSegmentObjects` puts into a
segment, whatever the bytes are.  A small postcondition calculus for the parser monad `P` does the
work.  Core Lean only.
-/

namespace Tdms.Proofs.C05WF

open Tdms Tdms.Model Tdms.Generated Tdms.Proofs.C02

/-- `dataSize` of a fixed-width standard object is `numberValues * size` -/
def ObjOK (o : SegObj) : Prop :=
  o.daq = none → ∀ sz, o.dataType.bind typeSize = some sz → o.dataSize = o.numberValues * sz

def AllOK (l : List SegObj) : Prop := ∀ o ∈ l, ObjOK o

/-! ## postconditions in the parser monad -/

/-- every successful run returns a value satisfying `Q` -/
def PPost {α : Type} (m : P α) (Q : α → Prop) : Prop := ∀ bs a rest, m bs = .ok (a, rest) → Q a

theorem PPost.bind {α β : Type} {m : P α} {k : α → P β} {Q : α → Prop} {R : β → Prop}
    (h1 : PPost m Q) (h2 : ∀ a, Q a → PPost (k a) R) : PPost (m >>= k) R := by
  intro bs b rest h
  obtain ⟨a, s, hm, hk⟩ := P_bind_eq_ok h
  exact h2 a (h1 bs a s hm) s b rest hk

theorem PPost.pure {α : Type} {Q : α → Prop} (a : α) (h : Q a) : PPost (pure a : P α) Q := by
  intro bs a' rest h'
  rw [P_pure] at h'
  cases h'
  exact h

theorem PPost.throw {α : Type} {Q : α → Prop} (e : Err) : PPost (throw e : P α) Q := by
  intro bs a rest h
  cases h

theorem PPost.ite {α : Type} {Q : α → Prop} {c : Prop} [Decidable c] {t e : P α}
    (h1 : c → PPost t Q) (h2 : ¬ c → PPost e Q) : PPost (if c then t else e) Q := by
  split
  · exact h1 ‹_›
  · exact h2 ‹_›

theorem PPost.trivial {α : Type} (m : P α) : PPost m (fun _ => True) := fun _ _ _ _ => True.intro

theorem PPost.liftE {α : Type} {Q : α → Prop} (x : Except Err α) (h : ∀ a, x = .ok a → Q a) :
    PPost (C02.liftE x) Q := by
  intro bs a rest hr
  cases x with
  | error e => cases hr
  | ok v =>
    rw [liftE_ok] at hr
    cases hr
    exact h _ rfl

/-! ## the index readers -/

theorem objOK_of_daq {o : SegObj} (h : o.daq.isSome = true) : ObjOK o := by
  intro hd
  rw [hd] at h
  cases h

theorem objOK_mk (o : SegObj) (n ty d : Nat) (h : typeSize ty = none ∨ d = n * (typeSize ty).getD 0) :
    ObjOK { o with numberValues := n, dataType := some ty, dataSize := d } := by
  intro _ sz hsz
  have hsz' : typeSize ty = some sz := by simpa using hsz
  rcases h with h | h
  · rw [h] at hsz'; cases hsz'
  · simp [h, hsz']

theorem typeSize_tyString' : typeSize tyString = none := by decide

theorem post_readStdIndex (e : Endian) (o : SegObj) : PPost (readStdIndex e o) ObjOK := by
  unfold readStdIndex
  refine PPost.bind (PPost.trivial _) (fun b _ => ?_)
  dsimp only
  generalize (match e with
    | .little => (decLE (b.take 4), decLE ((b.drop 4).take 4), decLE (b.drop 8))
    | .big => (decBE (b.take 4), decBE ((b.drop 4).take 4), decBE (b.drop 8))) = t
  obtain ⟨ty, dim, n⟩ := t
  repeat' (first
    | exact PPost.throw _
    | exact PPost.pure _ (objOK_mk _ _ _ _ (Or.inr rfl))
    | exact PPost.pure _ (objOK_mk _ _ _ _ (Or.inl (by simp_all [typeSize_tyString'])))
    | refine PPost.bind (PPost.trivial _) (fun _ _ => ?_)
    | refine PPost.ite (fun _ => ?_) (fun _ => ?_)
    | dsimp only)

theorem post_readDaqmxIndex (e : Endian) (header : Nat) (o : SegObj) : PPost (readDaqmxIndex e header o) ObjOK := by
  unfold readDaqmxIndex
  repeat' (first
    | exact PPost.throw _
    | exact PPost.pure _ (objOK_of_daq rfl)
    | refine PPost.bind (PPost.trivial _) (fun _ _ => ?_)
    | refine PPost.ite (fun _ => ?_) (fun _ => ?_)
    | split
    | dsimp only)

theorem post_newIndexedObject (e : Endian) (path : Bytes) (header : Nat) :
    PPost (newIndexedObject e path header) ObjOK := by
  unfold newIndexedObject
  dsimp only
  split
  · exact post_readDaqmxIndex _ _ _
  · exact post_readStdIndex _ _

/-- a parsed header carries an `ObjOK` object -/
def HdrOK : Hdr → Prop
  | .indexed o => ObjOK o
  | _ => True

theorem post_readHdr (e : Endian) (path : Bytes) (header : Nat) : PPost (readHdr e path header) HdrOK := by
  unfold readHdr
  refine PPost.ite (fun _ => PPost.pure _ True.intro) (fun _ => ?_)
  refine PPost.ite (fun _ => PPost.pure _ True.intro) (fun _ => ?_)
  refine PPost.bind (post_newIndexedObject e path header) (fun o ho => ?_)
  exact PPost.pure _ ho

end Tdms.Proofs.C05WF
