/-
  C03 — mixed files, one segment: the values the eager reader holds for the channel in the segment
  (`segE`), what the lazy whole-channel read returns for the segment, and their agreement.
  Core Lean only.
-/
import TdmsProofs.Lemmas.C03Mixed
import TdmsProofs.Lemmas.C03General

namespace Tdms.Proofs.C03

open Tdms Tdms.Generated Tdms.Model Tdms.Proofs.Bytes Tdms.Proofs.C04 Tdms.Proofs.C06

/-- the eager values of channel `p` in segment `s` -/
def segE (file : Bytes) (s : Segment) (p : Bytes) : List Bytes := streamVals (segChunksG file s) p

/-- what the lazy segment read returns when asked for `nc` chunks from chunk `co`; for an interleaved
    segment: the whole segment (the loop only ever asks for that) -/
def supMSeg (file : Bytes) (s : Segment) (p : Bytes) (co : Nat) (nc : Int) : List ChanChunk :=
  match dataReaderKind s with
  | .ok .interleaved => (if !hasFlag s.toc kTocRawData then [({} : ChanChunk)] else []) ++
      (segChunksG file s).map (fun c => RawChunk.get c p)
  | _ => lazySegChunks file s (segCsz s) p co nc

theorem SegMOk.toOk {file : Bytes} {s : Segment} (h : SegMOk file s) (hc : ContigOk file s (segCsz s)) : SegOk file s :=
  ⟨h.tag, h.nodup, h.noRaw, hc⟩

theorem chanOf_len_le (p : Bytes) (m : Nat) : ∀ (d : List SegObj) (cols : List (List Bytes)),
    (∀ v ∈ cols, v.length = m) → (chanOf p d cols).len ≤ m ∧ ((chanOf p d cols).data.getD []).length = (chanOf p d cols).len := by
  intro d
  induction d with
  | nil => intro cols _; cases cols <;> exact ⟨Nat.zero_le _, rfl⟩
  | cons o os ih =>
    intro cols h
    cases cols with
    | nil => exact ⟨Nat.zero_le _, rfl⟩
    | cons v vs =>
      simp only [chanOf]
      split
      · have := h v List.mem_cons_self
        simp [ChanChunk.len, this]
      · exact ih vs (fun x hx => h x (List.mem_cons_of_mem _ hx))

theorem chunkVals_setCols (p : Bytes) (d : List SegObj) (cols : List (List Bytes)) (hnd : (d.map (·.path)).Nodup) :
    chunkVals (setCols [] d cols) p = (RawChunk.get (setCols [] d cols) p).data.getD [] := by
  rw [get_setCols p d cols hnd, setCols_distinct d [] cols hnd (by intro _ _ x hx; cases hx), List.nil_append]
  exact chunkVals_pairs p d cols hnd

section
variable {file : Bytes} {s : Segment} (h : SegMOk file s) (p : Bytes)
include h

/-- interleaved segment: the lazy chunks carry the eager values, and not more than the layout allows -/
theorem inter_seg_facts (hi : InterOk file s) (hcs : (layoutOf p s).cs ≠ 0) :
    dataOf ((segChunksG file s).map fun c => RawChunk.get c p) = segE file s p ∧
    lenSum ((segChunksG file s).map fun c => RawChunk.get c p) ≤ (layoutOf p s).nvals ∧
    AllPlain ((segChunksG file s).map fun c => RawChunk.get c p) := by
  obtain ⟨r, hr⟩ := hi.read
  obtain ⟨cs, pos'⟩ := r
  have hchunks : segChunksG file s = cs := by unfold segChunksG; rw [hi.kind, hr]
  obtain ⟨tr, hrun⟩ := interRead_run hr []
  obtain ⟨o, hod, hop, hon⟩ := layout_cs_obj hcs
  have hnv : (layoutOf p s).nvals = (layoutOf p s).cs * s.numChunks := by
    unfold SegL.nvals
    rw [if_neg hcs]
    simp [layoutOf, hi.noOverride]
  rcases readInterleaved_shape _ _ _ _ _ _ _ hrun with ⟨hd, _⟩ | ⟨cols, hcs', hlen, m, hm, hmle⟩
  · have : o ∈ ([] : List SegObj) := by
      have hod' : o ∈ s.objects.filter (·.hasData) := hod
      rw [hd] at hod'; exact hod'
    cases this
  · unfold segE
    rw [hchunks, hcs']
    have hget := get_setCols p (dataObjs s) cols h.nodupData
    have hg : RawChunk.get (setCols [] (List.filter (fun x => x.hasData) s.objects) cols) p = chanOf p (dataObjs s) cols := hget
    obtain ⟨hl1, hl2⟩ := chanOf_len_le p m (dataObjs s) cols hm
    refine ⟨?_, ?_, ?_⟩
    · simp only [List.map_cons, List.map_nil, dataOf_cons, dataOf_nil, List.append_nil, streamVals, List.flatMap_cons,
        List.flatMap_nil]
      exact (chunkVals_setCols p (dataObjs s) cols h.nodupData).symm
    · simp only [List.map_cons, List.map_nil, lenSum, List.sum_cons, List.sum_nil, Nat.add_zero]
      rw [hg, hnv, ← hon]
      exact Nat.le_trans hl1 (hmle o hod)
    · intro c hc
      simp only [List.map_cons, List.map_nil, List.mem_singleton] at hc
      subst hc
      rw [hg]
      exact hl2

/-- interleaved segment in which the channel has no values: the eager reader holds nothing for it -/
theorem inter_seg_absent (hi : InterOk file s) (hcs : (layoutOf p s).nvals = 0) : segE file s p = [] := by
  obtain ⟨r, hr⟩ := hi.read
  obtain ⟨cs, pos'⟩ := r
  have hchunks : segChunksG file s = cs := by unfold segChunksG; rw [hi.kind, hr]
  obtain ⟨tr, hrun⟩ := interRead_run hr []
  unfold segE
  rw [hchunks]
  rcases readInterleaved_shape _ _ _ _ _ _ _ hrun with ⟨_, hcs'⟩ | ⟨cols, hcs', hlen, m, hm, hmle⟩
  · rw [hcs']; rfl
  · rw [hcs']
    simp only [streamVals, List.flatMap_cons, List.flatMap_nil, List.append_nil]
    have hcv := chunkVals_setCols p (dataObjs s) cols h.nodupData
    have hcv' : chunkVals (setCols [] (List.filter (fun x => x.hasData) s.objects) cols) p = _ := hcv
    rw [hcv', get_setCols p (dataObjs s) cols h.nodupData]
    by_cases hmem : p ∈ (dataObjs s).map (·.path)
    · obtain ⟨o, hod, hop⟩ := List.mem_map.mp hmem
      obtain ⟨hl1, hl2⟩ := chanOf_len_le p m (dataObjs s) cols hm
      apply List.eq_nil_of_length_eq_zero
      rw [hl2]
      have hle := hmle o hod
      -- `nvals = 0` with the object present means `number_values · numChunks = 0`
      have ho : o ∈ s.objects := (List.mem_filter.mp hod).1
      have hdat : o.hasData = true := by simpa using (List.mem_filter.mp hod).2
      have hget : getSegmentObject s p = some o := by
        rw [getSegmentObject_eq_find s p h.nodup]
        cases hf : s.objects.find? (·.path = p) with
        | none =>
          rw [List.find?_eq_none] at hf
          exact absurd (by simpa using hop) (hf o ho)
        | some o' =>
          have hm' := List.mem_of_find?_eq_some hf
          have hp' : o'.path = p := by simpa using List.find?_some hf
          rw [nodup_path_unique s.objects h.nodup hm' ho (hp'.trans hop.symm)]
      have hz : o.numberValues * s.numChunks = 0 := by
        unfold SegL.nvals layoutOf at hcs
        simp only [hget, hdat, if_true, hi.noOverride, Option.map_none] at hcs
        split at hcs
        · rename_i h0; rw [h0]; simp
        · exact hcs
      omega
    · rw [chanOf_of_not_mem p _ _ hmem]
      rfl

theorem segE_contig (hc : ContigOk file s (segCsz s)) (hwf : (layoutOf p s).WF) :
    segE file s p = segVals (layoutOf p s) (segChanVals file s p) := by
  have := streamVals_seg file s p (h.toOk hc) hwf
  rw [← this]
  unfold segE eagerSegChunks streamVals
  rw [segChunksG_contig hc, List.flatMap_append]
  have hpre : ((if !hasFlag s.toc kTocRawData then [([] : RawChunk)] else []).flatMap fun c => chunkVals c p) = [] := by
    split <;> simp [chunkVals_nil]
  rw [hpre, List.nil_append]

/-- contiguous segment: the lazily read chunks carry the eager values, and not more than the layout
    allows -/
theorem contig_seg_facts (hc : ContigOk file s (segCsz s)) (hwf : (layoutOf p s).WF) (hcs : (layoutOf p s).cs ≠ 0)
    (nc : Int) (hfull : nc = s.numChunks ∨ (nc = (s.numChunks : Int) - 1 ∧ 0 < s.numChunks ∧ (layoutOf p s).fs = 0)) :
    dataOf (lazySegChunks file s (segCsz s) p 0 nc) = segE file s p ∧
    lenSum (lazySegChunks file s (segCsz s) p 0 nc) ≤ (layoutOf p s).nvals ∧
    AllPlain (lazySegChunks file s (segCsz s) p 0 nc) := by
  have hso := h.toOk hc
  have hin : nc.toNat ≤ s.numChunks := by rcases hfull with h1 | ⟨h1, _, _⟩ <;> omega
  have heq : lazySegChunks file s (segCsz s) p 0 nc = chanSegRest file s p (some (0, 0, nc)) none false := by
    simp [lazySegChunks, chanSegRest]
  have hlen := chanSegRest_len ⟨file, [], []⟩ p s hso hwf 0 0 nc hin hcs
  have hplain := allPlain_chanSegRest ⟨file, [], []⟩ p s hso 0 0 nc hin hcs
  rw [heq]
  refine ⟨?_, hlen.1, hplain⟩
  rw [segE_contig h p hc hwf]
  -- both sides as flattened runs of `segChanVals`
  have hmap : ∀ n, n ≤ s.numChunks → dataOf ((List.range' 0 n).map (lazyChunk file s (segCsz s) p))
      = ((List.range' 0 n).map (segChanVals file s p)).flatten := by
    intro n hn
    have : (List.range' 0 n).map (lazyChunk file s (segCsz s) p) = wrap ((List.range' 0 n).map (segChanVals file s p)) := by
      unfold wrap
      rw [List.map_map]
      apply List.map_congr_left
      intro j hj
      rw [List.mem_range'_1] at hj
      exact (lazyChunk_vals hso p hcs j (by omega)).1
    rw [this]
    unfold wrap dataOf
    simp [List.map_map, Function.comp_def]
  have hdata : dataOf (chanSegRest file s p (some (0, 0, nc)) none false)
      = ((List.range' 0 nc.toNat).map (segChanVals file s p)).flatten := by
    unfold chanSegRest
    simp only []
    rw [dataOf_append, hmap _ hin]
    split <;> simp [dataOf]
  rw [hdata]
  unfold segVals
  rw [if_neg hcs, List.range_eq_range']
  have hk : (layoutOf p s).k = s.numChunks := rfl
  rw [hk]
  rcases hfull with h1 | ⟨h1, hkpos, hfs⟩
  · have : nc.toNat = s.numChunks := by omega
    rw [this]
  · obtain ⟨k', hk'⟩ : ∃ k', s.numChunks = k' + 1 := ⟨s.numChunks - 1, by omega⟩
    have : nc.toNat = k' := by omega
    rw [this, hk', List.range'_concat, List.map_append, List.flatten_append]
    have hlast : segChanVals file s p k' = [] := by
      apply List.eq_nil_of_length_eq_zero
      rw [(lazyChunk_vals hso p hcs _ (by omega)).2, chunkLen_eq, hk, hk']
      simp [hfs]
    simp [hlast]

/-- contiguous segment in which the channel has no values: the eager reader holds nothing for it -/
theorem contig_seg_absent (hc : ContigOk file s (segCsz s)) (hwf : (layoutOf p s).WF)
    (hnv : (layoutOf p s).nvals = 0) : segE file s p = [] := by
  have hso := h.toOk hc
  rw [segE_contig h p hc hwf]
  by_cases hcs : (layoutOf p s).cs = 0
  · unfold segVals; rw [if_pos hcs]
  · apply List.eq_nil_of_length_eq_zero
    rw [segVals_length _ _ hwf (fun j hj => (lazyChunk_vals hso p hcs j hj).2), hnv]

end

end Tdms.Proofs.C03
