/-
  C11 (lazy DAQmx) — scaler chunks under the window arithmetic.

  `trimStream` / the window loop act on a stream of scaler chunks as they act on the stream of the
  chunks' projections on one scaler (`projSc id`), provided every chunk satisfies `ProjOk id`: its `len`
  (the length of its FIRST scaler) is the length of scaler `id`, and trimming commutes with the
  projection.  `ProjOk` holds for the empty chunk and for every scaler chunk with distinct scaler ids,
  all of the same length, that lists `id` (`ScChunk`).  Core Lean only.
-/
import TdmsProofs.Lemmas.C11LazyStream
import TdmsProofs.Lemmas.C04WindowList

namespace Tdms.Proofs.C11Lazy

open Tdms Tdms.Generated Tdms.Model Tdms.Proofs.Bytes Tdms.Proofs.C03 Tdms.Proofs.C04

/-- the projection of a chunk on scaler `id`, as a plain data chunk -/
def projSc (id : Nat) (c : ChanChunk) : ChanChunk := { data := some (entrySc c id) }

/-- the values of scaler `id` carried by a list of chunks, concatenated -/
def scOf (id : Nat) (cs : List ChanChunk) : List Bytes := cs.flatMap fun c => entrySc c id

structure ProjOk (id : Nat) (c : ChanChunk) : Prop where
  len : c.len = (entrySc c id).length
  trim : ∀ skip trim, entrySc (trimChannelChunk c skip trim) id = pySliceTo (entrySc c id) skip trim

theorem projSc_len (id : Nat) (c : ChanChunk) : (projSc id c).len = (entrySc c id).length := by
  simp [projSc, ChanChunk.len]

/-- `trimStream` commutes with the projection -/
theorem trimStream_proj (id : Nat) (len : Int) : ∀ (cs : List ChanChunk) (skip : Nat) (vr : Int),
    (∀ c ∈ cs, ProjOk id c) →
    scOf id (trimStream len cs skip vr).1 = dataOf (trimStream len (cs.map (projSc id)) skip vr).1 ∧
    (trimStream len cs skip vr).2 = (trimStream len (cs.map (projSc id)) skip vr).2 := by
  intro cs
  induction cs with
  | nil => intro skip vr _; simp [trimStream, scOf, dataOf]
  | cons c cs ih =>
    intro skip vr h
    have hc := h c List.mem_cons_self
    obtain ⟨ih1, ih2⟩ := ih 0 (vr + c.len - skip) (fun x hx => h x (List.mem_cons_of_mem _ hx))
    simp only [List.map_cons, trimStream, projSc_len, ← hc.len]
    refine ⟨?_, ih2⟩
    simp only [scOf, List.flatMap_cons] at ih1 ⊢
    rw [dataOf_cons, hc.trim, ih1]
    congr 1
    exact (trimChannelChunk_data _ _ _).symm

/-- the window loop commutes with the projection -/
theorem windowLoopPure_proj (id : Nat) (sup : Supplier) (hsup : ∀ i co nc, ∀ c ∈ sup i co nc, ProjOk id c)
    (p : Bytes) (ix : ChannelIndex) (offset endIndex len : Int) (startSeg endSeg : Nat) :
    ∀ (rest : List Segment) (i : Nat) (vr : Int),
      scOf id (windowLoopPure sup p ix offset endIndex len startSeg endSeg rest i vr) =
        dataOf (windowLoopPure (fun i co nc => (sup i co nc).map (projSc id)) p ix offset endIndex len startSeg endSeg rest i vr) := by
  intro rest
  induction rest with
  | nil => intro i vr; rfl
  | cons s rest ih =>
    intro i vr
    simp only [windowLoopPure]
    cases segPlan p ix offset endIndex startSeg endSeg i s with
    | none => exact ih (i + 1) vr
    | some t =>
      obtain ⟨co, skip, nc⟩ := t
      simp only []
      obtain ⟨h1, h2⟩ := trimStream_proj id len (sup i co.toNat nc) skip.toNat vr (hsup i co.toNat nc)
      rw [dataOf_append, ← h1, ← h2, ← ih]
      simp [scOf]

/-! ## which chunks satisfy `ProjOk` -/

theorem pySliceTo_nil (skip : Nat) (trim : Int) : pySliceTo [] skip trim = [] := by
  simp [pySliceTo]

theorem pySliceTo_zero (d : List Bytes) : pySliceTo d 0 0 = d := by
  unfold pySliceTo
  have : ¬ ((d.length : Int) < 0) := by omega
  simp [this]

theorem projOk_empty (id : Nat) : ProjOk id ({} : ChanChunk) := by
  refine ⟨rfl, ?_⟩
  intro skip trim
  unfold trimChannelChunk
  split
  · simp [entrySc, pySliceTo_nil]
  · simp [entrySc, pySliceTo_nil]

/-- a scaler chunk: no plain data; distinct scaler ids, `id` among them, every scaler `n` values -/
def ScChunk (id n : Nat) (c : ChanChunk) : Prop :=
  c.data = none ∧ ∃ sc, c.scalers = some sc ∧ (sc.map (·.1)).Nodup ∧ id ∈ sc.map (·.1) ∧ ∀ x ∈ sc, x.2.length = n

theorem scAll_of_not_mem (sc : List (Nat × List Bytes)) (id : Nat) (h : id ∉ sc.map (·.1)) : scAll sc id = [] := by
  unfold scAll
  rw [List.filter_eq_nil_iff.mpr]
  · rfl
  · intro x hx hid
    apply h
    rw [List.mem_map]
    exact ⟨x, hx, by simpa using hid⟩

theorem scAll_nodup (sc : List (Nat × List Bytes)) (id : Nat) (h : (sc.map (·.1)).Nodup) : scAll sc id = scGet sc id := by
  induction sc with
  | nil => rfl
  | cons x xs ih =>
    simp only [List.map_cons, List.nodup_cons] at h
    rw [scAll_cons]
    unfold scGet
    simp only [List.find?_cons]
    by_cases hx : x.1 = id
    · rw [if_pos hx, scAll_of_not_mem xs id (by rw [← hx]; exact h.1)]
      simp [hx]
    · rw [if_neg hx]
      simp only [hx, decide_false, List.nil_append]
      exact ih h.2

theorem scGet_mem (sc : List (Nat × List Bytes)) (id : Nat) (h : id ∈ sc.map (·.1)) :
    ∃ x ∈ sc, scGet sc id = x.2 := by
  unfold scGet
  cases hf : sc.find? (·.1 = id) with
  | some x => exact ⟨x, List.mem_of_find?_eq_some hf, rfl⟩
  | none =>
    rw [List.find?_eq_none] at hf
    obtain ⟨y, hy, hyid⟩ := List.mem_map.mp h
    exact absurd (by simpa using hyid) (hf y hy)

theorem scChunk_entry {id n : Nat} {c : ChanChunk} (h : ScChunk id n c) :
    (entrySc c id).length = n ∧ c.len = n := by
  obtain ⟨hd, sc, hs, hnd, hmem, hlen⟩ := h
  constructor
  · unfold entrySc
    rw [hd, hs]
    simp only []
    rw [scAll_nodup sc id hnd]
    obtain ⟨x, hx, heq⟩ := scGet_mem sc id hmem
    rw [heq]; exact hlen x hx
  · unfold ChanChunk.len
    rw [hd, hs]
    cases sc with
    | nil => simp at hmem
    | cons x xs => obtain ⟨i, v⟩ := x; exact hlen (i, v) List.mem_cons_self

theorem projOk_scChunk {id n : Nat} {c : ChanChunk} (h : ScChunk id n c) : ProjOk id c := by
  obtain ⟨h1, h2⟩ := scChunk_entry h
  obtain ⟨hd, sc, hs, hnd, hmem, hlen⟩ := h
  refine ⟨by rw [h1, h2], ?_⟩
  intro skip trim
  have hE : entrySc c id = scGet sc id := by
    unfold entrySc; rw [hd, hs]; simp only []; exact scAll_nodup sc id hnd
  unfold trimChannelChunk
  split
  · rename_i hz
    obtain ⟨rfl, rfl⟩ := hz
    rw [pySliceTo_zero]
  · rw [hE]
    unfold entrySc
    simp only [hd, hs, Option.map_none, Option.map_some]
    have hkeys : ((sc.map fun (x : Nat × List Bytes) => (x.1, pySliceTo x.2 skip trim)).map (·.1)) = sc.map (·.1) := by
      rw [List.map_map]; rfl
    rw [scAll_nodup _ id (by rw [hkeys]; exact hnd)]
    unfold scGet
    rw [find?_map_key sc (fun x => (x.1, pySliceTo x.2 skip trim)) (fun _ => rfl) id]
    cases sc.find? (·.1 = id) with
    | none => simp [pySliceTo_nil]
    | some x => rfl

instance (id n : Nat) (c : ChanChunk) : Decidable (ScChunk id n c) := by
  unfold ScChunk
  cases hs : c.scalers with
  | none => exact isFalse (by rintro ⟨_, sc, h, _⟩; cases h)
  | some sc =>
    by_cases h : c.data = none ∧ (sc.map (·.1)).Nodup ∧ id ∈ sc.map (·.1) ∧ ∀ x ∈ sc, x.2.length = n
    · exact isTrue ⟨h.1, sc, rfl, h.2⟩
    · exact isFalse (by
        rintro ⟨h1, sc', h2, h3⟩
        cases h2
        exact h ⟨h1, h3⟩)

end Tdms.Proofs.C11Lazy
