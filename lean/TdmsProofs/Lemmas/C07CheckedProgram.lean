/-
  C07 (checked writer): the objects EMITTED by `write_segment` (after root / group insertion and sorting) versus the
  objects HANDED to it — the auto-added objects carry no data, so the typed channel objects are the same; the
  program-level characterisations of `typesConsistent`.  Core Lean only.
-/
import TdmsProofs.Lemmas.C07CheckedTypes

namespace Tdms.Proofs.C07Checked

open Tdms Tdms.Generated Tdms.Model Tdms.Model.Writer Tdms.Proofs.C08 Tdms.Proofs.C07Whole

/-- the writer does not raise "Duplicate object paths found" anywhere in the program -/
def Accepted (prog : Program) : Prop := (programSegs prog).isSome = true

instance (prog : Program) : Decidable (Accepted prog) := by unfold Accepted; infer_instance

theorem accepted_iff_writeProgram (v : Nat) (prog : Program) : Accepted prog ↔ (writeProgram v prog).isSome = true := by
  unfold Accepted
  rw [writeProgram_eq]
  cases programSegs prog <;> simp

theorem accepted_of_writable {prog : Program} (h : WritableProgram prog) : Accepted prog := by
  unfold WritableProgram at h
  unfold Accepted
  cases hp : programSegs prog with
  | none => rw [hp] at h; exact h.elim
  | some Ls => rfl

/-! ## one `write_segment` call -/

/-- what `write_segment` emits: every handed object, plus possibly a root and groups WITHOUT data -/
theorem segmentObjects_typed {st st' : WriterState} {objs sorted : List WObj}
    (h : segmentObjects st objs = some (sorted, st')) :
    (∀ o ∈ sorted, o ∈ objs ∨ tyOfW o = none) ∧ (∀ o ∈ objs, o ∈ sorted) := by
  unfold segmentObjects at h
  simp only at h
  have h := ite_none_some h
  injection h with h1 _
  subst h1
  constructor
  · intro o ho
    rw [mem_stableSortByKey] at ho
    simp only [List.mem_append, List.mem_map] at ho
    rcases ho with (ho | ho) | ⟨g, _, rfl⟩
    · exact .inl ho
    · right
      split at ho
      · simp only [List.mem_singleton] at ho; subst ho; rfl
      · cases ho
    · right; rfl
  · intro o ho
    rw [mem_stableSortByKey]
    simp only [List.mem_append]
    exact .inl (.inl ho)

theorem segmentObjects_handed_consistent {st st' : WriterState} {objs sorted : List WObj}
    (h : segmentObjects st objs = some (sorted, st')) : Consistent objs :=
  consistent_of_typed_subset (fun o ho => .inl ((segmentObjects_typed h).2 o ho))
    (consistent_of_nodup (segmentObjects_nodup h))

/-! ## a session, a program -/

theorem sessionSegs_typed {st : WriterState} {segs L : List (List WObj)} (h : sessionSegs st segs = some L) :
    (∀ o ∈ L.flatten, o ∈ segs.flatten ∨ tyOfW o = none) ∧ (∀ o ∈ segs.flatten, o ∈ L.flatten) ∧
    (∀ seg ∈ segs, Consistent seg) := by
  induction segs generalizing st L with
  | nil =>
    cases h
    refine ⟨?_, ?_, ?_⟩ <;> intro o ho <;> cases ho
  | cons s ss ih =>
    simp only [sessionSegs] at h
    cases hso : segmentObjects st s with
    | none => simp [hso] at h
    | some r =>
      obtain ⟨objs, st'⟩ := r
      rw [hso] at h
      simp only at h
      cases hrest : sessionSegs st' ss with
      | none => simp [hrest] at h
      | some L' =>
        rw [hrest] at h
        cases h
        obtain ⟨i1, i2, i3⟩ := ih hrest
        obtain ⟨s1, s2⟩ := segmentObjects_typed hso
        refine ⟨?_, ?_, ?_⟩
        · intro o ho
          rw [List.flatten_cons, List.mem_append] at ho
          rw [List.flatten_cons, List.mem_append]
          rcases ho with ho | ho
          · rcases s1 o ho with h | h
            · exact .inl (.inl h)
            · exact .inr h
          · rcases i1 o ho with h | h
            · exact .inl (.inr h)
            · exact .inr h
        · intro o ho
          rw [List.flatten_cons, List.mem_append] at ho
          rw [List.flatten_cons, List.mem_append]
          rcases ho with ho | ho
          · exact .inl (s2 o ho)
          · exact .inr (i2 o ho)
        · intro seg hseg
          rcases List.mem_cons.1 hseg with rfl | hseg
          · exact segmentObjects_handed_consistent hso
          · exact i3 seg hseg

/-- over the program: the typed objects emitted are the typed objects handed over -/
theorem program_typed {prog : Program} {Ls : List (List (List WObj))} (h : programSegs prog = some Ls) :
    (∀ o ∈ Ls.flatten.flatten, o ∈ prog.flatten.flatten ∨ tyOfW o = none) ∧
    (∀ o ∈ prog.flatten.flatten, o ∈ Ls.flatten.flatten) ∧
    SegmentsConsistent prog := by
  induction prog generalizing Ls with
  | nil => cases h; refine ⟨?_, ?_, ?_⟩ <;> intro o ho <;> cases ho
  | cons s rest ih =>
    simp only [programSegs] at h
    cases hs : sessionSegs {} s with
    | none => simp [hs] at h
    | some L =>
      cases hr : programSegs rest with
      | none => simp [hs, hr] at h
      | some Ls' =>
        rw [hs, hr] at h
        cases h
        obtain ⟨i1, i2, i3⟩ := ih hr
        obtain ⟨s1, s2, s3⟩ := sessionSegs_typed hs
        refine ⟨?_, ?_, ?_⟩
        · intro o ho
          rw [List.flatten_cons, List.flatten_append, List.mem_append] at ho
          rw [List.flatten_cons, List.flatten_append, List.mem_append]
          rcases ho with ho | ho
          · rcases s1 o ho with h | h
            · exact .inl (.inl h)
            · exact .inr h
          · rcases i1 o ho with h | h
            · exact .inl (.inr h)
            · exact .inr h
        · intro o ho
          rw [List.flatten_cons, List.flatten_append, List.mem_append] at ho
          rw [List.flatten_cons, List.flatten_append, List.mem_append]
          rcases ho with ho | ho
          · exact .inl (s2 o ho)
          · exact .inr (i2 o ho)
        · intro session hsess
          rcases List.mem_cons.1 hsess with rfl | hsess
          · exact s3
          · exact i3 session hsess

theorem segmentsConsistent_of_accepted {prog : Program} (h : Accepted prog) : SegmentsConsistent prog := by
  unfold Accepted at h
  cases hp : programSegs prog with
  | none => rw [hp] at h; cases h
  | some Ls => exact (program_typed hp).2.2

/-- global consistency of the EMITTED objects = consistency of the HANDED objects -/
theorem typesConsistent_iff_handed {prog : Program} (h : Accepted prog) :
    typesConsistent prog ↔ Consistent prog.flatten.flatten := by
  unfold Accepted at h
  cases hp : programSegs prog with
  | none => rw [hp] at h; cases h
  | some Ls =>
    obtain ⟨h1, h2, _⟩ := program_typed hp
    unfold typesConsistent written
    rw [emitted_of_programSegs hp]
    exact ⟨consistent_of_typed_subset (fun o ho => .inl (h2 o ho)), consistent_of_typed_subset h1⟩

/-- consistency of all handed objects = every session consistent + no cross-session disagreement -/
theorem consistent_program_iff (prog : Program) :
    Consistent prog.flatten.flatten ↔ (∀ session ∈ prog, SessionConsistent session) ∧ CrossConsistent prog := by
  rw [List.flatten_flatten, consistent_flatten, List.pairwise_map]
  unfold SessionConsistent CrossConsistent
  constructor
  · rintro ⟨h, hp⟩
    exact ⟨fun s hs => h _ (List.mem_map_of_mem hs), hp⟩
  · rintro ⟨h, hp⟩
    refine ⟨fun x hx => ?_, hp⟩
    obtain ⟨s, hs, rfl⟩ := List.mem_map.1 hx
    exact h s hs

/-- the guard over a whole program -/
theorem guard_iff_of_segments {prog : Program} (hseg : SegmentsConsistent prog) :
    prog.all (sessionTypesOk []) = true ↔ ∀ session ∈ prog, SessionConsistent session := by
  rw [List.all_eq_true]
  constructor
  · intro h s hs; exact (sessionTypesOk_iff s (hseg s hs)).1 (h s hs)
  · intro h s hs; exact sessionTypesOk_of_consistent s (h s hs)

end Tdms.Proofs.C07Checked
