/-
  C06, whole-file truncation theorem for files of several self-describing segments: one iteration of the
  metadata loop on a segment that is not the first one (the reader already knows the objects), for the segment
  complete or cut.  Core Lean only.
-/
import TdmsProofs.Lemmas.C06WholeFile
import TdmsProofs.Lemmas.C02Basic

namespace Tdms.Proofs.C06Whole

open Tdms Tdms.Generated Tdms.Model Tdms.Proofs.Bytes Tdms.Proofs.C01Compose Tdms.Proofs.LeadIn
open Tdms.Proofs.C02 (PrevObjs.get_set)

/-! ## the object loop when the reader has seen the paths before -/

/-- what the reader remembers of the objects is compatible with a listing `os`: under every listed path it holds
    an object of that path, and for a path listed without data a bare object -/
def PrevOK (prev : PrevObjs) (os : List ObjEnc) : Prop :=
  ∀ o ∈ os, ∀ q, prev.get o.path = some q → q.path = o.path ∧ (isFull o = false → q = { path := o.path })

theorem PrevOK_nil (os : List ObjEnc) : PrevOK [] os := by
  intro o _ q h
  simp [PrevObjs.get] at h

theorem idxHeader_std_ne (o : ObjEnc) (ty n total : Nat) (h : o.idx = .full ty n total) :
    idxHeader o.idx ≠ rawDataIndexMatchesPrevious ∧ idxHeader o.idx ≠ rawDataIndexNoData := by
  rw [h]
  constructor
  · by_cases h' : ty = tyString <;> simp [idxHeader, h', rawDataIndexMatchesPrevious]
  · by_cases h' : ty = tyString <;> simp [idxHeader, h', rawDataIndexNoData]

/-- for a standard listing of a known path the reader does what it does for a new path -/
theorem reusePreviousObject_eq_new (e : Endian) (o : ObjEnc) (hstd : stdIdx o) (ordered : List SegObj) (q : SegObj)
    (hq : q.path = o.path) (hq' : isFull o = false → q = { path := o.path }) :
    reusePreviousObject e ordered q (idxHeader o.idx) = newObjStep e o.path (idxHeader o.idx) ordered := by
  rcases hstd with h | ⟨ty, n, total, h⟩
  · have hf : isFull o = false := by
      obtain ⟨p, idx, ps⟩ := o
      simp only at h; subst h; rfl
    rw [hq' hf, h]
    simp [reusePreviousObject, newObjStep, idxHeader, rawDataIndexNoData, rawDataIndexMatchesPrevious]
  · obtain ⟨h1, h2⟩ := idxHeader_std_ne o ty n total h
    simp only [reusePreviousObject, newObjStep, if_neg h1, if_neg h2, hq]

/-- the branch of `readOneObject` taken when there is no `existing` list -/
def stepCtx (e : Endian) (prevObjs : PrevObjs) (path : Bytes) (header : Nat) (ordered : List SegObj) :
    P (List SegObj) :=
  match prevObjs.get path with
  | some prev => reusePreviousObject e ordered prev header
  | none => newObjStep e path header ordered

theorem readOneObject_ctx_form (e : Endian) (prevObjs : PrevObjs) (ordered : List SegObj) :
    readOneObject e none prevObjs ordered = (do
      let path ← readString e
      let header ← uN e 4
      let ordered' ← stepCtx e prevObjs path header ordered
      let nProps ← uN e 4
      let props ← readProperties e nProps
      pure (ordered', path, props)) := by
  simp only [readOneObject, stepCtx, newObjStep]
  congr 1; funext path; congr 1; funext header
  cases hg : prevObjs.get path with
  | some q => rfl
  | none =>
    by_cases h1 : header = rawDataIndexMatchesPrevious
    · simp only [if_pos h1]
    · by_cases h2 : header = rawDataIndexNoData
      · simp only [if_neg h1, if_pos h2]
      · simp only [if_neg h1, if_neg h2, bind_assoc]

theorem readOneObject_encObj_ctx (e : Endian) (o : ObjEnc) (prevObjs : PrevObjs) (ordered : List SegObj)
    (rest : Bytes) (hwf : wfObj o = true) (hfit : objFits o) (hstd : stdIdx o)
    (hprev : ∀ q, prevObjs.get o.path = some q → q.path = o.path ∧ (isFull o = false → q = { path := o.path })) :
    readOneObject e none prevObjs ordered (encObj e o ++ rest) =
      .ok ((ordered ++ [segObjOf o], o.path, o.props.map canonProp), rest) := by
  obtain ⟨hne, hif, hpl, hpf⟩ := hfit
  simp only [wfObj, Bool.and_eq_true, decide_eq_true_eq, List.all_eq_true] at hwf
  obtain ⟨⟨hidx, hprops⟩, hpath⟩ := hwf
  have hstep : stepCtx e prevObjs o.path (idxHeader o.idx) ordered = newObjStep e o.path (idxHeader o.idx) ordered := by
    unfold stepCtx
    cases hg : prevObjs.get o.path with
    | none => rfl
    | some q =>
      obtain ⟨h1, h2⟩ := hprev q hg
      exact reusePreviousObject_eq_new e o hstd ordered q h1 h2
  rw [readOneObject_ctx_form]
  unfold encObj
  simp only [List.append_assoc]
  rw [P_bind_ok (readString_encString e _ _ hpath), P_bind_ok (uN_encIdx_header e _ _), hstep,
    P_bind_ok (newObjStep_enc e o.path o.idx ordered _ hne hidx hif),
    P_bind_ok (uN_enc_of_lt e (w := 4) hpl _),
    P_bind_ok (readProperties_encProps e o.props rest hprops hpf)]
  rfl

theorem readObjects_encObjs_ctx (e : Endian) (prevObjs : PrevObjs) (objs : List ObjEnc) :
    ∀ (ordered : List SegObj) (props : List (Bytes × List PropVal)) (rest : Bytes),
      (∀ o ∈ objs, wfObj o = true) → (∀ o ∈ objs, objFits o) → (∀ o ∈ objs, stdIdx o) → PrevOK prevObjs objs →
      readObjects e none prevObjs objs.length ordered props (objs.flatMap (encObj e) ++ rest) =
        .ok ((ordered ++ objs.map segObjOf, addProps props objs), rest) := by
  induction objs with
  | nil => intro ordered props rest _ _ _ _; simp [readObjects, addProps, P_pure]
  | cons o os ih =>
    intro ordered props rest hwf hfit hstd hprev
    simp only [List.length_cons, List.flatMap_cons, List.append_assoc, readObjects]
    rw [P_bind_ok (readOneObject_encObj_ctx e o prevObjs ordered _ (hwf o List.mem_cons_self)
      (hfit o List.mem_cons_self) (hstd o List.mem_cons_self) (hprev o List.mem_cons_self))]
    simp only []
    rw [ih _ _ rest (fun x hx => hwf x (List.mem_cons_of_mem _ hx))
      (fun x hx => hfit x (List.mem_cons_of_mem _ hx)) (fun x hx => hstd x (List.mem_cons_of_mem _ hx))
      (fun x hx => hprev x (List.mem_cons_of_mem _ hx))]
    simp [addProps, List.append_assoc]

/-! ## the lead-in of a segment placed at byte `P` -/

/-- lead-in of a segment at byte `P` of which `k` bytes are in the file: either the segment is cut (`k` smaller
    than its length; then the file ends there) or it is complete (then the file may go on, unless the lead-in
    carries the length-unknown marker, which is only allowed in the last segment) -/
theorem readLeadIn_at (s : SegEnc) (hver : s.version < 2 ^ 31) (m r P k size : Nat) (rest : Bytes)
    (hm : m < 2 ^ 63) (hr : r < 2 ^ 63) (hk : k ≤ 28 + m + r)
    (hcut : k < 28 + m + r → size = P + k)
    (hfull : k = 28 + m + r → P + k ≤ size ∧ (s.lengthUnknown = true → size = P + k)) :
    readLeadIn (encLeadIn tagData s m r ++ rest) P false (some size) =
      if k < 28 + m then .ok none
      else .ok (some ⟨tocMask s, s.version, P + 28 + m, P + k, s.lengthUnknown || decide (k < 28 + m + r)⟩) := by
  unfold encLeadIn
  cases hu : s.lengthUnknown with
  | true =>
    have hsize : size = P + k := by
      rcases Nat.lt_or_ge k (28 + m + r) with h | h
      · exact hcut h
      · exact (hfull (by omega)).2 hu
    simp only [if_true]
    rw [readLeadIn_fields s (2 ^ 64 - 1) m P (some size) rest hver (by omega) (by omega)]
    simp only [if_true, Bool.true_or, hsize]
    by_cases h1 : k < 28 + m
    · have : P + k < P + 28 + m := by omega
      simp [h1, this]
    · have : ¬ P + k < P + 28 + m := by omega
      simp [h1, this]
  | false =>
    simp only [Bool.false_eq_true, if_false, Bool.false_or]
    rw [readLeadIn_fields s (m + r) m P (some size) rest hver (by omega) (by omega)]
    have h1 : ¬ m + r = 2 ^ 64 - 1 := by omega
    simp only [if_neg h1]
    by_cases h2 : k < 28 + m + r
    · have hsize := hcut h2
      have h3 : P + (m + r) + 28 > size := by omega
      rw [if_pos h3]
      simp only [h2, decide_true, hsize]
      by_cases h4 : k < 28 + m
      · have : P + k < P + 28 + m := by omega
        simp [h4, this]
      · have : ¬ P + k < P + 28 + m := by omega
        simp [h4, this]
    · have hkL : k = 28 + m + r := by omega
      obtain ⟨hle, _⟩ := hfull hkL
      have h3 : ¬ P + (m + r) + 28 > size := by omega
      have h4 : ¬ k < 28 + m := by omega
      have h5 : P + (m + r) + 28 = P + k := by omega
      rw [if_neg h3, if_neg h4]
      simp only [h2, decide_false, h5]

/-! ## the metadata block, for a reader that knows the paths -/

theorem readSegmentObjects_ctx (s : SegEnc) (hm : s.hasMeta = true) (w : WfSingle s) (fit : SegFits s)
    (hstd : ∀ o ∈ s.objs, stdIdx o) (prevSeg : Option Segment) (prevObjs : PrevObjs)
    (hnew : prevSeg = none ∨ s.newList = true) (hprev : PrevOK prevObjs s.objs)
    (raw : Bytes) (P n dp : Nat) (inc : Bool) :
    readSegmentObjects ⟨P, tocMask s, n, dp, inc, [], 0, none⟩ prevSeg prevObjs (segMeta s ++ raw) =
      (calculateChunks ⟨P, tocMask s, n, dp, inc, s.objs.map segObjOf, 0, none⟩).map
        fun sg => (sg, propsOf s) := by
  have hflag : hasFlag (tocMask s) kTocMetaData = true := by rw [hasFlag_tocMask_meta, hm]
  have he : (⟨P, tocMask s, n, dp, inc, [], 0, none⟩ : Segment).endian = s.endian :=
    segEndian_of_tocMask s
  have hread := readObjects_encObjs_ctx s.endian prevObjs s.objs [] [] (List.replicate s.padding 0 ++ raw)
    w.objs fit.objs hstd hprev
  rw [addProps_noDup s.objs [] ((noDupPaths_iff _).mpr w.nodup) (fun _ _ x hx => by simp at hx)] at hread
  simp only [List.nil_append] at hread
  have hmeta : (do let n ← uN s.endian 4; readObjects s.endian none prevObjs n [] [])
      (segMeta s ++ raw) = .ok ((s.objs.map segObjOf, propsOf s),
        List.replicate s.padding 0 ++ raw) := by
    simp only [segMeta, hm, if_true, encMeta, List.append_assoc]
    rw [P_bind_ok (uN_enc_of_lt s.endian (w := 4) fit.nObjs _)]
    exact hread
  have hrun : StateT.run (do let n ← uN s.endian 4; readObjects s.endian none prevObjs n [] [])
      (segMeta s ++ raw) = .ok ((s.objs.map segObjOf, propsOf s),
        List.replicate s.padding 0 ++ raw) := hmeta
  have hnl : prevSeg ≠ none → hasFlag (tocMask s) kTocNewObjList = true := by
    intro hne
    rcases hnew with h | h
    · exact absurd h hne
    · rw [hasFlag_tocMask_newList, h]
  unfold readSegmentObjects
  simp only [hflag, Bool.not_true, Bool.false_eq_true, if_false, he]
  cases prevSeg with
  | none =>
    simp only []
    rw [hrun]
    simp only [bind, Except.bind]
    cases calculateChunks ⟨P, tocMask s, n, dp, inc, s.objs.map segObjOf, 0, none⟩ <;> rfl
  | some p =>
    simp only [hnl (by simp), if_true]
    rw [hrun]
    simp only [bind, Except.bind]
    cases calculateChunks ⟨P, tocMask s, n, dp, inc, s.objs.map segObjOf, 0, none⟩ <;> rfl

/-! ## `calculateChunks` for a segment placed at byte `P` -/

/-- length of the encoding of a segment -/
def encLen (s : SegEnc) : Nat := (encodeSeg s (s.objs.map actOf)).length

/-- the `Segment` record of segment `s` placed at byte `P` of which `k` bytes are in the file
    (`dataPosOf s ≤ k ≤ encLen s`) -/
def cutSegAt (s : SegEnc) (P k : Nat) : Segment :=
  { cutSeg s (encLen s) k with position := P, dataPosition := P + dataPosOf s, nextSegmentPos := P + k }

theorem calculateChunks_at (s : SegEnc) (hi : s.interleaved = false) (hstd : ∀ o ∈ s.objs, stdIdx o)
    (w : WfSingle s) (P k : Nat) (hk : dataPosOf s ≤ k) (hkL : k ≤ encLen s) :
    calculateChunks ⟨P, tocMask s, P + k, P + dataPosOf s, s.lengthUnknown || decide (k < encLen s),
        s.objs.map segObjOf, 0, none⟩ = .ok (cutSegAt s P k) := by
  unfold encLen at hkL
  have hc : chunkSize (s.objs.map segObjOf) = .ok (chunkBytes s.objs) := chunkSize_std' s.objs hstd
  have hdm := cut_div_mod s k hk
  by_cases hr : cutR s k = 0
  · rw [calculateChunks_whole _ (chunkBytes s.objs) (cutQ s k) hc
      (by show P + k = P + dataPosOf s + cutQ s k * chunkBytes s.objs; omega)
      (by intro h0; unfold cutQ; rw [h0, Nat.div_zero])]
    simp [cutSegAt, cutSeg, hr]
  · obtain ⟨hc0, hrc, hlt, _⟩ := cutR_pos_imp s w hi k hk hkL hr
    have hov := computeFinal_cut s hstd w ⟨P, tocMask s, P + k, P + dataPosOf s,
        s.lengthUnknown || decide (k < encLen s), s.objs.map segObjOf, 0, none⟩ rfl
      (by show hasFlag (tocMask s) kTocInterleavedData = false; rw [hasFlag_tocMask_interleaved, hi])
      (by show (s.lengthUnknown || decide (k < encLen s)) = true; unfold encLen; simp [hlt])
      (chunkBytes s.objs) (cutR s k)
    rw [Tdms.Proofs.C06.calculateChunks_truncated_ok _ (chunkBytes s.objs) (cutQ s k) (cutR s k)
      (ovOf s (cutR s k)) hc (by omega) hrc
      (by show P + k = P + dataPosOf s + (cutQ s k * chunkBytes s.objs + cutR s k); omega) hov]
    simp [cutSegAt, cutSeg, hr]

theorem numberOfSegmentValues_at (s : SegEnc) (P k : Nat) (o : ObjEnc) (h : stdIdx o) :
    numberOfSegmentValues (segObjOf o) (cutSegAt s P k) = cutNum s k o :=
  numberOfSegmentValues_cut s (encLen s) k o h

/-! ## object metadata: explicit `prevObjs`, and the update of existing entries -/

/-- the objects the reader remembers after a segment -/
def prevAfter (prev : PrevObjs) (os : List ObjEnc) : PrevObjs :=
  os.foldl (fun pr o => pr.set o.path (segObjOf o)) prev

theorem prevAfter_get_not_mem (os : List ObjEnc) : ∀ (prev : PrevObjs) (p : Bytes), p ∉ os.map (·.path) →
    (prevAfter prev os).get p = prev.get p := by
  induction os with
  | nil => intro prev p _; rfl
  | cons o os ih =>
    intro prev p hp
    simp only [List.map_cons, List.mem_cons, not_or] at hp
    show (prevAfter (prev.set o.path (segObjOf o)) os).get p = _
    rw [ih _ p hp.2, PrevObjs.get_set, if_neg hp.1]

theorem prevAfter_get_mem (os : List ObjEnc) (hnd : (os.map (·.path)).Nodup) :
    ∀ (prev : PrevObjs) (o : ObjEnc), o ∈ os → (prevAfter prev os).get o.path = some (segObjOf o) := by
  induction os with
  | nil => intro prev o ho; simp at ho
  | cons a as ih =>
    intro prev o ho
    simp only [List.map_cons, List.nodup_cons] at hnd
    obtain ⟨hno, hnd'⟩ := hnd
    show (prevAfter (prev.set a.path (segObjOf a)) as).get o.path = _
    rcases List.mem_cons.mp ho with rfl | h
    · rw [prevAfter_get_not_mem as _ _ hno, PrevObjs.get_set, if_pos rfl]
    · exact ih hnd' _ o h

/-- after a segment the reader's memory is compatible with every listing of the same signature -/
theorem prevOK_after (prev : PrevObjs) (os os' : List ObjEnc) (hstd : ∀ o ∈ os, stdIdx o)
    (hnd : (os.map (·.path)).Nodup) (hsig : os'.map (fun o => (o.path, isFull o)) = os.map (fun o => (o.path, isFull o))) :
    PrevOK (prevAfter prev os) os' := by
  intro o' ho' q hq
  have hmem : (o'.path, isFull o') ∈ os.map (fun o => (o.path, isFull o)) := by
    rw [← hsig]; exact List.mem_map.mpr ⟨o', ho', rfl⟩
  obtain ⟨o, ho, he⟩ := List.mem_map.mp hmem
  have hp : o.path = o'.path := congrArg Prod.fst he
  have hf : isFull o = isFull o' := congrArg Prod.snd he
  rw [← hp, prevAfter_get_mem os hnd prev o ho] at hq
  injection hq with hq
  subst hq
  refine ⟨by rw [segObjOf_path, hp], ?_⟩
  intro hfalse
  rw [← hf] at hfalse
  rw [← hp]
  have hso := hstd o ho
  obtain ⟨p, idx, ps⟩ := o
  rcases hso with h | ⟨ty, n, total, h⟩ <;> simp only at h <;> subst h
  · rfl
  · simp [isFull] at hfalse

/-- first segment: fresh entries, and what the reader remembers -/
theorem updateObjectMetadata_fresh (seg : Segment) (os : List ObjEnc) :
    ∀ (prev : PrevObjs) (ms : ObjMetas), (∀ o ∈ os, stdIdx o) → (os.map (·.path)).Nodup →
      (∀ o ∈ os, ∀ m ∈ ms, m.path ≠ o.path) →
      updateObjectMetadata seg (os.map segObjOf) prev ms =
        .ok (prevAfter prev os, ms ++ os.map (meta0N fun o => numberOfSegmentValues (segObjOf o) seg)) := by
  induction os with
  | nil => intro prev ms _ _ _; simp [updateObjectMetadata, prevAfter]
  | cons o os ih =>
    intro prev ms hstd hnd hfresh
    simp only [List.map_cons, List.nodup_cons, List.mem_map, not_exists, not_and] at hnd
    obtain ⟨hno, hnd'⟩ := hnd
    have hso := hstd o List.mem_cons_self
    have hget : ms.get o.path = none := by
      simp only [ObjMetas.get, List.find?_eq_none, decide_eq_true_eq]
      exact fun m hm => hfresh o List.mem_cons_self m hm
    have hany : ms.any (fun m => decide (m.path = o.path)) = false := by
      simp only [List.any_eq_false, decide_eq_true_eq]
      exact fun m hm => hfresh o List.mem_cons_self m hm
    have hsc : (segObjOf o).scalerTypes = none := by
      simp [SegObj.scalerTypes, segObjOf_daq o hso]
    have hr := ih (prev.set (segObjOf o).path (segObjOf o))
      (ms ++ [meta0N (fun o => numberOfSegmentValues (segObjOf o) seg) o])
      (fun q hq => hstd q (List.mem_cons_of_mem _ hq)) hnd' (by
        intro q hq m hm
        rcases List.mem_append.mp hm with hm | hm
        · exact hfresh q (List.mem_cons_of_mem _ hq) m hm
        · simp only [List.mem_singleton] at hm
          subst hm
          exact fun h => hno q hq h.symm)
    simp only [segObjOf_path] at hr
    simp only [List.map_cons, updateObjectMetadata, segObjOf_path, hget, Option.getD_none, Option.isSome_none,
      Bool.false_and, Bool.false_eq_true, if_false, hsc, Bool.and_false, ObjMetas.modify, hany,
      segObjOf_dataType o hso, Nat.zero_add]
    have hm0 : ({ path := o.path, dataType := tyOf o, numValues := numberOfSegmentValues (segObjOf o) seg } : ObjMeta)
        = meta0N (fun o => numberOfSegmentValues (segObjOf o) seg) o := rfl
    rw [hm0, hr]
    simp [prevAfter]

/-! ## `object_metadata` as functions of the path -/

/-- the `object_metadata` entry of an object when properties and value counts are given per path -/
def mkMeta (pf : Bytes → List PropVal) (nf : Bytes → Nat) (o : ObjEnc) : ObjMeta :=
  { path := o.path, props := pf o.path, dataType := tyOf o, scalerTypes := none, numValues := nf o.path }

/-- signature of an object: what must agree between the segments of the files considered -/
def sigOf (o : ObjEnc) : Bytes × Option Nat := (o.path, tyOf o)

theorem map_mkMeta_sig (pf : Bytes → List PropVal) (nf : Bytes → Nat) (os os' : List ObjEnc)
    (h : os'.map sigOf = os.map sigOf) : os'.map (mkMeta pf nf) = os.map (mkMeta pf nf) := by
  have e : mkMeta pf nf = (fun x : Bytes × Option Nat =>
      ({ path := x.1, props := pf x.1, dataType := x.2, scalerTypes := none, numValues := nf x.1 } : ObjMeta)) ∘ sigOf :=
    rfl
  rw [e, ← List.map_map, ← List.map_map, h]

theorem isFull_eq_tyOf (o : ObjEnc) : isFull o = (tyOf o).isSome := by
  obtain ⟨p, idx, ps⟩ := o
  cases idx <;> rfl

theorem sig_paths (os os' : List ObjEnc) (h : os'.map sigOf = os.map sigOf) :
    os'.map (·.path) = os.map (·.path) := by
  have := congrArg (List.map Prod.fst) h
  simpa [List.map_map, Function.comp_def, sigOf] using this

theorem sig_kinds (os os' : List ObjEnc) (h : os'.map sigOf = os.map sigOf) :
    os'.map (fun o => (o.path, isFull o)) = os.map (fun o => (o.path, isFull o)) := by
  have := congrArg (List.map fun x : Bytes × Option Nat => (x.1, x.2.isSome)) h
  simpa [List.map_map, Function.comp_def, sigOf, isFull_eq_tyOf] using this

/-- value of a per-path quantity given per object -/
def atPath {α : Type} (os : List ObjEnc) (g : ObjEnc → α) (d : α) (p : Bytes) : α :=
  ((os.find? (·.path = p)).map g).getD d

theorem atPath_mem {α : Type} (os : List ObjEnc) (hnd : (os.map (·.path)).Nodup) (g : ObjEnc → α) (d : α)
    (o : ObjEnc) (ho : o ∈ os) : atPath os g d o.path = g o := by
  unfold atPath
  rw [find_path_of_mem os hnd o ho]
  rfl

/-- value counts after a segment -/
def stepNf (s : SegEnc) (k : Nat) (nf : Bytes → Nat) : Bytes → Nat :=
  fun p => nf p + atPath s.objs (cutNum s k) 0 p

/-- properties after a segment: the listed properties are merged into the known ones, last write wins -/
def stepPf (s : SegEnc) (pf : Bytes → List PropVal) : Bytes → List PropVal :=
  fun p => match s.objs.find? (·.path = p) with
    | some o => (o.props.map canonProp).foldl setPropVal (pf p)
    | none => pf p

theorem updateObjectMetadata_ctx (seg : Segment) (pf : Bytes → List PropVal) (nf nf' : Bytes → Nat)
    (all : List ObjEnc) (hstd : ∀ o ∈ all, stdIdx o) (hnd : (all.map (·.path)).Nodup)
    (hnf : ∀ o ∈ all, nf' o.path = nf o.path + numberOfSegmentValues (segObjOf o) seg) :
    ∀ (os done : List ObjEnc) (prev : PrevObjs), all = done ++ os →
      updateObjectMetadata seg (os.map segObjOf) prev (done.map (mkMeta pf nf') ++ os.map (mkMeta pf nf)) =
        .ok (prevAfter prev os, all.map (mkMeta pf nf')) := by
  intro os
  induction os with
  | nil => intro done prev hall; subst hall; simp [updateObjectMetadata, prevAfter]
  | cons o os ih =>
    intro done prev hall
    have hmem : o ∈ all := by rw [hall]; simp
    have hso := hstd o hmem
    have hnd2 := hnd
    rw [hall, List.map_append, List.nodup_append] at hnd2
    obtain ⟨_, hnd_os, hdisj⟩ := hnd2
    simp only [List.map_cons, List.nodup_cons, List.mem_map, not_exists, not_and] at hnd_os
    obtain ⟨hno, _⟩ := hnd_os
    have hdone : ∀ y ∈ done.map (mkMeta pf nf'), y.path ≠ o.path := by
      intro y hy
      obtain ⟨d, hd, rfl⟩ := List.mem_map.mp hy
      exact hdisj d.path (List.mem_map.mpr ⟨d, hd, rfl⟩) o.path (by simp)
    have hrest : ∀ y ∈ os.map (mkMeta pf nf), y.path ≠ o.path := by
      intro y hy
      obtain ⟨d, hd, rfl⟩ := List.mem_map.mp hy
      exact fun h => hno d hd h
    have hget : ObjMetas.get (done.map (mkMeta pf nf') ++ (mkMeta pf nf o :: os.map (mkMeta pf nf))) o.path =
        some (mkMeta pf nf o) := by
      unfold ObjMetas.get
      rw [List.find?_append]
      have : (done.map (mkMeta pf nf')).find? (fun m => decide (m.path = o.path)) = none := by
        simp only [List.find?_eq_none, decide_eq_true_eq]
        exact hdone
      rw [this]
      simp [mkMeta]
    have hany : (done.map (mkMeta pf nf') ++ (mkMeta pf nf o :: os.map (mkMeta pf nf))).any
        (fun m => decide (m.path = o.path)) = true := by
      simp [mkMeta]
    have hsc : (segObjOf o).scalerTypes = none := by
      simp [SegObj.scalerTypes, segObjOf_daq o hso]
    have hty : (mkMeta pf nf o).dataType = (segObjOf o).dataType := by
      rw [segObjOf_dataType o hso]; rfl
    have hih := ih (done ++ [o]) (prev.set o.path (segObjOf o)) (by rw [hall]; simp)
    simp only [List.map_append, List.map_cons, List.map_nil, List.append_assoc, List.singleton_append] at hih
    simp only [List.map_cons, updateObjectMetadata, segObjOf_path, hget, Option.getD_some, hty,
      Bool.and_false, Bool.false_eq_true, if_false, hsc, Option.isSome_none, Bool.false_and, ObjMetas.modify, hany,
      if_true, ne_eq, not_true_eq_false, decide_false]
    rw [map_ite_unique (fun m : ObjMeta => m.path) o.path _ (done.map (mkMeta pf nf')) (os.map (mkMeta pf nf))
      (mkMeta pf nf o) rfl hdone hrest]
    have hupd : ({ path := (mkMeta pf nf o).path, props := (mkMeta pf nf o).props, dataType := (segObjOf o).dataType, scalerTypes := (mkMeta pf nf o).scalerTypes, numValues := (mkMeta pf nf o).numValues + numberOfSegmentValues (segObjOf o) seg } : ObjMeta) = mkMeta pf nf' o := by
      simp only [mkMeta, segObjOf_dataType o hso, hnf o hmem]
    rw [hupd, hih]
    rfl

theorem updateObjectProperties_ctx (pf pf' : Bytes → List PropVal) (nf : Bytes → Nat)
    (all : List ObjEnc) (hnd : (all.map (·.path)).Nodup)
    (hpf : ∀ o ∈ all, pf' o.path = (o.props.map canonProp).foldl setPropVal (pf o.path)) :
    ∀ (os done : List ObjEnc), all = done ++ os →
      updateObjectProperties (done.map (mkMeta pf' nf) ++ os.map (mkMeta pf nf))
        ((os.filter fun o => !o.props.isEmpty).map fun o => (o.path, o.props.map canonProp)) =
      all.map (mkMeta pf' nf) := by
  intro os
  induction os with
  | nil => intro done hall; subst hall; simp [updateObjectProperties]
  | cons o os ih =>
    intro done hall
    have hmem : o ∈ all := by rw [hall]; simp
    have hnd2 := hnd
    rw [hall, List.map_append, List.nodup_append] at hnd2
    obtain ⟨_, hnd_os, hdisj⟩ := hnd2
    simp only [List.map_cons, List.nodup_cons, List.mem_map, not_exists, not_and] at hnd_os
    obtain ⟨hno, _⟩ := hnd_os
    have hdone : ∀ y ∈ done.map (mkMeta pf' nf), y.path ≠ o.path := by
      intro y hy
      obtain ⟨d, hd, rfl⟩ := List.mem_map.mp hy
      exact hdisj d.path (List.mem_map.mpr ⟨d, hd, rfl⟩) o.path (by simp)
    have hrest : ∀ y ∈ os.map (mkMeta pf nf), y.path ≠ o.path := by
      intro y hy
      obtain ⟨d, hd, rfl⟩ := List.mem_map.mp hy
      exact fun h => hno d hd h
    have hih := ih (done ++ [o]) (by rw [hall]; simp)
    simp only [List.map_append, List.map_cons, List.map_nil, List.append_assoc, List.singleton_append] at hih
    by_cases hp : o.props = []
    · have h01 : mkMeta pf nf o = mkMeta pf' nf o := by
        have := hpf o hmem
        simp only [hp, List.map_nil, List.foldl_nil] at this
        simp [mkMeta, this]
      simp only [List.filter_cons, hp, List.isEmpty_nil, Bool.not_true, Bool.false_eq_true, if_false,
        List.map_cons, h01]
      exact hih
    · have hemp : o.props.isEmpty = false := by
        cases h : o.props with
        | nil => exact absurd h hp
        | cons a as => rfl
      have hany : (done.map (mkMeta pf' nf) ++ mkMeta pf nf o :: os.map (mkMeta pf nf)).any
          (fun m => decide (m.path = o.path)) = true := by
        simp [mkMeta]
      simp only [List.filter_cons, hemp, Bool.not_false, if_true, List.map_cons, updateObjectProperties,
        ObjMetas.modify, hany]
      rw [map_ite_unique (fun m : ObjMeta => m.path) o.path _ (done.map (mkMeta pf' nf)) (os.map (mkMeta pf nf))
        (mkMeta pf nf o) rfl hdone hrest]
      have hupd : ({ path := (mkMeta pf nf o).path, props := (o.props.map canonProp).foldl setPropVal (mkMeta pf nf o).props, dataType := (mkMeta pf nf o).dataType, scalerTypes := (mkMeta pf nf o).scalerTypes, numValues := (mkMeta pf nf o).numValues } : ObjMeta) = mkMeta pf' nf o := by
        simp only [mkMeta, hpf o hmem]
      rw [hupd]
      exact hih

/-! ## one iteration of the loop on a segment placed at byte `P` -/

/-- the bytes of segment `s` from byte `P` on: `k` bytes of it, then `B` -/
structure SegAt (file : Bytes) (s : SegEnc) (P k : Nat) (B : Bytes) : Prop where
  bytes : file.drop P = (encodeSeg s (s.objs.map actOf)).take k ++ B
  size : file.length = P + k + B.length
  le : k ≤ encLen s
  cut : k < encLen s → B = []
  marker : s.lengthUnknown = true → B = []

theorem loopStep_seg (file : Bytes) (s : SegEnc) (h : CutStd s) (fit : SegFits s) (P k : Nat) (B : Bytes)
    (hat : SegAt file s P k B) (hk : dataPosOf s ≤ k) (hlenS : encLen s < 2 ^ 63) (st : ReaderState)
    (hnew : st.segments.getLast? = none ∨ s.newList = true) (hprev : PrevOK st.prevObjs s.objs) :
    loopStep file false (some file.length) P P st =
      match updateObjectMetadata (cutSegAt s P k) (s.objs.map segObjOf) st.prevObjs st.objects with
      | .error e => .error e
      | .ok (prev', objs') =>
        .ok (.next (P + k) (P + k)
          { version := some (st.version.getD (s.version : Int)), versions := st.versions ++ [(s.version : Int)],
            prevObjs := prev', objects := updateObjectProperties objs' (propsOf s),
            segments := st.segments ++ [cutSegAt s P k] }) := by
  have w := h.wfSingle
  obtain ⟨hbytes, hsize, hle, hcut, hmark⟩ := hat
  have hL : encLen s = 28 + (segMeta s).length + (encRaw s (s.objs.map actOf)).length :=
    encodeSeg_length s (s.objs.map actOf)
  have htake := take_file_data s k hk
  rw [htake, List.append_assoc, List.append_assoc] at hbytes
  have hk' : ¬ k < 28 + (segMeta s).length := by unfold dataPosOf at hk; omega
  have hli : readLeadIn (file.drop P) P false (some file.length) =
      .ok (some ⟨tocMask s, s.version, P + dataPosOf s, P + k, s.lengthUnknown || decide (k < encLen s)⟩) := by
    rw [hbytes, readLeadIn_at s (version_lt s w) _ _ P k file.length _ (by omega) (by omega) (by omega)
      (by intro hlt; rw [hsize, hcut (by omega)]; simp)
      (by
        intro he
        refine ⟨by omega, fun hu => ?_⟩
        rw [hsize, hmark hu]; simp), if_neg hk', ← hL]
    unfold dataPosOf
    simp only [Nat.add_assoc]
  have hdrop : file.drop (P + 28) =
      segMeta s ++ ((encRaw s (s.objs.map actOf)).take (k - dataPosOf s) ++ B) := by
    rw [← List.drop_drop, hbytes]
    exact List.drop_left' (leadIn_length s _ _)
  have hseg : readSegmentObjects ⟨P, tocMask s, P + k, P + dataPosOf s, s.lengthUnknown || decide (k < encLen s),
      [], 0, none⟩ st.segments.getLast? st.prevObjs
      (segMeta s ++ ((encRaw s (s.objs.map actOf)).take (k - dataPosOf s) ++ B)) =
        .ok (cutSegAt s P k, propsOf s) := by
    rw [readSegmentObjects_ctx s h.hasMeta w fit h.stdObjs _ _ hnew hprev,
      calculateChunks_at s h.contiguous h.stdObjs w P k hk hle]
    rfl
  unfold loopStep
  rw [hli]
  simp only [hdrop]
  rw [hseg]
  simp only
  have hobj : (cutSegAt s P k).objects = s.objs.map segObjOf := rfl
  rw [hobj]
  cases updateObjectMetadata (cutSegAt s P k) (s.objs.map segObjOf) st.prevObjs st.objects with
  | error e => rfl
  | ok v => obtain ⟨prev', objs'⟩ := v; rfl

/-- the reader state when the objects are those of `os` and properties and value counts are given per path -/
def stAfter (os : List ObjEnc) (pf : Bytes → List PropVal) (nf : Bytes → Nat) (ver : Int) (vers : List Int)
    (segs : List Segment) (prev : PrevObjs) : ReaderState :=
  { version := some ver, versions := vers, prevObjs := prev, objects := os.map (mkMeta pf nf), segments := segs }

theorem stepNf_at (s : SegEnc) (w : WfSingle s) (k : Nat) (nf : Bytes → Nat) (o : ObjEnc) (ho : o ∈ s.objs) :
    stepNf s k nf o.path = nf o.path + cutNum s k o := by
  unfold stepNf
  rw [atPath_mem s.objs w.nodup _ _ o ho]

theorem stepPf_at (s : SegEnc) (w : WfSingle s) (pf : Bytes → List PropVal) (o : ObjEnc) (ho : o ∈ s.objs) :
    stepPf s pf o.path = (o.props.map canonProp).foldl setPropVal (pf o.path) := by
  unfold stepPf
  rw [find_path_of_mem s.objs w.nodup o ho]

/-- **a later segment** (the reader knows its objects), complete or cut inside its raw data -/
theorem loopStep_ctx (file : Bytes) (s : SegEnc) (h : CutStd s) (fit : SegFits s) (P k : Nat) (B : Bytes)
    (hat : SegAt file s P k B) (hk : dataPosOf s ≤ k) (hlenS : encLen s < 2 ^ 63)
    (pf : Bytes → List PropVal) (nf : Bytes → Nat) (ver : Int) (vers : List Int) (segs : List Segment)
    (prev : PrevObjs) (hnew : s.newList = true) (hprev : PrevOK prev s.objs) :
    loopStep file false (some file.length) P P (stAfter s.objs pf nf ver vers segs prev) =
      .ok (.next (P + k) (P + k) (stAfter s.objs (stepPf s pf) (stepNf s k nf) ver (vers ++ [(s.version : Int)])
        (segs ++ [cutSegAt s P k]) (prevAfter prev s.objs))) := by
  have w := h.wfSingle
  rw [loopStep_seg file s h fit P k B hat hk hlenS _ (.inr hnew) hprev]
  have hupd := updateObjectMetadata_ctx (cutSegAt s P k) pf nf (stepNf s k nf) s.objs h.stdObjs w.nodup
    (fun o ho => by rw [stepNf_at s w k nf o ho, numberOfSegmentValues_at s P k o (h.stdObjs o ho)])
    s.objs [] prev rfl
  have hprops := updateObjectProperties_ctx pf (stepPf s pf) (stepNf s k nf) s.objs w.nodup
    (fun o ho => stepPf_at s w pf o ho) s.objs [] rfl
  simp only [List.map_nil, List.nil_append] at hupd hprops
  simp only [stAfter]
  rw [hupd]
  simp only [propsOf, hprops, Option.getD_some]

/-- **the first segment** (empty reader state), complete or cut inside its raw data -/
theorem loopStep_first (file : Bytes) (s : SegEnc) (h : CutStd s) (fit : SegFits s) (k : Nat) (B : Bytes)
    (hat : SegAt file s 0 k B) (hk : dataPosOf s ≤ k) (hlenS : encLen s < 2 ^ 63) :
    loopStep file false (some file.length) 0 0 {} =
      .ok (.next k k (stAfter s.objs (stepPf s fun _ => []) (stepNf s k fun _ => 0) (s.version : Int)
        [(s.version : Int)] [cutSegAt s 0 k] (prevAfter [] s.objs))) := by
  have w := h.wfSingle
  rw [loopStep_seg file s h fit 0 k B hat hk hlenS {} (.inl rfl) (PrevOK_nil _)]
  have hupd := updateObjectMetadata_fresh (cutSegAt s 0 k) s.objs [] [] h.stdObjs w.nodup
    (fun _ _ m hm => by simp at hm)
  have hnv : s.objs.map (meta0N fun o => numberOfSegmentValues (segObjOf o) (cutSegAt s 0 k)) =
      s.objs.map (mkMeta (fun _ => []) (stepNf s k fun _ => 0)) := by
    apply List.map_congr_left
    intro o ho
    simp only [meta0N, mkMeta, numberOfSegmentValues_at s 0 k o (h.stdObjs o ho), stepNf_at s w k _ o ho,
      Nat.zero_add]
  have hprops := updateObjectProperties_ctx (fun _ => []) (stepPf s fun _ => []) (stepNf s k fun _ => 0) s.objs
    w.nodup (fun o ho => stepPf_at s w _ o ho) s.objs [] rfl
  simp only [List.map_nil, List.nil_append] at hupd hprops
  rw [hnv] at hupd
  have e1 : ({} : ReaderState).prevObjs = [] := rfl
  have e2 : ({} : ReaderState).objects = [] := rfl
  rw [e1, e2, hupd]
  simp only [propsOf, hprops, Nat.zero_add, stAfter]
  rfl

/-- **a segment cut before its raw data** (inside lead-in, metadata or padding) ends the loop; the version number
    is recorded when the lead-in is there -/
theorem loopStep_dropped_at (file : Bytes) (s : SegEnc) (w : WfSingle s) (P k : Nat)
    (hat : SegAt file s P k []) (hk : k < dataPosOf s) (hlenS : encLen s < 2 ^ 63) (st : ReaderState) :
    loopStep file false (some file.length) P P st =
      .ok (.done (if k < 28 then st else
        { st with version := some (st.version.getD (s.version : Int)), versions := st.versions ++ [(s.version : Int)] })) := by
  obtain ⟨hbytes, hsize, hle, _, _⟩ := hat
  have hL : encLen s = 28 + (segMeta s).length + (encRaw s (s.objs.map actOf)).length :=
    encodeSeg_length s (s.objs.map actOf)
  simp only [List.append_nil, List.length_nil, Nat.add_zero] at hbytes hsize
  by_cases h28 : k < 28
  · rw [loopStep_past_end _ _ _ _ _ _ (by omega), if_pos h28]
  · unfold dataPosOf at hk
    unfold loopStep
    rw [hbytes, take_file s k (by omega),
      readLeadIn_at s (version_lt s w) _ _ P k file.length _ (by omega) (by omega) (by omega)
        (fun _ => hsize) (fun he => by omega), if_pos hk,
      leadInVersion_encLeadIn s _ _ _ (version_lt s w), if_neg h28]

/-! ## the loop over several segments -/

/-- the bytes of a list of segments -/
def encAll (ss : List SegEnc) : Bytes := ss.flatMap fun s => encodeSeg s (s.objs.map actOf)

def runPf : List SegEnc → (Bytes → List PropVal) → (Bytes → List PropVal)
  | [], pf => pf
  | s :: ss, pf => runPf ss (stepPf s pf)

def runNf : List SegEnc → (Bytes → Nat) → (Bytes → Nat)
  | [], nf => nf
  | s :: ss, nf => runNf ss (stepNf s (encLen s) nf)

/-- the `Segment` records of complete segments laid out from byte `P` on -/
def runSegs : Nat → List SegEnc → List Segment
  | _, [] => []
  | P, s :: ss => cutSegAt s P (encLen s) :: runSegs (P + encLen s) ss

theorem encAll_cons (s : SegEnc) (ss : List SegEnc) :
    encAll (s :: ss) = encodeSeg s (s.objs.map actOf) ++ encAll ss := rfl

theorem encAll_length_cons (s : SegEnc) (ss : List SegEnc) :
    (encAll (s :: ss)).length = encLen s + (encAll ss).length := by
  rw [encAll_cons, List.length_append]; rfl

theorem encLen_ge (s : SegEnc) : 28 ≤ encLen s := by
  unfold encLen; rw [encodeSeg_length]; omega

/-- what the later segments of the files considered satisfy, relative to the objects `os₀` of the first -/
structure LaterOK (os₀ : List ObjEnc) (s : SegEnc) : Prop where
  std : CutStd s
  fits : SegFits s
  newList : s.newList = true
  sig : s.objs.map sigOf = os₀.map sigOf
  len : encLen s < 2 ^ 63

/-- the reader's memory is compatible with every listing of the signature of `os₀` -/
def PrevSig (prev : PrevObjs) (os₀ : List ObjEnc) : Prop :=
  ∀ os, os.map sigOf = os₀.map sigOf → PrevOK prev os

theorem prevSig_after (prev : PrevObjs) (os os₀ : List ObjEnc) (hstd : ∀ o ∈ os, stdIdx o)
    (hnd : (os.map (·.path)).Nodup) (hsig : os.map sigOf = os₀.map sigOf) : PrevSig (prevAfter prev os) os₀ := by
  intro os' h'
  exact prevOK_after prev os os' hstd hnd (sig_kinds os os' (by rw [h', hsig]))


theorem stAfter_sig (os os' : List ObjEnc) (h : os'.map sigOf = os.map sigOf) (pf : Bytes → List PropVal)
    (nf : Bytes → Nat) (ver : Int) (vers : List Int) (segs : List Segment) (prev : PrevObjs) :
    stAfter os' pf nf ver vers segs prev = stAfter os pf nf ver vers segs prev := by
  unfold stAfter
  rw [map_mkMeta_sig pf nf os os' h]

/-- the complete segments in the middle of the file: the loop passes over them -/
theorem loop_mid (file : Bytes) (os₀ : List ObjEnc) (ver : Int) :
    ∀ (mid : List SegEnc) (tail : Bytes) (P : Nat) (pf : Bytes → List PropVal) (nf : Bytes → Nat)
      (vers : List Int) (segs : List Segment) (prev : PrevObjs) (fuel : Nat),
      (∀ s ∈ mid, LaterOK os₀ s ∧ s.lengthUnknown = false) →
      file.drop P = encAll mid ++ tail → file.length = P + (encAll mid).length + tail.length →
      PrevSig prev os₀ →
      ∃ prev', PrevSig prev' os₀ ∧
        readMetadataLoop file false (some file.length) (fuel + mid.length) P P (stAfter os₀ pf nf ver vers segs prev) =
          readMetadataLoop file false (some file.length) fuel (P + (encAll mid).length) (P + (encAll mid).length)
            (stAfter os₀ (runPf mid pf) (runNf mid nf) ver (vers ++ mid.map fun s => (s.version : Int))
              (segs ++ runSegs P mid) prev') := by
  intro mid
  induction mid with
  | nil =>
    intro tail P pf nf vers segs prev fuel _ _ _ hprev
    exact ⟨prev, hprev, by simp [encAll, runPf, runNf, runSegs]⟩
  | cons s mid ih =>
    intro tail P pf nf vers segs prev fuel hall hbytes hsize hprev
    obtain ⟨hs, hlu⟩ := hall s List.mem_cons_self
    have w := hs.std.wfSingle
    rw [encAll_cons, List.append_assoc] at hbytes
    rw [encAll_length_cons] at hsize
    have hat : SegAt file s P (encLen s) (encAll mid ++ tail) := by
      refine ⟨?_, ?_, Nat.le_refl _, fun h => absurd h (Nat.lt_irrefl _), fun h => ?_⟩
      · rw [hbytes]; unfold encLen; rw [List.take_length]
      · rw [hsize, List.length_append]; omega
      · rw [hlu] at h; cases h
    have hLd : dataPosOf s ≤ encLen s := by
      unfold encLen; rw [file_length s w hs.std.contiguous]; omega
    have hstep := loopStep_ctx file s hs.std hs.fits P (encLen s) _ hat hLd hs.len pf nf ver vers segs prev
      hs.newList (hprev s.objs hs.sig)
    rw [stAfter_sig os₀ s.objs hs.sig, stAfter_sig os₀ s.objs hs.sig] at hstep
    obtain ⟨prev', hprev', hrest⟩ := ih tail (P + encLen s) (stepPf s pf) (stepNf s (encLen s) nf)
      (vers ++ [(s.version : Int)]) (segs ++ [cutSegAt s P (encLen s)]) (prevAfter prev s.objs) fuel
      (fun x hx => hall x (List.mem_cons_of_mem _ hx))
      (by rw [← List.drop_drop, hbytes]; unfold encLen; rw [List.drop_left])
      (by rw [hsize]; omega)
      (prevSig_after prev s.objs os₀ hs.std.stdObjs w.nodup hs.sig)
    refine ⟨prev', hprev', ?_⟩
    have hfuel : fuel + (s :: mid).length = (fuel + mid.length) + 1 := by simp only [List.length_cons]; omega
    rw [hfuel, readMetadataLoop_succ, hstep]
    simp only
    rw [hrest]
    simp only [runPf, runNf, runSegs, List.map_cons, List.append_assoc, List.singleton_append,
      encAll_length_cons, Nat.add_assoc]

/-! ## `readMetadata` on a file of several segments whose last one is cut (or complete) -/

/-- the files considered: a complete first segment `s₀`, complete segments `mid`, and a last segment `s` of which
    `k` bytes are present -/
structure MultiOK (s₀ : SegEnc) (mid : List SegEnc) (s : SegEnc) : Prop where
  first : CutStd s₀
  firstFits : SegFits s₀
  firstKnown : s₀.lengthUnknown = false
  firstLen : encLen s₀ < 2 ^ 63
  mid : ∀ x ∈ mid, LaterOK s₀.objs x ∧ x.lengthUnknown = false
  last : LaterOK s₀.objs s

/-- the reader state for such a file -/
def multiState (s₀ : SegEnc) (mid : List SegEnc) (s : SegEnc) (k : Nat) (prev : PrevObjs) : ReaderState :=
  if dataPosOf s ≤ k then
    stAfter s₀.objs (stepPf s (runPf (s₀ :: mid) fun _ => [])) (stepNf s k (runNf (s₀ :: mid) fun _ => 0))
      (s₀.version : Int) (((s₀ :: mid).map fun x => (x.version : Int)) ++ [(s.version : Int)])
      (runSegs 0 (s₀ :: mid) ++ [cutSegAt s (encAll (s₀ :: mid)).length k]) prev
  else
    stAfter s₀.objs (runPf (s₀ :: mid) fun _ => []) (runNf (s₀ :: mid) fun _ => 0)
      (s₀.version : Int) (((s₀ :: mid).map fun x => (x.version : Int)) ++ (if k < 28 then [] else [(s.version : Int)]))
      (runSegs 0 (s₀ :: mid)) prev

theorem readMetadata_multi (s₀ : SegEnc) (mid : List SegEnc) (s : SegEnc) (H : MultiOK s₀ mid s) (k : Nat)
    (hk : k ≤ encLen s) :
    ∃ prev, readMetadata (encAll (s₀ :: mid) ++ (encodeSeg s (s.objs.map actOf)).take k) =
      .ok (multiState s₀ mid s k prev) := by
  have w₀ := H.first.wfSingle
  have ws := H.last.std.wfSingle
  generalize hfile : encAll (s₀ :: mid) ++ (encodeSeg s (s.objs.map actOf)).take k = file
  have htk : ((encodeSeg s (s.objs.map actOf)).take k).length = k := by
    rw [List.length_take]; unfold encLen at hk; omega
  have hflen : file.length = encLen s₀ + (encAll mid).length + k := by
    rw [← hfile, List.length_append, encAll_length_cons, htk]
  have hmidlen : mid.length ≤ (encAll mid).length := by
    clear hfile hflen H
    induction mid with
    | nil => simp
    | cons x xs ih => rw [encAll_length_cons]; have := encLen_ge x; simp only [List.length_cons]; omega
  -- first segment
  have hat₀ : SegAt file s₀ 0 (encLen s₀) (encAll mid ++ (encodeSeg s (s.objs.map actOf)).take k) := by
    refine ⟨?_, ?_, Nat.le_refl _, fun h => absurd h (Nat.lt_irrefl _), fun h => ?_⟩
    · rw [List.drop_zero, ← hfile, encAll_cons, List.append_assoc]; unfold encLen; rw [List.take_length]
    · rw [hflen, List.length_append, htk]; omega
    · rw [H.firstKnown] at h; cases h
  have hLd₀ : dataPosOf s₀ ≤ encLen s₀ := by
    unfold encLen; rw [file_length s₀ w₀ H.first.contiguous]; omega
  have hstep₀ := loopStep_first file s₀ H.first H.firstFits (encLen s₀) _ hat₀ hLd₀ H.firstLen
  -- middle segments
  obtain ⟨prev1, hprev1, hmid⟩ := loop_mid file s₀.objs (s₀.version : Int) mid
    ((encodeSeg s (s.objs.map actOf)).take k) (encLen s₀) (stepPf s₀ fun _ => []) (stepNf s₀ (encLen s₀) fun _ => 0)
    [(s₀.version : Int)] [cutSegAt s₀ 0 (encLen s₀)] (prevAfter [] s₀.objs) (file.length - mid.length - 1 + 1)
    H.mid
    (by rw [← hfile, encAll_cons, List.append_assoc]; unfold encLen; rw [List.drop_left])
    (by rw [hflen, htk])
    (prevSig_after [] s₀.objs s₀.objs H.first.stdObjs w₀.nodup rfl)
  have hP : encLen s₀ + (encAll mid).length = (encAll (s₀ :: mid)).length := (encAll_length_cons s₀ mid).symm
  have hfuel : file.length + 1 = (file.length - mid.length - 1 + 1 + mid.length) + 1 := by
    have := encLen_ge s₀; omega
  unfold readMetadata
  rw [hfuel, readMetadataLoop_succ, hstep₀]
  simp only
  rw [hmid, hP]
  -- last segment
  have hats : SegAt file s (encAll (s₀ :: mid)).length k [] := by
    refine ⟨?_, ?_, hk, fun _ => rfl, fun _ => rfl⟩
    · rw [← hfile, List.drop_left, List.append_nil]
    · rw [hflen, ← hP]; simp
  by_cases hkd : dataPosOf s ≤ k
  · have hstep := loopStep_ctx file s H.last.std H.last.fits _ k [] hats hkd H.last.len
      (runPf mid (stepPf s₀ fun _ => [])) (runNf mid (stepNf s₀ (encLen s₀) fun _ => 0)) (s₀.version : Int)
      ([(s₀.version : Int)] ++ mid.map fun x => (x.version : Int))
      ([cutSegAt s₀ 0 (encLen s₀)] ++ runSegs (encLen s₀) mid) prev1 H.last.newList (hprev1 s.objs H.last.sig)
    rw [stAfter_sig s₀.objs s.objs H.last.sig, stAfter_sig s₀.objs s.objs H.last.sig] at hstep
    have hend : file.length < (encAll (s₀ :: mid)).length + k + 28 := by rw [hflen, ← hP]; omega
    refine ⟨prevAfter prev1 s.objs, ?_⟩
    have hf2 : file.length - mid.length - 1 + 1 = (file.length - mid.length - 2) + 1 + 1 := by
      have := encLen_ge s₀
      have : 28 ≤ k := by unfold dataPosOf at hkd; omega
      omega
    rw [hf2, readMetadataLoop_succ, hstep]
    simp only
    rw [readMetadataLoop_succ, loopStep_past_end _ _ _ _ _ _ hend]
    simp only [multiState, if_pos hkd, runPf, runNf, runSegs, List.map_cons, Nat.zero_add,
      List.cons_append, List.nil_append]
  · have hstep := loopStep_dropped_at file s ws _ k hats (by omega) H.last.len
      (stAfter s₀.objs (runPf mid (stepPf s₀ fun _ => [])) (runNf mid (stepNf s₀ (encLen s₀) fun _ => 0))
        (s₀.version : Int) ([(s₀.version : Int)] ++ mid.map fun x => (x.version : Int))
        ([cutSegAt s₀ 0 (encLen s₀)] ++ runSegs (encLen s₀) mid) prev1)
    refine ⟨prev1, ?_⟩
    rw [readMetadataLoop_succ, hstep]
    simp only [multiState, if_neg hkd, runPf, runNf, runSegs, List.map_cons, Nat.zero_add,
      List.cons_append, List.nil_append]
    by_cases h28 : k < 28
    · simp [h28, stAfter]
    · simp [h28, stAfter]

end Tdms.Proofs.C06Whole
