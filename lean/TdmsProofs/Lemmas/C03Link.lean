/-
  C03 — the hypotheses of the C04 window theorem discharged from `SegsOk`:
  `ValsOk`, `ReadsAs` (for the chunk lists `segReadChannel` really returns, including the extra empty
  chunk of a segment without raw data), and the comparison of that supplier with `supOf`.
  Core Lean only.
-/
import TdmsProofs.Lemmas.C03Window

namespace Tdms.Proofs.C03

open Tdms Tdms.Generated Tdms.Model Tdms.Proofs.Bytes Tdms.Proofs.C04

theorem getElem?_map_layout {segs : List Segment} {p : Bytes} {i : Nat} {l : SegL}
    (h : (segs.map (layoutOf p))[i]? = some l) : ∃ s, segs[i]? = some s ∧ s ∈ segs ∧ l = layoutOf p s := by
  rw [List.getElem?_map] at h
  cases hs : segs[i]? with
  | none => rw [hs] at h; cases h
  | some s =>
    rw [hs] at h
    exact ⟨s, rfl, List.mem_of_getElem? hs, (Option.some.inj h).symm⟩

/-- the chunk contents have the lengths the layout prescribes -/
theorem valsOk_chanVals (file : Bytes) (segs : List Segment) (p : Bytes) (hok : SegsOk file segs)
    (hwf : WellFormed (segs.map (layoutOf p))) : ValsOk (segs.map (layoutOf p)) (chanVals file segs p) := by
  intro i l hl j hj
  obtain ⟨s, hs, hmem, rfl⟩ := getElem?_map_layout hl
  have hj' : j < s.numChunks := hj
  unfold chanVals
  rw [hs]
  simp only []
  by_cases hcs : (layoutOf p s).cs = 0
  · have hl : (layoutOf p s).WF := hwf _ (List.mem_map_of_mem hmem)
    unfold segChanVals
    rw [if_pos hcs]
    unfold SegL.chunkLen
    unfold SegL.WF at hl
    cases hf : (layoutOf p s).f with
    | none => simp [hcs]
    | some n =>
      rw [hf] at hl
      simp only []
      split
      · simp; omega
      · simp [hcs]
  · exact (lazyChunk_vals (hok s hmem) p hcs j hj').2

/-! ## the supplier -/

/-- inside the segment, what `segReadChannel` returns is `supOf`'s chunk list after the optional
    empty chunk -/
theorem supActual_eq (file : Bytes) (segs : List Segment) (p : Bytes) (hok : SegsOk file segs)
    (i : Nat) (s : Segment) (hs : segs[i]? = some s) (hcs : (layoutOf p s).cs ≠ 0) (co : Nat) (nc : Int)
    (hin : co + nc.toNat ≤ s.numChunks) :
    supActual file segs p i co nc =
      (if !hasFlag s.toc kTocRawData then [({} : ChanChunk)] else []) ++ supOf (chanVals file segs p) i co nc := by
  unfold supActual supOf lazySegChunks
  rw [hs]
  simp only []
  congr 1
  apply List.map_congr_left
  intro j hj
  rw [List.mem_range'_1] at hj
  have := (lazyChunk_vals (hok s (List.mem_of_getElem? hs)) p hcs j (by omega)).1
  rw [this]
  simp [chanVals, hs]

theorem segPlan_cs {p : Bytes} {ix : ChannelIndex} {offset endIndex : Int} {startSeg endSeg i : Nat} {s : Segment}
    {r : Int × Int × Int} (h : segPlan p ix offset endIndex startSeg endSeg i s = some r) : (layoutOf p s).cs ≠ 0 := by
  intro hz
  rw [segPlan_eq_planA] at h
  unfold planA at h
  rw [if_pos hz] at h
  cases h

/-- **the hypothesis of the C04 link lemma holds** for every window: each segment read the loop
    makes succeeds and returns `supActual` -/
theorem readsAs_actual (f : OpenFile) (p : Bytes) (numValues : Nat) (hok : SegsOk f.file f.segments)
    (hwf : WellFormed (f.segments.map (layoutOf p))) (hnum : numValues = total (f.segments.map (layoutOf p)))
    (offset : Int) (length : Option Int) (h0 : 0 ≤ offset) :
    ReadsAs f p numValues offset length (supActual f.file f.segments p) := by
  unfold ReadsAs
  intro w i s hs h1 h2
  have hso := hok s (List.mem_of_getElem? hs)
  refine ⟨fun st => verifySegmentStart_ok hso st, ?_⟩
  intro co skip nc hplan st
  have hp := plan_ok f.segments p numValues hwf hnum offset length h0 i s hs h1 h2 co skip nc hplan
  obtain ⟨st', h⟩ := segReadChannel_exact f.file s (segCsz s) hso.contig p co.toNat nc hp.inside st
  refine ⟨st', ?_⟩
  show segReadChannel f.file s p co.toNat (some nc) st = _
  rw [h]
  simp [supActual, hs]

/-! ## the optional empty chunk does not change what a window returns -/

theorem trimStream_empty_cons (len : Int) (cs : List ChanChunk) (vr : Int) :
    dataOf (trimStream len (({} : ChanChunk) :: cs) 0 vr).1 = dataOf (trimStream len cs 0 vr).1 ∧
    (trimStream len (({} : ChanChunk) :: cs) 0 vr).2 = (trimStream len cs 0 vr).2 := by
  have hlen : (({} : ChanChunk).len : Int) = 0 := rfl
  have hd : ∀ t, (trimChannelChunk ({} : ChanChunk) 0 t).data = none := by
    intro t
    unfold trimChannelChunk
    split <;> rfl
  simp only [trimStream, hlen, Int.add_zero, Int.natCast_zero, Int.sub_zero, dataOf_cons, hd]
  simp

theorem windowLoopPure_congr (sup1 sup2 : Supplier) (p : Bytes) (ix : ChannelIndex) (offset endIndex len : Int)
    (startSeg endSeg : Nat) :
    ∀ (rest : List Segment) (i : Nat) (vr : Int),
      (∀ t s, rest[t]? = some s → ∀ co skip nc, segPlan p ix offset endIndex startSeg endSeg (i + t) s = some (co, skip, nc) →
        ∀ vr', dataOf (trimStream len (sup1 (i + t) co.toNat nc) skip.toNat vr').1
            = dataOf (trimStream len (sup2 (i + t) co.toNat nc) skip.toNat vr').1 ∧
          (trimStream len (sup1 (i + t) co.toNat nc) skip.toNat vr').2
            = (trimStream len (sup2 (i + t) co.toNat nc) skip.toNat vr').2) →
      dataOf (windowLoopPure sup1 p ix offset endIndex len startSeg endSeg rest i vr)
        = dataOf (windowLoopPure sup2 p ix offset endIndex len startSeg endSeg rest i vr) := by
  intro rest
  induction rest with
  | nil => intro i vr _; rfl
  | cons s rest ih =>
    intro i vr h
    have hrest : ∀ t s', rest[t]? = some s' → ∀ co skip nc,
        segPlan p ix offset endIndex startSeg endSeg (i + 1 + t) s' = some (co, skip, nc) →
        ∀ vr', dataOf (trimStream len (sup1 (i + 1 + t) co.toNat nc) skip.toNat vr').1
            = dataOf (trimStream len (sup2 (i + 1 + t) co.toNat nc) skip.toNat vr').1 ∧
          (trimStream len (sup1 (i + 1 + t) co.toNat nc) skip.toNat vr').2
            = (trimStream len (sup2 (i + 1 + t) co.toNat nc) skip.toNat vr').2 := by
      intro t s' hs'
      have := h (t + 1) s' (by simpa using hs')
      rw [show i + (t + 1) = i + 1 + t by omega] at this
      exact this
    simp only [windowLoopPure]
    cases hplan : segPlan p ix offset endIndex startSeg endSeg i s with
    | none => exact ih (i + 1) vr hrest
    | some r =>
      obtain ⟨co, skip, nc⟩ := r
      have h0 := h 0 s (by simp) co skip nc (by rw [Nat.add_zero]; exact hplan) vr
      rw [Nat.add_zero] at h0
      simp only []
      rw [dataOf_append, dataOf_append, h0.1, h0.2]
      congr 1
      exact ih (i + 1) _ hrest

/-- the window computed from the chunk lists the segment reads really return carries the same
    values as the window computed from `supOf` -/
theorem windowPureG_actual (file : Bytes) (segs : List Segment) (p : Bytes) (numValues : Nat)
    (hok : SegsOk file segs) (hwf : WellFormed (segs.map (layoutOf p)))
    (hnum : numValues = total (segs.map (layoutOf p))) (offset : Int) (length : Option Int) (h0 : 0 ≤ offset) :
    dataOf (windowPureG segs p numValues (supActual file segs p) offset length)
      = dataOf (windowPureG segs p numValues (supOf (chanVals file segs p)) offset length) := by
  unfold windowPureG
  apply windowLoopPure_congr
  intro t s hs co skip nc hplan vr'
  obtain ⟨ht, hs'⟩ := getElem?_take_drop _ _ _ _ _ hs
  have hp := plan_ok segs p numValues hwf hnum offset length h0 _ s hs' (by omega) (by omega) co skip nc hplan
  rw [supActual_eq file segs p hok _ s hs' (segPlan_cs hplan) co.toNat nc hp.inside]
  cases hraw : hasFlag s.toc kTocRawData with
  | true => simp
  | false =>
    have hk0 := (hok s (List.mem_of_getElem? hs')).noRaw hraw
    have hskip : skip = 0 := by
      by_cases h : skip = 0
      · exact h
      · have := hp.skip_chunks h; omega
    subst hskip
    simp only [Bool.not_false, if_true, List.singleton_append, Int.toNat_zero]
    exact trimStream_empty_cons _ _ _

end Tdms.Proofs.C03
