import TdmsProofs.Lemmas.C05Cache

/-! # C05: how many values one channel chunk can hold (needed for chunk locality) -/

namespace Tdms.Proofs.C05

open Tdms Tdms.Model Tdms.Generated

/-- postcondition on the value of a successful run -/
def Post {α : Type} (m : F α) (Q : α → Prop) : Prop := ∀ s a s', m s = .ok (a, s') → Q a

variable {α β : Type}

theorem Post.bind {m : F α} {k : α → F β} {Q : α → Prop} {R : β → Prop}
    (hm : Post m Q) (hk : ∀ a, Q a → Post (k a) R) : Post (m >>= k) R := by
  intro s b s'' hrun
  cases h1 : m s with
  | error e => rw [bind_run_error h1] at hrun; cases hrun
  | ok x =>
    obtain ⟨a, s'⟩ := x
    rw [bind_run_ok h1] at hrun
    exact hk a (hm s a s' h1) s' b s'' hrun

theorem Post.pure {Q : α → Prop} (a : α) (h : Q a) : Post (pure a : F α) Q := by
  intro s a' s' hrun
  have : (Except.ok (a, s) : Except Err (α × FState)) = .ok (a', s') := hrun
  injection this with this
  simp only [Prod.mk.injEq] at this
  rw [← this.1]; exact h

theorem Post.throw {Q : α → Prop} (e : Err) : Post (throw e : F α) Q := by
  intro s a' s' hrun
  have : (Except.error e : Except Err (α × FState)) = .ok (a', s') := hrun
  cases this

theorem Post.true (m : F α) : Post m (fun _ => True) := fun _ _ _ _ => trivial

theorem Post.mono {m : F α} {Q Q' : α → Prop} (h : Post m Q) (hq : ∀ a, Q a → Q' a) : Post m Q' :=
  fun s a s' hrun => hq a (h s a s' hrun)

theorem Post.liftE {Q : α → Prop} (x : Except Err α) (h : ∀ a, x = .ok a → Q a) : Post (liftE x) Q := by
  cases x with
  | error e =>
    intro s a' s' hrun
    have : (Except.error e : Except Err (α × FState)) = .ok (a', s') := hrun
    cases this
  | ok a =>
    intro s a' s' hrun
    have : (Except.ok (a, s) : Except Err (α × FState)) = .ok (a', s') := hrun
    injection this with this
    simp only [Prod.mk.injEq] at this
    rw [← this.1]; exact h a rfl

theorem Post.ite {c : Prop} [Decidable c] {a b : F α} {Q : α → Prop}
    (ha : c → Post a Q) (hb : ¬ c → Post b Q) : Post (if c then a else b) Q := by
  split
  · exact ha ‹_›
  · exact hb ‹_›

theorem splitEvery_length_le (w k : Nat) (bs : Bytes) : (splitEvery w k bs).length ≤ k := by
  induction k generalizing bs with
  | zero => simp [splitEvery]
  | succ k ih =>
    unfold splitEvery
    split
    · simp
    · simp only [List.length_cons]
      have := ih (bs.drop w)
      omega

theorem post_offsets (file : Bytes) (e : Endian) (n : Nat) :
    Post (readStringValues.offsets file e n) (fun l => l.length = n) := by
  induction n with
  | zero => unfold readStringValues.offsets; exact Post.pure _ rfl
  | succ k ih =>
    unfold readStringValues.offsets
    refine Post.bind (Post.true _) (fun b _ => ?_)
    dsimp only
    refine Post.ite (fun _ => ?_) (fun _ => ?_)
    · rw [throw_bind_F]; exact Post.throw _
    · exact Post.bind ih (fun rest hrest => Post.pure _ (by simp [hrest]))

theorem post_strings (file : Bytes) (prev : Nat) (os : List Nat) :
    Post (readStringValues.strings file prev os) (fun l => l.length = os.length) := by
  induction os generalizing prev with
  | nil => unfold readStringValues.strings; exact Post.pure _ rfl
  | cons o os ih =>
    unfold readStringValues.strings
    dsimp only
    have hjp : ∀ s : Bytes, Post (do let rest ← readStringValues.strings file o os; pure (s :: rest))
        (fun l => l.length = (o :: os).length) :=
      fun s => Post.bind (ih o) (fun rest hrest => Post.pure _ (by simp [hrest]))
    exact Post.ite (fun _ => Post.bind (Post.true _) (fun s _ => hjp s))
      (fun _ => Post.bind (Post.true _) (fun s _ => hjp s))

theorem post_readValues (file : Bytes) (e : Endian) (o : SegObj) (n : Nat) :
    Post (readValues file e o n) (fun vals => vals.length ≤ n) := by
  unfold readValues
  split
  · exact Post.throw _
  · split
    · exact Post.throw _
    · split
      · refine Post.bind (Post.true _) (fun b _ => ?_)
        dsimp only
        refine Post.ite (fun _ => ?_) (fun _ => ?_)
        · rw [throw_bind_F]; exact Post.throw _
        · exact Post.pure _ (by rw [List.length_map]; exact splitEvery_length_le _ _ _)
      · refine Post.ite (fun _ => ?_) (fun _ => Post.throw _)
        unfold readStringValues
        refine Post.bind (post_offsets file e n) (fun offs hoffs => ?_)
        exact (post_strings file 0 offs).mono (fun l hl => by rw [hl, hoffs]; exact Nat.le_refl _)

/-- number of values of a chunk -/
def dataLen (c : ChanChunk) : Nat := (c.data.getD []).length

/-- the capacity of chunk `j` for channel `p`: the values the first data object with that path declares -/
def chanCap (s : Segment) (j : Nat) (p : Bytes) (os : List SegObj) : Nat :=
  match os.find? (·.path = p) with
  | some o => channelNumberValues s o j
  | none => 0

theorem post_readChannelChunkContiguous (file : Bytes) (s : Segment) (j : Nat) (p : Bytes) (os : List SegObj)
    (cur : Nat) :
    Post (readChannelChunkContiguous file s j p os cur) (fun c => dataLen c ≤ chanCap s j p os) := by
  induction os generalizing cur with
  | nil => unfold readChannelChunkContiguous; exact Post.pure _ (Nat.zero_le _)
  | cons o os ih =>
    unfold readChannelChunkContiguous chanCap
    dsimp only
    by_cases hp : o.path = p
    · rw [if_pos hp]
      simp only [List.find?_cons, hp, decide_true]
      refine Post.bind (Post.true _) (fun _ _ => ?_)
      refine Post.bind (post_readValues file s.endian o _) (fun vals hv => Post.pure _ ?_)
      exact hv
    · rw [if_neg hp]
      simp only [List.find?_cons, hp, decide_false]
      have ih' : ∀ cur, Post (readChannelChunkContiguous file s j p os cur)
          (fun c => dataLen c ≤ match os.find? (·.path = p) with
            | some o => channelNumberValues s o j
            | none => 0) := ih
      refine Post.ite (fun _ => ih' _) (fun _ => ?_)
      split
      · exact ih' _
      · exact Post.ite (fun _ => Post.throw _)
          (fun _ => Post.ite (fun _ => Post.pure _ (Nat.zero_le _)) (fun _ => Post.throw _))

end Tdms.Proofs.C05
