/-
  C04Layouts — one encoded segment of either layout (class `SegOKI` of `C01Layouts`) against the hypotheses
  of `C03Mixed`: the record `segRec pos s a` the metadata reader builds satisfies `SegShapeW`
  (distinct paths; no chunk without the raw-data flag; contiguous with EXACT chunks — fixed-width and
  string channels — or interleaved with fixed-width objects, `data_size = number_values · size`, a
  successful read and no override).  Core Lean only.
-/
import TdmsProofs.Lemmas.C01LayoutsFile
import TdmsProofs.Lemmas.C03MixedGeneral
import TdmsProofs.Lemmas.C03Single
import TdmsProofs.Lemmas.C04WholeLayout

namespace Tdms.Proofs.C04Layouts

open Tdms Tdms.Generated Tdms.Model Tdms.Proofs.C02 Tdms.Proofs.C01Multi Tdms.Proofs.C01Layouts Tdms.Proofs.C03
open Tdms.Proofs.Bytes (contOK aTy drop_add_of_drop_eq)

/-! ## contiguous chunks are exact -/

/-- the reader's `data_size` of every data object is the size of its encoded values -/
theorem sizesOK_conc (e : Endian) : ∀ (d : List ActiveObj) (ch : List (List Bytes)),
    (∀ x ∈ d, ∀ i, x.idx = some i → GoodDesc i) → wfStdChunk d ch = true →
    sizesOK e (d.map concObj) d ch := by
  intro d
  induction d with
  | nil => intro ch _ h; cases ch <;> simp [wfStdChunk, sizesOK] at h ⊢
  | cons a as ih =>
    intro ch hg hwf
    cases ch with
    | nil => simp [wfStdChunk] at hwf
    | cons v vs =>
      obtain ⟨_, hlen⟩ := chunk_facts e (a :: as) (v :: vs) hg hwf
      have hwf' : wfStdChunk as vs = true := by
        rw [wfStdChunk, Bool.and_eq_true] at hwf; exact hwf.2
      have hg' : ∀ x ∈ as, ∀ i, x.idx = some i → GoodDesc i := fun x hx => hg x (List.mem_cons_of_mem _ hx)
      obtain ⟨_, hlen'⟩ := chunk_facts e as vs hg' hwf'
      refine ⟨?_, ih vs hg' hwf'⟩
      have h1 : encChunkContiguous e (a :: as) (v :: vs) =
          encObjValues e (aTy a) v ++ encChunkContiguous e as vs := rfl
      rw [h1, List.length_append, hlen'] at hlen
      simp only [List.map_cons, List.sum_cons] at hlen
      omega

/-- the facts about the record of a segment that do not depend on the layout -/
theorem segRec_dataObjs (pos : Nat) (s : SegEnc) (a : List ActiveObj) :
    C03.dataObjs (segRec pos s a) = (dataObjs a).map concObj := filter_hasData_conc a

theorem segRec_segCsz (pos : Nat) (s : SegEnc) (a : List ActiveObj)
    (hg : ∀ x ∈ a, ∀ d, x.idx = some d → GoodDesc d) : segCsz (segRec pos s a) = chunkBytesA a := by
  unfold segCsz
  show (match chunkSize (a.map concObj) with | .ok c => c | .error _ => 0) = _
  rw [chunkSize_conc a hg]

theorem segRec_nodup (pos : Nat) (s : SegEnc) (a : List ActiveObj) (hnd : (a.map (·.path)).Nodup) :
    ((segRec pos s a).objects.map (·.path)).Nodup := by
  show ((a.map concObj).map (·.path)).Nodup
  rw [List.map_map]
  have : ((fun o : SegObj => o.path) ∘ concObj) = fun x : ActiveObj => x.path := by
    funext x; exact concObj_path x
  rw [this]
  exact hnd

/-- the raw data of an encoded segment start at its data position -/
theorem drop_dataPosition (file : Bytes) (pos : Nat) (s : SegEnc) (a : List ActiveObj) (rest : Bytes)
    (hfile : file.drop pos = encodeSeg s a ++ rest) :
    file.drop (pos + 28 + (segMeta s).length) = encRaw s a ++ rest := by
  have hsplit := encodeSeg_split s a
  have hli28 := encLeadIn_length tagData s (segMeta s).length (encRaw s a).length rfl
  have h28 : file.drop (pos + 28) = segMeta s ++ (encRaw s a ++ rest) := by
    rw [← List.drop_drop, hfile, hsplit, List.append_assoc, List.drop_left' hli28, List.append_assoc]
  rw [← List.drop_drop, h28, List.drop_left]

/-- **every chunk of an encoded contiguous segment is exact** (fixed-width and string channels) -/
theorem exactChunk_segRec (file : Bytes) (pos : Nat) (s : SegEnc) (a : List ActiveObj) (rest : Bytes)
    (hfile : file.drop pos = encodeSeg s a ++ rest) (hok : SegOKI s a) (hi : s.interleaved = false)
    (ci : Nat) (hci : ci < (segRec pos s a).numChunks) :
    (exactChunk file (segRec pos s a) ci (C03.dataObjs (segRec pos s a))
      ((segRec pos s a).dataPosition + ci * segCsz (segRec pos s a))).isSome = true := by
  have hci' : ci < s.chunks.length := hci
  have hnoq := not_daq_of_good hok.good
  have hgd := good_dataObjs hok.good
  have hend : (segRec pos s a).endian = s.endian := Tdms.Proofs.Bytes.segEndian_of_tocMask s
  have hc : ∀ ch ∈ s.chunks, (encChunkContiguous s.endian (dataObjs a) ch).length = chunkBytesA a := fun ch hch =>
    (chunk_facts _ (dataObjs a) ch hgd (hok.chunks ch hch)).2
  have hraw := drop_dataPosition file pos s a rest hfile
  rw [encRaw_contig s a hi hnoq] at hraw
  have hdrop : file.drop (pos + 28 + (segMeta s).length + ci * chunkBytesA a) =
      encChunkContiguous s.endian (dataObjs a) s.chunks[ci] ++
        ((s.chunks.drop (ci + 1)).flatMap (encChunkContiguous s.endian (dataObjs a)) ++ rest) := by
    rw [← List.drop_drop, hraw, List.drop_append_of_le_length, C03.drop_flatMap_const _ _ _ hc ci hci',
      List.append_assoc]
    rw [Tdms.Proofs.C01Compose.flatMap_length_const _ _ _ hc]
    exact Nat.mul_le_mul_right _ (by omega)
  have hmem : s.chunks[ci] ∈ s.chunks := List.getElem_mem hci'
  have hwf := hok.chunks _ hmem
  have := exactChunk_enc file (segRec pos s a) ci rfl ((dataObjs a).map concObj) (dataObjs a) s.chunks[ci]
    (pos + 28 + (segMeta s).length + ci * chunkBytesA a) _
    (chunk_facts s.endian (dataObjs a) _ hgd hwf).1
    (by rw [hend]; exact sizesOK_conc s.endian (dataObjs a) _ hgd hwf)
    (by rw [hend]; exact hdrop)
  rw [segRec_dataObjs, segRec_segCsz pos s a hok.good]
  show (exactChunk file (segRec pos s a) ci ((dataObjs a).map concObj)
    (pos + 28 + (segMeta s).length + ci * chunkBytesA a)).isSome = true
  rw [this]
  rfl

/-! ## interleaved segments -/

theorem sizedOk_segRec (pos : Nat) (s : SegEnc) (a : List ActiveObj)
    (hg : ∀ x ∈ a, ∀ d, x.idx = some d → GoodDesc d) (hfix : ∀ x ∈ dataObjs a, FixedObj x) :
    SizedOk (segRec pos s a) := by
  intro o ho
  rw [segRec_dataObjs] at ho
  obtain ⟨x, hx, rfl⟩ := List.mem_map.mp ho
  obtain ⟨ty, n, total, hidx, hsome⟩ := hfix x hx
  obtain ⟨sz, hsz⟩ := Option.isSome_iff_exists.mp hsome
  have hty : ty ≠ tyString := by
    intro e; rw [e] at hsome; revert hsome; decide
  have hgd := hg x (List.mem_filter.mp hx).1 _ hidx
  simp only [GoodDesc] at hgd
  have htot := hgd.2.2.2 hty
  refine ⟨ty, sz, ?_, hsz, ?_⟩
  · unfold concObj; rw [hidx]
  · unfold concObj; rw [hidx]
    simp only []
    rw [htot, hsz]
    rfl

/-- the one read of an encoded interleaved segment succeeds -/
theorem interRead_segRec (file : Bytes) (pos : Nat) (s : SegEnc) (a : List ActiveObj) (rest : Bytes)
    (hfile : file.drop pos = encodeSeg s a ++ rest) (hok : SegOKI s a) (hi : s.interleaved = true)
    (hnd : (a.map (·.path)).Nodup) :
    ∃ r, interRead file (segRec pos s a) = .ok r := by
  have hnoq := not_daq_of_good hok.good
  have hend : (segRec pos s a).endian = s.endian := Tdms.Proofs.Bytes.segEndian_of_tocMask s
  have hraw := drop_dataPosition file pos s a rest hfile
  rw [encRaw_inter s a hi hnoq] at hraw
  obtain ⟨st1, hseq⟩ := readInterleaved_segment file (segRec pos s a) (dataObjs a) (hok.inter hi) s.chunks
    hok.chunks (dataObjs_nodup hnd) (pos + 28 + (segMeta s).length) [] rest (by rw [hend]; exact hraw)
  have hrun : readInterleavedChunks file (segRec pos s a) (C03.dataObjs (segRec pos s a)) (segRec pos s a).numChunks
      ⟨(segRec pos s a).dataPosition, []⟩ =
      .ok ((if (dataObjs a).isEmpty then []
        else [C01Compose.pairsChunk (pairsOf (dataObjs a) (mergeCols (dataObjs a) s.chunks))]), st1) := by
    rw [segRec_dataObjs]
    exact hseq
  exact ⟨_, (posDet_readInterleavedChunks file _ _ _).runAt_of_run hrun⟩

/-! ## the shape hypothesis of `C03Mixed` -/

/-- **`SegShapeW` for the record of an encoded segment of either layout** -/
theorem segShapeW_segRec (file : Bytes) (pos : Nat) (s : SegEnc) (a : List ActiveObj) (rest : Bytes)
    (hfile : file.drop pos = encodeSeg s a ++ rest) (hok : SegOKI s a) (hnd : (a.map (·.path)).Nodup)
    (hraw : s.chunks ≠ [] → s.rawFlag = true) : SegShapeW file (segRec pos s a) := by
  refine ⟨segRec_nodup pos s a hnd, ?_, ?_⟩
  · intro hr
    have hf : hasFlag (segRec pos s a).toc kTocRawData = s.rawFlag := Tdms.Proofs.Bytes.hasFlag_tocMask_raw s
    rw [hf] at hr
    show s.chunks.length = 0
    cases hc : s.chunks with
    | nil => rfl
    | cons c cs =>
      have := hraw (by rw [hc]; simp)
      rw [hr] at this; cases this
  · cases hi : s.interleaved with
    | false =>
      left
      refine ⟨dataReaderKind_conc _ a hok.good rfl (by
        show hasFlag (tocMask s) kTocInterleavedData = false
        rw [Tdms.Proofs.Bytes.hasFlag_tocMask_interleaved, hi]), ?_⟩
      intro ci hci
      exact exactChunk_segRec file pos s a rest hfile hok hi ci hci
    | true =>
      right
      exact ⟨dataReaderKind_inter _ a hok.good rfl (hok.inter hi).fixed (by
          show hasFlag (tocMask s) kTocInterleavedData = true
          rw [Tdms.Proofs.Bytes.hasFlag_tocMask_interleaved, hi]),
        sizedOk_segRec pos s a hok.good (hok.inter hi).fixed,
        interRead_segRec file pos s a rest hfile hok hi hnd, Or.inl rfl⟩

/-! ## all segments -/

theorem segsOKI_getElem : ∀ (ss : List SegEnc) (as : List (List ActiveObj)), SegsOKI ss as →
    ∀ (i : Nat) s a, ss[i]? = some s → as[i]? = some a → SegOKI s a := by
  intro ss
  induction ss with
  | nil => intro as _ i s a hs; simp at hs
  | cons s0 ss ih =>
    intro as h i s a hs ha
    cases as with
    | nil => cases h
    | cons a0 as =>
      cases i with
      | zero =>
        simp only [List.getElem?_cons_zero, Option.some.injEq] at hs ha
        subst hs; subst ha
        exact h.1
      | succ i =>
        simp only [List.getElem?_cons_succ] at hs ha
        exact ih as h.2 i s a hs ha

/-- every record of the segment table of an encoded file is the record of one of its segments, whose bytes
    lie at the record's position -/
theorem segRecs_mem (file : Bytes) (ss : List SegEnc) (as : List (List ActiveObj))
    (hfile : file = zipEncode encodeSeg ss as) (seg : Segment) (hseg : seg ∈ segRecs 0 ss as) :
    ∃ (i : Nat) (pos : Nat) (s : SegEnc) (a : List ActiveObj) (rest : Bytes), ss[i]? = some s ∧ as[i]? = some a ∧ seg = segRec pos s a ∧
      file.drop pos = encodeSeg s a ++ rest := by
  obtain ⟨i, hi⟩ := List.getElem?_of_mem hseg
  obtain ⟨pos, s, a, rest, h1, h2, h3, h4⟩ := C04Whole.segRecs_at file ss as 0 (by rw [hfile]; rfl) i seg hi
  exact ⟨i, pos, s, a, rest, h1, h2, h3, h4⟩

/-- **`SegShapeW` for every record of the segment table of an encoded file of the class** -/
theorem segShapeW_segRecs (file : Bytes) (ss : List SegEnc) (as : List (List ActiveObj))
    (hfile : file = zipEncode encodeSeg ss as) (hok : SegsOKI ss as) (hnd : ActsNodup as)
    (hraw : ∀ s ∈ ss, s.chunks ≠ [] → s.rawFlag = true) :
    ∀ seg ∈ segRecs 0 ss as, SegShapeW file seg := by
  intro seg hseg
  obtain ⟨i, pos, s, a, rest, hs, ha, rfl, hdrop⟩ := segRecs_mem file ss as hfile seg hseg
  exact segShapeW_segRec file pos s a rest hdrop (segsOKI_getElem ss as hok i s a hs ha)
    (hnd a (List.mem_of_getElem? ha)) (hraw s (List.mem_of_getElem? hs))

end Tdms.Proofs.C04Layouts
