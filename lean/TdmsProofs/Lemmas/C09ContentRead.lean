/-
  C09 (content): `readMetadata` / `readMetadataIndex` on twin files (arbitrary bytes subject to `TwinOk`).
  Core Lean only.
-/
import TdmsProofs.Lemmas.C09ContentWalk
import TdmsProofs.Properties.C06

namespace Tdms.Proofs.C09Content

open Tdms Tdms.Model Tdms.Generated Tdms.Proofs.LeadIn Tdms.Proofs.C02

/-- **data file cut after `k` bytes, complete index**: the relation between the two readings -/
theorem twin_read (ts : List TSeg) (hok : TwinOk ts) (k : Nat) (hk : k ≤ (dataOf ts).length) :
    WalkRel k (cutBound 0 ts) (readMetadataIndex (indexOf ts) (some k)) (readMetadata ((dataOf ts).take k)) := by
  have h := twin_walk ts [] [] k {} (k + 1 + ts.length) ((indexOf ts).length + 1 + ts.length) hok
    (by simpa using hk) (by simp) keyed_nil (by omega) (by omega)
  have hlen : ((dataOf ts).take k).length = k := by rw [List.length_take]; omega
  have h1 := (C06.readMetadata_fuel_suffices ((dataOf ts).take k) ts.length).1
  have h2 := (C06.readMetadata_fuel_suffices (indexOf ts) ts.length).2 (some k)
  rw [hlen] at h1
  simp only [List.nil_append, List.length_nil] at h
  rw [h1, h2] at h
  exact h

/-- **complete data file** -/
theorem twin_read_complete (ts : List TSeg) (hok : TwinOk ts) :
    readMetadataIndex (indexOf ts) (some (dataOf ts).length) = readMetadata (dataOf ts) := by
  have h := twin_read ts hok (dataOf ts).length (Nat.le_refl _)
  rw [List.take_of_length_le (Nat.le_refl _)] at h
  rcases h with h | ⟨hlt, _⟩
  · exact h
  · have := cutBound_le_length ts 0 (TwinOk.hdr_length hok)
    omega

/-- **data file cut inside the last segment, behind its lead-in**: still the same reading -/
theorem twin_read_cut_last (ts : List TSeg) (hok : TwinOk ts) (k : Nat) (hk : k ≤ (dataOf ts).length)
    (hcut : cutBound 0 ts ≤ k) :
    readMetadataIndex (indexOf ts) (some k) = readMetadata ((dataOf ts).take k) := by
  rcases twin_read ts hok k hk with h | ⟨hlt, _⟩
  · exact h
  · omega

/-- what two reader states share when they differ by version bookkeeping only -/
def SameContent (a b : ReaderState) : Prop :=
  a.segments = b.segments ∧ a.objects = b.objects ∧ a.prevObjs = b.prevObjs

/-- two results that are the same exception, or states with the same segments and objects -/
def SameResult (a b : Except Err ReaderState) : Prop :=
  match a, b with
  | .ok x, .ok y => SameContent x y
  | .error e, .error e' => e = e'
  | _, _ => False

theorem SameResult.refl (a : Except Err ReaderState) : SameResult a a := by
  cases a with
  | error e => rfl
  | ok x => exact ⟨rfl, rfl, rfl⟩

theorem WalkRel.sameResult {k b : Nat} {x y : Except Err ReaderState} (h : WalkRel k b x y) : SameResult x y := by
  rcases h with h | ⟨_, s, v, h1, h2⟩
  · rw [h]; exact SameResult.refl y
  · rw [h1, h2]; exact ⟨rfl, rfl, rfl⟩

/-- **data file cut anywhere**: same exception, or the same segments, objects and `prevObjs` -/
theorem twin_read_cut_any (ts : List TSeg) (hok : TwinOk ts) (k : Nat) (hk : k ≤ (dataOf ts).length) :
    SameResult (readMetadataIndex (indexOf ts) (some k)) (readMetadata ((dataOf ts).take k)) :=
  (twin_read ts hok k hk).sameResult

/-! ## index only: no data file size -/

theorem leadInOf_none_eq {hdr : Bytes} {P K : Nat} (hnm : hNextOff hdr ≠ 2 ^ 64 - 1)
    (hK : P + hNextOff hdr + 28 ≤ K) : leadInOf hdr P none = leadInOf hdr P (some K) := by
  unfold leadInOf
  simp only [if_neg hnm]
  rw [if_neg (by omega)]

theorem loopStep_congr_leadIn (file : Bytes) (isIndex : Bool) (d1 d2 : Option Nat) (fp sp : Nat) (st : ReaderState)
    (h : readLeadIn (file.drop fp) sp isIndex d1 = readLeadIn (file.drop fp) sp isIndex d2) :
    loopStep file isIndex d1 fp sp st = loopStep file isIndex d2 fp sp st := by
  unfold loopStep; rw [h]

/-- the walk over an index file whose segments all declare their length does not need the data file's size,
    as long as that size is not smaller than what the segments declare -/
theorem index_walk_none : ∀ (ts : List TSeg) (preI : Bytes) (P K : Nat) (st : ReaderState) (fuel : Nat),
    TwinOk ts → NoMarker ts → P + (dataOf ts).length ≤ K →
    readMetadataLoop (preI ++ indexOf ts) true none fuel preI.length P st =
      readMetadataLoop (preI ++ indexOf ts) true (some K) fuel preI.length P st := by
  intro ts
  induction ts with
  | nil =>
    intro preI P K st fuel _ _ _
    cases fuel with
    | zero => rfl
    | succ f =>
      rw [loop_past_end _ _ _ _ _ _ _ (by simp [indexOf]), loop_past_end _ _ _ _ _ _ _ (by simp [indexOf])]
  | cons t ts' ih =>
    intro preI P K st fuel hok hnm hK
    obtain ⟨hh, hraw, _, hnext, hok'⟩ := hok
    obtain ⟨hnm1, hnm'⟩ := hnm
    have hno : hNextOff t.hdr = t.md.length + t.raw.length := by
      rcases hnext with ⟨h1, _⟩ | ⟨_, h2⟩
      · exact h1
      · exact absurd h2 hnm1
    have hlenT : t.dataBytes.length = 28 + t.md.length + t.raw.length := by
      simp [TSeg.dataBytes, tagData_length, hh]; omega
    have hlenTI : t.indexBytes.length = 28 + t.md.length := by
      simp [TSeg.indexBytes, tagIndex_length, hh]; omega
    have hK' : P + t.dataBytes.length + (dataOf ts').length ≤ K := by
      simp only [dataOf, List.length_append] at hK; omega
    cases fuel with
    | zero => rfl
    | succ f =>
      have hdropI : (preI ++ indexOf (t :: ts')).drop preI.length =
          tagOf true ++ t.hdr ++ (t.md ++ indexOf ts') := by
        rw [List.drop_left' rfl]
        simp [indexOf, TSeg.indexBytes, tagOf, List.append_assoc]
      have hl : ∀ d, readLeadIn ((preI ++ indexOf (t :: ts')).drop preI.length) P true d = leadInOf t.hdr P d := by
        intro d; rw [hdropI]; exact readLeadIn_twin true t.hdr _ P d hh
      have hstep := loopStep_congr_leadIn (preI ++ indexOf (t :: ts')) true none (some K) preI.length P st
        (by rw [hl, hl]; exact leadInOf_none_eq hnm1 (by omega))
      rw [readMetadataLoop_succ, readMetadataLoop_succ, hstep]
      cases hs : loopStep (preI ++ indexOf (t :: ts')) true (some K) preI.length P st with
      | error e => rfl
      | ok r =>
        cases r with
        | done s => rfl
        | next fp sp s =>
          simp only []
          obtain ⟨li, _, hli, hsp, hfp, _⟩ := loopStep_next _ _ _ _ _ _ _ _ _ hs
          rw [hl] at hli
          have hnp := leadInOf_next hli
          rw [if_neg (by intro hc; rcases hc with a | b; exact hnm1 a; omega)] at hnp
          have hdp := leadInOf_dataPos hli
          have e2 : preI ++ indexOf (t :: ts') = (preI ++ t.indexBytes) ++ indexOf ts' := by
            simp [indexOf, List.append_assoc]
          have hfp' : fp = (preI ++ t.indexBytes).length := by
            rw [hfp, if_pos rfl, hdp, hraw, List.length_append, hlenTI]; omega
          have hsp' : sp = P + t.dataBytes.length := by rw [hsp, hnp, hno, hlenT]; omega
          rw [hfp', hsp', e2]
          exact ih _ _ K s f hok' hnm' hK'

/-- **index only** (`dataFileSize = none`), no `2^64-1` marker: the same reading as with the data file -/
theorem twin_read_index_only (ts : List TSeg) (hok : TwinOk ts) (hnm : NoMarker ts) :
    readMetadataIndex (indexOf ts) none = readMetadata (dataOf ts) := by
  rw [← twin_read_complete ts hok]
  have h := index_walk_none ts [] 0 (dataOf ts).length {} ((indexOf ts).length + 1) hok hnm (by omega)
  simpa [readMetadataIndex] using h

/-- **index only with the marker**: the segment whose length is unknown cannot be resolved without the data
    file; whatever state the loop is in, it raises (`TypeError` in Python) — unless an earlier segment raised
    first, in which case reading with the data file raises the same exception -/
theorem index_walk_marker : ∀ (ts : List TSeg) (preI : Bytes) (P K : Nat) (st : ReaderState) (fuel : Nat),
    TwinOk ts → ¬ NoMarker ts → P + (dataOf ts).length ≤ K → ts.length ≤ fuel →
    readMetadataLoop (preI ++ indexOf ts) true none fuel preI.length P st = .error .other ∨
    ∃ e, readMetadataLoop (preI ++ indexOf ts) true none fuel preI.length P st = .error e ∧
      readMetadataLoop (preI ++ indexOf ts) true (some K) fuel preI.length P st = .error e := by
  intro ts
  induction ts with
  | nil => intro _ _ _ _ _ _ h; exact absurd trivial h
  | cons t ts' ih =>
    intro preI P K st fuel hok hnm hK hfuel
    obtain ⟨f, rfl⟩ : ∃ f, fuel = f + 1 := ⟨fuel - 1, by simp at hfuel; omega⟩
    obtain ⟨hh, hraw, _, hnext, hok'⟩ := hok
    have hdropI : (preI ++ indexOf (t :: ts')).drop preI.length =
        tagOf true ++ t.hdr ++ (t.md ++ indexOf ts') := by
      rw [List.drop_left' rfl]
      simp [indexOf, TSeg.indexBytes, tagOf, List.append_assoc]
    have hl : ∀ d, readLeadIn ((preI ++ indexOf (t :: ts')).drop preI.length) P true d = leadInOf t.hdr P d := by
      intro d; rw [hdropI]; exact readLeadIn_twin true t.hdr _ P d hh
    by_cases hnm1 : hNextOff t.hdr = 2 ^ 64 - 1
    · left
      rw [readMetadataLoop_succ]
      have : loopStep (preI ++ indexOf (t :: ts')) true none preI.length P st = .error .other := by
        unfold loopStep
        rw [hl, leadInOf, if_pos hnm1]
      rw [this]
    · have hnm' : ¬ NoMarker ts' := fun h => hnm ⟨hnm1, h⟩
      have hno : hNextOff t.hdr = t.md.length + t.raw.length := by
        rcases hnext with ⟨h1, _⟩ | ⟨_, h2⟩
        · exact h1
        · exact absurd h2 hnm1
      have hlenT : t.dataBytes.length = 28 + t.md.length + t.raw.length := by
        simp [TSeg.dataBytes, tagData_length, hh]; omega
      have hlenTI : t.indexBytes.length = 28 + t.md.length := by
        simp [TSeg.indexBytes, tagIndex_length, hh]; omega
      have hK' : P + t.dataBytes.length + (dataOf ts').length ≤ K := by
        simp only [dataOf, List.length_append] at hK; omega
      have hstep := loopStep_congr_leadIn (preI ++ indexOf (t :: ts')) true none (some K) preI.length P st
        (by rw [hl, hl]; exact leadInOf_none_eq hnm1 (by omega))
      rw [readMetadataLoop_succ, readMetadataLoop_succ, hstep]
      cases hs : loopStep (preI ++ indexOf (t :: ts')) true (some K) preI.length P st with
      | error e => right; exact ⟨e, rfl, rfl⟩
      | ok r =>
        cases r with
        | done s =>
          -- impossible: the lead-in is complete and inside the file
          exfalso
          unfold loopStep at hs
          rw [hl] at hs
          have : leadInOf t.hdr P (some K) =
              .ok (some ⟨hToc t.hdr, hVersion t.hdr, P + 28 + hRawOff t.hdr, P + hNextOff t.hdr + 28, false⟩) := by
            unfold leadInOf
            simp only [if_neg hnm1]
            rw [if_neg (by omega)]
          rw [this] at hs
          simp only [] at hs
          split at hs
          · cases hs
          · split at hs <;> cases hs
        | next fp sp s =>
          simp only []
          obtain ⟨li, _, hli, hsp, hfp, _⟩ := loopStep_next _ _ _ _ _ _ _ _ _ hs
          rw [hl] at hli
          have hnp := leadInOf_next hli
          rw [if_neg (by intro hc; rcases hc with a | b; exact hnm1 a; omega)] at hnp
          have hdp := leadInOf_dataPos hli
          have e2 : preI ++ indexOf (t :: ts') = (preI ++ t.indexBytes) ++ indexOf ts' := by
            simp [indexOf, List.append_assoc]
          have hfp' : fp = (preI ++ t.indexBytes).length := by
            rw [hfp, if_pos rfl, hdp, hraw, List.length_append, hlenTI]; omega
          have hsp' : sp = P + t.dataBytes.length := by rw [hsp, hnp, hno, hlenT]; omega
          rw [hfp', hsp', e2]
          exact ih _ _ K s f hok' hnm' hK' (by simp at hfuel; omega)

/-- **index only, last segment of unknown length**: opening the index alone raises -/
theorem twin_read_index_only_marker (ts : List TSeg) (hok : TwinOk ts) (hm : ¬ NoMarker ts) :
    readMetadataIndex (indexOf ts) none = .error .other ∨
    ∃ e, readMetadataIndex (indexOf ts) none = .error e ∧ readMetadata (dataOf ts) = .error e := by
  rw [← twin_read_complete ts hok]
  have hlen : ts.length ≤ (indexOf ts).length + 1 := by
    have : ∀ l : List TSeg, l.length ≤ (indexOf l).length := by
      intro l
      induction l with
      | nil => simp
      | cons a l ih => simp [indexOf, TSeg.indexBytes, tagIndex_length]; omega
    have := this ts; omega
  have h := index_walk_marker ts [] 0 (dataOf ts).length {} ((indexOf ts).length + 1) hok hm (by omega) hlen
  simpa [readMetadataIndex] using h

end Tdms.Proofs.C09Content
