/-
  C01 with DAQmx segments: `readFile` — the receivers (plain channels hold values, DAQmx raw-data channels
  hold one value list per scale id), the chunk loop with the capacity check, and the comparison with `denote`.
  Core Lean only.
-/
import TdmsProofs.Lemmas.C01LayoutsDaqWhole

namespace Tdms.Proofs.C01Layouts

open Tdms Tdms.Generated Tdms.Model Tdms.Proofs.C02 Tdms.Proofs.C01Multi
open Tdms.Proofs.Bytes (canonProp)
open Tdms.Proofs.C01Compose (pairsChunk bump valuesIn)

/-! ## chunks of both kinds, receivers of both kinds -/

/-- a chunk the reader yields: (path, values) pairs of a standard segment, or (path, scaler items) entries of
    a DAQmx segment -/
inductive Ck
  | std (pairs : List (Bytes × List Bytes))
  | daq (ents : List (Bytes × ScalDict))

def Ck.toRaw : Ck → RawChunk
  | .std pairs => pairsChunk pairs
  | .daq ents => ents.map fun pe => (pe.1, { scalers := some pe.2 })

def stdPairsOf (L : List Ck) : List (Bytes × List Bytes) :=
  L.flatMap fun ck => match ck with
    | .std pairs => pairs
    | .daq _ => []

def daqEntsOf (L : List Ck) : List (Bytes × ScalDict) :=
  L.flatMap fun ck => match ck with
    | .std _ => []
    | .daq ents => ents

/-- receivers: for every (path, is-raw) either a scaler dictionary or a value list -/
def rcvD (ps : List (Bytes × Bool)) (fv : Bytes → List Bytes) (fs : Bytes → ScalDict) : List ChannelData :=
  ps.map fun pb => if pb.2 then ⟨pb.1, none, fs pb.1⟩ else ⟨pb.1, some (fv pb.1), []⟩

theorem rcvD_path (_ps : List (Bytes × Bool)) (fv : Bytes → List Bytes) (fs : Bytes → ScalDict) (pb : Bytes × Bool) :
    (if pb.2 then (⟨pb.1, none, fs pb.1⟩ : ChannelData) else ⟨pb.1, some (fv pb.1), []⟩).path = pb.1 := by
  cases pb.2 <;> rfl

/-- append the items of an entry to the dictionary of its path -/
def bumpS (fs : Bytes → ScalDict) (pe : Bytes × ScalDict) : Bytes → ScalDict :=
  fun q => if q = pe.1 then pe.2.foldl stepS (fs q) else fs q

theorem bumpS_foldl_closed : ∀ (ents : List (Bytes × ScalDict)) (fs : Bytes → ScalDict) (p : Bytes),
    ents.foldl bumpS fs p = (itemsAt ents p).foldl stepS (fs p) := by
  intro ents
  induction ents with
  | nil => intro fs p; rfl
  | cons pe ents ih =>
    intro fs p
    rw [List.foldl_cons, ih, itemsAt_cons, List.foldl_append]
    by_cases h : pe.1 = p
    · subst h; simp [bumpS]
    · have h' : ¬ p = pe.1 := fun e => h e.symm
      simp [bumpS, h, h']

theorem find_rcvD {ps : List (Bytes × Bool)} {fv : Bytes → List Bytes} {fs : Bytes → ScalDict} {p : Bytes} {b : Bool}
    (h : (p, b) ∈ ps) : ((rcvD ps fv fs).find? (·.path = p)).isSome = true := by
  rw [List.find?_isSome]
  refine ⟨_, List.mem_map.2 ⟨(p, b), h, rfl⟩, ?_⟩
  simp [rcvD_path ps fv fs (p, b)]

theorem flag_unique {ps : List (Bytes × Bool)} (hnd : (ps.map (·.1)).Nodup) {p : Bytes} {b b' : Bool}
    (h : (p, b) ∈ ps) (h' : (p, b') ∈ ps) : b = b' := by
  induction ps with
  | nil => cases h
  | cons q qs ih =>
    rw [List.map_cons, List.nodup_cons] at hnd
    rcases List.mem_cons.1 h with rfl | h1
    · rcases List.mem_cons.1 h' with e | h2
      · cases e; rfl
      · exact absurd (List.mem_map.2 ⟨(p, b'), h2, rfl⟩) hnd.1
    · rcases List.mem_cons.1 h' with rfl | h2
      · exact absurd (List.mem_map.2 ⟨(p, b), h1, rfl⟩) hnd.1
      · exact ih hnd.2 h1 h2

theorem rcvStep_std (ps : List (Bytes × Bool)) (hnd : (ps.map (·.1)).Nodup) (fv : Bytes → List Bytes)
    (fs : Bytes → ScalDict) (p : Bytes) (v : List Bytes) (hp : (p, false) ∈ ps) :
    C01Compose.rcvStep (.ok (rcvD ps fv fs)) (p, { data := some v }) = .ok (rcvD ps (bump fv (p, v)) fs) := by
  obtain ⟨r0, hr0⟩ := Option.isSome_iff_exists.mp (find_rcvD (fv := fv) (fs := fs) hp)
  simp only [C01Compose.rcvStep, bind, Except.bind, hr0, pure, Except.pure]
  congr 1
  simp only [rcvD, List.map_map]
  apply List.map_congr_left
  intro pb hpb
  obtain ⟨q, b⟩ := pb
  simp only [Function.comp]
  by_cases hq : q = p
  · subst hq
    have hb : b = false := flag_unique hnd hpb hp
    subst hb
    simp [bump]
  · have : bump fv (p, v) q = fv q := by simp [bump, hq]
    cases b <;> simp [hq, this]

theorem stepS_fold_eq (items : ScalDict) (l : ScalDict) :
    items.foldl (fun l (x : Nat × List Bytes) => match x with | (id, v) => appendScalerData l id v) l =
      items.foldl stepS l := by
  congr 1

theorem rcvStep_daq (ps : List (Bytes × Bool)) (hnd : (ps.map (·.1)).Nodup) (fv : Bytes → List Bytes)
    (fs : Bytes → ScalDict) (p : Bytes) (items : ScalDict) (hp : (p, true) ∈ ps) :
    C01Compose.rcvStep (.ok (rcvD ps fv fs)) (p, { scalers := some items }) = .ok (rcvD ps fv (bumpS fs (p, items))) := by
  obtain ⟨r0, hr0⟩ := Option.isSome_iff_exists.mp (find_rcvD (fv := fv) (fs := fs) hp)
  simp only [C01Compose.rcvStep, bind, Except.bind, hr0, pure, Except.pure]
  congr 1
  simp only [rcvD, List.map_map]
  apply List.map_congr_left
  intro pb hpb
  obtain ⟨q, b⟩ := pb
  simp only [Function.comp]
  by_cases hq : q = p
  · subst hq
    have hb : b = true := flag_unique hnd hpb hp
    subst hb
    simp only [if_true, ne_eq, not_true_eq_false, if_false, bumpS]
    congr 1
  · have : bumpS fs (p, items) q = fs q := by simp [bumpS, hq]
    cases b <;> simp [hq, this]

/-- membership condition of a chunk in the receivers -/
def Ck.within (ps : List (Bytes × Bool)) : Ck → Prop
  | .std pairs => ∀ pv ∈ pairs, (pv.1, false) ∈ ps
  | .daq ents => ∀ pe ∈ ents, (pe.1, true) ∈ ps

def applyCk (st : (Bytes → List Bytes) × (Bytes → ScalDict)) : Ck → (Bytes → List Bytes) × (Bytes → ScalDict)
  | .std pairs => (pairs.foldl bump st.1, st.2)
  | .daq ents => (st.1, ents.foldl bumpS st.2)

theorem receiveChunk_ck (ps : List (Bytes × Bool)) (hnd : (ps.map (·.1)).Nodup) (ck : Ck) (hw : ck.within ps)
    (fv : Bytes → List Bytes) (fs : Bytes → ScalDict) :
    receiveChunk (rcvD ps fv fs) ck.toRaw = .ok (rcvD ps (applyCk (fv, fs) ck).1 (applyCk (fv, fs) ck).2) := by
  rw [C01Compose.receiveChunk_eq]
  cases ck with
  | std pairs =>
    simp only [Ck.toRaw, applyCk]
    induction pairs generalizing fv with
    | nil => rfl
    | cons pv pairs ih =>
      simp only [pairsChunk, List.map_cons, List.foldl_cons]
      rw [rcvStep_std ps hnd fv fs pv.1 pv.2 (hw pv List.mem_cons_self)]
      exact ih _ (fun q hq => hw q (List.mem_cons_of_mem _ hq))
  | daq ents =>
    simp only [Ck.toRaw, applyCk]
    induction ents generalizing fs with
    | nil => rfl
    | cons pe ents ih =>
      simp only [List.map_cons, List.foldl_cons]
      rw [rcvStep_daq ps hnd fv fs pe.1 pe.2 (hw pe List.mem_cons_self)]
      exact ih _ (fun q hq => hw q (List.mem_cons_of_mem _ hq))

/-- the capacity condition on a receiver state -/
def CapOK (st : ReaderState) (ps : List (Bytes × Bool)) (fv : Bytes → List Bytes) (fs : Bytes → ScalDict) : Prop :=
  ∀ pb ∈ ps, (pb.2 = false → (fv pb.1).length ≤ ((st.objects.get pb.1).map (·.numValues)).getD 0) ∧
    (pb.2 = true → ∀ x ∈ fs pb.1, x.2.length ≤ ((st.objects.get pb.1).map (·.numValues)).getD 0)

theorem checkCapacity_rcvD (st : ReaderState) (ps : List (Bytes × Bool)) (fv : Bytes → List Bytes)
    (fs : Bytes → ScalDict) (h : CapOK st ps fv fs) : checkCapacity st (rcvD ps fv fs) = .ok () := by
  unfold checkCapacity
  rw [if_pos]
  simp only [rcvD, List.all_map, List.all_eq_true, Function.comp_def, decide_eq_true_eq]
  intro pb hpb
  obtain ⟨h1, h2⟩ := h pb hpb
  obtain ⟨q, b⟩ := pb
  cases b
  · simpa using h1 rfl
  · simp only [if_true, Option.map_none, Option.getD_none, Nat.zero_le, true_and]
    intro x hx
    have := h2 rfl x hx
    simpa using this

theorem applyCk_foldl (L : List Ck) : ∀ (fv : Bytes → List Bytes) (fs : Bytes → ScalDict),
    L.foldl applyCk (fv, fs) = ((stdPairsOf L).foldl bump fv, (daqEntsOf L).foldl bumpS fs) := by
  induction L with
  | nil => intro fv fs; rfl
  | cons ck L ih =>
    intro fv fs
    rw [List.foldl_cons]
    cases ck with
    | std pairs => simp only [applyCk, ih, stdPairsOf, daqEntsOf, List.flatMap_cons, List.foldl_append, List.nil_append]
    | daq ents => simp only [applyCk, ih, stdPairsOf, daqEntsOf, List.flatMap_cons, List.foldl_append, List.nil_append]

/-- **the chunk loop of `readFile`**, chunks of both kinds -/
theorem foldl_fileStepD (st : ReaderState) (ps : List (Bytes × Bool)) (hnd : (ps.map (·.1)).Nodup) :
    ∀ (L : List Ck) (fv : Bytes → List Bytes) (fs : Bytes → ScalDict), (∀ ck ∈ L, ck.within ps) →
      (∀ L1 L2, L = L1 ++ L2 → CapOK st ps (L1.foldl applyCk (fv, fs)).1 (L1.foldl applyCk (fv, fs)).2) →
      (L.map Ck.toRaw).foldl (C01Compose.fileStep st) (.ok (rcvD ps fv fs)) =
        .ok (rcvD ps (L.foldl applyCk (fv, fs)).1 (L.foldl applyCk (fv, fs)).2) := by
  intro L
  induction L with
  | nil => intro fv fs _ _; rfl
  | cons ck L ih =>
    intro fv fs hw hcap
    have hrecv := receiveChunk_ck ps hnd ck (hw ck List.mem_cons_self) fv fs
    have hc1 := hcap [ck] L rfl
    simp only [List.foldl_cons, List.foldl_nil] at hc1
    have hchk := checkCapacity_rcvD st ps _ _ hc1
    have hstep : C01Compose.fileStep st (.ok (rcvD ps fv fs)) ck.toRaw =
        .ok (rcvD ps (applyCk (fv, fs) ck).1 (applyCk (fv, fs) ck).2) := by
      simp only [C01Compose.fileStep, bind, Except.bind, hrecv, hchk, pure, Except.pure]
    simp only [List.map_cons, List.foldl_cons, hstep]
    exact ih _ _ (fun q hq => hw q (List.mem_cons_of_mem _ hq)) (by
      intro L1 L2 he
      have := hcap (ck :: L1) L2 (by rw [he]; rfl)
      simpa using this)

/-! ## the chunk list of the file -/

/-- the (path, items) entries of a dictionary of scaler entries -/
def entsOfDict (scal : RawChunk) : List (Bytes × ScalDict) := scal.map fun pc => (pc.1, pc.2.scalers.getD [])

theorem toRaw_entsOfDict {scal : RawChunk} (h : AllScal scal) : (Ck.daq (entsOfDict scal)).toRaw = scal := by
  show (scal.map fun pc => (pc.1, pc.2.scalers.getD [])).map (fun pe => (pe.1, ({ scalers := some pe.2 } : ChanChunk))) = scal
  rw [List.map_map]
  calc scal.map _ = scal.map id := by
        apply List.map_congr_left
        intro pc hpc
        obtain ⟨items, hi⟩ := h pc hpc
        simp only [Function.comp, hi, Option.getD_some, id]
        rw [← hi]
    _ = scal := by simp

theorem dictInv_nil (d : List ActiveObj) : DictInv d [] := by
  refine ⟨by simp, ?_, ?_⟩
  · intro _ h; cases h
  · intro _ h; cases h

def ckOfSeg (s : SegEnc) (a : List ActiveObj) : List Ck :=
  (if !s.rawFlag then [Ck.std []] else []) ++
    (if (dataObjs a).any isDaqmxObj then
      s.chunks.map fun c => Ck.daq (entsOfDict (bmChunk s.endian (dataObjs a) 0 c []))
     else if s.interleaved then
      (if (dataObjs a).isEmpty then [] else [Ck.std (pairsOf (dataObjs a) (mergeCols (dataObjs a) s.chunks))])
     else s.chunks.map fun ch => Ck.std (pairsOf (dataObjs a) ch))

def ckListAll : List SegEnc → List (List ActiveObj) → List Ck
  | s :: ss, a :: as => ckOfSeg s a ++ ckListAll ss as
  | _, _ => []

theorem rawChunksOfSegD_eq (s : SegEnc) (a : List ActiveObj) (hnd : ((dataObjs a).map (·.path)).Nodup) :
    rawChunksOfSegD s a = (ckOfSeg s a).map Ck.toRaw := by
  unfold rawChunksOfSegD ckOfSeg
  cases hq : (dataObjs a).any isDaqmxObj with
  | true =>
    simp only [if_true, List.map_append, List.map_map]
    congr 1
    · cases s.rawFlag <;> simp [Ck.toRaw, pairsChunk]
    · apply List.map_congr_left
      intro c _
      simp only [Function.comp]
      exact (toRaw_entsOfDict (bmChunk_spec s.endian (dataObjs a) hnd c 0 [] (dictInv_nil _)).1.allScal).symm
  | false =>
    simp only [Bool.false_eq_true, if_false]
    unfold rawChunksOfSegI
    cases s.rawFlag <;> cases s.interleaved <;> cases (dataObjs a).isEmpty <;>
      simp [Ck.toRaw, pairsChunk, Function.comp_def]

theorem rawChunksAllD_eq : ∀ (ss : List SegEnc) (as : List (List ActiveObj)), ActsNodup as →
    rawChunksAllD ss as = (ckListAll ss as).map Ck.toRaw := by
  intro ss
  induction ss with
  | nil => intro as _; cases as <;> rfl
  | cons s ss ih =>
    intro as hnd
    cases as with
    | nil => rfl
    | cons a as =>
      rw [rawChunksAllD, ckListAll, List.map_append,
        rawChunksOfSegD_eq s a (dataObjs_nodup (hnd a List.mem_cons_self)),
        ih as (fun a' ha' => hnd a' (List.mem_cons_of_mem _ ha'))]

theorem stdPairsOf_append (A B : List Ck) : stdPairsOf (A ++ B) = stdPairsOf A ++ stdPairsOf B := by
  simp [stdPairsOf]

theorem daqEntsOf_append (A B : List Ck) : daqEntsOf (A ++ B) = daqEntsOf A ++ daqEntsOf B := by
  simp [daqEntsOf]

theorem colOf_append (a b : List (Bytes × List Bytes)) (q : Bytes) : colOf (a ++ b) q = colOf a q ++ colOf b q := by
  simp [colOf, List.filter_append]

theorem stdPairsOf_map_std (l : List (List (Bytes × List Bytes))) :
    stdPairsOf (l.map Ck.std) = l.flatten := by
  induction l with
  | nil => rfl
  | cons x xs ih =>
    have : stdPairsOf (Ck.std x :: xs.map Ck.std) = x ++ stdPairsOf (xs.map Ck.std) := by simp [stdPairsOf]
    rw [List.map_cons, this, ih, List.flatten_cons]

theorem stdPairsOf_map_daq {α : Type} (l : List α) (g : α → List (Bytes × ScalDict)) :
    stdPairsOf (l.map fun x => Ck.daq (g x)) = [] := by
  induction l with
  | nil => rfl
  | cons x xs ih =>
    have : stdPairsOf (Ck.daq (g x) :: xs.map fun x => Ck.daq (g x)) = stdPairsOf (xs.map fun x => Ck.daq (g x)) := by
      simp [stdPairsOf]
    rw [List.map_cons, this, ih]

theorem daqEntsOf_map_std (l : List (List (Bytes × List Bytes))) : daqEntsOf (l.map Ck.std) = [] := by
  induction l with
  | nil => rfl
  | cons x xs ih =>
    have : daqEntsOf (Ck.std x :: xs.map Ck.std) = daqEntsOf (xs.map Ck.std) := by simp [daqEntsOf]
    rw [List.map_cons, this, ih]

theorem daqEntsOf_map_daq {α : Type} (l : List α) (g : α → List (Bytes × ScalDict)) :
    daqEntsOf (l.map fun x => Ck.daq (g x)) = l.flatMap g := by
  induction l with
  | nil => rfl
  | cons x xs ih =>
    have : daqEntsOf (Ck.daq (g x) :: xs.map fun x => Ck.daq (g x)) =
        g x ++ daqEntsOf (xs.map fun x => Ck.daq (g x)) := by simp [daqEntsOf]
    rw [List.map_cons, this, ih, List.flatMap_cons]

theorem pre_std (s : SegEnc) : stdPairsOf (if !s.rawFlag then [Ck.std []] else []) = [] ∧
    daqEntsOf (if !s.rawFlag then [Ck.std []] else []) = [] := by
  cases s.rawFlag <;> simp [stdPairsOf, daqEntsOf]

/-- the values the chunks of one segment hold for a path are those of the spec's pairs -/
theorem colOf_ckOfSeg {F : ScF} {s : SegEnc} {a : List ActiveObj} (hok : SegOKD GoodDesc F s a)
    (hnd : (a.map (·.path)).Nodup) (q : Bytes) :
    colOf (stdPairsOf (ckOfSeg s a)) q = colOf (stdPairs s a) q := by
  unfold ckOfSeg stdPairs
  rw [stdPairsOf_append, (pre_std s).1, List.nil_append]
  rcases hok.layout with hl | hl
  · simp only [hl.noDaq, Bool.false_eq_true, if_false]
    cases hi : s.interleaved with
    | false =>
      simp only [Bool.false_eq_true, if_false]
      have : (s.chunks.map fun ch => Ck.std (pairsOf (dataObjs a) ch)) =
          (s.chunks.map (pairsOf (dataObjs a))).map Ck.std := by rw [List.map_map]; rfl
      rw [this, stdPairsOf_map_std, segPairs, List.flatMap_def]
    | true =>
      simp only [if_true]
      have hlen : ∀ ch ∈ s.chunks, ch.length = (dataObjs a).length :=
        fun ch hch => wfStdChunk_length _ _ (hl.chunks ch hch)
      have hm := colOf_mergeCols (dataObjs a) (dataObjs_nodup hnd) q s.chunks hlen
      cases hd : dataObjs a with
      | nil =>
        have hp : pairsOf [] = fun _ => [] := by funext ch; simp [pairsOf]
        have hz : ∀ l : List (List (List Bytes)), l.flatMap (fun _ => ([] : List (Bytes × List Bytes))) = [] := by
          intro l; induction l <;> simp [*]
        simp [segPairs, hd, hp, hz, stdPairsOf, colOf]
      | cons x xs =>
        rw [hd] at hm
        simp only [List.isEmpty_cons, Bool.false_eq_true, if_false, segPairs, hd]
        rw [← hm]
        simp [stdPairsOf]
  · simp only [daqLayout_any hl, if_true]
    rw [stdPairsOf_map_daq]

/-! ### the DAQmx entries of the chunks against the spec's entries -/

theorem itemsAt_entsOfDict {scal : RawChunk} (hnd : (scal.map (·.1)).Nodup) (p : Bytes) :
    itemsAt (entsOfDict scal) p = itemsOfD scal p := by
  induction scal with
  | nil => rfl
  | cons pc rest ih =>
    rw [List.map_cons, List.nodup_cons] at hnd
    have hcons : entsOfDict (pc :: rest) = (pc.1, pc.2.scalers.getD []) :: entsOfDict rest := rfl
    rw [hcons, itemsAt_cons]
    by_cases hp : pc.1 = p
    · have hrest : itemsAt (entsOfDict rest) p = [] := by
        unfold itemsAt entsOfDict
        have : (rest.map fun pc => (pc.1, pc.2.scalers.getD [])).filter (fun pe => decide (pe.1 = p)) = [] := by
          rw [List.filter_eq_nil_iff]
          intro pe hpe hpp
          obtain ⟨q, hq, rfl⟩ := List.mem_map.mp hpe
          exact hnd.1 (List.mem_map.2 ⟨q, hq, by rw [hp]; simpa using hpp⟩)
        rw [this]; rfl
      simp only [hp, if_true, hrest, List.append_nil]
      simp only [itemsOfD, List.find?_cons, hp, decide_true, Option.bind_some]
    · simp only [hp, if_false, List.nil_append, ih hnd.2]
      simp [itemsOfD, hp]

theorem itemsOfD_not_key {scal : RawChunk} {p : Bytes} (h : p ∉ scal.map (·.1)) : itemsOfD scal p = [] := by
  unfold itemsOfD
  have : scal.find? (·.1 = p) = none := by
    rw [List.find?_eq_none]
    intro pc hpc hpp
    exact h (List.mem_map.2 ⟨pc, hpc, by simpa using hpp⟩)
  rw [this]; rfl

theorem itemsAt_daqEntsOfChunk (e : Endian) (c : List (List Bytes)) : ∀ (d : List ActiveObj),
    (d.map (·.path)).Nodup →
    (∀ x ∈ d, itemsAt (daqEntsOfChunk e d c) x.path = scalItemsG e x c) ∧
    (∀ p, p ∉ d.map (·.path) → itemsAt (daqEntsOfChunk e d c) p = []) := by
  intro d
  induction d with
  | nil =>
    intro _
    refine ⟨?_, fun _ _ => rfl⟩
    intro x hx
    cases hx
  | cons y ys ih =>
    intro hnd
    rw [List.map_cons, List.nodup_cons] at hnd
    obtain ⟨h1, h2⟩ := ih hnd.2
    have hcons : daqEntsOfChunk e (y :: ys) c = (y.path, scalItemsG e y c) :: daqEntsOfChunk e ys c := rfl
    refine ⟨?_, ?_⟩
    · intro x hx
      rw [hcons, itemsAt_cons]
      rcases List.mem_cons.1 hx with rfl | hx'
      · simp [h2 x.path hnd.1]
      · have : ¬ y.path = x.path := fun e' => hnd.1 (e' ▸ List.mem_map.2 ⟨x, hx', rfl⟩)
        simp [this, h1 x hx']
    · intro p hp
      simp only [List.map_cons, List.mem_cons, not_or] at hp
      rw [hcons, itemsAt_cons]
      have : ¬ y.path = p := fun e' => hp.1 e'.symm
      simp [this, h2 p hp.2]

/-- one object, one chunk: buffer-major and object-major items hold the same values per scale id -/
theorem colN_accItems {F : ScF} {W : List Nat} {x : ActiveObj} (hx : DaqObj F W x) (e : Endian)
    (c : List (List Bytes)) (hlen : c.length = W.length) (id : Nat) :
    colN (accItems e x 0 c) id = colN (scalItemsG e x c) id := by
  obtain ⟨dg, n, sc, hi, hd⟩ := hx
  have hds : daqScalers x = sc := by simp [daqScalers, hi]
  have hdg : dgOf x = dg := by simp [dgOf, hi]
  have hnd1 := accItems_ids_nodup e x (by rw [hds]; exact hd.ids) c 0
  have hG : scalItemsG e x c = sc.map fun s => (s.scaleId, (c.getD s.buffer []).map (scalerValue e dg s)) := by
    simp [scalItemsG, hi]
  have hnd2 : ((scalItemsG e x c).map (·.1)).Nodup := by
    rw [hG, List.map_map]
    exact hd.ids
  apply colN_congr hnd1 hnd2
  intro iv
  rw [mem_accItems, hG, hds, hdg]
  constructor
  · rintro ⟨s, hs, _, _, rfl⟩
    exact List.mem_map.2 ⟨s, hs, by simp⟩
  · intro h
    obtain ⟨s, hs, rfl⟩ := List.mem_map.mp h
    obtain ⟨_, _, _, _, hlt, _⟩ := scaler_facts hd.wf s hs
    exact ⟨s, hs, Nat.zero_le _, by rw [hlen, Nat.zero_add]; exact hlt, by simp⟩

/-- the entries of one chunk as read, against the spec's entries of the chunk -/
theorem chunk_ents {F : ScF} {W : List Nat} (e : Endian) (d : List ActiveObj) (hnd : (d.map (·.path)).Nodup)
    (hobj : ∀ x ∈ d, DaqObj F W x) (c : List (List Bytes)) (hlen : c.length = W.length) :
    (∀ p id, colN (itemsAt (entsOfDict (bmChunk e d 0 c [])) p) id = colN (itemsAt (daqEntsOfChunk e d c) p) id) ∧
    (∀ pe ∈ entsOfDict (bmChunk e d 0 c []), pe.1 ∈ d.map (·.path)) ∧
    (∀ p, ∀ iv ∈ itemsAt (entsOfDict (bmChunk e d 0 c [])) p, iv.1 ∈ idsF F p) := by
  obtain ⟨hinv, hitems⟩ := bmChunk_spec e d hnd c 0 [] (dictInv_nil d)
  obtain ⟨hs1, hs2⟩ := itemsAt_daqEntsOfChunk e c d hnd
  have hacc : ∀ x ∈ d, itemsOfD (bmChunk e d 0 c []) x.path = accItems e x 0 c := by
    intro x hx
    rw [hitems x hx]
    have hnil : itemsOfD ([] : RawChunk) x.path = [] := rfl
    rw [hnil]
    obtain ⟨dg, n, sc, hi, hd⟩ := hobj x hx
    have hds : daqScalers x = sc := by simp [daqScalers, hi]
    rw [roa_fold_fresh _ [] (accItems_ids_nodup e x (by rw [hds]; exact hd.ids) c 0) (by simp)]
    rfl
  refine ⟨?_, ?_, ?_⟩
  · intro p id
    rw [itemsAt_entsOfDict hinv.nodup]
    by_cases hp : p ∈ d.map (·.path)
    · obtain ⟨x, hx, rfl⟩ := List.mem_map.mp hp
      rw [hacc x hx, hs1 x hx]
      exact colN_accItems (hobj x hx) e c hlen id
    · rw [hs2 p hp, itemsOfD_not_key (fun hk => hp (hinv.keys p hk))]
  · intro pe hpe
    obtain ⟨pc, hpc, rfl⟩ := List.mem_map.mp hpe
    exact hinv.keys _ (List.mem_map.2 ⟨pc, hpc, rfl⟩)
  · intro p iv hiv
    rw [itemsAt_entsOfDict hinv.nodup] at hiv
    by_cases hp : p ∈ d.map (·.path)
    · obtain ⟨x, hx, rfl⟩ := List.mem_map.mp hp
      rw [hacc x hx] at hiv
      obtain ⟨s, hs, _, _, rfl⟩ := (mem_accItems e x c 0 iv).mp hiv
      obtain ⟨dg, n, sc, hi, hd⟩ := hobj x hx
      have hds : daqScalers x = sc := by simp [daqScalers, hi]
      simp only [idsF, hd.types, Option.getD_some, scTypesOf_ids]
      exact List.mem_map.2 ⟨s, by rw [← hds]; exact hs, rfl⟩
    · rw [itemsOfD_not_key (fun hk => hp (hinv.keys p hk))] at hiv
      cases hiv

theorem seg_ents {F : ScF} {s : SegEnc} {a : List ActiveObj} (hok : SegOKD GoodDesc F s a)
    (hnd : (a.map (·.path)).Nodup) :
    (∀ p id, colN (itemsAt (daqEntsOf (ckOfSeg s a)) p) id = colN (itemsAt (daqEnts s a) p) id) ∧
    (∀ pe ∈ daqEntsOf (ckOfSeg s a), pe.1 ∈ (dataObjs a).map (·.path)) ∧
    (∀ p, ∀ iv ∈ itemsAt (daqEntsOf (ckOfSeg s a)) p, iv.1 ∈ idsF F p) := by
  unfold ckOfSeg daqEnts
  rw [daqEntsOf_append, (pre_std s).2, List.nil_append]
  rcases hok.layout with hl | hl
  · simp only [hl.noDaq, Bool.false_eq_true, if_false]
    have hnil : daqEntsOf (if s.interleaved = true then
        (if (dataObjs a).isEmpty = true then []
         else [Ck.std (pairsOf (dataObjs a) (mergeCols (dataObjs a) s.chunks))])
        else s.chunks.map fun ch => Ck.std (pairsOf (dataObjs a) ch)) = [] := by
      cases hi : s.interleaved with
      | false =>
        simp only [Bool.false_eq_true, if_false]
        have : (s.chunks.map fun ch => Ck.std (pairsOf (dataObjs a) ch)) =
            (s.chunks.map (pairsOf (dataObjs a))).map Ck.std := by rw [List.map_map]; rfl
        rw [this, daqEntsOf_map_std]
      | true =>
        simp only [if_true]
        split
        · rfl
        · simp [daqEntsOf]
    rw [hnil]
    refine ⟨fun _ _ => rfl, ?_, ?_⟩
    · intro _ h; cases h
    · intro _ _ h; simp [itemsAt] at h
  · simp only [daqLayout_any hl, if_true]
    rw [daqEntsOf_map_daq]
    obtain ⟨W, hobj, hch⟩ := hl.width
    have hdnd := dataObjs_nodup hnd
    suffices h : ∀ (chs : List (List (List Bytes))), (∀ c ∈ chs, c ∈ s.chunks) →
        (∀ p id, colN (itemsAt (chs.flatMap fun c => entsOfDict (bmChunk s.endian (dataObjs a) 0 c [])) p) id =
          colN (itemsAt (chs.flatMap (daqEntsOfChunk s.endian (dataObjs a))) p) id) ∧
        (∀ pe ∈ (chs.flatMap fun c => entsOfDict (bmChunk s.endian (dataObjs a) 0 c [])),
          pe.1 ∈ (dataObjs a).map (·.path)) ∧
        (∀ p, ∀ iv ∈ itemsAt (chs.flatMap fun c => entsOfDict (bmChunk s.endian (dataObjs a) 0 c [])) p,
          iv.1 ∈ idsF F p) from h s.chunks (fun _ h => h)
    intro chs
    induction chs with
    | nil =>
      intro _
      refine ⟨fun _ _ => rfl, ?_, ?_⟩
      · intro _ h; cases h
      · intro _ _ h; simp [itemsAt] at h
    | cons c cs ih =>
      intro hmem
      obtain ⟨i1, i2, i3⟩ := ih (fun c' hc' => hmem c' (List.mem_cons_of_mem _ hc'))
      obtain ⟨c1, c2, c3⟩ := chunk_ents s.endian (dataObjs a) hdnd hobj c (hch c (hmem c List.mem_cons_self)).len
      refine ⟨?_, ?_, ?_⟩
      · intro p id
        rw [List.flatMap_cons, List.flatMap_cons, itemsAt_append, itemsAt_append, colN_append, colN_append,
          c1 p id, i1 p id]
      · intro pe hpe
        rw [List.flatMap_cons, List.mem_append] at hpe
        rcases hpe with h | h
        · exact c2 pe h
        · exact i2 pe h
      · intro p iv hiv
        rw [List.flatMap_cons, itemsAt_append, List.mem_append] at hiv
        rcases hiv with h | h
        · exact c3 p iv h
        · exact i3 p iv h

theorem colOf_ckListAll {F : ScF} : ∀ (ss : List SegEnc) (as : List (List ActiveObj)), SegsOKD GoodDesc F ss as →
    ActsNodup as → ∀ q, colOf (stdPairsOf (ckListAll ss as)) q = colOf (allStdPairs ss as) q := by
  intro ss
  induction ss with
  | nil => intro as _ _ q; cases as <;> rfl
  | cons s ss ih =>
    intro as hok hnd q
    cases as with
    | nil => rfl
    | cons a as =>
      rw [ckListAll, allStdPairs, stdPairsOf_append, colOf_append, colOf_append,
        colOf_ckOfSeg hok.1 (hnd a List.mem_cons_self), ih as hok.2 (fun a' ha' => hnd a' (List.mem_cons_of_mem _ ha'))]

theorem all_ents {F : ScF} : ∀ (ss : List SegEnc) (as : List (List ActiveObj)), SegsOKD GoodDesc F ss as →
    ActsNodup as →
    (∀ p id, colN (itemsAt (daqEntsOf (ckListAll ss as)) p) id = colN (itemsAt (allDaqEnts ss as) p) id) ∧
    (∀ p, ∀ iv ∈ itemsAt (daqEntsOf (ckListAll ss as)) p, iv.1 ∈ idsF F p) := by
  intro ss
  induction ss with
  | nil =>
    intro as _ _
    cases as <;> (refine ⟨fun _ _ => rfl, ?_⟩; intro _ _ h; simp [ckListAll, daqEntsOf, itemsAt] at h)
  | cons s ss ih =>
    intro as hok hnd
    cases as with
    | nil => cases hok
    | cons a as =>
      obtain ⟨i1, i2⟩ := ih as hok.2 (fun a' ha' => hnd a' (List.mem_cons_of_mem _ ha'))
      obtain ⟨s1, _, s3⟩ := seg_ents hok.1 (hnd a List.mem_cons_self)
      refine ⟨?_, ?_⟩
      · intro p id
        rw [ckListAll, allDaqEnts, daqEntsOf_append, itemsAt_append, itemsAt_append, colN_append, colN_append,
          s1 p id, i1 p id]
      · intro p iv hiv
        rw [ckListAll, daqEntsOf_append, itemsAt_append, List.mem_append] at hiv
        rcases hiv with h | h
        · exact s3 p iv h
        · exact i2 p iv h

end Tdms.Proofs.C01Layouts
