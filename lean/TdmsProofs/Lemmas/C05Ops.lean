import TdmsProofs.Lemmas.C05Data

/-! # C05: the operations of `Tdms/Model/Lazy.lean` are position independent -/

namespace Tdms.Proofs.C05

open Tdms Tdms.Model Tdms.Generated

theorem resp_readChannelChunkContiguous (file : Bytes) (s : Segment) (ci : Nat) (p : Bytes)
    (os : List SegObj) (cur : Nat) : Respects (readChannelChunkContiguous file s ci p os cur) := by
  induction os generalizing cur with
  | nil => unfold readChannelChunkContiguous; rel_auto
  | cons o os ih => unfold readChannelChunkContiguous; rel_auto

macro_rules | `(tactic| rel_fact) => `(tactic| exact resp_readChannelChunkContiguous _ _ _ _ _ _)

theorem resp_readChannelChunkAt (file : Bytes) (s : Segment) (kind : ReaderKind) (d : List SegObj)
    (p : Bytes) (ci : Nat) : Respects (readChannelChunkAt file s kind d p ci) := by
  unfold readChannelChunkAt
  rel_auto

macro_rules | `(tactic| rel_fact) => `(tactic| exact resp_readChannelChunkAt _ _ _ _ _ _)

theorem resp_readChannelChunksFrom (file : Bytes) (s : Segment) (kind : ReaderKind) (d : List SegObj)
    (p : Bytes) (chunkSz initial chunkOffset : Nat) (stop : Int) (fuel i : Nat) :
    Respects (readChannelChunksFrom file s kind d p chunkSz initial chunkOffset stop fuel i) := by
  induction fuel generalizing i with
  | zero => unfold readChannelChunksFrom; rel_auto
  | succ k ih => unfold readChannelChunksFrom; rel_auto

macro_rules | `(tactic| rel_fact) => `(tactic| exact resp_readChannelChunksFrom _ _ _ _ _ _ _ _ _ _ _)

/-- `segReadChannel` seeks to the data position before anything else -/
theorem resets_segReadChannel (file : Bytes) (s : Segment) (p : Bytes) (co : Nat) (n : Option Int) :
    Resets (segReadChannel file s p co n) := by
  unfold segReadChannel
  rel_auto

macro_rules | `(tactic| rel_fact) => `(tactic| exact resets_segReadChannel _ _ _ _ _)

theorem posIndep_windowLoop (f : OpenFile) (p : Bytes) (ix : ChannelIndex) (offset endIndex length : Int)
    (startSeg endSeg : Nat) (segs : List Segment) (segIndex : Nat) (vr : Int) :
    PosIndep (windowLoop f p ix offset endIndex length startSeg endSeg segs segIndex vr) := by
  induction segs generalizing segIndex vr with
  | nil => unfold windowLoop; rel_auto
  | cons s rest ih => unfold windowLoop; rel_auto

macro_rules | `(tactic| rel_fact) => `(tactic| exact posIndep_windowLoop _ _ _ _ _ _ _ _ _ _ _)

theorem posIndep_readRawDataForChannel (f : OpenFile) (p : Bytes) (offset : Int) (length : Option Int) :
    PosIndep (readRawDataForChannel f p offset length) := by
  unfold readRawDataForChannel
  rel_auto

macro_rules | `(tactic| rel_fact) => `(tactic| exact posIndep_readRawDataForChannel _ _ _ _)

theorem posIndep_channelReadData (f : OpenFile) (p : Bytes) (offset : Int) (length : Option Int) :
    PosIndep (channelReadData f p offset length) := by
  unfold channelReadData
  rel_auto

macro_rules | `(tactic| rel_fact) => `(tactic| exact posIndep_channelReadData _ _ _ _)

theorem posIndep_channelReadSlice (f : OpenFile) (p : Bytes) (a b c : Option Int) :
    PosIndep (channelReadSlice f p a b c) := by
  unfold channelReadSlice
  rel_auto

theorem posIndep_readChannelChunkForIndex (f : OpenFile) (p : Bytes) (i : Nat) :
    PosIndep (readChannelChunkForIndex f p i) := by
  unfold readChannelChunkForIndex
  rel_auto

macro_rules | `(tactic| rel_fact) => `(tactic| exact posIndep_readChannelChunkForIndex _ _ _)

theorem posIndep_channelReadAtIndex (f : OpenFile) (p : Bytes) (cache : Option ChunkCache) (i : Int) :
    PosIndep (channelReadAtIndex f p cache i) := by
  unfold channelReadAtIndex
  rel_auto

/-- every path of `chanIterNext` either performs no I/O or seeks absolutely before it reads -/
theorem posIndep_chanIterNext (f : OpenFile) (fuel : Nat) (it : ChanIter) :
    PosIndep (chanIterNext f fuel it) := by
  induction fuel generalizing it with
  | zero => unfold chanIterNext; rel_auto
  | succ k ih => unfold chanIterNext; rel_auto

/-- every path of `fileIterNext` either performs no I/O or seeks absolutely before it reads -/
theorem posIndep_fileIterNext (f : OpenFile) (fuel : Nat) (it : FileIter) :
    PosIndep (fileIterNext f fuel it) := by
  induction fuel generalizing it with
  | zero => unfold fileIterNext; rel_auto
  | succ k ih => unfold fileIterNext; rel_auto

end Tdms.Proofs.C05
