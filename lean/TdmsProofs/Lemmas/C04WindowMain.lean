import TdmsProofs.Lemmas.C04WindowLoop

/-!
# C04 (windows): the window theorem on model segments, and on abstract layouts

Core Lean only.
-/

namespace Tdms.Proofs.C04

open Tdms Tdms.Model

theorem psum_le_sum (nv : List Nat) (i : Nat) : psum nv i ≤ nv.sum := by
  rcases Nat.le_total i nv.length with h | h
  · have := psum_mono nv h
    rw [psum_of_length_le nv _ (Nat.le_refl _)] at this
    exact this
  · rw [psum_of_length_le nv i h]; exact Nat.le_refl _

/-- the loop started as `readRawDataForChannel` starts it returns `full[offset : endIndex]` -/
theorem window_core (segs : List Segment) (p : Bytes) (vals : Vals) (L : List SegL) (nv : List Nat)
    (hL : L = segs.map (layoutOf p)) (hnv : nv = L.map SegL.nvals)
    (hwf : WellFormed L) (hvals : ValsOk L vals)
    (ix : ChannelIndex) (offset endIndex : Int) (startSeg endSeg : Nat)
    (fr : Frame nv ix offset endIndex startSeg endSeg)
    (hF : startSeg ≤ endSeg → startSeg < segs.length → offset ≤ endIndex)
    (len : Int) (hlen : len = endIndex - offset) :
    dataOf (windowLoopPure (supOf vals) p ix offset endIndex len startSeg endSeg
      ((segs.drop startSeg).take (endSeg + 1 - startSeg)) startSeg 0)
    = sl (full L vals) offset endIndex := by
  subst hlen
  have hLlen : L.length = segs.length := by rw [hL]; simp
  have hnvlen : nv.length = L.length := by rw [hnv]; simp
  rcases Nat.lt_or_ge endSeg startSeg with hlt | hge
  · -- nothing to read
    have hc : endSeg + 1 - startSeg = 0 := by omega
    rw [hc]
    simp only [List.take_zero, windowLoopPure, dataOf_nil]
    symm
    apply sl_eq_nil_of_le
    have h1 := fr.hC
    have h2 := fr.hA
    have h3 := psum_mono nv (show endSeg + 1 ≤ startSeg by omega)
    omega
  · generalize hcnt : endSeg + 1 - startSeg = cnt
    have hloop := loop_eq segs p vals L nv hL hnv hwf hvals ix offset endIndex startSeg endSeg fr hF cnt startSeg 0
      (by omega) (Nat.le_refl _) (by simp)
    rw [hloop]
    have hS := fr.hS
    -- split the full array
    have hsplit : L = L.take startSeg ++ ((L.drop startSeg).take cnt ++ (L.drop startSeg).drop cnt) := by
      rw [List.take_append_drop, List.take_append_drop]
    have h1 : (L.take startSeg).length = startSeg := by rw [List.length_take]; omega
    have hfull : full L vals = fullFrom vals 0 (L.take startSeg) ++
        (fullFrom vals startSeg ((L.drop startSeg).take cnt) ++
          fullFrom vals (startSeg + ((L.drop startSeg).take cnt).length) ((L.drop startSeg).drop cnt)) := by
      unfold full
      conv => lhs; rw [hsplit]
      rw [fullFrom_append, fullFrom_append, h1, Nat.zero_add]
    have hprelen : (fullFrom vals 0 (L.take startSeg)).length = psum nv startSeg := by
      rw [fullFrom_length vals 0 (L.take startSeg) (fun l hl => hwf l (List.mem_of_mem_take hl))
        (fun t l hl => by
          rw [List.getElem?_take] at hl
          split at hl
          · rw [Nat.zero_add]; exact hvals t l hl
          · simp at hl)]
      rw [hnv, psum, List.map_take]
    have hmidlen : (fullFrom vals startSeg ((L.drop startSeg).take cnt)).length
        = ((nv.drop startSeg).take cnt).sum := by
      rw [fullFrom_length vals startSeg ((L.drop startSeg).take cnt)
        (fun l hl => hwf l (List.mem_of_mem_drop (List.mem_of_mem_take hl)))
        (fun t l hl => by
          rw [List.getElem?_take] at hl
          split at hl
          · rw [List.getElem?_drop] at hl; exact hvals _ l hl
          · simp at hl)]
      rw [hnv, List.map_take, List.map_drop]
    rw [hfull, sl_append, sl_append, hprelen, hmidlen]
    rw [sl_eq_nil_of_length_le (fullFrom vals 0 (L.take startSeg)) offset endIndex (by rw [hprelen]; exact fr.hA)]
    rw [sl_eq_nil_of_nonpos (fullFrom vals _ ((L.drop startSeg).drop cnt)) _ _ (by
      have h2 := psum_add nv startSeg cnt
      have h3 := fr.hC
      rw [show startSeg + cnt = endSeg + 1 by omega] at h2
      omega)]
    simp

theorem full_length (L : List SegL) (vals : Vals) (hwf : WellFormed L) (hvals : ValsOk L vals) :
    (full L vals).length = total L := by
  unfold full total
  apply fullFrom_length vals 0 L hwf
  intro t l hl
  rw [Nat.zero_add]
  exact hvals t l hl

theorem window_aux (segs : List Segment) (p : Bytes) (vals : Vals) (numValues : Nat)
    (hwf : WellFormed (segs.map (layoutOf p))) (hvals : ValsOk (segs.map (layoutOf p)) vals)
    (hnum : numValues = total (segs.map (layoutOf p)))
    (offset len : Int) (h0 : 0 ≤ offset) (hend : offset + len ≤ (numValues : Int))
    (hpos : offset < (numValues : Int) → 0 ≤ len) :
    let ix := buildIndex segs p
    let startSeg := ix.firstSegment + searchRight ix.offsets offset
    let endSeg := ix.firstSegment + searchLeft ix.offsets (offset + len)
    dataOf (windowLoopPure (supOf vals) p ix offset (offset + len) len startSeg endSeg
      ((segs.drop startSeg).take (endSeg + 1 - startSeg)) startSeg 0)
    = sl (full (segs.map (layoutOf p)) vals) offset (offset + len) := by
  intro ix startSeg endSeg
  have spec := buildIndex_spec segs p
  rw [nvOf_eq segs p hwf] at spec
  have htot : numValues = ((segs.map (layoutOf p)).map SegL.nvals).sum := by rw [hnum]; rfl
  have fr := frame_of_spec _ ix spec offset (offset + len) h0 (by rw [← htot]; exact hend)
  have hF : startSeg ≤ endSeg → startSeg < segs.length → offset ≤ offset + len := by
    intro h1 h2
    have hB := fr.hB h1 (by simpa using h2)
    have := psum_le_sum ((segs.map (layoutOf p)).map SegL.nvals)
      (ix.firstSegment + searchRight ix.offsets offset + 1)
    rw [← htot] at this
    have := hpos (by omega)
    omega
  exact window_core segs p vals _ _ rfl rfl hwf hvals ix offset (offset + len) _ _ fr hF len (by omega)

/-- **the window theorem on model segments**: for any list of `Segment` records whose layout for
    channel `p` is well formed, `readRawDataForChannel`'s arithmetic (with the segment reads
    returning the chunks `vals`) selects exactly `full[offset : offset + length]` -/
theorem window_eq_slice_segments (segs : List Segment) (p : Bytes) (vals : Vals) (numValues : Nat)
    (hwf : WellFormed (segs.map (layoutOf p))) (hvals : ValsOk (segs.map (layoutOf p)) vals)
    (hnum : numValues = total (segs.map (layoutOf p)))
    (offset : Int) (length : Option Int) (h0 : 0 ≤ offset) (hl : ∀ l, length = some l → 0 ≤ l) :
    dataOf (windowPureG segs p numValues (supOf vals) offset length)
      = takeOpt length ((full (segs.map (layoutOf p)) vals).drop offset.toNat) := by
  have hfl := full_length _ vals hwf hvals
  rw [← hnum] at hfl
  unfold windowPureG windowParams takeOpt
  cases length with
  | none =>
    simp only []
    rw [window_aux segs p vals numValues hwf hvals hnum offset _ h0 (by omega) (by omega)]
    apply sl_full_none
    left; omega
  | some l =>
    have := hl l rfl
    simp only []
    rw [window_aux segs p vals numValues hwf hvals hnum offset _ h0 (by omega) (by omega)]
    apply sl_eq_drop_take _ _ _ _ h0 this
    left; omega

/-! ## abstract layouts -/

theorem layoutOf_toSegment (p : Bytes) (l : SegL) : layoutOf p (l.toSegment p) = l := by
  cases l with
  | mk cs k f =>
    unfold layoutOf SegL.toSegment
    simp only [SegL.mk.injEq]
    refine ⟨?_, trivial, ?_⟩
    · by_cases hcs : cs = 0
      · subst hcs
        simp [getSegmentObject, existingIndex]
      · simp [getSegmentObject, existingIndex, hcs, List.range_succ]
    · cases f with
      | none => rfl
      | some n => simp [overrideGet]

theorem map_layoutOf_toSegment (p : Bytes) (L : List SegL) :
    (L.map (SegL.toSegment p)).map (layoutOf p) = L := by
  rw [List.map_map]
  conv => rhs; rw [← List.map_id L]
  apply List.map_congr_left
  intro l _
  exact layoutOf_toSegment p l

/-- the window theorem on abstract layouts -/
theorem window_eq_slice_layout (L : List SegL) (vals : Vals) (hwf : WellFormed L) (hvals : ValsOk L vals)
    (offset : Int) (length : Option Int) (h0 : 0 ≤ offset) (hl : ∀ l, length = some l → 0 ≤ l) :
    dataOf (windowPure L vals offset length) = takeOpt length ((full L vals).drop offset.toNat) := by
  unfold windowPure
  have hm := map_layoutOf_toSegment chanPath L
  have := window_eq_slice_segments (L.map (SegL.toSegment chanPath)) chanPath vals (total L)
    (by rw [hm]; exact hwf) (by rw [hm]; exact hvals) (by rw [hm]) offset length h0 hl
  rw [hm] at this
  exact this

end Tdms.Proofs.C04
