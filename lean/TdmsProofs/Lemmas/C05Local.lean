import TdmsProofs.Lemmas.C05Len
import TdmsProofs.Lemmas.C19WF

/-! # C05: chunk locality of index reads for well-formed files without DAQmx data -/

namespace Tdms.Proofs.C05

open Tdms Tdms.Model Tdms.Generated Tdms.Proofs.C19

theorem post_readChannelChunkAt (file : Bytes) (s : Segment) (kind : ReaderKind) (d : List SegObj) (p : Bytes)
    (j : Nat) (hk : kind ≠ .daqmx) :
    Post (readChannelChunkAt file s kind d p j) (fun c => dataLen c ≤ chanCap s j p d) := by
  unfold readChannelChunkAt
  cases kind with
  | daqmx => exact (hk rfl).elim
  | interleaved => exact Post.bind (Post.true _) (fun cur _ => post_readChannelChunkContiguous file s j p d cur)
  | contiguous => exact Post.bind (Post.true _) (fun cur _ => post_readChannelChunkContiguous file s j p d cur)

theorem post_readChannelChunksFrom (file : Bytes) (s : Segment) (kind : ReaderKind) (d : List SegObj) (p : Bytes)
    (hk : kind ≠ .daqmx) (cs initial co : Nat) (stop : Int) (fuel i : Nat) :
    Post (readChannelChunksFrom file s kind d p cs initial co stop fuel i)
      (fun l => ∀ c, l.head? = some c → dataLen c ≤ chanCap s (co + i) p d) := by
  cases fuel with
  | zero => unfold readChannelChunksFrom; exact Post.pure _ (fun c h => by cases h)
  | succ fuel =>
    unfold readChannelChunksFrom
    refine Post.ite (fun _ => ?_) (fun _ => Post.pure _ (fun c h => by cases h))
    refine Post.bind (post_readChannelChunkAt file s kind d p (co + i) hk) (fun c hc => ?_)
    refine Post.bind (Post.true _) (fun _ _ => ?_)
    refine Post.bind (Post.true _) (fun rest _ => Post.pure _ ?_)
    intro c' h
    simp only [List.head?_cons, Option.some.injEq] at h
    rw [← h]; exact hc

theorem mem_dictSet {β : Type} (d : List (Bytes × β)) (p : Bytes) (v : β) (e : Bytes × β)
    (h : e ∈ dictSet d p v) : e ∈ d ∨ e = (p, v) := by
  unfold dictSet at h
  split at h
  · rw [List.mem_map] at h
    obtain ⟨x, hx, rfl⟩ := h
    split
    · exact Or.inr rfl
    · exact Or.inl hx
  · rcases List.mem_append.1 h with h | h
    · exact Or.inl h
    · exact Or.inr (List.mem_singleton.1 h)

theorem interleavedColumns_inv (P : Bytes × ChanChunk → Prop) (e : Endian) (rows : List Bytes) (col : Nat)
    (os : List SegObj) (acc c : RawChunk) (hacc : ∀ x ∈ acc, P x)
    (hnew : ∀ o ∈ os, ∀ v : List Bytes, v.length = rows.length → P (o.path, { data := some v }))
    (h : interleavedColumns e rows col os acc = .ok c) : ∀ x ∈ c, P x := by
  induction os generalizing col acc with
  | nil =>
    unfold interleavedColumns at h
    injection h with h
    rw [← h]; exact hacc
  | cons o os ih =>
    unfold interleavedColumns at h
    cases hsz : objSize o with
    | error err => rw [hsz] at h; cases h
    | ok sz =>
      rw [hsz] at h
      refine ih _ _ ?_ (fun o' ho' => hnew o' (List.mem_cons_of_mem _ ho')) h
      intro x hx
      rcases mem_dictSet _ _ _ _ hx with hx | rfl
      · exact hacc x hx
      · exact hnew o (List.mem_cons_self ..) _ (by simp)

theorem get_dataLen_le (c : RawChunk) (p : Bytes) (n : Nat) (d : List SegObj)
    (h : ∀ x ∈ c, dataLen x.2 ≤ n ∧ ∃ o ∈ d, o.path = x.1) :
    dataLen (RawChunk.get c p) ≤ n ∧ (dataLen (RawChunk.get c p) ≠ 0 → ∃ o ∈ d, o.path = p) := by
  unfold RawChunk.get
  cases hf : c.find? (·.1 = p) with
  | none => simp [dataLen]
  | some x =>
    have hx := List.mem_of_find?_eq_some hf
    have hp : x.1 = p := by simpa using List.find?_some hf
    obtain ⟨h1, o, ho, h2⟩ := h x hx
    exact ⟨h1, fun _ => ⟨o, ho, h2.trans hp⟩⟩

theorem post_readRows (file : Bytes) (w n : Nat) : Post (readRows file w n) (fun rows => rows.length ≤ n) := by
  unfold readRows
  refine Post.bind (Post.true _) (fun b _ => ?_)
  dsimp only
  refine Post.ite (fun _ => ?_) (fun _ => Post.pure _ (splitEvery_length_le _ _ _))
  rw [throw_bind_F]; exact Post.throw _

/-- one interleaved read of `n` chunks: every channel gets at most `n · number_values` values, and a
    successful read certifies equal `number_values` -/
theorem post_readInterleavedChunks (file : Bytes) (s : Segment) (d : List SegObj) (n : Nat) :
    Post (readInterleavedChunks file s d n) (fun cs => ∀ c ∈ cs,
      (d.any fun o => o.numberValues ≠ nv0 d) = false ∧
        ∀ x ∈ c, dataLen x.2 ≤ nv0 d * n ∧ ∃ o ∈ d, o.path = x.1) := by
  unfold readInterleavedChunks
  cases d with
  | nil => exact Post.pure _ (fun c h => by cases h)
  | cons o0 tail =>
    dsimp only
    refine Post.ite (fun _ => ?_) (fun hany => ?_)
    · rw [throw_bind_F]; exact Post.throw _
    · have hany' : ((o0 :: tail).any fun o => o.numberValues ≠ nv0 (o0 :: tail)) = false := by
        cases hb : ((o0 :: tail).any fun o => o.numberValues ≠ nv0 (o0 :: tail)) with
        | false => rfl
        | true => exact (hany hb).elim
      split
      · rw [pure_bind]
        refine Post.bind (post_readRows file _ _) (fun rows hrows => ?_)
        split
        · rename_i c hc
          refine Post.pure _ ?_
          intro c' hc'
          rw [List.mem_singleton] at hc'
          rw [hc']
          refine ⟨hany', fun x hx => ?_⟩
          exact interleavedColumns_inv
            (fun x => dataLen x.2 ≤ nv0 (o0 :: tail) * n ∧ ∃ o ∈ o0 :: tail, o.path = x.1)
            _ rows 0 _ [] c (fun x hx => by cases hx)
            (fun o ho v hv => ⟨by simp only [dataLen, Option.getD_some, hv]; exact hrows, o, ho, rfl⟩) hc x hx
        · exact Post.throw _
      · rw [throw_bind_F]; exact Post.throw _

theorem find?_path_some {d : List SegObj} {p : Bytes} (h : ∃ o ∈ d, o.path = p) :
    ∃ o, d.find? (·.path = p) = some o ∧ o ∈ d ∧ o.path = p := by
  cases hf : d.find? (·.path = p) with
  | some o => exact ⟨o, rfl, List.mem_of_find?_eq_some hf, by simpa using List.find?_some hf⟩
  | none =>
    obtain ⟨o, ho, hp⟩ := h
    rw [List.find?_eq_none] at hf
    exact absurd (by simpa using hp) (hf o ho)

/-- the first chunk returned for chunk index `ci` holds at most as many values as the channel's data
    object declares for that chunk -/
theorem post_segReadChannel (file : Bytes) (s : Segment) (p : Bytes) (ci : Nat)
    (hnd : dataReaderKind s ≠ .ok .daqmx) (hov : dataReaderKind s = .ok .interleaved → s.override = none) :
    Post (segReadChannel file s p ci (some 1))
      (fun chunks => ∀ c, chunks.head? = some c → dataLen c ≤ chanCap s ci p (C19.dataObjs s)) := by
  rw [segReadChannel_eq]
  refine Post.bind (Post.true _) (fun _ _ => ?_)
  refine Post.bind (Post.true _) (fun cs _ => ?_)
  refine Post.bind (Post.true _) (fun _ _ => ?_)
  unfold segReadBody
  dsimp only
  refine Post.bind (Q := fun kind => dataReaderKind s = .ok kind) (Post.liftE _ (fun a h => h)) (fun kind hkind => ?_)
  refine Post.bind (Post.true _) (fun initial _ => ?_)
  have hhead : ∀ (pre l : List ChanChunk) (n : Nat), (∀ c, l.head? = some c → dataLen c ≤ n) →
      (pre = [{}] ∨ pre = []) → ∀ c, (pre ++ l).head? = some c → dataLen c ≤ n := by
    intro pre l n hl hpre c hc
    rcases hpre with rfl | rfl
    · simp only [List.cons_append, List.head?_cons, Option.some.injEq] at hc
      rw [← hc]; simp [dataLen]
    · exact hl c hc
  have hpre : (if (!hasFlag s.toc kTocRawData) = true then [({} : ChanChunk)] else []) = [{}] ∨
      (if (!hasFlag s.toc kTocRawData) = true then [({} : ChanChunk)] else []) = [] := by
    split
    · exact Or.inl rfl
    · exact Or.inr rfl
  cases kind with
  | daqmx => exact (hnd hkind).elim
  | interleaved =>
    dsimp only
    have h1 : ((1 : Int) + ↑ci - ↑ci).toNat = 1 := by
      have : (1 : Int) + ↑ci - ↑ci = 1 := by omega
      rw [this]; rfl
    rw [h1]
    refine Post.ite (fun _ => ?_) (fun _ => ?_)
    · rw [throw_bind_F]; exact Post.throw _
    · refine Post.bind (post_readInterleavedChunks file s (C19.dataObjs s) 1) (fun chunks hchunks => ?_)
      have hout : ∀ c, (chunks.map fun c => RawChunk.get c p).head? = some c →
          dataLen c ≤ chanCap s ci p (C19.dataObjs s) := by
        intro c hc
        cases chunks with
        | nil => cases hc
        | cons c0 rest =>
          simp only [List.map_cons, List.head?_cons, Option.some.injEq] at hc
          obtain ⟨hany, hall⟩ := hchunks c0 (List.mem_cons_self ..)
          obtain ⟨hle, hex⟩ := get_dataLen_le c0 p _ (C19.dataObjs s) hall
          rw [hc] at hle hex
          by_cases hz : dataLen c = 0
          · rw [hz]; exact Nat.zero_le _
          · obtain ⟨o, hfind, ho, _⟩ := find?_path_some (hex hz)
            unfold chanCap
            rw [hfind]
            dsimp only
            have hnv := any_ne_false hany o ho
            unfold channelNumberValues
            rw [hov hkind]
            dsimp only
            rw [hnv]; simpa using hle
      refine Post.ite (fun _ => ?_) (fun _ => Post.pure _ (hhead _ _ _ hout hpre))
      exact Post.bind (Post.true _) (fun _ _ => Post.pure _ (hhead _ _ _ hout hpre))
  | contiguous =>
    dsimp only
    refine Post.bind (post_readChannelChunksFrom file s .contiguous (C19.dataObjs s) p (by intro h; cases h) cs initial ci
      _ _ 0) (fun l hl => Post.pure _ (hhead _ _ _ hl hpre))

end Tdms.Proofs.C05
