import TdmsProofs.Model.Sensors
import TdmsProofs.Lemmas.TiedScalingBuild

/-!
# Sensor scalings (generated from `nptdms/scaling.py`) against `TdmsProofs/Model/Sensors.lean`

Values in an arbitrary field `K` with decidable equality; a float literal `k.0` of the source is `((k : ℕ) : K)`,
`0.5` is `((1 : ℕ) : K) / ((2 : ℕ) : K)`.
-/

namespace Tdms.Proofs.Tied2

open Tdms.Model.Sensors Tdms.Generated Tdms.Generated.Code2

variable {K : Type} [Field K] [DecidableEq K]

theorem eqInt_nat (a b : Nat) : Py.Val.eq (Py.Val.int (a : Int) : Py.Val K) (Py.Val.int (b : Int)) = decide (a = b) := by
  simp [Py.Val.eq]

/-- `_adjust_for_lead_resistance`: the decision table (resistance configuration × excitation type) -/
theorem adjust_for_lead_resistance_eq (r lead : K) (et cfg : Nat) :
    _adjust_for_lead_resistance r (.int (et : Int)) (.int (cfg : Int)) (.num lead) =
      .ok (adjustLead (decide (et = 10134)) cfg r lead) := by
  unfold _adjust_for_lead_resistance adjustLead
  have h3 : Py.Val.eq (Py.Val.int (cfg : Int) : Py.Val K) (Py.Val.int (3 : Int)) = decide (cfg = 3) := eqInt_nat cfg 3
  have h2 : Py.Val.eq (Py.Val.int (cfg : Int) : Py.Val K) (Py.Val.int (2 : Int)) = decide (cfg = 2) := eqInt_nat cfg 2
  have he : Py.Val.eq (Py.Val.int (et : Int) : Py.Val K) (Py.Val.int CURRENT_EXCITATION) = decide (et = 10134) :=
    eqInt_nat et 10134
  simp only [h3, h2, he, Py.Val.toNum, decide_eq_true_eq]
  by_cases c3 : cfg = 3
  · simp [c3]
  · by_cases c2 : et = 10134 ∧ cfg = 2
    · simp [c3, c2]
    · simp only [c3, if_false, c2]
      simp

/-- the lead resistance may be an integer property -/
theorem adjust_for_lead_resistance_int (r : K) (lead et cfg : Nat) :
    _adjust_for_lead_resistance r (.int (et : Int)) (.int (cfg : Int)) (.int (lead : Int)) =
      .ok (adjustLead (decide (et = 10134)) cfg r (lead : K)) := by
  have := adjust_for_lead_resistance_eq r (lead : K) et cfg
  unfold _adjust_for_lead_resistance at this ⊢
  simpa [Py.Val.toNum] using this

/-- `RtdScaling.scale`, the resistance step: `V / I`, then the lead correction with CURRENT excitation -/
theorem rtd_scale_resistance_eq (o : RtdScaling K) (I lead : K) (cfg : Nat) (hI : o.current_excitation = .num I)
    (hl : o.lead_wire_resistance = .num lead) (hc : o.resistance_configuration = .int (cfg : Int)) (v : K) :
    RtdScaling.scale_resistance o v = .ok (rtdResistance I lead cfg v) := by
  unfold RtdScaling.scale_resistance rtdResistance
  have h := adjust_for_lead_resistance_eq (v / I) lead 10134 cfg
  simp only [hI, hl, hc, Py.Val.toNum, ok_bind, CURRENT_EXCITATION] at h ⊢
  have e : ((10134 : Nat) : Int) = (10134 : Int) := rfl
  rw [e] at h
  rw [h]
  simp

/-- `ThermistorScaling.scale`, the resistance step: the excitation dispatch, then the lead correction with the
    thermistor's own excitation type -/
theorem thermistor_scale_resistance_eq (o : ThermistorScaling K) (et cfg : Nat) (ev r1 lead : K)
    (het : o.excitation_type = .int (et : Int)) (hev : o.excitation_value = .num ev)
    (hr1 : o.r1_reference_resistance = .num r1) (hl : o.lead_wire_resistance = .num lead)
    (hc : o.resistance_configuration = .int (cfg : Int)) (v : K) :
    ThermistorScaling.scale_resistance o v =
      if et = 10134 then .ok (thermistorResistance true ev r1 lead cfg v)
      else if et = 10322 then .ok (thermistorResistance false ev r1 lead cfg v)
      else .error "ValueError" := by
  unfold ThermistorScaling.scale_resistance thermistorResistance thermistorResistanceCurrent thermistorResistanceVoltage
  have e1 : Py.Val.eq (Py.Val.int (et : Int) : Py.Val K) (Py.Val.int CURRENT_EXCITATION) = decide (et = 10134) :=
    eqInt_nat et 10134
  have e2 : Py.Val.eq (Py.Val.int (et : Int) : Py.Val K) (Py.Val.int VOLTAGE_EXCITATION) = decide (et = 10322) :=
    eqInt_nat et 10322
  simp only [het, hev, hr1, hl, hc, e1, e2, Py.Val.toNum, decide_eq_true_eq]
  by_cases c1 : et = 10134
  · subst c1
    simp only [if_true, ok_bind, pure_eq_ok]
    have h := adjust_for_lead_resistance_eq (v / ev) lead 10134 cfg
    rw [h]; simp
  · by_cases c2 : et = 10322
    · subst c2
      simp only [if_true, ok_bind, pure_eq_ok]
      have h := adjust_for_lead_resistance_eq (r1 * (ev * v⁻¹ - ((1 : Nat) : K))⁻¹) lead 10322 cfg
      simp only [c1, if_false] at h ⊢
      rw [h]; simp
    · simp [c1, c2]

/-- the Python `StrainScaling` object with configuration `cfg` and parameters `p` -/
def pyStrain (cfg : Nat) (p : StrainParams K) (src : Py.Val K) : StrainScaling K :=
  ⟨.int (cfg : Int), .num p.nu, .num p.gageResistance, .num p.lead, .num p.vInit, .num p.gageFactor, .num p.gain,
   .num p.vex, src⟩

/-- `StrainScaling.scale`: configuration dispatch and the seven formulas -/
theorem strain_scale_eq (cfg : Nat) (p : StrainParams K) (src : Py.Val K) (v : K) :
    StrainScaling.scale (pyStrain cfg p src) v =
      match strainScale cfg p v with
      | some y => .ok y
      | none => .error "Exception" := by
  unfold StrainScaling.scale strainScale pyStrain
  have e (c : Nat) : Py.Val.eq (Py.Val.int (cfg : Int) : Py.Val K) (Py.Val.int (c : Int)) = decide (cfg = c) := eqInt_nat cfg c
  have c1 := e 10183; have c2 := e 10184; have c3 := e 10185; have c4 := e 10188; have c5 := e 10189
  have c6 := e 10271; have c7 := e 10272
  have hv : (!(Py.Val.eq (Py.Val.num p.vInit : Py.Val K) (Py.Val.num ((0 : Nat) : K)))) = decide (p.vInit ≠ 0) := by
    simp [Py.Val.eq]
  simp only [StrainScaling.FULL_BRIDGE_1, StrainScaling.FULL_BRIDGE_2, StrainScaling.FULL_BRIDGE_3,
    StrainScaling.HALF_BRIDGE_1, StrainScaling.HALF_BRIDGE_2, StrainScaling.QUARTER_BRIDGE_1,
    StrainScaling.QUARTER_BRIDGE_2]
  simp only [show ((10183 : Int)) = ((10183 : Nat) : Int) from rfl, show ((10184 : Int)) = ((10184 : Nat) : Int) from rfl,
    show ((10185 : Int)) = ((10185 : Nat) : Int) from rfl, show ((10188 : Int)) = ((10188 : Nat) : Int) from rfl,
    show ((10189 : Int)) = ((10189 : Nat) : Int) from rfl, show ((10271 : Int)) = ((10271 : Nat) : Int) from rfl,
    show ((10272 : Int)) = ((10272 : Nat) : Int) from rfl, c1, c2, c3, c4, c5, c6, c7, hv, Py.Val.toNum,
    decide_eq_true_eq]
  by_cases h1 : cfg = 10183
  · subst h1; simp [strainFullBridge1, subInitial]; split <;> simp
  by_cases h2 : cfg = 10184
  · subst h2; simp [strainFullBridge2, subInitial]; split <;> simp
  by_cases h3 : cfg = 10185
  · subst h3; simp [strainFullBridge3, subInitial]; split <;> simp
  by_cases h4 : cfg = 10188
  · subst h4; simp [strainHalfBridge1, leadAdjustment, subInitial]; split <;> simp
  by_cases h5 : cfg = 10189
  · subst h5; simp [strainHalfBridge2, leadAdjustment, subInitial]; split <;> simp
  by_cases h6 : cfg = 10271 ∨ cfg = 10272
  · simp [h1, h2, h3, h4, h5, h6, strainQuarterBridge, leadAdjustment, subInitial]; split <;> simp
  · have h6a : cfg ≠ 10271 := fun h => h6 (Or.inl h)
    have h6b : cfg ≠ 10272 := fun h => h6 (Or.inr h)
    simp [h1, h2, h3, h4, h5, h6a, h6b]

end Tdms.Proofs.Tied2
