/-
  C01 for multi-segment files: chunk arithmetic of one segment and one iteration of `readMetadataLoop`
  on the encoding of a segment of the class, from any reachable reader state.  Core Lean only.
-/
import TdmsProofs.Lemmas.C01MultiTypes

namespace Tdms.Proofs.C01Multi

open Tdms Tdms.Generated Tdms.Model Tdms.Proofs.C02 Tdms.Proofs.LeadIn
open Tdms.Proofs.Bytes (canonProp contOK aTy)

/-! ## the reader's view of an active list -/

theorem filter_hasData_conc (a : List ActiveObj) :
    (a.map concObj).filter (·.hasData) = (dataObjs a).map concObj := by
  induction a with
  | nil => rfl
  | cons x xs ih =>
    unfold dataObjs at ih ⊢
    simp only [List.map_cons, List.filter_cons, concObj_hasData]
    cases x.hasData <;> simp [ih]

theorem concObj_daq_none {x : ActiveObj} (h : ∀ d, x.idx = some d → GoodDesc d) : (concObj x).daq = none := by
  unfold concObj
  cases hi : x.idx with
  | none => rfl
  | some d =>
    cases d with
    | std ty n total => rfl
    | daq dg ty n sc w => exact absurd (h _ hi) (by simp [GoodDesc])

theorem haveDaqmxObjects_conc (a : List ActiveObj) (hg : ∀ x ∈ a, ∀ d, x.idx = some d → GoodDesc d) :
    haveDaqmxObjects (a.map concObj) = .ok false := by
  have : ((a.map concObj).filter (·.hasData)).filter (·.daq.isSome) = [] := by
    rw [List.filter_eq_nil_iff]
    intro o ho
    obtain ⟨x, hx, rfl⟩ := List.mem_map.mp (List.mem_filter.mp ho).1
    simp [concObj_daq_none (hg x hx)]
  simp [haveDaqmxObjects, this]

/-- bytes of one chunk, as the reader computes them from the indexes -/
def chunkBytesA (a : List ActiveObj) : Nat := ((dataObjs a).map fun x => (concObj x).dataSize).sum

theorem chunkSize_conc (a : List ActiveObj) (hg : ∀ x ∈ a, ∀ d, x.idx = some d → GoodDesc d) :
    chunkSize (a.map concObj) = .ok (chunkBytesA a) := by
  rw [Tdms.Proofs.C06.chunkSize_std _ (haveDaqmxObjects_conc a hg), filter_hasData_conc]
  unfold chunkBytesA
  rw [List.map_map]
  rfl

/-! ## one encoded chunk: its size, and agreement of reader objects, encoder objects and values -/

theorem chunk_facts (e : Endian) : ∀ (d : List ActiveObj) (ch : List (List Bytes)),
    (∀ x ∈ d, ∀ i, x.idx = some i → GoodDesc i) → wfStdChunk d ch = true →
    contOK (d.map concObj) d ch ∧
      (encChunkContiguous e d ch).length = (d.map fun x => (concObj x).dataSize).sum := by
  intro d
  induction d with
  | nil => intro ch _ h; cases ch <;> simp [wfStdChunk, contOK, encChunkContiguous] at h ⊢
  | cons a as ih =>
    intro ch hg hwf
    cases ch with
    | nil => simp [wfStdChunk] at hwf
    | cons v vs =>
      rw [wfStdChunk, Bool.and_eq_true] at hwf
      obtain ⟨h1, hrest⟩ := hwf
      obtain ⟨ihc, ihl⟩ := ih vs (fun x hx => hg x (List.mem_cons_of_mem _ hx)) hrest
      cases hi : a.idx with
      | none => rw [hi] at h1; cases h1
      | some dsc =>
        cases dsc with
        | daq dg ty n sc w => rw [hi] at h1; cases h1
        | std ty n total =>
          have hgd := hg a List.mem_cons_self _ hi
          simp only [GoodDesc] at hgd
          obtain ⟨hkind, _, hstr, hcan⟩ := hgd
          rw [hi] at h1
          simp only [Bool.and_eq_true, decide_eq_true_eq] at h1
          obtain ⟨hn, hshape⟩ := h1
          have haty : aTy a = ty := by simp [aTy, hi, IdxDesc.ty]
          have hconc : concObj a =
              { path := a.path, hasData := a.hasData, numberValues := n, dataSize := total, dataType := some ty } := by
            unfold concObj; rw [hi]
          by_cases hty : ty = tyString
          · subst hty
            simp only [if_true, decide_eq_true_eq] at hshape
            have hsum : (v.map (·.length)).sum = v.flatten.length := by rw [List.length_flatten]
            have htot := hstr rfl
            refine ⟨⟨⟨by rw [hconc, haty], by rw [hconc, hn], Or.inr ⟨haty, by omega⟩⟩, ihc⟩, ?_⟩
            simp only [encChunkContiguous, hi, Option.map_some, Option.getD_some, IdxDesc.ty,
              List.length_append, List.map_cons, List.sum_cons, ihl, hconc]
            rw [Tdms.Proofs.Bytes.encObjValues_string_length]
            omega
          · simp only [hty, if_false, List.all_eq_true, decide_eq_true_eq] at hshape
            have hsome : (typeSize ty).isSome = true := by
              rcases hkind with h | h
              · exact absurd h hty
              · exact h
            obtain ⟨sz, hsz⟩ := Option.isSome_iff_exists.mp hsome
            have hall : ∀ x ∈ v, x.length = sz := by
              intro x hx
              have := hshape x hx
              rw [hsz] at this
              exact Option.some.inj this
            refine ⟨⟨⟨by rw [hconc, haty], by rw [hconc, hn], Or.inl ⟨sz, by rw [haty]; exact hsz, hall⟩⟩, ihc⟩,
              ?_⟩
            simp only [encChunkContiguous, hi, Option.map_some, Option.getD_some, IdxDesc.ty,
              List.length_append, List.map_cons, List.sum_cons, ihl, hconc]
            rw [Tdms.Proofs.Bytes.encObjValues_fixed_length e hsz v hall, hcan hty, hsz, hn]
            rfl

theorem encChunk_contig (s : SegEnc) (a : List ActiveObj) (hi : s.interleaved = false)
    (hnd : (dataObjs a).any isDaqmxObj = false) (c : List (List Bytes)) :
    encChunk s a c = encChunkContiguous s.endian (dataObjs a) c := by
  simp only [encChunk, hnd, hi, Bool.false_eq_true, if_false]

theorem encRaw_contig (s : SegEnc) (a : List ActiveObj) (hi : s.interleaved = false)
    (hnd : (dataObjs a).any isDaqmxObj = false) :
    encRaw s a = s.chunks.flatMap (encChunkContiguous s.endian (dataObjs a)) := by
  unfold encRaw
  congr 1
  funext c
  exact encChunk_contig s a hi hnd c

theorem good_dataObjs {a : List ActiveObj} (hg : ∀ x ∈ a, ∀ d, x.idx = some d → GoodDesc d) :
    ∀ x ∈ dataObjs a, ∀ d, x.idx = some d → GoodDesc d := by
  intro x hx
  exact hg x (List.mem_filter.mp hx).1

theorem encRaw_length {s : SegEnc} {a : List ActiveObj} (h : SegOK s a) :
    (encRaw s a).length = s.chunks.length * chunkBytesA a := by
  rw [encRaw_contig s a h.std.contiguous (not_daq_of_good h.good)]
  apply C01Compose.flatMap_length_const
  intro c hc
  exact (chunk_facts s.endian (dataObjs a) c (good_dataObjs h.good) (h.chunks c hc)).2

theorem chunkBytes_zero_no_chunks {s : SegEnc} {a : List ActiveObj} (h : SegOK s a)
    (h0 : chunkBytesA a = 0) : s.chunks.length = 0 := by
  cases hc : s.chunks with
  | nil => rfl
  | cons c cs =>
    exfalso
    have hmem : c ∈ s.chunks := by rw [hc]; exact List.mem_cons_self
    apply h.nonZero c hmem
    rw [encChunk_contig s a h.std.contiguous (not_daq_of_good h.good),
      (chunk_facts s.endian (dataObjs a) c (good_dataObjs h.good) (h.chunks c hmem)).2]
    exact h0

/-! ## `updateObjectMetadata`, when it succeeds, is the fold of `stepMetas` -/

theorem uom_ok_fold (seg : Segment) : ∀ (objs : List SegObj) (prev : PrevObjs) (ms : ObjMetas)
    (prev' : PrevObjs) (ms' : ObjMetas), updateObjectMetadata seg objs prev ms = .ok (prev', ms') →
    ms' = objs.foldl (stepMetas seg) ms := by
  intro objs
  induction objs with
  | nil => intro prev ms prev' ms' h; simp only [updateObjectMetadata] at h; cases h; rfl
  | cons o os ih =>
    intro prev ms prev' ms' h
    rw [uom_cons] at h
    split at h
    · cases h
    · split at h
      · cases h
      · exact ih _ _ _ _ h

/-! ## the `Segment` record the reader builds -/

def segRec (pos : Nat) (s : SegEnc) (a : List ActiveObj) : Segment :=
  { position := pos, toc := tocMask s, nextSegmentPos := pos + (encodeSeg s a).length,
    dataPosition := pos + 28 + (segMeta s).length, incomplete := false,
    objects := a.map concObj, numChunks := s.chunks.length, override := none }

theorem encodeSeg_split (s : SegEnc) (a : List ActiveObj) :
    encodeSeg s a = encLeadIn tagData s (segMeta s).length (encRaw s a).length ++ (segMeta s ++ encRaw s a) := by
  simp [encodeSeg]

theorem encLeadIn_length (tag : Bytes) (s : SegEnc) (m r : Nat) (ht : tag.length = 4) :
    (encLeadIn tag s m r).length = 28 := by
  simp [encLeadIn, ht]

theorem hdrsOf_canon (objs : List ObjEnc) (h : ∀ o ∈ objs, canonIdx o.idx = o.idx) : hdrsOf objs = hdrsRaw objs := by
  unfold hdrsOf hdrsRaw
  apply List.map_congr_left
  intro o ho
  rw [hdrOf, h o ho]

theorem segMeta_of_meta (s : SegEnc) (h : s.hasMeta = true) :
    segMeta s = encMeta s.endian s.objs ++ List.replicate s.padding 0 := by
  simp [segMeta, h]

theorem propsDict_nil {s : SegEnc} (h : s.objs = []) : propsDict s = [] := by
  simp [propsDict, h]

/-- the reader state after one more segment -/
def stateAfter (st : ReaderState) (pos : Nat) (s : SegEnc) (a : List ActiveObj) (prev' : PrevObjs)
    (c' : Content) : ReaderState :=
  { version := some (st.version.getD (s.version : Int)), versions := st.versions ++ [(s.version : Int)],
    prevObjs := prev', objects := c'.map (mOC fun _ => 0), segments := st.segments ++ [segRec pos s a] }

theorem version_lt' {s : SegEnc} (h : s.version = 4712 ∨ s.version = 4713) : s.version < 2 ^ 31 := by
  rcases h with h | h <;> rw [h] <;> decide

/-- **one iteration of the metadata loop on an encoded segment**, from any reachable state -/
theorem loopStep_segment (file : Bytes) (hlen : file.length < 2 ^ 63) (pos : Nat) (s : SegEnc)
    (a : List ActiveObj) (rest : Bytes) (hfile : file.drop pos = encodeSeg s a ++ rest)
    (st : ReaderState) (seen : List Bytes) (prev : Option (List ActiveObj)) (last last' : LastIdx)
    (c : Content) (hact : activeOfSeg prev last s = .ok (a, last')) (hok : SegOK s a)
    (hinv : FileInv seen prev last (mstateOf st)) (hspec : SpecInv prev last)
    (hobjs : st.objects = c.map (mOC fun _ => 0)) (hnodup : (c.map (·.path)).Nodup) :
    ∃ prev', loopStep file false (some file.length) pos pos st =
        .ok (.next (pos + (encodeSeg s a).length) (pos + (encodeSeg s a).length)
          (stateAfter st pos s a prev' (denoteSeg c s a))) ∧
      FileInv (seen ++ a.map (·.path)) (some a) last'
        (mstateOf (stateAfter st pos s a prev' (denoteSeg c s a))) ∧
      SpecInv (some a) last' := by
  have hpost := activeOfSeg_post hspec hok.nodup hact
  have hL := activeOfSeg_ok_L hact
  have hdiv := noBareReuseSeg_of_ok hact hok.nodup seen
  have hsplit := encodeSeg_split s a
  have hraw := encRaw_length hok
  have hli28 := encLeadIn_length tagData s (segMeta s).length (encRaw s a).length rfl
  have hseglen : (encodeSeg s a).length = 28 + (segMeta s).length + (encRaw s a).length := by
    rw [hsplit]; simp [hli28]; omega
  -- positions
  have hdl : (file.drop pos).length = (encodeSeg s a).length + rest.length := by rw [hfile]; simp
  have hposle : pos + (encodeSeg s a).length ≤ file.length := by
    rw [List.length_drop] at hdl; omega
  -- the lead-in
  have hlead : readLeadIn (file.drop pos) pos false (some file.length) =
      .ok (some { toc := tocMask s, version := s.version, dataPosition := pos + 28 + (segMeta s).length,
                  nextSegmentPos := pos + 28 + (segMeta s).length + (encRaw s a).length,
                  incomplete := false }) := by
    rw [hfile, hsplit, List.append_assoc]
    exact Tdms.Proofs.C01.readLeadIn_encLeadIn s _ _ pos file.length _ hok.std.lengthKnown
      (version_lt' hok.version) (by omega) (by omega) (by omega)
  have hdrop : file.drop (pos + 28) = segMeta s ++ (encRaw s a ++ rest) := by
    rw [← List.drop_drop, hfile, hsplit, List.append_assoc, List.drop_left' hli28, List.append_assoc]
  -- the metadata block
  have hflagM : hasFlag (tocMask s) kTocMetaData = s.hasMeta := Tdms.Proofs.Bytes.hasFlag_tocMask_meta s
  have hflagN : hasFlag (tocMask s) kTocNewObjList = s.newList := Tdms.Proofs.Bytes.hasFlag_tocMask_newList s
  let seg0 : Segment := ⟨pos, tocMask s, pos + 28 + (segMeta s).length + (encRaw s a).length,
    pos + 28 + (segMeta s).length, false, [], 0, none⟩
  have he : seg0.endian = s.endian := Tdms.Proofs.Bytes.segEndian_of_tocMask s
  have hparse : hasFlag seg0.toc kTocMetaData = true →
      (do let n ← uN seg0.endian 4; parseObjs seg0.endian n : P (List Item)) (file.drop (pos + 28)) =
        .ok (s.objs.map itemOf, List.replicate s.padding 0 ++ (encRaw s a ++ rest)) := by
    intro hm
    have hm' : s.hasMeta = true := by rw [← hflagM]; exact hm
    rw [he, hdrop, segMeta_of_meta s hm', List.append_assoc]
    exact parseMeta_encMeta s.endian s.objs _ hok.fits.nObjs hok.objs hok.std.std hok.fits.objs
  have hseg := readSegmentObjects_eq seg0 st.segments.getLast? st.prevObjs hinv.keyed
    (file.drop (pos + 28)) _ (s.objs.map itemOf) hparse
  -- the object list
  have hdesc : (⟨hasFlag seg0.toc kTocMetaData, hasFlag seg0.toc kTocNewObjList,
      (s.objs.map itemOf).map fun it => (it.path, it.hdr)⟩ : SegDesc) = descOfSegRaw s := by
    show (⟨hasFlag (tocMask s) kTocMetaData, hasFlag (tocMask s) kTocNewObjList, _⟩ : SegDesc) = _
    rw [hflagM, hflagN, items_hdrs, hdrsOf_canon s.objs hok.std.canon]
    rfl
  have href := segObjects_refines hinv s hok.nodup hdiv
  rw [hL] at href
  obtain ⟨hsegobjs, hpostseg⟩ := href
  have hsegobjs' : segObjects (st.segments.getLast?.map (·.objects)) st.prevObjs (descOfSegRaw s) =
      .ok (a.map concObj) := hsegobjs
  -- the chunks
  have hcalc : calculateChunks { seg0 with objects := a.map concObj } = .ok (segRec pos s a) := by
    rw [C01Compose.calculateChunks_whole _ (chunkBytesA a) s.chunks.length (chunkSize_conc a hok.good)
      (by show pos + 28 + (segMeta s).length + (encRaw s a).length = _; rw [hraw])
      (chunkBytes_zero_no_chunks hok)]
    have hnp : pos + (encodeSeg s a).length = pos + 28 + (segMeta s).length + (encRaw s a).length := by omega
    unfold segRec
    rw [hnp]
  have hprops : (if hasFlag seg0.toc kTocMetaData then foldProps [] (s.objs.map itemOf) else []) = propsDict s := by
    show (if hasFlag (tocMask s) kTocMetaData then _ else _) = _
    rw [hflagM]
    by_cases hm : s.hasMeta = true
    · simp only [hm, if_true]
      rw [foldProps_items s.objs [] hok.nodup (fun _ _ x hx => by cases hx)]
      rfl
    · have hm' : s.hasMeta = false := by simpa using hm
      simp only [hm', Bool.false_eq_true, if_false]
      exact (propsDict_nil (hok.noMeta hm')).symm
  have hreadseg : readSegmentObjects seg0 st.segments.getLast? st.prevObjs (file.drop (pos + 28)) =
      .ok (segRec pos s a, propsDict s) := by
    rw [hseg, hdesc, hsegobjs']
    simp only [bind, Except.bind]
    rw [hcalc, hprops]
    rfl
  -- object metadata
  have hfs := fileStep_post hinv hpostseg hpost.mono (segRec pos s a) (propsDict s)
  have hnodaq := uom_noDaq (segRec pos s a) (a.map concObj) st.prevObjs st.objects (by
    intro o ho
    obtain ⟨x, hx, rfl⟩ := List.mem_map.mp ho
    exact concObj_daq_none (hok.good x hx))
  cases hu : updateObjectMetadata (segRec pos s a) (a.map concObj) st.prevObjs st.objects with
  | error err =>
    rw [show (mstateOf st).prevObjs = st.prevObjs from rfl, show (mstateOf st).metas = st.objects from rfl,
      hu] at hfs
    rw [hu] at hnodaq
    exact absurd hfs hnodaq
  | ok pm =>
    obtain ⟨prev', ms'⟩ := pm
    rw [show (mstateOf st).prevObjs = st.prevObjs from rfl, show (mstateOf st).metas = st.objects from rfl,
      hu] at hfs
    simp only [] at hfs
    have hms' := uom_ok_fold _ _ _ _ _ _ hu
    have hty : ∀ oc ∈ c, last'.get oc.path = none → oc.ty = none := by
      intro oc hoc hl
      have hlast : last.get oc.path = none := by
        cases hg : last.get oc.path with
        | none => rfl
        | some d =>
          obtain ⟨d', hd', _⟩ := hpost.mono _ _ hg
          rw [hl] at hd'; cases hd'
      have ht := hinv.types oc.path
      rw [hlast] at ht
      have hfind : st.objects.find? (·.path = oc.path) = some (mOC (fun _ => 0) oc) := by
        rw [hobjs, List.find?_map]
        have := find_of_nodup hnodup hoc
        have hcomp : ((fun m : ObjMeta => decide (m.path = oc.path)) ∘ mOC fun _ => 0) =
            fun x : ObjContent => decide (x.path = oc.path) := by
          funext x; rfl
        rw [hcomp, this]
        rfl
      simpa [dtOf, ObjMetas.get, mstateOf, hfind, mOC] using ht
    have hmetas : updateObjectProperties ms' (propsDict s) = (denoteSeg c s a).map (mOC fun _ => 0) := by
      rw [hms', hobjs]
      exact segment_metas (segRec pos s a) rfl s a last' c rfl hpost.idx hok.good hty hpost.listed hok.noMeta
        hok.chunks
    refine ⟨prev', ?_, ?_, hpost.specInv⟩
    · unfold loopStep
      rw [hlead]
      simp only []
      rw [hreadseg]
      simp only []
      rw [show (segRec pos s a).objects = a.map concObj from rfl, hu]
      simp only [Bool.false_eq_true, if_false, hmetas]
      rfl
    · have : mstateOf (stateAfter st pos s a prev' (denoteSeg c s a)) =
          ⟨some (a.map concObj), prev', updateObjectProperties ms' (propsDict s)⟩ := by
        rw [hmetas]
        simp [mstateOf, stateAfter, segRec]
      rw [this]
      exact hfs

end Tdms.Proofs.C01Multi
