/-
  C10 whole: assembling — the layout's property lists come from source objects; the one-session program
  `[defragSegs r groups]` meets the hypotheses of C07Whole's `write_then_read`; its promised view is
  `viewOfLayout r groups`.  Core Lean only.
-/
import TdmsProofs.Lemmas.C10WholeSame

namespace Tdms.Proofs.C10Whole

open Tdms Tdms.Generated Tdms.Model Tdms.Model.Writer Tdms.Proofs.C08 Tdms.Proofs.C10
open Tdms.Proofs.C01Compose (content contentOfDenote ObjView valuesIn)
open Tdms.Proofs.C07Whole (promised promisedOf promisedView written emitted typesConsistent)

/-- every property list of the layout is the property list of a source object, or empty -/
theorem layoutPropsDistinct_of {r : EagerResult} {groups : List GroupLayout} (hp : PropNamesDistinct r)
    (hl : fileLayout r.state.objects = some groups) : LayoutPropsDistinct r groups := by
  refine ⟨?_, fun g hg => ⟨?_, fun cm hcm => ?_⟩⟩
  · unfold rootProps ObjMetas.get
    cases hf : r.state.objects.find? (·.path = Path.componentsToPathBytes []) with
    | none => simp
    | some m => exact hp m (List.mem_of_find?_eq_some hf)
  · rw [(fileLayout_some hl).2] at hg
    obtain ⟨n, _, rfl⟩ := List.mem_map.1 hg
    simp only
    cases hlast : ((declaredOf r.state.objects).filter (·.1 = n)).getLast? with
    | none => simp
    | some x =>
      have hx := (List.mem_filter.1 (List.mem_of_getLast? hlast)).1
      obtain ⟨m, hm, _, hxm⟩ := mem_declaredOf.1 hx
      simp only [Option.map_some, Option.getD_some]
      rw [hxm]
      exact hp m hm
  · exact hp cm.2 ((source_channel_written hl g.name cm.1).2 g hg cm hcm).1

theorem written_defragSegs (r : EagerResult) (groups : List GroupLayout) :
    written [defragSegs r groups] = (defragSegs r groups).flatten := by
  unfold written emitted
  rw [programSegs_defragSegs]
  simp

theorem typesConsistent_defragSegs {r : EagerResult} {groups : List GroupLayout}
    (hl : fileLayout r.state.objects = some groups) : typesConsistent [defragSegs r groups] := by
  unfold typesConsistent
  rw [written_defragSegs]
  apply C07Checked.consistent_of_nodup
  rw [paths_defragSegs]
  exact copyPaths_nodup hl

/-- the content C07Whole promises for the `write_segment` calls of `defragment` is `viewOfLayout` -/
theorem promisedView_defragSegs {r : EagerResult} {groups : List GroupLayout} (hp : PropNamesDistinct r)
    (hl : fileLayout r.state.objects = some groups) :
    promisedView [defragSegs r groups] = viewOfLayout r groups := by
  unfold promisedView promised
  rw [written_defragSegs, promisedOf_of_nodup _ (by rw [paths_defragSegs]; exact copyPaths_nodup hl),
    contentOfDenote_objContent, map_viewOfObj_layout r groups (layoutPropsDistinct_of hp hl)]

theorem defragView_of_layout {r : EagerResult} {groups : List GroupLayout}
    (hl : fileLayout r.state.objects = some groups) : defragView r = viewOfLayout r groups := by
  unfold defragView; rw [hl]

/-- the invariants of a successful read, bundled with the layout and canonicity -/
theorem src_of_read {file : Bytes} {r : EagerResult} {groups : List GroupLayout} (hr : readFile file = .ok r)
    (hl : fileLayout r.state.objects = some groups) (hc : SourceCanonical r) : Src r groups :=
  ⟨hl, (readFile_inv hr).1, (readFile_inv hr).2.2, hc⟩

/-- what `sameContentUpTo` says object by object -/
theorem sameContentUpTo_object {src dst : List ObjView} (h : sameContentUpTo src dst) :
    (∀ o ∈ src, ∃ o' ∈ dst, o'.path = o.path ∧ o'.values = o.values ∧ o'.props = o.props.map rereadProp ∧
      o'.dataType = if isChannelPath o.path then retype o else none) ∧
    (∀ o' ∈ dst, (∃ o ∈ src, o' = copyOf o) ∨
      (o'.dataType = none ∧ o'.props = [] ∧ o'.values = [] ∧ o'.path ∈ impliedPaths src)) := by
  constructor
  · intro o ho
    exact ⟨copyOf o, (h.2 _).2 (.inl (List.mem_map_of_mem ho)), rfl, rfl, rfl, rfl⟩
  · intro o' ho'
    rcases (h.2 o').1 ho' with h1 | h1
    · obtain ⟨o, ho, rfl⟩ := List.mem_map.1 h1
      exact .inl ⟨o, ho, rfl⟩
    · unfold impliedViews at h1
      obtain ⟨p, hp, rfl⟩ := List.mem_map.1 h1
      exact .inr ⟨rfl, rfl, rfl, hp⟩

end Tdms.Proofs.C10Whole
