import TdmsProofs.Lemmas.TiedScalingRepr

/-!
# The `from_properties` constructors of `nptdms/scaling.py` (generated) read these keys, in this order

Each lemma rewrites one generated constructor applied to `pyProps ps` into a program over `getM` (a property that
must be present: KeyError otherwise) and `getMD` (a property with a default).  No hypotheses.
-/

namespace Tdms.Proofs.Tied2

open Tdms.Model.Scaling Tdms.Generated Tdms.Generated.Code2

variable {R : Type}

/-- the raw-data input source, `RAW_DATA_INPUT_SOURCE = 0xFFFFFFFF` -/
def rawV : Py.Val R := .int 4294967295

theorem noop_from_properties (ps : Props R) (i : Nat) (name : String) :
    NoOpScaling.from_properties (pyProps ps) (i : Int) name.toList =
      .ok ⟨getMD ps (pfx i ++ "_" ++ name ++ "_Input_Source") rawV⟩ := by
  unfold NoOpScaling.from_properties
  keys_simp
  simp [NoOpScaling.__init__, RAW_DATA_INPUT_SOURCE, rawV, String.append_assoc]

theorem linear_from_properties (ps : Props R) (i : Nat) :
    LinearScaling.from_properties (pyProps ps) (i : Int) = (do
      let b ← getM ps (pfx i ++ "_Linear_Y_Intercept")
      let m ← getM ps (pfx i ++ "_Linear_Slope")
      pure ⟨b, m, getMD ps (pfx i ++ "_Linear_Input_Source") rawV⟩) := by
  unfold LinearScaling.from_properties
  keys_simp
  simp [LinearScaling.__init__, RAW_DATA_INPUT_SOURCE, rawV]

theorem polynomial_from_properties (ps : Props R) (i : Nat) :
    PolynomialScaling.from_properties (pyProps ps) (i : Int) = (do
      let n ← Py.Val.toIndex (getMD ps (pfx i ++ "_Polynomial_Coefficients_Size") (.int 4))
      let cs ← Py.mapE (Py.range n) fun j => getM ps ((pfx i ++ "_Polynomial_Coefficients") ++ "[" ++ toString j ++ "]")
      pure ⟨cs, getMD ps (pfx i ++ "_Polynomial_Input_Source") rawV⟩) := by
  unfold PolynomialScaling.from_properties
  keys_simp
  simp [PolynomialScaling.__init__, RAW_DATA_INPUT_SOURCE, rawV]

theorem add_from_properties (ps : Props R) (i : Nat) :
    AddScaling.from_properties (pyProps ps) (i : Int) = (do
      let l ← getM ps (pfx i ++ "_Add_Left_Operand_Input_Source")
      let r ← getM ps (pfx i ++ "_Add_Right_Operand_Input_Source")
      pure ⟨l, r⟩) := by
  unfold AddScaling.from_properties
  keys_simp
  simp [AddScaling.__init__]

theorem subtract_from_properties (ps : Props R) (i : Nat) :
    SubtractScaling.from_properties (pyProps ps) (i : Int) = (do
      let l ← getM ps (pfx i ++ "_Subtract_Left_Operand_Input_Source")
      let r ← getM ps (pfx i ++ "_Subtract_Right_Operand_Input_Source")
      pure ⟨l, r⟩) := by
  unfold SubtractScaling.from_properties
  keys_simp
  simp [SubtractScaling.__init__]

theorem table_from_properties [DecidableEq R] [NatCast R] [Neg R] (inc : List (Py.Val R) → Bool)
    (flip : List (Py.Val R) → List (Py.Val R)) (ps : Props R) (i : Nat) :
    TableScaling.from_properties inc flip (pyProps ps) (i : Int) = (do
      let np ← getM ps (pfx i ++ "_Table_Pre_Scaled_Values_Size")
      let ns ← getM ps (pfx i ++ "_Table_Scaled_Values_Size")
      if Py.Val.eq np ns = false then .error "ValueError"
      else do
        let np ← Py.Val.toIndex np
        let pre ← Py.mapE (Py.range np) fun j => getM ps ((pfx i ++ "_Table_Pre_Scaled_Values") ++ "[" ++ toString j ++ "]")
        let ns ← Py.Val.toIndex ns
        let sc ← Py.mapE (Py.range ns) fun j => getM ps ((pfx i ++ "_Table_Scaled_Values") ++ "[" ++ toString j ++ "]")
        TableScaling.__init__ inc flip pre sc (getMD ps (pfx i ++ "_Table_Input_Source") rawV)) := by
  unfold TableScaling.from_properties
  keys_simp
  simp [RAW_DATA_INPUT_SOURCE, rawV]

theorem table_init [DecidableEq R] (inc : List (Py.Val R) → Bool) (flip : List (Py.Val R) → List (Py.Val R))
    (pre sc : List (Py.Val R)) (src : Py.Val R) :
    TableScaling.__init__ inc flip pre sc src =
      if inc sc = true then .ok ⟨sc, pre, src⟩
      else if inc (flip sc) = true then .ok ⟨flip sc, flip pre, src⟩
      else .error "ValueError" := by
  unfold TableScaling.__init__
  by_cases h1 : inc sc = true
  · simp [h1]
  · by_cases h2 : inc (flip sc) = true <;> simp [h1, h2]

theorem thermocouple_from_properties [DecidableEq R] [NatCast R] [Neg R] (ps : Props R) (i : Nat) :
    ThermocoupleScaling.from_properties (pyProps ps) (i : Int) =
      ThermocoupleScaling.__init__ (getMD ps (pfx i ++ "_Thermocouple_Thermocouple_Type") (.int 10072))
        (getMD ps (pfx i ++ "_Thermocouple_Scaling_Direction") (.int 0))
        (getMD ps (pfx i ++ "_Thermocouple_Input_Source") rawV) := by
  unfold ThermocoupleScaling.from_properties
  keys_simp
  simp [RAW_DATA_INPUT_SOURCE, rawV]

theorem rtd_from_properties (ps : Props R) (i : Nat) :
    RtdScaling.from_properties (pyProps ps) (i : Int) = (do
      let ce ← getM ps (pfx i ++ "_RTD_Current_Excitation")
      let r0 ← getM ps (pfx i ++ "_RTD_R0_Nominal_Resistance")
      let a ← getM ps (pfx i ++ "_RTD_A")
      let b ← getM ps (pfx i ++ "_RTD_B")
      let c ← getM ps (pfx i ++ "_RTD_C")
      let lead ← getM ps (pfx i ++ "_RTD_Lead_Wire_Resistance")
      let cfg ← getM ps (pfx i ++ "_RTD_Resistance_Configuration")
      let src ← getM ps (pfx i ++ "_RTD_Input_Source")
      pure ⟨ce, r0, a, b, c, lead, cfg, src⟩) := by
  unfold RtdScaling.from_properties
  keys_simp
  simp [RtdScaling.__init__]

theorem strain_from_properties (ps : Props R) (i : Nat) :
    StrainScaling.from_properties (pyProps ps) (i : Int) = (do
      let cfg ← getM ps (pfx i ++ "_Strain_Configuration")
      let nu ← getM ps (pfx i ++ "_Strain_Poisson_Ratio")
      let rg ← getM ps (pfx i ++ "_Strain_Gage_Resistance")
      let lead ← getM ps (pfx i ++ "_Strain_Lead_Wire_Resistance")
      let v0 ← getM ps (pfx i ++ "_Strain_Initial_Bridge_Voltage")
      let gf ← getM ps (pfx i ++ "_Strain_Gage_Factor")
      let gain ← getM ps (pfx i ++ "_Strain_Bridge_Shunt_Calibration_Gain_Adjustment")
      let vex ← getM ps (pfx i ++ "_Strain_Voltage_Excitation")
      let src ← getM ps (pfx i ++ "_Strain_Input_Source")
      pure ⟨cfg, nu, rg, lead, v0, gf, gain, vex, src⟩) := by
  unfold StrainScaling.from_properties
  keys_simp
  simp [StrainScaling.__init__]

theorem thermistor_from_properties (ps : Props R) (i : Nat) :
    ThermistorScaling.from_properties (pyProps ps) (i : Int) = (do
      let et ← getM ps (pfx i ++ "_Thermistor_Excitation_Type")
      let ev ← getM ps (pfx i ++ "_Thermistor_Excitation_Value")
      let cfg ← getM ps (pfx i ++ "_Thermistor_Resistance_Configuration")
      let r1 ← getM ps (pfx i ++ "_Thermistor_R1_Reference_Resistance")
      let lead ← getM ps (pfx i ++ "_Thermistor_Lead_Wire_Resistance")
      let a ← getM ps (pfx i ++ "_Thermistor_A")
      let b ← getM ps (pfx i ++ "_Thermistor_B")
      let c ← getM ps (pfx i ++ "_Thermistor_C")
      let off ← getM ps (pfx i ++ "_Thermistor_Temperature_Offset")
      let src ← getM ps (pfx i ++ "_Thermistor_Input_Source")
      pure ⟨et, ev, cfg, r1, lead, a, b, c, off, src⟩) := by
  unfold ThermistorScaling.from_properties
  keys_simp
  simp [ThermistorScaling.__init__]

end Tdms.Proofs.Tied2
