/-
  The metadata object loop (`readOneObject` / `readObjects`) against `encObj` / `encMeta`, for objects
  that are new to the reader (`existing = none`, `prevObjs = []`).  Core Lean only.
-/
import TdmsProofs.Lemmas.IndexLemmas

namespace Tdms.Proofs.Bytes

open Tdms Tdms.Generated Tdms.Model

/-- the segment object the reader builds for a new path with the given index -/
def segObjOfIdx (path : Bytes) : IdxEnc → SegObj
  | .noData => { path := path }
  | .matchesPrev => { path := path }     -- not reachable for a new object: the reader raises
  | .full ty n total => stdIndexObj { path := path, hasData := true } ty n total
  | .daqmx dg ty n sc w => daqIndexObj { path := path, hasData := true } dg ty n sc w

def segObjOf (o : ObjEnc) : SegObj := segObjOfIdx o.path o.idx

/-- the branch of `readOneObject` taken for a path that is in neither `existing` nor `prevObjs` -/
def newObjStep (e : Endian) (path : Bytes) (header : Nat) (ordered : List SegObj) : P (List SegObj) :=
  if header = rawDataIndexMatchesPrevious then throw .reuseUnseen
  else if header = rawDataIndexNoData then pure (ordered ++ [{ path := path }])
  else do
    let o ← newIndexedObject e path header
    pure (ordered ++ [o])

theorem readOneObject_new (e : Endian) (ordered : List SegObj) :
    readOneObject e none [] ordered = (do
      let path ← readString e
      let header ← uN e 4
      let ordered' ← newObjStep e path header ordered
      let nProps ← uN e 4
      let props ← readProperties e nProps
      pure (ordered', path, props)) := by
  simp only [readOneObject, newObjStep, PrevObjs.get, List.find?_nil, Option.map_none]
  congr 1; funext path; congr 1; funext header
  by_cases h1 : header = rawDataIndexMatchesPrevious
  · simp only [if_pos h1]
  · by_cases h2 : header = rawDataIndexNoData
    · simp only [if_neg h1, if_pos h2]
    · simp only [if_neg h1, if_neg h2, bind_assoc]

theorem newObjStep_enc (e : Endian) (path : Bytes) (idx : IdxEnc) (ordered : List SegObj)
    (rest : Bytes) (hne : idx ≠ .matchesPrev) (hwf : wfIdx idx = true) (hfit : idxFits idx) :
    newObjStep e path (idxHeader idx) ordered (idxBody e idx ++ rest) =
      .ok (ordered ++ [segObjOfIdx path idx], rest) := by
  cases idx with
  | noData =>
    simp [newObjStep, idxHeader, idxBody, segObjOfIdx, rawDataIndexNoData,
      rawDataIndexMatchesPrevious, P_pure]
  | matchesPrev => exact absurd rfl hne
  | full ty n total =>
    have h1 : idxHeader (.full ty n total) ≠ rawDataIndexMatchesPrevious := by
      by_cases h : ty = tyString <;> simp [idxHeader, h, rawDataIndexMatchesPrevious]
    have h2 : idxHeader (.full ty n total) ≠ rawDataIndexNoData := by
      by_cases h : ty = tyString <;> simp [idxHeader, h, rawDataIndexNoData]
    have h3 : isDaqmxHeader (idxHeader (.full ty n total)) = false := by
      by_cases h : ty = tyString <;>
        simp [idxHeader, h, isDaqmxHeader, formatChangingScaler, digitalLineScaler]
    simp only [newObjStep, if_neg h1, if_neg h2, newIndexedObject, h3, Bool.false_eq_true, if_false]
    rw [P_bind_ok (readStdIndex_full e _ ty n total rest hwf hfit)]
    rfl
  | daqmx dg ty n sc w =>
    have h1 : idxHeader (.daqmx dg ty n sc w) ≠ rawDataIndexMatchesPrevious := by
      cases dg <;> simp [idxHeader, rawDataIndexMatchesPrevious, formatChangingScaler, digitalLineScaler]
    have h2 : idxHeader (.daqmx dg ty n sc w) ≠ rawDataIndexNoData := by
      cases dg <;> simp [idxHeader, rawDataIndexNoData, formatChangingScaler, digitalLineScaler]
    have h3 : isDaqmxHeader (idxHeader (.daqmx dg ty n sc w)) = true := by
      cases dg <;> simp [idxHeader, isDaqmxHeader]
    simp only [newObjStep, if_neg h1, if_neg h2, newIndexedObject, h3, if_true]
    rw [P_bind_ok (readDaqmxIndex_enc e _ dg ty n sc w rest hwf hfit)]
    rfl

/-- side conditions on an object that `wfObj` does not state -/
def objFits (o : ObjEnc) : Prop :=
  o.idx ≠ .matchesPrev ∧ idxFits o.idx ∧ o.props.length < 2 ^ 32 ∧ ∀ p ∈ o.props, propFits p

theorem readOneObject_encObj (e : Endian) (o : ObjEnc) (ordered : List SegObj) (rest : Bytes)
    (hwf : wfObj o = true) (hfit : objFits o) :
    readOneObject e none [] ordered (encObj e o ++ rest) =
      .ok ((ordered ++ [segObjOf o], o.path, o.props.map canonProp), rest) := by
  obtain ⟨hne, hif, hpl, hpf⟩ := hfit
  simp only [wfObj, Bool.and_eq_true, decide_eq_true_eq, List.all_eq_true] at hwf
  obtain ⟨⟨hidx, hprops⟩, hpath⟩ := hwf
  rw [readOneObject_new]
  unfold encObj
  simp only [List.append_assoc]
  rw [P_bind_ok (readString_encString e _ _ hpath), P_bind_ok (uN_encIdx_header e _ _),
    P_bind_ok (newObjStep_enc e o.path o.idx ordered _ hne hidx hif),
    P_bind_ok (uN_enc_of_lt e (w := 4) hpl _),
    P_bind_ok (readProperties_encProps e o.props rest hprops hpf)]
  rfl

/-- the `properties` dictionary after the loop: an entry only for objects that list properties -/
def addProps (props : List (Bytes × List PropVal)) : List ObjEnc → List (Bytes × List PropVal)
  | [] => props
  | o :: os =>
    let ps := o.props.map canonProp
    addProps (if ps.isEmpty then props
      else if props.any (·.1 = o.path) then props.map (fun x => if x.1 = o.path then (o.path, ps) else x)
      else props ++ [(o.path, ps)]) os

theorem readObjects_encObjs (e : Endian) (objs : List ObjEnc) :
    ∀ (ordered : List SegObj) (props : List (Bytes × List PropVal)) (rest : Bytes),
      (∀ o ∈ objs, wfObj o = true) → (∀ o ∈ objs, objFits o) →
      readObjects e none [] objs.length ordered props (objs.flatMap (encObj e) ++ rest) =
        .ok ((ordered ++ objs.map segObjOf, addProps props objs), rest) := by
  induction objs with
  | nil => intro ordered props rest _ _; simp [readObjects, addProps, P_pure]
  | cons o os ih =>
    intro ordered props rest hwf hfit
    simp only [List.length_cons, List.flatMap_cons, List.append_assoc, readObjects]
    rw [P_bind_ok (readOneObject_encObj e o ordered _ (hwf o List.mem_cons_self)
      (hfit o List.mem_cons_self))]
    simp only []
    rw [ih _ _ rest (fun x hx => hwf x (List.mem_cons_of_mem _ hx))
      (fun x hx => hfit x (List.mem_cons_of_mem _ hx))]
    simp [addProps, List.append_assoc]

/-- the whole metadata block of a segment whose objects are all new -/
theorem readMeta_encMeta (e : Endian) (objs : List ObjEnc) (rest : Bytes)
    (hlen : objs.length < 2 ^ 32) (hwf : ∀ o ∈ objs, wfObj o = true) (hfit : ∀ o ∈ objs, objFits o) :
    (do let n ← uN e 4; readObjects e none [] n [] []) (encMeta e objs ++ rest) =
      .ok ((objs.map segObjOf, addProps [] objs), rest) := by
  unfold encMeta
  rw [List.append_assoc, P_bind_ok (uN_enc_of_lt e (w := 4) hlen _),
    readObjects_encObjs e objs [] [] rest hwf hfit]
  simp

/-- with pairwise distinct paths (`noDupPaths`, part of `wfSeg`) the dictionary is simply the list of
    objects that carry properties, in order -/
theorem addProps_noDup (objs : List ObjEnc) :
    ∀ (props : List (Bytes × List PropVal)), noDupPaths objs = true →
      (∀ o ∈ objs, ∀ x ∈ props, x.1 ≠ o.path) →
      addProps props objs = props ++
        (objs.filter fun o => !o.props.isEmpty).map fun o => (o.path, o.props.map canonProp) := by
  induction objs with
  | nil => intro props _ _; simp [addProps]
  | cons o os ih =>
    intro props hnd hfresh
    simp only [noDupPaths, Bool.and_eq_true, Bool.not_eq_true', List.any_eq_false,
      decide_eq_true_eq] at hnd
    obtain ⟨hno, hnd'⟩ := hnd
    have hany : props.any (fun x => decide (x.1 = o.path)) = false := by
      simp only [List.any_eq_false, decide_eq_true_eq]
      exact fun x hx => hfresh o List.mem_cons_self x hx
    by_cases hp : o.props = []
    · simp only [addProps, hp, List.map_nil, List.isEmpty_nil, if_true]
      rw [ih props hnd' (fun q hq x hx => hfresh q (List.mem_cons_of_mem _ hq) x hx)]
      simp [hp]
    · have hemp : (o.props.map canonProp).isEmpty = false := by
        cases h : o.props with
        | nil => exact absurd h hp
        | cons a as => rfl
      have hemp' : o.props.isEmpty = false := by
        cases h : o.props with
        | nil => exact absurd h hp
        | cons a as => rfl
      simp only [addProps, hemp, Bool.false_eq_true, if_false, hany]
      rw [ih _ hnd' (by
        intro q hq x hx
        rcases List.mem_append.mp hx with hx | hx
        · exact hfresh q (List.mem_cons_of_mem _ hq) x hx
        · simp only [List.mem_singleton] at hx
          subst hx
          exact fun h => hno q hq h.symm)]
      simp [hemp']

end Tdms.Proofs.Bytes
