/-
  C01 for multi-segment files: the whole metadata loop — induction over the segments carrying C02's
  `FileInv`, the byte-level invariant (`file.drop pos` is the encoding of the remaining segments) and the
  accumulated `object_metadata` as the view of `denote`'s accumulated content.  Core Lean only.
-/
import TdmsProofs.Lemmas.C01MultiMeta

namespace Tdms.Proofs.C01Multi

open Tdms Tdms.Generated Tdms.Model Tdms.Proofs.C02 Tdms.Proofs.LeadIn

/-- the `Segment` records of the file, in order -/
def segRecs : Nat → List SegEnc → List (List ActiveObj) → List Segment
  | pos, s :: ss, a :: as => segRec pos s a :: segRecs (pos + (encodeSeg s a).length) ss as
  | _, _, _ => []

theorem activeLists_cons {prev : Option (List ActiveObj)} {last : LastIdx} {s : SegEnc} {ss : List SegEnc}
    {acts : List (List ActiveObj)} (h : activeLists prev last (s :: ss) = .ok acts) :
    ∃ a last' as, activeOfSeg prev last s = .ok (a, last') ∧ activeLists (some a) last' ss = .ok as ∧
      acts = a :: as := by
  unfold activeLists at h
  cases hseg : activeOfSeg prev last s with
  | error r => rw [hseg] at h; cases h
  | ok al =>
    obtain ⟨a, last'⟩ := al
    rw [hseg] at h
    simp only [] at h
    cases hrest : activeLists (some a) last' ss with
    | error r => rw [hrest] at h; cases h
    | ok as => rw [hrest] at h; cases h; exact ⟨a, last', as, rfl, hrest, rfl⟩

theorem activeLists_nil {prev : Option (List ActiveObj)} {last : LastIdx} {acts : List (List ActiveObj)}
    (h : activeLists prev last [] = .ok acts) : acts = [] := by
  simp only [activeLists] at h; cases h; rfl

/-- the version `read_metadata` reports: the first one seen -/
def versionAfter (v : Option Int) (ss : List SegEnc) : Option Int :=
  match v with
  | some x => some x
  | none => ss.head?.map fun s => (s.version : Int)

/-- **the metadata loop over the remaining segments**, from any reachable state -/
theorem loop_multi (file : Bytes) (hlen : file.length < 2 ^ 63) :
    ∀ (ss : List SegEnc) (as : List (List ActiveObj)) (pos fuel : Nat) (st : ReaderState)
      (seen : List Bytes) (prev : Option (List ActiveObj)) (last : LastIdx) (c : Content),
      activeLists prev last ss = .ok as → SegsOK ss as → file.drop pos = zipEncode encodeSeg ss as →
      FileInv seen prev last (mstateOf st) → SpecInv prev last →
      st.objects = c.map (mOC fun _ => 0) → (c.map (·.path)).Nodup → ss.length < fuel →
      ∃ st', readMetadataLoop file false (some file.length) fuel pos pos st = .ok st' ∧
        st'.segments = st.segments ++ segRecs pos ss as ∧
        st'.objects = (denoteSegs c ss as).map (mOC fun _ => 0) ∧
        st'.version = versionAfter st.version ss := by
  intro ss
  induction ss with
  | nil =>
    intro as pos fuel st seen prev last c hacts _ hfile _ _ hobjs _ hfuel
    have has := activeLists_nil hacts
    subst has
    obtain ⟨f, rfl⟩ : ∃ f, fuel = f + 1 := ⟨fuel - 1, by simp at hfuel; omega⟩
    have hend : file.length < pos + 28 := by
      have : (file.drop pos).length = 0 := by rw [hfile]; rfl
      rw [List.length_drop] at this
      omega
    refine ⟨st, ?_, by simp [segRecs], by simpa [denoteSegs] using hobjs, ?_⟩
    · rw [readMetadataLoop_succ, loopStep_past_end _ _ _ _ _ _ hend]
    · cases st.version <;> rfl
  | cons s ss ih =>
    intro as pos fuel st seen prev last c hacts hok hfile hinv hspec hobjs hnodup hfuel
    obtain ⟨a, last', as', hact, hrest, rfl⟩ := activeLists_cons hacts
    obtain ⟨hok1, hok2⟩ := hok
    obtain ⟨f, rfl⟩ : ∃ f, fuel = f + 1 := ⟨fuel - 1, by simp at hfuel; omega⟩
    have hfile' : file.drop pos = encodeSeg s a ++ zipEncode encodeSeg ss as' := hfile
    obtain ⟨prev', hstep, hinv', hspec'⟩ := loopStep_segment file hlen pos s a _ hfile' st seen prev last last'
      c hact hok1 hinv hspec hobjs hnodup
    obtain ⟨st', hloop, hsegs, hobjs', hver⟩ := ih as' (pos + (encodeSeg s a).length) f
      (stateAfter st pos s a prev' (denoteSeg c s a)) _ _ _ (denoteSeg c s a) hrest hok2
      (Tdms.Proofs.Bytes.drop_add_of_drop_eq hfile') hinv' hspec' rfl
      (denoteSeg_nodup c s a (not_daq_of_good hok1.good) hnodup) (by simp at hfuel; omega)
    refine ⟨st', ?_, ?_, ?_, ?_⟩
    · rw [readMetadataLoop_succ, hstep]
      exact hloop
    · rw [hsegs]
      simp [stateAfter, segRecs]
    · rw [hobjs']
      rfl
    · rw [hver]
      simp only [stateAfter, versionAfter, List.head?_cons, Option.map_some]
      cases st.version <;> rfl

theorem encodeSeg_length_ge (s : SegEnc) (a : List ActiveObj) : 28 ≤ (encodeSeg s a).length := by
  rw [encodeSeg_split, List.length_append, encLeadIn_length tagData s _ _ rfl]
  omega

theorem zipEncode_length_ge : ∀ (ss : List SegEnc) (as : List (List ActiveObj)), SegsOK ss as →
    ss.length ≤ (zipEncode encodeSeg ss as).length := by
  intro ss
  induction ss with
  | nil => intro as _; simp
  | cons s ss ih =>
    intro as h
    cases as with
    | nil => cases h
    | cons a as =>
      have := ih as h.2
      have := encodeSeg_length_ge s a
      simp only [zipEncode, List.length_cons, List.length_append]
      omega

/-- **`readMetadata` on the encoding of a file of the class** -/
theorem readMetadata_multi (e : FileEnc) (acts : List (List ActiveObj)) (hacts : activeLists none [] e = .ok acts)
    (hok : SegsOK e acts) (hlen : (zipEncode encodeSeg e acts).length < 2 ^ 63) :
    ∃ st, readMetadata (zipEncode encodeSeg e acts) = .ok st ∧
      st.segments = segRecs 0 e acts ∧
      st.objects = (denoteSegs [] e acts).map (mOC fun _ => 0) ∧
      st.version = e.head?.map fun s => (s.version : Int) := by
  obtain ⟨st, h1, h2, h3, h4⟩ := loop_multi (zipEncode encodeSeg e acts) hlen e acts 0
    ((zipEncode encodeSeg e acts).length + 1) {} [] none [] [] hacts hok rfl
    (by rw [mstateOf_init]; exact FileInv.init) SpecInv.init rfl (by simp)
    (by have := zipEncode_length_ge e acts hok; omega)
  exact ⟨st, h1, by simpa using h2, h3, h4⟩

end Tdms.Proofs.C01Multi
