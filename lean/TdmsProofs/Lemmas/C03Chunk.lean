/-
  C03 — one contiguous chunk, on ARBITRARY bytes: reading one channel by seeking over the other
  objects (`readChannelChunkContiguous`, the lazy path) returns the component of
  `readContiguousChunk` (the eager path) on the same bytes, provided every object's read ends
  exactly where the lazy reader seeks to (`exactChunk`).  No encoder is involved.  Core Lean only.
-/
import Tdms.Model.Lazy
import TdmsProofs.Lemmas.C03Pos
import TdmsProofs.Lemmas.InterleavedLemmas

namespace Tdms.Proofs.C03

open Tdms Tdms.Generated Tdms.Model Tdms.Proofs.Bytes

/-- number of bytes the lazy reader seeks over for object `o` in chunk `ci`
    (`none`: it raises or gives up instead of seeking) -/
def skipSize (s : Segment) (o : SegObj) (ci : Nat) : Option Nat :=
  if channelNumberValues s o ci = o.numberValues then some o.dataSize
  else (o.dataType.bind typeSize).map fun sz => sz * channelNumberValues s o ci

/-- values of object `o` in chunk `ci` read at position `cur`, and the position after the read -/
def valuesAt (file : Bytes) (s : Segment) (o : SegObj) (ci cur : Nat) : Except Err (List Bytes × Nat) :=
  runAt (readValues file s.endian o (channelNumberValues s o ci)) cur

/-- chunk `ci` read object by object from `cur`, requiring that every read yields as many values as
    the metadata says and ends exactly `skipSize` bytes further: the values per object and the end
    position (`none` when some read fails or is not exact) -/
def exactChunk (file : Bytes) (s : Segment) (ci : Nat) : List SegObj → Nat → Option (List (List Bytes) × Nat)
  | [], cur => some ([], cur)
  | o :: os, cur =>
    match skipSize s o ci, valuesAt file s o ci cur with
    | some k, .ok (v, e) =>
      if e = cur + k ∧ v.length = channelNumberValues s o ci then
        (exactChunk file s ci os (cur + k)).map fun r => (v :: r.1, r.2)
      else none
    | _, _ => none

theorem exactChunk_cons {file : Bytes} {s : Segment} {ci : Nat} {o : SegObj} {os : List SegObj} {cur : Nat}
    {vs : List (List Bytes)} {e : Nat} (h : exactChunk file s ci (o :: os) cur = some (vs, e)) :
    ∃ k v vs', skipSize s o ci = some k ∧ valuesAt file s o ci cur = .ok (v, cur + k) ∧
      v.length = channelNumberValues s o ci ∧ exactChunk file s ci os (cur + k) = some (vs', e) ∧ vs = v :: vs' := by
  unfold exactChunk at h
  split at h
  · rename_i k v e' hk hv
    split at h
    · rename_i hc
      obtain ⟨rfl, hlen⟩ := hc
      cases hr : exactChunk file s ci os (cur + k) with
      | none => rw [hr] at h; simp at h
      | some r =>
        obtain ⟨vs', e''⟩ := r
        rw [hr] at h
        simp only [Option.map_some, Option.some.injEq, Prod.mk.injEq] at h
        obtain ⟨rfl, rfl⟩ := h
        exact ⟨k, v, vs', hk, hv, hlen, hr, rfl⟩
    · cases h
  · cases h

theorem exactChunk_length {file : Bytes} {s : Segment} {ci : Nat} :
    ∀ {d : List SegObj} {cur : Nat} {vs : List (List Bytes)} {e : Nat},
      exactChunk file s ci d cur = some (vs, e) → vs.length = d.length := by
  intro d
  induction d with
  | nil => intro cur vs e h; simp [exactChunk] at h; rw [h.1]; rfl
  | cons o os ih =>
    intro cur vs e h
    obtain ⟨k, v, vs', _, _, _, hr, rfl⟩ := exactChunk_cons h
    simp [ih hr]

/-! ## the eager reader on an exact chunk -/

theorem readContiguousChunk_exact (file : Bytes) (s : Segment) (ci : Nat) :
    ∀ (d : List SegObj) (cur : Nat) (vs : List (List Bytes)) (e : Nat) (acc : RawChunk) (tr : List (Nat × Nat)),
      exactChunk file s ci d cur = some (vs, e) →
      ∃ tr', readContiguousChunk file s ci d acc ⟨cur, tr⟩ = .ok (setCols acc d vs, ⟨e, tr'⟩) := by
  intro d
  induction d with
  | nil =>
    intro cur vs e acc tr h
    simp only [exactChunk, Option.some.injEq, Prod.mk.injEq] at h
    obtain ⟨rfl, rfl⟩ := h
    exact ⟨tr, rfl⟩
  | cons o os ih =>
    intro cur vs e acc tr h
    obtain ⟨k, v, vs', _, hv, _, hr, rfl⟩ := exactChunk_cons h
    obtain ⟨tr1, h1⟩ := (posDet_readValues file s.endian o (channelNumberValues s o ci)).run_ok hv tr
    obtain ⟨tr2, h2⟩ := ih (cur + k) vs' e (dictSet acc o.path { data := some v }) tr1 hr
    refine ⟨tr2, ?_⟩
    unfold readContiguousChunk
    rw [F_bind_ok h1, h2]
    rfl

/-! ## the lazy reader on an exact chunk -/

/-- the channel's part of the chunk: the values of the first object with path `p` -/
def chanOf (p : Bytes) : List SegObj → List (List Bytes) → ChanChunk
  | o :: os, v :: vs => if o.path = p then { data := some v } else chanOf p os vs
  | _, _ => {}

theorem readChannelChunkContiguous_exact (file : Bytes) (s : Segment) (ci : Nat) (p : Bytes) :
    ∀ (d : List SegObj) (cur : Nat) (vs : List (List Bytes)) (e : Nat) (st : FState),
      exactChunk file s ci d cur = some (vs, e) →
      ∃ st', readChannelChunkContiguous file s ci p d cur st = .ok (chanOf p d vs, st') := by
  intro d
  induction d with
  | nil =>
    intro cur vs e st h
    exact ⟨st, by cases vs <;> rfl⟩
  | cons o os ih =>
    intro cur vs e st h
    obtain ⟨k, v, vs', hk, hv, _, hr, rfl⟩ := exactChunk_cons h
    unfold readChannelChunkContiguous
    by_cases hp : o.path = p
    · obtain ⟨tr1, h1⟩ := (posDet_readValues file s.endian o (channelNumberValues s o ci)).run_ok hv st.trace
      refine ⟨⟨cur + k, tr1⟩, ?_⟩
      simp only [hp, if_true, chanOf]
      have hseek : fSeek cur st = .ok ((), ⟨cur, st.trace⟩) := rfl
      rw [F_bind_ok hseek, F_bind_ok h1]
      rfl
    · simp only [hp, if_false, chanOf]
      unfold skipSize at hk
      by_cases hn : channelNumberValues s o ci = o.numberValues
      · rw [if_pos hn] at hk
        cases hk
        rw [if_pos hn]
        exact ih _ vs' e st hr
      · rw [if_neg hn] at hk
        rw [if_neg hn]
        cases hsz : o.dataType.bind typeSize with
        | none => rw [hsz] at hk; cases hk
        | some sz =>
          rw [hsz] at hk
          simp only [Option.map_some, Option.some.injEq] at hk
          subst hk
          exact ih _ vs' e st hr

/-! ## the component of the eager chunk -/

theorem get_append_fresh (acc : RawChunk) (c : RawChunk) (p : Bytes) (h : ∀ x ∈ acc, x.1 ≠ p) :
    RawChunk.get (acc ++ c) p = RawChunk.get c p := by
  unfold RawChunk.get
  rw [List.find?_append]
  have : acc.find? (fun x => decide (x.1 = p)) = none := by
    rw [List.find?_eq_none]
    intro x hx
    simpa using h x hx
  rw [this]
  rfl

theorem get_pairs (p : Bytes) : ∀ (d : List SegObj) (vs : List (List Bytes)),
    RawChunk.get ((d.zip vs).map fun ov => (ov.1.path, ({ data := some ov.2 } : ChanChunk))) p = chanOf p d vs := by
  intro d
  induction d with
  | nil => intro vs; simp [RawChunk.get, chanOf]
  | cons o os ih =>
    intro vs
    cases vs with
    | nil => simp [RawChunk.get, chanOf]
    | cons v vs =>
      simp only [List.zip_cons_cons, List.map_cons, chanOf]
      by_cases hp : o.path = p
      · simp [RawChunk.get, hp]
      · rw [if_neg hp, ← ih vs]
        simp [RawChunk.get, hp]

/-- with pairwise distinct object paths, the eager chunk's entry for `p` is the lazy reader's chunk -/
theorem get_setCols (p : Bytes) (d : List SegObj) (vs : List (List Bytes)) (hnd : (d.map (·.path)).Nodup) :
    RawChunk.get (setCols [] d vs) p = chanOf p d vs := by
  rw [setCols_distinct d [] vs hnd (by intro _ _ x hx; cases hx), List.nil_append]
  exact get_pairs p d vs

/-- **Key lemma (contiguous layout, arbitrary bytes).**  If chunk `ci` is exact at `cur`, the eager
    reader started at `cur` and the lazy single-channel reader (started anywhere, told to begin at
    `cur`) both succeed, and the lazy result is the eager chunk's entry for the channel. -/
theorem lazy_chunk_eq_eager_component (file : Bytes) (s : Segment) (ci : Nat) (p : Bytes) (d : List SegObj)
    (hnd : (d.map (·.path)).Nodup) (cur : Nat) (vs : List (List Bytes)) (e : Nat)
    (hex : exactChunk file s ci d cur = some (vs, e)) (tr : List (Nat × Nat)) (st : FState) :
    ∃ c tr' st', readContiguousChunk file s ci d [] ⟨cur, tr⟩ = .ok (c, ⟨e, tr'⟩) ∧
      readChannelChunkContiguous file s ci p d cur st = .ok (RawChunk.get c p, st') := by
  obtain ⟨tr', h1⟩ := readContiguousChunk_exact file s ci d cur vs e [] tr hex
  obtain ⟨st', h2⟩ := readChannelChunkContiguous_exact file s ci p d cur vs e st hex
  exact ⟨_, tr', st', h1, by rw [get_setCols p d vs hnd]; exact h2⟩

/-! ## which paths a chunk has, and how many values -/

theorem chanOf_of_not_mem (p : Bytes) : ∀ (d : List SegObj) (vs : List (List Bytes)),
    p ∉ d.map (·.path) → chanOf p d vs = {} := by
  intro d
  induction d with
  | nil => intro vs _; cases vs <;> rfl
  | cons o os ih =>
    intro vs h
    cases vs with
    | nil => rfl
    | cons v vs =>
      simp only [List.map_cons, List.mem_cons, not_or] at h
      simp only [chanOf]
      rw [if_neg (fun hh => h.1 hh.symm)]
      exact ih vs h.2

/-- in an exact chunk the channel's entry has as many values as the metadata says -/
theorem chanOf_length {file : Bytes} {s : Segment} {ci : Nat} (p : Bytes) :
    ∀ {d : List SegObj} {cur : Nat} {vs : List (List Bytes)} {e : Nat},
      exactChunk file s ci d cur = some (vs, e) → ∀ o ∈ d, o.path = p → (d.map (·.path)).Nodup →
      (chanOf p d vs).data = some ((chanOf p d vs).data.getD []) ∧
      ((chanOf p d vs).data.getD []).length = channelNumberValues s o ci := by
  intro d
  induction d with
  | nil => intro cur vs e _ o ho; cases ho
  | cons o' os ih =>
    intro cur vs e h o ho hp hnd
    obtain ⟨k, v, vs', _, _, hlen, hr, rfl⟩ := exactChunk_cons h
    simp only [chanOf]
    simp only [List.map_cons, List.nodup_cons] at hnd
    rcases List.mem_cons.mp ho with rfl | ho'
    · rw [if_pos hp]; exact ⟨rfl, hlen⟩
    · have hne : o'.path ≠ p := by
        intro hh
        apply hnd.1
        rw [hh, ← hp]
        exact List.mem_map_of_mem ho'
      rw [if_neg hne]
      exact ih hr o ho' hp hnd.2

end Tdms.Proofs.C03
