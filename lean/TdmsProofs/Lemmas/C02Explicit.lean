/-
  C02 — encoding invariance on the spec side: the fully explicit normal form (`Tdms.explicit`) has the
  same active lists and the same meaning as the encoding it was computed from.  Core Lean only.
-/
import TdmsProofs.Lemmas.C02Lemmas

namespace Tdms.Proofs.C02

open Tdms

/-! ## more facts about the (lenient) resolution loop -/

theorem resolveObjL_ok' {last : LastIdx} {o : ObjEnc} {a : ActiveObj} {last' : LastIdx}
    (h : resolveObjL last o = .ok (a, last')) :
    (a.hasData = true → a.idx ≠ none) ∧ (a.hasData = false → last' = last) := by
  unfold resolveObjL at h
  cases hidx : o.idx with
  | noData => simp only [hidx] at h; cases h; simp
  | matchesPrev =>
    simp only [hidx] at h
    cases hg : last.get o.path with
    | none => simp only [hg] at h; cases h
    | some d => simp only [hg] at h; cases h; simp
  | full ty n total => simp only [hidx] at h; cases h; simp
  | daqmx dg ty n sc w => simp only [hidx] at h; cases h; simp

/-- the loop invariant survives the whole loop -/
theorem resolveObjsL_inv {act0 : List ActiveObj} {last0 : LastIdx} :
    ∀ (os : List ObjEnc) (act : List ActiveObj) (last : LastIdx) (act' : List ActiveObj) (last' : LastIdx),
      LoopInv act0 last0 os act last → noDupPaths os = true →
      resolveObjsL last act os = .ok (act', last') → LoopInv act0 last0 [] act' last' := by
  intro os
  induction os with
  | nil => intro act last act' last' hinv _ h; cases h; exact hinv
  | cons o os ih =>
    intro act last act' last' hinv hnd h
    rw [noDupPaths_cons] at hnd
    unfold resolveObjsL at h
    cases hr : resolveObjL last o with
    | error e => rw [hr] at h; cases h
    | ok al =>
      obtain ⟨a, l1⟩ := al
      rw [hr] at h
      obtain ⟨hap, hai, hlq⟩ := resolveObjL_ok hr
      exact ih _ _ _ _ (hinv.step hnd.1 hap hai hlq) hnd.2 h

/-- data objects have an index; objects without data kept the index they had when the segment began -/
theorem resolveObjsL_JK (last0 : LastIdx) :
    ∀ (os : List ObjEnc) (last : LastIdx) (act act' : List ActiveObj) (last' : LastIdx),
      resolveObjsL last act os = .ok (act', last') → noDupPaths os = true →
      (∀ o ∈ os, last.get o.path = last0.get o.path) →
      (∀ x ∈ act, (x.hasData = true → x.idx ≠ none) ∧ (x.hasData = false → last.get x.path = last0.get x.path)) →
      (∀ x ∈ act', (x.hasData = true → x.idx ≠ none) ∧ (x.hasData = false → last'.get x.path = last0.get x.path)) := by
  intro os
  induction os with
  | nil => intro last act act' last' h _ _ hact; cases h; exact hact
  | cons o os ih =>
    intro last act act' last' h hnd hrem hact
    rw [noDupPaths_cons] at hnd
    unfold resolveObjsL at h
    cases hr : resolveObjL last o with
    | error e => rw [hr] at h; cases h
    | ok al =>
      obtain ⟨a, l1⟩ := al
      rw [hr] at h
      obtain ⟨hap, _, hlq⟩ := resolveObjL_ok hr
      obtain ⟨hj, hk⟩ := resolveObjL_ok' hr
      refine ih _ _ _ _ h hnd.2 ?_ ?_
      · intro o' ho'
        rw [hlq _ (hnd.1 o' ho')]
        exact hrem o' (List.mem_cons_of_mem _ ho')
      · intro b hb
        rcases mem_placeObj hb with rfl | ⟨hb, hbp⟩
        · refine ⟨hj, ?_⟩
          intro hd
          rw [hk hd, hap]
          exact hrem o (List.mem_cons_self ..)
        · refine ⟨(hact b hb).1, ?_⟩
          intro hd
          rw [hlq _ (by rw [← hap]; exact hbp)]
          exact (hact b hb).2 hd

theorem resolveObjsL_listed :
    ∀ (os : List ObjEnc) (last : LastIdx) (act act' : List ActiveObj) (last' : LastIdx),
      resolveObjsL last act os = .ok (act', last') → ∀ o ∈ os, o.path ∈ act'.map (·.path) := by
  intro os
  induction os with
  | nil => intro _ _ _ _ _ o ho; cases ho
  | cons o os ih =>
    intro last act act' last' h o' ho'
    unfold resolveObjsL at h
    cases hr : resolveObjL last o with
    | error e => rw [hr] at h; cases h
    | ok al =>
      obtain ⟨a, l1⟩ := al
      rw [hr] at h
      rcases List.mem_cons.1 ho' with rfl | ho'
      · apply resolveObjsL_paths_mono os _ _ _ _ _ h
        rw [← (resolveObjL_ok hr).1]
        exact path_mem_placeObj act a
      · exact ih _ _ _ _ h o' ho'

/-! ## the spec's own invariant between segments -/

structure SpecInv (prev : Option (List ActiveObj)) (last : LastIdx) : Prop where
  nodup : ∀ a, prev = some a → (a.map (·.path)).Nodup
  idx : ∀ a, prev = some a → ∀ x ∈ a, x.idx = last.get x.path
  hasIdx : ∀ a, prev = some a → ∀ x ∈ a, x.hasData = true → x.idx ≠ none

theorem SpecInv.init : SpecInv none [] := by
  refine ⟨?_, ?_, ?_⟩ <;> (intro a h; cases h)

/-- what one successfully resolved segment guarantees -/
structure SegPost (s : SegEnc) (last : LastIdx) (a : List ActiveObj) (last' : LastIdx) : Prop where
  nodup : (a.map (·.path)).Nodup
  idx : ∀ x ∈ a, x.idx = last'.get x.path
  out : ∀ q, (∀ x ∈ a, x.path ≠ q) → last'.get q = last.get q
  hasIdx : ∀ x ∈ a, x.hasData = true → x.idx ≠ none
  keep : ∀ x ∈ a, x.hasData = false → last'.get x.path = last.get x.path
  mono : ∀ p d, last.get p = some d → ∃ d', last'.get p = some d' ∧ d'.ty = d.ty
  listed : s.hasMeta = true → ∀ o ∈ s.objs, o.path ∈ a.map (·.path)

theorem SegPost.specInv {s : SegEnc} {last : LastIdx} {a : List ActiveObj} {last' : LastIdx}
    (h : SegPost s last a last') : SpecInv (some a) last' := by
  refine ⟨?_, ?_, ?_⟩
  · intro _ e; cases e; exact h.nodup
  · intro _ e; cases e; exact h.idx
  · intro _ e; cases e; exact h.hasIdx

theorem activeOfSeg_post {prev : Option (List ActiveObj)} {last : LastIdx} (hinv : SpecInv prev last)
    {s : SegEnc} (hnd : noDupPaths s.objs = true) {a : List ActiveObj} {last' : LastIdx}
    (h : activeOfSeg prev last s = .ok (a, last')) : SegPost s last a last' := by
  unfold activeOfSeg at h
  by_cases hm : s.hasMeta = true
  · simp only [hm, Bool.not_true, Bool.false_eq_true, if_false] at h
    have hL := resolveObjs_ok_L _ _ _ _ h
    -- facts about the base list
    have hbase : (∀ b, (if s.newList then [] else prev.getD []) = b →
        (b.map (·.path)).Nodup ∧ (∀ x ∈ b, x.idx = last.get x.path) ∧
        (∀ x ∈ b, x.hasData = true → x.idx ≠ none)) := by
      intro b hb
      by_cases hn : s.newList = true
      · simp only [hn, if_true] at hb; subst hb; simp
      · have hn' : s.newList = false := by simpa using hn
        simp only [hn', Bool.false_eq_true, if_false] at hb
        cases hp : prev with
        | none => rw [hp] at hb; simp at hb; subst hb; simp
        | some a0 =>
          rw [hp] at hb
          simp at hb
          subst hb
          exact ⟨hinv.nodup _ hp, hinv.idx _ hp, hinv.hasIdx _ hp⟩
    obtain ⟨hb1, hb2, hb3⟩ := hbase _ rfl
    have hfin := resolveObjsL_inv s.objs _ _ _ _ (LoopInv.init s.objs hb1 hb2) hnd hL
    have hjk := resolveObjsL_JK last s.objs last _ _ _ hL hnd (fun _ _ => rfl)
      (fun x hx => ⟨hb3 x hx, fun _ => rfl⟩)
    exact ⟨hfin.nodup, hfin.idx, hfin.lastOut, fun x hx => (hjk x hx).1, fun x hx => (hjk x hx).2,
      resolveObjs_ty_mono _ _ _ _ _ h, fun _ => resolveObjsL_listed _ _ _ _ _ hL⟩
  · have hm' : s.hasMeta = false := by simpa using hm
    simp only [hm', Bool.not_false, if_true] at h
    cases hp : prev with
    | none => rw [hp] at h; cases h
    | some a0 =>
      rw [hp] at h
      cases h
      exact ⟨hinv.nodup _ hp, hinv.idx _ hp, fun _ _ => rfl, hinv.hasIdx _ hp, fun _ _ _ => rfl,
        fun p d hd => ⟨d, hd, rfl⟩, fun h => by rw [hm'] at h; cases h⟩

/-! ## the explicit normal form has the same active lists -/

/-- how `explicitSeg` lists one active object -/
def toEnc (s : SegEnc) (a : ActiveObj) : ObjEnc :=
  { path := a.path,
    idx := (match a.hasData, a.idx with
            | true, some d => idxOfDesc d
            | _, _ => .noData),
    props := if s.hasMeta then ((s.objs.filter (·.path = a.path)).flatMap (·.props)) else [] }

theorem explicitSeg_objs (s : SegEnc) (act : List ActiveObj) :
    (explicitSeg s act).objs = act.map (toEnc s) := rfl

@[simp] theorem toEnc_path (s : SegEnc) (a : ActiveObj) : (toEnc s a).path = a.path := rfl

/-- `LastIdx` tables that answer every lookup alike -/
def LastEquiv (l1 l2 : LastIdx) : Prop := ∀ p, l1.get p = l2.get p

/-- resolving the explicit listing of one active object reproduces the object -/
theorem resolveObj_toEnc (s : SegEnc) {last last' lastE : LastIdx} {x : ActiveObj}
    (hidx : x.idx = last'.get x.path) (hj : x.hasData = true → x.idx ≠ none)
    (hk : x.hasData = false → last'.get x.path = last.get x.path)
    (hmono : ∀ p d, last.get p = some d → ∃ d', last'.get p = some d' ∧ d'.ty = d.ty)
    (hE : lastE.get x.path = last.get x.path) :
    ∃ lastE1, resolveObj lastE (toEnc s x) = .ok (x, lastE1) ∧
      lastE1.get x.path = last'.get x.path ∧ (∀ q, q ≠ x.path → lastE1.get q = lastE.get q) := by
  obtain ⟨p, hd, i⟩ := x
  simp only at hidx hj hk hE
  cases hd with
  | false =>
    refine ⟨lastE, ?_, ?_, fun _ _ => rfl⟩
    · unfold resolveObj toEnc
      simp only []
      rw [hE, ← hk rfl, ← hidx]
    · rw [hE, hk rfl]
  | true =>
    cases i with
    | none => exact absurd rfl (hj rfl)
    | some d =>
      -- the type check passes: the type recorded before the segment is the type of `d`
      have hty : ∀ d0, lastE.get p = some d0 → d0.ty = d.ty := by
        intro d0 h0
        rw [hE] at h0
        obtain ⟨d', hd', ht⟩ := hmono p d0 h0
        rw [← hidx] at hd'
        cases hd'
        exact ht.symm
      refine ⟨lastE.set p d, ?_, ?_, fun q hq => LastIdx.get_set_ne _ _ _ _ hq⟩
      · unfold resolveObj toEnc
        cases d with
        | std ty n total =>
          simp only [idxOfDesc]
          cases h0 : lastE.get p with
          | none => rfl
          | some d0 =>
            have hd0 : d0.ty = ty := hty d0 h0
            simp [hd0]
        | daq dg ty n sc w =>
          simp only [idxOfDesc]
          cases h0 : lastE.get p with
          | none => rfl
          | some d0 =>
            have hd0 : d0.ty = ty := hty d0 h0
            simp [hd0]
      · rw [LastIdx.get_set_self]; exact hidx

theorem explicit_run (s : SegEnc) (last last' : LastIdx)
    (hmono : ∀ p d, last.get p = some d → ∃ d', last'.get p = some d' ∧ d'.ty = d.ty) :
    ∀ (rest done : List ActiveObj) (lastE : LastIdx),
      ((done ++ rest).map (·.path)).Nodup →
      (∀ x ∈ rest, x.idx = last'.get x.path ∧ (x.hasData = true → x.idx ≠ none) ∧
        (x.hasData = false → last'.get x.path = last.get x.path)) →
      (∀ x ∈ rest, lastE.get x.path = last.get x.path) →
      ∃ lastE', resolveObjs lastE done (rest.map (toEnc s)) = .ok (done ++ rest, lastE') ∧
        (∀ x ∈ rest, lastE'.get x.path = last'.get x.path) ∧
        (∀ q, (∀ x ∈ rest, x.path ≠ q) → lastE'.get q = lastE.get q) := by
  intro rest
  induction rest with
  | nil =>
    intro done lastE _ _ _
    refine ⟨lastE, by simp [resolveObjs], ?_, fun _ _ => rfl⟩
    intro x hx; cases hx
  | cons x rest ih =>
    intro done lastE hnd hx hE
    obtain ⟨h1, h2, h3⟩ := hx x (List.mem_cons_self ..)
    obtain ⟨lastE1, hr, hg, hne⟩ := resolveObj_toEnc s h1 h2 h3 hmono (hE x (List.mem_cons_self ..))
    have hnd' : (((done ++ [x]) ++ rest).map (·.path)).Nodup := by
      rw [List.append_assoc]; exact hnd
    have hxrest : ∀ y ∈ rest, y.path ≠ x.path := by
      intro y hy hxy
      rw [List.map_append, List.map_cons, List.nodup_append] at hnd
      have := hnd.2.1
      rw [List.nodup_cons] at this
      exact this.1 (List.mem_map.2 ⟨y, hy, hxy⟩)
    have hxdone : ∀ b ∈ done, b.path ≠ x.path := by
      intro b hb hbx
      rw [List.map_append, List.map_cons, List.nodup_append] at hnd
      exact hnd.2.2 b.path (List.mem_map.2 ⟨b, hb, rfl⟩) x.path (List.mem_cons_self ..) hbx
    obtain ⟨lastE', hrun, hin, hout⟩ := ih (done ++ [x]) lastE1 hnd'
      (fun y hy => hx y (List.mem_cons_of_mem _ hy))
      (fun y hy => by rw [hne _ (hxrest y hy)]; exact hE y (List.mem_cons_of_mem _ hy))
    refine ⟨lastE', ?_, ?_, ?_⟩
    · simp only [List.map_cons, resolveObjs, hr]
      rw [placeObj_of_not_mem hxdone, hrun, List.append_assoc]
      rfl
    · intro y hy
      rcases List.mem_cons.1 hy with rfl | hy
      · rw [hout _ (fun z hz => hxrest z hz), hg]
      · exact hin y hy
    · intro q hq
      rw [hout q (fun z hz => hq z (List.mem_cons_of_mem _ hz))]
      exact hne q (fun h => hq x (List.mem_cons_self ..) h.symm)

/-- one segment of the explicit form resolves to the same active list, from any `LastIdx` that
    answers like the original one -/
theorem activeOfSeg_explicit {s : SegEnc} {last last' : LastIdx} {a : List ActiveObj}
    (hpost : SegPost s last a last') (prevE : Option (List ActiveObj)) {lastE : LastIdx}
    (hE : LastEquiv lastE last) :
    ∃ lastE', activeOfSeg prevE lastE (explicitSeg s a) = .ok (a, lastE') ∧ LastEquiv lastE' last' := by
  obtain ⟨lastE', hrun, hin, hout⟩ := explicit_run s last last' hpost.mono a [] lastE
    (by simpa using hpost.nodup)
    (fun x hx => ⟨hpost.idx x hx, hpost.hasIdx x hx, hpost.keep x hx⟩)
    (fun x _ => hE x.path)
  refine ⟨lastE', ?_, ?_⟩
  · unfold activeOfSeg
    have h1 : (explicitSeg s a).hasMeta = true := rfl
    have h2 : (explicitSeg s a).newList = true := rfl
    simp only [h1, h2, Bool.not_true, Bool.false_eq_true, if_false, if_true]
    rw [explicitSeg_objs]
    exact hrun
  · intro q
    by_cases hq : ∃ x ∈ a, x.path = q
    · obtain ⟨x, hx, rfl⟩ := hq
      exact hin x hx
    · have hq' : ∀ x ∈ a, x.path ≠ q := fun x hx h => hq ⟨x, hx, h⟩
      rw [hout q hq', hE q, hpost.out q hq']

/-- **Encoding invariance of the active lists, any context.** -/
theorem explicit_active : ∀ (ss : List SegEnc) (prev : Option (List ActiveObj)) (last : LastIdx)
    (acts : List (List ActiveObj)) (prevE : Option (List ActiveObj)) (lastE : LastIdx),
    activeLists prev last ss = .ok acts → SpecInv prev last → LastEquiv lastE last →
    (∀ s ∈ ss, noDupPaths s.objs = true) →
    activeLists prevE lastE (explicitSegs ss acts) = .ok acts := by
  intro ss
  induction ss with
  | nil =>
    intro prev last acts prevE lastE h _ _ _
    simp only [activeLists] at h
    cases h
    rfl
  | cons s ss ih =>
    intro prev last acts prevE lastE h hinv hE hnd
    unfold activeLists at h
    cases hseg : activeOfSeg prev last s with
    | error r => rw [hseg] at h; cases h
    | ok al =>
      obtain ⟨a, last'⟩ := al
      rw [hseg] at h
      simp only [] at h
      cases hrest : activeLists (some a) last' ss with
      | error r => rw [hrest] at h; cases h
      | ok as =>
        rw [hrest] at h
        cases h
        have hpost := activeOfSeg_post hinv (hnd s (List.mem_cons_self ..)) hseg
        obtain ⟨lastE', hsegE, hE'⟩ := activeOfSeg_explicit hpost prevE hE
        have := ih (some a) last' as (some a) lastE' hrest hpost.specInv hE'
          (fun s' hs' => hnd s' (List.mem_cons_of_mem _ hs'))
        simp only [explicitSegs, activeLists, hsegE, this]

/-! ## the explicit normal form has the same meaning -/

/-- the effect of a property listing on one object: fold, in listing order, the properties of every
    listed object with that path -/
def propsFn (os : List ObjEnc) (x : ObjContent) : ObjContent :=
  { x with props := ((os.filter (·.path = x.path)).flatMap (·.props)).foldl setProp x.props }

theorem modify_present {c : Content} {p : Bytes} (f : ObjContent → ObjContent)
    (h : c.any (·.path = p) = true) :
    c.modify p f = c.map (fun o => if o.path = p then f o else o) := by
  unfold Content.modify
  simp only [h, if_true]

theorem any_path_map {c : Content} (g : ObjContent → ObjContent) (hg : ∀ x, (g x).path = x.path) (q : Bytes) :
    (c.map g).any (·.path = q) = c.any (·.path = q) := by
  rw [List.any_map]
  congr 1
  funext x
  simp [hg]

theorem modify_any {c : Content} {p : Bytes} (f : ObjContent → ObjContent)
    (hf : ∀ x, (f x).path = x.path) (q : Bytes) :
    (c.modify p f).any (·.path = q) = (c.any (·.path = q) || decide (q = p)) := by
  unfold Content.modify
  split
  · rename_i h
    rw [any_path_map _ (by intro x; split <;> simp [hf])]
    by_cases hq : q = p
    · subst hq; simp [h]
    · simp [hq]
  · simp only [List.any_append, List.any_cons, List.any_nil, Bool.or_false, hf]
    congr 1
    by_cases hq : q = p
    · simp [hq]
    · have : ¬ p = q := fun h => hq h.symm
      simp [hq, this]

theorem applyProps_eq_map : ∀ (os : List ObjEnc) (c : Content),
    (∀ o ∈ os, c.any (·.path = o.path) = true) → applyProps c os = c.map (propsFn os) := by
  intro os
  induction os with
  | nil =>
    intro c _
    simp only [applyProps]
    calc c = c.map id := by simp
      _ = c.map (propsFn []) := by
        apply List.map_congr_left
        intro x _
        simp [propsFn]
  | cons o os ih =>
    intro c hpres
    simp only [applyProps]
    rw [modify_present _ (hpres o (List.mem_cons_self ..))]
    rw [ih]
    · rw [List.map_map]
      apply List.map_congr_left
      intro x _
      simp only [Function.comp, propsFn]
      by_cases hx : x.path = o.path
      · simp only [hx, if_true, List.filter_cons, decide_true, List.flatMap_cons, List.foldl_append]
      · have hx' : ¬ o.path = x.path := fun h => hx h.symm
        simp only [hx, if_false, List.filter_cons, hx', decide_false, Bool.false_eq_true]
    · intro o' ho'
      rw [any_path_map _ (by intro x; split <;> rfl)]
      exact hpres o' (List.mem_cons_of_mem _ ho')

theorem declareObjs_present : ∀ (act : List ActiveObj) (c : Content) (q : Bytes),
    (c.any (·.path = q) = true ∨ q ∈ act.map (·.path)) → (declareObjs c act).any (·.path = q) = true := by
  intro act
  induction act with
  | nil =>
    intro c q h
    rcases h with h | h
    · exact h
    · cases h
  | cons a as ih =>
    intro c q h
    simp only [declareObjs]
    apply ih
    rw [modify_any]
    · rcases h with h | h
      · left; simp [h]
      · rw [List.map_cons, List.mem_cons] at h
        rcases h with h | h
        · left; simp [h]
        · right; exact h
    · intro x; rfl

/-- the properties the explicit form lists for a path: those the original listed for it -/
theorem explicit_props (s : SegEnc) (q : Bytes) : ∀ (a : List ActiveObj), (a.map (·.path)).Nodup →
    ((a.map (toEnc s)).filter (·.path = q)).flatMap (·.props) =
      if q ∈ a.map (·.path) then
        (if s.hasMeta then (s.objs.filter (·.path = q)).flatMap (·.props) else [])
      else [] := by
  intro a
  induction a with
  | nil => intro _; simp
  | cons x xs ih =>
    intro hnd
    rw [List.map_cons, List.nodup_cons] at hnd
    rw [List.map_cons, List.filter_cons]
    by_cases hx : x.path = q
    · subst hx
      have hq : x.path ∉ xs.map (·.path) := hnd.1
      simp only [toEnc_path, decide_true, if_true, List.flatMap_cons, ih hnd.2, hq, if_false,
        List.append_nil, List.map_cons, List.mem_cons, true_or]
      rfl
    · have hx' : ¬ q = x.path := fun h => hx h.symm
      simp only [toEnc_path, hx, decide_false, Bool.false_eq_true, if_false, ih hnd.2, List.map_cons,
        List.mem_cons, hx', false_or]

theorem propsFn_explicit (s : SegEnc) (a : List ActiveObj) (hnd : (a.map (·.path)).Nodup)
    (hlisted : s.hasMeta = true → ∀ o ∈ s.objs, o.path ∈ a.map (·.path)) (x : ObjContent) :
    propsFn (a.map (toEnc s)) x = if s.hasMeta then propsFn s.objs x else x := by
  unfold propsFn
  rw [explicit_props s x.path a hnd]
  by_cases hm : s.hasMeta = true
  · simp only [hm, if_true]
    by_cases hq : x.path ∈ a.map (·.path)
    · simp only [hq, if_true]
    · simp only [hq, if_false]
      have : s.objs.filter (·.path = x.path) = [] := by
        rw [List.filter_eq_nil_iff]
        intro o ho
        simp only [decide_eq_true_eq]
        intro hox
        exact hq (hox ▸ hlisted hm o ho)
      rw [this]
      rfl
  · have hm' : s.hasMeta = false := by simpa using hm
    simp only [hm', Bool.false_eq_true, if_false, ite_self, List.foldl_nil]

theorem addChunk_explicit (s : SegEnc) (a : List ActiveObj) :
    addChunk (explicitSeg s a) a = addChunk s a := rfl

theorem denoteSeg_explicit (c : Content) (s : SegEnc) (a : List ActiveObj)
    (hnd : (a.map (·.path)).Nodup)
    (hlisted : s.hasMeta = true → ∀ o ∈ s.objs, o.path ∈ a.map (·.path)) :
    denoteSeg c (explicitSeg s a) a = denoteSeg c s a := by
  unfold denoteSeg
  have h1 : (explicitSeg s a).hasMeta = true := rfl
  have h2 : (explicitSeg s a).chunks = s.chunks := rfl
  simp only [h1, if_true, h2, addChunk_explicit, explicitSeg_objs]
  congr 1
  rw [applyProps_eq_map]
  · by_cases hm : s.hasMeta = true
    · simp only [hm, if_true]
      rw [applyProps_eq_map]
      · apply List.map_congr_left
        intro x _
        rw [propsFn_explicit s a hnd hlisted, hm]
        rfl
      · intro o ho
        exact declareObjs_present a c o.path (Or.inr (hlisted hm o ho))
    · have hm' : s.hasMeta = false := by simpa using hm
      simp only [hm', Bool.false_eq_true, if_false]
      calc (declareObjs c a).map (propsFn (a.map (toEnc s))) = (declareObjs c a).map id := by
            apply List.map_congr_left
            intro x _
            rw [propsFn_explicit s a hnd hlisted, hm']
            rfl
        _ = declareObjs c a := by simp
  · intro o ho
    rw [List.mem_map] at ho
    obtain ⟨x, hx, rfl⟩ := ho
    exact declareObjs_present a c _ (Or.inr (List.mem_map.2 ⟨x, hx, rfl⟩))

theorem denoteSegs_explicit : ∀ (ss : List SegEnc) (prev : Option (List ActiveObj)) (last : LastIdx)
    (acts : List (List ActiveObj)) (c : Content),
    activeLists prev last ss = .ok acts → SpecInv prev last → (∀ s ∈ ss, noDupPaths s.objs = true) →
    denoteSegs c (explicitSegs ss acts) acts = denoteSegs c ss acts := by
  intro ss
  induction ss with
  | nil =>
    intro prev last acts c h _ _
    simp only [activeLists] at h
    cases h
    rfl
  | cons s ss ih =>
    intro prev last acts c h hinv hnd
    unfold activeLists at h
    cases hseg : activeOfSeg prev last s with
    | error r => rw [hseg] at h; cases h
    | ok al =>
      obtain ⟨a, last'⟩ := al
      rw [hseg] at h
      simp only [] at h
      cases hrest : activeLists (some a) last' ss with
      | error r => rw [hrest] at h; cases h
      | ok as =>
        rw [hrest] at h
        cases h
        have hpost := activeOfSeg_post hinv (hnd s (List.mem_cons_self ..)) hseg
        simp only [explicitSegs, denoteSegs]
        rw [denoteSeg_explicit c s a hpost.nodup hpost.listed]
        exact ih (some a) last' as _ hrest hpost.specInv (fun s' hs' => hnd s' (List.mem_cons_of_mem _ hs'))

/-- well-formed encodings have no duplicate paths in any listing -/
theorem wfSegs_noDup : ∀ (e : List SegEnc) (acts : List (List ActiveObj)), wfSegs e acts = true →
    ∀ s ∈ e, noDupPaths s.objs = true := by
  intro e
  induction e with
  | nil => intro _ _ s hs; cases hs
  | cons s ss ih =>
    intro acts h s' hs'
    cases acts with
    | nil => simp [wfSegs] at h
    | cons a as =>
      simp only [wfSegs, Bool.and_eq_true] at h
      rcases List.mem_cons.1 hs' with rfl | hs'
      · have := h.1
        simp only [wfSeg, Bool.and_eq_true] at this
        exact this.1.1.1.1.2
      · exact ih as h.2 s' hs'

theorem wellFormed_noDup {e : FileEnc} (h : wellFormed e = true) : ∀ s ∈ e, noDupPaths s.objs = true := by
  unfold wellFormed at h
  cases ha : activeLists none [] e with
  | error r => rw [ha] at h; cases h
  | ok acts => rw [ha] at h; exact wfSegs_noDup e acts h

end Tdms.Proofs.C02
