/-
  C03 (mixed files) — every window, `read_data(offset, length)` and `channel[a:b:c]` on files mixing
  contiguous and interleaved segments against the eager values: the C04 link lemma over the actual
  supplier `supW`, the coalescing congruence `windowPureG_supEquiv`, and C04's window theorem.
  Core Lean only.
-/
import TdmsProofs.Lemmas.C03MixedVals
import TdmsProofs.Lemmas.C03Main
import TdmsProofs.Lemmas.C04SliceLemmas

namespace Tdms.Proofs.C03

open Tdms Tdms.Generated Tdms.Model Tdms.Proofs.Bytes Tdms.Proofs.C04 Tdms.Proofs.C01Compose

/-- the pure window over the chunk lists the segment reads really return (coalesced for interleaved
    segments) is the slice of the eager values -/
theorem windowPureG_supW (f : OpenFile) (p : Bytes) (m : ObjMeta)
    (hok : SegsWOk f.file f.segments) (hc : ChanOk f.objects f.segments p m)
    (offset : Int) (length : Option Int) (h0 : 0 ≤ offset) (hl : ∀ l, length = some l → 0 ≤ l) :
    dataOf (windowPureG f.segments p m.numValues (supW f.file f.segments p) offset length)
      = takeOpt length ((eagerW f.file f.segments p).drop offset.toNat) := by
  have hvals := valsOk_wVals f.file f.segments p hok hc.wf
  rw [windowPureG_supEquiv f.segments p _ m.numValues hc.wf hvals hc.num _
      (supEquiv_supW f.file f.segments p hok) offset length h0 hl,
    window_eq_slice_segments f.segments p _ m.numValues hc.wf hvals hc.num offset length h0 hl,
    full_wVals f.file f.segments p hok hc.wf]

/-- the chunks `read_raw_data_for_channel(path, offset, length)` yields carry `eager[offset : offset + length]` -/
theorem readRawDataForChannel_windowW (f : OpenFile) (p : Bytes) (m : ObjMeta)
    (hok : SegsWOk f.file f.segments) (hc : ChanOk f.objects f.segments p m)
    (offset : Int) (length : Option Int) (h0 : 0 ≤ offset) (hl : ∀ l, length = some l → 0 ≤ l) (st : FState) :
    ∃ cs st', (readRawDataForChannel f p offset length).run st = .ok (cs, st') ∧
      dataOf cs = takeOpt length ((eagerW f.file f.segments p).drop offset.toNat) := by
  have hnum : ((f.objects.get p).map (·.numValues)).getD 0 = m.numValues := by rw [hc.get]; rfl
  have hreads := readsAs_supW f p m.numValues hok hc.wf hc.num offset length h0 hl
  rw [← hnum] at hreads
  obtain ⟨st', hrun⟩ := readRawDataForChannel_eq_windowPureG f p offset length _ hreads st
  rw [hnum] at hrun
  exact ⟨_, st', hrun, windowPureG_supW f p m hok hc offset length h0 hl⟩

/-- `read_data(offset, length)` returns `eager[offset : offset + length]` -/
theorem channelReadData_windowW (f : OpenFile) (p : Bytes) (m : ObjMeta)
    (hok : SegsWOk f.file f.segments) (hc : ChanOk f.objects f.segments p m) (hty : m.dataType.isSome = true)
    (offset : Int) (length : Option Int) (h0 : 0 ≤ offset) (hl : ∀ l, length = some l → 0 ≤ l) (st : FState) :
    ∃ st' r, (channelReadData f p offset length).run st = .ok (some r, st') ∧
      r.data.getD [] = takeOpt length ((eagerW f.file f.segments p).drop offset.toNat) := by
  have hreads := readsAs_supW f p m.numValues hok hc.wf hc.num offset length h0 hl
  obtain ⟨st', r, hrun, hr⟩ := channelReadData_eq_windowPure f p m offset length _ hc.get hty h0 hl hreads st
  exact ⟨st', r, hrun, by rw [hr]; exact windowPureG_supW f p m hok hc offset length h0 hl⟩

/-- `channel[a:b:c]` on a mixed file is CPython's slice of the eager values -/
theorem channelReadSlice_eagerW (f : OpenFile) (p : Bytes) (m : ObjMeta)
    (hok : SegsWOk f.file f.segments) (hc : ChanOk f.objects f.segments p m) (hty : m.dataType.isSome = true)
    (a b c : Option Int) (st : FState) :
    match Tdms.Spec.PySlice.pySlice (eagerW f.file f.segments p) a b c with
    | .error _ => (channelReadSlice f p a b c).run st = .error .stepZero
    | .ok xs => ∃ st', (channelReadSlice f p a b c).run st = .ok (xs, st') := by
  have hspec := sliceResult_eq_pySlice (eagerW f.file f.segments p) a b c
  have hlen := eagerW_length f.file f.segments p hok hc.wf
  rw [← hc.num] at hlen
  unfold sliceResult at hspec
  rw [hlen] at hspec
  rw [channelReadSlice_eq, hc.get]
  simp only [Option.map_some, Option.getD_some]
  cases hreq : sliceRequest (m.numValues : Int) a b c with
  | error e =>
    rw [hreq] at hspec
    cases hpy : Tdms.Spec.PySlice.pySlice (eagerW f.file f.segments p) a b c with
    | error u =>
      rw [hpy] at hspec
      simp only [Except.mapError, Except.error.injEq] at hspec
      subst hspec; rfl
    | ok xs => rw [hpy] at hspec; simp [Except.mapError] at hspec
  | ok r =>
    rw [hreq] at hspec
    cases r with
    | none =>
      cases hpy : Tdms.Spec.PySlice.pySlice (eagerW f.file f.segments p) a b c with
      | error u => rw [hpy] at hspec; simp [Except.mapError] at hspec
      | ok xs =>
        rw [hpy] at hspec
        simp only [Except.mapError, Except.ok.injEq] at hspec
        subst hspec
        exact ⟨st, rfl⟩
    | some t =>
      obtain ⟨off, l, stp⟩ := t
      obtain ⟨h0, hl0, _, _⟩ := sliceRequest_in_range m.numValues a b c off l stp hreq
      obtain ⟨st', r, hrun, hr⟩ := channelReadData_windowW f p m hok hc hty off (some l) h0
        (by intro l' h; cases h; exact hl0) st
      cases hpy : Tdms.Spec.PySlice.pySlice (eagerW f.file f.segments p) a b c with
      | error u => rw [hpy] at hspec; simp [Except.mapError] at hspec
      | ok xs =>
        rw [hpy] at hspec
        simp only [Except.mapError, Except.ok.injEq] at hspec
        refine ⟨st', ?_⟩
        simp only [bind, StateT.bind, StateT.run, Except.bind] at hrun ⊢
        rw [hrun]
        simp only [takeOpt] at hr
        simp only []
        rw [hr, hspec]
        rfl

end Tdms.Proofs.C03
