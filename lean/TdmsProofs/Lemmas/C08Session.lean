import TdmsProofs.Lemmas.C08Segment
import TdmsProofs.Properties.C16

/-!
# C08: sessions and programs — what is written, root first, groups before channels

Core Lean only.
-/

namespace Tdms.Proofs.C08
open Tdms Tdms.Strict Tdms.Model.Writer Tdms.Generated Tdms.Proofs.BytesW Tdms.Model.Path

/-! ## the object lists a session / a program writes -/

/-- the object lists `write_segment` writes in one session, in order (`none`: duplicate paths) -/
def sessionSegs : WriterState → List (List WObj) → Option (List (List WObj))
  | _, [] => some []
  | st, seg :: rest =>
    match segmentObjects st seg with
    | none => none
    | some (objs, st') =>
      match sessionSegs st' rest with
      | none => none
      | some L => some (objs :: L)

/-- per session, the object lists written -/
def programSegs : List (List (List WObj)) → Option (List (List (List WObj)))
  | [] => some []
  | s :: rest =>
    match sessionSegs {} s, programSegs rest with
    | some L, some Ls => some (L :: Ls)
    | _, _ => none

theorem writeSession_eq (v : Nat) (st : WriterState) (segs : List (List WObj)) :
    writeSession v st segs =
      (sessionSegs st segs).map fun L => (L.flatMap (writeSegment false v), L.flatMap (writeSegment true v)) := by
  induction segs generalizing st with
  | nil => rfl
  | cons s ss ih =>
    simp only [writeSession, sessionSegs]
    cases hso : segmentObjects st s with
    | none => rfl
    | some r =>
      obtain ⟨objs, st'⟩ := r
      simp only
      rw [ih st']
      cases sessionSegs st' ss with
      | none => rfl
      | some L => simp

theorem writeProgram_eq (v : Nat) (prog : List (List (List WObj))) :
    writeProgram v prog =
      (programSegs prog).map fun Ls =>
        (Ls.flatten.flatMap (writeSegment false v), Ls.flatten.flatMap (writeSegment true v)) := by
  induction prog with
  | nil => rfl
  | cons s rest ih =>
    simp only [writeProgram, programSegs]
    rw [writeSession_eq, ih]
    cases sessionSegs {} s with
    | none => rfl
    | some L =>
      cases programSegs rest with
      | none => rfl
      | some Ls => simp

/-! ## `sorted(set(...))` and the stable sort keep the elements -/

theorem mem_insertSorted (x y : Bytes) (l : List Bytes) : y ∈ insertSorted x l ↔ y = x ∨ y ∈ l := by
  induction l with
  | nil => simp [insertSorted]
  | cons z zs ih =>
    simp only [insertSorted]
    split
    · simp
    · split
      · rename_i hxz; subst hxz; simp
      · simp only [List.mem_cons, ih]
        constructor
        · rintro (h | h | h) <;> simp [h]
        · rintro (h | h | h) <;> simp [h]

theorem mem_foldl_insertSorted (y : Bytes) (l acc : List Bytes) :
    y ∈ l.foldl (fun acc x => insertSorted x acc) acc ↔ y ∈ acc ∨ y ∈ l := by
  induction l generalizing acc with
  | nil => simp
  | cons x xs ih =>
    simp only [List.foldl_cons, ih, mem_insertSorted, List.mem_cons]
    constructor
    · rintro ((h | h) | h) <;> simp [h]
    · rintro (h | h | h) <;> simp [h]

theorem mem_sortedSet (y : Bytes) (l : List Bytes) : y ∈ sortedSet l ↔ y ∈ l := by
  simp [sortedSet, mem_foldl_insertSorted]

theorem key_cases (o : WObj) : o.key = 0 ∨ o.key = 1 ∨ o.key = 2 := by
  cases o <;> simp [WObj.key]

theorem mem_stableSortByKey (o : WObj) (l : List WObj) : o ∈ stableSortByKey l ↔ o ∈ l := by
  simp only [stableSortByKey, List.mem_append, List.mem_filter, decide_eq_true_eq]
  have := key_cases o
  constructor
  · rintro ((h | h) | h) <;> exact h.1
  · intro h; rcases this with k | k | k <;> simp [h, k]

/-! ## groups before channels -/

/-- names of the group objects of a list -/
def groupNames (l : List WObj) : List Bytes :=
  l.filterMap fun o => match o with | .group g _ => some g | _ => none

/-- every channel is preceded by its group object, or its group is in `seen` -/
def GroupsBefore : List Bytes → List WObj → Prop
  | _, [] => True
  | seen, .root _ :: os => GroupsBefore seen os
  | seen, .group g _ :: os => GroupsBefore (g :: seen) os
  | seen, .channel g _ _ _ :: os => g ∈ seen ∧ GroupsBefore seen os

theorem GroupsBefore.mono {s1 s2 : List Bytes} {os : List WObj} (hsub : ∀ g, g ∈ s1 → g ∈ s2)
    (h : GroupsBefore s1 os) : GroupsBefore s2 os := by
  induction os generalizing s1 s2 with
  | nil => trivial
  | cons o os ih =>
    cases o with
    | root p => exact ih hsub h
    | group g p =>
      exact ih (s1 := g :: s1) (s2 := g :: s2) (by intro x hx; simp at hx ⊢; rcases hx with h | h; exact .inl h; exact .inr (hsub _ h)) h
    | channel g c d p => exact ⟨hsub _ h.1, ih hsub h.2⟩

theorem groupNames_cons_group (g : Bytes) (p : List WProp) (os : List WObj) :
    groupNames (.group g p :: os) = g :: groupNames os := rfl
theorem groupNames_cons_root (p : List WProp) (os : List WObj) :
    groupNames (.root p :: os) = groupNames os := rfl
theorem groupNames_cons_channel (g c : Bytes) (d : WData) (p : List WProp) (os : List WObj) :
    groupNames (.channel g c d p :: os) = groupNames os := rfl

theorem groupNames_append (a b : List WObj) : groupNames (a ++ b) = groupNames a ++ groupNames b := by
  simp [groupNames, List.filterMap_append]

theorem GroupsBefore.append {seen : List Bytes} {a b : List WObj} (ha : GroupsBefore seen a)
    (hb : GroupsBefore (groupNames a ++ seen) b) : GroupsBefore seen (a ++ b) := by
  induction a generalizing seen with
  | nil => simpa [groupNames] using hb
  | cons o os ih =>
    cases o with
    | root p => exact ih (seen := seen) ha (by simpa [groupNames_cons_root] using hb)
    | group g p =>
      refine ih (seen := g :: seen) ha (GroupsBefore.mono ?_ hb)
      intro x hx
      simp [groupNames_cons_group] at hx ⊢
      rcases hx with h | h | h <;> simp [h]
    | channel g c d p =>
      exact ⟨ha.1, ih (seen := seen) ha.2 (by simpa [groupNames_cons_channel] using hb)⟩

/-- in plain words: wherever a channel stands, its group object stands before it -/
theorem GroupsBefore.spec {seen : List Bytes} {os a b : List WObj} {g c : Bytes} {d : WData} {p : List WProp}
    (h : GroupsBefore seen os) (hos : os = a ++ .channel g c d p :: b) :
    g ∈ seen ∨ ∃ props, WObj.group g props ∈ a := by
  induction a generalizing seen os with
  | nil => subst hos; exact .inl h.1
  | cons o a ih =>
    subst hos
    cases o with
    | root q =>
      rcases ih (seen := seen) (os := a ++ .channel g c d p :: b) h rfl with h1 | ⟨props, h1⟩
      · exact .inl h1
      · exact .inr ⟨props, by simp [h1]⟩
    | group g' q =>
      rcases ih (seen := g' :: seen) (os := a ++ .channel g c d p :: b) h rfl with h1 | ⟨props, h1⟩
      · rcases List.mem_cons.mp h1 with h2 | h2
        · subst h2; exact .inr ⟨q, by simp⟩
        · exact .inl h2
      · exact .inr ⟨props, by simp [h1]⟩
    | channel g' c' d' q =>
      rcases ih (seen := seen) (os := a ++ .channel g c d p :: b) h.2 rfl with h1 | ⟨props, h1⟩
      · exact .inl h1
      · exact .inr ⟨props, by simp [h1]⟩

theorem GroupsBefore_of_no_channel {seen : List Bytes} {l : List WObj} (h : ∀ o ∈ l, o.key ≠ 2) :
    GroupsBefore seen l := by
  induction l generalizing seen with
  | nil => trivial
  | cons o os ih =>
    have ht := fun q hq => h q (List.mem_cons_of_mem _ hq)
    cases o with
    | root p => exact ih ht
    | group g p => exact ih ht
    | channel g c d p => exact absurd rfl (h (.channel g c d p) (by simp))

theorem GroupsBefore_of_channels {seen : List Bytes} {l : List WObj}
    (h : ∀ o ∈ l, match o with | .channel g _ _ _ => g ∈ seen | _ => False) : GroupsBefore seen l := by
  induction l with
  | nil => trivial
  | cons o os ih =>
    have ht := fun q hq => h q (List.mem_cons_of_mem _ hq)
    have ho := h o (by simp)
    cases o with
    | root p => exact ho.elim
    | group g p => exact ho.elim
    | channel g c d p => exact ⟨ho, ih ht⟩

@[simp] theorem key_root (p : List WProp) : (WObj.root p).key = 0 := rfl
@[simp] theorem key_group (g : Bytes) (p : List WProp) : (WObj.group g p).key = 1 := rfl
@[simp] theorem key_channel (g c : Bytes) (d : WData) (p : List WProp) : (WObj.channel g c d p).key = 2 := rfl

theorem groupNames_filter_key2 (l : List WObj) : groupNames (l.filter (·.key = 2)) = [] := by
  induction l with
  | nil => rfl
  | cons o os ih => cases o <;> simp [groupNames_cons_channel, ih]

theorem groupNames_filter_key0 (l : List WObj) : groupNames (l.filter (·.key = 0)) = [] := by
  induction l with
  | nil => rfl
  | cons o os ih => cases o <;> simp [groupNames_cons_root, ih]

theorem groupNames_filter_key1 (l : List WObj) : groupNames (l.filter (·.key = 1)) = groupNames l := by
  induction l with
  | nil => rfl
  | cons o os ih =>
    cases o <;> simp [groupNames_cons_root, groupNames_cons_group,
      groupNames_cons_channel, ih]

theorem groupNames_map_group (l : List Bytes) : groupNames (l.map fun g => WObj.group g []) = l := by
  induction l with
  | nil => rfl
  | cons g gs ih => simp [groupNames_cons_group, ih]

theorem ite_none_some {α} {c : Prop} [Decidable c] {x y : α}
    (h : (if c then none else some x) = some y) : x = y := by
  split at h
  · cases h
  · exact Option.some.inj h

/-- one `write_segment` call: the list written has its channels after their groups (given the
    groups of earlier segments), contains a root if none was written yet, and the state remembers
    every group written -/
theorem segmentObjects_inv {st st' : WriterState} {objs sorted : List WObj} {seen : List Bytes}
    (h : segmentObjects st objs = some (sorted, st')) (hseen : ∀ g, g ∈ st.groupsWritten → g ∈ seen) :
    GroupsBefore seen sorted ∧ (∀ g, g ∈ st'.groupsWritten → g ∈ groupNames sorted ++ seen) ∧
    (st.rootWritten = false → ∃ o ∈ sorted, o.key = 0) ∧ st'.rootWritten = true := by
  unfold segmentObjects at h
  simp only at h
  have h := ite_none_some h
  · injection h with h1 h2
    -- names
    generalize hinc : (objs.filterMap fun o => match o with | .group g _ => some g | _ => none) = included at *
    generalize hreq : (objs.filterMap fun o => match o with | .channel g _ _ _ => some g | _ => none) = required at *
    generalize htoAdd : sortedSet (required.filter fun g => !(included.contains g) && !(st.groupsWritten.contains g)) = toAdd at *
    generalize hroot : (if (!st.rootWritten && !(objs.any (·.key = 0))) = true then [WObj.root []] else []) = rootL at *
    generalize hall : objs ++ rootL ++ toAdd.map (fun g => WObj.group g []) = all at *
    have hgn_objs : groupNames objs = included := hinc
    have hgn_rootL : groupNames rootL = [] := by
      rw [← hroot]; split <;> rfl
    have hgn_all : groupNames all = included ++ toAdd := by
      rw [← hall, groupNames_append, groupNames_append, hgn_objs, hgn_rootL, groupNames_map_group]; simp
    subst h1
    refine ⟨?_, ?_, ?_, ?_⟩
    · -- groups before channels
      unfold stableSortByKey
      apply GroupsBefore.append
      · apply GroupsBefore.append
        · exact GroupsBefore_of_no_channel (by intro o ho; simp at ho; omega)
        · exact GroupsBefore_of_no_channel (by intro o ho; simp at ho; omega)
      · rw [groupNames_append, groupNames_filter_key0, groupNames_filter_key1, hgn_all]
        apply GroupsBefore_of_channels
        intro o ho
        simp only [List.mem_filter, decide_eq_true_eq] at ho
        obtain ⟨hmem, hkey⟩ := ho
        cases o with
        | root p => simp at hkey
        | group g p => simp at hkey
        | channel g c d p =>
          simp only
          -- the channel comes from `objs`
          have hin : WObj.channel g c d p ∈ objs := by
            rw [← hall] at hmem
            simp only [List.mem_append, List.mem_map] at hmem
            rcases hmem with (h | h) | ⟨x, _, h⟩
            · exact h
            · rw [← hroot] at h; split at h <;> simp at h
            · cases h
          have hreqm : g ∈ required := by
            rw [← hreq]; simp only [List.mem_filterMap]
            exact ⟨_, hin, rfl⟩
          by_cases hi : g ∈ included
          · simp [hi]
          · by_cases hw : g ∈ st.groupsWritten
            · simp [hseen g hw]
            · have : g ∈ toAdd := by
                rw [← htoAdd, mem_sortedSet]
                simp [hreqm, hi, hw]
              simp [this]
    · -- the state remembers
      intro g hg
      rw [← h2] at hg
      simp only [List.mem_append] at hg
      unfold stableSortByKey
      rw [groupNames_append, groupNames_append, groupNames_filter_key0, groupNames_filter_key1, hgn_all]
      rw [groupNames_filter_key2]
      simp only [List.nil_append, List.append_nil, List.mem_append]
      rcases hg with (h | h) | h
      · exact .inr (hseen g h)
      · exact .inl (.inl h)
      · exact .inl (.inr h)
    · -- a root is there
      intro hrw
      by_cases hany : objs.any (·.key = 0) = true
      · obtain ⟨o, ho, hk⟩ := List.any_eq_true.mp hany
        refine ⟨o, (mem_stableSortByKey _ _).mpr ?_, by simpa using hk⟩
        rw [← hall]; simp [ho]
      · refine ⟨WObj.root [], (mem_stableSortByKey _ _).mpr ?_, rfl⟩
        rw [← hall, ← hroot, hrw]
        simp [hany]
    · rw [← h2]

/-- a whole session: invariant over the `write_segment` call list -/
theorem sessionSegs_groupsBefore {st : WriterState} {segs L : List (List WObj)} {seen : List Bytes}
    (h : sessionSegs st segs = some L) (hseen : ∀ g, g ∈ st.groupsWritten → g ∈ seen) :
    GroupsBefore seen L.flatten := by
  induction segs generalizing st L seen with
  | nil => cases h; trivial
  | cons s ss ih =>
    simp only [sessionSegs] at h
    cases hso : segmentObjects st s with
    | none => simp [hso] at h
    | some r =>
      obtain ⟨objs, st'⟩ := r
      rw [hso] at h
      simp only at h
      cases hrest : sessionSegs st' ss with
      | none => simp [hrest] at h
      | some L' =>
        rw [hrest] at h
        cases h
        obtain ⟨h1, h2, _, _⟩ := segmentObjects_inv hso hseen
        rw [List.flatten_cons]
        exact GroupsBefore.append h1 (ih hrest h2)

/-- the first segment of a fresh session contains the root object -/
theorem sessionSegs_rootFirst {st : WriterState} {segs L : List (List WObj)}
    (h : sessionSegs st segs = some L) (hst : st.rootWritten = false) :
    ∀ first, L.head? = some first → ∃ o ∈ first, o.key = 0 := by
  cases segs with
  | nil => cases h; intro f hf; cases hf
  | cons s ss =>
    simp only [sessionSegs] at h
    cases hso : segmentObjects st s with
    | none => simp [hso] at h
    | some r =>
      obtain ⟨objs, st'⟩ := r
      rw [hso] at h
      simp only at h
      cases hrest : sessionSegs st' ss with
      | none => simp [hrest] at h
      | some L' =>
        rw [hrest] at h
        cases h
        intro f hf
        simp at hf
        subst hf
        exact (segmentObjects_inv (seen := st.groupsWritten) hso (fun _ h => h)).2.2.1 hst

/-! ## programs -/

theorem programSegs_sessions {prog : List (List (List WObj))} {Ls : List (List (List WObj))}
    (h : programSegs prog = some Ls) : ∀ L ∈ Ls, ∃ s, sessionSegs {} s = some L := by
  induction prog generalizing Ls with
  | nil => cases h; intro L hL; cases hL
  | cons s rest ih =>
    simp only [programSegs] at h
    cases hs : sessionSegs {} s with
    | none => simp [hs] at h
    | some L0 =>
      cases hr : programSegs rest with
      | none => simp [hs, hr] at h
      | some Ls' =>
        rw [hs, hr] at h
        cases h
        intro L hL
        rcases List.mem_cons.mp hL with rfl | hL
        · exact ⟨s, hs⟩
        · exact ih hr L hL

theorem program_groupsBefore {Ls : List (List (List WObj))} (h : ∀ L ∈ Ls, ∃ s, sessionSegs {} s = some L)
    (seen : List Bytes) : GroupsBefore seen Ls.flatten.flatten := by
  induction Ls generalizing seen with
  | nil => trivial
  | cons L Ls ih =>
    obtain ⟨s, hs⟩ := h L (by simp)
    rw [List.flatten_cons, List.flatten_append]
    exact GroupsBefore.append (sessionSegs_groupsBefore hs (by intro g hg; cases hg))
      (ih (fun L' hL' => h L' (by simp [hL'])) _)

theorem program_rootFirst {Ls : List (List (List WObj))} (h : ∀ L ∈ Ls, ∃ s, sessionSegs {} s = some L) :
    ∀ first, Ls.flatten.head? = some first → ∃ o ∈ first, o.key = 0 := by
  induction Ls with
  | nil => intro f hf; cases hf
  | cons L Ls ih =>
    obtain ⟨s, hs⟩ := h L (by simp)
    intro f hf
    rw [List.flatten_cons] at hf
    cases L with
    | nil => exact ih (fun L' hL' => h L' (by simp [hL'])) f (by simpa using hf)
    | cons a as => exact sessionSegs_rootFirst hs rfl f (by simpa using hf)

/-! ## the strict parser's `parentsFirst` on the parsed segments (through C16's path round trip) -/

theorem pathComponents_path (comps : List Bytes) :
    pathComponentsBytes (componentsToPathBytes comps) = .ok comps :=
  Tdms.Proofs.C16.path_roundtrip (by decide) comps

theorem go_ok (os : List WObj) (seen : List Bytes) (h : GroupsBefore seen os) :
    parentsFirst.go (os.map (·.path)) seen = .ok () := by
  induction os generalizing seen with
  | nil => rfl
  | cons o os ih =>
    cases o with
    | root p =>
      simp only [List.map_cons, WObj.path, parentsFirst.go, pathComponents_path]
      exact ih seen h
    | group g p =>
      simp only [List.map_cons, WObj.path, parentsFirst.go, pathComponents_path]
      exact ih _ h
    | channel g c d p =>
      simp only [List.map_cons, WObj.path, parentsFirst.go, pathComponents_path]
      have : seen.contains g = true := by simpa using h.1
      rw [if_pos this]
      exact ih _ h.2

theorem paths_expectedSegs (v : Nat) (L : List (List WObj)) :
    ((L.map (expectedSeg v)).flatMap fun s => s.objs.map (·.path)) = L.flatten.map (·.path) := by
  induction L with
  | nil => rfl
  | cons a L ih =>
    simp only [List.map_cons, List.flatMap_cons, List.flatten_cons, List.map_append, ih]
    congr 1
    simp [expectedSeg, toPObj]

theorem parentsFirst_ok (v : Nat) (L : List (List WObj)) (hgb : GroupsBefore [] L.flatten)
    (hroot : ∀ first, L.head? = some first → ∃ o ∈ first, o.key = 0) :
    parentsFirst (L.map (expectedSeg v)) = .ok () := by
  unfold parentsFirst
  rw [paths_expectedSegs]
  simp only [go_ok _ _ hgb]
  cases L with
  | nil => rfl
  | cons a L =>
    obtain ⟨o, ho, hk⟩ := hroot a rfl
    have : ((expectedSeg v a).objs.any fun o => o.path = componentsToPathBytes []) = true := by
      simp only [expectedSeg, List.any_map, List.any_eq_true]
      refine ⟨o, ho, ?_⟩
      cases o with
      | root p => simp [toPObj, WObj.path]
      | group g p => simp at hk
      | channel g c d p => simp at hk
    simp [this]
end Tdms.Proofs.C08
